import CkbVerif.Lemmas.IndexerBounded
import CkbVerif.Lemmas.IndexerCells

/-! LIMIT / CURSOR: walking the pages of `get_cells` / `get_transactions` with any limit ≥ 1, following
`last_cursor` until a page comes back empty, concatenates to exactly the unlimited answer (C18). -/
namespace CkbVerif.Indexer
open CkbVerif.Gen.Indexer

/-- the rows in iteration direction -/
def dirRows (rows : List (Key × Val)) (desc : Bool) : List (Key × Val) :=
  if desc then rows.reverse else rows

/-- `x` is iterated strictly before `y` -/
def dirLt (desc : Bool) (x y : Key × Val) : Prop := if desc then rowLt y x else rowLt x y

theorem dirRows_sorted (rows : List (Key × Val)) (desc : Bool) (h : rows.Pairwise rowLt) :
    (dirRows rows desc).Pairwise (dirLt desc) := by
  cases desc with
  | false =>
    simp only [dirRows, Bool.false_eq_true, if_false]
    exact h.imp (fun hab => by simpa [dirLt] using hab)
  | true =>
    simp only [dirRows, if_true]
    rw [List.pairwise_reverse]
    exact h.imp (fun hab => by simpa [dirLt] using hab)

theorem dropWhile_split {α : Type} (p : α → Bool) (A : List α) (e : α) (B : List α)
    (hA : ∀ x ∈ A, p x = true) (he : p e = false) : (A ++ e :: B).dropWhile p = e :: B := by
  induction A with
  | nil => simp [List.dropWhile_cons, he]
  | cons a t ih =>
    rw [List.cons_append, List.dropWhile_cons, hA a (by simp)]
    exact ih (fun x hx => hA x (by simp [hx]))

theorem afterCursor_none (rows : List (Key × Val)) (desc : Bool) :
    afterCursor rows desc none = dirRows rows desc := rfl

/-- following a cursor that is the key of an iterated row resumes exactly after that row -/
theorem afterCursor_some (rows : List (Key × Val)) (desc : Bool) (h : rows.Pairwise rowLt)
    (A B : List (Key × Val)) (e : Key × Val) (hs : dirRows rows desc = A ++ e :: B) :
    afterCursor rows desc (some e.1.bytes) = B := by
  have hsorted := dirRows_sorted rows desc h
  rw [hs, List.pairwise_append] at hsorted
  obtain ⟨_, _, hAB⟩ := hsorted
  unfold afterCursor
  have hd : (if desc = true then rows.reverse else rows) = A ++ e :: B := hs
  simp only [hd]
  rw [dropWhile_split _ A e B]
  · rfl
  · intro x hx
    have := hAB x hx e (by simp)
    cases desc with
    | false => simpa [dirLt, rowLt] using this
    | true => simpa [dirLt, rowLt] using this
  · cases desc <;> simp [bytesLt_irrefl]

theorem afterCursor_subset (rows : List (Key × Val)) (desc : Bool) (c : Option (List Nat)) (e : Key × Val)
    (h : e ∈ afterCursor rows desc c) : e ∈ rows := by
  unfold afterCursor at h
  have hdir : ∀ x, x ∈ (if desc = true then rows.reverse else rows) → x ∈ rows := by
    intro x hx
    cases desc <;> simpa using hx
  cases c with
  | none => exact hdir e h
  | some c =>
    simp only at h
    exact hdir e ((List.dropWhile_sublist _).subset (List.mem_of_mem_drop h))

/-- the first `n ≥ 1` answers of a filtered iteration: where the iteration stopped -/
theorem take_filterMap_split {α β : Type} (g : α → Option β) :
    ∀ (n : Nat) (B : List α), (B.filterMap g).take n ≠ [] →
      ∃ (B1 : List α) (e : α) (B2 : List α) (a : β), B = B1 ++ e :: B2 ∧ g e = some a ∧
        (B.filterMap g).take n = B1.filterMap g ++ [a] ∧
        B.filterMap g = (B1.filterMap g ++ [a]) ++ B2.filterMap g := by
  intro n B
  induction B generalizing n with
  | nil => intro h; simp at h
  | cons x t ih =>
    intro h
    cases hx : g x with
    | none =>
      have hf : (x :: t).filterMap g = t.filterMap g := by simp [List.filterMap_cons, hx]
      rw [hf] at h
      obtain ⟨B1, e, B2, a, h1, h2, h3, h4⟩ := ih n h
      refine ⟨x :: B1, e, B2, a, by simp [h1], h2, ?_, ?_⟩
      · rw [hf, h3]; simp [List.filterMap_cons, hx]
      · rw [hf, h4]; simp [List.filterMap_cons, hx]
    | some a0 =>
      have hf : (x :: t).filterMap g = a0 :: t.filterMap g := by simp [List.filterMap_cons, hx]
      rw [hf] at h
      cases n with
      | zero => simp at h
      | succ m =>
        by_cases hm : (t.filterMap g).take m = []
        · refine ⟨[], x, t, a0, rfl, hx, ?_, ?_⟩
          · rw [hf, List.take_succ_cons, hm]; rfl
          · rw [hf]; rfl
        · obtain ⟨B1, e, B2, a, h1, h2, h3, h4⟩ := ih m hm
          refine ⟨x :: B1, e, B2, a, by simp [h1], h2, ?_, ?_⟩
          · rw [hf, List.take_succ_cons, h3]; simp [List.filterMap_cons, hx]
          · rw [hf, h4]; simp [List.filterMap_cons, hx]

/-- `last_cursor` of a page: the key of its last answer, or empty -/
def lastKey {α : Type} (key : α → List Nat) (page : List α) : List Nat :=
  match page.getLast? with | some a => key a | none => []

/-- the page walk, abstractly: `g` = decode + filter of one row, `key` = the cursor of an answer -/
def walk {α : Type} (g : Key × Val → Option α) (key : α → List Nat) (rows : List (Key × Val)) (desc : Bool)
    (limit : Nat) : Nat → Option (List Nat) → List (List α)
  | 0, _ => []
  | fuel + 1, cursor =>
    let page := ((afterCursor rows desc cursor).filterMap g).take limit
    if page.isEmpty then [[]] else
      page :: walk g key rows desc limit fuel (some (lastKey key page))

/-- **no row lost, none duplicated**: from any point of the iteration the remaining pages concatenate
to the remaining unlimited answer -/
theorem walk_flatten {α : Type} (g : Key × Val → Option α) (key : α → List Nat)
    (hkey : ∀ e a, g e = some a → key a = e.1.bytes)
    (rows : List (Key × Val)) (desc : Bool) (hs : rows.Pairwise rowLt) (limit : Nat) (hl : 1 ≤ limit) :
    ∀ (fuel : Nat) (cursor : Option (List Nat)) (A B : List (Key × Val)),
      dirRows rows desc = A ++ B → afterCursor rows desc cursor = B → B.length < fuel →
      (walk g key rows desc limit fuel cursor).flatten = B.filterMap g ∧
      (walk g key rows desc limit fuel cursor).getLast? = some [] := by
  intro fuel
  induction fuel with
  | zero => intro _ _ B _ _ h; omega
  | succ fuel ih =>
    intro cursor A B hAB hcur hlen
    unfold walk
    simp only [hcur]
    by_cases hp : ((B.filterMap g).take limit) = []
    · simp only [hp, List.isEmpty_nil, if_true, List.flatten_cons, List.flatten_nil, List.append_nil]
      have : B.filterMap g = [] := by
        cases hb : B.filterMap g with
        | nil => rfl
        | cons a t =>
          rw [hb] at hp
          obtain ⟨m, rfl⟩ : ∃ m, limit = m + 1 := ⟨limit - 1, by omega⟩
          simp at hp
      exact ⟨this.symm, rfl⟩
    · obtain ⟨B1, e, B2, a, h1, h2, h3, h4⟩ := take_filterMap_split g limit B hp
      have hne : ((B.filterMap g).take limit).isEmpty = false := by
        cases hq : (B.filterMap g).take limit with
        | nil => exact absurd hq hp
        | cons _ _ => rfl
      simp only [hne, Bool.false_eq_true, if_false]
      have hlast : ((B.filterMap g).take limit).getLast? = some a := by rw [h3]; simp
      simp only [lastKey, hlast, hkey e a h2]
      have hAB' : dirRows rows desc = (A ++ B1) ++ e :: B2 := by rw [hAB, h1]; simp
      have hcur' := afterCursor_some rows desc hs (A ++ B1) B2 e hAB'
      have hlen' : B2.length < fuel := by
        rw [h1] at hlen; simp at hlen; omega
      obtain ⟨ih1, ih2⟩ := ih (some e.1.bytes) (A ++ B1 ++ [e]) B2 (by rw [hAB']; simp) hcur' hlen'
      refine ⟨?_, ?_⟩
      · rw [List.flatten_cons, ih1, h3, h4]
      · rw [List.getLast?_cons]
        cases hw : walk g key rows desc limit fuel (some e.1.bytes) with
        | nil => rw [hw] at ih2; simp at ih2
        | cons p ps => rw [hw] at ih2; rw [← ih2]; rfl

theorem walk_flatten_start {α : Type} (g : Key × Val → Option α) (key : α → List Nat)
    (hkey : ∀ e a, g e = some a → key a = e.1.bytes)
    (rows : List (Key × Val)) (desc : Bool) (hs : rows.Pairwise rowLt) (limit : Nat) (hl : 1 ≤ limit)
    (fuel : Nat) (hf : rows.length < fuel) :
    (walk g key rows desc limit fuel none).flatten = (dirRows rows desc).filterMap g ∧
    (walk g key rows desc limit fuel none).getLast? = some [] := by
  apply walk_flatten g key hkey rows desc hs limit hl fuel none [] (dirRows rows desc) (by simp)
    (afterCursor_none rows desc)
  cases desc <;> simpa [dirRows] using hf

/-! ## `get_transactions` (ungrouped) -/

/-- decode + exact-mode test + filters of one scanned Tx*Script row -/
def txAnsOf (s : Store) (lockSearch : Bool) (q : Script) (exact : Bool) (fs : Option Script)
    (br : Option (Nat × Nat)) (e : Key × Val) : Option TxRow :=
  (decodeTxRow (txPrefix lockSearch q) exact e).filter (txRowPasses s lockSearch fs br)

theorem txAnsOf_key (s : Store) (lockSearch : Bool) (q : Script) (exact : Bool) (fs : Option Script)
    (br : Option (Nat × Nat)) (e : Key × Val) (a : TxRow)
    (h : txAnsOf s lockSearch q exact fs br e = some a) : a.key = e.1.bytes := by
  unfold txAnsOf at h
  rw [Option.filter_eq_some_iff] at h
  have h1 := h.1
  unfold decodeTxRow at h1
  split at h1
  · cases h1
  · split at h1
    · cases h1; rfl
    · cases h1

theorem getTxs_eq (s : Store) (lockSearch : Bool) (q : Script) (exact : Bool) (fs : Option Script)
    (br : Option (Nat × Nat)) (desc : Bool) (limit : Nat) (cursor : Option (List Nat)) :
    getTxs s lockSearch q exact fs br desc limit cursor =
      let page := ((afterCursor (scan s (txPrefix lockSearch q)) desc cursor).filterMap
        (txAnsOf s lockSearch q exact fs br)).take limit
      (page, lastKey (·.key) page) := by
  unfold getTxs txAnsOf lastKey
  simp only [List.filter_filterMap]
  generalize List.take limit _ = page
  cases page.getLast? <;> rfl

theorem getTxsPages_eq_walk (s : Store) (lockSearch : Bool) (q : Script) (exact : Bool) (fs : Option Script)
    (br : Option (Nat × Nat)) (desc : Bool) (limit : Nat) (fuel : Nat) (cursor : Option (List Nat)) :
    getTxsPages s lockSearch q exact fs br desc limit fuel cursor =
      walk (txAnsOf s lockSearch q exact fs br) (·.key) (scan s (txPrefix lockSearch q)) desc limit fuel cursor := by
  induction fuel generalizing cursor with
  | zero => rfl
  | succ fuel ih =>
    unfold getTxsPages walk
    rw [getTxs_eq]
    simp only
    split
    · rfl
    · rw [ih]

/-! ## `get_cells` -/

theorem cellAnsOf_key (s : Store) (pre : List Nat) (exact : Bool) (f : Filter) (ls li : Bool)
    (e : Key × Val) (a : CellAns) (h : cellAnsOf s pre exact f ls li e = some a) : a.key = e.1.bytes := by
  unfold cellAnsOf at h
  split at h
  · cases h
  · split at h
    · split at h
      · cases h; rfl
      · cases h
    · cases h

/-- every scanned row that passes the exact-length test has its OutPoint row (no `expect` panic) -/
def CellsResolvable (s : Store) (lockSearch : Bool) (q : Script) (exact : Bool) : Prop :=
  ∀ e ∈ scan s (cellPrefix lockSearch q),
    ¬ (exact && e.1.bytes.length ≠ (cellPrefix lockSearch q).length + 16) = true →
      ∃ c, get s (.outPoint ⟨valTx e.2, e.1.io⟩) = some (.cell c)

theorem getCells_eq (s : Store) (lockSearch : Bool) (q : Script) (exact : Bool) (f : Filter)
    (H : CellsResolvable s lockSearch q exact) (desc : Bool) (limit : Nat) (cursor : Option (List Nat)) :
    getCells s lockSearch q exact f desc limit cursor =
      let page := ((afterCursor (scan s (cellPrefix lockSearch q)) desc cursor).filterMap
        (cellAnsOf s (cellPrefix lockSearch q) exact f lockSearch false)).take limit
      some (page, lastKey (·.key) page) := by
  unfold getCells lastKey
  simp only
  rw [cellRows_eq_filterMap s lockSearch q exact f false _
    (fun e he => H e (afterCursor_subset _ _ _ e he))]
  simp only
  generalize List.take limit _ = page
  cases page.getLast? <;> rfl

theorem getCellsPages_eq_walk (s : Store) (lockSearch : Bool) (q : Script) (exact : Bool) (f : Filter)
    (H : CellsResolvable s lockSearch q exact) (desc : Bool) (limit : Nat) (fuel : Nat)
    (cursor : Option (List Nat)) :
    getCellsPages s lockSearch q exact f desc limit fuel cursor =
      some (walk (cellAnsOf s (cellPrefix lockSearch q) exact f lockSearch false) (·.key)
        (scan s (cellPrefix lockSearch q)) desc limit fuel cursor) := by
  induction fuel generalizing cursor with
  | zero => rfl
  | succ fuel ih =>
    unfold getCellsPages walk
    rw [getCells_eq s lockSearch q exact f H]
    simp only
    split
    · rfl
    · rw [ih]

end CkbVerif.Indexer
