/-
C11 helper lemmas, part 11: the "derived links" direction of the links clause.

`p` is linked as a parent of `c` only if `c` spends / depends on an output of `p` or consumes a cell
that `p` references as a cell dep (`sound`), and whenever `c` spends / depends on an actual output of
`p` the link is there (`complete`); and `edges.deps` records every dep of every pooled transaction
(`depRecd`).  `hole`: during `resolve_conflict` the dep records of one out-point are dropped before their
users are removed; `DerivedX (some i)` is the invariant of those intermediate states.
-/
import CkbVerif.Lemmas.PoolAgg
import CkbVerif.Lemmas.PoolEdge
namespace CkbVerif.Pool

/-- `c` references (as input or cell dep) some out-point of transaction `p` -/
def refsTx (p c : Tx) : Prop := ∃ o ∈ c.inputs ++ c.deps, o.tx = p.id
/-- `c` references an out-point that `p` actually creates -/
def spendsOut (p c : Tx) : Prop := ∃ o ∈ c.inputs ++ c.deps, o.tx = p.id ∧ o.idx < p.nout
/-- `c` consumes a cell that `p` only references as a cell dep (`p` has to be committed first) -/
def consumesDep (p c : Tx) : Prop := ∃ o ∈ c.inputs, o ∈ p.deps

structure DerivedX (hole : Option OutPt) (s : Pool) : Prop where
  depRecd : ∀ t ∈ txs s, ∀ o ∈ t.deps, some o ≠ hole → t.id ∈ depUsers s o
  sound : ∀ tp ∈ txs s, ∀ tc ∈ txs s, tp.id ∈ parentsOf s.links tc.id → refsTx tp tc ∨ consumesDep tp tc
  complete : ∀ tp ∈ txs s, ∀ tc ∈ txs s, spendsOut tp tc → tp.id ∈ parentsOf s.links tc.id

abbrev DerivedOK (s : Pool) : Prop := DerivedX none s

theorem DerivedX.congr {s s' : Pool} {hole : Option OutPt} (h : DerivedX hole s) (ht : txs s' = txs s)
    (hd : s'.deps = s.deps) (hl : s'.links = s.links) : DerivedX hole s' := by
  constructor
  · intro t ht' o ho hne
    rw [ht] at ht'; rw [depUsers_eq, hd]; exact h.depRecd t ht' o ho hne
  · rw [ht, hl]; exact h.sound
  · rw [ht, hl]; exact h.complete

/-! ### removals -/

theorem foldDelete_keeps (ds : List OutPt) (rid : Nat) (D : DepMap) (h : (D.map (·.1)).Nodup) (o : OutPt) (x : Nat)
    (hx : x ∈ usersOf D o) (hne : x ≠ rid) : x ∈ usersOf (ds.foldl (fun D d => deleteDep D d rid) D) o := by
  induction ds generalizing D with
  | nil => exact hx
  | cons d ds ih =>
    simp only [List.foldl_cons]
    apply ih _ (deleteDep_keys D d rid h)
    obtain ⟨l, hl, hxl⟩ := (mem_usersOf h o x).mp hx
    refine (mem_usersOf (deleteDep_keys D d rid h) o x).mpr ?_
    unfold deleteDep
    by_cases hk : o = d
    · refine ⟨l.filter (· ≠ rid), List.mem_filter.mpr ⟨List.mem_map.mpr ⟨(o, l), hl, by simp [hk]⟩, ?_⟩,
        List.mem_filter.mpr ⟨hxl, by simpa using hne⟩⟩
      simp only [Bool.not_eq_true', decide_eq_false_iff_not, not_and]
      intro _ hnil
      have : x ∈ l.filter (· ≠ rid) := List.mem_filter.mpr ⟨hxl, by simpa using hne⟩
      rw [hnil] at this; cases this
    · refine ⟨l, List.mem_filter.mpr ⟨List.mem_map.mpr ⟨(o, l), hl, by simp [hk]⟩, ?_⟩, hxl⟩
      simp only [Bool.not_eq_true', decide_eq_false_iff_not, not_and]
      intro hc; exact absurd hc hk

theorem derived_rm {s : Pool} {hole : Option OutPt} (hL : LinksOK s) (h : DerivedX hole s) (rid : Nat) :
    DerivedX hole (removeEntry s rid).1 := by
  cases hg : getEntry s rid with
  | none => rw [removeEntry_none s rid hg]; exact h
  | some e =>
    obtain ⟨ht, _⟩ := removeEntry_txs s rid e hg
    obtain ⟨_, hid⟩ := getEntry_some hg
    have hmem : ∀ t, t ∈ txs (removeEntry s rid).1 ↔ t ∈ txs s ∧ t.id ≠ rid := by
      intro t; rw [ht]; simp [List.mem_filter]
    have hpar : ∀ p c, c ≠ rid → p ≠ rid → (p ∈ parentsOf (removeEntry s rid).1.links c ↔ p ∈ parentsOf s.links c) := by
      intro p c hc hp
      rw [removeEntry_links s rid e hg, mem_parentsOf_rm hL.struct]
      exact ⟨fun a => a.2.1, fun a => ⟨hc, a, hp⟩⟩
    constructor
    · intro t ht' o ho hne
      obtain ⟨a, b⟩ := (hmem t).mp ht'
      rw [depUsers_eq, removeEntry_deps s rid e hg, hid]
      exact foldDelete_keeps _ _ _ hL.depKeys o t.id (h.depRecd t a o ho hne) b
    · intro tp htp tc htc hl
      obtain ⟨a1, b1⟩ := (hmem tp).mp htp
      obtain ⟨a2, b2⟩ := (hmem tc).mp htc
      exact h.sound tp a1 tc a2 ((hpar _ _ b2 b1).mp hl)
    · intro tp htp tc htc hsp
      obtain ⟨a1, b1⟩ := (hmem tp).mp htp
      obtain ⟨a2, b2⟩ := (hmem tc).mp htc
      exact (hpar _ _ b2 b1).mpr (h.complete tp a1 tc a2 hsp)


/-- where `remove_entry_and_descendants` ends up: the links of all removed ids are cut, the surviving
    transactions are old ones outside the removed set -/
theorem removeWithDesc_final {s : Pool} (hL : LinksOK s) (id : Nat) :
    (removeWithDesc s id).1.links = (rmdIds s id).foldl removeEntryLinks s.links ∧
    ∀ t ∈ txs (removeWithDesc s id).1, t ∈ txs s ∧ t.id ∉ rmdIds s id := by
  have hsh := removeWithDesc_shrinks s id
  unfold removeWithDesc rmdIds at *
  simp only at *
  generalize (id :: (calcDesc s.links id).filter (· ≠ id)) = D at *
  have h0 : LinksOK (if s.cfg.fixF2 then preSubDescendants s D else s) ∧
      (if s.cfg.fixF2 then preSubDescendants s D else s).links = s.links := by
    split
    · obtain ⟨a, b⟩ := preSub_txs s D
      obtain ⟨c, d⟩ := preSub_links s D
      exact ⟨hL.congr a d b c, c⟩
    · exact ⟨hL, rfl⟩
  generalize (if s.cfg.fixF2 then preSubDescendants s D else s) = s0 at *
  obtain ⟨hL0, hl⟩ := h0
  obtain ⟨hs, hk⟩ := foldUnlink D s0.links hL0.struct
  have h1 : LinksRel { s0 with links := D.foldl removeEntryLinks s0.links } D := by
    refine ⟨hL0.ids, hL0.depKeys, hL0.depOwn, hL0.inOwn, hs, fun x => ?_⟩
    show x ∈ keys (D.foldl removeEntryLinks s0.links) ↔ _
    rw [hk]
    simp only [List.mem_filter, decide_eq_true_eq]
    have := hL0.keysEq x
    simp only [List.not_mem_nil, not_false_eq_true, and_true] at this
    rw [this]
    exact Iff.rfl
  have hiso := foldRemove_isolated D { s0 with links := D.foldl removeEntryLinks s0.links } []
    (by
      intro rid hr
      show rid ∉ keys (D.foldl removeEntryLinks s0.links)
      rw [hk]
      intro hm
      have := (List.mem_filter.mp hm).2
      simp only [decide_eq_true_eq] at this
      exact this hr)
  obtain ⟨_, h3⟩ := foldRemove_rel D _ [] D h1
  refine ⟨hiso.2.1.trans (by show D.foldl removeEntryLinks s0.links = _; rw [hl]), fun t ht => ⟨hsh.2 t ht, h3 t ht⟩⟩

def DepRecdP (hole : Option OutPt) (x : Pool) : Prop :=
  (x.deps.map (fun kv => kv.1)).Nodup ∧ ∀ t ∈ txs x, ∀ o ∈ t.deps, some o ≠ hole → t.id ∈ depUsers x o

theorem depRecd_rmd {s : Pool} {hole : Option OutPt} (hk : (s.deps.map (·.1)).Nodup)
    (h : ∀ t ∈ txs s, ∀ o ∈ t.deps, some o ≠ hole → t.id ∈ depUsers s o) (id : Nat) :
    ∀ t ∈ txs (removeWithDesc s id).1, ∀ o ∈ t.deps, some o ≠ hole → t.id ∈ depUsers (removeWithDesc s id).1 o := by
  have := removeWithDesc_of
    (P := DepRecdP hole)
    (by
      intro x rid ⟨hxk, hx⟩
      cases hg : getEntry x rid with
      | none => rw [removeEntry_none x rid hg]; exact ⟨hxk, hx⟩
      | some e =>
        obtain ⟨ht, _⟩ := removeEntry_txs x rid e hg
        obtain ⟨_, hid⟩ := getEntry_some hg
        refine ⟨by rw [removeEntry_deps x rid e hg]; exact foldDelete_keys _ _ _ hxk, ?_⟩
        intro t ht' o ho hne
        rw [ht] at ht'
        obtain ⟨a, b⟩ := List.mem_filter.mp ht'
        rw [depUsers_eq, removeEntry_deps x rid e hg, hid]
        exact foldDelete_keeps _ _ _ hxk o t.id (hx t a o ho hne) (by simpa using b))
    (by
      intro x ids ⟨hxk, hx⟩
      obtain ⟨a, _⟩ := preSub_txs x ids
      obtain ⟨_, d⟩ := preSub_links x ids
      refine ⟨by rw [d]; exact hxk, ?_⟩
      intro t ht o ho hne
      rw [a] at ht; rw [depUsers_eq, d]; exact hx t ht o ho hne)
    (fun _ _ hx => hx) s id ⟨hk, h⟩
  exact this.2

theorem derived_rmd {s : Pool} {hole : Option OutPt} (hL : LinksOK s) (h : DerivedX hole s) (id : Nat) :
    DerivedX hole (removeWithDesc s id).1 := by
  obtain ⟨hl, ht⟩ := removeWithDesc_final hL id
  have hpar : ∀ p c, c ∉ rmdIds s id → p ∉ rmdIds s id →
      (p ∈ parentsOf (removeWithDesc s id).1.links c ↔ p ∈ parentsOf s.links c) := by
    intro p c hc hp
    rw [hl, mem_parentsOf_foldrm _ hL.struct]
    exact ⟨fun a => a.2.1, fun a => ⟨hc, a, hp⟩⟩
  refine ⟨depRecd_rmd hL.depKeys h.depRecd id, ?_, ?_⟩
  · intro tp htp tc htc hlk
    obtain ⟨a1, b1⟩ := ht tp htp
    obtain ⟨a2, b2⟩ := ht tc htc
    exact h.sound tp a1 tc a2 ((hpar _ _ b2 b1).mp hlk)
  · intro tp htp tc htc hsp
    obtain ⟨a1, b1⟩ := ht tp htp
    obtain ⟨a2, b2⟩ := ht tc htc
    exact (hpar _ _ b2 b1).mpr (h.complete tp a1 tc a2 hsp)


/-! ### add_entry -/

/-- links clause (structural) together with the derived-links clause -/
def LD (s : Pool) : Prop := LinksOK s ∧ DerivedOK s

theorem ld_rmd (s : Pool) (id : Nat) (h : LD s) : LD (removeWithDesc s id).1 :=
  ⟨linksOK_rmd s id h.1, derived_rmd h.1 h.2 id⟩

theorem pooled_iff_key {s : Pool} (h : LinksOK s) (p : Nat) : p ∈ keys s.links ↔ ∃ t ∈ txs s, t.id = p := by
  rw [h.keysEq p]; simp

/-- the parents that survive the eviction loop are exactly the original ones that are still pooled -/
theorem evictLoop_parents_rel (cands : List Nat) (s : Pool) (cnt : Nat) (parents ev : List Nat) (h : LinksOK s) :
    (∀ p ∈ (evictLoop cands s cnt parents ev).2.2.1, p ∈ parents) ∧
    (∀ p ∈ parents, (∃ t ∈ txs (evictLoop cands s cnt parents ev).1, t.id = p) → p ∈ (evictLoop cands s cnt parents ev).2.2.1) := by
  induction cands generalizing s cnt parents ev with
  | nil => exact ⟨fun _ hp => hp, fun _ hp _ => hp⟩
  | cons c l ih =>
    unfold evictLoop
    split
    · obtain ⟨h1, h2⟩ := ih (removeWithDesc s c).1 (cnt - 1) (parents.filter (· ≠ c)) (ev ++ idsOf (removeWithDesc s c).2)
        (linksOK_rmd s c h)
      refine ⟨fun p hp => (List.mem_filter.mp (h1 p hp)).1, fun p hp hpool => ?_⟩
      apply h2 p _ hpool
      refine List.mem_filter.mpr ⟨hp, ?_⟩
      obtain ⟨t, ht, hid⟩ := hpool
      have hsh := evictLoop_shrinks l (removeWithDesc s c).1 (cnt - 1) (parents.filter (· ≠ c)) (ev ++ idsOf (removeWithDesc s c).2)
      have := ((removeWithDesc_final h c).2 t (hsh.2 t ht)).2
      have hne : t.id ≠ c := fun e => this (by rw [e]; exact List.mem_cons_self)
      simpa [← hid] using hne
    · exact ⟨fun _ hp => hp, fun _ hp _ => hp⟩

def AncGoodD (s : Pool) (e : Entry) : AncRes → Prop
  | .ok s' e' _ => ∃ s1 P, LD s1 ∧ Shrinks s1 s ∧ s' = { s1 with links := addNodeLinks s1.links e.tx.id P } ∧
      e'.tx = e.tx ∧ P.Nodup ∧ (∀ p ∈ P, p ∈ keys s1.links) ∧
      (∀ p ∈ P, p ∈ (txAncestors s e.tx).2.1) ∧ (∀ p ∈ (txAncestors s e.tx).2.1, p ∈ keys s1.links → p ∈ P)
  | .panic s' => LD s'
  | .rejAfter s' => LD s'
  | .rej => True

theorem recordAncestors_goodD {s s0 : Pool} (h : LD s) (hs : Shrinks s s0) (e : Entry) (P ev : List Nat) (hn : P.Nodup)
    (h1 : ∀ p ∈ P, p ∈ (txAncestors s0 e.tx).2.1) (h2 : ∀ p ∈ (txAncestors s0 e.tx).2.1, p ∈ keys s.links → p ∈ P) :
    AncGoodD s0 e (match recordAncestors s e (calcRelation (parentsOf s.links) (keys s.links) P) P with
      | some (s', e') => AncRes.ok s' e' ev
      | none => AncRes.panic s) := by
  have hk := recordAncestors_goodK h.1 hs e P ev hn
  cases hr : recordAncestors s e (calcRelation (parentsOf s.links) (keys s.links) P) P with
  | none => exact h
  | some r =>
    obtain ⟨s', e'⟩ := r
    rw [hr] at hk
    obtain ⟨s1, P1, _, _, _, hetx, _, _⟩ := hk
    unfold recordAncestors at hr
    split at hr
    · rename_i hall
      simp only [Option.some.injEq, Prod.mk.injEq] at hr
      refine ⟨s, P, h, hs, hr.1.symm, hetx, hn, ?_, h1, h2⟩
      intro p hp
      have hp' := stage_sub_calcRelation (parentsOf s.links) (keys s.links) P p hp
      have := List.all_eq_true.mp hall p hp'
      cases hg : getEntry s p with
      | none => rw [hg] at this; simp at this
      | some x =>
        obtain ⟨hx, hid⟩ := getEntry_some hg
        exact (pooled_iff_key h.1 p).mpr ⟨x.tx, List.mem_map.mpr ⟨x, hx, rfl⟩, hid⟩
    · cases hr

theorem checkAnc_derived {s : Pool} (h : LD s) (e : Entry) : AncGoodD s e (checkAndRecordAncestors s e) := by
  unfold checkAndRecordAncestors
  simp only
  split
  · exact recordAncestors_goodD h (Shrinks.refl s) e _ _ (nodup_dedup _) (fun _ hp => hp) (fun _ hp _ => hp)
  · split
    · have hl := evictLoop_of (P := LD) ld_rmd
        (((byEvictKey s.entries).filter (·.tx.id ∈ (txAncestors s e.tx).2.2)).map (·.tx.id)) s
        ((txAncestors s e.tx).1.length + 1) (txAncestors s e.tx).2.1 [] h
      have hsh := evictLoop_shrinks
        (((byEvictKey s.entries).filter (·.tx.id ∈ (txAncestors s e.tx).2.2)).map (·.tx.id)) s
        ((txAncestors s e.tx).1.length + 1) (txAncestors s e.tx).2.1 []
      have hpn := evictLoop_parents
        (((byEvictKey s.entries).filter (·.tx.id ∈ (txAncestors s e.tx).2.2)).map (·.tx.id)) s
        ((txAncestors s e.tx).1.length + 1) (txAncestors s e.tx).2.1 [] (nodup_dedup _)
      obtain ⟨hr1, hr2⟩ := evictLoop_parents_rel
        (((byEvictKey s.entries).filter (·.tx.id ∈ (txAncestors s e.tx).2.2)).map (·.tx.id)) s
        ((txAncestors s e.tx).1.length + 1) (txAncestors s e.tx).2.1 [] h.1
      split
      · exact hl
      · split
        · exact recordAncestors_goodD hl hsh e _ _ hpn hr1
            (fun p hp hk => hr2 p hp ((pooled_iff_key hl.1 p).mp hk))
        · exact hl
    · trivial


theorem insertDep_keeps (D : DepMap) (h : (D.map (·.1)).Nodup) (d : OutPt) (nid : Nat) (o : OutPt) (x : Nat)
    (hx : x ∈ usersOf D o) : x ∈ usersOf (insertDep D d nid) o := by
  obtain ⟨l, hl, hxl⟩ := (mem_usersOf h o x).mp hx
  refine (mem_usersOf (insertDep_keys D d nid h) o x).mpr ?_
  unfold insertDep
  split
  · by_cases hk : o = d
    · exact ⟨insertNew l nid, List.mem_map.mpr ⟨(o, l), hl, by simp [hk]⟩, (mem_insertNew _ _ _).mpr (Or.inl hxl)⟩
    · exact ⟨l, List.mem_map.mpr ⟨(o, l), hl, by simp [hk]⟩, hxl⟩
  · exact ⟨l, List.mem_append.mpr (Or.inl hl), hxl⟩

theorem insertDep_adds (D : DepMap) (h : (D.map (·.1)).Nodup) (d : OutPt) (nid : Nat) :
    nid ∈ usersOf (insertDep D d nid) d := by
  refine (mem_usersOf (insertDep_keys D d nid h) d nid).mpr ?_
  unfold insertDep
  split
  · rename_i hany
    simp only [List.any_eq_true, decide_eq_true_eq] at hany
    obtain ⟨kv, hkv, hk⟩ := hany
    exact ⟨insertNew kv.2 nid, List.mem_map.mpr ⟨kv, hkv, by simp [hk]⟩, (mem_insertNew _ _ _).mpr (Or.inr rfl)⟩
  · exact ⟨[nid], List.mem_append.mpr (Or.inr (by simp)), by simp⟩

theorem foldInsert_keeps (ds : List OutPt) (nid : Nat) (D : DepMap) (h : (D.map (·.1)).Nodup) (o : OutPt) (x : Nat)
    (hx : x ∈ usersOf D o) : x ∈ usersOf (ds.foldl (fun D d => insertDep D d nid) D) o := by
  induction ds generalizing D with
  | nil => exact hx
  | cons d ds ih => exact ih _ (insertDep_keys D d nid h) (insertDep_keeps D h d nid o x hx)

theorem foldInsert_adds (ds : List OutPt) (nid : Nat) (D : DepMap) (h : (D.map (·.1)).Nodup) (d : OutPt) (hd : d ∈ ds) :
    nid ∈ usersOf (ds.foldl (fun D d => insertDep D d nid) D) d := by
  induction ds generalizing D with
  | nil => cases hd
  | cons a ds ih =>
    simp only [List.foldl_cons]
    rcases List.mem_cons.mp hd with e | e
    · subst e
      exact foldInsert_keeps ds nid _ (insertDep_keys D d nid h) d nid (insertDep_adds D h d nid)
    · exact ih _ (insertDep_keys D a nid h) e

theorem mem_outputs (t : Tx) (o : OutPt) : o ∈ outputs t ↔ o.tx = t.id ∧ o.idx < t.nout := by
  unfold outputs
  simp only [List.mem_map, List.mem_range]
  constructor
  · rintro ⟨i, hi, rfl⟩; exact ⟨rfl, hi⟩
  · rintro ⟨a, b⟩; exact ⟨o.idx, b, by cases o; simp at a ⊢; exact a.symm⟩

theorem mem_findChildren_iff (s : Pool) (t : Tx) (c : Nat) :
    c ∈ findChildren s t ↔ ∃ o ∈ outputs t, c ∈ depUsers s o ∨ inputUser s o = some c := by
  unfold findChildren
  rw [mem_dedup, List.mem_flatMap]
  constructor
  · rintro ⟨o, ho, hm⟩
    refine ⟨o, ho, ?_⟩
    rcases List.mem_append.mp hm with a | a
    · exact Or.inl a
    · right
      cases hu : inputUser s o with
      | none => rw [hu] at a; cases a
      | some v => rw [hu] at a; simp at a; rw [a]
  · rintro ⟨o, ho, a | a⟩
    · exact ⟨o, ho, List.mem_append.mpr (Or.inl a)⟩
    · exact ⟨o, ho, List.mem_append.mpr (Or.inr (by rw [a]; simp))⟩

theorem inputUser_of_mem {s : Pool} (hk : (s.inputs.map (·.1)).Nodup) {o : OutPt} {id : Nat} (hm : (o, id) ∈ s.inputs) :
    inputUser s o = some id := by
  unfold inputUser
  have : s.inputs.find? (·.1 = o) = some (o, id) := by
    generalize s.inputs = l at hk hm
    induction l with
    | nil => cases hm
    | cons x l ih =>
      simp only [List.map_cons, List.nodup_cons] at hk
      rcases List.mem_cons.mp hm with e | e
      · subst e; simp
      · have : ¬ x.1 = o := fun e' => hk.1 (List.mem_map.mpr ⟨(o, id), e, e'.symm⟩)
        simp only [List.find?_cons, this, decide_false]
        exact ih hk.2 e
  rw [this]; rfl


theorem mem_parentsOf_linkChildren {L : LinkMap} {E : Nat} {C : List Nat} (hC : ∀ c ∈ C, c ∈ keys L) (p c : Nat) :
    p ∈ parentsOf (linkChildren L E C) c ↔ p ∈ parentsOf L c ∨ (c ∈ C ∧ p = E) := by
  rw [parentsOf_linkChildren]
  by_cases hc : c ∈ C
  · simp only [hc, if_true, true_and]
    have hk := (mem_keys_iff L c).mp (hC c hc)
    rw [parentsOf_eq]
    cases hl : linkOf L c with
    | none => rw [hl] at hk; simp at hk
    | some l => simp [mem_insertNew]
  · simp [hc]

theorem recordDescendants_links (s : Pool) (e : Entry) :
    (recordDescendants s e).links =
      if (findChildren s e.tx).isEmpty then s.links else linkChildren s.links e.tx.id (findChildren s e.tx) := by
  unfold recordDescendants
  simp only
  split
  · rfl
  · split <;> rfl

theorem recordDescendants_deps (s : Pool) (e : Entry) : (recordDescendants s e).deps = s.deps := by
  unfold recordDescendants
  simp only
  split
  · rfl
  · split <;> rfl

/-- the parents in the final link map of `record_entry_descendants` -/
theorem mem_parentsOf_recordDescendants {s : Pool} (e : Entry) (hC : ∀ c ∈ findChildren s e.tx, c ∈ keys s.links) (p c : Nat) :
    p ∈ parentsOf (recordDescendants s e).links c ↔
      p ∈ parentsOf s.links c ∨ (c ∈ findChildren s e.tx ∧ p = e.tx.id) := by
  rw [recordDescendants_links]
  split
  · rename_i he
    have : findChildren s e.tx = [] := by simpa using he
    rw [this]; simp
  · exact mem_parentsOf_linkChildren hC p c

/-- the entry is appended and its edges are recorded -/
def pushEntry (s2 : Pool) (t : Tx) (e : Entry) : Pool :=
  { recordEdges s2 t with entries := (recordEdges s2 t).entries ++ [e] }

/-- the state `add_entry` returns on success, from the state `s3` with the entry pushed -/
def finalOf (s3 : Pool) (t : Tx) (e : Entry) (st : Status) : Pool :=
  { track (recordDescendants s3 e) none (some st) with
    totalSize := (track (recordDescendants s3 e) none (some st)).totalSize + t.size
    totalCycles := (track (recordDescendants s3 e) none (some st)).totalCycles + t.cycles }

theorem addEntry_cases (s : Pool) (t : Tx) (st : Status) (ts : Nat) :
    (addEntry s t st ts).1 = s ∨
    (∃ s', (checkAndRecordAncestors s (Entry.fresh t st ts) = .panic s' ∨
        checkAndRecordAncestors s (Entry.fresh t st ts) = .rejAfter s') ∧ (addEntry s t st ts).1 = s') ∨
    (∃ s2 e ev, getEntry s t.id = none ∧ checkAndRecordAncestors s (Entry.fresh t st ts) = .ok s2 e ev ∧
        (addEntry s t st ts).1 = finalOf (pushEntry s2 t e) t e st) := by
  unfold addEntry
  split
  · exact Or.inl rfl
  · rename_i hdup
    simp only [Bool.not_eq_true, Option.isSome_eq_false_iff, Option.isNone_iff_eq_none] at hdup
    split
    · exact Or.inl rfl
    · split
      · exact Or.inl rfl
      · rename_i s' heq; exact Or.inr (Or.inl ⟨s', Or.inr heq, rfl⟩)
      · rename_i s' heq; exact Or.inr (Or.inl ⟨s', Or.inl heq, rfl⟩)
      · rename_i s2 e ev heq; exact Or.inr (Or.inr ⟨s2, e, ev, hdup, heq, rfl⟩)

theorem derived_add (s : Pool) (t : Tx) (st : Status) (ts : Nat) (hE : EdgeOK (edge s)) (h : LD s) :
    DerivedOK (addEntry s t st ts).1 := by
  have hLF := linksOK_add s t st ts h.1
  have hIF := (hE.reach (edge_addEntry s t st ts)).inputsOK
  have hg := checkAnc_derived h (Entry.fresh t st ts)
  rcases addEntry_cases s t st ts with heq | ⟨s', hc, heq⟩ | ⟨s2, e, ev, hdup, hc, heq⟩
  · rw [heq]; exact h.2
  · rw [heq]
    rcases hc with hc | hc <;> (rw [hc] at hg; exact hg.2)
  · rw [heq] at hLF hIF ⊢
    rw [hc] at hg
    obtain ⟨s1, P, h1, hsh, hs2, hetx, hPn, hPk, hPsub, hPsup⟩ := hg
    have hetx : e.tx = t := hetx
    have hid : (Entry.fresh t st ts).tx = t := rfl
    rw [hid] at hs2 hPsub hPsup
    subst hs2
    -- G: the state after record_entry_descendants; the final state differs from it only in counters
    generalize hs3 : pushEntry { s1 with links := addNodeLinks s1.links t.id P } t e = s3 at *
    have hGt : txs (recordDescendants s3 e) = txs s1 ++ [t] := by
      rw [(recordDescendants_txs _ e).1, ← hs3]; simp [txs, pushEntry, recordEdges, hetx]
    have hs3l : s3.links = addNodeLinks s1.links t.id P := by rw [← hs3]; rfl
    have hs3d : s3.deps = t.deps.foldl (fun D d => insertDep D d t.id) s1.deps := by rw [← hs3]; rfl
    have hLG : LinksOK (recordDescendants s3 e) :=
      hLF.congr (by simp [txs, finalOf]) (by simp [finalOf]) (by simp [finalOf]) (by simp [finalOf])
    have hIG : InputsOK (recordDescendants s3 e) := hIF.congr (by simp [txs, finalOf]) (by simp [finalOf])
    suffices hG : DerivedOK (recordDescendants s3 e) from
      hG.congr (by simp [txs, finalOf]) (by simp [finalOf]) (by simp [finalOf])
    have hfresh : ∀ x ∈ txs s1, x.id ≠ t.id := fun x hx => getEntry_none hdup x (hsh.2 x hx)
    have hEk : t.id ∉ keys s1.links := by
      intro hk
      obtain ⟨x, hx, hxid⟩ := (pooled_iff_key h1.1 t.id).mp hk
      exact hfresh x hx hxid
    have hGd : (recordDescendants s3 e).deps = s3.deps := recordDescendants_deps s3 e
    have hGi : (recordDescendants s3 e).inputs = s3.inputs := (recordDescendants_txs s3 e).2
    -- users named by s3's edges are pooled in G
    have hdepOwn : ∀ o c, c ∈ depUsers s3 o → ∃ tc ∈ txs s1 ++ [t], tc.id = c ∧ o ∈ tc.deps := by
      intro o c hc
      have := hLG.depOwn o c (by rw [depUsers_eq, hGd]; exact hc)
      rw [hGt] at this; exact this
    have hinOwn : ∀ o c, inputUser s3 o = some c → ∃ tc ∈ txs s1 ++ [t], tc.id = c ∧ o ∈ tc.inputs := by
      intro o c hc
      have := hLG.inOwn (o, c) (by rw [hGi]; exact inputUser_mem' hc)
      rw [hGt] at this; exact this
    have hchk : ∀ c ∈ findChildren s3 e.tx, c ∈ keys s3.links := by
      intro c hc
      rw [hs3l, keys_addNodeLinks _ _ _ hEk]
      obtain ⟨o, _, ho⟩ := (mem_findChildren_iff s3 e.tx c).mp hc
      have : ∃ tc ∈ txs s1 ++ [t], tc.id = c := by
        rcases ho with a | a
        · obtain ⟨tc, a1, a2, _⟩ := hdepOwn o c a; exact ⟨tc, a1, a2⟩
        · obtain ⟨tc, a1, a2, _⟩ := hinOwn o c a; exact ⟨tc, a1, a2⟩
      obtain ⟨tc, htc, hcid⟩ := this
      rcases List.mem_append.mp htc with a | a
      · exact List.mem_append.mpr (Or.inl ((pooled_iff_key h1.1 c).mpr ⟨tc, a, hcid⟩))
      · have : tc = t := by simpa using a
        exact List.mem_append.mpr (Or.inr (by simp [← hcid, this]))
    have hpar := mem_parentsOf_recordDescendants (s := s3) e hchk
    have hidsG : ((txs s1 ++ [t]).map (·.id)).Nodup := by rw [← hGt]; exact hLG.ids
    have huniq : ∀ a ∈ txs s1 ++ [t], ∀ b ∈ txs s1 ++ [t], a.id = b.id → a = b :=
      fun a ha b hb e' => nodup_ids_unique _ hidsG ha hb e'
    have htF : t ∈ txs s1 ++ [t] := List.mem_append.mpr (Or.inr (by simp))
    have hold : ∀ x, x ∈ txs s1 ++ [t] → x.id ≠ t.id → x ∈ txs s1 := by
      intro x hx hne
      rcases List.mem_append.mp hx with a | a
      · exact a
      · have : x = t := by simpa using a
        exact absurd (by rw [this]) hne
    constructor
    · -- depRecd
      intro tx htx o ho _
      rw [hGt] at htx
      rw [depUsers_eq, hGd, hs3d]
      rcases List.mem_append.mp htx with a | a
      · exact foldInsert_keeps _ _ _ h1.1.depKeys o tx.id (h1.2.depRecd tx a o ho (by simp))
      · have : tx = t := by simpa using a
        rw [this] at ho ⊢
        exact foldInsert_adds _ _ _ h1.1.depKeys o ho
    · -- sound
      intro tp htp tc htc hlk
      rw [hGt] at htp htc
      rw [hpar, hs3l, mem_parentsOf_add] at hlk
      rcases hlk with (⟨hcE, hpP⟩ | ⟨hcE, hpo⟩) | ⟨hcC, hpE⟩
      · -- the new transaction below one of its recorded parents
        have htct : tc = t := huniq tc htc t htF hcE
        subst htct
        have hp0 := hPsub tp.id hpP
        unfold txAncestors at hp0
        simp only at hp0
        rw [mem_dedup, List.mem_append] at hp0
        rcases hp0 with a | a
        · obtain ⟨i, hi, hm⟩ := List.mem_flatMap.mp a
          rcases List.mem_append.mp hm with b | b
          · -- a dep user of an input of t
            obtain ⟨t0, ht0, ht0id, ht0d⟩ := h.1.depOwn i tp.id b
            have htp1 : tp ∈ txs s1 := hold tp htp (fun e' => hEk (e' ▸ hPk tp.id hpP))
            have : tp = t0 := nodup_ids_unique _ h.1.ids (hsh.2 tp htp1) ht0 ht0id.symm
            exact Or.inr ⟨i, hi, this ▸ ht0d⟩
          · split at b
            · have : tp.id = i.tx := by simpa using b
              exact Or.inl ⟨i, List.mem_append.mpr (Or.inl hi), this.symm⟩
            · cases b
        · obtain ⟨d, hd, hm⟩ := List.mem_filterMap.mp a
          split at hm
          · have : d.tx = tp.id := by simpa using hm
            exact Or.inl ⟨d, List.mem_append.mpr (Or.inr hd), this⟩
          · cases hm
      · -- an old link
        have hkeys := h1.1.struct.parent_key hpo
        have htp1 : tp ∈ txs s1 := hold tp htp (fun e' => hEk (e' ▸ hkeys.1))
        have htc1 : tc ∈ txs s1 := hold tc htc hcE
        exact h1.2.sound tp htp1 tc htc1 hpo
      · -- an old transaction hung below the new one
        have htpt : tp = t := huniq tp htp t htF (by rw [hpE, hetx])
        subst htpt
        obtain ⟨o, ho, hu⟩ := (mem_findChildren_iff s3 e.tx tc.id).mp hcC
        rw [hetx] at ho
        have hotx := ((mem_outputs tp o).mp ho).1
        rcases hu with a | a
        · obtain ⟨tc', a1, a2, a3⟩ := hdepOwn o tc.id a
          have : tc' = tc := huniq tc' a1 tc htc a2
          exact Or.inl ⟨o, List.mem_append.mpr (Or.inr (this ▸ a3)), hotx⟩
        · obtain ⟨tc', a1, a2, a3⟩ := hinOwn o tc.id a
          have : tc' = tc := huniq tc' a1 tc htc a2
          exact Or.inl ⟨o, List.mem_append.mpr (Or.inl (this ▸ a3)), hotx⟩
    · -- complete
      intro tp htp tc htc hsp
      rw [hGt] at htp htc
      rw [hpar, hs3l, mem_parentsOf_add]
      obtain ⟨o, ho, hotx, hoidx⟩ := hsp
      by_cases hpE : tp.id = t.id
      · -- the parent is the new transaction: the child is found through the edges
        have htpt : tp = t := huniq tp htp t htF hpE
        right
        refine ⟨?_, by rw [hetx]; exact hpE⟩
        rw [hetx]
        refine (mem_findChildren_iff s3 t tc.id).mpr ⟨o, (mem_outputs t o).mpr ⟨by rw [hotx, htpt], by rw [← htpt]; exact hoidx⟩, ?_⟩
        rcases List.mem_append.mp ho with a | a
        · right
          have hrec := hIG.recd tc (by rw [hGt]; exact htc) o a
          rw [hGi] at hrec
          exact inputUser_of_mem (by rw [← hGi]; exact hIG.keys) hrec
        · left
          have hrec : tc.id ∈ depUsers (recordDescendants s3 e) o := by
            -- from the depRecd part proved above, restated
            rw [depUsers_eq, hGd, hs3d]
            rcases List.mem_append.mp htc with b | b
            · exact foldInsert_keeps _ _ _ h1.1.depKeys o tc.id (h1.2.depRecd tc b o a (by simp))
            · have : tc = t := by simpa using b
              rw [this] at a ⊢
              exact foldInsert_adds _ _ _ h1.1.depKeys o a
          rw [depUsers_eq, hGd] at hrec
          exact hrec
      · have htp1 : tp ∈ txs s1 := hold tp htp hpE
        by_cases hcE : tc.id = t.id
        · -- the child is the new transaction: its parent was recorded by get_tx_ancestors
          have htct : tc = t := huniq tc htc t htF hcE
          left; left
          refine ⟨hcE, ?_⟩
          apply hPsup tp.id _ ((pooled_iff_key h1.1 tp.id).mpr ⟨tp, htp1, rfl⟩)
          have hkey : hasLink s.links tp.id = true := by
            have := (pooled_iff_key h.1 tp.id).mpr ⟨tp, hsh.2 tp htp1, rfl⟩
            unfold hasLink keys at *
            simp only [List.any_eq_true, decide_eq_true_eq, List.mem_map] at this ⊢
            obtain ⟨kl, a, b⟩ := this
            exact ⟨kl, a, b⟩
          unfold txAncestors
          simp only
          rw [mem_dedup, List.mem_append]
          rw [htct] at ho
          rcases List.mem_append.mp ho with a | a
          · left
            refine List.mem_flatMap.mpr ⟨o, a, List.mem_append.mpr (Or.inr ?_)⟩
            rw [hotx, hkey]; simp
          · right
            refine List.mem_filterMap.mpr ⟨o, a, ?_⟩
            rw [hotx, hkey]; simp
        · left; right
          exact ⟨hcE, h1.2.complete tp htp1 tc (hold tc htc hcE) ⟨o, ho, hotx, hoidx⟩⟩



/-! ### the remaining operations and the closure instance -/

theorem derived_set (s : Pool) (id : Nat) (st : Status) (h : DerivedOK s) : DerivedOK (setEntry s id st) := by
  unfold setEntry
  split
  · exact h
  · refine h.congr ?_ (by simp) (by simp)
    simp only [txs, track_entries, List.map_map]
    apply List.map_congr_left; intro x _; simp only [Function.comp]; split <;> rfl

/-- a fold of `remove_entry_and_descendants`: consistent links are kept, the pool only shrinks, and the
    listed ids are gone afterwards -/
theorem foldRmd_gone (ids : List Nat) (s : Pool) (acc : List Nat) (h : LinksOK s) :
    let r := (ids.foldl (fun (acc : Pool × List Nat) id =>
      let r := removeWithDesc acc.1 id
      (r.1, acc.2 ++ idsOf r.2)) (s, acc)).1
    (∀ t ∈ txs r, t ∈ txs s) ∧ (∀ t ∈ txs r, t.id ∉ ids) := by
  induction ids generalizing s acc with
  | nil => exact ⟨fun _ ht => ht, fun _ _ hm => by cases hm⟩
  | cons a l ih =>
    simp only [List.foldl_cons]
    obtain ⟨h1, h2⟩ := ih (removeWithDesc s a).1 (acc ++ idsOf (removeWithDesc s a).2) (linksOK_rmd s a h)
    have hfin := (removeWithDesc_final h a).2
    refine ⟨fun t ht => (hfin t (h1 t ht)).1, fun t ht hm => ?_⟩
    rcases List.mem_cons.mp hm with e | e
    · exact (hfin t (h1 t ht)).2 (by rw [e]; exact List.mem_cons_self)
    · exact h2 t ht e

/-- `EdgeOK (edge s)`, the structural links clause and the derived-links clause together -/
def P4 (s : Pool) : Prop := EdgeOK (edge s) ∧ LD s

theorem p4_closed : CoreClosed P4 where
  rm := fun s id h =>
    ⟨by rw [edge_removeEntry]; exact h.1.rmV id, linksRel_rm h.2.1 id, derived_rm h.2.1 h.2.2 id⟩
  rmd := fun s id h =>
    ⟨by rw [edge_removeWithDesc]; exact h.1.reach (EReach.foldRm _ _), ld_rmd s id h.2⟩
  add := fun s t st ts h =>
    ⟨h.1.reach (edge_addEntry s t st ts), linksOK_add s t st ts h.2.1, derived_add s t st ts h.1 h.2⟩
  set := fun s id st h =>
    ⟨by rw [edge_setEntry]; exact h.1.setV id st, linksOK_set s id st h.2.1, derived_set s id st h.2.2⟩
  stripIn := by
    intro s i id h hu
    refine ⟨?_, ld_rmd _ id ⟨linksOK_stripIn s i h.2.1, h.2.2.congr rfl rfl rfl⟩⟩
    rw [edge_removeWithDesc]
    have e1 : edge { s with inputs := s.inputs.filter (·.1 ≠ i) } = stripV (edge s) i := rfl
    have e2 : rmdIds { s with inputs := s.inputs.filter (·.1 ≠ i) } id = id :: (calcDesc s.links id).filter (· ≠ id) := rfl
    rw [e1, e2, strip_then_remove h.1 (inputUser_mem hu)]
    exact h.1.reach (EReach.foldRm _ _)
  stripDep := by
    intro s i acc h
    have hL' := linksOK_stripDep s i h.2.1
    have hD' : DerivedX (some i) { s with deps := s.deps.filter (·.1 ≠ i) } := by
      refine ⟨?_, h.2.2.sound, h.2.2.complete⟩
      intro t ht o ho hne
      have hoi : o ≠ i := fun e => hne (by rw [e])
      have := h.2.2.depRecd t ht o ho (by simp)
      rw [depUsers_eq] at this ⊢
      obtain ⟨l, hl, hx⟩ := (mem_usersOf h.2.1.depKeys o t.id).mp this
      exact (mem_usersOf hL'.depKeys o t.id).mpr ⟨l, List.mem_filter.mpr ⟨hl, by simpa using hoi⟩, hx⟩
    have hfold := foldRmd_of (P := fun x => LinksOK x ∧ DerivedX (some i) x)
      (fun x id hx => ⟨linksOK_rmd x id hx.1, derived_rmd hx.1 hx.2 id⟩)
      (depUsers s i) { s with deps := s.deps.filter (·.1 ≠ i) } acc ⟨hL', hD'⟩
    obtain ⟨hg1, hg2⟩ := foldRmd_gone (depUsers s i) { s with deps := s.deps.filter (·.1 ≠ i) } acc hL'
    refine ⟨?_, hfold.1, ?_, hfold.2.sound, hfold.2.complete⟩
    · have hr := EReach.foldRmd (depUsers s i) { s with deps := s.deps.filter (·.1 ≠ i) } acc
      have e3 : edge { s with deps := s.deps.filter (·.1 ≠ i) } = edge s := rfl
      rw [e3] at hr
      exact h.1.reach hr
    · intro t ht o ho _
      by_cases hoi : o = i
      · -- a surviving transaction with the stripped out-point as a dep would be one of the removed users
        exfalso
        have hts : t ∈ txs s := hg1 t ht
        have := h.2.2.depRecd t hts o ho (by simp)
        rw [hoi] at this
        exact hg2 t ht this
      · exact hfold.2.depRecd t ht o ho (fun e => hoi (by simpa using e))

end CkbVerif.Pool
