/-
Helper lemmas for C11: the "inputs" invariant (`edges.inputs` is a function from out-points to the
pooled transaction that spends them, and it lists exactly the inputs of the pooled transactions) is
preserved by every pool operation of `Model/Pool.lean`.
-/
import CkbVerif.Model.Pool
namespace CkbVerif.Pool

/-- the transactions currently pooled -/
def txs (s : Pool) : List Tx := s.entries.map (·.tx)

/-- `edges.inputs` matches the pooled transactions and is a function; ids are unique. -/
structure InputsOK (s : Pool) : Prop where
  recd : ∀ t ∈ txs s, ∀ o ∈ t.inputs, (o, t.id) ∈ s.inputs
  own : ∀ p ∈ s.inputs, ∃ t ∈ txs s, t.id = p.2 ∧ p.1 ∈ t.inputs
  keys : (s.inputs.map (·.1)).Nodup
  ids : ((txs s).map (·.id)).Nodup

/-- membership in a list with duplicate-free keys determines the value -/
theorem nodup_keys_unique {α β} (l : List (α × β)) (h : (l.map (·.1)).Nodup)
    {a : α} {b c : β} (hb : (a, b) ∈ l) (hc : (a, c) ∈ l) : b = c := by
  induction l with
  | nil => cases hb
  | cons x l ih =>
    simp only [List.map_cons, List.nodup_cons] at h
    rcases List.mem_cons.mp hb with hb | hb <;> rcases List.mem_cons.mp hc with hc | hc
    · rw [← hb] at hc; exact (Prod.mk.inj hc).2.symm
    · exact absurd (List.mem_map.mpr ⟨(a, c), hc, by rw [← hb]⟩) h.1
    · exact absurd (List.mem_map.mpr ⟨(a, b), hb, by rw [← hc]⟩) h.1
    · exact ih h.2 hb hc

theorem nodup_ids_unique (l : List Tx) (h : (l.map (·.id)).Nodup) {a b : Tx}
    (ha : a ∈ l) (hb : b ∈ l) (e : a.id = b.id) : a = b := by
  induction l with
  | nil => cases ha
  | cons x l ih =>
    simp only [List.map_cons, List.nodup_cons] at h
    rcases List.mem_cons.mp ha with ha | ha <;> rcases List.mem_cons.mp hb with hb | hb
    · rw [ha, hb]
    · exact absurd (List.mem_map.mpr ⟨b, hb, by rw [← e, ha]⟩) h.1
    · exact absurd (List.mem_map.mpr ⟨a, ha, by rw [e, hb]⟩) h.1
    · exact ih h.2 ha hb

/-- the property clause itself: no two pooled transactions spend the same cell -/
theorem InputsOK.no_double_spend {s : Pool} (h : InputsOK s) {a b : Tx} (ha : a ∈ txs s) (hb : b ∈ txs s)
    {o : OutPt} (oa : o ∈ a.inputs) (ob : o ∈ b.inputs) : a = b :=
  nodup_ids_unique _ h.ids ha hb (nodup_keys_unique _ h.keys (h.recd a ha o oa) (h.recd b hb o ob))

/-! ### aggregate updates do not touch the transactions -/

theorem modEntries_txs (ids : List Nat) (f : Entry → Entry) (hf : ∀ e, (f e).tx = e.tx) (es : List Entry) :
    (modEntries ids f es).map (·.tx) = es.map (·.tx) := by
  induction es with
  | nil => rfl
  | cons e es ih =>
    simp only [modEntries, List.map_cons] at ih ⊢
    rw [ih]
    by_cases h : e.tx.id ∈ ids <;> simp [h, hf]

@[simp] theorem subDesc_tx (w : W) (e : Entry) : (subDesc w e).tx = e.tx := rfl
@[simp] theorem addDesc_tx (w : W) (e : Entry) : (addDesc w e).tx = e.tx := rfl
@[simp] theorem subAnc_tx (w : W) (e : Entry) : (subAnc w e).tx = e.tx := rfl
@[simp] theorem addAnc_tx (w : W) (e : Entry) : (addAnc w e).tx = e.tx := rfl

/-- two states with the same transactions and the same input map -/
theorem InputsOK.congr {s s' : Pool} (h : InputsOK s) (ht : txs s' = txs s) (hi : s'.inputs = s.inputs) :
    InputsOK s' := by
  constructor
  · rw [ht, hi]; exact h.recd
  · rw [ht, hi]; exact h.own
  · rw [hi]; exact h.keys
  · rw [ht]; exact h.ids

@[simp] theorem track_entries (s : Pool) (a b : Option Status) : (track s a b).entries = s.entries := by
  unfold track; cases a with
  | none => cases b with
    | none => rfl
    | some y => cases y <;> rfl
  | some x => cases x <;> (cases b with
    | none => rfl
    | some y => cases y <;> rfl)

@[simp] theorem track_inputs (s : Pool) (a b : Option Status) : (track s a b).inputs = s.inputs := by
  unfold track; cases a with
  | none => cases b with
    | none => rfl
    | some y => cases y <;> rfl
  | some x => cases x <;> (cases b with
    | none => rfl
    | some y => cases y <;> rfl)

theorem getEntry_some {s : Pool} {id : Nat} {e : Entry} (h : getEntry s id = some e) :
    e ∈ s.entries ∧ e.tx.id = id := by
  unfold getEntry at h
  exact ⟨List.mem_of_find?_eq_some h, by simpa using List.find?_some h⟩

/-! ### remove_entry -/

@[simp] theorem rebuild_inputs (s : Pool) (ids : List Nat) : (rebuild s ids).inputs = s.inputs := rfl
@[simp] theorem rebuild_links (s : Pool) (ids : List Nat) : (rebuild s ids).links = s.links := rfl

theorem rebuild_txs (s : Pool) (ids : List Nat) : txs (rebuild s ids) = txs s := by
  simp only [txs, rebuild, List.map_map]
  congr 1; funext e; simp only [Function.comp]; split <;> rfl

theorem removeEntry_txs (s : Pool) (id : Nat) (e : Entry) (h : getEntry s id = some e) :
    txs (removeEntry s id).1 = (txs s).filter (·.id ≠ id) ∧
    (removeEntry s id).1.inputs = s.inputs.filter (fun kv => kv.1 ∉ e.tx.inputs) := by
  by_cases hc : (isBetween s.links id && s.cfg.fixMid) = true
  · refine ⟨?_, by simp [removeEntry, h, hc, removeEdges]⟩
    simp only [removeEntry, h, hc, if_true, removeEdges]
    show List.map _ (track (rebuild _ _) _ _).entries = _
    rw [track_entries]
    have := rebuild_txs
    simp only [txs] at this
    rw [this]
    simp [txs, List.filter_map, Function.comp_def]
  · refine ⟨?_, by simp [removeEntry, h, hc, removeEdges]⟩
    simp only [removeEntry, h, hc, removeEdges, txs, track_entries]
    simp only [Bool.false_eq_true, if_false]
    rw [modEntries_txs _ _ (by simp), modEntries_txs _ _ (by simp)]
    simp [List.filter_map, Function.comp_def]

theorem removeEntry_none (s : Pool) (id : Nat) (h : getEntry s id = none) : (removeEntry s id).1 = s := by
  unfold removeEntry; rw [h]

theorem inputsOK_removeEntry {s : Pool} (h : InputsOK s) (id : Nat) : InputsOK (removeEntry s id).1 := by
  cases hg : getEntry s id with
  | none => rw [removeEntry_none s id hg]; exact h
  | some e =>
    obtain ⟨ht, hi⟩ := removeEntry_txs s id e hg
    obtain ⟨hem, hid⟩ := getEntry_some hg
    have hetx : e.tx ∈ txs s := List.mem_map.mpr ⟨e, hem, rfl⟩
    constructor
    · intro t ht' o ho
      rw [ht] at ht'
      obtain ⟨htm, hne⟩ := List.mem_filter.mp ht'
      rw [hi]
      refine List.mem_filter.mpr ⟨h.recd t htm o ho, ?_⟩
      simp only [decide_eq_true_eq]
      intro hoe
      have := h.no_double_spend htm hetx ho hoe
      simp only [ne_eq, decide_not, Bool.not_eq_eq_eq_not, Bool.not_true, decide_eq_false_iff_not] at hne
      exact hne (by rw [this, hid])
    · intro p hp
      rw [hi] at hp
      obtain ⟨hpm, hpn⟩ := List.mem_filter.mp hp
      simp only [decide_eq_true_eq] at hpn
      obtain ⟨t, htm, htid, hto⟩ := h.own p hpm
      refine ⟨t, ?_, htid, hto⟩
      rw [ht]
      refine List.mem_filter.mpr ⟨htm, ?_⟩
      simp only [ne_eq, decide_not, Bool.not_eq_eq_eq_not, Bool.not_true, decide_eq_false_iff_not]
      intro hte
      have : t = e.tx := nodup_ids_unique _ h.ids htm hetx (by rw [hte, hid])
      exact hpn (this ▸ hto)
    · rw [hi]
      exact (List.Nodup.sublist (List.Sublist.map _ List.filter_sublist) h.keys)
    · rw [ht]
      exact (List.Nodup.sublist (List.Sublist.map _ List.filter_sublist) h.ids)

/-- what `remove_entry` leaves is a sub-multiset of what was there -/
theorem removeEntry_inputs_sub (s : Pool) (id : Nat) : ∀ p ∈ (removeEntry s id).1.inputs, p ∈ s.inputs := by
  intro p hp
  cases hg : getEntry s id with
  | none => rwa [removeEntry_none s id hg] at hp
  | some e =>
    rw [(removeEntry_txs s id e hg).2] at hp
    exact (List.mem_filter.mp hp).1

/-! ### remove_entry_and_descendants -/

theorem preSub_txs (s : Pool) (ids : List Nat) :
    txs (preSubDescendants s ids) = txs s ∧ (preSubDescendants s ids).inputs = s.inputs := by
  unfold preSubDescendants
  induction ids generalizing s with
  | nil => exact ⟨rfl, rfl⟩
  | cons a l ih =>
    simp only [List.foldl_cons]
    cases hg : getEntry s a with
    | none => simpa using ih s
    | some e =>
      simp only
      obtain ⟨h1, h2⟩ := ih { s with entries := modEntries (calcAnc s.links a) (subDesc e.tx.w) s.entries }
      refine ⟨?_, ?_⟩
      · rw [h1]; simp only [txs]; exact modEntries_txs _ _ (by simp) _
      · rw [h2]

theorem foldRemove_ok (ids : List Nat) (s : Pool) (acc : List Entry) (h : InputsOK s) :
    InputsOK (ids.foldl (fun (acc : Pool × List Entry) rid =>
      match removeEntry acc.1 rid with
      | (s', some e) => (s', acc.2 ++ [e])
      | (s', none) => (s', acc.2)) (s, acc)).1 ∧
    ∀ p ∈ (ids.foldl (fun (acc : Pool × List Entry) rid =>
      match removeEntry acc.1 rid with
      | (s', some e) => (s', acc.2 ++ [e])
      | (s', none) => (s', acc.2)) (s, acc)).1.inputs, p ∈ s.inputs := by
  induction ids generalizing s acc with
  | nil => exact ⟨h, fun _ hp => hp⟩
  | cons a l ih =>
    simp only [List.foldl_cons]
    have hr := inputsOK_removeEntry h a
    have hsub := removeEntry_inputs_sub s a
    rcases hre : removeEntry s a with ⟨s', oe⟩
    rw [hre] at hr hsub
    cases oe with
    | none =>
      obtain ⟨h1, h2⟩ := ih s' acc hr
      exact ⟨h1, fun p hp => hsub p (h2 p hp)⟩
    | some e =>
      obtain ⟨h1, h2⟩ := ih s' (acc ++ [e]) hr
      exact ⟨h1, fun p hp => hsub p (h2 p hp)⟩

theorem inputsOK_removeWithDesc {s : Pool} (h : InputsOK s) (id : Nat) :
    InputsOK (removeWithDesc s id).1 ∧ ∀ p ∈ (removeWithDesc s id).1.inputs, p ∈ s.inputs := by
  unfold removeWithDesc
  simp only
  have h0 : InputsOK (if s.cfg.fixF2 then preSubDescendants s (id :: (calcDesc s.links id).filter (· ≠ id)) else s) ∧
      (if s.cfg.fixF2 then preSubDescendants s (id :: (calcDesc s.links id).filter (· ≠ id)) else s).inputs = s.inputs := by
    split
    · obtain ⟨a, b⟩ := preSub_txs s (id :: (calcDesc s.links id).filter (· ≠ id))
      exact ⟨h.congr a b, b⟩
    · exact ⟨h, rfl⟩
  obtain ⟨h1, h2⟩ := h0
  have h3 := foldRemove_ok (id :: (calcDesc s.links id).filter (· ≠ id))
    { (if s.cfg.fixF2 then preSubDescendants s (id :: (calcDesc s.links id).filter (· ≠ id)) else s) with
      links := (id :: (calcDesc s.links id).filter (· ≠ id)).foldl removeEntryLinks
        (if s.cfg.fixF2 then preSubDescendants s (id :: (calcDesc s.links id).filter (· ≠ id)) else s).links } []
    (h1.congr rfl rfl)
  refine ⟨h3.1, fun p hp => ?_⟩
  have h4 : p ∈ (if s.cfg.fixF2 then preSubDescendants s (id :: (calcDesc s.links id).filter (· ≠ id)) else s).inputs :=
    h3.2 p hp
  rw [h2] at h4
  exact h4


/-! ### removals only shrink the pool -/

def Shrinks (s' s : Pool) : Prop := (∀ p ∈ s'.inputs, p ∈ s.inputs) ∧ (∀ t ∈ txs s', t ∈ txs s)

theorem Shrinks.refl (s : Pool) : Shrinks s s := ⟨fun _ h => h, fun _ h => h⟩
theorem Shrinks.trans {a b c : Pool} (h1 : Shrinks a b) (h2 : Shrinks b c) : Shrinks a c :=
  ⟨fun p h => h2.1 p (h1.1 p h), fun t h => h2.2 t (h1.2 t h)⟩

theorem removeEntry_shrinks (s : Pool) (id : Nat) : Shrinks (removeEntry s id).1 s := by
  refine ⟨removeEntry_inputs_sub s id, ?_⟩
  intro t ht
  cases hg : getEntry s id with
  | none => rwa [removeEntry_none s id hg] at ht
  | some e =>
    rw [(removeEntry_txs s id e hg).1] at ht
    exact (List.mem_filter.mp ht).1

theorem foldRemove_shrinks (ids : List Nat) (s : Pool) (acc : List Entry) :
    Shrinks (ids.foldl (fun (acc : Pool × List Entry) rid =>
      match removeEntry acc.1 rid with
      | (s', some e) => (s', acc.2 ++ [e])
      | (s', none) => (s', acc.2)) (s, acc)).1 s := by
  induction ids generalizing s acc with
  | nil => exact Shrinks.refl s
  | cons a l ih =>
    simp only [List.foldl_cons]
    have hsub := removeEntry_shrinks s a
    rcases hre : removeEntry s a with ⟨s', oe⟩
    rw [hre] at hsub
    cases oe with
    | none => exact (ih s' acc).trans hsub
    | some e => exact (ih s' (acc ++ [e])).trans hsub

theorem removeWithDesc_shrinks (s : Pool) (id : Nat) : Shrinks (removeWithDesc s id).1 s := by
  unfold removeWithDesc
  simp only
  have h0 : txs (if s.cfg.fixF2 then preSubDescendants s (id :: (calcDesc s.links id).filter (· ≠ id)) else s) = txs s ∧
      (if s.cfg.fixF2 then preSubDescendants s (id :: (calcDesc s.links id).filter (· ≠ id)) else s).inputs = s.inputs := by
    split
    · exact preSub_txs s _
    · exact ⟨rfl, rfl⟩
  have h3 := foldRemove_shrinks (id :: (calcDesc s.links id).filter (· ≠ id))
    { (if s.cfg.fixF2 then preSubDescendants s (id :: (calcDesc s.links id).filter (· ≠ id)) else s) with
      links := (id :: (calcDesc s.links id).filter (· ≠ id)).foldl removeEntryLinks
        (if s.cfg.fixF2 then preSubDescendants s (id :: (calcDesc s.links id).filter (· ≠ id)) else s).links } []
  refine h3.trans ⟨fun p hp => ?_, fun t ht => ?_⟩
  · have hp' : p ∈ (if s.cfg.fixF2 then preSubDescendants s (id :: (calcDesc s.links id).filter (· ≠ id)) else s).inputs := hp
    rw [h0.2] at hp'; exact hp'
  · have ht' : t ∈ txs (if s.cfg.fixF2 then preSubDescendants s (id :: (calcDesc s.links id).filter (· ≠ id)) else s) := ht
    rw [h0.1] at ht'; exact ht'

/-! ### add_entry -/

theorem foldAnc_tx (s : Pool) (l : List Nat) (x : Entry) :
    (l.foldl (fun e a => match getEntry s a with
      | some x => addAnc x.tx.w e
      | none => e) x).tx = x.tx := by
  induction l generalizing x with
  | nil => rfl
  | cons y l ih =>
    simp only [List.foldl_cons]
    rw [ih]
    cases getEntry s y <;> rfl

theorem recordAncestors_txs {s s' : Pool} {e e' : Entry} {a p : List Nat}
    (h : recordAncestors s e a p = some (s', e')) :
    txs s' = txs s ∧ s'.inputs = s.inputs ∧ e'.tx = e.tx := by
  unfold recordAncestors at h
  split at h
  · simp only [Option.some.injEq, Prod.mk.injEq] at h
    obtain ⟨hs, he⟩ := h
    subst hs
    exact ⟨rfl, rfl, by rw [← he]; exact foldAnc_tx s a e⟩
  · cases h

theorem evictLoop_ok (cands : List Nat) (s : Pool) (cnt : Nat) (parents ev : List Nat) (h : InputsOK s) :
    InputsOK (evictLoop cands s cnt parents ev).1 ∧ Shrinks (evictLoop cands s cnt parents ev).1 s := by
  induction cands generalizing s cnt parents ev with
  | nil => exact ⟨h, Shrinks.refl s⟩
  | cons c l ih =>
    unfold evictLoop
    split
    · obtain ⟨h1, h2⟩ := ih (removeWithDesc s c).1 (cnt - 1) (parents.filter (· ≠ c))
        (ev ++ idsOf (removeWithDesc s c).2) (inputsOK_removeWithDesc h c).1
      exact ⟨h1, h2.trans (removeWithDesc_shrinks s c)⟩
    · exact ⟨h, Shrinks.refl s⟩

/-- what `check_and_record_ancestors` guarantees about its result -/
def AncGood (s : Pool) (e : Entry) : AncRes → Prop
  | .ok s' e' _ => InputsOK s' ∧ Shrinks s' s ∧ e'.tx = e.tx
  | .panic s' => InputsOK s' ∧ Shrinks s' s
  | .rejAfter s' => InputsOK s' ∧ Shrinks s' s
  | .rej => True

theorem recordAncestors_good {s s0 : Pool} (h : InputsOK s) (hs : Shrinks s s0) (e : Entry) (a p ev : List Nat) :
    AncGood s0 e (match recordAncestors s e a p with
      | some (s', e') => AncRes.ok s' e' ev
      | none => AncRes.panic s) := by
  cases hr : recordAncestors s e a p with
  | none => exact ⟨h, hs⟩
  | some r =>
    obtain ⟨s', e'⟩ := r
    obtain ⟨x, y, z⟩ := recordAncestors_txs hr
    exact ⟨h.congr x y, Shrinks.trans ⟨fun p hp => y ▸ hp, fun t ht => x ▸ ht⟩ hs, z⟩

theorem checkAnc_ok {s : Pool} (h : InputsOK s) (e : Entry) : AncGood s e (checkAndRecordAncestors s e) := by
  unfold checkAndRecordAncestors
  simp only
  split
  · exact recordAncestors_good h (Shrinks.refl s) e _ _ _
  · split
    · have hl := evictLoop_ok
        (((byEvictKey s.entries).filter (·.tx.id ∈ (txAncestors s e.tx).2.2)).map (·.tx.id)) s
        ((txAncestors s e.tx).1.length + 1) (txAncestors s e.tx).2.1 [] h
      split
      · exact hl
      · split
        · exact recordAncestors_good hl.1 hl.2 e _ _ _
        · exact hl
    · trivial


theorem dedup_eq_nil {α} [DecidableEq α] (l : List α) (h : dedup l = []) : l = [] := by
  cases l with
  | nil => rfl
  | cons a l =>
    simp only [dedup] at h
    split at h
    · rename_i hm; rw [h] at hm; cases hm
    · cases h

theorem getEntry_none {s : Pool} {id : Nat} (h : getEntry s id = none) : ∀ x ∈ txs s, x.id ≠ id := by
  intro x hx
  obtain ⟨e, he, rfl⟩ := List.mem_map.mp hx
  unfold getEntry at h
  have := List.find?_eq_none.mp h e he
  simpa using this

theorem conflictIds_nil {s : Pool} {t : Tx} (h : conflictIds s t = []) :
    ∀ o ∈ t.inputs, ∀ p ∈ s.inputs, p.1 ≠ o := by
  intro o ho p hp hpo
  unfold conflictIds at h
  have h1 := dedup_eq_nil _ h
  have h2 : inputUser s o = none := by
    cases hu : inputUser s o with
    | none => rfl
    | some v =>
      have : v ∈ t.inputs.filterMap (inputUser s) := List.mem_filterMap.mpr ⟨o, ho, hu⟩
      rw [h1] at this; cases this
  unfold inputUser at h2
  simp only [Option.map_eq_none_iff] at h2
  have := List.find?_eq_none.mp h2 p hp
  simp [hpo] at this

theorem inputsOK_push {s1 F : Pool} {t : Tx} (h : InputsOK s1) (hid : ∀ x ∈ txs s1, x.id ≠ t.id)
    (hc : ∀ o ∈ t.inputs, ∀ p ∈ s1.inputs, p.1 ≠ o) (hn : t.inputs.Nodup)
    (ht : txs F = txs s1 ++ [t]) (hi : F.inputs = s1.inputs ++ t.inputs.map (·, t.id)) : InputsOK F := by
  constructor
  · intro x hx o ho
    rw [ht] at hx; rw [hi]
    rcases List.mem_append.mp hx with hx | hx
    · exact List.mem_append.mpr (Or.inl (h.recd x hx o ho))
    · have : x = t := by simpa using hx
      subst this
      exact List.mem_append.mpr (Or.inr (List.mem_map.mpr ⟨o, ho, rfl⟩))
  · intro p hp
    rw [hi] at hp; rw [ht]
    rcases List.mem_append.mp hp with hp | hp
    · obtain ⟨x, hx, a, b⟩ := h.own p hp
      exact ⟨x, List.mem_append.mpr (Or.inl hx), a, b⟩
    · obtain ⟨o, ho, rfl⟩ := List.mem_map.mp hp
      exact ⟨t, List.mem_append.mpr (Or.inr (by simp)), rfl, ho⟩
  · rw [hi, List.map_append, List.map_map]
    have : (Prod.fst ∘ fun x => (x, t.id)) = (id : OutPt → OutPt) := rfl
    have e2 : List.map ((fun x : OutPt × Nat => x.1) ∘ fun x => (x, t.id)) t.inputs = t.inputs := by
      show List.map (fun x => x) t.inputs = t.inputs
      simp
    rw [e2]
    refine List.nodup_append.mpr ⟨h.keys, hn, ?_⟩
    intro a ha b hb hab
    obtain ⟨p, hp, rfl⟩ := List.mem_map.mp ha
    exact hc b hb p hp hab
  · rw [ht, List.map_append]
    refine List.nodup_append.mpr ⟨h.ids, by simp, ?_⟩
    intro a ha b hb hab
    obtain ⟨x, hx, rfl⟩ := List.mem_map.mp ha
    have : b = t.id := by simpa using hb
    exact hid x hx (hab.trans this)

theorem recordDescendants_txs (s : Pool) (e : Entry) :
    txs (recordDescendants s e) = txs s ∧ (recordDescendants s e).inputs = s.inputs := by
  unfold recordDescendants
  simp only
  split
  · exact ⟨by simp only [txs]; exact modEntries_txs _ _ (by simp) _, rfl⟩
  · split
    · exact ⟨rebuild_txs _ _, rfl⟩
    · refine ⟨?_, rfl⟩
      simp only [txs]
      rw [modEntries_txs _ _ (by simp), modEntries_txs _ _ (by simp)]

theorem inputsOK_addEntry {s : Pool} (h : InputsOK s) (t : Tx) (st : Status) (ts : Nat) :
    InputsOK (addEntry s t st ts).1 := by
  unfold addEntry
  split
  · exact h
  · rename_i hdup
    split
    · exact h
    · rename_i hconf
      have hg := checkAnc_ok h (Entry.fresh t st ts)
      split
      · exact h
      · rename_i s' heq; rw [heq] at hg; exact hg.1
      · rename_i s' heq; rw [heq] at hg; exact hg.1
      · rename_i s1 e ev heq
        rw [heq] at hg
        obtain ⟨h1, hsh, hetx⟩ := hg
        have hetx : e.tx = t := hetx
        simp only [Bool.not_eq_true, Option.isSome_eq_false_iff, Option.isNone_iff_eq_none] at hdup
        simp only [Bool.or_eq_true, Bool.not_eq_eq_eq_not, Bool.not_true, List.isEmpty_eq_false_iff, ne_eq,
          decide_eq_false_iff_not, not_or, Decidable.not_not] at hconf
        have hc0 := conflictIds_nil hconf.1
        have hid0 := getEntry_none hdup
        refine inputsOK_push h1 (fun x hx => hid0 x (hsh.2 x hx)) (fun o ho p hp => hc0 o ho p (hsh.1 p hp)) hconf.2 ?_ ?_
        · simp only [txs, track_entries]
          have := (recordDescendants_txs ({ recordEdges s1 t with entries := (recordEdges s1 t).entries ++ [e] }) e).1
          simp only [txs] at this
          rw [this]
          simp [recordEdges, hetx]
        · simp only [track_inputs]
          have := (recordDescendants_txs ({ recordEdges s1 t with entries := (recordEdges s1 t).entries ++ [e] }) e).2
          rw [this]
          rfl


/-! ### the other operations -/

theorem inputsOK_setEntry {s : Pool} (h : InputsOK s) (id : Nat) (st : Status) : InputsOK (setEntry s id st) := by
  unfold setEntry
  split
  · exact h
  · refine h.congr ?_ (by simp)
    simp only [txs, track_entries, List.map_map]
    congr 1
    funext x
    simp only [Function.comp]
    split <;> rfl

theorem foldRmd_ok (ids : List Nat) (s : Pool) (acc : List Nat) (h : InputsOK s) :
    InputsOK (ids.foldl (fun (acc : Pool × List Nat) id =>
      let r := removeWithDesc acc.1 id
      (r.1, acc.2 ++ idsOf r.2)) (s, acc)).1 := by
  induction ids generalizing s acc with
  | nil => exact h
  | cons a l ih =>
    simp only [List.foldl_cons]
    exact ih _ _ (inputsOK_removeWithDesc h a).1

theorem inputsOK_resolveHeaders {s : Pool} (h : InputsOK s) (hs : List Nat) : InputsOK (resolveHeaders s hs).1 := by
  unfold resolveHeaders
  exact foldRmd_ok _ s [] h

theorem inputsOK_limitLoop (f : Nat) (s : Pool) (ev : List Nat) (h : InputsOK s) : InputsOK (limitLoop f s ev).1 := by
  induction f generalizing s ev with
  | zero => exact h
  | succ n ih =>
    unfold limitLoop
    split
    · split
      · exact ih _ _ (inputsOK_removeWithDesc h _).1
      · exact h
    · exact h

theorem inputsOK_limitSize {s : Pool} (h : InputsOK s) : InputsOK (limitSize s).1 :=
  inputsOK_limitLoop _ s [] h

theorem inputsOK_removeExpired (order : List Nat) (s : Pool) (h : InputsOK s) : InputsOK (removeExpired s order) := by
  unfold removeExpired
  induction order generalizing s with
  | nil => exact h
  | cons a l ih => simp only [List.foldl_cons]; exact ih _ (inputsOK_removeWithDesc h a).1

theorem foldAdd_ok (l : List Entry) (s : Pool) (h : InputsOK s) :
    InputsOK (l.foldl (fun s x => (addEntry s x.tx .pending x.ts).1) s) := by
  induction l generalizing s with
  | nil => exact h
  | cons a l ih => simp only [List.foldl_cons]; exact ih _ (inputsOK_addEntry h _ _ _)

theorem inputsOK_detach (ids : List Nat) (s : Pool) (h : InputsOK s) : InputsOK (detachProposals s ids) := by
  unfold detachProposals
  induction ids generalizing s with
  | nil => exact h
  | cons a l ih =>
    simp only [List.foldl_cons]
    apply ih
    split
    · exact h
    · split
      · exact h
      · exact foldAdd_ok _ _ (inputsOK_removeWithDesc h a).1

theorem inputsOK_submit {s : Pool} (h : InputsOK s) (t : Tx) (st : Status) (ts : Nat) :
    InputsOK (submit s t st ts).1 := by
  unfold submit
  simp only
  split
  · exact h
  · rename_i conflicts _
    have h1 := foldRmd_ok conflicts s [] h
    generalize (conflicts.foldl (fun (acc : Pool × List Nat) c =>
      let r := removeWithDesc acc.1 c
      (r.1, acc.2 ++ idsOf r.2)) (s, [])) = r at h1
    obtain ⟨s1, replaced⟩ := r
    simp only
    have h2 := inputsOK_addEntry h1 t st ts
    split
    · rename_i s2 ev heq
      rw [heq] at h2
      have h3 := inputsOK_limitSize h2
      generalize limitSize s2 = q at h3
      obtain ⟨s3, lim⟩ := q
      simp only
      split <;> exact h3
    · rename_i s2 r _ heq
      rw [heq] at h2
      exact h2

/-! ### more projections (used by the later parts) -/

@[simp] theorem track_cfg (s : Pool) (a b : Option Status) : (track s a b).cfg = s.cfg := by
  unfold track; cases a with
  | none => cases b with
    | none => rfl
    | some y => cases y <;> rfl
  | some x => cases x <;> (cases b with
    | none => rfl
    | some y => cases y <;> rfl)

@[simp] theorem track_chain (s : Pool) (a b : Option Status) : (track s a b).chain = s.chain := by
  unfold track; cases a with
  | none => cases b with
    | none => rfl
    | some y => cases y <;> rfl
  | some x => cases x <;> (cases b with
    | none => rfl
    | some y => cases y <;> rfl)

@[simp] theorem track_links (s : Pool) (a b : Option Status) : (track s a b).links = s.links := by
  unfold track; cases a with
  | none => cases b with
    | none => rfl
    | some y => cases y <;> rfl
  | some x => cases x <;> (cases b with
    | none => rfl
    | some y => cases y <;> rfl)

@[simp] theorem track_deps (s : Pool) (a b : Option Status) : (track s a b).deps = s.deps := by
  unfold track; cases a with
  | none => cases b with
    | none => rfl
    | some y => cases y <;> rfl
  | some x => cases x <;> (cases b with
    | none => rfl
    | some y => cases y <;> rfl)

@[simp] theorem track_hdeps (s : Pool) (a b : Option Status) : (track s a b).hdeps = s.hdeps := by
  unfold track; cases a with
  | none => cases b with
    | none => rfl
    | some y => cases y <;> rfl
  | some x => cases x <;> (cases b with
    | none => rfl
    | some y => cases y <;> rfl)

@[simp] theorem track_ghostBad (s : Pool) (a b : Option Status) : (track s a b).ghostBad = s.ghostBad := by
  unfold track; cases a with
  | none => cases b with
    | none => rfl
    | some y => cases y <;> rfl
  | some x => cases x <;> (cases b with
    | none => rfl
    | some y => cases y <;> rfl)

@[simp] theorem track_totalSize (s : Pool) (a b : Option Status) : (track s a b).totalSize = s.totalSize := by
  unfold track; cases a with
  | none => cases b with
    | none => rfl
    | some y => cases y <;> rfl
  | some x => cases x <;> (cases b with
    | none => rfl
    | some y => cases y <;> rfl)

@[simp] theorem track_totalCycles (s : Pool) (a b : Option Status) : (track s a b).totalCycles = s.totalCycles := by
  unfold track; cases a with
  | none => cases b with
    | none => rfl
    | some y => cases y <;> rfl
  | some x => cases x <;> (cases b with
    | none => rfl
    | some y => cases y <;> rfl)

@[simp] theorem rebuild_deps (s : Pool) (ids : List Nat) : (rebuild s ids).deps = s.deps := rfl
@[simp] theorem rebuild_hdeps (s : Pool) (ids : List Nat) : (rebuild s ids).hdeps = s.hdeps := rfl
@[simp] theorem rebuild_cfg (s : Pool) (ids : List Nat) : (rebuild s ids).cfg = s.cfg := rfl
@[simp] theorem rebuild_ghostBad (s : Pool) (ids : List Nat) : (rebuild s ids).ghostBad = s.ghostBad := rfl

theorem removeEntry_cfg (s : Pool) (id : Nat) : (removeEntry s id).1.cfg = s.cfg := by
  cases h : getEntry s id with
  | none => rw [removeEntry_none s id h]
  | some e => by_cases hc : (isBetween s.links id && s.cfg.fixMid) = true <;> simp [removeEntry, h, hc, removeEdges]

theorem removeEntry_ghostBad (s : Pool) (id : Nat) (e : Entry) (h : getEntry s id = some e) :
    (removeEntry s id).1.ghostBad = (s.ghostBad || isBetween s.links id) := by
  by_cases hc : (isBetween s.links id && s.cfg.fixMid) = true <;> simp [removeEntry, h, hc, removeEdges]

theorem removeEntry_links (s : Pool) (id : Nat) (e : Entry) (h : getEntry s id = some e) :
    (removeEntry s id).1.links = removeEntryLinks s.links id := by
  by_cases hc : (isBetween s.links id && s.cfg.fixMid) = true <;> simp [removeEntry, h, hc, removeEdges]

/-- the entries after `remove_entry` when the entry was not between ancestors and descendants -/
theorem removeEntry_entries_plain (s : Pool) (id : Nat) (e : Entry) (h : getEntry s id = some e)
    (hb : isBetween s.links id = false) :
    (removeEntry s id).1.entries = modEntries (calcDesc s.links id) (subAnc e.tx.w)
      (modEntries (calcAnc s.links id) (subDesc e.tx.w) (s.entries.filter (·.tx.id ≠ id))) := by
  simp [removeEntry, h, hb, removeEdges]

end CkbVerif.Pool
