import CkbVerif.Props.C01

/-!
# C08 — a crash at any point of block import recovers to a consistent, convergent state

Model: `CkbVerif.Chain` with `crash` = the persisted part (`stored td ver tip tipTd`, RocksDB)
survives, the volatile part (`invalid pool queue pending`: block_status_map, orphan pool, both
channels, is_pending_verify) is dropped. RocksDB commits are atomic and durable across *process*
death (assumption; power loss / torn WAL below RocksDB is out of scope). Crash points: every model
step performs its commits one at a time, in the code's order: `deliver` = `insert_block` commit, then
one `delete_block` commit per rejected block (`route`, then one `stepPool` per search candidate);
`verify` = exactly one commit (the all-or-nothing `verify_block` transaction, or the deletion of the
failed block). So the states between two commits are: any reachable state, the state after the
insert, and any prefix of the search fold — all covered by `crash_point_consistent`.
Restart = `crash`, then `InitLoadUnverified` re-delivers `scanList` (ordinary `deliver` operations,
interleaved arbitrarily with `verify`).
The stored *view* (cells, indexes: C02's replay equality) is not part of this model; the harness
checks it on the reopened store.
-/
namespace CkbVerif.C08
open CkbVerif.Chain CkbVerif.C01 CkbVerif.Gen.Chain

/-- the part of the invariant that only talks about persisted data -/
structure PInv (T : Tree) (s : State) : Prop where
  gen : s.ver 0 = true ∧ s.td 0 = some (T.work 0)
  tipOk : s.td s.tip = some s.tipTd ∧ s.ver s.tip = true
  verClosed : ∀ b, s.ver b = true → b ≠ 0 → T.nc b = true ∧ T.ok b = true ∧ s.ver (T.par b) = true
  verExt : ∀ b, s.ver b = true → (s.td b).isSome = true
  tdTrue : ∀ b n, s.td b = some n → TD T b n
  extPar : ∀ b, (s.td b).isSome = true → b ≠ 0 → (s.td (T.par b)).isSome = true
  tdLe : ∀ b n, s.td b = some n → n ≤ s.tipTd

theorem pinv_of_safe {T : Tree} {s : State} (h : Safe T s) : PInv T (crash s) :=
  ⟨h.gen, h.tipOk, h.verClosed, h.verExt, h.tdTrue, fun b hb hb0 => (h.extPar b hb hb0).1, h.tdLe⟩

/-- the state in the middle of a delivery: after `insert_block`, `route`, and any prefix `cands` of
the orphan search -/
def midDeliver (T : Tree) (s : State) (b : Nat) (cands : List Nat) : State :=
  let s1 := { s with seen := upd s.seen b true, stored := upd s.stored b true, commits := s.commits + 1 }
  let r := route T s1 b
  (cands.foldl (stepPool T r.1.pool) r).1

/-- **persisted_inv_every_commit**: whatever has been done (any operation sequence, earlier crashes
included), and wherever inside a delivery the process dies (after the insert commit, after any
number of the deletions of the orphan search), the persisted state satisfies the persisted
invariant: the tip has a verified ext with the true accumulated work, verified blocks are
ancestor-closed and fully valid, every ext's parent has an ext, no ext exceeds the tip's work. -/
theorem persisted_inv_every_commit (T : Tree) (s : State) (h : Reachable T s) :
    PInv T (crash s) ∧
    (∀ b, b ≠ 0 → T.nc b = true →
      PInv T (crash { s with seen := upd s.seen b true, stored := upd s.stored b true, commits := s.commits + 1 }) ∧
      ∀ cands, PInv T (crash (midDeliver T s b cands))) := by
  have hs := (inv_reachable T s h).safe
  refine ⟨pinv_of_safe hs, fun b hb hnc => ⟨?_, fun cands => ?_⟩⟩
  · exact pinv_of_safe (hs.of_sameChain ⟨rfl, rfl, rfl, rfl⟩ hs.queueNc hs.poolNc)
  · apply pinv_of_safe
    unfold midDeliver
    exact foldl_preserves (stepPool T _) (fun acc => Safe T acc.1) (fun acc c h => safe_stepPool h c) _ _
      (safe_route hs hb hnc)

/-- the tip of a crashed store is fully valid and carries its true accumulated work -/
theorem crash_tip_valid (T : Tree) (s : State) (h : PInv T s) :
    FullyValid T s.tip ∧ TD T s.tip s.tipTd := by
  refine ⟨?_, h.tdTrue _ _ h.tipOk.1⟩
  have : ∀ b, s.ver b = true → FullyValid T b := by
    intro b
    induction b using Nat.strongRecOn with
    | _ b ih =>
      intro hv
      by_cases hb : b = 0
      · subst hb; exact .genesis
      · obtain ⟨h1, h2, h3⟩ := h.verClosed b hv hb
        exact .step hb h1 h2 (ih _ (T.par_lt hb) h3)
  exact this _ h.tipOk.2

/-- **restart_establishes_inv**: dropping the volatile state of ANY state that satisfies the
safety invariant gives a state satisfying the full invariant `Inv` (so every C01 theorem applies
from there on) -/
theorem crash_establishes_inv (T : Tree) (s : State) (h : Safe T s) : Inv T (crash s) :=
  ⟨safe_crash h, fun _ => live_crash h⟩

/-- the operations `InitLoadUnverified` performs -/
def restartOps (T : Tree) (maxEpochLen : Nat) (order : List Nat) (s : State) : List Op :=
  (scanList T maxEpochLen order (crash s)).map fun b => Op.deliver b []

theorem restart_establishes_inv (T : Tree) (s : State) (h : Safe T s) (mel : Nat) (order : List Nat)
    (more : List Op) : Inv T (run T (crash s) (restartOps T mel order s ++ more)) :=
  inv_run' _ _ (crash_establishes_inv T s h)

/-- **unverified_resubmitted**: exactly the blocks that are stored without ext, lie in the scan
window and are not cut off by a number gap above the tip are re-delivered -/
theorem unverified_resubmitted (T : Tree) (mel : Nat) (order : List Nat) (s : State) (b : Nat) :
    b ∈ scanList T mel order s ↔
      (b ∈ order ∧ s.stored b = true ∧ s.td b = none ∧ b ≠ 0) ∧
      max 1 (T.num s.tip - EXPIRED_EPOCH * mel) ≤ T.num b ∧
      T.num b ≤ T.num s.tip + BLOCK_DOWNLOAD_WINDOW * INIT_LOAD_WINDOW_FACTOR ∧
      (∀ i, i < T.num b - T.num s.tip →
        ∃ x, (x ∈ order ∧ s.stored x = true ∧ s.td x = none ∧ x ≠ 0) ∧ T.num x = T.num s.tip + 1 + i) := by
  unfold scanList
  simp only [List.mem_filter, Bool.and_eq_true, decide_eq_true_eq, List.all_eq_true, List.mem_range,
    List.any_eq_true, beq_iff_eq, bne_iff_ne, ne_eq, Option.isNone_iff_eq_none]
  constructor
  · rintro ⟨⟨h1, ⟨h2, h3⟩, h4⟩, ⟨h5, h6⟩, h7⟩
    refine ⟨⟨h1, h2, h3, h4⟩, h5, h6, fun i hi => ?_⟩
    obtain ⟨x, ⟨hx1, ⟨hx2, hx3⟩, hx4⟩, hx5⟩ := h7 i hi
    exact ⟨x, ⟨hx1, hx2, hx3, hx4⟩, hx5⟩
  · rintro ⟨⟨h1, h2, h3, h4⟩, h5, h6, h7⟩
    refine ⟨⟨h1, ⟨h2, h3⟩, h4⟩, ⟨h5, h6⟩, fun i hi => ?_⟩
    obtain ⟨x, ⟨hx1, hx2, hx3, hx4⟩, hx5⟩ := h7 i hi
    exact ⟨x, ⟨hx1, ⟨hx2, hx3⟩, hx4⟩, hx5⟩

/-- … and after that, unless the expiry timer fired, each re-delivered fully valid block has an
ext, or is queued for verification, or is held in the orphan pool (whatever else happens) -/
theorem resubmitted_accounted (T : Tree) (s : State) (h : Safe T s) (mel : Nat) (order : List Nat)
    (more : List Op) (hcf : crashFree more) (b : Nat) (hb : b ∈ scanList T mel order (crash s))
    (hfv : FullyValid T b)
    (hx : (run T (crash s) (restartOps T mel order s ++ more)).expiryFired = false) :
    ((run T (crash s) (restartOps T mel order s ++ more)).td b).isSome = true ∨
    b ∈ (run T (crash s) (restartOps T mel order s ++ more)).queue ∨
    b ∈ (run T (crash s) (restartOps T mel order s ++ more)).pool := by
  have hinv := restart_establishes_inv T s h mel order more
  have hb0 : b ≠ 0 := ((unverified_resubmitted T mel order (crash s) b).mp hb).1.2.2.2
  have hcf' : crashFree (restartOps T mel order s ++ more) := by
    intro op hop
    rcases List.mem_append.mp hop with h1 | h1
    · unfold restartOps at h1
      obtain ⟨x, _, rfl⟩ := List.mem_map.mp h1
      exact fun hc => Op.noConfusion hc
    · exact hcf op h1
  have hdel : b ∈ delivered (restartOps T mel order s ++ more) := by
    have : ∀ (l : List Nat) (m : List Op), b ∈ l → b ∈ delivered (l.map (fun x => Op.deliver x []) ++ m) := by
      intro l
      induction l with
      | nil => intro m hm; simp at hm
      | cons y r ih =>
        intro m hm
        simp only [List.map_cons, List.cons_append, delivered, List.mem_cons]
        rcases List.mem_cons.mp hm with h1 | h1
        · exact Or.inl h1
        · exact Or.inr (ih m h1)
    exact this _ more hb
  have hseen := (seen_run T _ (crash s) hcf' b).mpr (Or.inr ⟨hb0, hdel⟩)
  exact (hinv.live hx).core.kept b hb0 hseen hfv

/-! ## Convergence -/

theorem seen_history (T : Tree) : ∀ (ops : List Op) (s : State), SeenOk s →
    ∀ b, b ≠ 0 → (run T s ops).seen b = true → s.seen b = true ∨ b ∈ delivered ops := by
  intro ops
  induction ops with
  | nil => intro s _ b _ h; exact Or.inl h
  | cons op ops ih =>
    intro s hk b hb0 h
    have hk' := seenOk_step (T := T) hk op
    rcases ih _ hk' b hb0 h with h1 | h1
    · cases op with
      | deliver x hint =>
        change (deliver T hint s x).1.seen b = true at h1
        rw [deliver_seen] at h1
        by_cases hx : x = 0
        · simp only [hx, if_true] at h1; exact Or.inl h1
        · simp only [hx, if_false] at h1
          rcases upd_true_cases h1 with h2 | h2
          · exact Or.inl h2
          · right; simp [delivered, h2]
      | verify =>
        change (verifyHead T s).1.seen b = true at h1
        rw [verify_seen] at h1; exact Or.inl h1
      | expire =>
        change (expire T s).seen b = true at h1
        rw [expire_seen] at h1; exact Or.inl h1
      | crash => exact Or.inl (hk.ext b h1 hb0)
    · right
      cases op with
      | deliver x hint => simp [delivered, h1]
      | verify => exact h1
      | expire => exact h1
      | crash => exact h1

/-- **crash_convergence**: take ANY history `ops` — crashes at any points, repeated, restarts'
re-deliveries, any interleaving — that only ever delivers blocks of the set `D`, and in whose final
state every block of `D` has been delivered since the last crash or already had an ext at that
crash; if it ends quiescent (and the expiry timer removed nothing since the last crash), its total
difficulty equals that of any crash-free quiescent history `ops0` delivering exactly `D`; and the
tips are equal when the heaviest fully valid chain is unique. -/
theorem crash_convergence (T : Tree) (D : List Nat) (ops ops0 : List Op)
    (hc0 : crashFree ops0) (hD0 : ∀ b, b ∈ delivered ops0 ↔ b ∈ D)
    (hsub : ∀ b, b ∈ delivered ops → b ∈ D)
    (hall : ∀ b ∈ D, b ≠ 0 → (run T (init T) ops).seen b = true)
    (hq : Quiescent (run T (init T) ops)) (hq0 : Quiescent (run T (init T) ops0))
    (hx : (run T (init T) ops).expiryFired = false) (hx0 : (run T (init T) ops0).expiryFired = false) :
    (run T (init T) ops).tipTd = (run T (init T) ops0).tipTd ∧
    ((∀ b, ChainIn T (fun x => x ≠ 0 ∧ x ∈ D) b → TD T b (run T (init T) ops0).tipTd →
        b = (run T (init T) ops0).tip) → (run T (init T) ops).tip = (run T (init T) ops0).tip) := by
  have i := inv_run' ops _ (inv_init' T)
  have i0 := inv_run' ops0 _ (inv_init' T)
  have k := seenOk_run (T := T) ops _ (seenOk_init T)
  have k0 := seenOk_run (T := T) ops0 _ (seenOk_init T)
  have s0 : ∀ b, (run T (init T) ops0).seen b = true ↔ (b ≠ 0 ∧ b ∈ D) := by
    intro b; rw [seen_run T ops0 _ hc0 b, hD0]; simp [init]
  have c := chainIn_of_ver i.safe k _ i.safe.tipOk.2
  have c0 := chainIn_of_ver i0.safe k0 _ i0.safe.tipOk.2
  have t := i.safe.tdTrue _ _ i.safe.tipOk.1
  have t0 := i0.safe.tdTrue _ _ i0.safe.tipOk.1
  -- the crashed history's tip is a chain inside D
  have cD : ChainIn T (fun x => x ≠ 0 ∧ x ∈ D) (run T (init T) ops).tip := by
    have hmem : ∀ b, b ≠ 0 → (run T (init T) ops).seen b = true → b ∈ D := by
      intro b hb0 hb
      rcases seen_history T ops _ (seenOk_init T) b hb0 hb with h1 | h1
      · simp [init] at h1
      · exact hsub b h1
    have : ∀ x, ChainIn T (fun y => (run T (init T) ops).seen y = true) x →
        ChainIn T (fun y => y ≠ 0 ∧ y ∈ D) x := by
      intro x hx
      induction hx with
      | genesis => exact .genesis
      | step hb hd h1 h2 _ ih => exact .step hb ⟨hb, hmem _ hb hd⟩ h1 h2 ih
    exact this _ c
  have c_in_0 : ChainIn T (fun x => (run T (init T) ops0).seen x = true) (run T (init T) ops).tip :=
    cD.mono (fun b hb => (s0 b).mpr hb)
  have c0_in : ChainIn T (fun x => (run T (init T) ops).seen x = true) (run T (init T) ops0).tip :=
    c0.mono (fun b hb => hall b ((s0 b).mp hb).2 ((s0 b).mp hb).1)
  have le1 := tip_heaviest_at_quiescence T _ i0 hq0 hx0 _ _ c_in_0 t
  have le2 := tip_heaviest_at_quiescence T _ i hq hx _ _ c0_in t0
  have heq : (run T (init T) ops).tipTd = (run T (init T) ops0).tipTd := Nat.le_antisymm le1 le2
  refine ⟨heq, fun huniq => ?_⟩
  apply huniq
  · exact cD
  · rw [← heq]; exact t

/-! ## Non-vacuity -/

/-- crash in the middle of C01's example history (after the 5th operation: block 1 inserted and
queued but not verified; orphans 2,4,5 stored: all four are re-delivered by the scan), restart scan, redelivery -/
def exCrashed : State := crash (run exTree (init exTree) (exOps.take 5))

example : exCrashed.tip = 0 ∧ exCrashed.stored 1 = true ∧ exCrashed.td 1 = none ∧
    scanList exTree 10 [1, 3, 2, 4, 6, 5] exCrashed = [1, 2, 4, 5] := by decide

def exRecovered : State :=
  run exTree (init exTree)
    (exOps.take 5 ++ [.crash] ++ restartOps exTree 10 [1, 3, 2, 4, 6, 5] (run exTree (init exTree) (exOps.take 5))
      ++ [.verify, .verify, .deliver 3 [], .deliver 4 [], .deliver 5 [], .deliver 6 [], .deliver 1 [], .deliver 2 [],
          .verify, .verify, .verify, .verify, .verify, .verify, .verify, .verify])

/-- the recovered history ends quiescent with the same total difficulty as the crash-free one -/
example : Quiescent exRecovered ∧ exRecovered.expiryFired = false ∧ exRecovered.tipTd = exFinal.tipTd ∧
    exRecovered.tip = 2 ∧ (∀ b ∈ [1, 2, 3, 4, 5, 6], exRecovered.seen b = true) := by decide

end CkbVerif.C08
