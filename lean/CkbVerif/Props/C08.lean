import CkbVerif.Props.C01
import CkbVerif.Lemmas.Restart
import CkbVerif.Lemmas.RestartView
import CkbVerif.Gen.Restart
import CkbVerif.Gen.Window

/-!
# C08 — a crash at any point of block import recovers to a consistent, convergent state

Model: `CkbVerif.Chain` with `crash` = the persisted part (`stored td ver tip tipTd`, RocksDB)
survives, the volatile part (`invalid pool queue pending`: block_status_map, orphan pool, both
channels, is_pending_verify) is dropped. RocksDB commits are atomic and durable across *process*
death (assumption; power loss / torn WAL below RocksDB is out of scope). Crash points: every model
step performs its commits one at a time, in the code's order: `deliver` = `insert_block` commit, then
one `delete_block` commit per rejected block (`route`, then one `stepPool` per search candidate);
`verify` = exactly one commit (the all-or-nothing `verify_block` transaction, or the deletion of the
failed block). So the states between two commits are: any reachable state, the state after the
insert, and any prefix of the search fold — all covered by `crash_point_consistent`.
Restart = `crash`, then `InitLoadUnverified` re-delivers `scanList` (ordinary `deliver` operations,
interleaved arbitrarily with `verify`).
The stored *view* (cells, indexes: C02's replay equality) is not part of this model; the harness
checks it on the reopened store (and, after a restart, `Snapshot::proposals()`, the current epoch and
`get_block_status` against a replay and a never-crashed reference node).
Restart WITHOUT re-delivery (section below): `restart_requeues_all_connectable`,
`restart_then_missing_delivery_converges` (window hypothesis explicit), `mutant_window_diverges`,
`window_hypothesis_violated_reachable`; the source text of the scan-window expressions is regenerated
(`Gen/Restart.lean`) and pinned at the end of this file.
-/
namespace CkbVerif.C08
open CkbVerif.Chain CkbVerif.C01 CkbVerif.Gen.Chain

/-- the part of the invariant that only talks about persisted data -/
structure PInv (T : Tree) (s : State) : Prop where
  gen : s.ver 0 = true ∧ s.td 0 = some (T.work 0)
  tipOk : s.td s.tip = some s.tipTd ∧ s.ver s.tip = true
  verClosed : ∀ b, s.ver b = true → b ≠ 0 → T.nc b = true ∧ T.ok b = true ∧ s.ver (T.par b) = true
  verExt : ∀ b, s.ver b = true → (s.td b).isSome = true
  tdTrue : ∀ b n, s.td b = some n → TD T b n
  extPar : ∀ b, (s.td b).isSome = true → b ≠ 0 → (s.td (T.par b)).isSome = true
  tdLe : ∀ b n, s.td b = some n → n ≤ s.tipTd

theorem pinv_of_safe {T : Tree} {s : State} (h : Safe T s) : PInv T (crash s) :=
  ⟨h.gen, h.tipOk, h.verClosed, h.verExt, h.tdTrue, fun b hb hb0 => (h.extPar b hb hb0).1, h.tdLe⟩

/-- the state in the middle of a delivery: after `insert_block`, `route`, and any prefix `cands` of
the orphan search -/
def midDeliver (T : Tree) (s : State) (b : Nat) (cands : List Nat) : State :=
  let s1 := { s with seen := upd s.seen b true, stored := upd s.stored b true, commits := s.commits + 1 }
  let r := route T s1 b
  (cands.foldl (stepPool T r.1.pool) r).1

/-- **persisted_inv_every_commit**: whatever has been done (any operation sequence, earlier crashes
included), and wherever inside a delivery the process dies (after the insert commit, after any
number of the deletions of the orphan search), the persisted state satisfies the persisted
invariant: the tip has a verified ext with the true accumulated work, verified blocks are
ancestor-closed and fully valid, every ext's parent has an ext, no ext exceeds the tip's work. -/
theorem persisted_inv_every_commit (T : Tree) (s : State) (h : Reachable T s) :
    PInv T (crash s) ∧
    (∀ b, b ≠ 0 → T.nc b = true →
      PInv T (crash { s with seen := upd s.seen b true, stored := upd s.stored b true, commits := s.commits + 1 }) ∧
      ∀ cands, PInv T (crash (midDeliver T s b cands))) := by
  have hs := (inv_reachable T s h).safe
  refine ⟨pinv_of_safe hs, fun b hb hnc => ⟨?_, fun cands => ?_⟩⟩
  · exact pinv_of_safe (hs.of_sameChain ⟨rfl, rfl, rfl, rfl⟩ hs.queueNc hs.poolNc)
  · apply pinv_of_safe
    unfold midDeliver
    exact foldl_preserves (stepPool T _) (fun acc => Safe T acc.1) (fun acc c h => safe_stepPool h c) _ _
      (safe_route hs hb hnc)

/-- the tip of a crashed store is fully valid and carries its true accumulated work -/
theorem crash_tip_valid (T : Tree) (s : State) (h : PInv T s) :
    FullyValid T s.tip ∧ TD T s.tip s.tipTd := by
  refine ⟨?_, h.tdTrue _ _ h.tipOk.1⟩
  have : ∀ b, s.ver b = true → FullyValid T b := by
    intro b
    induction b using Nat.strongRecOn with
    | _ b ih =>
      intro hv
      by_cases hb : b = 0
      · subst hb; exact .genesis
      · obtain ⟨h1, h2, h3⟩ := h.verClosed b hv hb
        exact .step hb h1 h2 (ih _ (T.par_lt hb) h3)
  exact this _ h.tipOk.2

/-- **restart_establishes_inv**: dropping the volatile state of ANY state that satisfies the
safety invariant gives a state satisfying the full invariant `Inv` (so every C01 theorem applies
from there on) -/
theorem crash_establishes_inv (T : Tree) (s : State) (h : Safe T s) : Inv T (crash s) :=
  ⟨safe_crash h, fun _ => live_crash h⟩

/-- the operations `InitLoadUnverified` performs -/
def restartOps (T : Tree) (maxEpochLen : Nat) (order : List Nat) (s : State) : List Op :=
  (scanList T maxEpochLen order (crash s)).map fun b => Op.deliver b []

theorem restart_establishes_inv (T : Tree) (s : State) (h : Safe T s) (mel : Nat) (order : List Nat)
    (more : List Op) : Inv T (run T (crash s) (restartOps T mel order s ++ more)) :=
  inv_run' _ _ (crash_establishes_inv T s h)

/-- **unverified_resubmitted**: exactly the blocks that are stored without ext, lie in the scan
window and are not cut off by a number gap above the tip are re-delivered -/
theorem unverified_resubmitted (T : Tree) (mel : Nat) (order : List Nat) (s : State) (b : Nat) :
    b ∈ scanList T mel order s ↔
      (b ∈ order ∧ s.stored b = true ∧ s.td b = none ∧ b ≠ 0) ∧
      max 1 (T.num s.tip - EXPIRED_EPOCH * mel) ≤ T.num b ∧
      T.num b ≤ T.num s.tip + BLOCK_DOWNLOAD_WINDOW * INIT_LOAD_WINDOW_FACTOR ∧
      (∀ i, i < T.num b - T.num s.tip →
        ∃ x, (x ∈ order ∧ s.stored x = true ∧ s.td x = none ∧ x ≠ 0) ∧ T.num x = T.num s.tip + 1 + i) := by
  unfold scanList
  simp only [List.mem_filter, Bool.and_eq_true, decide_eq_true_eq, List.all_eq_true, List.mem_range,
    List.any_eq_true, beq_iff_eq, bne_iff_ne, ne_eq, Option.isNone_iff_eq_none]
  constructor
  · rintro ⟨⟨h1, ⟨h2, h3⟩, h4⟩, ⟨h5, h6⟩, h7⟩
    refine ⟨⟨h1, h2, h3, h4⟩, h5, h6, fun i hi => ?_⟩
    obtain ⟨x, ⟨hx1, ⟨hx2, hx3⟩, hx4⟩, hx5⟩ := h7 i hi
    exact ⟨x, ⟨hx1, hx2, hx3, hx4⟩, hx5⟩
  · rintro ⟨⟨h1, h2, h3, h4⟩, h5, h6, h7⟩
    refine ⟨⟨h1, ⟨h2, h3⟩, h4⟩, ⟨h5, h6⟩, fun i hi => ?_⟩
    obtain ⟨x, ⟨hx1, hx2, hx3, hx4⟩, hx5⟩ := h7 i hi
    exact ⟨x, ⟨hx1, ⟨hx2, hx3⟩, hx4⟩, hx5⟩

/-- … and after that, unless the expiry timer fired, each re-delivered fully valid block has an
ext, or is queued for verification, or is held in the orphan pool (whatever else happens) -/
theorem resubmitted_accounted (T : Tree) (s : State) (h : Safe T s) (mel : Nat) (order : List Nat)
    (more : List Op) (hcf : crashFree more) (b : Nat) (hb : b ∈ scanList T mel order (crash s))
    (hfv : FullyValid T b)
    (hx : (run T (crash s) (restartOps T mel order s ++ more)).expiryFired = false) :
    ((run T (crash s) (restartOps T mel order s ++ more)).td b).isSome = true ∨
    b ∈ (run T (crash s) (restartOps T mel order s ++ more)).queue ∨
    b ∈ (run T (crash s) (restartOps T mel order s ++ more)).pool := by
  have hinv := restart_establishes_inv T s h mel order more
  have hb0 : b ≠ 0 := ((unverified_resubmitted T mel order (crash s) b).mp hb).1.2.2.2
  have hcf' : crashFree (restartOps T mel order s ++ more) := by
    intro op hop
    rcases List.mem_append.mp hop with h1 | h1
    · unfold restartOps at h1
      obtain ⟨x, _, rfl⟩ := List.mem_map.mp h1
      exact fun hc => Op.noConfusion hc
    · exact hcf op h1
  have hdel : b ∈ delivered (restartOps T mel order s ++ more) := by
    have : ∀ (l : List Nat) (m : List Op), b ∈ l → b ∈ delivered (l.map (fun x => Op.deliver x []) ++ m) := by
      intro l
      induction l with
      | nil => intro m hm; simp at hm
      | cons y r ih =>
        intro m hm
        simp only [List.map_cons, List.cons_append, delivered, List.mem_cons]
        rcases List.mem_cons.mp hm with h1 | h1
        · exact Or.inl h1
        · exact Or.inr (ih m h1)
    exact this _ more hb
  have hseen := (seen_run T _ (crash s) hcf' b).mpr (Or.inr ⟨hb0, hdel⟩)
  exact (hinv.live hx).core.kept b hb0 hseen hfv

/-! ## Convergence -/

theorem seen_history (T : Tree) : ∀ (ops : List Op) (s : State), SeenOk s →
    ∀ b, b ≠ 0 → (run T s ops).seen b = true → s.seen b = true ∨ b ∈ delivered ops := by
  intro ops
  induction ops with
  | nil => intro s _ b _ h; exact Or.inl h
  | cons op ops ih =>
    intro s hk b hb0 h
    have hk' := seenOk_step (T := T) hk op
    rcases ih _ hk' b hb0 h with h1 | h1
    · cases op with
      | deliver x hint =>
        change (deliver T hint s x).1.seen b = true at h1
        rw [deliver_seen] at h1
        by_cases hx : x = 0
        · simp only [hx, if_true] at h1; exact Or.inl h1
        · simp only [hx, if_false] at h1
          rcases upd_true_cases h1 with h2 | h2
          · exact Or.inl h2
          · right; simp [delivered, h2]
      | verify =>
        change (verifyHead T s).1.seen b = true at h1
        rw [verify_seen] at h1; exact Or.inl h1
      | expire =>
        change (expire T s).seen b = true at h1
        rw [expire_seen] at h1; exact Or.inl h1
      | crash => exact Or.inl (hk.ext b h1 hb0)
    · right
      cases op with
      | deliver x hint => simp [delivered, h1]
      | verify => exact h1
      | expire => exact h1
      | crash => exact h1

/-- **crash_convergence**: take ANY history `ops` — crashes at any points, repeated, restarts'
re-deliveries, any interleaving — that only ever delivers blocks of the set `D`, and in whose final
state every block of `D` has been delivered since the last crash or already had an ext at that
crash; if it ends quiescent (and the expiry timer removed nothing since the last crash), its total
difficulty equals that of any crash-free quiescent history `ops0` delivering exactly `D`; and the
tips are equal when the heaviest fully valid chain is unique. -/
theorem crash_convergence (T : Tree) (D : List Nat) (ops ops0 : List Op)
    (hc0 : crashFree ops0) (hD0 : ∀ b, b ∈ delivered ops0 ↔ b ∈ D)
    (hsub : ∀ b, b ∈ delivered ops → b ∈ D)
    (hall : ∀ b ∈ D, b ≠ 0 → (run T (init T) ops).seen b = true)
    (hq : Quiescent (run T (init T) ops)) (hq0 : Quiescent (run T (init T) ops0))
    (hx : (run T (init T) ops).expiryFired = false) (hx0 : (run T (init T) ops0).expiryFired = false) :
    (run T (init T) ops).tipTd = (run T (init T) ops0).tipTd ∧
    ((∀ b, ChainIn T (fun x => x ≠ 0 ∧ x ∈ D) b → TD T b (run T (init T) ops0).tipTd →
        b = (run T (init T) ops0).tip) → (run T (init T) ops).tip = (run T (init T) ops0).tip) := by
  have i := inv_run' ops _ (inv_init' T)
  have i0 := inv_run' ops0 _ (inv_init' T)
  have k := seenOk_run (T := T) ops _ (seenOk_init T)
  have k0 := seenOk_run (T := T) ops0 _ (seenOk_init T)
  have s0 : ∀ b, (run T (init T) ops0).seen b = true ↔ (b ≠ 0 ∧ b ∈ D) := by
    intro b; rw [seen_run T ops0 _ hc0 b, hD0]; simp [init]
  have c := chainIn_of_ver i.safe k _ i.safe.tipOk.2
  have c0 := chainIn_of_ver i0.safe k0 _ i0.safe.tipOk.2
  have t := i.safe.tdTrue _ _ i.safe.tipOk.1
  have t0 := i0.safe.tdTrue _ _ i0.safe.tipOk.1
  -- the crashed history's tip is a chain inside D
  have cD : ChainIn T (fun x => x ≠ 0 ∧ x ∈ D) (run T (init T) ops).tip := by
    have hmem : ∀ b, b ≠ 0 → (run T (init T) ops).seen b = true → b ∈ D := by
      intro b hb0 hb
      rcases seen_history T ops _ (seenOk_init T) b hb0 hb with h1 | h1
      · simp [init] at h1
      · exact hsub b h1
    have : ∀ x, ChainIn T (fun y => (run T (init T) ops).seen y = true) x →
        ChainIn T (fun y => y ≠ 0 ∧ y ∈ D) x := by
      intro x hx
      induction hx with
      | genesis => exact .genesis
      | step hb hd h1 h2 _ ih => exact .step hb ⟨hb, hmem _ hb hd⟩ h1 h2 ih
    exact this _ c
  have c_in_0 : ChainIn T (fun x => (run T (init T) ops0).seen x = true) (run T (init T) ops).tip :=
    cD.mono (fun b hb => (s0 b).mpr hb)
  have c0_in : ChainIn T (fun x => (run T (init T) ops).seen x = true) (run T (init T) ops0).tip :=
    c0.mono (fun b hb => hall b ((s0 b).mp hb).2 ((s0 b).mp hb).1)
  have le1 := tip_heaviest_at_quiescence T _ i0 hq0 hx0 _ _ c_in_0 t
  have le2 := tip_heaviest_at_quiescence T _ i hq hx _ _ c0_in t0
  have heq : (run T (init T) ops).tipTd = (run T (init T) ops0).tipTd := Nat.le_antisymm le1 le2
  refine ⟨heq, fun huniq => ?_⟩
  apply huniq
  · exact cD
  · rw [← heq]; exact t

/-! ## Restart WITHOUT re-delivery: the scan window must cover every stored-unverified block

`crash_convergence` above needs every block of `D` to be `seen` again after the last crash; a harness (or
a sync layer) that simply re-delivers everything hides what the start-up scan is for. The theorems below
say what the scan itself guarantees, and exactly which hypothesis about its window convergence needs. -/

/-- block data present, no ext: the marker `InitLoadUnverified` looks for -/
def StoredUnverified (s : State) (b : Nat) : Prop := s.stored b = true ∧ s.td b = none ∧ b ≠ 0

/-- `b` lies inside the TRUE scan window of a store whose tip is `s.tip`: it is listed in the NUMBER_HASH
column (`order`), its number is in `[max 1 (tip − EXPIRED_EPOCH·max_epoch_length), tip + 10·BLOCK_DOWNLOAD_WINDOW]`
and — for numbers above the tip — every number between the tip and it has a stored-unverified block
("cut at the first number above the tip with no such block"). -/
def InWindow (T : Tree) (mel : Nat) (order : List Nat) (s : State) (b : Nat) : Prop :=
  b ∈ order ∧
  max 1 (T.num s.tip - EXPIRED_EPOCH * mel) ≤ T.num b ∧
  T.num b ≤ T.num s.tip + BLOCK_DOWNLOAD_WINDOW * INIT_LOAD_WINDOW_FACTOR ∧
  (∀ i, i < T.num b - T.num s.tip →
    ∃ x, (x ∈ order ∧ s.stored x = true ∧ s.td x = none ∧ x ≠ 0) ∧ T.num x = T.num s.tip + 1 + i)

theorem inWindow_scanned {T : Tree} {mel : Nat} {order : List Nat} {s : State} {b : Nat}
    (hb : StoredUnverified s b) (hw : InWindow T mel order s b) : b ∈ scanList T mel order s :=
  (unverified_resubmitted T mel order s b).mpr ⟨⟨hw.1, hb.1, hb.2.1, hb.2.2⟩, hw.2.1, hw.2.2.1, hw.2.2.2⟩

theorem scanned_storedUnverified {T : Tree} {mel : Nat} {order : List Nat} {s : State} {b : Nat}
    (h : b ∈ scanList T mel order s) : StoredUnverified s b ∧ InWindow T mel order s b := by
  obtain ⟨⟨h1, h2, h3, h4⟩, h5, h6, h7⟩ := (unverified_resubmitted T mel order s b).mp h
  exact ⟨⟨h2, h3, h4⟩, h1, h5, h6, h7⟩

theorem delivered_restartOps (T : Tree) (mel : Nat) (order : List Nat) (s : State) :
    delivered (restartOps T mel order s) = scanList T mel order (crash s) := by
  unfold restartOps
  induction scanList T mel order (crash s) with
  | nil => rfl
  | cons x xs ih => simp [delivered, ih]

theorem crashFree_restartOps (T : Tree) (mel : Nat) (order : List Nat) (s : State) :
    crashFree (restartOps T mel order s) := by
  intro op hop
  unfold restartOps at hop
  obtain ⟨x, _, rfl⟩ := List.mem_map.mp hop
  exact fun hc => Op.noConfusion hc

/-- **restart_requeues_all_connectable**: crash in ANY reachable state (any history, earlier crashes
included), then the start-up scan with the true window. Right after the scan (before the verify thread
has done anything) every stored-without-ext block inside the window is in the verify queue or in the
orphan pool — none is rejected, none is skipped — its data is still stored, it still has no ext, and it
counts as received (`seen`). Moreover the scan marks nothing BLOCK_INVALID, deletes nothing, touches no
ext and does not run the orphan expiry. (No validity hypothesis on the blocks: a contextually invalid
block is queued too and fails later.) -/
theorem restart_requeues_all_connectable (T : Tree) (s : State) (h : Reachable T s) (mel : Nat)
    (order : List Nat) :
    (∀ b, StoredUnverified (crash s) b → InWindow T mel order (crash s) b →
      (b ∈ (run T (crash s) (restartOps T mel order s)).queue ∨
        b ∈ (run T (crash s) (restartOps T mel order s)).pool) ∧
      (run T (crash s) (restartOps T mel order s)).stored b = true ∧
      (run T (crash s) (restartOps T mel order s)).td b = none ∧
      (run T (crash s) (restartOps T mel order s)).seen b = true) ∧
    (∀ x, (run T (crash s) (restartOps T mel order s)).invalid x = false) ∧
    (run T (crash s) (restartOps T mel order s)).td = s.td ∧
    (∀ y, s.stored y = true → (run T (crash s) (restartOps T mel order s)).stored y = true) ∧
    (run T (crash s) (restartOps T mel order s)).expiryFired = false := by
  obtain ⟨ops, rfl⟩ := h
  have hnc : ∀ b ∈ scanList T mel order (crash (run T (init T) ops)), b ≠ 0 ∧ T.nc b = true := by
    intro b hb
    obtain ⟨⟨h1, _, h3⟩, _⟩ := scanned_storedUnverified hb
    exact ⟨h3, (stored_reachable T ops b h3 h1).2⟩
  have hni : NoInv (crash (run T (init T) ops)) := fun _ => rfl
  obtain ⟨k, m⟩ := run_delivers T _ (crash (run T (init T) ops)) hni hnc
  refine ⟨fun b hb hw => ?_, k.noInv, k.td, k.stored, k.fired⟩
  obtain ⟨m1, m2, m3⟩ := m b (inWindow_scanned hb hw)
  exact ⟨m1, m2, by rw [show (run T (crash (run T (init T) ops)) (restartOps T mel order (run T (init T) ops))).td = _ from k.td]; exact hb.2.1, m3⟩

/-- **restart_then_missing_delivery_converges**: `ops1` is any history (crashes included) whose
deliveries belong to `D`; the process dies; the start-up scan runs; afterwards `more` (crash-free, any
interleaving of deliveries of blocks of `D`, verify steps and expiry ticks) is executed and ends
quiescent without an expiry. Hypotheses:
* `hwin` (the WINDOW HYPOTHESIS): every stored-without-ext block lies inside the true scan window;
* `hmiss`: every block of `D` either has an ext at the crash, or is stored at the crash, or is delivered
  by `more` — i.e. only the blocks that were NEVER STORED need to be delivered, no stored block is
  re-delivered by anybody but the scan.
Then the total difficulty equals that of any crash-free quiescent history delivering exactly `D`, and
the tips agree when the heaviest fully valid chain is unique.
Which reachable states violate `hwin`: exactly those with a stored-without-ext block `b` whose number is
below `tip − EXPIRED_EPOCH·max_epoch_length` (an orphan older than six maximal epochs: the orphan expiry
would have dropped it anyway — lost by design, the sync layer fetches it again), or above a number gap
over the tip / beyond `tip + 10·BLOCK_DOWNLOAD_WINDOW` (`window_hypothesis_violated_reachable` below
exhibits one; `mutant_window_diverges` shows that with a window of EXPIRED_EPOCH BLOCKS the conclusion
fails on an ordinary short history). -/
theorem restart_then_missing_delivery_converges (T : Tree) (D : List Nat) (ops1 more ops0 : List Op)
    (mel : Nat) (order : List Nat)
    (hc0 : crashFree ops0) (hD0 : ∀ b, b ∈ delivered ops0 ↔ b ∈ D)
    (hsub1 : ∀ b, b ∈ delivered ops1 → b ∈ D) (hsubm : ∀ b, b ∈ delivered more → b ∈ D)
    (hcm : crashFree more)
    (hwin : ∀ b, StoredUnverified (crash (run T (init T) ops1)) b →
      InWindow T mel order (crash (run T (init T) ops1)) b)
    (hmiss : ∀ b ∈ D, b ≠ 0 → ((run T (init T) ops1).td b).isSome = true ∨
      (run T (init T) ops1).stored b = true ∨ b ∈ delivered more)
    (hq : Quiescent (run T (init T) (ops1 ++ [Op.crash] ++ restartOps T mel order (run T (init T) ops1) ++ more)))
    (hq0 : Quiescent (run T (init T) ops0))
    (hx : (run T (init T) (ops1 ++ [Op.crash] ++ restartOps T mel order (run T (init T) ops1) ++ more)).expiryFired = false)
    (hx0 : (run T (init T) ops0).expiryFired = false) :
    (run T (init T) (ops1 ++ [Op.crash] ++ restartOps T mel order (run T (init T) ops1) ++ more)).tipTd
        = (run T (init T) ops0).tipTd ∧
    ((∀ b, ChainIn T (fun x => x ≠ 0 ∧ x ∈ D) b → TD T b (run T (init T) ops0).tipTd →
        b = (run T (init T) ops0).tip) →
      (run T (init T) (ops1 ++ [Op.crash] ++ restartOps T mel order (run T (init T) ops1) ++ more)).tip
        = (run T (init T) ops0).tip) := by
  have hrun : run T (init T) (ops1 ++ [Op.crash] ++ restartOps T mel order (run T (init T) ops1) ++ more)
      = run T (crash (run T (init T) ops1)) (restartOps T mel order (run T (init T) ops1) ++ more) := by
    rw [List.append_assoc, List.append_assoc, run_append]
    rfl
  have hscanD : ∀ b, b ∈ scanList T mel order (crash (run T (init T) ops1)) → b ∈ D := by
    intro b hb
    obtain ⟨⟨h1, _, h3⟩, _⟩ := scanned_storedUnverified hb
    exact hsub1 b (stored_reachable T ops1 b h3 h1).1
  apply crash_convergence T D _ ops0 hc0 hD0 ?_ ?_ hq hq0 hx hx0
  · -- every delivery of the whole history belongs to D
    intro b hb
    rw [List.append_assoc, List.append_assoc, delivered_append] at hb
    rcases List.mem_append.mp hb with h1 | h1
    · exact hsub1 b h1
    · have : delivered ([Op.crash] ++ (restartOps T mel order (run T (init T) ops1) ++ more))
          = delivered (restartOps T mel order (run T (init T) ops1) ++ more) := rfl
      rw [this, delivered_append, delivered_restartOps] at h1
      rcases List.mem_append.mp h1 with h2 | h2
      · exact hscanD b h2
      · exact hsubm b h2
  · -- every block of D counts as received after the last crash
    intro b hbD hb0
    rw [hrun]
    have hcf : crashFree (restartOps T mel order (run T (init T) ops1) ++ more) := by
      intro op hop
      rcases List.mem_append.mp hop with h1 | h1
      · exact crashFree_restartOps T mel order _ op h1
      · exact hcm op h1
    rw [seen_run T _ _ hcf b, delivered_append, delivered_restartOps]
    rcases hmiss b hbD hb0 with h1 | h1 | h1
    · exact Or.inl h1
    · cases htd : (run T (init T) ops1).td b with
      | some n => left; show ((run T (init T) ops1).td b).isSome = true; rw [htd]; rfl
      | none =>
        right
        refine ⟨hb0, List.mem_append_left _ (inWindow_scanned ⟨h1, htd, hb0⟩ (hwin b ⟨h1, htd, hb0⟩))⟩
    · exact Or.inr ⟨hb0, List.mem_append_right _ h1⟩

/-! ## Witnesses: the window hypothesis is necessary, and the mutant window breaks convergence

Main chain 1..9 (work 1 each, genesis work 1), competing branch 10 ← 11 ← 12 from genesis where 11
carries work 20 (so the branch is heavier: 1+1+20+1 = 23 > 10). Blocks 11 and 12 arrive before their
parent 10 (stored without ext, pooled, numbers 2 and 3 — seven and six below the tip 9); the process
dies; after the restart only the missing block 10 is delivered. -/

def wTree : Tree :=
  { parent := fun b => match b with | 10 => 0 | 0 => 0 | b + 1 => b
    num := fun b => match b with | 10 => 1 | 11 => 2 | 12 => 3 | b => b
    epoch := fun _ => 0
    work := fun b => if b = 11 then 20 else 1
    nc := fun b => decide (b ≤ 12)
    ok := fun _ => true }

/-- pre-crash history: 1..9 delivered and verified one by one, then the orphans 11, 12 -/
def wPre : List Op :=
  (List.range 9).flatMap (fun i => [Op.deliver (i + 1) [], Op.verify]) ++ [.deliver 11 [], .deliver 12 []]

def wOrder : List Nat := [1, 10, 2, 11, 3, 12, 4, 5, 6, 7, 8, 9]

/-- after the restart: only the never-stored block 10, then the verify thread runs -/
def wMore : List Op := [.deliver 10 [], .verify, .verify, .verify]

/-- the crash-free reference: the same deliveries, no crash -/
def wRef : List Op := wPre ++ wMore

def wFinal (mel : Nat) : State :=
  run wTree (init wTree) (wPre ++ [Op.crash] ++ restartOps wTree mel wOrder (run wTree (init wTree) wPre) ++ wMore)

set_option maxRecDepth 4096 in
/-- the crash-free run reorganises to the heavier branch -/
example : Quiescent (run wTree (init wTree) wRef) ∧ (run wTree (init wTree) wRef).tip = 12 ∧
    (run wTree (init wTree) wRef).tipTd = 23 ∧ (run wTree (init wTree) wRef).expiryFired = false := by
  decide +kernel

set_option maxRecDepth 4096 in
/-- with the TRUE window (six epochs of `MAX_EPOCH_LENGTH` = 1800 blocks: start = 1) both stored orphans
are re-submitted and the delivery of the one missing block converges to the crash-free result -/
example : scanList wTree 1800 wOrder (crash (run wTree (init wTree) wPre)) = [11, 12] ∧
    Quiescent (wFinal 1800) ∧ (wFinal 1800).tip = 12 ∧ (wFinal 1800).tipTd = 23 ∧
    (wFinal 1800).expiryFired = false := by
  decide +kernel

set_option maxRecDepth 4096 in
/-- **mutant_window_diverges**: with a window of EXPIRED_EPOCH (6) BLOCKS below the tip — what
`scanList` computes for `maxEpochLen = 1`, the seeded regression `tip_number.saturating_sub(EXPIRED_EPOCH)`
— block 11 (number 2 < 9 − 6) is never re-submitted, its child 12 waits in the orphan pool for ever and
the node stays on the lighter chain although it is quiescent and received every block: the conclusion
of `restart_then_missing_delivery_converges` fails. -/
theorem mutant_window_diverges :
    scanList wTree 1 wOrder (crash (run wTree (init wTree) wPre)) = [12] ∧
    Quiescent (wFinal 1) ∧ (wFinal 1).expiryFired = false ∧
    (wFinal 1).tipTd = 10 ∧ (wFinal 1).tip = 9 ∧ (wFinal 1).pool = [12] ∧
    (wFinal 1).stored 11 = true ∧ (wFinal 1).td 11 = none ∧
    (wFinal 1).tipTd ≠ (run wTree (init wTree) wRef).tipTd := by
  decide +kernel

set_option maxRecDepth 4096 in
/-- **window_hypothesis_violated_reachable**: the window hypothesis is a real restriction — the reachable
state `run wPre` has the stored-without-ext block 11 OUTSIDE the window as soon as the window is shorter
than its distance to the tip (here: `maxEpochLen = 1`; with the real constant the same happens for an
orphan more than 6·1800 blocks below the tip). Such a block is not re-submitted (lost by design). -/
theorem window_hypothesis_violated_reachable :
    Reachable wTree (run wTree (init wTree) wPre) ∧
    StoredUnverified (crash (run wTree (init wTree) wPre)) 11 ∧
    ¬ InWindow wTree 1 wOrder (crash (run wTree (init wTree) wPre)) 11 ∧
    11 ∉ scanList wTree 1 wOrder (crash (run wTree (init wTree) wPre)) := by
  refine ⟨⟨wPre, rfl⟩, ?_, ?_, ?_⟩
  · refine ⟨?_, ?_, by decide⟩ <;> decide +kernel
  · intro h
    have : max 1 (wTree.num (crash (run wTree (init wTree) wPre)).tip - EXPIRED_EPOCH * 1) ≤ wTree.num 11 := h.2.1
    revert this
    decide +kernel
  · decide +kernel

set_option maxRecDepth 4096 in
/-- the hypotheses of `restart_requeues_all_connectable` are satisfiable with the real constant: both
orphans are stored-unverified and inside the window of the crashed store (and the theorem then puts
them into the queue or the pool: here the pool, their parent 10 is missing) -/
example : Reachable wTree (run wTree (init wTree) wPre) ∧
    (StoredUnverified (crash (run wTree (init wTree) wPre)) 11 ∧
      InWindow wTree 1800 wOrder (crash (run wTree (init wTree) wPre)) 11) ∧
    (StoredUnverified (crash (run wTree (init wTree) wPre)) 12 ∧
      InWindow wTree 1800 wOrder (crash (run wTree (init wTree) wPre)) 12) ∧
    (run wTree (crash (run wTree (init wTree) wPre))
      (restartOps wTree 1800 wOrder (run wTree (init wTree) wPre))).pool = [12, 11] := by
  have hscan : scanList wTree 1800 wOrder (crash (run wTree (init wTree) wPre)) = [11, 12] := by decide +kernel
  refine ⟨⟨wPre, rfl⟩, scanned_storedUnverified (by rw [hscan]; simp),
    scanned_storedUnverified (by rw [hscan]; simp), by decide +kernel⟩

set_option maxRecDepth 4096 in
/-- non-vacuity of `restart_then_missing_delivery_converges`: all its hypotheses hold for the witness
history with the real window (D = everything the crash-free run delivers) -/
example : (wFinal 1800).tipTd = (run wTree (init wTree) wRef).tipTd := by
  have hpre : delivered wPre = [1, 2, 3, 4, 5, 6, 7, 8, 9, 11, 12] := by decide
  have hscan : scanList wTree 1800 wOrder (crash (run wTree (init wTree) wPre)) = [11, 12] := by decide +kernel
  have hwin : ∀ b, StoredUnverified (crash (run wTree (init wTree) wPre)) b →
      InWindow wTree 1800 wOrder (crash (run wTree (init wTree) wPre)) b := by
    intro b hb
    have hmem := (stored_reachable wTree wPre b hb.2.2 hb.1).1
    rw [hpre] at hmem
    have h1112 : b = 11 ∨ b = 12 := by
      have htd := hb.2.1
      simp only [List.mem_cons, List.mem_nil_iff, or_false] at hmem
      rcases hmem with h | h | h | h | h | h | h | h | h | h | h
      all_goals first
        | exact Or.inl h
        | exact Or.inr h
        | (subst h; revert htd; decide +kernel)
    have : b ∈ scanList wTree 1800 wOrder (crash (run wTree (init wTree) wPre)) := by
      rw [hscan]; rcases h1112 with h | h <;> simp [h]
    exact (scanned_storedUnverified this).2
  have hmiss : ∀ b ∈ delivered wRef, b ≠ 0 → ((run wTree (init wTree) wPre).td b).isSome = true ∨
      (run wTree (init wTree) wPre).stored b = true ∨ b ∈ delivered wMore := by
    decide +kernel
  exact (restart_then_missing_delivery_converges wTree (delivered wRef) wPre wMore wRef 1800 wOrder
    (by decide) (fun _ => Iff.rfl)
    (fun b hb => by
      have : delivered wRef = delivered wPre ++ delivered wMore := delivered_append wPre wMore
      rw [this]; exact List.mem_append_left _ hb)
    (fun b hb => by
      have : delivered wRef = delivered wPre ++ delivered wMore := delivered_append wPre wMore
      rw [this]; exact List.mem_append_right _ hb)
    (by decide) hwin hmiss (by decide +kernel) (by decide +kernel) (by decide +kernel) (by decide +kernel)).1

/-! ## The proposal table and the proposal view across a restart

`Model/RestartView.lean`: every block carries its own proposals zone and the zones of its embedded uncles;
the running process keeps a `Window.Node` (proposal table + `ProposalView`) that follows the pipeline's tip
by `Window.switch` at the fork point (`update_proposal_table` + `reload_proposal_table` + `finalize`, as
`verify_block` runs them), a process death loses it and the next process rebuilds it with
`init_proposal_table` AS WRITTEN (`Window.init`: walk of the numbers `tip − w_far ..= tip` of the persisted
main chain, one `insert` of the block's `union_proposal_ids` — own AND uncles' — per number, `finalize`).
`Lemmas/Window.lean` (C20) supplies the table-level facts (`Inv.init`, `Inv.switch`, `finalize_spec`); the
statements below are about the state after a CRASH AT ANY COMMIT POINT of the pipeline. -/

section RestartView
open CkbVerif.Window CkbVerif.RestartView

/-- extended states (pipeline + proposal table) reachable from the first start by any operation sequence:
deliveries in any order, verifications, expiry ticks, crashes (each followed by the start-up
reconstruction), the start-up scan's deliveries -/
def XReachable (w : Win) (P : Props) (T : Tree) (x : XState) : Prop :=
  ∃ ops, x = xrun w P T (xinit w P T) ops

/-- **proposal_view_eq_window_every_state**: in every reachable state — whatever was delivered, however the
chain was reorganised, however often the process died — the running process's `ProposalView` is exactly the
on-chain proposal window of the pipeline's tip: `set` = the union (own and uncles') ids of the main-chain
blocks at distance `w_close ..= w_far` from the next block, `gap` = those closer; and its table is accurate
for, and covers, the last `w_far` blocks. -/
theorem proposal_view_eq_window_every_state {w : Win} (hw : WinOk w) (P : Props) (T : Tree) {x : XState}
    (h : XReachable w P T x) :
    x.pv.chain = chainIds P T x.st.tip ∧
    (∀ i, i ∈ x.pv.view.set ↔ InSet w (chainIds P T x.st.tip) i) ∧
    (∀ i, i ∈ x.pv.view.gap ↔ InGap w (chainIds P T x.st.tip) i) ∧
    Acc (chainIds P T x.st.tip) x.pv.table ∧ Cov w (chainIds P T x.st.tip) x.pv.table := by
  obtain ⟨ops, rfl⟩ := h
  have i := xinv_run hw P T ops _ (xinv_xinit hw P T)
  have hv := i.inv.view
  have ha := i.inv.acc
  have hc := i.inv.cov
  rw [i.chain] at hv ha hc
  exact ⟨i.chain, hv.1, hv.2, ha, hc⟩

/-- **init_eq_incremental**: take ANY history (attaches, detaches by reorganisation of any depth, uncles
anywhere, earlier crashes) and let the process die now. The table and the view that `init_proposal_table`
rebuilds from the persisted main chain equal what the process had maintained incrementally (insert per
attached block, removal of the detached numbers, `reload_proposal_table`, `finalize`): the same `set`, the
same `gap` (as sets), and both tables hold exactly the main chain's `union_proposal_ids` on every number of
the window `tip + 1 − w_far ..= tip` (rows outside it are never read again: `finalize` splits them off).
So the restart is invisible in the proposal state, at every reachable state. -/
theorem init_eq_incremental {w : Win} (hw : WinOk w) (P : Props) (T : Tree) {x : XState}
    (h : XReachable w P T x) :
    (∀ i, i ∈ (initAt w P T x.st.tip).view.set ↔ i ∈ x.pv.view.set) ∧
    (∀ i, i ∈ (initAt w P T x.st.tip).view.gap ↔ i ∈ x.pv.view.gap) ∧
    (∀ n ids, (n, ids) ∈ (initAt w P T x.st.tip).table → (chainIds P T x.st.tip)[n]? = some ids) ∧
    (∀ n ids, (n, ids) ∈ x.pv.table → (chainIds P T x.st.tip)[n]? = some ids) ∧
    (∀ n, 1 ≤ n → n < (chainIds P T x.st.tip).length → (chainIds P T x.st.tip).length ≤ n + w.far →
      HasKey (initAt w P T x.st.tip).table n ∧ HasKey x.pv.table n) := by
  obtain ⟨_, hs, hg, ha, hc⟩ := proposal_view_eq_window_every_state hw P T h
  have j := Inv.init hw (chainOk_chainIds P T x.st.tip)
  have jv : ViewOk w (chainIds P T x.st.tip) (initAt w P T x.st.tip).view := j.view
  refine ⟨fun i => by rw [jv.1 i, hs i], fun i => by rw [jv.2 i, hg i], j.acc, ha, fun n h1 h2 h3 => ?_⟩
  exact ⟨j.cov n h1 h2 h3, hc n h1 h2 h3⟩

theorem stepPool_tip (T : Tree) (pool0 : List Nat) (acc : State × Out) (c : Nat) :
    (stepPool T pool0 acc c).1.tip = acc.1.tip := by
  have hact := stepPool_act T pool0 acc c
  generalize stepPool T pool0 acc c = r at hact ⊢
  cases hact <;> rfl

/-- a crash INSIDE a delivery (after the `insert_block` commit, after any number of the orphan search's
deletions) leaves the persisted tip where it was -/
theorem midDeliver_tip (T : Tree) (s : State) (b : Nat) (cands : List Nat) :
    (crash (midDeliver T s b cands)).tip = s.tip := by
  show (midDeliver T s b cands).tip = s.tip
  unfold midDeliver
  exact foldl_preserves (stepPool T _) (fun acc => acc.1.tip = s.tip)
    (fun acc c h => (stepPool_tip T _ acc c).trans h) _ _ (route_sameChain T _ b).2.2.1

/-- **restart_view_eq_at_every_commit**: the crash points between the commits of one delivery. The process
dies after `insert_block(b)` committed, or after any prefix of the deletions of the orphan search; the
proposal state the next process rebuilds equals the one a process that did NOT die holds at that point
(it has not moved its tip either: a delivery commits no main-chain change). Together with
`init_eq_incremental` (crash between two operations; a `verify` is a single all-or-nothing commit) this
covers every commit point of the pipeline. -/
theorem restart_view_eq_at_every_commit {w : Win} (hw : WinOk w) (P : Props) (T : Tree) {x : XState}
    (h : XReachable w P T x) (b : Nat) (cands : List Nat) :
    (∀ i, i ∈ (initAt w P T (crash (midDeliver T x.st b cands)).tip).view.set ↔ i ∈ x.pv.view.set) ∧
    (∀ i, i ∈ (initAt w P T (crash (midDeliver T x.st b cands)).tip).view.gap ↔ i ∈ x.pv.view.gap) := by
  rw [midDeliver_tip]
  exact ⟨(init_eq_incremental hw P T h).1, (init_eq_incremental hw P T h).2.1⟩

/-- **recovered_view_eq_never_crashed**: two histories — one with crashes and restarts, one without — that
end on the same tip hold the same proposal view (as sets) -/
theorem recovered_view_eq_never_crashed {w : Win} (hw : WinOk w) (P : Props) (T : Tree) {x y : XState}
    (hx : XReachable w P T x) (hy : XReachable w P T y) (ht : x.st.tip = y.st.tip) :
    (∀ i, i ∈ x.pv.view.set ↔ i ∈ y.pv.view.set) ∧ (∀ i, i ∈ x.pv.view.gap ↔ i ∈ y.pv.view.gap) := by
  obtain ⟨_, xs, xg, _, _⟩ := proposal_view_eq_window_every_state hw P T hx
  obtain ⟨_, ys, yg, _, _⟩ := proposal_view_eq_window_every_state hw P T hy
  rw [ht] at xs xg
  exact ⟨fun i => by rw [xs i, ys i], fun i => by rw [xg i, yg i]⟩

/-- **recovered_state_eq_never_crashed_partial**: the property's last clause, for the part of the state that
is modelled. `ops` is ANY history with crashes at any points (repeated), restarts' re-deliveries, any
interleaving, delivering only blocks of `D` and in whose final state every block of `D` was received after
the last crash or had an ext at it; `ops0` is a crash-free history delivering exactly `D`. Both end
quiescent without an orphan expiry, and the heaviest fully valid chain inside `D` is unique. Then the
recovered node and the never-crashed node agree on: the tip, the total difficulty, the `ProposalView`
(`set` and `gap`, as sets, including the ids that only uncles propose), the proposal table on the window;
and both persisted states satisfy the persisted chain invariant `PInv` (the tip's ext is verified and
carries the true accumulated work, verified blocks are ancestor-closed and fully valid).
PARTIAL — not in this model, checked by the harness against a replay of the stored main chain and a
never-crashed reference node instead: the cell set and the indexes (C02's replay equality), the current
epoch ext in the snapshot and in the store (C07), `get_block_status` of every block (the status map's
BLOCK_INVALID entries are volatile: a restarted node has forgotten them by design until the block is
delivered again). `Shared::unverified_tip` is scheduling-dependent even between two never-crashed runs and
is not compared. Without the uniqueness hypothesis only the total difficulty is determined (two heaviest
chains: the first verified wins). -/
theorem recovered_state_eq_never_crashed_partial {w : Win} (hw : WinOk w) (P : Props) (T : Tree)
    (D : List Nat) (ops ops0 : List Op)
    (hc0 : crashFree ops0) (hD0 : ∀ b, b ∈ delivered ops0 ↔ b ∈ D)
    (hsub : ∀ b, b ∈ delivered ops → b ∈ D)
    (hall : ∀ b ∈ D, b ≠ 0 → (run T (init T) ops).seen b = true)
    (hq : Quiescent (run T (init T) ops)) (hq0 : Quiescent (run T (init T) ops0))
    (hx : (run T (init T) ops).expiryFired = false) (hx0 : (run T (init T) ops0).expiryFired = false)
    (huniq : ∀ b, ChainIn T (fun x => x ≠ 0 ∧ x ∈ D) b → TD T b (run T (init T) ops0).tipTd →
        b = (run T (init T) ops0).tip) :
    (xrun w P T (xinit w P T) ops).st.tip = (xrun w P T (xinit w P T) ops0).st.tip ∧
    (xrun w P T (xinit w P T) ops).st.tipTd = (xrun w P T (xinit w P T) ops0).st.tipTd ∧
    (∀ i, i ∈ (xrun w P T (xinit w P T) ops).pv.view.set ↔ i ∈ (xrun w P T (xinit w P T) ops0).pv.view.set) ∧
    (∀ i, i ∈ (xrun w P T (xinit w P T) ops).pv.view.gap ↔ i ∈ (xrun w P T (xinit w P T) ops0).pv.view.gap) ∧
    (∀ n, 1 ≤ n → n < (chainIds P T (run T (init T) ops0).tip).length →
      (chainIds P T (run T (init T) ops0).tip).length ≤ n + w.far →
      ∃ ids, (n, ids) ∈ (xrun w P T (xinit w P T) ops).pv.table ∧
             (n, ids) ∈ (xrun w P T (xinit w P T) ops0).pv.table) ∧
    PInv T (crash (run T (init T) ops)) ∧ PInv T (crash (run T (init T) ops0)) := by
  have hst : ∀ o, (xrun w P T (xinit w P T) o).st = run T (init T) o := fun o => xrun_st w P T o _
  obtain ⟨htd, htip⟩ := crash_convergence T D ops ops0 hc0 hD0 hsub hall hq hq0 hx hx0
  have ht := htip huniq
  have hxr : XReachable w P T (xrun w P T (xinit w P T) ops) := ⟨ops, rfl⟩
  have hyr : XReachable w P T (xrun w P T (xinit w P T) ops0) := ⟨ops0, rfl⟩
  have hv := recovered_view_eq_never_crashed hw P T hxr hyr (by rw [hst, hst]; exact ht)
  refine ⟨by rw [hst, hst]; exact ht, by rw [hst, hst]; exact htd, hv.1, hv.2, ?_,
    (persisted_inv_every_commit T _ ⟨ops, rfl⟩).1, (persisted_inv_every_commit T _ ⟨ops0, rfl⟩).1⟩
  intro n h1 h2 h3
  obtain ⟨_, _, _, xa, xc⟩ := proposal_view_eq_window_every_state hw P T hxr
  obtain ⟨_, _, _, ya, yc⟩ := proposal_view_eq_window_every_state hw P T hyr
  rw [hst] at xa xc ya yc
  rw [ht] at xa xc
  obtain ⟨i1, m1⟩ := xc n h1 h2 h3
  obtain ⟨i2, m2⟩ := yc n h1 h2 h3
  have e1 := xa n i1 m1
  have e2 := ya n i2 m2
  rw [e1] at e2
  cases e2
  exact ⟨i1, m1, m2⟩

/-! ### Witness: start-up must read the uncles' zones

Chain 1 ← 2 ← 3 (window (2, 4)); block 1 proposes id 1 itself, block 2 proposes nothing itself and embeds an
uncle whose zone holds id 7, block 3 proposes id 3. The running node has 7 in `set` (block 2 is at distance 2
from the next block); `init_proposal_table` as written rebuilds it; the variant that only reads
`get_block_proposal_txs_ids` (the seeded regression) does not. -/

def uTree : Tree :=
  { parent := fun b => b - 1, num := fun b => b, epoch := fun _ => 0, work := fun _ => 1,
    nc := fun b => decide (b ≤ 3), ok := fun _ => true }

def uProps : Props :=
  { own := fun b => if b = 1 then [1] else if b = 3 then [3] else []
    uncles := fun b => if b = 2 then [[7]] else [] }

def uOps : List Op := [.deliver 1 [], .verify, .deliver 2 [], .verify, .deliver 3 [], .verify]

/-- **own_ids_only_init_differs** (kernel-evaluated): on a three-block chain with one uncle-proposed id the
incremental view and the rebuilt view both contain the uncle's id 7, the own-ids-only reconstruction loses
it — after a restart the node would not consider that transaction proposed although a never-crashed node
does. -/
theorem own_ids_only_init_differs :
    (xrun ⟨2, 4⟩ uProps uTree (xinit ⟨2, 4⟩ uProps uTree) uOps).st.tip = 3 ∧
    7 ∈ (xrun ⟨2, 4⟩ uProps uTree (xinit ⟨2, 4⟩ uProps uTree) uOps).pv.view.set ∧
    7 ∈ (xrun ⟨2, 4⟩ uProps uTree (xinit ⟨2, 4⟩ uProps uTree) (uOps ++ [.crash])).pv.view.set ∧
    7 ∈ (initAt ⟨2, 4⟩ uProps uTree 3).view.set ∧
    7 ∉ (initOwn ⟨2, 4⟩ uProps uTree 3).view.set ∧
    (initOwn ⟨2, 4⟩ uProps uTree 3).view.set = [1] ∧ (initOwn ⟨2, 4⟩ uProps uTree 3).view.gap = [3] := by
  decide +kernel

/-- non-vacuity of `proposal_view_eq_window_every_state` / `init_eq_incremental` /
`restart_view_eq_at_every_commit`: the witness state is reachable, the window is admissible, its view is
not empty; the generated consensus default window is admissible too -/
example : XReachable ⟨2, 4⟩ uProps uTree (xrun ⟨2, 4⟩ uProps uTree (xinit ⟨2, 4⟩ uProps uTree) uOps) ∧
    WinOk ⟨2, 4⟩ ∧ WinOk defaultWin ∧
    (xrun ⟨2, 4⟩ uProps uTree (xinit ⟨2, 4⟩ uProps uTree) uOps).pv.view.gap = [3] :=
  ⟨⟨uOps, rfl⟩, ⟨by decide, by decide⟩, ⟨by decide, by decide⟩, by decide +kernel⟩

/-- a reorganisation with uncles on both branches, then a crash: chain 1 ← 2 (uncle id 7) is replaced by
4 ← 5 ← 6 (block 5 embeds an uncle with id 9); incremental (remove detached rows, insert attached, reload,
finalize) and rebuilt views agree, and the detached branch's uncle id is gone -/
def rTree : Tree :=
  { parent := fun b => if b = 4 then 0 else b - 1, num := fun b => if b ≥ 4 then b - 3 else b,
    epoch := fun _ => 0, work := fun _ => 1, nc := fun b => decide (b ≤ 6), ok := fun _ => true }

def rProps : Props :=
  { own := fun b => [b]
    uncles := fun b => if b = 2 then [[7]] else if b = 5 then [[9], [5]] else [] }

def rOps : List Op :=
  [.deliver 1 [], .verify, .deliver 2 [], .verify, .deliver 4 [], .verify, .deliver 5 [], .verify,
   .deliver 6 [], .verify]

example : (xrun ⟨2, 4⟩ rProps rTree (xinit ⟨2, 4⟩ rProps rTree) rOps).st.tip = 6 ∧
    (xrun ⟨2, 4⟩ rProps rTree (xinit ⟨2, 4⟩ rProps rTree) rOps).pv.chain = [[], [4], [5, 9, 5], [6]] ∧
    (xrun ⟨2, 4⟩ rProps rTree (xinit ⟨2, 4⟩ rProps rTree) rOps).pv.view.set = [5, 9, 5, 4] ∧
    (initAt ⟨2, 4⟩ rProps rTree 6).view.set = [5, 9, 5, 4] ∧
    (initAt ⟨2, 4⟩ rProps rTree 6).view.gap = [6] ∧
    7 ∉ (xrun ⟨2, 4⟩ rProps rTree (xinit ⟨2, 4⟩ rProps rTree) rOps).pv.view.set := by
  decide +kernel

/-- non-vacuity of `recovered_view_eq_never_crashed` and of `recovered_state_eq_never_crashed_partial`'s
conclusion: the history that dies right after `insert_block(6)` — the tip is still 2 (4 and 5 carry an ext,
6 is stored without ext: its verification would reorganise the chain) — restarts (the table is rebuilt for the
chain 1 ← 2 with the uncle id 7, the scan re-delivers 6) and verifies 6 (the reorganisation happens AFTER the
restart: rows 1, 2 removed, 4, 5, 6 inserted) ends on the same tip and view as the crash-free one -/
example :
    let crashed := xrun ⟨2, 4⟩ rProps rTree (xinit ⟨2, 4⟩ rProps rTree)
      (rOps.take 9 ++ [.crash] ++ restartOps rTree 1800 [1, 4, 2, 5, 6] (run rTree (init rTree) (rOps.take 9)) ++ [.verify])
    (run rTree (init rTree) (rOps.take 9)).tip = 2 ∧
    crashed.st.tip = 6 ∧ Quiescent crashed.st ∧ crashed.pv.view.set = [5, 9, 5, 4] ∧ crashed.pv.view.gap = [6] := by
  decide +kernel

/-- the window constants the witnesses use are the ones regenerated for C20 from `spec/src/consensus.rs` -/
example : defaultWin = ⟨Gen.Window.W_CLOSE, Gen.Window.W_FAR⟩ := rfl

end RestartView

/-! ## The scan window of the source is the modelled one (regenerated expression shapes)

`bin/gen_model` extracts the TEXT of the expressions below from /repo on every run; if the source
changes (e.g. the factor `max_epoch_length()` is dropped) these stop compiling and the check fails. -/

example : Gen.Restart.SCAN_START_EXPR = "EXPIRED_EPOCH * self.shared.consensus().max_epoch_length()" := by decide
example : Gen.Restart.SCAN_END_EXPR = "tip_number + BLOCK_DOWNLOAD_WINDOW * 10" := by decide
example : Gen.Restart.SCAN_RANGE_EXPR = "start_check_number..=end_check_number" := by decide
example : Gen.Restart.SCAN_CUT_EXPR = "check_unverified_number > tip_number && unverified_hashes.is_empty()" := by decide
example : Gen.Restart.SCAN_TIP_EXPR = "self.shared.snapshot().tip_number()" := by decide
example : Gen.Restart.MAX_EPOCH_LENGTH_GETTER = "MAX_EPOCH_LENGTH" := by decide
example : Gen.Restart.MAX_EPOCH_LENGTH_EXPR = "DEFAULT_EPOCH_DURATION_TARGET / MIN_BLOCK_INTERVAL" := by decide
example : Gen.Restart.PROPOSAL_INIT_START_EXPR = "tip_number.saturating_sub(proposal_window.farthest())" := by decide
/-- `Consensus::max_epoch_length()` as regenerated; the window is 6 × 1800 = 10800 blocks -/
example : EXPIRED_EPOCH * (Gen.Restart.DEFAULT_EPOCH_DURATION_TARGET / Gen.Restart.MIN_BLOCK_INTERVAL) = 10800 := by decide

/-! ## Non-vacuity -/

/-- crash in the middle of C01's example history (after the 5th operation: block 1 inserted and
queued but not verified; orphans 2,4,5 stored: all four are re-delivered by the scan), restart scan, redelivery -/
def exCrashed : State := crash (run exTree (init exTree) (exOps.take 5))

example : exCrashed.tip = 0 ∧ exCrashed.stored 1 = true ∧ exCrashed.td 1 = none ∧
    scanList exTree 10 [1, 3, 2, 4, 6, 5] exCrashed = [1, 2, 4, 5] := by decide

def exRecovered : State :=
  run exTree (init exTree)
    (exOps.take 5 ++ [.crash] ++ restartOps exTree 10 [1, 3, 2, 4, 6, 5] (run exTree (init exTree) (exOps.take 5))
      ++ [.verify, .verify, .deliver 3 [], .deliver 4 [], .deliver 5 [], .deliver 6 [], .deliver 1 [], .deliver 2 [],
          .verify, .verify, .verify, .verify, .verify, .verify, .verify, .verify])

/-- the recovered history ends quiescent with the same total difficulty as the crash-free one -/
example : Quiescent exRecovered ∧ exRecovered.expiryFired = false ∧ exRecovered.tipTd = exFinal.tipTd ∧
    exRecovered.tip = 2 ∧ (∀ b ∈ [1, 2, 3, 4, 5, 6], exRecovered.seen b = true) := by decide

end CkbVerif.C08
