import CkbVerif.Model.MMR
import CkbVerif.Model.Filter
import CkbVerif.Lemmas.Filter
import CkbVerif.Lemmas.FilterRestart
import CkbVerif.Lemmas.MMRSize
import CkbVerif.Lemmas.MMRCommit
import CkbVerif.Lemmas.MMRSound
import CkbVerif.Lemmas.MMRBatch
import CkbVerif.Lemmas.MMRCompleteMain
import CkbVerif.Lemmas.LightServer
/-!
# C19 — chain-root commitments, proofs and filter hashes match the chain they describe

Property theorems only; helper lemmas are in `Lemmas/MMR*.lean`, `Lemmas/Filter.lean`.
-/
namespace CkbVerif.C19
open CkbVerif.MMR CkbVerif.Filter

/-! ## chain-root MMR

`merge : α → α → α` is arbitrary (the real one hashes two header digests).  `specD merge leaves`
is the list of mountains (perfect-tree roots, by the binary decomposition of the leaf count) of a
leaf list and `bagD` bags them right to left: together the chain root *as a function of the leaf
list only*.  The positional model (`push`, `getRoot`, `recreate` over a store map `pos → node`)
follows the crate's code; the theorems say it computes exactly that function whatever else the
store contains. -/

variable {α : Type}

/-- **The root is a function of the leaf list only.** Start from an empty MMR over *any* store
content `s0` (stale nodes of earlier histories included) and push `leaves` one by one as the crate
does: every push succeeds, the size is `leaf_index_to_mmr_size(n-1)`, and `get_root` is the bagging
of the perfect-tree peaks of `leaves`. -/
theorem root_eq_fold (merge : α → α → α) (s0 : Store α) (leaves : List α) (hne : leaves ≠ []) :
    ∃ m, pushAll merge ⟨0, s0⟩ leaves = some m ∧
      getRoot merge m = bagD merge (specD merge leaves) ∧
      m.size = leafIndexToMmrSize (leaves.length - 1) := by
  have hinv0 : Inv (⟨0, s0⟩ : MMR α) [] := ⟨⟨0, trivial⟩, rfl, trivial⟩
  obtain ⟨m, hm, hinv, -, -⟩ := pushAll_inv merge _ _ leaves hinv0
  refine ⟨m, hm, getRoot_inv merge m _ hinv (specD_ne_nil merge leaves hne), ?_⟩
  obtain ⟨⟨b, hd⟩, hlc⟩ := leafCount_specD merge leaves
  have hne' : heights (specD merge leaves) ≠ [] := by
    have := specD_ne_nil merge leaves hne
    intro h; apply this
    simpa [heights] using h
  have := leafIndexToMmrSize_spec hd hne'
  rw [hlc] at this
  rw [this]; exact hinv.size

example : (pushAll Term.node ⟨0, fun p => some (.leaf (900 + p))⟩ [.leaf 0, .leaf 1, .leaf 2]).bind (getRoot Term.node)
    = some (.node (.node (.leaf 0) (.leaf 1)) (.leaf 2)) := by decide

/-- **What the specification root is.** `bagD merge (specD merge L)` — the right-hand side of
`root_eq_fold` — is the value of a binary merge tree whose leaves are exactly `L`, in order; its
mountains have strictly decreasing heights `h₁ > h₂ > …` with `Σ 2^hᵢ = |L|` (the binary
decomposition of the leaf count). -/
theorem root_is_tree_over_leaves (merge : α → α → α) (L : List α) (root : α)
    (hroot : bagD merge (specD merge L) = some root) :
    (∃ T : Expr α, T.eval merge = root ∧ T.atoms = L) ∧
    (∃ b, DescB b (heights (specD merge L))) ∧ leafCount (heights (specD merge L)) = L.length := by
  obtain ⟨T, hT, -, hat⟩ := root_tree merge L root hroot
  exact ⟨⟨T, hT, hat⟩, leafCount_specD merge L⟩

example : bagD Term.node (specD Term.node [.leaf 0, .leaf 1, .leaf 2, .leaf 3, .leaf 4]) =
    some (.node (.node (.node (.leaf 0) (.leaf 1)) (.node (.leaf 2) (.leaf 3))) (.leaf 4)) := by decide

/-- **Stale nodes are never read.** Two stores that agree below `mmr_size` (and hold a valid MMR
there) are indistinguishable: pushing any further leaves succeeds on both, with the same sizes and
the same root. Positions `≥ mmr_size` — the nodes an abandoned branch leaves behind in
`COLUMN_CHAIN_ROOT_MMR` — influence nothing. -/
theorem stale_nodes_unread (merge : α → α → α) (n : Nat) (s s' : Store α) (ms : List (Nat × α))
    (hinv : Inv ⟨n, s⟩ ms) (hagree : ∀ q, q < n → s' q = s q) (ls : List α) :
    ∃ m m', pushAll merge ⟨n, s⟩ ls = some m ∧ pushAll merge ⟨n, s'⟩ ls = some m' ∧
      m.size = m'.size ∧ getRoot merge m = getRoot merge m' := by
  have hinv' : Inv ⟨n, s'⟩ ms := Inv_congr hinv hagree
  obtain ⟨m, hm, hi, -, -⟩ := pushAll_inv merge _ _ ls hinv
  obtain ⟨m', hm', hi', -, -⟩ := pushAll_inv merge _ _ ls hinv'
  refine ⟨m, m', hm, hm', by rw [hi.size, hi'.size], ?_⟩
  by_cases hnil : ls.foldl (pushD merge) ms = []
  · have h0 : m.size = 0 := by rw [hi.size, hnil]; rfl
    have h0' : m'.size = 0 := by rw [hi'.size, hnil]; rfl
    simp [getRoot, h0, h0']
  · rw [getRoot_inv merge m _ hi hnil, getRoot_inv merge m' _ hi' hnil]

/-- **Root after a reorganisation.** Push the old main chain `a ++ b`, re-create the MMR object at
the fork point with `leaf_index_to_mmr_size(|a| - 1)` over the *same, uncleaned* store (what
`reconcile_main_chain` and `Snapshot::chain_root_mmr` do), push the new branch `c`: the root is the
chain root of `a ++ c` — exactly what a fresh MMR over the new main chain gives — and the size is
`leaf_index_to_mmr_size(|a ++ c| - 1)`. With `c = []` this is `chain_root_mmr(n)` for an earlier
block of the main chain. -/
theorem root_after_reorg (merge : α → α → α) (s0 : Store α) (a b c : List α) (ha : a ≠ []) :
    ∃ mab, pushAll merge ⟨0, s0⟩ (a ++ b) = some mab ∧
      ∃ m', pushAll merge (recreate mab (a.length - 1)) c = some m' ∧
        getRoot merge m' = bagD merge (specD merge (a ++ c)) ∧
        m'.size = leafIndexToMmrSize ((a ++ c).length - 1) := by
  have hinv0 : Inv (⟨0, s0⟩ : MMR α) [] := ⟨⟨0, trivial⟩, rfl, trivial⟩
  obtain ⟨ma, hma, hia, -, -⟩ := pushAll_inv merge _ _ a hinv0
  obtain ⟨mab, hmab, -, hst, -⟩ := pushAll_inv merge ma _ b hia
  have hpush : pushAll merge ⟨0, s0⟩ (a ++ b) = some mab := by
    rw [pushAll_append, hma]; exact hmab
  refine ⟨mab, hpush, ?_⟩
  -- the re-created object satisfies the invariant of `a`
  obtain ⟨⟨ba, hda⟩, hlca⟩ := leafCount_specD merge a
  have hnea : heights (specD merge a) ≠ [] := by
    have := specD_ne_nil merge a ha
    intro h; apply this; simpa [heights] using h
  have hsz := leafIndexToMmrSize_spec hda hnea
  rw [hlca] at hsz
  have hir : Inv (recreate mab (a.length - 1)) (specD merge a) := by
    have : (recreate mab (a.length - 1)) = ⟨ma.size, mab.store⟩ := by
      simp [recreate, hsz, hia.size]; rfl
    rw [this]
    exact Inv_congr (s := ma.store) hia hst
  obtain ⟨m', hm', hi', -, -⟩ := pushAll_inv merge _ _ c hir
  have hspec : c.foldl (pushD merge) (specD merge a) = specD merge (a ++ c) := by
    simp [specD, List.foldl_append]
  rw [hspec] at hi'
  have hneac : a ++ c ≠ [] := by simp [ha]
  refine ⟨m', hm', getRoot_inv merge m' _ hi' (specD_ne_nil merge _ hneac), ?_⟩
  obtain ⟨⟨b', hd'⟩, hlc'⟩ := leafCount_specD merge (a ++ c)
  have hne' : heights (specD merge (a ++ c)) ≠ [] := by
    have := specD_ne_nil merge _ hneac
    intro h; apply this; simpa [heights] using h
  have := leafIndexToMmrSize_spec hd' hne'
  rw [hlc'] at this
  rw [this]; exact hi'.size

example :
    let old := [Term.leaf 0, .leaf 1, .leaf 2, .leaf 3, .leaf 4]
    ((pushAll Term.node ⟨0, Store.empty⟩ old).bind fun m =>
      (pushAll Term.node (recreate m 2) [.leaf 13]).bind (getRoot Term.node))
    = some (.node (.node (.leaf 0) (.leaf 1)) (.node (.leaf 2) (.leaf 13))) := by decide

/-- **`leaf_index_to_mmr_size` / `leaf_index_to_pos`** (the two closed formulas the chain service, the
snapshot and the light-client server rely on): after pushing `n` leaves (`n ≥ 0`, over any store)
the `(n+1)`-th leaf is written at `leaf_index_to_pos(n)`, and the size is then
`leaf_index_to_mmr_size(n) = 2(n+1) - count_ones(n+1)`. -/
theorem mmr_size_arith (merge : α → α → α) (s0 : Store α) (leaves : List α) (x : α) :
    ∃ m m', pushAll merge ⟨0, s0⟩ leaves = some m ∧
      push merge m x = some (m', leafIndexToPos leaves.length) ∧
      m'.size = leafIndexToMmrSize leaves.length := by
  have hinv0 : Inv (⟨0, s0⟩ : MMR α) [] := ⟨⟨0, trivial⟩, rfl, trivial⟩
  obtain ⟨m, hm, hinv, -, -⟩ := pushAll_inv merge _ _ leaves hinv0
  obtain ⟨m', hp, hinv', -, -⟩ := push_inv merge m _ x hinv
  obtain ⟨⟨b, hd⟩, hlc⟩ := leafCount_specD merge leaves
  have hpos := leafIndexToPos_spec hd
  rw [hlc] at hpos
  refine ⟨m, m', hm, ?_, ?_⟩
  · have : m.size = szH (heights (specD merge leaves)) := hinv.size
    rw [hpos, ← this]; exact hp
  · have hd' : DescB (max b ((heights (specD merge leaves)).length + 1)) (inc (heights (specD merge leaves))) :=
      DescB_inc (DescB_mono hd (by omega)) (by omega)
    have hne : inc (heights (specD merge leaves)) ≠ [] := by
      cases heights (specD merge leaves) with
      | nil => simp [inc]
      | cons x r => simp only [inc]; split <;> simp
    have h1 := leafIndexToMmrSize_spec hd' hne
    rw [leafCount_inc hd, hlc] at h1
    simp only [Nat.add_sub_cancel] at h1
    rw [h1]
    have := hinv'.size
    rw [heights_pushD] at this
    exact this

example : leafIndexToPos 10 = 18 ∧ leafIndexToMmrSize 10 = 19 ∧ leafIndexToMmrSize 1048575 = 2097151 := by decide

/-- **The in-memory batch is invisible.** `MMR::push` as written appends to `MMRBatch.memory_batch`
and reads through `MMRBatch::get_elem` (newest entry first, falling through to the store); only
`commit` writes the store. For an MMR object created with `MMR::new(size, store)` and any number of
pushes, the result is exactly that of the write-through model used by all other theorems: same
success/failure, same size, and committing the batch yields the same store. -/
theorem batch_eq_writethrough (merge : α → α → α) (size : Nat) (st : Store α) (xs : List α) :
    (pushAllB merge ⟨size, [], st⟩ xs).map BMMR.flat = pushAll merge ⟨size, st⟩ xs :=
  pushAllB_flat merge ⟨size, [], st⟩ (BOk_new size st) xs

example : ((pushAllB Term.node ⟨0, [], Store.empty⟩ [.leaf 0, .leaf 1, .leaf 2]).map fun m =>
    (m.size, m.batch.map (·.1), m.store 0, batchGet m.batch m.store 2)) =
    some (4, [0, 1, 3], none, some (.node (.leaf 0) (.leaf 1))) := by decide

/-- **An accepted block commits the chain root of its ancestors.** Once rfc0044 is active,
`BlockExtensionVerifier` answers `ok` only for a block with exactly one extra field whose extension
is 32..96 bytes long and *starts with the hash of the root of the MMR it was given* — which
`reconcile_main_chain` creates at the parent's size over the store and which by `root_after_reorg`
is the chain root of exactly the block's ancestors, on whichever fork the block lives. -/
theorem extension_commits_parent_chain (extraFields : Nat) (extLen : Option Nat)
    (rootAvailable prefixIsRoot extraHashOk : Bool)
    (h : extensionVerdict true extraFields extLen rootAvailable prefixIsRoot extraHashOk = .ok) :
    extraFields = 1 ∧ (∃ len, extLen = some len ∧ 32 ≤ len ∧ len ≤ 96) ∧
      rootAvailable = true ∧ prefixIsRoot = true ∧ extraHashOk = true := by
  unfold extensionVerdict at h
  match extraFields, extLen with
  | 0, _ => simp at h
  | 1, none => simp at h
  | 1, some len =>
    simp only [Gen.MMR.MAX_EXTENSION_BYTES, Gen.MMR.CHAIN_ROOT_BYTES] at h
    by_cases h0 : len = 0
    · simp [h0] at h
    · by_cases h1 : len > 96
      · simp [h0, h1] at h
      · by_cases h2 : len < 32
        · simp [h0, h1, h2] at h
        · cases rootAvailable <;> cases prefixIsRoot <;> cases extraHashOk <;> simp [h0, h1, h2] at h
          exact ⟨rfl, ⟨len, rfl, by omega, by omega⟩, rfl, rfl, rfl⟩
  | n + 2, _ => simp at h

example : extensionVerdict true 1 (some 32) true true true = .ok ∧
    extensionVerdict true 1 (some 97) true true true = .exceededMaximum ∧
    extensionVerdict true 1 (some 31) true true true = .invalidBlockExtension ∧
    extensionVerdict true 1 (some 40) true false true = .invalidChainRoot ∧
    extensionVerdict true 0 none true true true = .noBlockExtension := by decide

/-- **The root commits to the whole chain** (the algebraic core of proof soundness). If `merge` is
injective — the collision-freeness assumption on the hash inside `MergeHeaderDigest::merge` — two
leaf lists of the same length with the same chain root are equal: a root (hence an extension
commitment, hence anything that verifies against it) of one fork can never be the root of another
fork of the same height. (Real header digests also carry block-number ranges, which separates
different heights; the abstract `merge` here does not, hence the length hypothesis.)

See `proof_sound` for the verifier itself. -/
theorem root_commits_to_chain (merge : α → α → α) (hinj : Injective2 merge) (l l' : List α)
    (hlen : l.length = l'.length)
    (hroot : bagD merge (specD merge l) = bagD merge (specD merge l')) : l = l' := by
  have hh : heights (specD merge l) = heights (specD merge l') := by
    have := heights_specD_len merge l.length l.reverse l'.reverse (by simp) (by simp [hlen])
    simpa using this
  have hs := bagD_inj hinj _ _ hh hroot
  have := specD_inj_rev hinj l.reverse l'.reverse (by simp [hlen]) (by simpa using hs)
  simpa using this

example : Injective2 Term.node := by
  intro a b c d h; cases h; exact ⟨rfl, rfl⟩

/-- Consequence on the positional model: after a reorganisation from `a ++ b` to a different branch
`a ++ c` of the same length, the served root differs from the old one. -/
theorem reorg_changes_root (merge : α → α → α) (hinj : Injective2 merge) (s0 s1 : Store α)
    (a b c : List α) (hlen : b.length = c.length) (hbc : b ≠ c) (ha : a ≠ []) :
    ∃ m m', pushAll merge ⟨0, s0⟩ (a ++ b) = some m ∧ pushAll merge ⟨0, s1⟩ (a ++ c) = some m' ∧
      getRoot merge m ≠ getRoot merge m' := by
  obtain ⟨m, hm, hr, -⟩ := root_eq_fold merge s0 (a ++ b) (by simp [ha])
  obtain ⟨m', hm', hr', -⟩ := root_eq_fold merge s1 (a ++ c) (by simp [ha])
  refine ⟨m, m', hm, hm', ?_⟩
  rw [hr, hr']
  intro h
  have := root_commits_to_chain merge hinj (a ++ b) (a ++ c) (by simp [hlen]) h
  exact hbc (List.append_cancel_left this)

/-- **Soundness of `MerkleProof::verify` (the crate's `calculate_root`, multi-leaf, as modelled in
`Model/MMR.lean`).** Assume the digest algebra of `MergeHeaderDigest`: `merge` injective
(collision-freeness), block-number ranges propagate (`start` of the left, `end` of the right
operand), and the chain's leaf digests `L[i]` have `start = end = i` and are not merge outputs.
Let `root` be the chain root of `L`. If `verify` accepts a proof — *any* proof items, any
`mmr_size` — for claimed leaves at pairwise distinct positions, then every claimed value that has
the form of a leaf digest (`lo x = hi x`, which a verifier gets by computing `header.digest()`
itself) **is the chain's block with that number**: `L[lo x] = x`. So nothing that is not on the
chain committed by `root` can be proved against it.

The statement deliberately does not mention the claimed *position*: the generic verifier does not
bind a value to its position (corpus/C19/mmr-position-not-bound.ops: with three leaves the genuine
proof for leaf 2 also "proves" `(position of leaf 1, digest of block 2)`); it is the block number
inside the digest that is bound.

The converse direction (every genuine proof is accepted) is `proof_complete` below. -/
theorem proof_sound [DecidableEq α] (merge : α → α → α) (lo hi : α → Nat) (hR : RangeAlg merge lo hi)
    (L : List α) (hL : ChainLeaves merge lo hi L) (root : α)
    (hroot : bagD merge (specD merge L) = some root)
    (leaves : List (Nat × α)) (mmrSize : Nat) (proof : List α)
    (hnd : (leaves.map (·.1)).Nodup)
    (hver : verify merge mmrSize proof root leaves = some true) :
    ∀ p x, (p, x) ∈ leaves → lo x = hi x → L[lo x]? = some x := by
  -- the verifier computed `root`
  have hcalc : calculateRoot merge leaves mmrSize proof = some root := by
    unfold verify at hver
    cases hc : calculateRoot merge leaves mmrSize proof with
    | none => simp [hc] at hver
    | some r => simp [hc] at hver; rw [hver]
  -- run it over expression trees instead
  have hl : mapL (Expr.eval merge) (mapL Expr.atom leaves) = leaves := by
    have : ((fun p : Nat × Expr α => (p.1, Expr.eval merge p.2)) ∘ fun p : Nat × α => (p.1, Expr.atom p.2)) = id := by
      funext p; rfl
    simp [mapL, this]
  have hp : (proof.map Expr.atom).map (Expr.eval merge) = proof := by
    simp [Expr.eval, Function.comp_def]
  have hhom := calculateRoot_hom merge (mapL Expr.atom leaves) mmrSize (proof.map Expr.atom)
  rw [hl, hp, hcalc] at hhom
  cases hE : calculateRoot Expr.node (mapL Expr.atom leaves) mmrSize (proof.map Expr.atom) with
  | none => rw [hE] at hhom; simp at hhom
  | some E =>
    rw [hE] at hhom
    simp only [Option.map_some, Option.some.injEq] at hhom
    have hnd' : ((mapL Expr.atom leaves).map (·.1)).Nodup := by
      simpa [mapL, Function.comp_def] using hnd
    have huse := calculateRoot_uses _ _ _ E hnd' hE
    obtain ⟨T, hT, hslice, -⟩ := root_tree merge L root hroot
    intro p x hx hlh
    have hmem : (p, Expr.atom x) ∈ mapL Expr.atom leaves := List.mem_map.2 ⟨(p, x), hx, rfl⟩
    have hxa : x ∈ E.atoms := huse _ hmem x (by simp [Expr.atoms])
    exact sound_core hR hL E T 0 hslice (by rw [← hhom, hT]) x hxa hlh

/-- the hypotheses of `proof_sound` are satisfiable: the free term algebra over numbered leaves -/
example : RangeAlg Term.node
      (fun t => Term.rec (fun i => i) (fun _ _ l _ => l) t) (fun t => Term.rec (fun i => i) (fun _ _ _ r => r) t) ∧
    ChainLeaves Term.node
      (fun t => Term.rec (fun i => i) (fun _ _ l _ => l) t) (fun t => Term.rec (fun i => i) (fun _ _ _ r => r) t)
      [.leaf 0, .leaf 1, .leaf 2] := by
  refine ⟨⟨?_, fun _ _ => rfl, fun _ _ => rfl⟩, ⟨?_, ?_⟩⟩
  · intro a b c d h; cases h; exact ⟨rfl, rfl⟩
  · intro i h
    have : i = 0 ∨ i = 1 ∨ i = 2 := by simp at h; omega
    rcases this with rfl | rfl | rfl <;> exact ⟨rfl, rfl⟩
  · intro i h a b
    have : i = 0 ∨ i = 1 ∨ i = 2 := by simp at h; omega
    rcases this with rfl | rfl | rfl <;> simp

/-- … and the verifier does accept a genuine proof there (leaf 1 of three leaves) -/
example :
    let m := pushAll Term.node ⟨0, Store.empty⟩ [.leaf 0, .leaf 1, .leaf 2]
    (m.bind fun m => (genProof Term.node m [leafIndexToPos 1]).bind fun p =>
      (getRoot Term.node m).bind fun r => verify Term.node m.size p r [(leafIndexToPos 1, .leaf 1)]) = some true := by
  decide

/-- **Completeness of `gen_proof` + `MerkleProof::verify`** (no assumption on `merge` at all — in
particular no injectivity). Push any leaf list `leaves` from scratch over *any* store content `s0`
(stale nodes of abandoned branches included). For every non-empty set of leaves of that MMR — given
as claims `(leaf index, value)` with `leaves[index] = value`, listed by increasing position, which
is the canonical enumeration of a set and what both functions sort their input into — the model of
`MMR::gen_proof` succeeds, and the model of `MerkleProof::verify` (`calculate_root`, multi-leaf,
with its queue loops, the bagging of the right-hand peaks and all its error exits) accepts the
produced proof against `get_root`, which is the chain root `bagD (specD leaves)` of the leaf list.
So every proof the light-client server can generate for main-chain blocks verifies against the
root committed by the tip, after any reorganisation history of the store.

Not covered by the statement: request lists that are unsorted or contain duplicates (both
functions first sort and de-duplicate; that prelude is only exercised by the correspondence
streams). -/
theorem proof_complete [DecidableEq α] (merge : α → α → α) (s0 : Store α) (leaves : List α)
    (claims : List (Nat × α)) (hne : claims ≠ [])
    (hcl : ∀ c ∈ claims, leaves[c.1]? = some c.2)
    (hsorted : (claims.map fun c => leafIndexToPos c.1).Pairwise (· < ·)) :
    ∃ m root proof, pushAll merge ⟨0, s0⟩ leaves = some m ∧ getRoot merge m = some root ∧
      bagD merge (specD merge leaves) = some root ∧
      genProof merge m (claims.map fun c => leafIndexToPos c.1) = some proof ∧
      verify merge m.size proof root (claims.map fun c => (leafIndexToPos c.1, c.2)) = some true := by
  obtain ⟨c0, hc0⟩ := List.exists_mem_of_ne_nil claims hne
  obtain ⟨a0, r0, e0, -⟩ := split_getElem leaves c0.1 c0.2 (hcl c0 hc0)
  obtain ⟨m, mts, hm, hi, -, -, -⟩ := leaf_facts merge s0 a0 c0.2 r0
  rw [← e0] at hm
  -- every claimed leaf is stored at its position, which has height 0 and lies below the size
  have hfacts : ∀ c ∈ claims, m.store (leafIndexToPos c.1) = some c.2 ∧
      posHeightInTree (leafIndexToPos c.1) = 0 ∧ leafIndexToPos c.1 < m.size := by
    intro c hc
    obtain ⟨a, r, e, hl⟩ := split_getElem leaves c.1 c.2 (hcl c hc)
    obtain ⟨m', -, hm', -, h1, h2, h3⟩ := leaf_facts merge s0 a c.2 r
    rw [← e, hm] at hm'
    have : m = m' := Option.some.inj hm'
    subst this
    rw [hl] at h1 h2 h3
    exact ⟨h1, h2, h3⟩
  have hL : LOK m.store 0 (claims.map fun c => (leafIndexToPos c.1, c.2)) := by
    refine ⟨?_, fun _ _ => Nat.zero_le _, ?_, ?_⟩
    · rw [List.pairwise_map] at hsorted ⊢
      exact hsorted
    · intro l hl
      obtain ⟨c, hc, rfl⟩ := List.mem_map.1 hl
      exact (hfacts c hc).2.1
    · intro l hl
      obtain ⟨c, hc, rfl⟩ := List.mem_map.1 hl
      exact (hfacts c hc).1
  obtain ⟨proof, root, hg, hr, hc⟩ := complete_core merge m mts hi _ (by simpa using hne) hL (by
    intro l hl
    obtain ⟨c, hc, rfl⟩ := List.mem_map.1 hl
    exact (hfacts c hc).2.2)
  have hmap : (claims.map fun c => (leafIndexToPos c.1, c.2)).map (·.1) =
      claims.map fun c => leafIndexToPos c.1 := by
    simp [Function.comp_def]
  rw [hmap] at hg
  have hlne : leaves ≠ [] := by
    intro e; have := hcl c0 hc0; rw [e] at this; simp at this
  obtain ⟨m0, hm0, hr0, -⟩ := root_eq_fold merge s0 leaves hlne
  rw [hm] at hm0
  have : m = m0 := Option.some.inj hm0
  subst this
  refine ⟨m, root, proof, hm, hr, by rw [← hr0, hr], hg, ?_⟩
  simp [verify, hc]

/-- non-vacuity: five leaves over a store full of stale nodes, leaves 1 and 4 requested (two
mountains, one of them a single leaf that is also a peak) -/
example :
    let leaves := [Term.leaf 0, .leaf 1, .leaf 2, .leaf 3, .leaf 4]
    let claims := [(1, Term.leaf 1), (4, Term.leaf 4)]
    (∀ c ∈ claims, leaves[c.1]? = some c.2) ∧ (claims.map fun c => leafIndexToPos c.1) = [1, 7] ∧
    ((pushAll Term.node ⟨0, fun p => some (.leaf (900 + p))⟩ leaves).bind fun m =>
      (genProof Term.node m [1, 7]).bind fun p => (getRoot Term.node m).bind fun r =>
        verify Term.node m.size p r [(1, .leaf 1), (7, .leaf 4)]) = some true := by
  decide

/-- `proof_complete` for a set of blocks given by strictly increasing leaf index (= block number),
as `GetBlocksProof` / `GetLastStateProof` build their position lists: `leaf_index_to_pos` is
strictly increasing (`leafIndexToPos_strictMono`), so the positions are increasing too. -/
theorem proof_complete_by_index [DecidableEq α] (merge : α → α → α) (s0 : Store α) (leaves : List α)
    (claims : List (Nat × α)) (hne : claims ≠ [])
    (hcl : ∀ c ∈ claims, leaves[c.1]? = some c.2)
    (hsorted : (claims.map (·.1)).Pairwise (· < ·)) :
    ∃ m root proof, pushAll merge ⟨0, s0⟩ leaves = some m ∧ getRoot merge m = some root ∧
      bagD merge (specD merge leaves) = some root ∧
      genProof merge m (claims.map fun c => leafIndexToPos c.1) = some proof ∧
      verify merge m.size proof root (claims.map fun c => (leafIndexToPos c.1, c.2)) = some true := by
  refine proof_complete merge s0 leaves claims hne hcl ?_
  rw [List.pairwise_map] at hsorted ⊢
  exact hsorted.imp fun h => leafIndexToPos_strictMono h

example : (([(0, 'a'), (3, 'b'), (4, 'c')] : List (Nat × Char)).map (·.1)).Pairwise (· < ·) := by decide

/-! ## light-client server: `GetLastStateProof` sampling, `GetBlocksProof` partition

`Model/LightServer.lean` follows `util/light-client-protocol-server` as written. `f n` is the total
difficulty of main-chain block `n`, strictly increasing; the snapshot answers `td n = some (f n)` up
to the tip (`View`). -/
section lightserver
open CkbVerif.LightServer

/-- **The difficulty search returns the first block at or above the wanted total difficulty.**
`get_first_block_total_difficulty_is_not_less_than(start, end, min)` (a binary search the Rust code
runs without a bound on its iterations; the model's fuel `end - start` is never exhausted): every
answer `(n, d)` is a block of `[start, end)` (or `start` itself) with `d = td(n) ≥ min` and every
block of `[start, n)` is below `min`; and an answer exists whenever `td(end - 1) ≥ min`. -/
theorem lsp_first_block_not_less (td : TD) (f : Nat → Nat) (tip : Nat) (hv : View td f tip) (hm : SMono f)
    (start end_ minD : Nat) (hs : start ≤ tip) (he : end_ - 1 ≤ tip) :
    (∀ n d, firstNotLess td start end_ minD = some (n, d) →
      d = f n ∧ start ≤ n ∧ n ≤ max start (end_ - 1) ∧ minD ≤ f n ∧ ∀ k, start ≤ k → k < n → f k < minD) ∧
    (minD ≤ f (end_ - 1) → ∃ n, firstNotLess td start end_ minD = some (n, f n)) :=
  ⟨fun n d h => firstNotLess_spec hv hm start end_ minD hs he n d h,
   fun h => firstNotLess_total hv hm start end_ minD hs he h⟩

example : firstNotLess (fun n => if n ≤ 9 then some (2 * (n + 1)) else none) 2 9 11 = some (5, 12) ∧
    firstNotLess (fun n => if n ≤ 9 then some (2 * (n + 1)) else none) 2 9 12 = some (5, 12) ∧
    firstNotLess (fun n => if n ≤ 9 then some (2 * (n + 1)) else none) 2 9 19 = none := by decide

/-- **What a `GetLastStateProof` reply contains.** Whenever `GetLastStateProofProcess::execute`
replies with headers (`lspNumbers … = reply l`, `last` on the main chain at or below the tip):
* the served block numbers are strictly increasing and all below `last` — so the position list
  handed to `gen_proof` is strictly increasing and inside `chain_root_mmr(last - 1)`
  (`proof_complete_by_index` applies: see `lsp_reply_proof_verifies`);
* nothing before `start - last_n` is served;
* every block of the last-n window `[max(start, last - last_n), last)` is served;
* if the client's start block is not on this chain (`start > 0`, start hash ≠ the main chain's block
  at `start`), the `min(start, last_n)` blocks before `start` are served as well (fork detection). -/
theorem lsp_reply_contents (td : TD) (f : Nat → Nat) (tip : Nat) (hv : View td f tip) (hm : SMono f)
    (r : LspReq) (hl : r.last ≤ tip) (l : List Nat) (h : lspNumbers td r = .reply l) :
    l.Pairwise (· < ·) ∧ (∀ n ∈ l, n < r.last ∧ r.start - r.lastN ≤ n) ∧
    (∀ k, r.start ≤ k → r.last - r.lastN ≤ k → k < r.last → k ∈ l) ∧
    (r.start ≠ 0 → r.startMatches = false → ∀ k, r.start - r.lastN ≤ k → k < r.start → k ∈ l) := by
  unfold lspNumbers at h
  split at h
  · simp at h
  · split at h
    · simp at h
    · split at h
      · simp at h
      · rename_i _ _ hsl
        have hsl : r.start ≤ r.last := by omega
        cases hc : lspCheck td r with
        | some o =>
          simp only [hc] at h
          -- an early return of the request check is never a reply
          exfalso
          unfold lspCheck at hc
          repeat' split at hc
          all_goals (simp at hc)
          all_goals (subst hc; simp at h)
        | none =>
          simp only [hc] at h
          cases hsm : lspSample td r with
          | banned => simp [hsm] at h
          | err => simp [hsm] at h
          | tip => simp [hsm] at h
          | reply p =>
            obtain ⟨sampled, lastNs⟩ := p
            simp only [hsm] at h
            split at h
            · simp at h
            · split at h
              · simp at h
              · simp only [Outcome.reply.injEq] at h
                subst h
                obtain ⟨bn, rfl, b1, b2, b3, sp, sm⟩ := lspSample_spec hv hm r hl hsl hc sampled lastNs hsm
                have hre : ∀ x, x ∈ lspReorg r → r.start - r.lastN ≤ x ∧ x < r.start := by
                  intro x hx
                  unfold lspReorg at hx
                  split at hx
                  · simp at hx
                  · rw [mem_rangeFrom] at hx; omega
                have hrp : (lspReorg r).Pairwise (· < ·) := by
                  unfold lspReorg
                  split
                  · exact List.Pairwise.nil
                  · exact pairwise_rangeFrom _ _
                refine ⟨?_, ?_, ?_, ?_⟩
                · rw [List.pairwise_append, List.pairwise_append]
                  refine ⟨⟨hrp, sp, ?_⟩, pairwise_rangeFrom _ _, ?_⟩
                  · intro a ha b hb
                    have := hre a ha; have := sm b hb; omega
                  · intro a ha b hb
                    rw [mem_rangeFrom] at hb
                    rcases List.mem_append.1 ha with ha | ha
                    · have := hre a ha; omega
                    · have := sm a ha; omega
                · intro n hn
                  rcases List.mem_append.1 hn with hn | hn
                  · rcases List.mem_append.1 hn with hn | hn
                    · have := hre n hn; omega
                    · have := sm n hn; omega
                  · rw [mem_rangeFrom] at hn; omega
                · intro k k1 k2 k3
                  apply List.mem_append_right
                  rw [mem_rangeFrom]; omega
                · intro s0 smf k k1 k2
                  apply List.mem_append_left
                  apply List.mem_append_left
                  unfold lspReorg
                  simp only [s0, smf, false_or, Bool.false_eq_true, if_false]
                  rw [mem_rangeFrom]; omega

/-- non-vacuity: 20 blocks with total difficulty `2(n+1)`; the client is at block 3 of ANOTHER branch,
asks for 2 last blocks, boundary 30, samples 9, 16 and 21 → blocks 1, 2 (fork detection), 4, 7, 10
(first blocks reaching 9, 16, 21), 14.. (boundary block, total difficulty 30) up to 18 -/
example : lspNumbers (fun n => if n ≤ 19 then some (2 * (n + 1)) else none)
    ⟨true, 19, 3, false, 2, 30, [9, 16, 21]⟩ = .reply [1, 2, 4, 7, 10, 14, 15, 16, 17, 18] := by decide

/-- **A `GetLastStateProof` reply always proves what it serves.** Composition with
`proof_complete_by_index`: for the MMR over the blocks `0 .. last - 1` (pushed over any store
content), the position list built from the served numbers — if non-empty — makes the model of
`gen_proof` succeed, and the model of `MerkleProof::verify` accepts the proof with the served
headers' digests against the chain root committed by the last block. -/
theorem lsp_reply_proof_verifies [DecidableEq α] (merge : α → α → α) (s0 : Store α) (leaves : List α)
    (td : TD) (f : Nat → Nat) (tip : Nat) (hv : View td f tip) (hm : SMono f)
    (r : LspReq) (hl : r.last ≤ tip) (hlen : leaves.length = r.last) (l : List Nat) (hne : l ≠ [])
    (h : lspNumbers td r = .reply l) (dflt : α) :
    ∃ m root proof, pushAll merge ⟨0, s0⟩ leaves = some m ∧ getRoot merge m = some root ∧
      bagD merge (specD merge leaves) = some root ∧
      genProof merge m (l.map leafIndexToPos) = some proof ∧
      verify merge m.size proof root (l.map fun n => (leafIndexToPos n, leaves.getD n dflt)) = some true := by
  obtain ⟨hp, hb, -, -⟩ := lsp_reply_contents td f tip hv hm r hl l h
  have := proof_complete_by_index merge s0 leaves (l.map fun n => (n, leaves.getD n dflt)) (by simpa using hne)
    (by
      intro c hc
      obtain ⟨n, hn, rfl⟩ := List.mem_map.1 hc
      have : n < leaves.length := by rw [hlen]; exact (hb n hn).1
      simp [List.getD, this])
    (by simpa [List.map_map, Function.comp_def] using hp)
  simpa [List.map_map, Function.comp_def] using this

/-- **`GetBlocksProof` partitions the request.** When `GetBlocksProofProcess::execute` replies with a
proof, the request had no duplicates and did not contain the last hash, `found` are exactly the
requested main-chain hashes and `missing` exactly the others, each in request order (together a
partition of the request), and with the genesis block as the last block nothing is proved. -/
theorem bp_partition (onMain isGenesis : Nat → Bool) (last : Nat) (ids : List Nat) (rep : BpReply)
    (h : bpDecision onMain isGenesis last ids = .reply rep) :
    ids ≠ [] ∧ ids.length ≤ 1000 ∧ onMain last = true ∧
    rep.found = ids.filter onMain ∧ rep.missing = ids.filter (fun i => !onMain i) ∧
    (∀ i, i ∈ ids ↔ (i ∈ rep.found ∨ i ∈ rep.missing)) ∧
    (∀ i, i ∈ rep.found → onMain i = true) ∧ (∀ i, i ∈ rep.missing → onMain i = false) ∧
    rep.found.length + rep.missing.length = ids.length ∧
    (isGenesis last = true → rep.found = []) := by
  unfold bpDecision at h
  split at h
  · simp at h
  · rename_i hne
    split at h
    · simp at h
    · rename_i hlim
      split at h
      · simp at h
      · rename_i hon
        split at h
        · simp at h
        · dsimp only at h
          split at h
          · simp at h
          · rename_i hg
            simp only [Outcome.reply.injEq] at h
            subst h
            simp only [Gen.LightServer.GET_BLOCKS_PROOF_LIMIT] at hlim
            refine ⟨by intro e; simp [e] at hne, by omega, by simpa using hon, rfl, rfl, ?_, ?_, ?_, ?_, ?_⟩
            · intro i
              simp only [List.mem_filter]
              cases onMain i <;> simp
            · intro i hi; simp only [List.mem_filter] at hi; exact hi.2
            · intro i hi; simp only [List.mem_filter] at hi; simpa using hi.2
            · have key : ∀ l : List Nat,
                  (l.filter onMain).length + (l.filter (fun i => !onMain i)).length = l.length := by
                intro l
                induction l with
                | nil => rfl
                | cons a t ih =>
                  simp only [List.filter_cons, List.length_cons]
                  cases onMain a <;> simp <;> omega
              exact key ids
            · intro hgen
              simp only [hgen, true_and, Bool.not_eq_true'] at hg
              cases hf : ids.filter onMain with
              | nil => rfl
              | cons a t => simp [hf] at hg

example : bpDecision (fun i => i ≤ 5) (fun i => i = 0) 5 [3, 77, 1] = .reply ⟨[3, 1], [77]⟩ ∧
    bpDecision (fun i => i ≤ 5) (fun i => i = 0) 5 [3, 5] = .banned ∧
    bpDecision (fun i => i ≤ 5) (fun i => i = 0) 0 [3] = .banned ∧
    bpDecision (fun i => i ≤ 5) (fun i => i = 0) 0 [9] = .reply ⟨[], [9]⟩ ∧
    bpDecision (fun i => i ≤ 5) (fun i => i = 0) 9 [3] = .tip := by decide

/-- **`GetTransactionsProof`: what a reply binds.** When `GetTransactionsProofProcess::execute` replies
with a proof: the request was non-empty, within the limit and duplicate-free, the last hash is on the
main chain; `missing` are exactly the requested hashes whose `get_transaction_info` block is not on the
main chain (or that are unknown), in request order; every `(tx, index)` served in the filtered block
of `b` is what COLUMN_TRANSACTION_INFO says (`txInfo tx = (b, index)` — the index the CBMT proof is
built for); with the genesis block as the last block nothing is served.
`_partial`: not proved here — every found transaction appears in exactly one group, and each group's
block is on the main chain (both are compared with the real handler by the `tp` ops); the CBMT proof
(`merkle-cbt`) is not modelled: the harness verifies it with the real verifier. -/
theorem tp_reply_binds_tx_to_block_partial (onMain isGenesis : Nat → Bool) (txInfo : Nat → Option (Nat × Nat)) (last : Nat) (txs : List Nat)
    (rep : TpReply) (h : tpDecision onMain isGenesis txInfo last txs = .reply rep) :
    txs ≠ [] ∧ txs.length ≤ 1000 ∧ onMain last = true ∧ txs.eraseDups.length = txs.length ∧
    rep.missing = txs.filter (fun t => !(match txInfo t with | some (b, _) => onMain b | none => false)) ∧
    (∀ b es, (b, es) ∈ rep.blocks → ∀ x ∈ es, txInfo x.1 = some (b, x.2)) ∧
    (isGenesis last = true → rep.blocks = []) := by
  unfold tpDecision at h
  split at h
  · simp at h
  · rename_i hne
    split at h
    · simp at h
    · rename_i hlim
      split at h
      · simp at h
      · rename_i hon
        split at h
        · simp at h
        · rename_i hdup
          dsimp only at h
          split at h
          · simp at h
          · rename_i hg
            simp only [Outcome.reply.injEq] at h
            subst h
            simp only [Gen.LightServer.GET_TRANSACTIONS_PROOF_LIMIT] at hlim
            refine ⟨by intro e; simp [e] at hne, by omega, by simpa using hon, by simpa using hdup, rfl, ?_, ?_⟩
            · exact group_fold_sound txInfo _ [] (by intro b es hm; simp at hm)
            · intro hgen
              simp only [hgen, true_and, Bool.not_eq_true'] at hg
              simpa using hg

example : tpDecision (fun b => b ≤ 5) (fun b => b = 0) (fun t => if t < 10 then some (t / 2, t % 2) else if t < 20 then some (9, 0) else none)
    5 [4, 15, 5, 2, 30] = .reply ⟨[(2, [(4, 0), (5, 1)]), (1, [(2, 0)])], [15, 30]⟩ := by decide

end lightserver

/-! ## block filter -/

/-- Every lock script and every type script of every output of the block is an element of the
block's filter set. -/
theorem filter_covers_outputs (txs : List Tx) (tx : Tx) (c : Cell) (htx : tx ∈ txs) (hc : c ∈ tx.outputs) :
    c.lock ∈ elemSet (blockElems txs) ∧ ∀ t, c.type = some t → t ∈ elemSet (blockElems txs) := by
  have hsub : ∀ x, x ∈ cellElems c → x ∈ elemSet (blockElems txs) := by
    intro x hx
    rw [mem_elemSet]
    simp only [blockElems, List.mem_flatMap]
    refine ⟨tx, htx, ?_⟩
    simp only [txElems, List.mem_append, List.mem_flatMap]
    exact Or.inr ⟨c, hc, hx⟩
  refine ⟨hsub _ (by simp [cellElems]), ?_⟩
  intro t ht
  exact hsub _ (by simp [cellElems, ht])

/-- Every lock / type script of every cell spent by a non-cellbase transaction of the block (and
found by the provider) is an element of the block's filter set. -/
theorem filter_covers_spent_inputs (txs : List Tx) (tx : Tx) (c : Cell) (htx : tx ∈ txs)
    (hcb : tx.cellbase = false) (hc : some c ∈ tx.inputs) :
    c.lock ∈ elemSet (blockElems txs) ∧ ∀ t, c.type = some t → t ∈ elemSet (blockElems txs) := by
  have hsub : ∀ x, x ∈ cellElems c → x ∈ elemSet (blockElems txs) := by
    intro x hx
    rw [mem_elemSet]
    simp only [blockElems, List.mem_flatMap]
    refine ⟨tx, htx, ?_⟩
    simp only [txElems, hcb, Bool.false_eq_true, if_false, List.mem_append, List.mem_flatMap]
    exact Or.inl ⟨some c, hc, hx⟩
  refine ⟨hsub _ (by simp [cellElems]), ?_⟩
  intro t ht
  exact hsub _ (by simp [cellElems, ht])

/-- Nothing else is in the set: every element is a script of an output or of a spent input cell of
some transaction of the block. -/
theorem filter_only_block_scripts (txs : List Tx) (x : Nat) (hx : x ∈ elemSet (blockElems txs)) :
    ∃ tx ∈ txs, (∃ c ∈ tx.outputs, x ∈ cellElems c) ∨
      (tx.cellbase = false ∧ ∃ c, some c ∈ tx.inputs ∧ x ∈ cellElems c) := by
  rw [mem_elemSet] at hx
  simp only [blockElems, List.mem_flatMap] at hx
  obtain ⟨tx, htx, hx⟩ := hx
  refine ⟨tx, htx, ?_⟩
  simp only [txElems, List.mem_append, List.mem_flatMap] at hx
  rcases hx with hx | hx
  · right
    by_cases hcb : tx.cellbase = true
    · simp [hcb] at hx
    · have hcb' : tx.cellbase = false := by simpa using hcb
      simp only [hcb', Bool.false_eq_true, if_false, List.mem_flatMap] at hx
      obtain ⟨i, hi, hx⟩ := hx
      cases i with
      | none => simp at hx
      | some c => exact ⟨hcb', c, hi, hx⟩
  · left
    obtain ⟨c, hc, hx⟩ := hx
    exact ⟨c, hc, hx⟩

/-- The set handed to the Golomb coder is strictly sorted, i.e. duplicate-free: `N` in the filter
header is the number of distinct scripts. -/
theorem filter_set_strictly_sorted (txs : List Tx) : StrictSorted (elemSet (blockElems txs)) :=
  strictSorted_elemSet _

example :
    let txs : List Tx := [⟨true, [], [⟨1, none⟩]⟩, ⟨false, [some ⟨2, some 3⟩, none], [⟨1, some 2⟩]⟩]
    elemSet (blockElems txs) = [1, 2, 3] ∧ blockMissing txs = 1 := by decide

/-- The stored filter hashes form a chain: the hash of every built block is `H` of its parent's
stored hash (the zero hash for genesis) and its own filter data. -/
def ChainInv {ρ : Type} (H : ρ → Nat → ρ) (zero : ρ) (blk : Nat → Blk) (s : FState ρ) : Prop :=
  ∀ id h, lookupHash s.built id = some h →
    if (blk id).number = 0 then h = H zero id
    else ∃ ph, lookupHash s.built (blk id).parent = some ph ∧ h = H ph id

/-- `filter_hash(n) = H(filter_hash(parent(n)), data(n))` is an invariant of
`build_filter_data_for_block`, over any order in which blocks (of any fork) are offered; a block
whose parent has no stored hash makes the real code panic (`none` here) rather than break the chain. -/
theorem filter_hash_chains {ρ : Type} (H : ρ → Nat → ρ) (zero : ρ) (blk : Nat → Blk)
    (bs : List Blk) (hbs : ∀ b ∈ bs, blk b.id = b) (s s' : FState ρ)
    (hinv : ChainInv H zero blk s) (hrun : buildRange H zero s bs = some s') :
    ChainInv H zero blk s' := by
  induction bs generalizing s with
  | nil => simp [buildRange] at hrun; subst hrun; exact hinv
  | cons b bs ih =>
    simp only [buildRange] at hrun
    cases hone : buildOne H zero s b with
    | none => simp [hone] at hrun
    | some s1 =>
      simp only [hone] at hrun
      refine ih (fun b' hb' => hbs b' (List.mem_cons_of_mem _ hb')) s1 ?_ hrun
      have hb : blk b.id = b := hbs b (List.mem_cons_self ..)
      unfold buildOne at hone
      cases hl : lookupHash s.built b.id with
      | some v => simp [hl] at hone; subst hone; exact hinv
      | none =>
        simp only [hl] at hone
        by_cases hz : b.number = 0
        · simp only [hz, if_true, Option.some.injEq] at hone
          subst hone
          intro id h hlook
          simp only [lookupHash_cons] at hlook ⊢
          by_cases hid : b.id = id
          · subst hid
            simp only [if_true, Option.some.injEq] at hlook
            simp [hb, hz, hlook.symm]
          · simp only [hid, if_false] at hlook
            have := hinv id h hlook
            split at this
            · simp [*]
            · obtain ⟨ph, hp, hh⟩ := this
              rename_i hnz
              simp only [hnz, if_false]
              refine ⟨ph, ?_, hh⟩
              by_cases hpar : b.id = (blk id).parent
              · rw [← hpar, hl] at hp; simp at hp
              · simp [hpar, hp]
        · simp only [hz, if_false] at hone
          cases hp : lookupHash s.built b.parent with
          | none => simp [hp] at hone
          | some ph0 =>
            simp only [hp, Option.some.injEq] at hone
            subst hone
            intro id h hlook
            simp only [lookupHash_cons] at hlook ⊢
            by_cases hid : b.id = id
            · subst hid
              simp only [if_true, Option.some.injEq] at hlook
              simp only [hb, hz, if_false]
              refine ⟨ph0, ?_, hlook.symm⟩
              by_cases hpar : b.id = b.parent
              · rw [← hpar, hl] at hp; simp at hp
              · simp [hpar, hp]
            · simp only [hid, if_false] at hlook
              have := hinv id h hlook
              split at this
              · simp [*]
              · obtain ⟨ph, hp', hh⟩ := this
                rename_i hnz
                simp only [hnz, if_false]
                refine ⟨ph, ?_, hh⟩
                by_cases hpar : b.id = (blk id).parent
                · rw [← hpar, hl] at hp'; simp at hp'
                · simp [hpar, hp']

example : ChainInv (fun (p : Nat) d => 100 * p + d) 0 (fun i => ⟨i, i - 1, i⟩) ⟨[], none⟩ := by
  intro id h hl; simp [lookupHash] at hl

/-- **Restart point of the filter service.** Whatever the block tree and whichever fork the latest
built block is on: if the stored filters are parent-closed and `latest` has one (`Closed` — true
initially and preserved by every pass), one pass of `build_filter_data` over a well-formed
snapshot never hits the `expect("parent block filter data stored")` panic, and afterwards *every*
main-chain block `0 ..= tip` has a filter hash; the state is again `Closed`. (Together with
`filter_hash_chains` the hashes then chain along the whole main chain.) -/
theorem filter_restart_point {ρ : Type} (H : ρ → Nat → ρ) (zero : ρ) (v : View) (hwf : WF v)
    (s : FState ρ) (hc : Closed v s) :
    ∃ s', buildFilterData H zero v s = some s' ∧
      (∀ n, n ≤ v.tip → builtP s' (v.mainAt n)) ∧ Closed v s' := by
  obtain ⟨hmb, hle⟩ := start_mainBuilt v hwf s hc
  obtain ⟨s', hs', hmb', hc'⟩ := buildRange_catchup H zero v hwf (v.tip + 1 - startNumber v s.latest)
    (startNumber v s.latest) s (by omega) hmb hc
  exact ⟨s', hs', fun n hn => hmb' n (by omega) hn, hc'⟩

/-- the empty filter store is `Closed` -/
theorem closed_init {ρ : Type} (v : View) : Closed v (⟨[], none⟩ : FState ρ) :=
  ⟨fun id h => by simp [builtP, lookupHash] at h, fun l h => by simp at h⟩

/-- non-vacuity and the fork-recovery branch on a concrete tree: main chain 0-1-2, filters built,
then a reorg to 0-1-3-4 (ids): the pass restarts at block 3 and builds 3 and 4. -/
example :
    let blk : Nat → Blk := fun i => match i with
      | 0 => ⟨0, 0, 0⟩ | 1 => ⟨1, 0, 1⟩ | 2 => ⟨2, 1, 2⟩ | 3 => ⟨3, 1, 2⟩ | 4 => ⟨4, 3, 3⟩ | n => ⟨n, 0, 99⟩
    let v1 : View := ⟨blk, fun i => i ≤ 2, fun n => n, 2⟩
    let v2 : View := ⟨blk, fun i => i = 0 || i = 1 || i = 3 || i = 4, fun n => match n with | 2 => 3 | 3 => 4 | n => n, 3⟩
    let H : List Nat → Nat → List Nat := fun p d => d :: p
    ((buildFilterData H [] v1 ⟨[], none⟩).bind fun s1 =>
      (buildFilterData H [] v2 s1).map fun s2 => (startNumber v2 s1.latest, s2.built.map (·.1), s2.latest))
      = some (2, [4, 3, 2, 1, 0], some 4) := by decide

end CkbVerif.C19
