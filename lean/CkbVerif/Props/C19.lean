import CkbVerif.Model.MMR
import CkbVerif.Model.Filter
import CkbVerif.Lemmas.Filter
/-!
# C19 — chain-root commitments, proofs and filter hashes match the chain they describe

Property theorems only; helper lemmas are in `Lemmas/MMR*.lean`, `Lemmas/Filter.lean`.
-/
namespace CkbVerif.C19
open CkbVerif.MMR CkbVerif.Filter

/-! ## block filter -/

/-- Every lock script and every type script of every output of the block is an element of the
block's filter set. -/
theorem filter_covers_outputs (txs : List Tx) (tx : Tx) (c : Cell) (htx : tx ∈ txs) (hc : c ∈ tx.outputs) :
    c.lock ∈ elemSet (blockElems txs) ∧ ∀ t, c.type = some t → t ∈ elemSet (blockElems txs) := by
  have hsub : ∀ x, x ∈ cellElems c → x ∈ elemSet (blockElems txs) := by
    intro x hx
    rw [mem_elemSet]
    simp only [blockElems, List.mem_flatMap]
    refine ⟨tx, htx, ?_⟩
    simp only [txElems, List.mem_append, List.mem_flatMap]
    exact Or.inr ⟨c, hc, hx⟩
  refine ⟨hsub _ (by simp [cellElems]), ?_⟩
  intro t ht
  exact hsub _ (by simp [cellElems, ht])

/-- Every lock / type script of every cell spent by a non-cellbase transaction of the block (and
found by the provider) is an element of the block's filter set. -/
theorem filter_covers_spent_inputs (txs : List Tx) (tx : Tx) (c : Cell) (htx : tx ∈ txs)
    (hcb : tx.cellbase = false) (hc : some c ∈ tx.inputs) :
    c.lock ∈ elemSet (blockElems txs) ∧ ∀ t, c.type = some t → t ∈ elemSet (blockElems txs) := by
  have hsub : ∀ x, x ∈ cellElems c → x ∈ elemSet (blockElems txs) := by
    intro x hx
    rw [mem_elemSet]
    simp only [blockElems, List.mem_flatMap]
    refine ⟨tx, htx, ?_⟩
    simp only [txElems, hcb, Bool.false_eq_true, if_false, List.mem_append, List.mem_flatMap]
    exact Or.inl ⟨some c, hc, hx⟩
  refine ⟨hsub _ (by simp [cellElems]), ?_⟩
  intro t ht
  exact hsub _ (by simp [cellElems, ht])

/-- Nothing else is in the set: every element is a script of an output or of a spent input cell of
some transaction of the block. -/
theorem filter_only_block_scripts (txs : List Tx) (x : Nat) (hx : x ∈ elemSet (blockElems txs)) :
    ∃ tx ∈ txs, (∃ c ∈ tx.outputs, x ∈ cellElems c) ∨
      (tx.cellbase = false ∧ ∃ c, some c ∈ tx.inputs ∧ x ∈ cellElems c) := by
  rw [mem_elemSet] at hx
  simp only [blockElems, List.mem_flatMap] at hx
  obtain ⟨tx, htx, hx⟩ := hx
  refine ⟨tx, htx, ?_⟩
  simp only [txElems, List.mem_append, List.mem_flatMap] at hx
  rcases hx with hx | hx
  · right
    by_cases hcb : tx.cellbase = true
    · simp [hcb] at hx
    · have hcb' : tx.cellbase = false := by simpa using hcb
      simp only [hcb', Bool.false_eq_true, if_false, List.mem_flatMap] at hx
      obtain ⟨i, hi, hx⟩ := hx
      cases i with
      | none => simp at hx
      | some c => exact ⟨hcb', c, hi, hx⟩
  · left
    obtain ⟨c, hc, hx⟩ := hx
    exact ⟨c, hc, hx⟩

/-- The set handed to the Golomb coder is strictly sorted, i.e. duplicate-free: `N` in the filter
header is the number of distinct scripts. -/
theorem filter_set_strictly_sorted (txs : List Tx) : StrictSorted (elemSet (blockElems txs)) :=
  strictSorted_elemSet _

example :
    let txs : List Tx := [⟨true, [], [⟨1, none⟩]⟩, ⟨false, [some ⟨2, some 3⟩, none], [⟨1, some 2⟩]⟩]
    elemSet (blockElems txs) = [1, 2, 3] ∧ blockMissing txs = 1 := by decide

/-- The stored filter hashes form a chain: the hash of every built block is `H` of its parent's
stored hash (the zero hash for genesis) and its own filter data. -/
def ChainInv {ρ : Type} (H : ρ → Nat → ρ) (zero : ρ) (blk : Nat → Blk) (s : FState ρ) : Prop :=
  ∀ id h, lookupHash s.built id = some h →
    if (blk id).number = 0 then h = H zero id
    else ∃ ph, lookupHash s.built (blk id).parent = some ph ∧ h = H ph id

/-- `filter_hash(n) = H(filter_hash(parent(n)), data(n))` is an invariant of
`build_filter_data_for_block`, over any order in which blocks (of any fork) are offered; a block
whose parent has no stored hash makes the real code panic (`none` here) rather than break the chain. -/
theorem filter_hash_chains {ρ : Type} (H : ρ → Nat → ρ) (zero : ρ) (blk : Nat → Blk)
    (bs : List Blk) (hbs : ∀ b ∈ bs, blk b.id = b) (s s' : FState ρ)
    (hinv : ChainInv H zero blk s) (hrun : buildRange H zero s bs = some s') :
    ChainInv H zero blk s' := by
  induction bs generalizing s with
  | nil => simp [buildRange] at hrun; subst hrun; exact hinv
  | cons b bs ih =>
    simp only [buildRange] at hrun
    cases hone : buildOne H zero s b with
    | none => simp [hone] at hrun
    | some s1 =>
      simp only [hone] at hrun
      refine ih (fun b' hb' => hbs b' (List.mem_cons_of_mem _ hb')) s1 ?_ hrun
      have hb : blk b.id = b := hbs b (List.mem_cons_self ..)
      unfold buildOne at hone
      cases hl : lookupHash s.built b.id with
      | some v => simp [hl] at hone; subst hone; exact hinv
      | none =>
        simp only [hl] at hone
        by_cases hz : b.number = 0
        · simp only [hz, if_true, Option.some.injEq] at hone
          subst hone
          intro id h hlook
          simp only [lookupHash_cons] at hlook ⊢
          by_cases hid : b.id = id
          · subst hid
            simp only [if_true, Option.some.injEq] at hlook
            simp [hb, hz, hlook.symm]
          · simp only [hid, if_false] at hlook
            have := hinv id h hlook
            split at this
            · simp [*]
            · obtain ⟨ph, hp, hh⟩ := this
              rename_i hnz
              simp only [hnz, if_false]
              refine ⟨ph, ?_, hh⟩
              by_cases hpar : b.id = (blk id).parent
              · rw [← hpar, hl] at hp; simp at hp
              · simp [hpar, hp]
        · simp only [hz, if_false] at hone
          cases hp : lookupHash s.built b.parent with
          | none => simp [hp] at hone
          | some ph0 =>
            simp only [hp, Option.some.injEq] at hone
            subst hone
            intro id h hlook
            simp only [lookupHash_cons] at hlook ⊢
            by_cases hid : b.id = id
            · subst hid
              simp only [if_true, Option.some.injEq] at hlook
              simp only [hb, hz, if_false]
              refine ⟨ph0, ?_, hlook.symm⟩
              by_cases hpar : b.id = b.parent
              · rw [← hpar, hl] at hp; simp at hp
              · simp [hpar, hp]
            · simp only [hid, if_false] at hlook
              have := hinv id h hlook
              split at this
              · simp [*]
              · obtain ⟨ph, hp', hh⟩ := this
                rename_i hnz
                simp only [hnz, if_false]
                refine ⟨ph, ?_, hh⟩
                by_cases hpar : b.id = (blk id).parent
                · rw [← hpar, hl] at hp'; simp at hp'
                · simp [hpar, hp']

example : ChainInv (fun (p : Nat) d => 100 * p + d) 0 (fun i => ⟨i, i - 1, i⟩) ⟨[], none⟩ := by
  intro id h hl; simp [lookupHash] at hl

end CkbVerif.C19
