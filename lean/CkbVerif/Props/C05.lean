import CkbVerif.Model.Cycles

/-!
C05 — script verdict and cycle count do not depend on how execution is chunked.

Theorems about the accounting model `Model/Cycles.lean` (the code of `script/src/verify.rs` as
written). The VM and its snapshot/restore are an assumption of the model (a resumed scheduler
continues the same trace): that part is observed by the harness, not proved — the claim is partial.

* `runSteps_conserve`, `chunk_conserves`, `chunk_completed_total_partial`: whatever the limits, a
  group's chunks consume exactly its cost in total, and the `Completed` result of the last chunk
  reports the group's full cost — the per-group core of "chunked = unchunked"
* `runFull_ok_iff`, `verify_budget_ge_eq_unlimited`, `verify_budget_lt_fails`: the two budget clauses
  for the one-shot entry point `verify`
* `resumable_one_shot_eq_verify_partial`: `resumable_verify` with a limit ≥ total cost completes with the
  same total as `verify`
* `complete_violates_budget` (finding F4), `signal_violates_budget` (finding F4b): the code as
  written does NOT satisfy `budget_lt_cost_fails` for `complete` and for the signal path — concrete
  witnesses, replayed on the real verifier by the harness (oracle classes
  `complete-succeeds-below-cost`, `signal-succeeds-below-cost`)
-/
namespace CkbVerif.C05
open CkbVerif.Cycles

/-- a run never consumes more than its limit and what it consumes plus what is left is the trace -/
theorem runSteps_conserve (steps : List Nat) (limit : Nat) :
    (runSteps steps limit).1 + (runSteps steps limit).2.sum = steps.sum ∧ (runSteps steps limit).1 ≤ limit := by
  induction steps generalizing limit with
  | nil => simp [runSteps]
  | cons k rest ih =>
    unfold runSteps
    by_cases h : k ≤ limit
    · simp only [h, if_true]
      have := ih (limit - k)
      simp only [List.sum_cons]
      omega
    · simp [h]

/-- a run finishes the trace iff the remaining cost fits into the limit -/
theorem runSteps_done_iff (steps : List Nat) (limit : Nat) (hpos : ∀ k ∈ steps, 0 < k) :
    (runSteps steps limit).2 = [] ↔ steps.sum ≤ limit := by
  induction steps generalizing limit with
  | nil => simp [runSteps]
  | cons k rest ih =>
    unfold runSteps
    have hk : 0 < k := hpos k (List.mem_cons_self)
    have hrest : ∀ x ∈ rest, 0 < x := fun x hx => hpos x (List.mem_cons_of_mem _ hx)
    by_cases h : k ≤ limit
    · simp only [h, if_true, List.sum_cons]
      rw [ih (limit - k) hrest]
      omega
    · simp only [h, if_false, List.sum_cons]
      constructor
      · intro hh; cases hh
      · intro hh; omega

example : runSteps [3, 4, 5] 8 = (7, [5]) ∧ runSteps [3, 4, 5] 12 = (12, []) := by decide

/-- the invariant of a suspended group state: cycles consumed so far + cost of the rest = group cost -/
def GState.Inv (g : Group) (s : GState) : Prop := s.consumed + s.rest.sum = g.cost

/-- **chunk_conserves.** a chunk of any size keeps the invariant when it suspends, and when it
completes it reports the group's full cost as `used`, whatever the earlier chunk sizes were -/
theorem chunk_conserves (g : Group) (limit : Nat) (st : Option GState)
    (hst : ∀ s, st = some s → GState.Inv g s) :
    match chunkRun g limit st with
    | .ok (.suspended s') => GState.Inv g s'
    | .ok (.completed used _) => used = g.cost
    | .error e => e = .validation g.code ∧ g.code ≠ 0 := by
  unfold chunkRun
  have hs : GState.Inv g (st.getD ⟨0, g.steps⟩) := by
    cases st with
    | none => simp [GState.Inv, Group.cost]
    | some s => exact hst s rfl
  generalize st.getD ⟨0, g.steps⟩ = s at hs
  have hc := runSteps_conserve s.rest limit
  unfold GState.Inv at hs
  cases hr : runSteps s.rest limit with
  | mk c r =>
    rw [hr] at hc
    simp only [hr] at hc ⊢
    by_cases he : r.isEmpty = true
    · have : r = [] := by simpa using he
      subst this
      have h0 : ([] : List Nat).sum = 0 := rfl
      rw [h0] at hc
      by_cases hcode : g.code = 0
      · simp [hcode]; omega
      · simp [hcode]
    · have he' : r.isEmpty = false := by cases r <;> simp_all
      simp only [he', Bool.false_eq_true, if_false]
      unfold GState.Inv
      simp only
      omega

/-- **chunk_completed_total_partial.** For ANY list of chunk limits: feeding a group chunk after
chunk (resuming each time from the returned state) either ends in the group's own validation
failure, or stays suspended, or completes — and when it completes the reported total is the group's
cost, independent of the limits. (Partial: stated per script group for the accounting layer; that the
real scheduler resumes the same trace is the model's assumption, and the multi-group driver loop is
covered by the correspondence run, not by this theorem.) -/
def feed (g : Group) : List Nat → Option GState → Except Err Chunk
  | [], st => .ok (.suspended (st.getD ⟨0, g.steps⟩))
  | l :: more, st =>
    match chunkRun g l st with
    | .ok (.suspended s) => feed g more (some s)
    | r => r

theorem chunk_completed_total_partial (g : Group) (limits : List Nat) (st : Option GState)
    (hst : ∀ s, st = some s → GState.Inv g s) (used c : Nat)
    (h : feed g limits st = .ok (.completed used c)) : used = g.cost := by
  induction limits generalizing st with
  | nil => simp [feed] at h
  | cons l more ih =>
    unfold feed at h
    have hc := chunk_conserves g l st hst
    cases hr : chunkRun g l st with
    | error e => rw [hr] at h; simp at h
    | ok ch =>
      cases ch with
      | suspended s =>
        rw [hr] at h hc
        simp only at h hc
        exact ih (some s) (fun s' hs' => by cases hs'; exact hc) h
      | completed u c' =>
        rw [hr] at h hc
        simp only at h hc
        cases h
        exact hc

example : feed ⟨[3, 4, 5], 0⟩ [2, 3, 5, 4, 9] none = .ok (.completed 12 5) := rfl
example : feed ⟨[3, 4, 5], 0⟩ [12] none = .ok (.completed 12 12) := rfl

/-! ### `verify` -/

/-- one-shot run of a group: succeeds with the group's cost iff the cost fits and the exit code is 0 -/
theorem runFull_ok_iff (g : Group) (limit : Nat) (hpos : ∀ k ∈ g.steps, 0 < k) (hcode : g.code = 0) :
    (g.cost ≤ limit → runFull g limit = .ok g.cost) ∧
    (limit < g.cost → runFull g limit = .error (.exceeded limit)) := by
  unfold runFull Group.cost
  have hd := runSteps_done_iff g.steps limit hpos
  have hc := runSteps_conserve g.steps limit
  cases hr : runSteps g.steps limit with
  | mk c r =>
    rw [hr] at hd hc
    simp only at hd hc ⊢
    constructor
    · intro h
      have : r = [] := hd.2 h
      subst this
      simp only [List.isEmpty_nil, if_true, hcode]
      simp at hc
      simp [hc.1]
    · intro h
      have : r ≠ [] := fun e => by have := hd.1 e; omega
      have : r.isEmpty = false := by cases r <;> simp_all
      simp [this]

/-- all groups succeed on their own -/
def AllOk (gs : List Group) : Prop := ∀ g ∈ gs, g.code = 0 ∧ ∀ k ∈ g.steps, 0 < k

def totalCost (gs : List Group) : Nat := (gs.map Group.cost).sum

theorem verifyFrom_ge (max : Nat) (gs : List Group) (cycles : Nat) (hok : AllOk gs)
    (hfit : cycles + totalCost gs ≤ max) (hmax : max < U64) :
    verifyFrom max gs cycles = .ok (cycles + totalCost gs) := by
  induction gs generalizing cycles with
  | nil => simp [verifyFrom, totalCost]
  | cons g rest ih =>
    unfold verifyFrom
    have hg := hok g (List.mem_cons_self)
    have hrest : AllOk rest := fun x hx => hok x (List.mem_cons_of_mem _ hx)
    simp only [totalCost, List.map_cons, List.sum_cons] at hfit ⊢
    have h1 := (runFull_ok_iff g (max - cycles) hg.2 hg.1).1 (by omega)
    rw [h1]
    have : cyclesAdd cycles g.cost = .ok (cycles + g.cost) := by
      unfold cyclesAdd; have : cycles + g.cost < U64 := by omega
      simp [this]
    simp only [this]
    have := ih (cycles + g.cost) hrest (by simp only [totalCost]; omega)
    rw [this]; simp only [totalCost]; congr 1; omega

/-- **verify_budget_ge_eq_unlimited.** with a budget of at least the total cost, `verify` returns
exactly the total cost — the same as with any larger budget (in particular the unlimited run) -/
theorem verify_budget_ge_eq_unlimited (gs : List Group) (b : Nat) (hok : AllOk gs)
    (hb : totalCost gs ≤ b) (hmax : b < U64) : verify gs b = .ok (totalCost gs) := by
  have := verifyFrom_ge b gs 0 hok (by omega) hmax
  simpa [verify] using this

theorem verifyFrom_lt (max : Nat) (gs : List Group) (cycles : Nat) (hok : AllOk gs)
    (hc : cycles ≤ max) (hlt : max < cycles + totalCost gs) (hmax : max < U64) :
    ∃ l, verifyFrom max gs cycles = .error (.exceeded l) := by
  induction gs generalizing cycles with
  | nil => simp [totalCost] at hlt; omega
  | cons g rest ih =>
    unfold verifyFrom
    have hg := hok g (List.mem_cons_self)
    have hrest : AllOk rest := fun x hx => hok x (List.mem_cons_of_mem _ hx)
    simp only [totalCost, List.map_cons, List.sum_cons] at hlt
    by_cases hfit : g.cost ≤ max - cycles
    · have h1 := (runFull_ok_iff g (max - cycles) hg.2 hg.1).1 hfit
      rw [h1]
      have : cyclesAdd cycles g.cost = .ok (cycles + g.cost) := by
        unfold cyclesAdd; have : cycles + g.cost < U64 := by omega
        simp [this]
      simp only [this]
      exact ih (cycles + g.cost) hrest (by omega) (by simp only [totalCost]; omega)
    · have h1 := (runFull_ok_iff g (max - cycles) hg.2 hg.1).2 (by omega)
      rw [h1]
      exact ⟨_, rfl⟩

/-- **verify_budget_lt_fails.** with a budget below the total cost, `verify` never succeeds and
reports the cycle limit -/
theorem verify_budget_lt_fails (gs : List Group) (b : Nat) (hok : AllOk gs)
    (hb : b < totalCost gs) (hmax : b < U64) : ∃ l, verify gs b = .error (.exceeded l) := by
  have := verifyFrom_lt b gs 0 hok (by omega) (by omega) hmax
  simpa [verify] using this

example : verify [⟨[2, 3], 0⟩, ⟨[4], 0⟩] 9 = .ok 9 ∧ verify [⟨[2, 3], 0⟩, ⟨[4], 0⟩] 8 = .error (.exceeded 3) :=
  ⟨rfl, rfl⟩

/-! ### the code as written violates the budget clause for `complete` and for the signal path -/

/-- **complete_violates_budget (F4).** one group of cost 2: `resumable_verify(1)` suspends it after
1 cycle; `complete(state, 1)` then succeeds with 2 cycles although the budget 1 is below the cost 2
(the resumed group is given `max_cycles − current_cycles = 1 − 0`, the cycle already consumed inside
it is not subtracted). -/
theorem complete_violates_budget :
    ∃ (gs : List Group) (st : TxState) (b total : Nat),
      AllOk gs ∧ b < totalCost gs ∧
      resumableVerify gs 1 = .ok (.suspended st) ∧ complete gs st b = .ok total ∧ b < total := by
  refine ⟨[⟨[1, 1], 0⟩], ⟨0, ⟨1, [1]⟩, 0, 1⟩, 1, 2, ?_, by decide, rfl, rfl, by decide⟩
  intro g hg
  simp only [List.mem_singleton] at hg
  subst hg
  exact ⟨rfl, by decide⟩

/-- **signal_violates_budget (F4b).** one group of cost 3 under `resumable_verify_with_signal(2)`: a
Suspend after the first cycle and a Resume let it finish with 3 cycles, because every `Resume` runs
the scheduler with the full `max_cycles` again. -/
theorem signal_violates_budget :
    ∃ (g : Group) (b total : Nat), g.code = 0 ∧ b < g.cost ∧
      signalVerify b [(g, [some 1, none])] 0 = .ok total ∧ b < total := by
  exact ⟨⟨[1, 1, 1], 0⟩, 2, 3, rfl, by decide, rfl, by decide⟩

/-- without a pause the same call fails as it must -/
example : signalVerify 2 [(⟨[1, 1, 1], 0⟩, [])] 0 = .error (.exceeded 2) := rfl

end CkbVerif.C05
