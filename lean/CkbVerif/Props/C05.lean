import CkbVerif.Model.Cycles
import CkbVerif.Model.Sched
import CkbVerif.Lemmas.Cycles
import CkbVerif.Lemmas.Sched

/-!
C05 — script verdict and cycle count do not depend on how execution is chunked.

Theorems about the accounting model `Model/Cycles.lean` (the code of `script/src/verify.rs` as
written). The VM and its snapshot/restore are an assumption of the model (a resumed scheduler
continues the same trace): that part is observed by the harness, not proved — the claim is partial.

* `runSteps_conserve`, `chunk_conserves`, `chunk_completed_total_partial`: whatever the limits, a
  group's chunks consume exactly its cost in total, and the `Completed` result of the last chunk
  reports the group's full cost — the per-group core of "chunked = unchunked"
* `runFull_ok_iff`, `verify_budget_ge_eq_unlimited`, `verify_budget_lt_fails`: the two budget clauses
  for the one-shot entry point `verify`
* `resumable_one_shot_eq_verify_partial`: `resumable_verify` with a limit ≥ total cost completes with the
  same total as `verify`
* `chunked_eq_unchunked`, `chunked_outcomes`, `chunked_run_completes`: the multi-group statement —
  for every transaction and EVERY list of per-call limits, `resumable_verify` + `resume_from_state`
  driven over the limits ends with exactly the unlimited one-shot result (or is still suspended, in an
  invariant state), and it does end when the limits cover the atomic steps
* `resumable_verify_budget_ge_eq_unlimited`, `resumable_verify_budget_lt_suspends`,
  `resume_from_state_budget_ge_eq_unlimited`, `resume_from_state_budget_lt_partial`,
  `resume_from_state_limit_is_per_call_witness`: the two budget clauses for the resumable API
* `type_id_group_is_single_step`: the built-in TYPE_ID system script is the one-step group
  `typeIdGroup` (cost from the source via the translator), so all statements cover TYPE_ID groups
* `complete_budget_ge_eq_unlimited`, `complete_budget_lt_partial`: what `complete` does satisfy
* `signal_budget_ge_eq_unlimited`: the signal path under ANY pause schedule with a sufficient budget
* scheduler layer (`Model/Sched.lean`, an abstract deterministic state machine with whole-state
  suspend/resume): `suspend_resume_same_trace_partial`, `state_chunked_eq_trace_chunked_partial`,
  `state_chunked_total_eq_oneshot_partial` — IF an observation of the scheduler state (VMs with
  memory, terminated_vms exit codes, pipes/fds, id counters) determines the next step and survives
  `resume ∘ suspend`, THEN every chunked run through suspended states is the accounting model's
  chunked run on the state's trace and, when it ends, reports the one-shot exit code and total; the
  two hypotheses are about the real code and are observed by the harness (round-trip oracle), not
  proved; `resume_forgetting_exit_codes_diverges`: a machine whose resume drops one observable
  component (the parked exit code of a terminated child) breaks the conclusion
* `complete_violates_budget` (finding F4), `signal_violates_budget` (finding F4b): the code as
  written does NOT satisfy `budget_lt_cost_fails` for `complete` and for the signal path — concrete
  witnesses, replayed on the real verifier by the harness (oracle classes
  `complete-succeeds-below-cost`, `signal-succeeds-below-cost`)
-/
namespace CkbVerif.C05
open CkbVerif.Cycles

/-- a run never consumes more than its limit and what it consumes plus what is left is the trace -/
theorem runSteps_conserve (steps : List Nat) (limit : Nat) :
    (runSteps steps limit).1 + (runSteps steps limit).2.sum = steps.sum ∧ (runSteps steps limit).1 ≤ limit := by
  induction steps generalizing limit with
  | nil => simp [runSteps]
  | cons k rest ih =>
    unfold runSteps
    by_cases h : k ≤ limit
    · simp only [h, if_true]
      have := ih (limit - k)
      simp only [List.sum_cons]
      omega
    · simp [h]

/-- a run finishes the trace iff the remaining cost fits into the limit -/
theorem runSteps_done_iff (steps : List Nat) (limit : Nat) (hpos : ∀ k ∈ steps, 0 < k) :
    (runSteps steps limit).2 = [] ↔ steps.sum ≤ limit := by
  induction steps generalizing limit with
  | nil => simp [runSteps]
  | cons k rest ih =>
    unfold runSteps
    have hk : 0 < k := hpos k (List.mem_cons_self)
    have hrest : ∀ x ∈ rest, 0 < x := fun x hx => hpos x (List.mem_cons_of_mem _ hx)
    by_cases h : k ≤ limit
    · simp only [h, if_true, List.sum_cons]
      rw [ih (limit - k) hrest]
      omega
    · simp only [h, if_false, List.sum_cons]
      constructor
      · intro hh; cases hh
      · intro hh; omega

example : runSteps [3, 4, 5] 8 = (7, [5]) ∧ runSteps [3, 4, 5] 12 = (12, []) := by decide

/-- the invariant of a suspended group state: cycles consumed so far + cost of the rest = group cost -/
def GState.Inv (g : Group) (s : GState) : Prop := s.consumed + s.rest.sum = g.cost

/-- **chunk_conserves.** a chunk of any size keeps the invariant when it suspends, and when it
completes it reports the group's full cost as `used`, whatever the earlier chunk sizes were -/
theorem chunk_conserves (g : Group) (limit : Nat) (st : Option GState)
    (hst : ∀ s, st = some s → GState.Inv g s) :
    match chunkRun g limit st with
    | .ok (.suspended s') => GState.Inv g s'
    | .ok (.completed used _) => used = g.cost
    | .error e => e = .validation g.code ∧ g.code ≠ 0 := by
  unfold chunkRun
  have hs : GState.Inv g (st.getD ⟨0, g.steps⟩) := by
    cases st with
    | none => simp [GState.Inv, Group.cost]
    | some s => exact hst s rfl
  generalize st.getD ⟨0, g.steps⟩ = s at hs
  have hc := runSteps_conserve s.rest limit
  unfold GState.Inv at hs
  cases hr : runSteps s.rest limit with
  | mk c r =>
    rw [hr] at hc
    simp only [hr] at hc ⊢
    by_cases he : r.isEmpty = true
    · have : r = [] := by simpa using he
      subst this
      have h0 : ([] : List Nat).sum = 0 := rfl
      rw [h0] at hc
      by_cases hcode : g.code = 0
      · simp [hcode]; omega
      · simp [hcode]
    · have he' : r.isEmpty = false := by cases r <;> simp_all
      simp only [he', Bool.false_eq_true, if_false]
      unfold GState.Inv
      simp only
      omega

/-- **chunk_completed_total_partial.** For ANY list of chunk limits: feeding a group chunk after
chunk (resuming each time from the returned state) either ends in the group's own validation
failure, or stays suspended, or completes — and when it completes the reported total is the group's
cost, independent of the limits. (Partial: stated per script group for the accounting layer; that the
real scheduler resumes the same trace is the model's assumption, and the multi-group driver loop is
covered by the correspondence run, not by this theorem.) -/
def feed (g : Group) : List Nat → Option GState → Except Err Chunk
  | [], st => .ok (.suspended (st.getD ⟨0, g.steps⟩))
  | l :: more, st =>
    match chunkRun g l st with
    | .ok (.suspended s) => feed g more (some s)
    | r => r

theorem chunk_completed_total_partial (g : Group) (limits : List Nat) (st : Option GState)
    (hst : ∀ s, st = some s → GState.Inv g s) (used c : Nat)
    (h : feed g limits st = .ok (.completed used c)) : used = g.cost := by
  induction limits generalizing st with
  | nil => simp [feed] at h
  | cons l more ih =>
    unfold feed at h
    have hc := chunk_conserves g l st hst
    cases hr : chunkRun g l st with
    | error e => rw [hr] at h; simp at h
    | ok ch =>
      cases ch with
      | suspended s =>
        rw [hr] at h hc
        simp only at h hc
        exact ih (some s) (fun s' hs' => by cases hs'; exact hc) h
      | completed u c' =>
        rw [hr] at h hc
        simp only at h hc
        cases h
        exact hc

example : feed ⟨[3, 4, 5], 0⟩ [2, 3, 5, 4, 9] none = .ok (.completed 12 5) := rfl
example : feed ⟨[3, 4, 5], 0⟩ [12] none = .ok (.completed 12 12) := rfl

/-! ### `verify` -/

/-- one-shot run of a group: succeeds with the group's cost iff the cost fits and the exit code is 0 -/
theorem runFull_ok_iff (g : Group) (limit : Nat) (hpos : ∀ k ∈ g.steps, 0 < k) (hcode : g.code = 0) :
    (g.cost ≤ limit → runFull g limit = .ok g.cost) ∧
    (limit < g.cost → runFull g limit = .error (.exceeded limit)) := by
  unfold runFull Group.cost
  have hd := runSteps_done_iff g.steps limit hpos
  have hc := runSteps_conserve g.steps limit
  cases hr : runSteps g.steps limit with
  | mk c r =>
    rw [hr] at hd hc
    simp only at hd hc ⊢
    constructor
    · intro h
      have : r = [] := hd.2 h
      subst this
      simp only [List.isEmpty_nil, if_true, hcode]
      simp at hc
      simp [hc.1]
    · intro h
      have : r ≠ [] := fun e => by have := hd.1 e; omega
      have : r.isEmpty = false := by cases r <;> simp_all
      simp [this]

/-- all groups succeed on their own -/
def AllOk (gs : List Group) : Prop := ∀ g ∈ gs, g.code = 0 ∧ ∀ k ∈ g.steps, 0 < k

-- `totalCost gs` (the sum of the group costs) is defined in `Lemmas/Cycles.lean` (`CkbVerif.Cycles.totalCost`)
example : totalCost [⟨[2, 3], 0⟩, ⟨[4], 0⟩] = 9 := rfl

theorem verifyFrom_ge (max : Nat) (gs : List Group) (cycles : Nat) (hok : AllOk gs)
    (hfit : cycles + totalCost gs ≤ max) (hmax : max < U64) :
    verifyFrom max gs cycles = .ok (cycles + totalCost gs) := by
  induction gs generalizing cycles with
  | nil => simp [verifyFrom, totalCost]
  | cons g rest ih =>
    unfold verifyFrom
    have hg := hok g (List.mem_cons_self)
    have hrest : AllOk rest := fun x hx => hok x (List.mem_cons_of_mem _ hx)
    simp only [totalCost, List.map_cons, List.sum_cons] at hfit ⊢
    have h1 := (runFull_ok_iff g (max - cycles) hg.2 hg.1).1 (by omega)
    rw [h1]
    have : cyclesAdd cycles g.cost = .ok (cycles + g.cost) := by
      unfold cyclesAdd; have : cycles + g.cost < U64 := by omega
      simp [this]
    simp only [this]
    have := ih (cycles + g.cost) hrest (by simp only [totalCost]; omega)
    rw [this]; simp only [totalCost]; congr 1; omega

/-- **verify_budget_ge_eq_unlimited.** with a budget of at least the total cost, `verify` returns
exactly the total cost — the same as with any larger budget (in particular the unlimited run) -/
theorem verify_budget_ge_eq_unlimited (gs : List Group) (b : Nat) (hok : AllOk gs)
    (hb : totalCost gs ≤ b) (hmax : b < U64) : verify gs b = .ok (totalCost gs) := by
  have := verifyFrom_ge b gs 0 hok (by omega) hmax
  simpa [verify] using this

theorem verifyFrom_lt (max : Nat) (gs : List Group) (cycles : Nat) (hok : AllOk gs)
    (hc : cycles ≤ max) (hlt : max < cycles + totalCost gs) (hmax : max < U64) :
    ∃ l, verifyFrom max gs cycles = .error (.exceeded l) := by
  induction gs generalizing cycles with
  | nil => simp [totalCost] at hlt; omega
  | cons g rest ih =>
    unfold verifyFrom
    have hg := hok g (List.mem_cons_self)
    have hrest : AllOk rest := fun x hx => hok x (List.mem_cons_of_mem _ hx)
    simp only [totalCost, List.map_cons, List.sum_cons] at hlt
    by_cases hfit : g.cost ≤ max - cycles
    · have h1 := (runFull_ok_iff g (max - cycles) hg.2 hg.1).1 hfit
      rw [h1]
      have : cyclesAdd cycles g.cost = .ok (cycles + g.cost) := by
        unfold cyclesAdd; have : cycles + g.cost < U64 := by omega
        simp [this]
      simp only [this]
      exact ih (cycles + g.cost) hrest (by omega) (by simp only [totalCost]; omega)
    · have h1 := (runFull_ok_iff g (max - cycles) hg.2 hg.1).2 (by omega)
      rw [h1]
      exact ⟨_, rfl⟩

/-- **verify_budget_lt_fails.** with a budget below the total cost, `verify` never succeeds and
reports the cycle limit -/
theorem verify_budget_lt_fails (gs : List Group) (b : Nat) (hok : AllOk gs)
    (hb : b < totalCost gs) (hmax : b < U64) : ∃ l, verify gs b = .error (.exceeded l) := by
  have := verifyFrom_lt b gs 0 hok (by omega) (by omega) hmax
  simpa [verify] using this

example : verify [⟨[2, 3], 0⟩, ⟨[4], 0⟩] 9 = .ok 9 ∧ verify [⟨[2, 3], 0⟩, ⟨[4], 0⟩] 8 = .error (.exceeded 3) :=
  ⟨rfl, rfl⟩

/-! ### multi-group transactions: chunked = unchunked for EVERY list of per-call limits, and the
budget clauses of `resumable_verify` / `resume_from_state`

`need gs` = the cycles an uninterrupted run needs to reach its verdict (all groups up to and
including the first failing one; `= totalCost gs` when every group succeeds), `verdict gs 0` = that
verdict, `TxInv gs st` = the invariant of every `TransactionState` the API returns, `st.done` = the
cycles executed so far (`Lemmas/Cycles.lean`). No positivity or success assumption on the groups:
the statements cover transactions in which a LATER group fails. The only side conditions are that
the numbers are `u64`s (`… < U64`). -/

/-- the one-shot `verify` with the largest budget there is (`u64::MAX`) -/
def unlimited (gs : List Group) : Except Err Nat := verify gs (U64 - 1)

/-- the unlimited one-shot run computes the verdict -/
theorem unlimited_eq_verdict (gs : List Group) (hcost : need gs < U64) : unlimited gs = verdict gs 0 := by
  unfold unlimited verify
  exact verifyFrom_fits (U64 - 1) gs 0 (by omega) (by unfold U64; omega)

/-- **chunked_eq_unchunked.** For every transaction (any number of groups, any traces, any exit
codes) and EVERY list of per-call limits: `resumable_verify(l)` followed by `resume_from_state` with
the further limits either is still suspended when the limits run out (in a state that satisfies the
invariant, so the run can go on), or has ended with exactly the result of the one-shot `verify` with
unlimited budget — the same total cycles on success, the same `ValidationFailure(code)` of the same
(first failing) group otherwise; in particular never `ExceededMaximumCycles`, `Other` or
`CyclesOverflow`. -/
theorem chunked_eq_unchunked (gs : List Group) (l : Nat) (more : List Nat)
    (hl : ∀ x ∈ l :: more, x < U64) (hcost : need gs < U64) :
    drive gs l more = asResult (unlimited gs) ∨
      ∃ st, drive gs l more = .ok (.suspended st) ∧ TxInv gs st := by
  rw [unlimited_eq_verdict gs hcost]
  rcases drive_sound gs hcost l more hl with h | h
  · exact .inr h
  · exact .inl h

/-- the same, read off the three possible outcomes of the chunked run -/
theorem chunked_outcomes (gs : List Group) (l : Nat) (more : List Nat)
    (hl : ∀ x ∈ l :: more, x < U64) (hcost : need gs < U64) :
    (∀ n, drive gs l more = .ok (.completed n) → unlimited gs = .ok n) ∧
    (∀ e, drive gs l more = .error e → unlimited gs = .error e) ∧
    (∀ st, drive gs l more = .ok (.suspended st) → TxInv gs st) := by
  rcases chunked_eq_unchunked gs l more hl hcost with h | ⟨st, h, hinv⟩
  · rw [h]
    cases hu : unlimited gs with
    | ok m => simp [asResult]
    | error e => simp [asResult]
  · rw [h]
    refine ⟨by simp, by simp, ?_⟩
    intro st' hst'
    cases hst'
    exact hinv

/-- **chunked_run_completes.** The chunked run does end: if every atomic step costs something and
fits into every limit, `need gs` further calls are enough (each call executes at least one step), and
the result is the unlimited one-shot result. -/
theorem chunked_run_completes (gs : List Group) (l : Nat) (more : List Nat)
    (hl : ∀ x ∈ l :: more, x < U64) (hcost : need gs < U64)
    (hpos : ∀ g ∈ gs, ∀ k ∈ g.steps, 0 < k)
    (hbig : ∀ g ∈ gs, ∀ k ∈ g.steps, ∀ x ∈ l :: more, k ≤ x)
    (hlen : need gs ≤ more.length) :
    drive gs l more = asResult (unlimited gs) := by
  rw [unlimited_eq_verdict gs hcost]
  have hl0 := hl l List.mem_cons_self
  have hmore : ∀ x ∈ more, x < U64 := fun x hx => hl x (List.mem_cons_of_mem _ hx)
  unfold drive
  by_cases hfit : need gs ≤ l
  · rw [resumableVerify_fits gs l hl0 hfit]
    cases verdict gs 0 <;> simp [asResult]
  · obtain ⟨st, h1, h2, _⟩ := resumableVerify_short gs l hl0 hcost (by omega)
    rw [h1]
    exact driveFrom_completes gs hcost more hmore hpos
      (fun g hg k hk x hx => hbig g hg k hk x (List.mem_cons_of_mem _ hx)) st h2 (by omega)

-- the hypotheses of `chunked_run_completes` are satisfiable: steps cost 1..2, every limit is 2, need = 5,
-- five further calls
example : drive [⟨[1, 2], 0⟩, ⟨[2], 0⟩] 2 [2, 2, 2, 2, 2] = asResult (unlimited [⟨[1, 2], 0⟩, ⟨[2], 0⟩]) :=
  chunked_run_completes _ 2 [2, 2, 2, 2, 2] (by decide) (by decide) (by decide) (by decide) (by decide)
example : drive [⟨[1, 2], 0⟩, ⟨[2], 0⟩] 2 [2, 2, 2, 2, 2] = .ok (.completed 5) := rfl
-- three groups, limits of all sizes (one of them too small to make progress): same total as one shot
example : drive [⟨[3, 4, 5], 0⟩, ⟨[2, 2], 0⟩, ⟨[6], 0⟩] 4 [5, 1, 9, 3, 100] = .ok (.completed 22) ∧
    unlimited [⟨[3, 4, 5], 0⟩, ⟨[2, 2], 0⟩, ⟨[6], 0⟩] = .ok 22 := ⟨rfl, rfl⟩
-- a later group fails: the same failure whatever the chunking, the group after it is never run
example : drive [⟨[3, 4], 0⟩, ⟨[2], 0⟩, ⟨[5, 1], 7⟩, ⟨[9], 0⟩] 1 [5, 5, 5, 5, 5, 5] = .error (.validation 7) ∧
    drive [⟨[3, 4], 0⟩, ⟨[2], 0⟩, ⟨[5, 1], 7⟩, ⟨[9], 0⟩] 15 [] = .error (.validation 7) ∧
    unlimited [⟨[3, 4], 0⟩, ⟨[2], 0⟩, ⟨[5, 1], 7⟩, ⟨[9], 0⟩] = .error (.validation 7) := ⟨rfl, rfl, rfl⟩
-- limits that run out: still suspended, in group 1 with 2 of its 4 cycles consumed
example : drive [⟨[3, 4, 5], 0⟩, ⟨[2, 2], 0⟩] 7 [7] = .ok (.suspended ⟨1, ⟨2, [2]⟩, 12, 2⟩) := rfl
example : need [⟨[3, 4], 0⟩, ⟨[2], 0⟩, ⟨[5, 1], 7⟩, ⟨[9], 0⟩] = 15 ∧
    totalCost [⟨[3, 4], 0⟩, ⟨[2], 0⟩, ⟨[5, 1], 7⟩, ⟨[9], 0⟩] = 24 := by decide

/-! #### `verify(max_cycles)` for ANY transaction (failing groups included) -/

/-- **verify_budget_ge_eq_unlimited_any.** budget ≥ the cycles needed (up to and including the first
failing group): `verify` returns exactly the unlimited result — the total, or the same failure -/
theorem verify_budget_ge_eq_unlimited_any (gs : List Group) (b : Nat) (hb : b < U64) (hge : need gs ≤ b) :
    verify gs b = unlimited gs := by
  rw [unlimited_eq_verdict gs (by omega)]
  exact verifyFrom_fits b gs 0 (by omega) hb

/-- **verify_budget_lt_fails_any.** budget below the cycles needed: `verify` never succeeds, never
reports the script's own failure either, and reports the cycle limit (payload: what was left of the
budget for the group that did not fit) -/
theorem verify_budget_lt_fails_any (gs : List Group) (b : Nat) (hb : b < U64) (hlt : b < need gs) :
    ∃ l, verify gs b = .error (.exceeded l) ∧ l ≤ b := by
  obtain ⟨l, h1, h2⟩ := verifyFrom_short b gs 0 (by omega) (by omega) hb
  exact ⟨l, h1, by omega⟩

example : verify [⟨[3, 4], 0⟩, ⟨[5, 1], 7⟩, ⟨[9], 0⟩] 13 = .error (.validation 7) ∧
    verify [⟨[3, 4], 0⟩, ⟨[5, 1], 7⟩, ⟨[9], 0⟩] 12 = .error (.exceeded 5) := ⟨rfl, rfl⟩

/-! #### `resumable_verify(limit)` -/

/-- **resumable_verify_budget_ge_eq_unlimited.** a limit of at least the cycles needed: the call
completes in one go with exactly the unlimited result (which is also what `verify` gives with this
budget) -/
theorem resumable_verify_budget_ge_eq_unlimited (gs : List Group) (b : Nat) (hb : b < U64)
    (hge : need gs ≤ b) :
    resumableVerify gs b = asResult (unlimited gs) ∧ resumableVerify gs b = asResult (verify gs b) := by
  have h1 := resumableVerify_fits gs b hb hge
  have h2 : verify gs b = verdict gs 0 := verifyFrom_fits b gs 0 (by omega) hb
  rw [unlimited_eq_verdict gs (by omega), h2]
  exact ⟨h1, h1⟩

/-- **resumable_verify_budget_lt_suspends.** a limit below the cycles needed: the call never
completes (and never fails): it reports the limit by returning `Suspended`, with a state that
satisfies the invariant, after at most `b` cycles, and the recorded `limit_cycles` is within `b`;
the one-shot `verify` with the same budget fails with `ExceededMaximumCycles` -/
theorem resumable_verify_budget_lt_suspends (gs : List Group) (b : Nat) (hb : b < U64)
    (hcost : need gs < U64) (hlt : b < need gs) :
    (∃ st, resumableVerify gs b = .ok (.suspended st) ∧ TxInv gs st ∧ st.done ≤ b ∧ st.limitCycles ≤ b) ∧
    (∃ l, verify gs b = .error (.exceeded l) ∧ l ≤ b) := by
  refine ⟨resumableVerify_short gs b hb hcost hlt, ?_⟩
  obtain ⟨l, h1, h2⟩ := verifyFrom_short b gs 0 (by omega) (by omega) hb
  exact ⟨l, h1, by omega⟩

/-- for a transaction whose groups all succeed `need` is the total cost: below it `resumable_verify`
never returns `Completed` -/
theorem resumable_verify_never_completes_below_cost (gs : List Group) (b : Nat) (hb : b < U64)
    (hok : ∀ g ∈ gs, g.code = 0) (hcost : totalCost gs < U64) (hlt : b < totalCost gs) (n : Nat) :
    resumableVerify gs b ≠ .ok (.completed n) := by
  rw [← need_of_ok gs hok] at hcost hlt
  obtain ⟨⟨st, h, _⟩, _⟩ := resumable_verify_budget_lt_suspends gs b hb hcost hlt
  rw [h]; simp

example : resumableVerify [⟨[2, 3], 0⟩, ⟨[4], 0⟩] 9 = .ok (.completed 9) ∧
    resumableVerify [⟨[2, 3], 0⟩, ⟨[4], 0⟩] 8 = .ok (.suspended ⟨1, ⟨0, [4]⟩, 5, 3⟩) ∧
    resumableVerify [⟨[2, 3], 0⟩, ⟨[4], 5⟩] 9 = .error (.validation 5) := ⟨rfl, rfl, rfl⟩

/-! #### `resume_from_state(state, limit)`

As coded the limit of `resume_from_state` is a limit for THIS CALL: the resumed group gets the whole
`limit_cycles`, whatever was consumed before the suspension. The two clauses therefore hold with
"cost" = what is still needed from the state on (`need gs − st.done`); read as a budget for the whole
transaction the `<` clause fails (`resume_from_state_limit_is_per_call_witness`). -/

/-- **resume_from_state_budget_ge_eq_unlimited.** from any state the API returned: a limit of at
least what is still needed completes with exactly the unlimited one-shot result -/
theorem resume_from_state_budget_ge_eq_unlimited (gs : List Group) (st : TxState) (b : Nat)
    (hinv : TxInv gs st) (hb : b < U64) (hcost : need gs < U64) (hge : need gs ≤ st.done + b) :
    resumeFromState gs st b = asResult (unlimited gs) := by
  rw [unlimited_eq_verdict gs hcost]
  exact resumeFromState_fits gs st b hinv hb hcost hge

/-- **resume_from_state_budget_lt_partial.** from any state the API returned: a limit below what is
still needed never completes and never fails: the call reports the limit by returning `Suspended`
again (invariant kept, at most `b` more cycles executed, recorded `limit_cycles ≤ b`).
Partial: "budget" is the per-call limit against the cycles still needed; for a whole-transaction
budget the clause is false as coded, see `resume_from_state_limit_is_per_call_witness`. -/
theorem resume_from_state_budget_lt_partial (gs : List Group) (st : TxState) (b : Nat)
    (hinv : TxInv gs st) (hb : b < U64) (hcost : need gs < U64) (hlt : st.done + b < need gs) :
    ∃ st', resumeFromState gs st b = .ok (.suspended st') ∧ TxInv gs st' ∧
      st.done ≤ st'.done ∧ st'.done ≤ st.done + b ∧ st'.limitCycles ≤ b := by
  obtain ⟨st', h1, h2, h3, h4, h5, _⟩ := resumeFromState_short gs st b hinv hb hcost hlt
  exact ⟨st', h1, h2, h3, h4, h5⟩

/-- **resume_from_state_limit_is_per_call_witness.** one group of cost 2 suspended after 1 cycle:
`resume_from_state(state, 1)` completes with 2 cycles although 1 is below the transaction's cost —
the limit counts from the resumption, not from the start of the transaction (same arithmetic as F4
in `complete`, but here it is the documented per-call meaning: callers that want a whole-transaction
budget must subtract `current_cycles` and the cycles consumed inside the group themselves). -/
theorem resume_from_state_limit_is_per_call_witness :
    ∃ (gs : List Group) (st : TxState) (b total : Nat),
      AllOk gs ∧ b < totalCost gs ∧
      resumableVerify gs 1 = .ok (.suspended st) ∧ resumeFromState gs st b = .ok (.completed total) ∧
      b < total := by
  refine ⟨[⟨[1, 1], 0⟩], ⟨0, ⟨1, [1]⟩, 0, 1⟩, 1, 2, ?_, by decide, rfl, rfl, by decide⟩
  intro g hg
  simp only [List.mem_singleton] at hg
  subst hg
  exact ⟨rfl, by decide⟩

-- a state returned by `resumable_verify 8`: 4 cycles are still needed
example : resumeFromState [⟨[2, 3], 0⟩, ⟨[4], 0⟩] ⟨1, ⟨0, [4]⟩, 5, 3⟩ 4 = .ok (.completed 9) ∧
    resumeFromState [⟨[2, 3], 0⟩, ⟨[4], 0⟩] ⟨1, ⟨0, [4]⟩, 5, 3⟩ 3 = .ok (.suspended ⟨1, ⟨0, [4]⟩, 5, 3⟩) :=
  ⟨rfl, rfl⟩
example : TxInv [⟨[2, 3], 0⟩, ⟨[4], 0⟩] ⟨1, ⟨0, [4]⟩, 5, 3⟩ :=
  ⟨[⟨[2, 3], 0⟩], ⟨[4], 0⟩, [], rfl, rfl, by simp, rfl, rfl, by simp, by simp⟩

/-! #### the built-in TYPE_ID system script is a one-step group -/

/-- **type_id_group_is_single_step.** `TypeIdSystemScript::verify` as coded (cycle test first, then
the argument checks, constant cost `TYPE_ID_CYCLES` taken from the source by the translator) is
exactly `run` on the group `typeIdGroup code`, and `verify_group_with_chunk`'s treatment of it
(`Completed(c, c)` / `Suspended(None)` / error) is exactly `chunk_run` on that group, whether started
fresh or from the stateless suspension — so every theorem of this file applies to transactions that
contain TYPE_ID groups. -/
theorem type_id_group_is_single_step (m : Nat) (code : Int) :
    runFull (typeIdGroup code) m = typeIdVerify m code ∧
    chunkRun (typeIdGroup code) m none =
      (match typeIdChunk m code with
       | .ok (some (u, c)) => .ok (.completed u c)
       | .ok none => .ok (.suspended ⟨0, (typeIdGroup code).steps⟩)
       | .error e => .error e) ∧
    chunkRun (typeIdGroup code) m (some ⟨0, (typeIdGroup code).steps⟩) = chunkRun (typeIdGroup code) m none := by
  refine ⟨?_, ?_, rfl⟩
  · unfold runFull typeIdGroup typeIdVerify runSteps
    by_cases h : Gen.Cycles.TYPE_ID_CYCLES ≤ m
    · have h' : ¬ m < Gen.Cycles.TYPE_ID_CYCLES := by omega
      simp [h, h', runSteps]
    · have h' : m < Gen.Cycles.TYPE_ID_CYCLES := by omega
      simp [h, h']
  · unfold chunkRun typeIdGroup typeIdChunk typeIdVerify runSteps
    by_cases h : Gen.Cycles.TYPE_ID_CYCLES ≤ m
    · have h' : ¬ m < Gen.Cycles.TYPE_ID_CYCLES := by omega
      by_cases hc : code = 0 <;> simp [h, h', hc, runSteps]
    · have h' : m < Gen.Cycles.TYPE_ID_CYCLES := by omega
      simp [h, h']

example : verify [⟨[537], 0⟩, typeIdGroup 0] 1000537 = .ok 1000537 ∧
    verify [⟨[537], 0⟩, typeIdGroup 0] 1000536 = .error (.exceeded 999999) ∧
    drive [⟨[537], 0⟩, typeIdGroup (-3)] 600 [999999, 1000000] = .error (.validation (-3)) := ⟨rfl, rfl, rfl⟩

/-! #### `complete(state, max_cycles)`: the clause it does satisfy, and how far the other one goes -/

/-- **complete_budget_ge_eq_unlimited.** from any state the API returned, a budget of at least the
cycles the whole transaction needs: `complete` returns exactly the unlimited one-shot result -/
theorem complete_budget_ge_eq_unlimited (gs : List Group) (st : TxState) (b : Nat)
    (hinv : TxInv gs st) (hb : b < U64) (hge : need gs ≤ b) :
    complete gs st b = unlimited gs := by
  rw [unlimited_eq_verdict gs (by omega)]
  obtain ⟨pre, g, post, hgs, hcur, hpre, hcyc, hcost, hne, hsuf⟩ := hinv
  subst hgs
  unfold complete
  rw [hcur, getElem?_at_split]
  simp only
  rw [need_at_state pre g post hpre] at hge
  have hstart : startOf g (some st.state) = st.state := rfl
  rw [verdict_append_ok pre _ 0 hpre]
  unfold verdict
  by_cases hg : g.code = 0
  · simp only [hg, if_true] at hge ⊢
    have hnot : ¬ b < st.currentCycles := by omega
    simp only [hnot, if_false]
    rw [chunkRun_fits g _ (some st.state) (by rw [hstart]; omega)]
    simp only [hg, if_true, hstart]
    rw [hcost, hcyc, cyclesAdd_ok _ _ (by omega), drop_at_split]
    simp only
    rw [completeLoop_fits b post _ (by omega) hb]
    simp
  · simp only [hg, if_false] at hge ⊢
    have hnot : ¬ b < st.currentCycles := by omega
    simp only [hnot, if_false]
    rw [chunkRun_fits g _ (some st.state) (by rw [hstart]; omega)]
    simp [hg]

/-- **complete_budget_lt_partial.** from any state the API returned: a budget that is below the
need by MORE than the cycles already consumed inside the suspended group never succeeds, and the
error is the cycle limit with the whole budget as payload (or `Other("expect invalid cycles")` when
the over-generous resumed group has overdrawn the budget before the next group starts).
Partial: in the window `need − consumed ≤ b < need` the clause is FALSE as coded —
`complete_violates_budget` (F4). -/
theorem complete_budget_lt_partial (gs : List Group) (st : TxState) (b : Nat)
    (hinv : TxInv gs st) (hb : b < U64) (hcost : need gs < U64)
    (hlt : b + st.state.consumed < need gs) :
    complete gs st b = .error (.exceeded b) ∨ complete gs st b = .error .other := by
  obtain ⟨pre, g, post, hgs, hcur, hpre, hcyc, hcostg, hne, hsuf⟩ := hinv
  subst hgs
  unfold complete
  rw [hcur, getElem?_at_split]
  simp only
  rw [need_at_state pre g post hpre] at hlt hcost
  have hstart : startOf g (some st.state) = st.state := rfl
  by_cases hover : b < st.currentCycles
  · simp [hover]
  · simp only [hover, if_false]
    by_cases hfit : st.state.rest.sum ≤ b - st.currentCycles
    · have hg : g.code = 0 := by
        apply Classical.byContradiction
        intro hne
        simp only [hne, if_false] at hlt
        omega
      simp only [hg, if_true] at hlt hcost
      rw [chunkRun_fits g _ (some st.state) (by rw [hstart]; exact hfit)]
      simp only [hg, if_true, hstart]
      rw [hcostg, hcyc, cyclesAdd_ok _ _ (by omega), drop_at_split]
      simp only
      by_cases hin : totalCost pre + g.cost ≤ b
      · left
        exact completeLoop_short b post _ hin (by omega) hb
      · cases post with
        | nil => simp [need] at hlt; omega
        | cons g' post' => right; exact completeLoop_over b g' post' _ (by omega)
    · obtain ⟨s', h1, _⟩ := chunkRun_short g (b - st.currentCycles) (some st.state) (by rw [hstart]; omega)
      rw [h1]
      simp

-- state of `resumable_verify 8` on two groups (cost 9): budget 9 completes, budget 8 is refused
example : complete [⟨[2, 3], 0⟩, ⟨[4], 0⟩] ⟨1, ⟨0, [4]⟩, 5, 3⟩ 9 = .ok 9 ∧
    complete [⟨[2, 3], 0⟩, ⟨[4], 0⟩] ⟨1, ⟨0, [4]⟩, 5, 3⟩ 8 = .error (.exceeded 8) := ⟨rfl, rfl⟩
-- the overdrawn case: group 0 suspended after 3 of its 7 cycles, budget 5: `Other`
example : complete [⟨[3, 4], 0⟩, ⟨[2], 0⟩] ⟨0, ⟨3, [4]⟩, 0, 3⟩ 5 = .error .other := rfl

/-! #### the signal path: any pause/resume schedule, sufficient budget -/

/-- **signal_budget_ge_eq_unlimited.** `resumable_verify_with_signal` with a budget of at least the
cycles needed returns exactly the unlimited one-shot result whatever Suspend/Resume signals arrive
(any pause schedule for every group); with `b = u64::MAX` this is "pausing and resuming never changes
verdict or total". (The `<` clause is false for this path: `signal_violates_budget`, F4b.) -/
theorem signal_budget_ge_eq_unlimited (sched : List (Group × List (Option Nat))) (b : Nat)
    (hb : b < U64) (hge : need (sched.map Prod.fst) ≤ b) :
    signalVerify b sched 0 = unlimited (sched.map Prod.fst) := by
  rw [unlimited_eq_verdict _ (by omega)]
  exact signalVerify_fits b sched 0 (by omega) hb

example : signalVerify 9 [(⟨[2, 3], 0⟩, [some 1, some 2, none]), (⟨[1, 3], 0⟩, [some 0, some 0])] 0 = .ok 9 := rfl

/-! ### the code as written violates the budget clause for `complete` and for the signal path -/

/-- **complete_violates_budget (F4).** one group of cost 2: `resumable_verify(1)` suspends it after
1 cycle; `complete(state, 1)` then succeeds with 2 cycles although the budget 1 is below the cost 2
(the resumed group is given `max_cycles − current_cycles = 1 − 0`, the cycle already consumed inside
it is not subtracted). -/
theorem complete_violates_budget :
    ∃ (gs : List Group) (st : TxState) (b total : Nat),
      AllOk gs ∧ b < totalCost gs ∧
      resumableVerify gs 1 = .ok (.suspended st) ∧ complete gs st b = .ok total ∧ b < total := by
  refine ⟨[⟨[1, 1], 0⟩], ⟨0, ⟨1, [1]⟩, 0, 1⟩, 1, 2, ?_, by decide, rfl, rfl, by decide⟩
  intro g hg
  simp only [List.mem_singleton] at hg
  subst hg
  exact ⟨rfl, by decide⟩

/-- **signal_violates_budget (F4b).** one group of cost 3 under `resumable_verify_with_signal(2)`: a
Suspend after the first cycle and a Resume let it finish with 3 cycles, because every `Resume` runs
the scheduler with the full `max_cycles` again. -/
theorem signal_violates_budget :
    ∃ (g : Group) (b total : Nat), g.code = 0 ∧ b < g.cost ∧
      signalVerify b [(g, [some 1, none])] 0 = .ok total ∧ b < total := by
  exact ⟨⟨[1, 1, 1], 0⟩, 2, 3, rfl, by decide, rfl, by decide⟩

/-- without a pause the same call fails as it must -/
example : signalVerify 2 [(⟨[1, 1, 1], 0⟩, [])] 0 = .error (.exceeded 2) := rfl

/-! ### scheduler layer: what suspend / resume must preserve (partial: hypotheses about the real code) -/

section Sched
open CkbVerif.Sched

variable {σ Susp O : Type}

/-- **suspend_resume_same_trace_partial.** Assumed (about `script/src/scheduler.rs`, observed by the
harness, NOT proved): an observation `R` of the scheduler state — instantiated and suspended VMs with
their memory, `terminated_vms` exit codes, pipes / fds / inherited fds, id counters — (1) determines
the next atomic step (`hd`) and (2) is preserved by `Scheduler::resume ∘ Scheduler::suspend` (`hrt`).
Then a resumed scheduler continues exactly the trace (step costs and exit code) of the suspended
one. This is the assumption "a resumed scheduler continues the same trace" of the accounting model,
reduced to a state-level round-trip property. -/
theorem suspend_resume_same_trace_partial (m : Machine σ Susp) (R : σ → O) (iterO : O → It O)
    (hd : Determines m R iterO) (hrt : ∀ s, R (m.resume (m.suspend s)) = R s) (fuel : Nat) (s : σ) :
    trace m fuel (m.resume (m.suspend s)) = trace m fuel s :=
  trace_congr m R iterO hd fuel _ _ (hrt s)

/-- **state_chunked_eq_trace_chunked_partial.** Under the same two hypotheses, for EVERY list of
per-call limits the resumable API run on real states — each call `Scheduler::run(LimitCycles l)`,
suspension into a `FullSuspendedState`, the next call on the resumed scheduler — consumes the same
cycles and ends with the same exit code as the accounting model's `runSteps` chunks on the bare
trace of the start state (`t`, `code`: the `Group` of `Model/Cycles.lean`). -/
theorem state_chunked_eq_trace_chunked_partial (m : Machine σ Susp) (R : σ → O) (iterO : O → It O)
    (hd : Determines m R iterO) (hrt : ∀ s, R (m.resume (m.suspend s)) = R s) (fuel : Nat) :
    ∀ (ls : List Nat) (s : σ) (t : List Nat) (code : Int) (acc : Nat),
      trace m fuel s = (t, some code) → driveS m fuel ls s acc = driveT code ls t acc := by
  intro ls
  induction ls with
  | nil => intro s t code acc _; rfl
  | cons l ls ih =>
    intro s t code acc h
    obtain ⟨e1, e2⟩ := runIt_eq_runSteps m fuel s t code l h
    unfold driveS driveT
    rcases hr : runIt m fuel s l with ⟨c, stop⟩
    rw [hr] at e1 e2
    simp only at e1 e2
    subst e1
    rcases e2 with ⟨a, b⟩ | ⟨a, s', b, c'⟩
    · subst b
      simp [a]
    · subst b
      have hne : (runSteps t l).2.isEmpty = false := by
        cases hx : (runSteps t l).2 with
        | nil => exact absurd hx a
        | cons _ _ => rfl
      simp only [hne]
      have h' : trace m fuel (m.resume (m.suspend s')) = ((runSteps t l).2, some code) := by
        rw [suspend_resume_same_trace_partial m R iterO hd hrt fuel s']; exact c'
      simpa using ih (m.resume (m.suspend s')) (runSteps t l).2 code (acc + (runSteps t l).1) h'

/-- **state_chunked_total_eq_oneshot_partial.** Under the same two hypotheses: whatever the limits,
a chunked run through suspended states that ends reports the exit code of the uninterrupted run and
exactly its cost (`t.sum` = the total the one-shot run reports). -/
theorem state_chunked_total_eq_oneshot_partial (m : Machine σ Susp) (R : σ → O) (iterO : O → It O)
    (hd : Determines m R iterO) (hrt : ∀ s, R (m.resume (m.suspend s)) = R s) (fuel : Nat)
    (ls : List Nat) (s : σ) (t : List Nat) (code : Int) (acc n : Nat) (c : Int)
    (h : trace m fuel s = (t, some code)) (hrun : driveS m fuel ls s acc = (n, some c)) :
    c = code ∧ n = acc + t.sum := by
  rw [state_chunked_eq_trace_chunked_partial m R iterO hd hrt fuel ls s t code acc h] at hrun
  exact driveT_total code ls t acc n c hrun

/-- a two-VM toy scheduler: state = (steps the parent still has to do, exit code of the child parked
in `terminated_vms`); the parent's last step is `wait`, which exits with the parked code -/
def toy (resume : Nat × Int → Nat × Int) : Machine (Nat × Int) (Nat × Int) where
  iter := fun s => if s.1 = 0 then .exit s.2 else .next 5 (s.1 - 1, s.2)
  suspend := id
  resume := resume

/-- non-vacuity: the faithful toy machine satisfies both hypotheses (the observation is the whole
state), and a run in chunks of 7 cycles ends with the one-shot result: exit code 3, 15 cycles -/
example : Determines (toy id) id (toy id).iter ∧ (∀ s, id ((toy id).resume ((toy id).suspend s)) = id s)
    ∧ trace (toy id) 10 (3, 3) = ([5, 5, 5], some 3)
    ∧ driveS (toy id) 10 [7, 7, 7, 7] (3, 3) 0 = (15, some 3) := by
  refine ⟨?_, fun _ => rfl, by decide, by decide⟩
  intro s
  simp only [toy]
  split <;> simp_all [It.map]

/-- **resume_forgetting_exit_codes_diverges.** The round-trip hypothesis is needed: if `resume` forgets
one observable component — here the exit code of an already terminated child, as if
`terminated_vms` were not restored from the `FullSuspendedState` — the one-shot run ends with the
child's code 0 after 15 cycles, while the same run in chunks of 7 cycles ends with another verdict. -/
theorem resume_forgetting_exit_codes_diverges :
    ∃ (m : Machine (Nat × Int) (Nat × Int)) (s : Nat × Int),
      trace m 10 s = ([5, 5, 5], some 0) ∧ driveS m 10 [100] s 0 = (15, some 0) ∧
      driveS m 10 [7, 7, 7, 7] s 0 = (15, some 5) :=
  ⟨toy (fun s => (s.1, 5)), (3, 0), by decide, by decide, by decide⟩

end Sched

end CkbVerif.C05
