/-
C10 — the freezer pass RACING block import (`Lemmas/FreezeRace.lean`).

`Shared::freeze` reads the threshold and (in `wipe_out_frozen_data`) the NUMBER_HASH rows from the
snapshot taken at its START, the append loop reads the LIVE store, and the chain service may commit
anything legal (new blocks, side blocks, reorganisations at or above the last frozen block) between
any two of those reads and writes.  The theorem below is the invariant for that interleaving.
-/
import CkbVerif.Lemmas.FreezeRace
import CkbVerif.Props.C10Files
namespace CkbVerif.C10
open CkbVerif.Store CkbVerif.Freeze CkbVerif.Freezer CkbVerif.FreezeSys

/-- any interleaving of freezer-thread steps (`Freezer::freeze` with any threshold — in particular
the one computed from the stale snapshot — and any stop-flag prefix, `sync_all`, wipes, crashes) and
legal chain-service steps -/
inductive SysSteps (k : Codec) : Sys → Sys → Prop
  | refl (s : Sys) : SysSteps k s s
  | tail {s t u : Sys} : SysSteps k s t → SysStep k t u → SysSteps k s u

/-- records are insert-only along every interleaving, and the invariant is kept -/
theorem sysSteps_inv_later (k : Codec) (ok : k.Ok) {s t : Sys} {chain : List Block}
    (h : SysInv k s chain) (st : SysSteps k s t) :
    (∃ chain', SysInv k t chain') ∧ Later s.rows t.rows := by
  induction st with
  | refl => exact ⟨⟨chain, h⟩, Later.refl _⟩
  | @tail t u _ step ih =>
    obtain ⟨⟨c1, h1⟩, hl⟩ := ih
    refine ⟨sysStep_inv ok h1 step, ?_⟩
    cases step with
    | file f =>
      obtain ⟨_, _, hv, _⟩ := fileStep_inv ok h1 f
      intro id b hb
      rw [hv]
      exact hl id b hb
    | chain b v' hok =>
      exact later_chainStore hl b v' c1 (hok c1 (top_number h1.files).symm)

/-- **the pass racing block import keeps every query invariant.**  `s0`: the state in which the
pass took its snapshot (`snap = s0.rows`).  Then ANY interleaving of the pass's appends / `sync_all`
with legal chain-service commits leads to the live state `s`; there `wipe_out_frozen_data` runs with
the returned map `ret` (blocks the files hold below the synced mark) — its body batch on the LIVE
rows, its side-block scan on the STALE snapshot rows (`wipeRace`).  Then: the stale scan deletes no
block of the live main chain; the combined invariant holds in the state reached; the chain view is
the live one; and every accessor answers every block of the LIVE main chain (incl. blocks committed
after the snapshot) with the block. -/
theorem freeze_racing_block_import (k : Codec) (ok : k.Ok) (s0 s : Sys) (chain0 : List Block)
    (h0 : SysInv k s0 chain0) (run : SysSteps k s0 s) (ret : List (Nat × Nat × Nat))
    (hret : ∀ e ∈ ret, ∃ fb, 0 < e.2.1 ∧ e.2.1 < s.synced ∧ readFrozen k s.top e.2.1 = .some fb ∧ fb.id = e.1) :
    let t : Sys := { s with rows := wipeRace s0.rows s.rows ret }
    FileSteps k s t ∧ (∃ chain', SysInv k t chain') ∧ t.rows.v = s.rows.v ∧
    ∀ id blk, OnMain s.rows id blk →
      getBlockS k t id = .some blk ∧ getPackedS k t id = .some blk ∧ getPartS k t id = .some blk ∧
      getHeaderS t id = some blk ∧ getAncestorS t blk.number = some blk := by
  intro t
  obtain ⟨⟨chain, h⟩, hl⟩ := sysSteps_inv_later k ok h0 run
  have st : FileSteps k s t := wipeRace_is_fileSteps ok h s0.rows hl ret hret
  obtain ⟨hex, _, hv, hq⟩ := freeze_with_files_crash_safe k ok s t chain h st
  obtain ⟨chain', hi, _⟩ := hex
  refine ⟨st, ⟨chain', hi⟩, hv, fun id blk hm => ?_⟩
  obtain ⟨⟨b, _⟩, ⟨p, _⟩, ⟨q, _⟩, ⟨hh, _⟩, ⟨a, _⟩, _⟩ := hq id blk hm
  exact ⟨b, p, q, hh, a⟩

/-- the stale scan never removes more than a scan of the live rows would at those heights... it can
remove LESS: a side block stored after the snapshot at a height of the returned map is not in the
snapshot's NUMBER_HASH rows and survives the pass (it is then a late side block at a frozen height,
which no later pass looks at).  Witness on the executable model: `s1late` stored after the snapshot
survives `wipeRace` but not `wipeRet` on the live rows. -/
example :
    let live := Witness.afterLate
    let snap : FS := { Witness.afterPass with stored := [0, 1, 11, 2, 3, 4] }
    (wipeRace snap live [(1, 1, 1)]).hdr 12 = true ∧ (wipeRet live [(1, 1, 1)]).hdr 12 = false := by
  decide +kernel

/-- non-vacuity: with no commit in between the racing wipe is the wipe of `pass` -/
example (r : FS) (ret : List (Nat × Nat × Nat)) : wipeRace r r ret = wipeRet r ret := wipeRace_self r ret

end CkbVerif.C10
