import CkbVerif.Props.C02
import CkbVerif.Lemmas.CrashStore

/-!
# C08 (store part) — after a crash at ANY commit the persisted column view is the replay of the persisted main chain

`Model/CrashStore.lean` puts the column view of `Model/Store.lean` (cells, tx-info, number/hash
index, uncle index, epoch-number rows, tip, current epoch; records: block rows, exts, block→epoch,
epoch records) under the commit log of the import pipeline: `ins` (`insert_block`), `del`
(`delete_block`), `ver` (the ONE transaction of `verify_block`). A crash keeps a prefix of the log
(`crashAt`). The harness dumps every column of the killed child's database at every crash index and
the driver answers with `applyLog` along the pipeline model's trace of micro-states (op `dump`).

Proved here (all unbounded):
* `verify_after_insert_eq_process` — the two commits of the code (`ins b`, `ver b`) compose to
  `Store.process`, the one-step function C02's theorems are about (so every C02 theorem about
  `process` is a theorem about the pair of commits);
* `block_commits_keep_view` — `ins` / `del` touch nothing but the block rows: a crash between the
  `insert_block` commit and the verification, or between the deletions of an orphan search, leaves the
  main-chain view (and every ext / epoch record) exactly as it was;
* `reinsert_is_noop` — re-inserting stored rows (start-up scan, tip fence, duplicate) changes nothing;
* `side_verify_keeps_view` — a `ver` commit of a block that is not heavier than the tip;
* `crash_view_eq_replay_every_commit_partial` — for every legal log (`LogOK`) from a store whose
  view is the replay of its main chain, and EVERY crash index `k`, the persisted view is the replay of
  ONE whole chain — the persisted main chain after `k` commits (never a mixture of two chains, never
  a half-attached block). PARTIAL: the legality of a new-best `ver` commit (`CommitOK.best`)
  carries the hypotheses of `C02.process_reorg_eq_replay` (tree well-formedness, records of the
  branch present and consistent) per commit; they are not yet derived from the pipeline invariant of
  `Model/Chain.lean` (missing: `ver b → stored b` and the record-presence invariant over the pipeline).
-/
namespace CkbVerif.C08
open CkbVerif.Store CkbVerif.CrashStore CkbVerif.C02

/-- **The two commits of the code are C02's one step.** `insert_block` (own transaction, chain
service thread) followed by the `verify_block` transaction (verify thread) is `Store.process`. -/
theorem verify_after_insert_eq_process (v : View) (b : Block) :
    applyLog v [.ins b, .ver b] = process v b := rfl

/-- the `verify_block` transaction alone, on a store that already holds the block's rows (a block
re-queued by the start-up scan after a crash between its two commits) -/
theorem verify_of_stored_eq_process (v : View) (b : Block) (h : v.r.bodies b.id = some b) :
    applyCommit v (.ver b) = process v b := by
  show verifyCommit v b = process v b
  have : process v b = verifyCommit ⟨v.m, insertBlock v.r b⟩ b := rfl
  rw [this, insertBlock_same v.r b h]

/-- **`insert_block` / `delete_block` commits touch the block rows only**: the whole main-chain
view and every ext / block→epoch / epoch record are untouched, so a crash right after any of them
(after the insert and before the verification; between two deletions of an orphan search or of an
expiry run) leaves the persisted chain state exactly as before the delivery. -/
theorem block_commits_keep_view (v : View) (c : Commit) (hc : ∀ b, c ≠ .ver b) :
    (applyCommit v c).m = v.m ∧ (applyCommit v c).r.ext = v.r.ext ∧
    (applyCommit v c).r.blockEpoch = v.r.blockEpoch ∧ (applyCommit v c).r.epochExt = v.r.epochExt := by
  cases c with
  | ins b => exact ⟨rfl, rfl, rfl, rfl⟩
  | del id => exact ⟨rfl, rfl, rfl, rfl⟩
  | ver b => exact absurd rfl (hc b)

/-- re-inserting rows that are there is a no-op on the whole store -/
theorem reinsert_is_noop (v : View) (b : Block) (h : v.r.bodies b.id = some b) :
    applyCommit v (.ins b) = v := by
  show (⟨v.m, insertBlock v.r b⟩ : View) = v
  rw [insertBlock_same v.r b h]

/-- a verify transaction of a block that is not heavier than the tip writes records only -/
theorem side_verify_keeps_view (v : View) (b : Block)
    (h : ¬ (freshExt v.r b).td > tdOf v.r (v.m.tip.getD 0)) : (applyCommit v (.ver b)).m = v.m :=
  verifyCommit_side_m v b h

/-- One legal commit on a store whose persisted main chain is `g :: rest`; the last index is the
persisted main chain after it. `best` carries the hypotheses of `C02.process_reorg_eq_replay`
(the block's rows are stored: the `ins` commit came first). -/
inductive CommitOK (body : Nat → Block) (ver : Nat → Bool) (g : Block) :
    List Block → View → Commit → List Block → Prop
  | ins (rest : List Block) (v : View) (b : Block) : CommitOK body ver g rest v (.ins b) rest
  | del (rest : List Block) (v : View) (id : Nat) : CommitOK body ver g rest v (.del id) rest
  | side (rest : List Block) (v : View) (b : Block)
      (h : ¬ (freshExt v.r b).td > tdOf v.r (v.m.tip.getD 0)) : CommitOK body ver g rest v (.ver b) rest
  | best (rest rest' : List Block) (v : View) (b : Block)
      (hstored : v.r.bodies b.id = some b)
      (htree : TreeWF body g rest b)
      (hwf : WellFormed g rest)
      (hext : RecsLe (replay (g :: rest)).r v.r)
      (hanc : ∀ k, 1 ≤ k → k ≤ b.number →
        v.r.bodies (Fork.anc (forkStore body (g :: rest) ver) b.id k) =
          some (body (Fork.anc (forkStore body (g :: rest) ver) b.id k)))
      (hbest : (freshExt (insertBlock v.r b) b).td > tdOf (insertBlock v.r b) ((replay (g :: rest)).m.tip.getD 0))
      (hnew : RecsLe v.r (recsBest v.r b))
      (hatt : ∀ k, k ≤ b.number →
        let a := body (Fork.anc (forkStore body (g :: rest) ver) b.id k)
        epochOf (recsBest v.r b) a.id = some a.epochRec ∧ (a.isHead = true ↔ a.epochRec.start = a.number))
      (hcur : b.isHead = true ∨
        (Fork.findFork (forkStore body (g :: rest) ver) rest.length b.id).detached ≠ [] ∨
        (Fork.findFork (forkStore body (g :: rest) ver) rest.length b.id).attached.length > 1 ∨
        (replay (g :: rest)).m.curEpoch = some b.epochRec)
      (hpath : pathTo (forkStore body (g :: rest) ver) body b.id = g :: rest') :
      CommitOK body ver g rest v (.ver b) rest'

/-- a legal commit log, with the persisted main chain before and after -/
inductive LogOK (body : Nat → Block) (ver : Nat → Bool) (g : Block) :
    List Block → View → List Commit → List Block → Prop
  | nil (rest : List Block) (v : View) : LogOK body ver g rest v [] rest
  | cons {rest rest1 rest2 : List Block} {v : View} {c : Commit} {cs : List Commit} :
      CommitOK body ver g rest v c rest1 → LogOK body ver g rest1 (applyCommit v c) cs rest2 →
      LogOK body ver g rest v (c :: cs) rest2

/-- one legal commit maps "view = replay of the main chain" to "view = replay of the new main chain" -/
theorem commit_keeps_view_eq_replay {body : Nat → Block} {ver : Nat → Bool} {g : Block}
    {rest rest' : List Block} {v : View} {c : Commit}
    (h : CommitOK body ver g rest v c rest') (hv : v.m = (replay (g :: rest)).m) :
    (applyCommit v c).m = (replay (g :: rest')).m := by
  match h with
  | .ins _ _ _ => exact hv
  | .del _ _ _ => exact hv
  | .side _ _ b hs => rw [side_verify_keeps_view v b hs]; exact hv
  | .best _ _ _ b hstored htree hwf hext hanc hbest hnew hatt hcur hpath =>
    rw [verify_of_stored_eq_process v b hstored]
    have hvv : v = ⟨(replay (g :: rest)).m, v.r⟩ := by
      cases v with
      | mk m r => simp only at hv; subst hv; rfl
    rw [hvv, ← hpath]
    exact process_reorg_eq_replay body g rest b v.r ver htree hwf hext hanc hbest hnew hatt hcur

/-- every prefix of a legal log is a legal log (to some intermediate main chain) -/
theorem LogOK.take {body : Nat → Block} {ver : Nat → Bool} {g : Block} {rest rest' : List Block}
    {v : View} {log : List Commit} (h : LogOK body ver g rest v log rest') (k : Nat) :
    ∃ restk, LogOK body ver g rest v (log.take k) restk := by
  induction h generalizing k with
  | nil rest v => exact ⟨rest, by simpa using LogOK.nil rest v⟩
  | cons hc _ ih =>
    cases k with
    | zero => exact ⟨_, LogOK.nil _ _⟩
    | succ k =>
      obtain ⟨rk, hk⟩ := ih k
      exact ⟨rk, by simpa using LogOK.cons hc hk⟩

theorem view_eq_replay_after_log {body : Nat → Block} {ver : Nat → Bool} {g : Block}
    {rest rest' : List Block} {v : View} {log : List Commit}
    (h : LogOK body ver g rest v log rest') (hv : v.m = (replay (g :: rest)).m) :
    (applyLog v log).m = (replay (g :: rest')).m := by
  induction h with
  | nil => exact hv
  | cons hc _ ih => exact ih (commit_keeps_view_eq_replay hc hv)

/-- **After a crash at ANY commit the persisted view is the replay of the persisted main chain.**
For every legal commit log from a store whose view is the replay of its main chain `g :: rest`, and
every crash index `k` (the process dies after `k` commits: `k` beyond the log = no crash), there is
ONE chain `g :: restk` — the persisted main chain at that point, reached by the legal prefix — such
that every main-chain column of the database the dead process leaves behind (cells with data and data
hashes, tx-info, number↔hash index, uncle index, epoch-number rows, tip, current epoch) equals the
replay of exactly that chain: never a mixture of two chains, never a half-attached or half-detached
block, never a tip without its cells. PARTIAL: see the file header (`CommitOK.best` carries C02's
per-step hypotheses). -/
theorem crash_view_eq_replay_every_commit_partial {body : Nat → Block} {ver : Nat → Bool} {g : Block}
    {rest rest' : List Block} {v : View} {log : List Commit}
    (h : LogOK body ver g rest v log rest') (hv : v.m = (replay (g :: rest)).m) (k : Nat) :
    ∃ restk, LogOK body ver g rest v (log.take k) restk ∧
      (crashAt v log k).m = (replay (g :: restk)).m := by
  obtain ⟨rk, hk⟩ := h.take k
  exact ⟨rk, hk, view_eq_replay_after_log hk hv⟩

/-- the restarted process continues from the crashed database: a legal log, a crash, and a legal
log from the persisted state compose (repeated crashes: by induction on the number of crashes) -/
theorem crash_then_continue_view_eq_replay {body : Nat → Block} {ver : Nat → Bool} {g : Block}
    {rest restk rest2 : List Block} {v : View} {log log2 : List Commit} (k : Nat)
    (h1 : LogOK body ver g rest v (log.take k) restk)
    (h2 : LogOK body ver g restk (crashAt v log k) log2 rest2)
    (hv : v.m = (replay (g :: rest)).m) :
    (applyLog (crashAt v log k) log2).m = (replay (g :: rest2)).m :=
  view_eq_replay_after_log h2 (view_eq_replay_after_log h1 hv)

/-! ## Non-vacuity (C02's example tree: genesis, block 1 with transactions 5 and 6, its sibling
block 2 with transaction 5, block 3 on block 2) -/

open C02.Example in
/-- the log of: block 1 imported; block 2 inserted and verified as a side block; block 3 inserted,
verified (reorganisation 1 → 2,3), block 1 deleted afterwards (as an expiry / invalid mark would) -/
def exLog : List Commit := [.ins b1, .ver b1, .ins b2, .ver b2, .ins b3, .ver b3, .del 1]

open C02.Example in
/-- at every crash index the persisted tip, index, cells of the contested transactions and the
current epoch are those of the replay of ONE chain: `g` (k ≤ 1), `g, b1` (2 ≤ k ≤ 5), `g, b2, b3` (k ≥ 6) -/
example :
    (∀ k ∈ [0, 1], (crashAt (init g) exLog k).m.tip = some 0 ∧ (crashAt (init g) exLog k).m.index 1 = none ∧
        (crashAt (init g) exLog k).m.cells ⟨0, 0⟩ = (replay [g]).m.cells ⟨0, 0⟩) ∧
    (∀ k ∈ [2, 3, 4, 5], (crashAt (init g) exLog k).m.tip = some 1 ∧ (crashAt (init g) exLog k).m.index 1 = some 1 ∧
        (crashAt (init g) exLog k).m.index 2 = none ∧
        (crashAt (init g) exLog k).m.cells ⟨6, 0⟩ = (replay [g, b1]).m.cells ⟨6, 0⟩ ∧
        (crashAt (init g) exLog k).m.cells ⟨5, 1⟩ = none ∧
        (crashAt (init g) exLog k).m.txInfo 6 = (replay [g, b1]).m.txInfo 6) ∧
    (∀ k ∈ [6, 7, 8], (crashAt (init g) exLog k).m.tip = some 3 ∧ (crashAt (init g) exLog k).m.index 1 = some 2 ∧
        (crashAt (init g) exLog k).m.index 2 = some 3 ∧ (crashAt (init g) exLog k).m.rindex 1 = none ∧
        (crashAt (init g) exLog k).m.cells ⟨6, 0⟩ = none ∧ (crashAt (init g) exLog k).m.txInfo 6 = none ∧
        (crashAt (init g) exLog k).m.cells ⟨5, 1⟩ = (replay [g, b2, b3]).m.cells ⟨5, 1⟩ ∧
        (crashAt (init g) exLog k).m.curEpoch = (replay [g, b2, b3]).m.curEpoch) ∧
    -- the block rows: block 3's rows are there from commit 5 on, block 1's are gone after commit 7
    ((crashAt (init g) exLog 4).r.bodies 3 = none ∧ (crashAt (init g) exLog 5).r.bodies 3 = some b3 ∧
      (crashAt (init g) exLog 6).r.bodies 1 = some b1 ∧ (crashAt (init g) exLog 7).r.bodies 1 = none) := by
  decide

open C02.Example in
/-- `LogOK` is satisfiable with every kind of step that needs no tree hypothesis: insert, side
verification (block 2 is not heavier than the tip block 1), delete -/
example (body : Nat → Block) (ver : Nat → Bool) :
    LogOK body ver g [b1] (replay [g, b1]) [.ins b2, .ver b2, .del 2] [b1] :=
  .cons (.ins _ _ _) (.cons (.side _ _ _ (by decide)) (.cons (.del _ _ _) (.nil _ _)))

end CkbVerif.C08
