/-
C02, part 3 — the chain-root MMR column (COLUMN_CHAIN_ROOT_MMR) is, below the tip's
`leaf_index_to_mmr_size`, the replay of the main chain — every node, inner nodes included.

`Model/StoreMMR.lean` puts the MMR writes of `reconcile_main_chain` (object re-created at the fork
point's size over the uncleaned column, one push per attached block, commit) and the absence of any
MMR write in `rollback` / `truncate` into the chain-service step; the positional MMR is
`Model/MMR.lean` (C19's model of the crate).  `MMR.ColOk merge st L` (Lemmas/StoreMMR.lean): the
column `st` holds every node of the MMR of the leaf list `L` below `leaf_index_to_mmr_size(|L| - 1)`.
The theorems are for every `merge`, every leaf type and every initial column content; the last
section instantiates them with the model's digests (lists of block ids).
-/
import CkbVerif.Lemmas.StoreMMR
import CkbVerif.Model.StoreMMR
namespace CkbVerif.C02
open CkbVerif.Store CkbVerif.MMR

variable {α : Type}

/-- **The invariant is established by a replay from nothing**, over any initial column content:
pushing the main chain's digests onto the empty MMR never fails and leaves the column holding the
MMR of that chain, with `mmr_size = leaf_index_to_mmr_size(|L| - 1)`. -/
theorem mmr_replay_holds_chain (merge : α → α → α) (s0 : MMR.Store α) (L : List α) (hne : L ≠ []) :
    ∃ m, pushAll merge ⟨0, s0⟩ L = some m ∧ ColOk merge m.store L ∧
      m.size = leafIndexToMmrSize (L.length - 1) :=
  ColOk_fresh merge s0 L hne

/-- **It determines the column below the size**: two columns holding the MMR of the same chain
agree on every position below `leaf_index_to_mmr_size(|L| - 1)`; hence a column satisfying the
invariant IS, there, the column a replay of the main chain from nothing writes. -/
theorem mmr_column_is_replay_below_size (merge : α → α → α) (st s0 : MMR.Store α) (L : List α) (hne : L ≠ [])
    (h : ColOk merge st L) :
    ∃ m, pushAll merge ⟨0, s0⟩ L = some m ∧
      ∀ q, q < leafIndexToMmrSize (L.length - 1) → st q = m.store q := by
  obtain ⟨m, hm, hc, -⟩ := ColOk_fresh merge s0 L hne
  exact ⟨m, hm, ColOk_unique merge hne h hc⟩

/-- **Reorganisation of any depth** (old main chain `pre ++ det`, new main chain `pre ++ att`, `pre`
non-empty: it contains genesis): `reconcile_main_chain`'s pushes at the fork point's size over the
uncleaned column all succeed (`InconsistentStore` cannot happen), the new column holds the MMR of the
new main chain and equals, below the new size, the column of a replay of the new main chain from
nothing; positions below the fork point's size are not written. -/
theorem mmr_reorg_eq_replay (merge : α → α → α) (st s0 : MMR.Store α) (pre det att : List α) (hne : pre ≠ [])
    (h : ColOk merge st (pre ++ det)) :
    ∃ m', pushAll merge ⟨leafIndexToMmrSize (pre.length - 1), st⟩ att = some m' ∧
      ColOk merge m'.store (pre ++ att) ∧
      m'.size = leafIndexToMmrSize ((pre ++ att).length - 1) ∧
      (∀ q, q < leafIndexToMmrSize (pre.length - 1) → m'.store q = st q) ∧
      ∃ m, pushAll merge ⟨0, s0⟩ (pre ++ att) = some m ∧
        ∀ q, q < leafIndexToMmrSize ((pre ++ att).length - 1) → m'.store q = m.store q := by
  obtain ⟨m', hm', hc, hsz, hlow⟩ := ColOk_reorg merge pre det att hne h
  have hne' : pre ++ att ≠ [] := by simp [hne]
  obtain ⟨m, hm, hu⟩ := mmr_column_is_replay_below_size merge m'.store s0 (pre ++ att) hne' hc
  exact ⟨m', hm', hc, hsz, hlow, m, hm, hu⟩

/-- **Truncation** writes nothing to the column, and the untouched column holds the MMR of the
truncated chain: below `leaf_index_to_mmr_size(|pre| - 1)` it is the replay of `pre` (the rows above
are stale and, by `mmr_reorg_eq_replay`, never read). -/
theorem mmr_truncate_eq_replay (merge : α → α → α) (st s0 : MMR.Store α) (pre det : List α) (hne : pre ≠ [])
    (h : ColOk merge st (pre ++ det)) :
    ColOk merge st pre ∧
    ∃ m, pushAll merge ⟨0, s0⟩ pre = some m ∧
      ∀ q, q < leafIndexToMmrSize (pre.length - 1) → st q = m.store q := by
  have hp := ColOk_prefix merge pre det hne h
  exact ⟨hp, mmr_column_is_replay_below_size merge st s0 pre hne hp⟩

/-! ### the same on the store model's blocks -/

/-- the digests of a chain of blocks -/
def leaves (bs : List Block) : List Digest := bs.map leafOf

/-- `ChainDB::init` establishes the invariant for the chain `[g]` -/
theorem mmr_init_holds_genesis (g : Block) : ColOk dmerge (initX g).mmr (leaves [g]) := by
  obtain ⟨m, hm, hc, -⟩ := ColOk_fresh dmerge MMR.Store.empty (leaves [g]) (by simp [leaves])
  have : (initX g).mmr = m.store := by
    simp only [initX]
    have hm' : pushAll dmerge ⟨0, MMR.Store.empty⟩ [leafOf g] = some m := hm
    rw [hm']
  rw [this]
  exact hc

/-- **`reconcile_main_chain`'s MMR writes on blocks**: the column holds the old main chain
`g :: pre ++ det`, the first attached block has the number `|g :: pre|` (it is the child of the last
common block): `mmrAttach` succeeds and the column then holds the new main chain `g :: pre ++ att`
— below the new tip's `mmr_size` it is the replay of the new main chain. -/
theorem mmr_attach_eq_replay (st : MMR.Store Digest) (g : Block) (pre det att : List Block) (a : Block) (as : List Block)
    (hatt : att = a :: as) (hnum : a.number = (g :: pre).length)
    (h : ColOk dmerge st (leaves (g :: (pre ++ det)))) :
    ∃ st', mmrAttach st att = some st' ∧ ColOk dmerge st' (leaves (g :: (pre ++ att))) ∧
      ∃ m, pushAll dmerge ⟨0, MMR.Store.empty⟩ (leaves (g :: (pre ++ att))) = some m ∧
        ∀ q, q < leafIndexToMmrSize ((g :: (pre ++ att)).length - 1) → st' q = m.store q := by
  have hsplit : ∀ xs : List Block, leaves (g :: (pre ++ xs)) = leaves (g :: pre) ++ leaves xs := by
    intro xs; simp [leaves]
  rw [hsplit] at h
  obtain ⟨m', hm', hc, -, -, m, hm, hu⟩ :=
    mmr_reorg_eq_replay dmerge st MMR.Store.empty (leaves (g :: pre)) (leaves det) (leaves att) (by simp [leaves]) h
  have hlen : (leaves (g :: pre)).length = a.number := by simp [leaves, hnum]
  refine ⟨m'.store, ?_, ?_, m, ?_, ?_⟩
  · subst hatt
    simp only [mmrAttach]
    rw [hlen] at hm'
    have : List.map leafOf (a :: as) = leaves (a :: as) := rfl
    rw [this, hm']
  · rw [hsplit]; exact hc
  · rw [hsplit]; exact hm
  · intro q hq
    apply hu
    have : (leaves (g :: pre) ++ leaves att).length = (g :: (pre ++ att)).length := by simp [leaves]
    rw [this]; exact hq

/-! ### witnesses -/

namespace MmrExample
def blk (id parent number : Nat) : Block :=
  { id := id, parent := parent, number := number, epoch := ⟨0, number, 100⟩, txs := [], uncles := [],
    isHead := false, epochRec := ⟨0, 0, 100, 99⟩ }
def g : Block := { blk 0 0 0 with isHead := true }
/-- main chain 0-1-2-3-4, fork 0-1-5-6-7-8 -/
def main : List Block := [blk 1 0 1, blk 2 1 2, blk 3 2 3, blk 4 3 4]
def fork : List Block := [blk 5 1 2, blk 6 5 3, blk 7 6 4, blk 8 7 5]
def colMain : MMR.Store Digest := ((mmrAttach (initX g).mmr main).getD MMR.Store.empty)
def colFork : MMR.Store Digest := ((mmrAttach colMain fork).getD MMR.Store.empty)
def colReplay : MMR.Store Digest := ((mmrAttach (initX g).mmr (blk 1 0 1 :: fork)).getD MMR.Store.empty)
end MmrExample

open MmrExample in
/-- non-vacuity and the stale rows: after the reorganisation from `0-1-2-3-4` (8 nodes) to
`0-1-5-6-7-8` (10 nodes) every position below 10 is the replay's — e.g. position 6 covers blocks
`0,1,5,6`, position 9 blocks `7,8` — and a later truncation back to block 5 (size 4) leaves the rows at
and above 4 as stale nodes that the next reorganisation overwrites without reading -/
theorem mmr_reorg_example :
    leafIndexToMmrSize 4 = 8 ∧ leafIndexToMmrSize 5 = 10 ∧
    colMain 6 = some [0, 1, 2, 3] ∧ colMain 7 = some [4] ∧
    (List.range 10).all (fun q => colFork q == colReplay q) = true ∧
    colFork 6 = some [0, 1, 5, 6] ∧ colFork 9 = some [7, 8] ∧ colFork 2 = some [0, 1] ∧
    (mmrAttach colFork [blk 9 5 3]).map (fun st => (st 4, st 6, st 7)) =
      some (some [9], some [0, 1, 5, 9], some [7]) := by
  decide

end CkbVerif.C02
