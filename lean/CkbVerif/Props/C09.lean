import CkbVerif.Lemmas.Freezer
import CkbVerif.Lemmas.FreezerTop
import CkbVerif.Lemmas.FreezerOpen
import CkbVerif.Lemmas.FreezerLru

/-!
# C09 — the freezer never loses or corrupts a frozen item, whatever crash interrupts it

Model: `CkbVerif/Model/Freezer.lean` (the executable definitions the `ckbmodel C09` driver runs and
the harness compares with the real `FreezerFiles`).  `Good d items` says the disk `d` holds exactly
`items` (index clean, every item's bytes where its index entry says, head file ends at the last
offset); `HandleOk h d` says the in-memory handle agrees with the disk.

The theorems are about the *repaired* repair loop (`openWith true`, the code after the `fix:`
commit); `open_unfixed_loses_items` keeps the witness for the loop as it was.

Second half of the file: the layer above, `Freezer` (freezer.rs; model `Model/FreezerTop.lean`, run
by `ckbmodel C09 top` against the real `ckb_freezer::Freezer`): `freezer_holds_chain_prefix`,
`freeze_only_appends_contiguously`, `freeze_after_crash_continues`, `truncate_then_freeze`; and the
statement that the read-handle LRU cannot change an answer (`lru_cannot_change_answers`).
-/
namespace CkbVerif.C09
open CkbVerif.Freezer

/-! ## single operations -/

/-- Opening a fresh directory gives an empty, usable freezer. -/
theorem open_empty : ∃ h d, «open» emptyDisk = some (h, d) ∧ Good d [] ∧ HandleOk h d := by
  refine ⟨_, _, rfl, ⟨rfl, ?_, ?_⟩, rfl, ?_⟩
  · simp [RChain]
  · intro e rest hr; simp at hr; obtain ⟨rfl, _⟩ := hr; rfl
  · intro e rest hr; simp at hr; obtain ⟨rfl, _⟩ := hr; exact ⟨rfl, rfl⟩

/-- Re-opening a consistent disk succeeds and changes nothing. -/
theorem reopen_good {d : Disk} {items : List Bytes} (g : Good d items) :
    ∃ h d2, «open» d = some (h, d2) ∧ Good d2 items ∧ HandleOk h d2 := by
  obtain ⟨h, ho, hh⟩ := open_good_aux (fixed := true) g
  exact ⟨h, _, ho, g.set_tail, hh⟩

/-- Appending keeps the disk consistent, with the new item last (same file or rollover). -/
theorem append_good (max : Nat) {h : Handle} {d : Disk} {items : List Bytes} (x : Bytes)
    (g : Good d items) (hk : HandleOk h d) :
    Good (append max h d x).2 (items ++ [x]) ∧ HandleOk (append max h d x).1 (append max h d x).2 :=
  append_good_aux x g hk

/-- Every stored item is returned byte-for-byte … -/
theorem retrieve_stored {h : Handle} {d : Disk} {items : List Bytes}
    (g : Good d items) (hk : HandleOk h d) (i : Nat) (it : Bytes) (hi : 1 ≤ i)
    (hit : items[i - 1]? = some it) : retrieve h d i = .some it :=
  retrieve_good_aux g hk i it hi hit

/-- … and nothing else is (item 0 and items beyond the end read `None`, never an error). -/
theorem retrieve_absent {h : Handle} {d : Disk} {items : List Bytes}
    (g : Good d items) (hk : HandleOk h d) (i : Nat) (hi : i = 0 ∨ items.length < i) :
    retrieve h d i = .none :=
  retrieve_none_aux g hk i hi

/-- `truncate k` keeps exactly the first `k` items (and is a no-op outside `1 ≤ k < count`). -/
theorem truncate_good {h : Handle} {d : Disk} {items : List Bytes}
    (g : Good d items) (hk : HandleOk h d) (k : Nat) :
    (1 ≤ k ∧ k < items.length →
      Good (truncate h d k).2 (items.take k) ∧ HandleOk (truncate h d k).1 (truncate h d k).2) ∧
    (¬ (1 ≤ k ∧ k < items.length) → truncate h d k = (h, d)) := by
  constructor
  · intro ⟨h1, h2⟩; exact truncate_good_aux g hk k h1 h2
  · intro hn
    apply truncate_noop_aux
    have := g.idx_length
    rw [hk.1]; omega

/-- A crash cut of an append is admissible when the index is not shorter than before the append
    and, if the item went into the existing head file, the earlier items' bytes are still there;
    a missing data file is possible only for a freshly rolled head. -/
def CutOk (max : Nat) (h : Handle) (d : Disk) (x : Bytes) (il : Nat) (fl : Option Nat) : Prop :=
  d.idxSize ≤ il ∧
  (∀ m, fl = some m → ¬ (h.headBytes + x.length > max) → h.headBytes ≤ m) ∧
  (fl = none → h.headBytes + x.length > max)

instance (max h d x il fl) : Decidable (CutOk max h d x il fl) := by
  unfold CutOk
  cases fl with
  | none => simp only [reduceCtorEq, false_implies, implies_true, true_and, forall_const]; infer_instance
  | some m =>
    simp only [Option.some.injEq, forall_eq', reduceCtorEq, false_implies, and_true]
    infer_instance

/-- **Crash safety of one append** (every cut, including right at a rollover): re-opening succeeds
    and yields `items` or `items ++ [x]`, the latter whenever index entry and data are complete. -/
theorem crash_cut_open (max : Nat) {h : Handle} {d : Disk} {items : List Bytes} (x : Bytes)
    (g : Good d items) (hk : HandleOk h d) (il : Nat) (fl : Option Nat) (hc : CutOk max h d x il fl) :
    ∃ h2 d2, «open» (applyCut (append max h d x).2 il (append max h d x).1.headId fl) = some (h2, d2) ∧
      HandleOk h2 d2 ∧ (Good d2 items ∨ Good d2 (items ++ [x])) ∧
      ((append max h d x).2.idxSize ≤ il → (∃ m, fl = some m ∧ (append max h d x).1.headBytes ≤ m) →
        Good d2 (items ++ [x])) :=
  crash_cut_open_aux x g hk il fl hc.1 hc.2.1 hc.2.2

/-- which items survive a cut completely: index entry inside the first `il` bytes and data either in
    an older (intact) file or inside the first `cutLen fl` bytes of the head file -/
def Survives (h : Handle) (d : Disk) (il : Nat) (fl : Option Nat) (i : Nat) : Prop :=
  ∃ e, d.idx[i + 1]? = some e ∧ INDEX_ENTRY_SIZE * (i + 2) ≤ il ∧ (e.fid < h.headId ∨ e.off ≤ cutLen fl)

/-- **Crash safety for any cut** (this is the property's quantifier: index file and head data file
    independently at *any* byte lengths — e.g. anywhere between the last sync and the final sizes
    of a whole batch of appends — older data files intact): re-opening succeeds and yields a
    prefix of the items that contains every item that survived completely. -/
theorem crash_any_cut {h : Handle} {d : Disk} {items : List Bytes}
    (g : Good d items) (hk : HandleOk h d) (il : Nat) (fl : Option Nat) (hil : INDEX_ENTRY_SIZE ≤ il) :
    ∃ h2 d2 n, «open» (applyCut d il h.headId fl) = some (h2, d2) ∧ HandleOk h2 d2 ∧
      n ≤ items.length ∧ Good d2 (items.take n) ∧
      (∀ i, i < items.length → Survives h d il fl i → i < n) := by
  obtain ⟨h2, d2, n, ho, hh, hn, hg, hs⟩ := crash_any_cut_aux g hk il fl hil
  exact ⟨h2, d2, n, ho, hh, hn, hg, fun i hi ⟨e, he1, he2, he3⟩ => hs i e hi he1 he2 he3⟩

/-! ## every history -/

inductive Op where
  | append (x : Bytes)
  | truncate (k : Nat)
  | reopen
  /-- an append cut short by a crash (index left at `il` bytes, data file at `fl`), then re-open -/
  | crashAppend (x : Bytes) (il : Nat) (fl : Option Nat)
  /-- a crash that leaves the index at `il` bytes and the head data file at `fl`, then re-open -/
  | crash (il : Nat) (fl : Option Nat)

structure Sys where
  h : Handle
  d : Disk

/-- one step of the system; `none` = a re-open failed -/
def step (max : Nat) (s : Sys) : Op → Option Sys
  | .append x => some ⟨(append max s.h s.d x).1, (append max s.h s.d x).2⟩
  | .truncate k => some ⟨(truncate s.h s.d k).1, (truncate s.h s.d k).2⟩
  | .reopen => («open» s.d).map fun r => ⟨r.1, r.2⟩
  | .crashAppend x il fl =>
    if CutOk max s.h s.d x il fl then
      («open» (applyCut (append max s.h s.d x).2 il (append max s.h s.d x).1.headId fl)).map
        fun r => ⟨r.1, r.2⟩
    else some s
  | .crash il fl =>
    if INDEX_ENTRY_SIZE ≤ il then
      («open» (applyCut s.d il s.h.headId fl)).map fun r => ⟨r.1, r.2⟩
    else some s

def run (max : Nat) : Sys → List Op → Option Sys
  | s, [] => some s
  | s, op :: ops => (step max s op).bind fun s' => run max s' ops

/-- what the item list may be after a step (the specification: a plain list) -/
def SpecStep (max : Nat) (s : Sys) (items : List Bytes) : Op → List Bytes → Prop
  | .append x, items' => items' = items ++ [x]
  | .truncate k, items' => items' = if 1 ≤ k ∧ k < items.length then items.take k else items
  | .reopen, items' => items' = items
  | .crashAppend x il fl, items' =>
    if CutOk max s.h s.d x il fl then
      (items' = items ∨ items' = items ++ [x]) ∧
      ((append max s.h s.d x).2.idxSize ≤ il →
        (∃ m, fl = some m ∧ (append max s.h s.d x).1.headBytes ≤ m) → items' = items ++ [x])
    else items' = items
  | .crash il fl, items' =>
    if INDEX_ENTRY_SIZE ≤ il then
      ∃ n, n ≤ items.length ∧ items' = items.take n ∧
        (∀ i, i < items.length → Survives s.h s.d il fl i → i < n)
    else items' = items

def Inv (s : Sys) (items : List Bytes) : Prop := Good s.d items ∧ HandleOk s.h s.d

theorem step_inv (max : Nat) (s : Sys) (items : List Bytes) (op : Op) (hi : Inv s items) :
    ∃ s' items', step max s op = some s' ∧ SpecStep max s items op items' ∧ Inv s' items' := by
  cases op with
  | append x => exact ⟨_, _, rfl, rfl, append_good max x hi.1 hi.2⟩
  | truncate k =>
    by_cases hk : 1 ≤ k ∧ k < items.length
    · exact ⟨_, _, rfl, by simp [SpecStep, hk], (truncate_good hi.1 hi.2 k).1 hk⟩
    · refine ⟨_, items, rfl, by simp [SpecStep, hk], ?_⟩
      rw [(truncate_good hi.1 hi.2 k).2 hk]; exact hi
  | reopen =>
    obtain ⟨h, d2, ho, hg, hh⟩ := reopen_good hi.1
    exact ⟨⟨h, d2⟩, items, by simp [step, ho], rfl, hg, hh⟩
  | crashAppend x il fl =>
    by_cases hc : CutOk max s.h s.d x il fl
    · obtain ⟨h2, d2, ho, hh, hg, hfull⟩ := crash_cut_open max x hi.1 hi.2 il fl hc
      by_cases hw : (append max s.h s.d x).2.idxSize ≤ il ∧
          (∃ m, fl = some m ∧ (append max s.h s.d x).1.headBytes ≤ m)
      · exact ⟨⟨h2, d2⟩, items ++ [x], by simp [step, hc, ho],
          by show (if CutOk max s.h s.d x il fl then _ else _); rw [if_pos hc]; exact ⟨Or.inr rfl, fun _ _ => rfl⟩,
          hfull hw.1 hw.2, hh⟩
      · rcases hg with hg | hg
        · exact ⟨⟨h2, d2⟩, items, by simp [step, hc, ho],
            by show (if CutOk max s.h s.d x il fl then _ else _); rw [if_pos hc]; exact ⟨Or.inl rfl, fun a b => absurd ⟨a, b⟩ hw⟩,
            hg, hh⟩
        · exact ⟨⟨h2, d2⟩, items ++ [x], by simp [step, hc, ho],
            by show (if CutOk max s.h s.d x il fl then _ else _); rw [if_pos hc]; exact ⟨Or.inr rfl, fun _ _ => rfl⟩, hg, hh⟩
    · exact ⟨s, items, by simp [step, hc], by simp [SpecStep, hc], hi⟩
  | crash il fl =>
    by_cases hc : INDEX_ENTRY_SIZE ≤ il
    · obtain ⟨h2, d2, n, ho, hh, hn, hg, hs⟩ := crash_any_cut hi.1 hi.2 il fl hc
      exact ⟨⟨h2, d2⟩, items.take n, by simp [step, hc, ho],
        by show (if INDEX_ENTRY_SIZE ≤ il then _ else _); rw [if_pos hc]; exact ⟨n, hn, rfl, hs⟩,
        hg, hh⟩
    · exact ⟨s, items, by simp [step, hc], by simp [SpecStep, hc], hi⟩

/-- the specification lifted to op sequences -/
inductive SpecRun (max : Nat) : Sys → List Bytes → List Op → Sys → List Bytes → Prop
  | nil (s items) : SpecRun max s items [] s items
  | cons {s items op s' items' ops s'' items''} :
      step max s op = some s' → SpecStep max s items op items' →
      SpecRun max s' items' ops s'' items'' → SpecRun max s items (op :: ops) s'' items''

/-- **Every history**: from any consistent state, any sequence of appends, truncations, re-opens,
    crash-cut appends and arbitrary crash cuts runs without a failed open, follows the list specification, and ends in a
    consistent state (so `retrieve_stored` / `retrieve_absent` apply to it). -/
theorem history_inv (max : Nat) : ∀ (ops : List Op) (s : Sys) (items : List Bytes), Inv s items →
    ∃ s' items', run max s ops = some s' ∧ SpecRun max s items ops s' items' ∧ Inv s' items'
  | [], s, items, hi => ⟨s, items, rfl, .nil s items, hi⟩
  | op :: ops, s, items, hi => by
    obtain ⟨s1, items1, hs, hsp, hi1⟩ := step_inv max s items op hi
    obtain ⟨s2, items2, hr, hsr, hi2⟩ := history_inv max ops s1 items1 hi1
    exact ⟨s2, items2, by simp [run, hs, hr], .cons hs hsp hsr, hi2⟩

/-- From the empty directory: after any history, the items are a list `items'` allowed by the
    specification and every one of them reads back byte-for-byte. -/
theorem history_from_empty (max : Nat) (ops : List Op) :
    ∃ h d, «open» emptyDisk = some (h, d) ∧
    ∃ s' items', run max ⟨h, d⟩ ops = some s' ∧ SpecRun max ⟨h, d⟩ [] ops s' items' ∧
      (∀ i it, 1 ≤ i → items'[i - 1]? = some it → retrieve s'.h s'.d i = .some it) ∧
      (∀ i, i = 0 ∨ items'.length < i → retrieve s'.h s'.d i = .none) := by
  obtain ⟨h, d, ho, hg, hh⟩ := open_empty
  obtain ⟨s', items', hr, hs, hi⟩ := history_inv max ops ⟨h, d⟩ [] ⟨hg, hh⟩
  exact ⟨h, d, ho, s', items', hr, hs,
    fun i it h1 h2 => retrieve_stored hi.1 hi.2 i it h1 h2,
    fun i h1 => retrieve_absent hi.1 hi.2 i h1⟩

/-! ## non-vacuity and regression witnesses (kernel-evaluated on the executable model) -/

/-- three items in file 0 and a fourth rolled into file 1 (max 50, 15-byte items) -/
def demoOps : List Op :=
  [.append (List.replicate 15 1), .append (List.replicate 15 2), .append (List.replicate 15 3),
   .append (List.replicate 15 4)]

def demoSys : Sys := ⟨{ number := 1, headId := 0, headBytes := 0, cache := [0] },
  { idx := [⟨0, 0⟩], tail := 0, files := fun _ => [] }⟩

/-- the history above really rolls over and all four items read back -/
example : ((run 50 demoSys demoOps).map fun s =>
    (s.d.idx, retrieve s.h s.d 1, retrieve s.h s.d 4)) =
    some ([⟨0, 0⟩, ⟨0, 15⟩, ⟨0, 30⟩, ⟨0, 45⟩, ⟨1, 15⟩],
          .some (List.replicate 15 1), .some (List.replicate 15 4)) := by decide

/-- the disk after the fourth append's index entry reached the disk but its data did not -/
def demoCrashDisk : Disk :=
  let s := (run 50 demoSys demoOps).getD demoSys
  applyCut s.d (12 * 5) 1 none

/-- the repaired loop slips back into file 0 and keeps the three fully written items -/
theorem open_fixed_keeps_items :
    ((openWith true demoCrashDisk).map fun r => (r.1.number, r.1.headId, retrieve r.1 r.2 3)) =
      some (4, 0, .some (List.replicate 15 3)) := by decide

/-- the loop as it was (re-opening the dropped entry's file) discards every item: the defect
    repaired by the `fix:` commit in /repo (freezer/src/freezer_files.rs) -/
theorem open_unfixed_loses_items :
    ((openWith false demoCrashDisk).map fun r => (r.1.number, retrieve r.1 r.2 1)) =
      some (1, .none) := by decide

/-- a batch crash: after the four appends the index keeps 4 entries + 7 bytes and the head file
    (file 1) is gone — items 1..3 (file 0, intact) survive and are kept -/
example : let s := (run 50 demoSys demoOps).getD demoSys
    ((step 50 s (.crash (12 * 4 + 7) none)).map fun s' => (s'.h.number, retrieve s'.h s'.d 3)) =
      some (4, .some (List.replicate 15 3)) := by decide

/-- the translated constants are the ones the index layout needs: a 4-byte file id and an 8-byte
    offset make a 12-byte entry -/
theorem entry_layout : Gen.Freezer.INDEX_ENTRY_SIZE = Gen.Freezer.FILE_ID_BYTES / 8 + 8 ∧
    0 < Gen.Freezer.INDEX_ENTRY_SIZE := by decide


/-! ## the read-handle LRU cannot change an answer

`Handle.cache` (the ids in the `files` LRU) is not constrained by `Inv`: every theorem above holds
for any cache content, and `truncate` removes exactly the cached files above the new head.  The
statement below makes the consequence explicit: two systems that hold the same items — whatever
their caches are and whatever orphan files lie above their heads — go through any sequence of
appends, truncations and re-opens with identical answers.  (`Model/FreezerTop.lean` has the reading
of the Rust code behind it.) -/

def Op.plain : Op → Bool
  | .append _ => true
  | .truncate _ => true
  | .reopen => true
  | _ => false

theorem same_items_same_answers {s t : Sys} {items : List Bytes} (hs : Inv s items) (ht : Inv t items) :
    s.h.number = t.h.number ∧ ∀ i, retrieve s.h s.d i = retrieve t.h t.d i := by
  refine ⟨by rw [hs.2.1, ht.2.1, hs.1.idx_length, ht.1.idx_length], fun i => ?_⟩
  by_cases hi : i = 0 ∨ items.length < i
  · rw [retrieve_absent hs.1 hs.2 i hi, retrieve_absent ht.1 ht.2 i hi]
  · obtain ⟨it, hit⟩ : ∃ it, items[i - 1]? = some it :=
      ⟨items[i - 1]'(by omega), List.getElem?_eq_getElem _⟩
    rw [retrieve_stored hs.1 hs.2 i it (by omega) hit, retrieve_stored ht.1 ht.2 i it (by omega) hit]

theorem lru_cannot_change_answers (max : Nat) : ∀ (ops : List Op), (∀ op ∈ ops, op.plain = true) →
    ∀ (s t : Sys) (items : List Bytes), Inv s items → Inv t items →
    ∃ s' t' items', run max s ops = some s' ∧ run max t ops = some t' ∧
      Inv s' items' ∧ Inv t' items' ∧
      s'.h.number = t'.h.number ∧ ∀ i, retrieve s'.h s'.d i = retrieve t'.h t'.d i
  | [], _, s, t, items, hs, ht =>
    ⟨s, t, items, rfl, rfl, hs, ht, (same_items_same_answers hs ht).1, (same_items_same_answers hs ht).2⟩
  | op :: ops, hp, s, t, items, hs, ht => by
    obtain ⟨s1, i1, hs1, hsp1, hi1⟩ := step_inv max s items op hs
    obtain ⟨t1, j1, ht1, htp1, hj1⟩ := step_inv max t items op ht
    have hpl := hp op (by simp)
    have : i1 = j1 := by
      cases op with
      | append x => simp only [SpecStep] at hsp1 htp1; rw [hsp1, htp1]
      | truncate k => simp only [SpecStep] at hsp1 htp1; rw [hsp1, htp1]
      | reopen => simp only [SpecStep] at hsp1 htp1; rw [hsp1, htp1]
      | crashAppend x il fl => simp [Op.plain] at hpl
      | crash il fl => simp [Op.plain] at hpl
    subst this
    obtain ⟨s', t', items', h1, h2, h3⟩ :=
      lru_cannot_change_answers max ops (fun o ho => hp o (by simp [ho])) s1 t1 i1 hi1 hj1
    exact ⟨s', t', items', by simp [run, hs1, h1], by simp [run, ht1, h2], h3⟩

/-- two handles on the same disk that differ in the cached ids only (and in orphan files the
    cache would have deleted): after a cross-file truncate one of them leaves file 1 behind, the
    answers stay the same -/
example :
    let s := (run 50 demoSys demoOps).getD demoSys
    let a := truncate s.h s.d 2
    let b := truncate { s.h with cache := [] } s.d 2
    ((a.2.files 1).length, (b.2.files 1).length, a.1.number, b.1.number,
      retrieve a.1 a.2 2 == retrieve b.1 b.2 2, retrieve a.1 a.2 3 == retrieve b.1 b.2 3) =
      (0, 15, 3, 3, true, true) := by decide

/-! ## round 6 — the read-handle LRU, exactly

`openL` / `appendL` / `truncateL` / `retrieveCache` (`Model/Freezer.lean`) maintain `Handle.cache`
as the real `LruCache` does (capacity, promotion, eviction, the pops of `release` and
`delete_after`).  Stream `freezer` compares the cached ids (hook `verif_cached_ids`, most recently
used first) and the data files on disk with the model after every operation, with capacities 2, 3
and 256.  By definition the `…L` operations return the disk, `number`, `head_id` and `head.bytes` of
the plain operations, so every theorem above applies to them; what the LRU adds is below. -/

inductive LOp where
  | append (x : Bytes)
  | truncate (k : Nat)
  | reopen
  | retrieve (i : Nat)

/-- one step with the exact cache; `none` = a re-open failed -/
def stepL (cap max : Nat) (s : Sys) : LOp → Option Sys
  | .append x => some ⟨(appendL cap max s.h s.d x).1, (appendL cap max s.h s.d x).2⟩
  | .truncate k => some ⟨(truncateL cap s.h s.d k).1, (truncateL cap s.h s.d k).2⟩
  | .reopen => (openL cap s.d).map fun r => ⟨r.1, r.2⟩
  | .retrieve i => some ⟨{ s.h with cache := retrieveCache cap s.h s.d i }, s.d⟩

def runL (cap max : Nat) : Sys → List LOp → Option Sys
  | s, [] => some s
  | s, op :: ops => (stepL cap max s op).bind fun s' => runL cap max s' ops

/-- no cached read handle is on a data file above the head -/
def CacheOk (s : Sys) : Prop := ∀ id ∈ s.h.cache, id ≤ s.h.headId

def LOp.plainOf : LOp → Option Op
  | .append x => some (.append x)
  | .truncate k => some (.truncate k)
  | .reopen => some .reopen
  | .retrieve _ => none

theorem lru_step_inv (cap max : Nat) (s : Sys) (items : List Bytes) (op : LOp)
    (hi : Inv s items) (hc : CacheOk s) :
    ∃ s' items', stepL cap max s op = some s' ∧ Inv s' items' ∧ CacheOk s' ∧
      (match op.plainOf with
       | some p => SpecStep max s items p items'
       | none => items' = items ∧ s'.d = s.d ∧ s'.h.number = s.h.number) := by
  cases op with
  | append x =>
    obtain ⟨hg, hk⟩ := append_good max x hi.1 hi.2
    refine ⟨_, items ++ [x], rfl, ⟨hg, hk⟩, ?_, rfl⟩
    intro id hid
    show id ≤ (append max s.h s.d x).1.headId
    simp only [appendL] at hid
    unfold append
    by_cases hroll : s.h.headBytes + x.length > max
    · simp only [hroll, if_true] at hid ⊢
      rcases mem_lruPut hid with h1 | h1
      · omega
      · rcases mem_lruPut (mem_lruPop h1) with h2 | h2
        · omega
        · have := hc id h2; omega
    · simp only [hroll, if_false] at hid ⊢
      exact hc id hid
  | truncate k =>
    by_cases hk : 1 ≤ k ∧ k < items.length
    · -- a real truncation
      have hlen := hi.1.idx_length
      have hnum := hi.2.1
      have hguard : ¬ (k < 1 ∨ k + 1 ≥ s.h.number) := by omega
      obtain ⟨e, he'⟩ : ∃ e, (s.d.idx.take (k + 1))[k]? = some e :=
        ⟨(s.d.idx.take (k + 1))[k]'(by simp; omega), List.getElem?_eq_getElem _⟩
      by_cases hx : e.fid ≠ s.h.headId
      · -- across files: the plain truncate on the handle with the cache as it is at delete_after
        let h' : Handle := { s.h with cache := lruPut cap (lruPop s.h.cache e.fid) e.fid }
        have hk' : HandleOk h' s.d := hi.2
        obtain ⟨g2, k2⟩ := (truncate_good hi.1 hk' k).1 hk
        have hst : truncateL cap s.h s.d k =
            ({ (truncate h' s.d k).1 with cache := (lruPut cap (lruPop s.h.cache e.fid) e.fid).filter (· ≤ e.fid) },
             (truncate h' s.d k).2) := by
          unfold truncateL
          rw [if_neg hguard, he']
          simp only [hx, ne_eq, not_false_eq_true, if_true]
          rfl
        have hhead : (truncate h' s.d k).1.headId = e.fid := by
          unfold truncate
          have hg' : ¬ (k < 1 ∨ k + 1 ≥ h'.number) := hguard
          rw [if_neg hg']
          simp only [he']
        refine ⟨⟨(truncateL cap s.h s.d k).1, (truncateL cap s.h s.d k).2⟩, items.take k, rfl, ?_, ?_, ?_⟩
        · show Good (truncateL cap s.h s.d k).2 _ ∧ HandleOk (truncateL cap s.h s.d k).1 (truncateL cap s.h s.d k).2
          rw [hst]
          exact ⟨g2, k2.1, k2.2⟩
        · intro id hid
          show id ≤ (truncateL cap s.h s.d k).1.headId
          have hid' : id ∈ (truncateL cap s.h s.d k).1.cache := hid
          rw [hst] at hid' ⊢
          have := (List.mem_filter.mp hid').2
          show id ≤ (truncate h' s.d k).1.headId
          rw [hhead]; simpa using this
        · show SpecStep max s items (.truncate k) (items.take k)
          simp [SpecStep, hk]
      · -- inside the head file: the plain truncate
        have hx' : e.fid = s.h.headId := by simpa using hx
        obtain ⟨g2, k2⟩ := (truncate_good hi.1 hi.2 k).1 hk
        have hst : truncateL cap s.h s.d k = truncate s.h s.d k := by
          unfold truncateL
          rw [if_neg hguard, he']
          simp only [hx', ne_eq, not_true_eq_false, if_false]
        have hres : (truncate s.h s.d k).1.headId = s.h.headId ∧ (truncate s.h s.d k).1.cache = s.h.cache := by
          unfold truncate
          rw [if_neg hguard]
          simp only [he', hx', ne_eq, not_true_eq_false, if_false, and_self]
        refine ⟨⟨(truncateL cap s.h s.d k).1, (truncateL cap s.h s.d k).2⟩, items.take k, rfl, ?_, ?_, ?_⟩
        · show Good (truncateL cap s.h s.d k).2 _ ∧ HandleOk (truncateL cap s.h s.d k).1 (truncateL cap s.h s.d k).2
          rw [hst]
          exact ⟨g2, k2⟩
        · intro id hid
          show id ≤ (truncateL cap s.h s.d k).1.headId
          have hid' : id ∈ (truncateL cap s.h s.d k).1.cache := hid
          rw [hst] at hid' ⊢
          rw [hres.1]
          exact hc id (by rw [← hres.2]; exact hid')
        · show SpecStep max s items (.truncate k) (items.take k)
          simp [SpecStep, hk]
    · -- outside the range: nothing happens
      have hlen := hi.1.idx_length
      have hnum := hi.2.1
      have hguard : k < 1 ∨ k + 1 ≥ s.h.number := by omega
      have hst : truncateL cap s.h s.d k = (s.h, s.d) := by
        unfold truncateL
        rw [if_pos hguard]
        exact truncate_noop_aux k hguard
      refine ⟨⟨(truncateL cap s.h s.d k).1, (truncateL cap s.h s.d k).2⟩, items, rfl, ?_, ?_, ?_⟩
      · show Good (truncateL cap s.h s.d k).2 _ ∧ HandleOk (truncateL cap s.h s.d k).1 (truncateL cap s.h s.d k).2
        rw [hst]; exact hi
      · intro id hid
        show id ≤ (truncateL cap s.h s.d k).1.headId
        have hid' : id ∈ (truncateL cap s.h s.d k).1.cache := hid
        rw [hst] at hid' ⊢
        exact hc id hid'
      · show SpecStep max s items (.truncate k) items
        simp [SpecStep, hk]
  | reopen =>
    obtain ⟨h, d2, ho, hg, hh⟩ := reopen_good hi.1
    obtain ⟨cc, hoL, hcc⟩ := openL_of_open (cap := cap) ho
    exact ⟨⟨{ h with cache := cc }, d2⟩, items, by simp only [stepL, hoL, Option.map_some],
      ⟨hg, hh⟩, fun id hid => hcc id hid, rfl⟩
  | retrieve i =>
    refine ⟨_, items, rfl, ⟨hi.1, hi.2⟩, ?_, rfl, rfl, rfl⟩
    intro id hid
    simp only [retrieveCache] at hid
    show id ≤ s.h.headId
    split at hid
    · exact hc id hid
    · split at hid
      · exact hc id hid
      · split at hid
        · exact hc id hid
        · rename_i a b fid hb
          obtain ⟨en, hen, hfid⟩ := getBounds_fid hb
          have hle := hi.1.fid_le_head hi.2 hen
          split at hid
          · exact hc id (mem_lruGet hid)
          · rcases mem_lruPut hid with h1 | h1
            · omega
            · exact hc id h1

/-- **The read handles never outlive their files.**  For every capacity and every history of
    appends, truncations, re-opens and retrieves with the cache maintained as the real `LruCache`
    does: no re-open fails, the freezer holds the items the list specification says, and no cached
    handle is on a data file above the head — i.e. none on a file `delete_after` unlinked, the only
    place where a name is removed.  (A handle on a file `≤ head_id` cannot be stale: such a name is
    never unlinked or re-bound, see `Model/FreezerTop.lean`.) -/
theorem lru_handles_never_outlive_files (cap max : Nat) : ∀ (ops : List LOp) (s : Sys)
    (items : List Bytes), Inv s items → CacheOk s →
    ∃ s' items', runL cap max s ops = some s' ∧ Inv s' items' ∧ CacheOk s'
  | [], s, items, hi, hc => ⟨s, items, rfl, hi, hc⟩
  | op :: ops, s, items, hi, hc => by
    obtain ⟨s1, i1, hs, hi1, hc1, _⟩ := lru_step_inv cap max s items op hi hc
    obtain ⟨s2, i2, hr, hi2, hc2⟩ := lru_handles_never_outlive_files cap max ops s1 i1 hi1 hc1
    exact ⟨s2, i2, by simp [runL, hs, hr], hi2, hc2⟩

/-- capacity 2: four items over two files; retrieving item 1 promotes file 0, a cross-file truncate
    pops file 1 and unlinks it; and with capacity 2 a third file evicts the oldest handle -/
example : ((openL 2 emptyDisk).bind fun r => runL 2 50 ⟨r.1, r.2⟩
      [.append (List.replicate 15 1), .append (List.replicate 15 2), .append (List.replicate 15 3),
       .append (List.replicate 15 4), .retrieve 1, .append (List.replicate 40 5)]).map
      (fun s => (s.h.cache, s.h.headId)) = some ([1, 2], 2) ∧
    ((openL 2 emptyDisk).bind fun r => runL 2 50 ⟨r.1, r.2⟩
      [.append (List.replicate 15 1), .append (List.replicate 15 2), .append (List.replicate 15 3),
       .append (List.replicate 15 4), .retrieve 1, .truncate 2]).map
      (fun s => (s.h.cache, s.h.headId, (s.d.files 1).length)) = some ([0], 0, 0) := by decide

/-! ## the `Freezer` layer (`freezer/src/freezer.rs`, model `Model/FreezerTop.lean`)

Items are blocks; `c : Cfg` carries the compression pair `(cmp, dcmp)` and the block codec
`(enc, dec)`; **every theorem assumes `c.Ok`: `dcmp (cmp x) = some x` (decompress ∘ compress = id)
and `dec (enc b) = some b`** — nothing else about snappy or molecule.  `TopInv c s chain` (in
`Lemmas/FreezerTop.lean`): the disk holds exactly `chain.map (cmp ∘ enc)`, the handle agrees with
it, `chain` is parent-linked and `s.tip` is its last block. -/

open CkbVerif.FreezerTop

/-- what an observer reads from a freezer that holds `chain`: `number`, `tip`, every `retrieve` -/
structure Holds (c : Cfg) (s : Top) (chain : List Block) : Prop where
  number : s.number = chain.length + 1
  /-- ONE parent-linked chain -/
  linked : Linked chain
  /-- `tip` is the last stored block (`none` iff nothing is stored) -/
  tip : s.tip = chain.getLast?
  /-- blocks `1 .. number-1` byte-for-byte (index 0 is the default entry: `retrieve 0 = None`) -/
  stored : ∀ i b, 1 ≤ i → chain[i - 1]? = some b → retrieveTop c s i = .some (c.enc b)
  absent : ∀ i, i = 0 ∨ chain.length < i → retrieveTop c s i = .none

theorem holds_of_inv {c : Cfg} (ok : c.Ok) {s : Top} {chain : List Block} (hi : TopInv c s chain) :
    Holds c s chain :=
  ⟨hi.number, hi.linked, hi.tip,
   fun i b h1 h2 => retrieveRaw_stored ok hi.good hi.handle i b h1 h2,
   fun i h => retrieveRaw_absent hi.good hi.handle i h⟩

/-- `Freezer::open` on a fresh directory: number 1, no tip -/
theorem open_top_empty (c : Cfg) (ok : c.Ok) : ∃ s, openTop c emptyDisk = some s ∧ TopInv c s [] := by
  obtain ⟨h, d, ho, hg, hh⟩ := open_empty
  obtain ⟨s, hs, hi, _, _⟩ := openTop_of_open (c := c) (chain := []) ok ho hg hh Linked.nil
  exact ⟨s, hs, hi⟩

inductive TopOp where
  /-- `freeze(threshold, get_block_by_number)`; `stopped n` = the stop flag as seen by the
      iteration for height `n` (so every prefix of the loop is a `freeze`) -/
  | freeze (thr : Nat) (get : Nat → Option Block) (stopped : Nat → Bool)
  | truncate (k : Nat)
  | reopen
  /-- a crash that leaves the index at `il` bytes and the head data file at `fl`, then `open` -/
  | crash (il : Nat) (fl : Option Nat)
  /-- (round 6) a `freeze` of another thread whose pre-lock `self.number()` returned `n0` — ANY
      value, i.e. any operations ran between that read and the lock -/
  | freezeRace (n0 thr : Nat) (get : Nat → Option Block) (stopped : Nat → Bool)
  /-- (round 6) a `truncate` whose pre-lock guard read `n0`; modelled for `n0 ≤ number` (only
      freezes ran in between; `truncate_racing_truncate_can_panic` is the other case) -/
  | truncateRace (n0 k : Nat)

/-- one step; `none` = `Freezer::open` / `Freezer::truncate` returned an error -/
def stepTop (c : Cfg) (s : Top) : TopOp → Option Top
  | .freeze thr get stopped => some (freeze c s thr get stopped).1
  | .truncate k => truncateTop c s k
  | .reopen => openTop c s.d
  | .crash il fl => if INDEX_ENTRY_SIZE ≤ il then crashOpen c s il fl else some s
  | .freezeRace n0 thr get stopped => some (freezeFrom c s n0 thr get stopped).1
  | .truncateRace n0 k => if n0 ≤ s.h.number then truncateFrom c s n0 k else some s

def runTop (c : Cfg) : Top → List TopOp → Option Top
  | s, [] => some s
  | s, op :: ops => (stepTop c s op).bind fun s' => runTop c s' ops

/-- the specification on the plain list of stored blocks -/
def SpecStepTop (s : Top) (chain : List Block) : TopOp → List Block → Prop
  | .freeze thr get _, chain' =>
    ∃ new, chain' = chain ++ new ∧ new.length ≤ thr - (chain.length + 1) ∧
      ∀ j b, new[j]? = some b → get (chain.length + 1 + j) = some b
  | .truncate k, chain' => chain' = if 1 ≤ k ∧ k < chain.length then chain.take k else chain
  | .reopen, chain' => chain' = chain
  | .crash il fl, chain' =>
    if INDEX_ENTRY_SIZE ≤ il then
      ∃ n, n ≤ chain.length ∧ chain' = chain.take n ∧
        (∀ i, i < chain.length → Survives s.h s.d il fl i → i < n)
    else chain' = chain
  | .freezeRace n0 thr get _, chain' =>
    if n0 = chain.length + 1 then
      ∃ new, chain' = chain ++ new ∧ new.length ≤ thr - (chain.length + 1) ∧
        ∀ j b, new[j]? = some b → get (chain.length + 1 + j) = some b
    else chain' = chain
  | .truncateRace n0 k, chain' =>
    chain' = if n0 ≤ chain.length + 1 ∧ 1 ≤ k ∧ k + 1 < n0 then chain.take k else chain

theorem step_top_inv {c : Cfg} (ok : c.Ok) (s : Top) (chain : List Block) (op : TopOp)
    (hi : TopInv c s chain) :
    ∃ s' chain', stepTop c s op = some s' ∧ SpecStepTop s chain op chain' ∧ TopInv c s' chain' := by
  cases op with
  | freeze thr get stopped =>
    obtain ⟨_, h2⟩ := freeze_spec hi thr get stopped
    exact ⟨_, _, rfl, ⟨_, rfl, specRun_length_le _ _ _ _ _, fun j b hj => specRun_get _ _ _ _ _ j b hj⟩, h2⟩
  | truncate k =>
    by_cases hk : 1 ≤ k ∧ k < chain.length
    · obtain ⟨s', h1, h2⟩ := (truncateTop_spec ok hi k).1 hk
      exact ⟨s', _, h1, by simp [SpecStepTop, hk], h2⟩
    · exact ⟨s, chain, (truncateTop_spec ok hi k).2 hk, by simp [SpecStepTop, hk], hi⟩
  | reopen =>
    obtain ⟨h, d2, ho, hg, hh⟩ := reopen_good hi.good
    obtain ⟨s', hs, hi', _, _⟩ := openTop_of_open ok ho hg hh hi.linked
    exact ⟨s', chain, hs, rfl, hi'⟩
  | crash il fl =>
    by_cases hc : INDEX_ENTRY_SIZE ≤ il
    · obtain ⟨s', n, ho, hn, hi', hs⟩ := crashOpen_spec ok hi il fl hc
      refine ⟨s', chain.take n, by simp [stepTop, hc, ho], ?_, hi'⟩
      show (if INDEX_ENTRY_SIZE ≤ il then _ else _)
      rw [if_pos hc]
      exact ⟨n, hn, rfl, fun i h1 ⟨e, he1, he2, he3⟩ => hs i e h1 he1 he2 he3⟩
    · exact ⟨s, chain, by simp [stepTop, hc], by simp [SpecStepTop, hc], hi⟩
  | freezeRace n0 thr get stopped =>
    have hnum := hi.number
    by_cases hn : n0 = s.h.number
    · subst hn
      obtain ⟨_, h2⟩ := freeze_spec hi thr get stopped
      refine ⟨_, _, rfl, ?_, h2⟩
      show (if s.h.number = chain.length + 1 then _ else _)
      rw [if_pos hnum]
      exact ⟨_, rfl, specRun_length_le _ _ _ _ _, fun j b hj => specRun_get _ _ _ _ _ j b hj⟩
    · have hst := (freezeFrom_stale c s n0 thr get stopped hn).1
      refine ⟨s, chain, by simp [stepTop, hst], ?_, hi⟩
      show (if n0 = chain.length + 1 then _ else _)
      rw [if_neg (by omega)]
  | truncateRace n0 k =>
    have hnum := hi.number
    by_cases hle : n0 ≤ s.h.number
    · by_cases hg : k > 0 ∧ k + 1 < n0
      · have hk : 1 ≤ k ∧ k < chain.length := by omega
        obtain ⟨s', h1, h2⟩ := (truncateTop_spec ok hi k).1 hk
        have heq : truncateFrom c s n0 k = truncateTop c s k := by
          unfold truncateFrom truncateTop
          rw [if_pos hg, if_pos (by omega : k > 0 ∧ k + 1 < s.h.number)]
        refine ⟨s', chain.take k, by simp [stepTop, hle, heq, h1], ?_, h2⟩
        show _ = (if _ then _ else _)
        rw [if_pos (by omega)]
      · refine ⟨s, chain, by simp [stepTop, hle, truncateFrom, hg], ?_, hi⟩
        show _ = (if _ then _ else _)
        rw [if_neg (by omega)]
    · refine ⟨s, chain, by simp [stepTop, hle], ?_, hi⟩
      show _ = (if _ then _ else _)
      rw [if_neg (by omega)]

inductive SpecRunTop (c : Cfg) : Top → List Block → List TopOp → Top → List Block → Prop
  | nil (s chain) : SpecRunTop c s chain [] s chain
  | cons {s chain op s' chain' ops s'' chain''} :
      stepTop c s op = some s' → SpecStepTop s chain op chain' →
      SpecRunTop c s' chain' ops s'' chain'' → SpecRunTop c s chain (op :: ops) s'' chain''

theorem top_history_inv {c : Cfg} (ok : c.Ok) : ∀ (ops : List TopOp) (s : Top) (chain : List Block),
    TopInv c s chain →
    ∃ s' chain', runTop c s ops = some s' ∧ SpecRunTop c s chain ops s' chain' ∧ TopInv c s' chain'
  | [], s, chain, hi => ⟨s, chain, rfl, .nil s chain, hi⟩
  | op :: ops, s, chain, hi => by
    obtain ⟨s1, c1, hs, hsp, hi1⟩ := step_top_inv ok s chain op hi
    obtain ⟨s2, c2, hr, hsr, hi2⟩ := top_history_inv ok ops s1 c1 hi1
    exact ⟨s2, c2, by simp [runTop, hs, hr], .cons hs hsp hsr, hi2⟩

/-- **(a)** After ANY history of freeze (any threshold, any block source, any stop flag) /
    truncate / re-open / crash at any cut (`crash_any_cut`'s cuts) starting from a fresh directory,
    no `open` or `truncate` fails and the freezer holds exactly the blocks `1 .. number-1` of ONE
    parent-linked chain `chain'`, each retrieved byte-for-byte (`enc b`, after decompression),
    nothing else, and `tip` is the last of them; `chain'` follows the list specification
    (`SpecRunTop`: freeze appends blocks returned by the source for consecutive heights, truncate
    takes a prefix, a crash keeps a prefix containing every block that survived completely). -/
theorem freezer_holds_chain_prefix {c : Cfg} (ok : c.Ok) (ops : List TopOp) :
    ∃ s0, openTop c emptyDisk = some s0 ∧
    ∃ s' chain', runTop c s0 ops = some s' ∧ SpecRunTop c s0 [] ops s' chain' ∧
      Holds c s' chain' := by
  obtain ⟨s0, ho, hi⟩ := open_top_empty c ok
  obtain ⟨s', chain', hr, hs, hi'⟩ := top_history_inv ok ops s0 [] hi
  exact ⟨s0, ho, s', chain', hr, hs, holds_of_inv ok hi'⟩

/-- **(b)** One `freeze` call from a freezer holding `chain`: it appends a list `new` of blocks
    such that the block stored at height `number + j` is the one the source returned for that
    height (no height skipped or reordered), at most up to the threshold; each appended block's
    parent hash is the hash of the block stored right before it — the tip at that moment — (none
    for the very first block of an empty freezer); `Ok` returns exactly their (hash, height,
    tx count); an `Err` is a parent mismatch of the next block against the (new) tip, with the
    blocks appended before it kept; an `Ok` short of the threshold is the stop flag or a missing
    block. -/
theorem freeze_only_appends_contiguously {c : Cfg} (ok : c.Ok) {s : Top} {chain : List Block}
    (hi : TopInv c s chain) (thr : Nat) (get : Nat → Option Block) (stopped : Nat → Bool) :
    ∃ new, TopInv c (freeze c s thr get stopped).1 (chain ++ new) ∧
      Holds c (freeze c s thr get stopped).1 (chain ++ new) ∧
      new.length ≤ thr - s.number ∧
      (∀ j b, new[j]? = some b → get (s.number + j) = some b) ∧
      (∀ j b t, new[j]? = some b → (chain ++ new)[chain.length + j - 1]? = some t →
        1 ≤ chain.length + j → b.parent = t.hash) ∧
      (∀ frozen, (freeze c s thr get stopped).2 = .ok frozen → frozen = entries s.number new) ∧
      ((freeze c s thr get stopped).2 = .err →
        ∃ b t, get (s.number + new.length) = some b ∧
          (freeze c s thr get stopped).1.tip = some t ∧ t.hash ≠ b.parent) ∧
      ((freeze c s thr get stopped).2 ≠ .err → new.length < thr - s.number →
        stopped (s.number + new.length) = true ∨ get (s.number + new.length) = none) := by
  obtain ⟨h1, h2⟩ := freeze_spec hi thr get stopped
  have hnum : s.number = chain.length + 1 := hi.number
  have hstop := specRun_stop get stopped (thr - (chain.length + 1)) (chain.length + 1) (tipHash chain)
  try simp only at h1 h2 hstop
  generalize hr : specRun get stopped (thr - (chain.length + 1)) (chain.length + 1) (tipHash chain) = r
    at h1 h2 hstop
  rw [← tipHash_append] at hstop
  refine ⟨r.1, h2, holds_of_inv ok h2, ?_, ?_, ?_, ?_, ?_, ?_⟩
  · rw [hnum, ← hr]; exact specRun_length_le _ _ _ _ _
  · intro j b hj; rw [hnum]; rw [← hr] at hj; exact specRun_get _ _ _ _ _ j b hj
  · intro j b t hj ht h1'
    have hb : (chain ++ r.1)[chain.length + j - 1 + 1]? = some b := by
      rw [List.getElem?_append_right (by omega)]
      have : chain.length + j - 1 + 1 - chain.length = j := by omega
      rw [this]; exact hj
    exact h2.linked _ t b ht hb
  · intro frozen hf
    rw [h1] at hf
    rw [hnum]
    split at hf
    · exact (FreezeOut.ok.inj hf).symm
    · cases hf
  · intro he
    rw [h1] at he
    have hf : r.2 = false := by
      cases h : r.2 with
      | true => simp [h] at he
      | false => rfl
    obtain ⟨b, t, hg, hl, hne, _⟩ := hstop.1 hf
    rw [hnum]
    have htip := h2.tip
    unfold tipHash at hl
    rw [← htip] at hl
    cases hT : (freeze c s thr get stopped).1.tip with
    | none => rw [hT] at hl; simp at hl
    | some tb =>
      rw [hT] at hl
      simp only [Option.map_some, Option.some.injEq] at hl
      exact ⟨b, tb, hg, rfl, by rw [hl]; exact hne⟩
  · intro hne hlt
    rw [h1] at hne
    have hf : r.2 = true := by
      cases h : r.2 with
      | true => rfl
      | false => simp [h] at hne
    rw [hnum] at hlt ⊢
    exact hstop.2 hf hlt

/-- **(c)** A freeze of the chain served by `get` up to `thr` is interrupted — after any number of
    completed appends (`thr1 ≤ thr`, any stop flag) and then by a crash at ANY cut — and the
    freezer is re-opened: `open` succeeds, `number` did not grow, and the next `freeze … thr`
    restarts at the re-opened `number` (its map is the entries of heights `number ..`) and ends
    with exactly the content (`number`, `tip`, every `retrieve`) and the same Ok/Err outcome as the
    crash-free run `freeze s0 thr`.  "Fed the same chain": `get` still returns the blocks already
    frozen (`hfed`; needed only for heights the crash lost). -/
theorem freeze_after_crash_continues {c : Cfg} (ok : c.Ok) {s0 : Top} {chain0 : List Block}
    (hi : TopInv c s0 chain0) (get : Nat → Option Block)
    (hfed : ∀ i b, chain0[i]? = some b → get (i + 1) = some b)
    (thr thr1 : Nat) (stop1 : Nat → Bool) (hthr : thr1 ≤ thr) (hnum : s0.number ≤ thr)
    (il : Nat) (fl : Option Nat) (hil : INDEX_ENTRY_SIZE ≤ il) :
    ∃ s2, crashOpen c (freeze c s0 thr1 get stop1).1 il fl = some s2 ∧
      s2.number ≤ (freeze c s0 thr1 get stop1).1.number ∧
      ∃ final, Holds c (freeze c s0 thr get noStop).1 final ∧
        Holds c (freeze c s2 thr get noStop).1 final ∧
        ((freeze c s0 thr get noStop).2 = .err ↔ (freeze c s2 thr get noStop).2 = .err) ∧
        (∀ fb, (freeze c s2 thr get noStop).2 = .ok fb →
          fb = entries s2.number (final.drop (s2.number - 1))) := by
  have hn0 : s0.number = chain0.length + 1 := hi.number
  -- the interrupted run
  obtain ⟨_, hi1⟩ := freeze_spec hi thr1 get stop1
  try simp only at hi1
  have hlen1 := specRun_length_le get stop1 (thr1 - (chain0.length + 1)) (chain0.length + 1) (tipHash chain0)
  have hget1 := specRun_get get stop1 (thr1 - (chain0.length + 1)) (chain0.length + 1) (tipHash chain0)
  generalize specRun get stop1 (thr1 - (chain0.length + 1)) (chain0.length + 1) (tipHash chain0) = r1
    at hi1 hlen1 hget1
  -- everything stored so far is what the source serves
  have hfedT : ∀ i b, 0 ≤ i → (chain0 ++ r1.1)[i]? = some b → get (i + 1) = some b := by
    intro i b _ hb
    by_cases h : i < chain0.length
    · rw [List.getElem?_append_left h] at hb; exact hfed i b hb
    · rw [List.getElem?_append_right (by omega)] at hb
      have := hget1 _ b hb
      rw [← this]; congr 1; omega
  have hlT := hi1.linked
  have hTlen : (chain0 ++ r1.1).length = chain0.length + r1.1.length := by simp
  -- the crash
  obtain ⟨s2, n, ho, hn, hi2, _⟩ := crashOpen_spec ok hi1 il fl hil
  have hn2 : s2.number = n + 1 := by
    have := hi2.number
    simp only [List.length_take] at this
    show s2.h.number = _; omega
  refine ⟨s2, ho, by rw [hn2]; have := hi1.number; show _ ≤ (freeze c s0 thr1 get stop1).1.h.number; omega, ?_⟩
  -- the crash-free run, resumed from `chain0`
  obtain ⟨_, hA⟩ := freeze_spec hi thr get noStop
  have hresA := specRun_resume get (chain0 ++ r1.1) 0 hfedT hlT r1.1.length chain0.length
    (thr - (chain0.length + 1)) (by omega) (by omega) (by omega) (by omega)
  have htk : (chain0 ++ r1.1).take chain0.length = chain0 := by simp
  have hdr : (chain0 ++ r1.1).drop chain0.length = r1.1 := by simp
  rw [htk, hdr] at hresA
  try simp only at hA
  rw [hresA] at hA
  -- the run after the crash, resumed from the surviving prefix
  obtain ⟨hB1, hB⟩ := freeze_spec hi2 thr get noStop
  have hlk : ((chain0 ++ r1.1).take n).length = n := by simp; omega
  have hresB := specRun_resume get (chain0 ++ r1.1) 0 hfedT hlT ((chain0 ++ r1.1).length - n) n
    (thr - (n + 1)) rfl (by omega) hn (by omega)
  try simp only at hB1 hB
  rw [hlk] at hB1 hB
  rw [hresB] at hB1 hB
  have hfuel : thr - (n + 1) - ((chain0 ++ r1.1).length - n) =
      thr - (chain0.length + 1) - r1.1.length := by omega
  rw [hfuel] at hB1 hB
  have hnl : (chain0 ++ r1.1).length + 1 = chain0.length + r1.1.length + 1 := by omega
  generalize hX : specRun get noStop (thr - (chain0.length + 1) - r1.1.length)
    ((chain0 ++ r1.1).length + 1) (tipHash (chain0 ++ r1.1)) = X at hA hB hB1
  have hfin : (chain0 ++ r1.1).take n ++ ((chain0 ++ r1.1).drop n ++ X.1) = chain0 ++ (r1.1 ++ X.1) := by
    rw [← List.append_assoc, List.take_append_drop, List.append_assoc]
  rw [hfin] at hB
  try simp only at hA
  refine ⟨chain0 ++ (r1.1 ++ X.1), holds_of_inv ok hA, holds_of_inv ok hB, ?_, ?_⟩
  · obtain ⟨hA1, _⟩ := freeze_spec hi thr get noStop
    try simp only at hA1
    rw [hresA, hX] at hA1
    rw [hA1, hB1]
    simp only
    cases X.2 <;> simp
  · intro fb hfb
    rw [hB1] at hfb
    simp only at hfb
    split at hfb
    · have := (FreezeOut.ok.inj hfb).symm
      have hd : (chain0 ++ (r1.1 ++ X.1)).drop n = (chain0 ++ r1.1).drop n ++ X.1 := by
        rw [← List.append_assoc, List.drop_append_of_le_length hn]
      rw [this, hn2, show n + 1 - 1 = n by omega, hd]
    · cases hfb

/-- **(d)** `truncate n` (for `1 ≤ n < number - 1`) keeps blocks `1..n` with `tip` = block `n`, and
    freezing a *different* branch that links to block `n` then yields exactly that branch on top:
    `Ok` with the branch's entries, content `chain.take n ++ branch`. -/
theorem truncate_then_freeze {c : Cfg} (ok : c.Ok) {s : Top} {chain : List Block}
    (hi : TopInv c s chain) (n : Nat) (h1 : 1 ≤ n) (h2 : n < chain.length)
    (branch : List Block) (get : Nat → Option Block)
    (hget : ∀ j b, branch[j]? = some b → get (n + 1 + j) = some b)
    (hl : Linked (chain.take n ++ branch)) :
    ∃ s1, truncateTop c s n = some s1 ∧ Holds c s1 (chain.take n) ∧
      (freeze c s1 (n + 1 + branch.length) get noStop).2 = .ok (entries (n + 1) branch) ∧
      Holds c (freeze c s1 (n + 1 + branch.length) get noStop).1 (chain.take n ++ branch) := by
  obtain ⟨s1, ht, hi1⟩ := (truncateTop_spec ok hi n).1 ⟨h1, h2⟩
  refine ⟨s1, ht, holds_of_inv ok hi1, ?_⟩
  have hlk : (chain.take n).length = n := by simp; omega
  obtain ⟨hr, hinv⟩ := freeze_spec hi1 (n + 1 + branch.length) get noStop
  try simp only at hr hinv
  rw [hlk] at hr hinv
  have hfu : n + 1 + branch.length - (n + 1) = branch.length := by omega
  rw [hfu] at hr hinv
  have hfedT : ∀ i b, n ≤ i → (chain.take n ++ branch)[i]? = some b → get (i + 1) = some b := by
    intro i b hni hb
    rw [List.getElem?_append_right (by omega), hlk] at hb
    have := hget _ b hb
    rw [← this]; congr 1; omega
  have hres := specRun_resume get (chain.take n ++ branch) n hfedT hl branch.length n branch.length
    (by simp; omega) (Nat.le_refl _) (by simp; omega) (Nat.le_refl _)
  have htk : (chain.take n ++ branch).take n = chain.take n := by
    rw [List.take_append_of_le_length (by omega), List.take_of_length_le (by omega)]
  have hdr : (chain.take n ++ branch).drop n = branch := by
    rw [List.drop_append_of_le_length (by omega), List.drop_of_length_le (by omega)]; simp
  rw [htk, hdr] at hres
  simp only [Nat.sub_self, specRun, List.append_nil] at hres
  rw [hres] at hr hinv
  exact ⟨by simpa using hr, holds_of_inv ok hinv⟩


/-! ### non-vacuity of the `Freezer`-layer theorems (kernel-evaluated on the executable model) -/

/-- a toy instance of the parameters: "compression" prefixes a marker byte, the codec writes the
    four header fields in front of the payload; `max_file_size` 16 = two 7-byte items per file -/
def demoCfg : Cfg :=
  { max := 16
    cmp := fun x => 7 :: x
    dcmp := fun x => match x with | 7 :: r => some r | _ => none
    enc := fun b => [b.hash, b.parent, b.number, b.txs] ++ b.payload
    dec := fun x => match x with | h :: p :: n :: t :: pl => some ⟨h, p, n, t, pl⟩ | _ => none }

/-- the hypotheses `Cfg.Ok` are satisfiable -/
theorem demoCfg_ok : demoCfg.Ok := ⟨fun _ => rfl, fun _ => rfl⟩

def chainA : List Block :=
  [⟨11, 10, 1, 1, [1, 1]⟩, ⟨12, 11, 2, 2, [2, 2]⟩, ⟨13, 12, 3, 1, [3, 3]⟩, ⟨14, 13, 4, 3, [4, 4]⟩]
/-- another branch on top of block 12 -/
def branchB : List Block := [⟨23, 12, 3, 1, [5, 5, 5]⟩, ⟨24, 23, 4, 2, [6]⟩]
/-- the third block does not link to the second -/
def brokenC : List Block := [⟨11, 10, 1, 1, [1, 1]⟩, ⟨12, 11, 2, 2, [2, 2]⟩, ⟨33, 99, 3, 1, [3, 3]⟩]
def serve (l : List Block) (start : Nat) : Nat → Option Block :=
  fun n => if n < start then none else l[n - start]?

def demoView (s : Top) :=
  (s.number, s.tip.map (·.hash), s.d.idx.map (fun e => (e.fid, e.off)), retrieveTop demoCfg s 3)

/-- (a): freeze four blocks (rolling into file 1), crash with the index at 4 entries + 5 bytes and
    file 1 at 3 bytes (blocks 3 and 4 are lost), freeze again, truncate to 2, freeze the other
    branch, re-open: blocks 11, 12, 23, 24 with tip 24 -/
example : ((openTop demoCfg emptyDisk).bind fun s0 => runTop demoCfg s0
    [.freeze 5 (serve chainA 1) noStop, .crash (12 * 4 + 5) (some 3), .freeze 5 (serve chainA 1) noStop,
     .truncate 2, .freeze 5 (serve branchB 3) noStop, .reopen]).map demoView =
    some (5, some 24, [(0, 0), (0, 7), (0, 14), (1, 8), (1, 14)], .some [23, 12, 3, 1, 5, 5, 5]) := by
  decide

/-- the crash in the history above really loses blocks -/
example : ((openTop demoCfg emptyDisk).bind fun s0 => runTop demoCfg s0
    [.freeze 5 (serve chainA 1) noStop, .crash (12 * 4 + 5) (some 3)]).map demoView =
    some (3, some 12, [(0, 0), (0, 7), (0, 14)], .none) := by decide

/-- (b): a broken parent link at height 3 — `Err`, blocks 1 and 2 stay, tip 12; and the stop flag
    seen at height 3 — `Ok` with the two entries -/
example : ((openTop demoCfg emptyDisk).map fun s0 =>
      let r := freeze demoCfg s0 9 (serve brokenC 1) noStop
      let r' := freeze demoCfg s0 9 (serve chainA 1) (fun n => n > 2)
      (r.2, r.1.number, r.1.tip.map (·.hash), r'.2, r'.1.number)) =
    some (.err, 3, some 12, .ok [(11, 1, 1), (12, 2, 2)], 3) := by decide

/-- (c): interrupted after 3 blocks, crashed at a cut that loses block 3, re-opened at number 3,
    frozen again to threshold 5: same content as the crash-free run, the map restarts at 3 -/
example : ((openTop demoCfg emptyDisk).bind fun s0 =>
      let a := freeze demoCfg s0 5 (serve chainA 1) noStop
      let s1 := (freeze demoCfg s0 4 (serve chainA 1) noStop).1
      (crashOpen demoCfg s1 (12 * 4) (some 2)).map fun s2 =>
        let b := freeze demoCfg s2 5 (serve chainA 1) noStop
        (s1.number, s2.number, b.2, demoView a.1 == demoView b.1, a.1.number)) =
    some (4, 3, .ok [(13, 3, 1), (14, 4, 3)], true, 5) := by decide

/-- (d): the hypotheses are satisfiable (a real fork) and the result is the other branch -/
example : ((openTop demoCfg emptyDisk).bind fun s0 =>
      (truncateTop demoCfg (freeze demoCfg s0 5 (serve chainA 1) noStop).1 2).map fun s1 =>
        let r := freeze demoCfg s1 (2 + 1 + branchB.length) (serve branchB 3) noStop
        (s1.number, s1.tip.map (·.hash), r.2,
          demoView r.1 ==
            (5, some 24, [(0, 0), (0, 7), (0, 14), (1, 8), (1, 14)], .some [23, 12, 3, 1, 5, 5, 5]))) =
    some (3, some 12, .ok [(23, 3, 1), (24, 4, 2)], true) := by
  decide

/-! ## round 6 — `open` on EVERY disk: the decision table

`FreezerFilesBuilder::build` is total in the model (`«open»` is defined on every `Disk`: index
entries no history wrote, data files of any length, older files short or missing).  The theorems
below say what it decides, with no hypothesis on the disk.  The harness drives the real `build`
exhaustively over all small disks (stream `freezer`, op `raw`). -/

/-- **Decision table.** On every disk, `open` is: `Err` for an INDEX of 1..11 bytes; the default
    entry for an empty INDEX; then walk the index entries from the newest to the oldest and stop at
    the first whose data file holds at least `offset` bytes — it becomes the head, its file is cut
    to `offset`, the entries after it are dropped; `Err` if no entry passes. -/
theorem open_decision_table (d : Disk) : «open» d = openTable d := open_eq_table d

/-- `open` fails on exactly two kinds of disk: an INDEX shorter than one entry but not empty, and
    an INDEX none of whose entries' data files reaches the recorded offset -/
theorem open_fails_iff (d : Disk) :
    «open» d = none ↔ (d.idx = [] ∧ d.tail ≠ 0) ∨
      (d.idx ≠ [] ∧ ∀ e ∈ d.idx, (d.files e.fid).length < e.off) := open_none_iff d

/-- what a successful `open` of a non-empty INDEX returns, on every disk: `number = n + 1` where
    entry `n` is the NEWEST entry whose file reaches its offset; the INDEX keeps entries `0..n`, the
    partial tail is trimmed, the head is entry `n`'s file cut to its offset; no other file changes -/
theorem open_result_on_any_disk {d : Disk} {h : Handle} {d' : Disk} (ho : «open» d = some (h, d'))
    (hne : d.idx ≠ []) :
    ∃ n e, h.number = n + 1 ∧ d.idx[n]? = some e ∧ d'.idx = d.idx.take (n + 1) ∧ d'.tail = 0 ∧
      h.headId = e.fid ∧ h.headBytes = e.off ∧ e.off ≤ (d.files e.fid).length ∧
      d'.files = setFile d.files e.fid ((d.files e.fid).take e.off) ∧
      ∀ j q, n < j → d.idx[j]? = some q → (d.files q.fid).length < q.off :=
  open_some_result ho hne

/-- a lost (empty) INDEX: `open` starts a fresh freezer and EMPTIES data file 0 ("Truncating
    dangling head"), whatever it held -/
theorem open_lost_index_resets {d : Disk} (hi : d.idx = []) (ht : d.tail = 0) :
    ∃ h, «open» d = some (h, { idx := [⟨0, 0⟩], tail := 0, files := setFile d.files 0 [] }) ∧
      h.number = 1 ∧ h.headId = 0 ∧ h.headBytes = 0 := open_empty_index hi ht

/-- every INDEX the code ever wrote starts with the default entry (offset 0): such an INDEX, cut or
    extended in any way behind that entry, with data files in ANY state, always opens -/
theorem open_total_given_default_entry (d : Disk) (f : Nat) (l : List Entry)
    (hd : d.idx = ⟨f, 0⟩ :: l) : ∃ h d', «open» d = some (h, d') := by
  cases ho : «open» d with
  | some r => exact ⟨r.1, r.2, rfl⟩
  | none =>
    rcases (open_fails_iff d).mp ho with h1 | h1
    · rw [hd] at h1; simp at h1
    · have := h1.2 ⟨f, 0⟩ (by rw [hd]; simp)
      simp at this

/-- a malformed disk no history writes: offsets not monotone, entry 2 points past the end of
    file 1, entry 4 past the end of file 1 too, 7 bytes of a partial entry -/
def demoMalformedDisk : Disk :=
  { idx := [⟨0, 0⟩, ⟨0, 5⟩, ⟨1, 9⟩, ⟨0, 3⟩, ⟨1, 4⟩]
    tail := 7
    files := fun i => if i = 0 then [1, 2, 3, 4] else if i = 1 then [5, 6] else [] }

/-- `open` stops at the newest entry that fits — entry 3 — keeps entries 0..3 and cuts file 0 to
    3 bytes; and an INDEX whose only entry does not fit fails -/
example : ((«open» demoMalformedDisk).map fun r =>
      (r.1.number, r.1.headId, r.1.headBytes, r.2.idx.length, r.2.tail, r.2.files 0)) =
    some (4, 0, 3, 4, 0, [1, 2, 3]) := by decide
example : ((«open» demoMalformedDisk).map fun r =>
      (retrieve r.1 r.2 1, retrieve r.1 r.2 2, retrieve r.1 r.2 3)) =
    some (.err, .err, .some [1, 2, 3]) := by decide
example : («open» ⟨[⟨0, 2⟩], 0, fun _ => []⟩).isNone = true := by decide

/-! ## round 6, second increment — data files that do not exist

`openX` / `retrieveX` / `presentAppend` / `presentTruncate` (`Model/Freezer.lean`) carry the list
`present` of the data files that exist.  `build` creates (`create(true)`) the files of the index
entries its repair loop visits (`touchedBy`); `preopen` then fails iff some id in
`tail_id..head_id` has no file; a failed open leaves the INDEX empty (build failure) or repaired
(preopen failure).  The raw enumeration of stream `freezer` now omits files (each data file is
absent or has length 0..3) and follows every failed open by what it left and a second open. -/

theorem preopenFails_iff (present touched : List Nat) (t hd : Nat) :
    preopenFails present touched t hd = true ↔
      ∃ id, t ≤ id ∧ id < hd ∧ id ∉ present ∧ id ∉ touched := by
  unfold preopenFails
  rw [List.any_eq_true]
  constructor
  · rintro ⟨id, hm, hp⟩
    simp only [Bool.and_eq_true, decide_eq_true_eq, Bool.not_eq_true', List.contains_eq_mem,
      decide_eq_false_iff_not] at hp
    exact ⟨id, hp.1.1, List.mem_range.mp hm, hp.1.2, hp.2⟩
  · rintro ⟨id, h1, h2, h3, h4⟩
    refine ⟨id, List.mem_range.mpr h2, ?_⟩
    simp only [Bool.and_eq_true, decide_eq_true_eq, Bool.not_eq_true', List.contains_eq_mem,
      decide_eq_false_iff_not]
    exact ⟨⟨h1, h3⟩, h4⟩

/-- **The decision table with absent files.**  `FreezerFiles::open` fails exactly when `build`
    fails (`open_fails_iff`: INDEX of 1..11 bytes, or no entry fits) or when, after `build`, some
    data file with an id from the first index entry's up to (not including) the head's does not
    exist and was not created by the repair loop. -/
theorem open_fails_iff_with_absent_files (cap : Nat) (d : Disk) (present : List Nat) :
    (openX cap d present).h = none ↔
      openL cap d = none ∨
      ∃ h d' id, openL cap d = some (h, d') ∧
        tailIdOf d' ≤ id ∧ id < h.headId ∧
        id ∉ present ∧ id ∉ touchedBy d := by
  unfold openX
  cases ho : openL cap d with
  | none =>
    simp only [true_or, iff_true]
    split <;> rfl
  | some r =>
    obtain ⟨h, d'⟩ := r
    simp only [reduceCtorEq, false_or]
    by_cases hp : preopenFails present (touchedBy d) (tailIdOf d') h.headId = true
    · rw [if_pos hp]
      simp only [true_iff]
      obtain ⟨id, h1, h2, h3, h4⟩ := (preopenFails_iff _ _ _ _).mp hp
      exact ⟨h, d', id, rfl, h1, h2, h3, h4⟩
    · rw [if_neg hp]
      simp only [reduceCtorEq, false_iff]
      rintro ⟨h2, d2, id, heq, h1, h2', h3, h4⟩
      simp only [Option.some.injEq, Prod.mk.injEq] at heq
      obtain ⟨rfl, rfl⟩ := heq
      exact hp ((preopenFails_iff _ _ _ _).mpr ⟨id, h1, h2', h3, h4⟩)

/-- when every file below the head exists, `open` is the open of the theorems above (same handle,
    same disk): the missing-file failure needs a missing file BELOW the head -/
theorem openX_eq_openL_when_files_exist {cap : Nat} {d d' : Disk} {h : Handle} {present : List Nat}
    (ho : openL cap d = some (h, d')) (hp : ∀ id, id < h.headId → id ∈ present) :
    (openX cap d present).h = some h ∧ (openX cap d present).d = d' := by
  unfold openX
  rw [ho]
  simp only
  have : ¬ preopenFails present (touchedBy d) (tailIdOf d') h.headId = true := by
    intro hf
    obtain ⟨id, _, h2, h3, _⟩ := (preopenFails_iff _ _ _ _).mp hf
    exact h3 (hp id h2)
  rw [if_neg this]
  exact ⟨rfl, rfl⟩

/-- an append keeps "every file up to the head exists": a rollover creates the next file -/
theorem present_after_append (cap max : Nat) (h : Handle) (d : Disk) (x : Bytes) (present : List Nat)
    (hp : ∀ id, id ≤ h.headId → id ∈ present) :
    ∀ id, id ≤ (appendL cap max h d x).1.headId → id ∈ presentAppend max h x present := by
  intro id hid
  have hhead : (appendL cap max h d x).1.headId =
      if h.headBytes + x.length > max then h.headId + 1 else h.headId := by
    simp only [appendL, append]
  rw [hhead] at hid
  unfold presentAppend
  by_cases hr : h.headBytes + x.length > max
  · rw [if_pos hr] at hid
    by_cases hc : present.contains (h.headId + 1) = true
    · have : ¬ (h.headBytes + x.length > max ∧ (!present.contains (h.headId + 1)) = true) := by
        intro hh; rw [hc] at hh; exact absurd hh.2 (by decide)
      rw [if_neg this]
      by_cases he : id = h.headId + 1
      · rw [he]; simpa using hc
      · exact hp id (by omega)
    · have : h.headBytes + x.length > max ∧ (!present.contains (h.headId + 1)) = true := by
        simp at hc; simp [hr, hc]
      rw [if_pos this]
      by_cases he : id = h.headId + 1
      · simp [he]
      · exact List.mem_append_left _ (hp id (by omega))
  · rw [if_neg hr] at hid
    have : ¬ (h.headBytes + x.length > max ∧ (!present.contains (h.headId + 1)) = true) := by
      simp [hr]
    rw [if_neg this]
    exact hp id hid

/-- a fresh directory: `open` creates data file 0 and nothing is missing afterwards; an INDEX of
    two entries in files 0 and 1 with file 0 MISSING: `build` creates file 1, `preopen` fails on
    file 0, and so does every later open; with file 0 present (empty) it opens -/
example : (let r := openX 2 emptyDisk []
           (r.h.map (·.number), r.present)) = (some 1, [0]) ∧
    (let r := openX 2 ⟨[⟨0, 0⟩, ⟨1, 0⟩], 0, fun _ => []⟩ []
     let r2 := openX 2 r.d r.present
     (r.h.isNone, r.present, r.d.idx.length, r2.h.isNone)) = (true, [1], 2, true) ∧
    (let r := openX 2 ⟨[⟨0, 0⟩, ⟨1, 0⟩], 0, fun _ => []⟩ [0]
     (r.h.map (·.number), r.present)) = (some 2, [0, 1]) := by decide

/-! ## round 6 — power loss: data files OTHER than the head may be short

`Freezer::freeze` ends with `sync_all` of the head data file and the INDEX only; a data file that
was rolled over during the call is never synced by the freezer.  A power loss can therefore leave an
OLDER data file short while INDEX and head are complete — outside the crash model of the property
(`crash_any_cut`: older files intact), and not repaired by `open`, which only looks at the file of
the entry it stops at.  Exactly what holds then, for every image in which every data file is some
prefix of what was written (`PowerCut`): -/

/-- **Power loss, every file cut anywhere.**  Re-opening succeeds with `number = n + 1 ≤` the old
    one; every item `1..n` reads back byte-for-byte IF the file that holds it still reaches the
    item's end offset and is an error otherwise; item 0 and items beyond `n` read `None`.  In
    particular `retrieve` NEVER returns other bytes than the ones appended. -/
theorem powerloss_open_never_wrong_bytes {d0 d : Disk} {items : List Bytes} (g : Good d0 items)
    (pc : PowerCut d0 d) :
    ∃ h d2 n, «open» d = some (h, d2) ∧ h.number = n + 1 ∧ n ≤ items.length ∧
      (∀ i, i = 0 ∨ n < i → retrieve h d2 i = .none) ∧
      (∀ i it e, 1 ≤ i → i ≤ n → items[i - 1]? = some it → d0.idx[i]? = some e →
        retrieve h d2 i = if e.off ≤ (d2.files e.fid).length then .some it else .err) ∧
      (∀ i x, retrieve h d2 i = .some x → 1 ≤ i ∧ items[i - 1]? = some x) := by
  obtain ⟨h, d2, n, ho, hnum, hn, hidx, hfiles, _, _⟩ := open_powercut g pc
  have hform : ∀ i it e, 1 ≤ i → i ≤ n → items[i - 1]? = some it → d0.idx[i]? = some e →
      retrieve h d2 i = if e.off ≤ (d2.files e.fid).length then .some it else .err :=
    fun i it e h1 h2 h3 h4 => retrieve_powercut g n hn hidx hnum hfiles i it e h1 h2 h3 h4
  have hnone : ∀ i, i = 0 ∨ n < i → retrieve h d2 i = .none := by
    intro i hi
    unfold retrieve
    rcases hi with hi | hi
    · simp [hi]
    · have : h.number ≤ i := by omega
      by_cases h1 : i < 1
      · simp [h1]
      · simp [h1, this]
  refine ⟨h, d2, n, ho, hnum, hn, hnone, hform, ?_⟩
  intro i x hx
  have hlen := g.idx_length
  by_cases hi : i = 0 ∨ n < i
  · rw [hnone i hi] at hx; cases hx
  · have h1 : 1 ≤ i := by omega
    have h2 : i ≤ n := by omega
    obtain ⟨it, hit⟩ : ∃ it, items[i - 1]? = some it :=
      ⟨items[i - 1]'(by omega), List.getElem?_eq_getElem _⟩
    obtain ⟨e, he⟩ : ∃ e, d0.idx[i]? = some e := ⟨d0.idx[i]'(by omega), List.getElem?_eq_getElem _⟩
    rw [hform i it e h1 h2 hit he] at hx
    split at hx
    · cases hx; exact ⟨h1, hit⟩
    · cases hx

/-- **Which items stay safe, exactly**: after a power loss and re-open, item `i` (of the `n` kept)
    reads back iff the data file holding it still reaches the item's end offset.  Hence all `n`
    items are safe iff every kept index entry's file reaches its offset — which the head always
    does after `open`, and an older file does iff the power loss did not shorten it below the last
    kept item stored in it. -/
theorem powerloss_items_safe_iff {d0 d : Disk} {items : List Bytes} (g : Good d0 items)
    (pc : PowerCut d0 d) :
    ∃ h d2 n, «open» d = some (h, d2) ∧ h.number = n + 1 ∧ n ≤ items.length ∧
      ((∀ i it, 1 ≤ i → i ≤ n → items[i - 1]? = some it → retrieve h d2 i = .some it) ↔
       (∀ i e, 1 ≤ i → i ≤ n → d0.idx[i]? = some e → e.off ≤ (d2.files e.fid).length)) := by
  obtain ⟨h, d2, n, ho, hnum, hn, _, hform, _⟩ := powerloss_open_never_wrong_bytes g pc
  have hlen := g.idx_length
  refine ⟨h, d2, n, ho, hnum, hn, ?_, ?_⟩
  · intro hall i e h1 h2 he
    obtain ⟨it, hit⟩ : ∃ it, items[i - 1]? = some it :=
      ⟨items[i - 1]'(by omega), List.getElem?_eq_getElem _⟩
    have := hall i it h1 h2 hit
    rw [hform i it e h1 h2 hit he] at this
    split at this
    · assumption
    · cases this
  · intro hall i it h1 h2 hit
    obtain ⟨e, he⟩ : ∃ e, d0.idx[i]? = some e := ⟨d0.idx[i]'(by omega), List.getElem?_eq_getElem _⟩
    rw [hform i it e h1 h2 hit he, if_pos (hall i e h1 h2 he)]

/-- **Power loss at the `Freezer` layer.**  From a freezer holding `chain`, after a power loss that
    cuts the INDEX anywhere behind its first entry and EVERY data file to any prefix,
    `Freezer::open` still succeeds (the block it derives `tip` from lies in the file the repair
    loop stopped at, which it cut to exactly that block's end), `number` does not grow, `tip` is the
    last block kept, and no `retrieve` returns anything but the block frozen at that height —
    blocks in a shortened older file answer `Err` (`powerloss_older_file_short_is_not_repaired`). -/
theorem powerloss_freezer_open_succeeds {c : Cfg} (ok : c.Ok) {s : Top} {chain : List Block}
    (hi : TopInv c s chain) {d : Disk} (pc : PowerCut s.d d) :
    ∃ s2 n, openTop c d = some s2 ∧ s2.number = n + 1 ∧ n ≤ chain.length ∧
      s2.tip = (chain.take n).getLast? ∧
      (∀ i x, retrieveTop c s2 i = .some x → 1 ≤ i ∧ ∃ b, chain[i - 1]? = some b ∧ x = c.enc b) := by
  obtain ⟨h, d2, n, ho, hnum, hn, hidx, hfiles, hhead, _⟩ := open_powercut hi.good pc
  have hn' : n ≤ chain.length := by simpa using hn
  have hlen := hi.good.idx_length
  simp only [List.length_map] at hlen
  -- what `retrieve` answers on the re-opened files layer
  have hform : ∀ i b e, 1 ≤ i → i ≤ n → chain[i - 1]? = some b → s.d.idx[i]? = some e →
      retrieve h d2 i = if e.off ≤ (d2.files e.fid).length then .some (stored c b) else .err :=
    fun i b e h1 h2 hb he => retrieve_powercut hi.good n hn hidx hnum hfiles i (stored c b) e h1 h2
      (by rw [List.getElem?_map, hb]; rfl) he
  have hnone : ∀ i, i = 0 ∨ n < i → retrieve h d2 i = .none := by
    intro i hi'
    unfold retrieve
    rcases hi' with hi' | hi'
    · simp [hi']
    · have : h.number ≤ i := by omega
      by_cases h1 : i < 1
      · simp [h1]
      · simp [h1, this]
  have hwrong : ∀ i x, retrieveRaw c h d2 i = .some x →
      1 ≤ i ∧ ∃ b, chain[i - 1]? = some b ∧ x = c.enc b := by
    intro i x hx
    by_cases hi' : i = 0 ∨ n < i
    · unfold retrieveRaw at hx; rw [hnone i hi'] at hx; cases hx
    · have h1 : 1 ≤ i := by omega
      have h2 : i ≤ n := by omega
      obtain ⟨b, hb⟩ : ∃ b, chain[i - 1]? = some b :=
        ⟨chain[i - 1]'(by omega), List.getElem?_eq_getElem _⟩
      obtain ⟨e, he⟩ : ∃ e, s.d.idx[i]? = some e := ⟨s.d.idx[i]'(by omega), List.getElem?_eq_getElem _⟩
      unfold retrieveRaw at hx
      rw [hform i b e h1 h2 hb he] at hx
      by_cases hfit : e.off ≤ (d2.files e.fid).length
      · rw [if_pos hfit] at hx
        simp only [stored, ok.snappy] at hx
        cases hx
        exact ⟨h1, b, hb, rfl⟩
      · rw [if_neg hfit] at hx
        cases hx
  unfold openTop
  rw [ho]
  simp only
  by_cases hn0 : n = 0
  · subst hn0
    have : ¬ h.number > 1 := by omega
    rw [if_neg this]
    exact ⟨_, 0, rfl, hnum, by omega, by simp, fun i x hx => hwrong i x hx⟩
  · have hgt : h.number > 1 := by omega
    rw [if_pos hgt]
    obtain ⟨b, hb⟩ : ∃ b, chain[n - 1]? = some b :=
      ⟨chain[n - 1]'(by omega), List.getElem?_eq_getElem _⟩
    obtain ⟨e, he⟩ : ∃ e, s.d.idx[n]? = some e := ⟨s.d.idx[n]'(by omega), List.getElem?_eq_getElem _⟩
    have hfit : e.off ≤ (d2.files e.fid).length := by rw [(hhead e he).2.2.2.1]; exact Nat.le_refl _
    have hr : readBlock c h d2 (h.number - 1) = some b := by
      have : h.number - 1 = n := by omega
      rw [this]
      unfold readBlock retrieveRaw
      rw [hform n b e (by omega) (Nat.le_refl _) hb he, if_pos hfit]
      simp only [stored, ok.snappy]
      exact ok.codec b
    rw [hr]
    refine ⟨_, n, rfl, hnum, hn', ?_, fun i x hx => hwrong i x hx⟩
    show some b = _
    rw [getLast?_eq_getElem?]
    have : (chain.take n).length - 1 = n - 1 := by simp; omega
    rw [this, List.getElem?_take]
    simp [hb]; omega

/-- the four-item history (`demoOps`: three items in file 0, the fourth rolled into file 1) after a
    power loss that leaves INDEX and file 1 complete but file 0 at 20 of its 45 bytes -/
def demoPowerLossDisk : Disk :=
  let s := (run 50 demoSys demoOps).getD demoSys
  { s.d with files := fun i => if i = 0 then (s.d.files 0).take 20 else s.d.files i }

/-- **Witness (older file short is not repaired).**  `open` succeeds and still announces all four
    items (`number = 5`), items 2 and 3 are unreadable (`Err`) for good, items 1 and 4 read back:
    "n ≥ the items whose data and index were fully written" holds only because the property's crash
    model keeps older files intact.  The code never syncs a data file it rolls away from. -/
theorem powerloss_older_file_short_is_not_repaired :
    ((«open» demoPowerLossDisk).map fun r => (r.1.number, retrieve r.1 r.2 1, retrieve r.1 r.2 2,
        retrieve r.1 r.2 3, retrieve r.1 r.2 4)) =
      some (5, .some (List.replicate 15 1), .err, .err, .some (List.replicate 15 4)) := by decide

/-- **Witness (silent corruption after a power loss).**  On that re-opened freezer `truncate 2`
    makes file 0 the head again and `set_len`s it to item 2's end offset 30 — EXTENDING the
    20-byte file with zeros: item 2 now reads `Some` of 5 real bytes followed by 10 zero bytes. -/
theorem powerloss_then_truncate_returns_zero_filled_bytes :
    ((«open» demoPowerLossDisk).map fun r =>
        let t := truncate r.1 r.2 2
        (t.1.number, retrieve t.1 t.2 2)) =
      some (3, .some (List.replicate 5 2 ++ List.replicate 10 0)) := by decide

/-! ## round 6 — which histories are safe under power loss: the sync discipline

`FreezerFiles::sync_all` (called by `Freezer::freeze` once, at its end) syncs the HEAD data file and
the INDEX.  `Dur` records what is durable; a power-loss image that respects it may cut the INDEX and
every data file up to the head anywhere at or beyond the durable length.  The theorems say exactly
when such an image is one of the crash cuts of `crash_any_cut` (older files intact — hence safe):
iff every data file below the head is durable in full (`OlderSynced`), and that this is kept by
every operation EXCEPT a rollover that leaves unsynced bytes in the file it rolls away from — which
is what `append` does whenever a freeze call appends to a file and then rolls over. -/

/-- what has been made durable: INDEX bytes, and a byte count per data file -/
structure Dur where
  idx : Nat
  file : Nat → Nat

/-- `FreezerFiles::sync_all`: `head.file.sync_all()` and `index.sync_all()` — nothing else -/
def syncAll (h : Handle) (d : Disk) (u : Dur) : Dur :=
  { idx := d.idxSize, file := fun i => if i = h.headId then (d.files i).length else u.file i }

/-- every data file below the head is durable in full -/
def OlderSynced (h : Handle) (d : Disk) (u : Dur) : Prop :=
  ∀ i, i < h.headId → (d.files i).length ≤ u.file i

/-- a power-loss image: INDEX cut to `il` bytes, every data file up to the head cut to `cut i` bytes
    (files above the head are orphans no operation reads before emptying them) -/
def powerImage (h : Handle) (d : Disk) (il : Nat) (cut : Nat → Nat) : Disk :=
  { d.cutIdx il with
    files := fun i => if i ≤ h.headId then ((d.cutIdx il).files i).take (cut i) else (d.cutIdx il).files i }

theorem cutIdx_files (d : Disk) (n : Nat) : (d.cutIdx n).files = d.files := by
  unfold Disk.cutIdx; split <;> rfl

/-- **Safe states.**  If every data file below the head is durable in full, every power-loss image
    that respects the durable lengths is exactly a crash cut of the property's crash model (INDEX
    and head file cut, older files intact) — so `crash_any_cut` applies: re-opening succeeds and
    yields a prefix with every item that survived completely, each byte-for-byte. -/
theorem powerloss_safe_when_older_synced {h : Handle} {d : Disk} {items : List Bytes} {u : Dur}
    (g : Good d items) (hk : HandleOk h d) (hs : OlderSynced h d u)
    (il : Nat) (cut : Nat → Nat) (hcut : ∀ i, u.file i ≤ cut i) (hil : INDEX_ENTRY_SIZE ≤ il) :
    powerImage h d il cut = applyCut d il h.headId (some (cut h.headId)) ∧
    ∃ h2 d2 n, «open» (powerImage h d il cut) = some (h2, d2) ∧ HandleOk h2 d2 ∧
      n ≤ items.length ∧ Good d2 (items.take n) ∧
      (∀ i, i < items.length → Survives h d il (some (cut h.headId)) i → i < n) := by
  have heq : powerImage h d il cut = applyCut d il h.headId (some (cut h.headId)) := by
    unfold powerImage applyCut Disk.cutFile
    simp only
    congr 1
    funext i
    rw [cutIdx_files]
    unfold setFile
    by_cases hi : i = h.headId
    · subst hi; simp
    · simp only [hi, if_false]
      by_cases hle : i ≤ h.headId
      · rw [if_pos hle]
        have hlt : i < h.headId := by omega
        exact List.take_of_length_le (Nat.le_trans (hs i hlt) (hcut i))
      · rw [if_neg hle]
  refine ⟨heq, ?_⟩
  rw [heq]
  exact crash_any_cut g hk il (some (cut h.headId)) hil

/-- `sync_all` keeps `OlderSynced` and makes the head durable in full -/
theorem olderSynced_sync {h : Handle} {d : Disk} {u : Dur} (hs : OlderSynced h d u) :
    OlderSynced h d (syncAll h d u) ∧ (d.files h.headId).length ≤ (syncAll h d u).file h.headId := by
  constructor
  · intro i hi
    have : i ≠ h.headId := by omega
    simp only [syncAll, this, if_false]
    exact hs i hi
  · simp [syncAll]

/-- **The discipline.**  An append keeps `OlderSynced` if it does not roll over, or if the head it
    rolls away from is durable in full at that moment. -/
theorem olderSynced_append (max : Nat) {h : Handle} {d : Disk} {u : Dur} (x : Bytes)
    (hs : OlderSynced h d u)
    (hroll : h.headBytes + x.length > max → (d.files h.headId).length ≤ u.file h.headId) :
    OlderSynced (append max h d x).1 (append max h d x).2 u := by
  unfold append
  by_cases hr : h.headBytes + x.length > max
  · simp only [hr, if_true]
    intro i hi
    have hne : i ≠ h.headId + 1 := by simp only at hi; omega
    simp only [setFile_other _ _ _ _ hne]
    by_cases he : i = h.headId
    · rw [he]; exact hroll hr
    · exact hs i (by simp only at hi; omega)
  · simp only [hr, if_false]
    intro i hi
    have hne : i ≠ h.headId := by simp only at hi; omega
    simp only [setFile_other _ _ _ _ hne]
    exact hs i hi

/-- `truncate` keeps `OlderSynced` (the new head is not above the old one; files below it are
    untouched) -/
theorem olderSynced_truncate {h : Handle} {d : Disk} {items : List Bytes} {u : Dur}
    (g : Good d items) (hk : HandleOk h d) (hs : OlderSynced h d u) (k : Nat) :
    OlderSynced (truncate h d k).1 (truncate h d k).2 u := by
  unfold truncate
  by_cases hg : k < 1 ∨ k + 1 ≥ h.number
  · rw [if_pos hg]; exact hs
  · rw [if_neg hg]
    cases he : (d.idx.take (k + 1))[k]? with
    | none => simp only [he]; exact hs
    | some e =>
      simp only [he]
      have he0 : d.idx[k]? = some e := by
        rw [List.getElem?_take] at he
        split at he
        · exact he
        · cases he
      have hle : e.fid ≤ h.headId := g.fid_le_head hk he0
      intro i hi
      have hi' : i < e.fid := hi
      have hne : i ≠ e.fid := by omega
      simp only [setFile_other _ _ _ _ hne]
      by_cases hx : e.fid ≠ h.headId
      · simp only [hx, ne_eq, not_false_eq_true, if_true]
        have : ¬ (i > e.fid ∧ i ∈ h.cache) := by omega
        simp only [this, if_false]
        exact hs i (by omega)
      · simp only [hx, if_false]
        exact hs i (by omega)

/-- **Witness that the discipline is necessary, and that the code does not follow it.**  The
    four-append batch `demoOps` (three items into file 0, the fourth rolls into file 1, one
    `sync_all` at the end — a `Freezer::freeze` call) ends with NOTHING of file 0 durable:
    `OlderSynced` fails, and `demoPowerLossDisk` (file 0 at 20 bytes) is an image that respects the
    durable lengths — the one on which items 2 and 3 are lost for good
    (`powerloss_older_file_short_is_not_repaired`). -/
theorem freeze_batch_rollover_leaves_older_file_unsynced :
    let s := (run 50 demoSys demoOps).getD demoSys
    let u := syncAll s.h s.d ⟨12, fun _ => 0⟩
    (s.h.headId, (s.d.files 0).length, u.file 0, u.file 1, u.idx) = (1, 45, 0, 15, 60) ∧
    (powerImage s.h s.d 60 (fun i => if i = 0 then 20 else 15)).files 0 = demoPowerLossDisk.files 0 ∧
    (powerImage s.h s.d 60 (fun i => if i = 0 then 20 else 15)).files 1 = demoPowerLossDisk.files 1 ∧
    (powerImage s.h s.d 60 (fun i => if i = 0 then 20 else 15)).idx = demoPowerLossDisk.idx := by
  decide

/-! ## round 6 — concurrent use as it exists

`freeze` and `truncate` read `self.number()` before taking the lock (`Model/FreezerTop.lean`,
`freezeFrom` / `truncateFrom`).  `TopOp.freezeRace` / `TopOp.truncateRace` put those operations —
with ANY stale value for a freeze — into the histories of `freezer_holds_chain_prefix`, which
now covers every interleaving of whole operations of a freezer thread with other threads'
freezes, truncates (guard `n0 ≤ number`), re-opens and crashes.  The statements below say what the
stale read does.  Stream `top` drives the real race with threads (op `race`). -/

/-- **A freeze that lost a race changes nothing.**  If `number` moved between a freeze's pre-lock
    read (`n0`) and its lock — a `truncate` (number fell) or another `freeze` (number grew) — the
    call appends nothing and leaves `number`, `tip` and every `retrieve` as they were; it returns
    `Err` iff its first iteration got as far as a block (`n0 < thr`, flag clear, block served), else
    `Ok` with an empty map. -/
theorem freeze_with_stale_number_is_harmless {c : Cfg} (ok : c.Ok) {s : Top} {chain : List Block}
    (hi : TopInv c s chain) (n0 thr : Nat) (get : Nat → Option Block) (stopped : Nat → Bool)
    (hne : n0 ≠ s.number) :
    (freezeFrom c s n0 thr get stopped).1 = s ∧
    Holds c (freezeFrom c s n0 thr get stopped).1 chain ∧
    ((freezeFrom c s n0 thr get stopped).2 = .err ↔
      n0 < thr ∧ stopped n0 = false ∧ (get n0).isSome = true) ∧
    ((freezeFrom c s n0 thr get stopped).2 ≠ .err → (freezeFrom c s n0 thr get stopped).2 = .ok []) := by
  obtain ⟨h1, h2, h3⟩ := freezeFrom_stale c s n0 thr get stopped hne
  refine ⟨h1, ?_, h2, h3⟩
  rw [h1]; exact holds_of_inv ok hi

/-- the un-raced operations are the instances "the pre-lock read is current" -/
theorem freeze_is_freezeFrom_current (c : Cfg) (s : Top) (thr : Nat) (get : Nat → Option Block)
    (stopped : Nat → Bool) :
    freeze c s thr get stopped = freezeFrom c s s.number thr get stopped ∧
    ∀ k, truncateTop c s k = truncateFrom c s s.number k := ⟨rfl, fun _ => rfl⟩

/-- **freeze racing truncate**: a freeze reads `number`, a `truncate k` (reorg) runs, the freeze
    takes the lock: the freezer holds exactly blocks `1..k` with tip = block `k`, the freeze added
    nothing of the stale branch (whatever the source serves), and a later freeze of a branch that
    links to block `k` is accepted (`truncate_then_freeze`). -/
theorem freeze_racing_truncate {c : Cfg} (ok : c.Ok) {s : Top} {chain : List Block}
    (hi : TopInv c s chain) (k : Nat) (h1 : 1 ≤ k) (h2 : k < chain.length)
    (thr : Nat) (get : Nat → Option Block) (stopped : Nat → Bool) :
    ∃ s1, truncateTop c s k = some s1 ∧
      (freezeFrom c s1 s.number thr get stopped).1 = s1 ∧
      Holds c (freezeFrom c s1 s.number thr get stopped).1 (chain.take k) ∧
      ((freezeFrom c s1 s.number thr get stopped).2 = .err ∨
       (freezeFrom c s1 s.number thr get stopped).2 = .ok []) := by
  obtain ⟨s1, ht, hi1⟩ := (truncateTop_spec ok hi k).1 ⟨h1, h2⟩
  have hn1 : s1.number = k + 1 := by
    have := hi1.number; simp only [List.length_take] at this; show s1.h.number = _; omega
  have hn : s.number = chain.length + 1 := hi.number
  have hne : s.number ≠ s1.number := by omega
  obtain ⟨e1, e2, _, e4⟩ := freeze_with_stale_number_is_harmless ok hi1 s.number thr get stopped hne
  refine ⟨s1, ht, e1, e2, ?_⟩
  by_cases he : (freezeFrom c s1 s.number thr get stopped).2 = .err
  · exact Or.inl he
  · exact Or.inr (e4 he)

/-- **freeze racing freeze** (the background freezer thread and another caller of `Shared::freeze`):
    both read the same `number`; the one that takes the lock second finds `number` moved iff the
    first appended something, and then appends nothing — no block is stored twice, none skipped -/
theorem freeze_racing_freeze (c : Cfg) (s : Top) (thrA thrB : Nat) (getA getB : Nat → Option Block)
    (stopA stopB : Nat → Bool) :
    let a := (freeze c s thrA getA stopA).1
    (a.number ≠ s.number →
      (freezeFrom c a s.number thrB getB stopB).1 = a) ∧
    (a.number = s.number →
      freezeFrom c a s.number thrB getB stopB = freeze c a thrB getB stopB) := by
  intro a
  constructor
  · intro hne
    exact (freezeFrom_stale c a s.number thrB getB stopB (fun h => hne h.symm)).1
  · intro he
    show freezeFrom c a s.h.number thrB getB stopB = freezeFrom c a a.h.number thrB getB stopB
    rw [show s.h.number = a.h.number from he.symm]

/-- **truncate racing freeze**: a truncate whose guard read `n0 ≤ number` (only freezes ran in
    between) never fails: it is the un-raced truncate, or — guard false on the stale value — a no-op -/
theorem truncate_with_stale_low_number {c : Cfg} (ok : c.Ok) {s : Top} {chain : List Block}
    (hi : TopInv c s chain) (n0 k : Nat) (hle : n0 ≤ s.number) :
    ∃ s' chain', truncateFrom c s n0 k = some s' ∧ TopInv c s' chain' ∧
      chain' = if 1 ≤ k ∧ k + 1 < n0 then chain.take k else chain := by
  have hnum : s.h.number = chain.length + 1 := hi.number
  have hle' : n0 ≤ s.h.number := hle
  by_cases hg : k > 0 ∧ k + 1 < n0
  · have hk : 1 ≤ k ∧ k < chain.length := by omega
    obtain ⟨s', h1, h2⟩ := (truncateTop_spec ok hi k).1 hk
    have heq : truncateFrom c s n0 k = truncateTop c s k := by
      unfold truncateFrom truncateTop
      rw [if_pos hg, if_pos (by omega : k > 0 ∧ k + 1 < s.h.number)]
    exact ⟨s', chain.take k, by rw [heq, h1], h2, by rw [if_pos (by omega)]⟩
  · exact ⟨s, chain, by simp [truncateFrom, hg], hi, by rw [if_neg (by omega)]⟩

/-- **Witness: two racing truncates can hit the `expect`.**  Four blocks frozen (`number` 5); thread
    2 evaluates the guard of `truncate 3` (`4 < 5`), thread 1 runs `truncate 1` (`number` 2), thread
    2 takes the lock: `FreezerFiles::truncate(3)` is now a no-op, `retrieve(3)` is `None`, and
    `.expect("frozen number sync with files")` panics.  (No caller in this tree runs two truncates
    concurrently; the model records it as `none`.) -/
theorem truncate_racing_truncate_can_panic :
    ((openTop demoCfg emptyDisk).bind fun s0 =>
      let s := (freeze demoCfg s0 5 (serve chainA 1) noStop).1
      (truncateTop demoCfg s 1).map fun s1 =>
        (s.number, s1.number, (truncateFrom demoCfg s1 s.number 3).isNone)) =
      some (5, 2, true) := by decide

/-- non-vacuity: a freeze that read `number = 4`, then `truncate 2` ran: served the old branch's
    block 4 it returns `Err` and stores nothing; the new branch is then frozen normally -/
example : ((openTop demoCfg emptyDisk).bind fun s0 =>
      let s := (freeze demoCfg s0 4 (serve chainA 1) noStop).1
      (truncateTop demoCfg s 2).map fun s1 =>
        let r := freezeFrom demoCfg s1 4 7 (serve chainA 1) noStop
        let r2 := freeze demoCfg r.1 5 (serve branchB 3) noStop
        (r.2, r.1.number, r.1.tip.map (·.hash), r2.2, r2.1.number)) =
    some (.err, 3, some 12, .ok [(23, 3, 1), (24, 4, 2)], 5) := by decide

/-- non-vacuity of the race histories: freeze, a raced freeze with a stale read, a raced truncate -/
example : ((openTop demoCfg emptyDisk).bind fun s0 => runTop demoCfg s0
    [.freeze 5 (serve chainA 1) noStop, .truncateRace 4 2, .freezeRace 5 7 (serve chainA 1) noStop,
     .freezeRace 3 5 (serve branchB 3) noStop]).map demoView =
    some (5, some 24, [(0, 0), (0, 7), (0, 14), (1, 8), (1, 14)], .some [23, 12, 3, 1, 5, 5, 5]) := by
  decide

/-! ## round 6, second increment — the `Freezer` layer with the exact LRU

`freezeL` / `truncateTopL` / `openTopL` / `retrieveTopL` (`Model/FreezerTop.lean`) are what the `top`
driver runs; stream `top` compares `Freezer::verif_cached_ids` after every operation and after the
oracle's reads.  They refine the same specification as the plain operations and keep, in addition,
"no cached handle above the head". -/

/-- `freeze` with the exact LRU appends exactly what the plain `freeze` appends (`specRun`), returns
    the same `Ok`/`Err`, and keeps every cached handle at or below the head -/
theorem freezeL_refines_spec (cap : Nat) {c : Cfg} (ok : c.Ok) {s : Top} {chain : List Block}
    (hi : TopInv c s chain) (thr : Nat) (get : Nat → Option Block) (stopped : Nat → Bool) :
    ∃ new, TopInv c (freezeL cap c s thr get stopped).1 (chain ++ new) ∧
      Holds c (freezeL cap c s thr get stopped).1 (chain ++ new) ∧
      TopInv c (freeze c s thr get stopped).1 (chain ++ new) ∧
      ((freezeL cap c s thr get stopped).2 = (freeze c s thr get stopped).2) := by
  obtain ⟨h1, h2⟩ := freezeL_spec cap hi thr get stopped
  obtain ⟨p1, p2⟩ := freeze_spec hi thr get stopped
  exact ⟨_, h2, holds_of_inv ok h2, p2, by rw [h1, p1]⟩

/-- `truncate` with the exact LRU: keeps exactly blocks `1..k` (no-op outside `1 ≤ k < count`), and
    no cached handle is left above the new head -/
theorem truncateTopL_spec (cap : Nat) {c : Cfg} (ok : c.Ok) {s : Top} {chain : List Block}
    (hi : TopInv c s chain) (hc : CacheOk ⟨s.h, s.d⟩) (k : Nat) :
    (1 ≤ k ∧ k < chain.length →
      ∃ s', truncateTopL cap c s k = some s' ∧ TopInv c s' (chain.take k) ∧ CacheOk ⟨s'.h, s'.d⟩) ∧
    (¬ (1 ≤ k ∧ k < chain.length) → truncateTopL cap c s k = some s) := by
  have hnum := hi.number
  constructor
  · intro ⟨h1, h2⟩
    obtain ⟨s1, items', hst, hinv, hc1, hspec⟩ :=
      lru_step_inv cap 0 ⟨s.h, s.d⟩ (chain.map (stored c)) (.truncate k) ⟨hi.good, hi.handle⟩ hc
    simp only [stepL, Option.some.injEq] at hst
    subst hst
    have hit : items' = (chain.take k).map (stored c) := by
      have : items' = if 1 ≤ k ∧ k < (chain.map (stored c)).length then (chain.map (stored c)).take k
          else chain.map (stored c) := hspec
      rw [this, if_pos (by simpa using ⟨h1, h2⟩), List.map_take]
    subst hit
    obtain ⟨b, hb⟩ : ∃ b, chain[k - 1]? = some b :=
      ⟨chain[k - 1]'(by omega), List.getElem?_eq_getElem _⟩
    have hb' : (chain.take k)[k - 1]? = some b := by
      rw [List.getElem?_take]; simp [hb]; omega
    have hr := readBlock_stored ok hinv.1 hinv.2 k b h1 hb'
    have hg : k > 0 ∧ k + 1 < s.h.number := by omega
    unfold truncateTopL truncateFromL
    rw [if_pos hg]
    simp only at hr ⊢
    rw [hr]
    refine ⟨_, rfl, ⟨hinv.1, ⟨hinv.2.1, hinv.2.2⟩, hi.linked.take k, ?_⟩, ?_⟩
    · show some b = _
      rw [getLast?_eq_getElem?]
      have : (chain.take k).length - 1 = k - 1 := by simp; omega
      rw [this, hb']
    · -- the promoted / inserted handle is the new head's file or was cached
      intro id hid
      have hid' : id ∈ retrieveCache cap (truncateL cap s.h s.d k).1 (truncateL cap s.h s.d k).2 k := hid
      obtain ⟨s2, _, hst2, _, hc2, _⟩ := lru_step_inv cap 0
        ⟨(truncateL cap s.h s.d k).1, (truncateL cap s.h s.d k).2⟩ _ (.retrieve k) hinv hc1
      simp only [stepL, Option.some.injEq] at hst2
      subst hst2
      exact hc2 id hid'
  · intro hn
    have hg : ¬ (k > 0 ∧ k + 1 < s.h.number) := by omega
    unfold truncateTopL truncateFromL
    rw [if_neg hg]

end CkbVerif.C09
