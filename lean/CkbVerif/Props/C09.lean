import CkbVerif.Lemmas.Freezer
import CkbVerif.Lemmas.FreezerTop

/-!
# C09 — the freezer never loses or corrupts a frozen item, whatever crash interrupts it

Model: `CkbVerif/Model/Freezer.lean` (the executable definitions the `ckbmodel C09` driver runs and
the harness compares with the real `FreezerFiles`).  `Good d items` says the disk `d` holds exactly
`items` (index clean, every item's bytes where its index entry says, head file ends at the last
offset); `HandleOk h d` says the in-memory handle agrees with the disk.

The theorems are about the *repaired* repair loop (`openWith true`, the code after the `fix:`
commit); `open_unfixed_loses_items` keeps the witness for the loop as it was.

Second half of the file: the layer above, `Freezer` (freezer.rs; model `Model/FreezerTop.lean`, run
by `ckbmodel C09 top` against the real `ckb_freezer::Freezer`): `freezer_holds_chain_prefix`,
`freeze_only_appends_contiguously`, `freeze_after_crash_continues`, `truncate_then_freeze`; and the
statement that the read-handle LRU cannot change an answer (`lru_cannot_change_answers`).
-/
namespace CkbVerif.C09
open CkbVerif.Freezer

/-! ## single operations -/

/-- Opening a fresh directory gives an empty, usable freezer. -/
theorem open_empty : ∃ h d, «open» emptyDisk = some (h, d) ∧ Good d [] ∧ HandleOk h d := by
  refine ⟨_, _, rfl, ⟨rfl, ?_, ?_⟩, rfl, ?_⟩
  · simp [RChain]
  · intro e rest hr; simp at hr; obtain ⟨rfl, _⟩ := hr; rfl
  · intro e rest hr; simp at hr; obtain ⟨rfl, _⟩ := hr; exact ⟨rfl, rfl⟩

/-- Re-opening a consistent disk succeeds and changes nothing. -/
theorem reopen_good {d : Disk} {items : List Bytes} (g : Good d items) :
    ∃ h d2, «open» d = some (h, d2) ∧ Good d2 items ∧ HandleOk h d2 := by
  obtain ⟨h, ho, hh⟩ := open_good_aux (fixed := true) g
  exact ⟨h, _, ho, g.set_tail, hh⟩

/-- Appending keeps the disk consistent, with the new item last (same file or rollover). -/
theorem append_good (max : Nat) {h : Handle} {d : Disk} {items : List Bytes} (x : Bytes)
    (g : Good d items) (hk : HandleOk h d) :
    Good (append max h d x).2 (items ++ [x]) ∧ HandleOk (append max h d x).1 (append max h d x).2 :=
  append_good_aux x g hk

/-- Every stored item is returned byte-for-byte … -/
theorem retrieve_stored {h : Handle} {d : Disk} {items : List Bytes}
    (g : Good d items) (hk : HandleOk h d) (i : Nat) (it : Bytes) (hi : 1 ≤ i)
    (hit : items[i - 1]? = some it) : retrieve h d i = .some it :=
  retrieve_good_aux g hk i it hi hit

/-- … and nothing else is (item 0 and items beyond the end read `None`, never an error). -/
theorem retrieve_absent {h : Handle} {d : Disk} {items : List Bytes}
    (g : Good d items) (hk : HandleOk h d) (i : Nat) (hi : i = 0 ∨ items.length < i) :
    retrieve h d i = .none :=
  retrieve_none_aux g hk i hi

/-- `truncate k` keeps exactly the first `k` items (and is a no-op outside `1 ≤ k < count`). -/
theorem truncate_good {h : Handle} {d : Disk} {items : List Bytes}
    (g : Good d items) (hk : HandleOk h d) (k : Nat) :
    (1 ≤ k ∧ k < items.length →
      Good (truncate h d k).2 (items.take k) ∧ HandleOk (truncate h d k).1 (truncate h d k).2) ∧
    (¬ (1 ≤ k ∧ k < items.length) → truncate h d k = (h, d)) := by
  constructor
  · intro ⟨h1, h2⟩; exact truncate_good_aux g hk k h1 h2
  · intro hn
    apply truncate_noop_aux
    have := g.idx_length
    rw [hk.1]; omega

/-- A crash cut of an append is admissible when the index is not shorter than before the append
    and, if the item went into the existing head file, the earlier items' bytes are still there;
    a missing data file is possible only for a freshly rolled head. -/
def CutOk (max : Nat) (h : Handle) (d : Disk) (x : Bytes) (il : Nat) (fl : Option Nat) : Prop :=
  d.idxSize ≤ il ∧
  (∀ m, fl = some m → ¬ (h.headBytes + x.length > max) → h.headBytes ≤ m) ∧
  (fl = none → h.headBytes + x.length > max)

instance (max h d x il fl) : Decidable (CutOk max h d x il fl) := by
  unfold CutOk
  cases fl with
  | none => simp only [reduceCtorEq, false_implies, implies_true, true_and, forall_const]; infer_instance
  | some m =>
    simp only [Option.some.injEq, forall_eq', reduceCtorEq, false_implies, and_true]
    infer_instance

/-- **Crash safety of one append** (every cut, including right at a rollover): re-opening succeeds
    and yields `items` or `items ++ [x]`, the latter whenever index entry and data are complete. -/
theorem crash_cut_open (max : Nat) {h : Handle} {d : Disk} {items : List Bytes} (x : Bytes)
    (g : Good d items) (hk : HandleOk h d) (il : Nat) (fl : Option Nat) (hc : CutOk max h d x il fl) :
    ∃ h2 d2, «open» (applyCut (append max h d x).2 il (append max h d x).1.headId fl) = some (h2, d2) ∧
      HandleOk h2 d2 ∧ (Good d2 items ∨ Good d2 (items ++ [x])) ∧
      ((append max h d x).2.idxSize ≤ il → (∃ m, fl = some m ∧ (append max h d x).1.headBytes ≤ m) →
        Good d2 (items ++ [x])) :=
  crash_cut_open_aux x g hk il fl hc.1 hc.2.1 hc.2.2

/-- which items survive a cut completely: index entry inside the first `il` bytes and data either in
    an older (intact) file or inside the first `cutLen fl` bytes of the head file -/
def Survives (h : Handle) (d : Disk) (il : Nat) (fl : Option Nat) (i : Nat) : Prop :=
  ∃ e, d.idx[i + 1]? = some e ∧ INDEX_ENTRY_SIZE * (i + 2) ≤ il ∧ (e.fid < h.headId ∨ e.off ≤ cutLen fl)

/-- **Crash safety for any cut** (this is the property's quantifier: index file and head data file
    independently at *any* byte lengths — e.g. anywhere between the last sync and the final sizes
    of a whole batch of appends — older data files intact): re-opening succeeds and yields a
    prefix of the items that contains every item that survived completely. -/
theorem crash_any_cut {h : Handle} {d : Disk} {items : List Bytes}
    (g : Good d items) (hk : HandleOk h d) (il : Nat) (fl : Option Nat) (hil : INDEX_ENTRY_SIZE ≤ il) :
    ∃ h2 d2 n, «open» (applyCut d il h.headId fl) = some (h2, d2) ∧ HandleOk h2 d2 ∧
      n ≤ items.length ∧ Good d2 (items.take n) ∧
      (∀ i, i < items.length → Survives h d il fl i → i < n) := by
  obtain ⟨h2, d2, n, ho, hh, hn, hg, hs⟩ := crash_any_cut_aux g hk il fl hil
  exact ⟨h2, d2, n, ho, hh, hn, hg, fun i hi ⟨e, he1, he2, he3⟩ => hs i e hi he1 he2 he3⟩

/-! ## every history -/

inductive Op where
  | append (x : Bytes)
  | truncate (k : Nat)
  | reopen
  /-- an append cut short by a crash (index left at `il` bytes, data file at `fl`), then re-open -/
  | crashAppend (x : Bytes) (il : Nat) (fl : Option Nat)
  /-- a crash that leaves the index at `il` bytes and the head data file at `fl`, then re-open -/
  | crash (il : Nat) (fl : Option Nat)

structure Sys where
  h : Handle
  d : Disk

/-- one step of the system; `none` = a re-open failed -/
def step (max : Nat) (s : Sys) : Op → Option Sys
  | .append x => some ⟨(append max s.h s.d x).1, (append max s.h s.d x).2⟩
  | .truncate k => some ⟨(truncate s.h s.d k).1, (truncate s.h s.d k).2⟩
  | .reopen => («open» s.d).map fun r => ⟨r.1, r.2⟩
  | .crashAppend x il fl =>
    if CutOk max s.h s.d x il fl then
      («open» (applyCut (append max s.h s.d x).2 il (append max s.h s.d x).1.headId fl)).map
        fun r => ⟨r.1, r.2⟩
    else some s
  | .crash il fl =>
    if INDEX_ENTRY_SIZE ≤ il then
      («open» (applyCut s.d il s.h.headId fl)).map fun r => ⟨r.1, r.2⟩
    else some s

def run (max : Nat) : Sys → List Op → Option Sys
  | s, [] => some s
  | s, op :: ops => (step max s op).bind fun s' => run max s' ops

/-- what the item list may be after a step (the specification: a plain list) -/
def SpecStep (max : Nat) (s : Sys) (items : List Bytes) : Op → List Bytes → Prop
  | .append x, items' => items' = items ++ [x]
  | .truncate k, items' => items' = if 1 ≤ k ∧ k < items.length then items.take k else items
  | .reopen, items' => items' = items
  | .crashAppend x il fl, items' =>
    if CutOk max s.h s.d x il fl then
      (items' = items ∨ items' = items ++ [x]) ∧
      ((append max s.h s.d x).2.idxSize ≤ il →
        (∃ m, fl = some m ∧ (append max s.h s.d x).1.headBytes ≤ m) → items' = items ++ [x])
    else items' = items
  | .crash il fl, items' =>
    if INDEX_ENTRY_SIZE ≤ il then
      ∃ n, n ≤ items.length ∧ items' = items.take n ∧
        (∀ i, i < items.length → Survives s.h s.d il fl i → i < n)
    else items' = items

def Inv (s : Sys) (items : List Bytes) : Prop := Good s.d items ∧ HandleOk s.h s.d

theorem step_inv (max : Nat) (s : Sys) (items : List Bytes) (op : Op) (hi : Inv s items) :
    ∃ s' items', step max s op = some s' ∧ SpecStep max s items op items' ∧ Inv s' items' := by
  cases op with
  | append x => exact ⟨_, _, rfl, rfl, append_good max x hi.1 hi.2⟩
  | truncate k =>
    by_cases hk : 1 ≤ k ∧ k < items.length
    · exact ⟨_, _, rfl, by simp [SpecStep, hk], (truncate_good hi.1 hi.2 k).1 hk⟩
    · refine ⟨_, items, rfl, by simp [SpecStep, hk], ?_⟩
      rw [(truncate_good hi.1 hi.2 k).2 hk]; exact hi
  | reopen =>
    obtain ⟨h, d2, ho, hg, hh⟩ := reopen_good hi.1
    exact ⟨⟨h, d2⟩, items, by simp [step, ho], rfl, hg, hh⟩
  | crashAppend x il fl =>
    by_cases hc : CutOk max s.h s.d x il fl
    · obtain ⟨h2, d2, ho, hh, hg, hfull⟩ := crash_cut_open max x hi.1 hi.2 il fl hc
      by_cases hw : (append max s.h s.d x).2.idxSize ≤ il ∧
          (∃ m, fl = some m ∧ (append max s.h s.d x).1.headBytes ≤ m)
      · exact ⟨⟨h2, d2⟩, items ++ [x], by simp [step, hc, ho],
          by show (if CutOk max s.h s.d x il fl then _ else _); rw [if_pos hc]; exact ⟨Or.inr rfl, fun _ _ => rfl⟩,
          hfull hw.1 hw.2, hh⟩
      · rcases hg with hg | hg
        · exact ⟨⟨h2, d2⟩, items, by simp [step, hc, ho],
            by show (if CutOk max s.h s.d x il fl then _ else _); rw [if_pos hc]; exact ⟨Or.inl rfl, fun a b => absurd ⟨a, b⟩ hw⟩,
            hg, hh⟩
        · exact ⟨⟨h2, d2⟩, items ++ [x], by simp [step, hc, ho],
            by show (if CutOk max s.h s.d x il fl then _ else _); rw [if_pos hc]; exact ⟨Or.inr rfl, fun _ _ => rfl⟩, hg, hh⟩
    · exact ⟨s, items, by simp [step, hc], by simp [SpecStep, hc], hi⟩
  | crash il fl =>
    by_cases hc : INDEX_ENTRY_SIZE ≤ il
    · obtain ⟨h2, d2, n, ho, hh, hn, hg, hs⟩ := crash_any_cut hi.1 hi.2 il fl hc
      exact ⟨⟨h2, d2⟩, items.take n, by simp [step, hc, ho],
        by show (if INDEX_ENTRY_SIZE ≤ il then _ else _); rw [if_pos hc]; exact ⟨n, hn, rfl, hs⟩,
        hg, hh⟩
    · exact ⟨s, items, by simp [step, hc], by simp [SpecStep, hc], hi⟩

/-- the specification lifted to op sequences -/
inductive SpecRun (max : Nat) : Sys → List Bytes → List Op → Sys → List Bytes → Prop
  | nil (s items) : SpecRun max s items [] s items
  | cons {s items op s' items' ops s'' items''} :
      step max s op = some s' → SpecStep max s items op items' →
      SpecRun max s' items' ops s'' items'' → SpecRun max s items (op :: ops) s'' items''

/-- **Every history**: from any consistent state, any sequence of appends, truncations, re-opens,
    crash-cut appends and arbitrary crash cuts runs without a failed open, follows the list specification, and ends in a
    consistent state (so `retrieve_stored` / `retrieve_absent` apply to it). -/
theorem history_inv (max : Nat) : ∀ (ops : List Op) (s : Sys) (items : List Bytes), Inv s items →
    ∃ s' items', run max s ops = some s' ∧ SpecRun max s items ops s' items' ∧ Inv s' items'
  | [], s, items, hi => ⟨s, items, rfl, .nil s items, hi⟩
  | op :: ops, s, items, hi => by
    obtain ⟨s1, items1, hs, hsp, hi1⟩ := step_inv max s items op hi
    obtain ⟨s2, items2, hr, hsr, hi2⟩ := history_inv max ops s1 items1 hi1
    exact ⟨s2, items2, by simp [run, hs, hr], .cons hs hsp hsr, hi2⟩

/-- From the empty directory: after any history, the items are a list `items'` allowed by the
    specification and every one of them reads back byte-for-byte. -/
theorem history_from_empty (max : Nat) (ops : List Op) :
    ∃ h d, «open» emptyDisk = some (h, d) ∧
    ∃ s' items', run max ⟨h, d⟩ ops = some s' ∧ SpecRun max ⟨h, d⟩ [] ops s' items' ∧
      (∀ i it, 1 ≤ i → items'[i - 1]? = some it → retrieve s'.h s'.d i = .some it) ∧
      (∀ i, i = 0 ∨ items'.length < i → retrieve s'.h s'.d i = .none) := by
  obtain ⟨h, d, ho, hg, hh⟩ := open_empty
  obtain ⟨s', items', hr, hs, hi⟩ := history_inv max ops ⟨h, d⟩ [] ⟨hg, hh⟩
  exact ⟨h, d, ho, s', items', hr, hs,
    fun i it h1 h2 => retrieve_stored hi.1 hi.2 i it h1 h2,
    fun i h1 => retrieve_absent hi.1 hi.2 i h1⟩

/-! ## non-vacuity and regression witnesses (kernel-evaluated on the executable model) -/

/-- three items in file 0 and a fourth rolled into file 1 (max 50, 15-byte items) -/
def demoOps : List Op :=
  [.append (List.replicate 15 1), .append (List.replicate 15 2), .append (List.replicate 15 3),
   .append (List.replicate 15 4)]

def demoSys : Sys := ⟨{ number := 1, headId := 0, headBytes := 0, cache := [0] },
  { idx := [⟨0, 0⟩], tail := 0, files := fun _ => [] }⟩

/-- the history above really rolls over and all four items read back -/
example : ((run 50 demoSys demoOps).map fun s =>
    (s.d.idx, retrieve s.h s.d 1, retrieve s.h s.d 4)) =
    some ([⟨0, 0⟩, ⟨0, 15⟩, ⟨0, 30⟩, ⟨0, 45⟩, ⟨1, 15⟩],
          .some (List.replicate 15 1), .some (List.replicate 15 4)) := by decide

/-- the disk after the fourth append's index entry reached the disk but its data did not -/
def demoCrashDisk : Disk :=
  let s := (run 50 demoSys demoOps).getD demoSys
  applyCut s.d (12 * 5) 1 none

/-- the repaired loop slips back into file 0 and keeps the three fully written items -/
theorem open_fixed_keeps_items :
    ((openWith true demoCrashDisk).map fun r => (r.1.number, r.1.headId, retrieve r.1 r.2 3)) =
      some (4, 0, .some (List.replicate 15 3)) := by decide

/-- the loop as it was (re-opening the dropped entry's file) discards every item: the defect
    repaired by the `fix:` commit in /repo (freezer/src/freezer_files.rs) -/
theorem open_unfixed_loses_items :
    ((openWith false demoCrashDisk).map fun r => (r.1.number, retrieve r.1 r.2 1)) =
      some (1, .none) := by decide

/-- a batch crash: after the four appends the index keeps 4 entries + 7 bytes and the head file
    (file 1) is gone — items 1..3 (file 0, intact) survive and are kept -/
example : let s := (run 50 demoSys demoOps).getD demoSys
    ((step 50 s (.crash (12 * 4 + 7) none)).map fun s' => (s'.h.number, retrieve s'.h s'.d 3)) =
      some (4, .some (List.replicate 15 3)) := by decide

/-- the translated constants are the ones the index layout needs: a 4-byte file id and an 8-byte
    offset make a 12-byte entry -/
theorem entry_layout : Gen.Freezer.INDEX_ENTRY_SIZE = Gen.Freezer.FILE_ID_BYTES / 8 + 8 ∧
    0 < Gen.Freezer.INDEX_ENTRY_SIZE := by decide


/-! ## the read-handle LRU cannot change an answer

`Handle.cache` (the ids in the `files` LRU) is not constrained by `Inv`: every theorem above holds
for any cache content, and `truncate` removes exactly the cached files above the new head.  The
statement below makes the consequence explicit: two systems that hold the same items — whatever
their caches are and whatever orphan files lie above their heads — go through any sequence of
appends, truncations and re-opens with identical answers.  (`Model/FreezerTop.lean` has the reading
of the Rust code behind it.) -/

def Op.plain : Op → Bool
  | .append _ => true
  | .truncate _ => true
  | .reopen => true
  | _ => false

theorem same_items_same_answers {s t : Sys} {items : List Bytes} (hs : Inv s items) (ht : Inv t items) :
    s.h.number = t.h.number ∧ ∀ i, retrieve s.h s.d i = retrieve t.h t.d i := by
  refine ⟨by rw [hs.2.1, ht.2.1, hs.1.idx_length, ht.1.idx_length], fun i => ?_⟩
  by_cases hi : i = 0 ∨ items.length < i
  · rw [retrieve_absent hs.1 hs.2 i hi, retrieve_absent ht.1 ht.2 i hi]
  · obtain ⟨it, hit⟩ : ∃ it, items[i - 1]? = some it :=
      ⟨items[i - 1]'(by omega), List.getElem?_eq_getElem _⟩
    rw [retrieve_stored hs.1 hs.2 i it (by omega) hit, retrieve_stored ht.1 ht.2 i it (by omega) hit]

theorem lru_cannot_change_answers (max : Nat) : ∀ (ops : List Op), (∀ op ∈ ops, op.plain = true) →
    ∀ (s t : Sys) (items : List Bytes), Inv s items → Inv t items →
    ∃ s' t' items', run max s ops = some s' ∧ run max t ops = some t' ∧
      Inv s' items' ∧ Inv t' items' ∧
      s'.h.number = t'.h.number ∧ ∀ i, retrieve s'.h s'.d i = retrieve t'.h t'.d i
  | [], _, s, t, items, hs, ht =>
    ⟨s, t, items, rfl, rfl, hs, ht, (same_items_same_answers hs ht).1, (same_items_same_answers hs ht).2⟩
  | op :: ops, hp, s, t, items, hs, ht => by
    obtain ⟨s1, i1, hs1, hsp1, hi1⟩ := step_inv max s items op hs
    obtain ⟨t1, j1, ht1, htp1, hj1⟩ := step_inv max t items op ht
    have hpl := hp op (by simp)
    have : i1 = j1 := by
      cases op with
      | append x => simp only [SpecStep] at hsp1 htp1; rw [hsp1, htp1]
      | truncate k => simp only [SpecStep] at hsp1 htp1; rw [hsp1, htp1]
      | reopen => simp only [SpecStep] at hsp1 htp1; rw [hsp1, htp1]
      | crashAppend x il fl => simp [Op.plain] at hpl
      | crash il fl => simp [Op.plain] at hpl
    subst this
    obtain ⟨s', t', items', h1, h2, h3⟩ :=
      lru_cannot_change_answers max ops (fun o ho => hp o (by simp [ho])) s1 t1 i1 hi1 hj1
    exact ⟨s', t', items', by simp [run, hs1, h1], by simp [run, ht1, h2], h3⟩

/-- two handles on the same disk that differ in the cached ids only (and in orphan files the
    cache would have deleted): after a cross-file truncate one of them leaves file 1 behind, the
    answers stay the same -/
example :
    let s := (run 50 demoSys demoOps).getD demoSys
    let a := truncate s.h s.d 2
    let b := truncate { s.h with cache := [] } s.d 2
    ((a.2.files 1).length, (b.2.files 1).length, a.1.number, b.1.number,
      retrieve a.1 a.2 2 == retrieve b.1 b.2 2, retrieve a.1 a.2 3 == retrieve b.1 b.2 3) =
      (0, 15, 3, 3, true, true) := by decide

/-! ## the `Freezer` layer (`freezer/src/freezer.rs`, model `Model/FreezerTop.lean`)

Items are blocks; `c : Cfg` carries the compression pair `(cmp, dcmp)` and the block codec
`(enc, dec)`; **every theorem assumes `c.Ok`: `dcmp (cmp x) = some x` (decompress ∘ compress = id)
and `dec (enc b) = some b`** — nothing else about snappy or molecule.  `TopInv c s chain` (in
`Lemmas/FreezerTop.lean`): the disk holds exactly `chain.map (cmp ∘ enc)`, the handle agrees with
it, `chain` is parent-linked and `s.tip` is its last block. -/

open CkbVerif.FreezerTop

/-- what an observer reads from a freezer that holds `chain`: `number`, `tip`, every `retrieve` -/
structure Holds (c : Cfg) (s : Top) (chain : List Block) : Prop where
  number : s.number = chain.length + 1
  /-- ONE parent-linked chain -/
  linked : Linked chain
  /-- `tip` is the last stored block (`none` iff nothing is stored) -/
  tip : s.tip = chain.getLast?
  /-- blocks `1 .. number-1` byte-for-byte (index 0 is the default entry: `retrieve 0 = None`) -/
  stored : ∀ i b, 1 ≤ i → chain[i - 1]? = some b → retrieveTop c s i = .some (c.enc b)
  absent : ∀ i, i = 0 ∨ chain.length < i → retrieveTop c s i = .none

theorem holds_of_inv {c : Cfg} (ok : c.Ok) {s : Top} {chain : List Block} (hi : TopInv c s chain) :
    Holds c s chain :=
  ⟨hi.number, hi.linked, hi.tip,
   fun i b h1 h2 => retrieveRaw_stored ok hi.good hi.handle i b h1 h2,
   fun i h => retrieveRaw_absent hi.good hi.handle i h⟩

/-- `Freezer::open` on a fresh directory: number 1, no tip -/
theorem open_top_empty (c : Cfg) (ok : c.Ok) : ∃ s, openTop c emptyDisk = some s ∧ TopInv c s [] := by
  obtain ⟨h, d, ho, hg, hh⟩ := open_empty
  obtain ⟨s, hs, hi, _, _⟩ := openTop_of_open (c := c) (chain := []) ok ho hg hh Linked.nil
  exact ⟨s, hs, hi⟩

inductive TopOp where
  /-- `freeze(threshold, get_block_by_number)`; `stopped n` = the stop flag as seen by the
      iteration for height `n` (so every prefix of the loop is a `freeze`) -/
  | freeze (thr : Nat) (get : Nat → Option Block) (stopped : Nat → Bool)
  | truncate (k : Nat)
  | reopen
  /-- a crash that leaves the index at `il` bytes and the head data file at `fl`, then `open` -/
  | crash (il : Nat) (fl : Option Nat)

/-- one step; `none` = `Freezer::open` / `Freezer::truncate` returned an error -/
def stepTop (c : Cfg) (s : Top) : TopOp → Option Top
  | .freeze thr get stopped => some (freeze c s thr get stopped).1
  | .truncate k => truncateTop c s k
  | .reopen => openTop c s.d
  | .crash il fl => if INDEX_ENTRY_SIZE ≤ il then crashOpen c s il fl else some s

def runTop (c : Cfg) : Top → List TopOp → Option Top
  | s, [] => some s
  | s, op :: ops => (stepTop c s op).bind fun s' => runTop c s' ops

/-- the specification on the plain list of stored blocks -/
def SpecStepTop (s : Top) (chain : List Block) : TopOp → List Block → Prop
  | .freeze thr get _, chain' =>
    ∃ new, chain' = chain ++ new ∧ new.length ≤ thr - (chain.length + 1) ∧
      ∀ j b, new[j]? = some b → get (chain.length + 1 + j) = some b
  | .truncate k, chain' => chain' = if 1 ≤ k ∧ k < chain.length then chain.take k else chain
  | .reopen, chain' => chain' = chain
  | .crash il fl, chain' =>
    if INDEX_ENTRY_SIZE ≤ il then
      ∃ n, n ≤ chain.length ∧ chain' = chain.take n ∧
        (∀ i, i < chain.length → Survives s.h s.d il fl i → i < n)
    else chain' = chain

theorem step_top_inv {c : Cfg} (ok : c.Ok) (s : Top) (chain : List Block) (op : TopOp)
    (hi : TopInv c s chain) :
    ∃ s' chain', stepTop c s op = some s' ∧ SpecStepTop s chain op chain' ∧ TopInv c s' chain' := by
  cases op with
  | freeze thr get stopped =>
    obtain ⟨_, h2⟩ := freeze_spec hi thr get stopped
    exact ⟨_, _, rfl, ⟨_, rfl, specRun_length_le _ _ _ _ _, fun j b hj => specRun_get _ _ _ _ _ j b hj⟩, h2⟩
  | truncate k =>
    by_cases hk : 1 ≤ k ∧ k < chain.length
    · obtain ⟨s', h1, h2⟩ := (truncateTop_spec ok hi k).1 hk
      exact ⟨s', _, h1, by simp [SpecStepTop, hk], h2⟩
    · exact ⟨s, chain, (truncateTop_spec ok hi k).2 hk, by simp [SpecStepTop, hk], hi⟩
  | reopen =>
    obtain ⟨h, d2, ho, hg, hh⟩ := reopen_good hi.good
    obtain ⟨s', hs, hi', _, _⟩ := openTop_of_open ok ho hg hh hi.linked
    exact ⟨s', chain, hs, rfl, hi'⟩
  | crash il fl =>
    by_cases hc : INDEX_ENTRY_SIZE ≤ il
    · obtain ⟨s', n, ho, hn, hi', hs⟩ := crashOpen_spec ok hi il fl hc
      refine ⟨s', chain.take n, by simp [stepTop, hc, ho], ?_, hi'⟩
      show (if INDEX_ENTRY_SIZE ≤ il then _ else _)
      rw [if_pos hc]
      exact ⟨n, hn, rfl, fun i h1 ⟨e, he1, he2, he3⟩ => hs i e h1 he1 he2 he3⟩
    · exact ⟨s, chain, by simp [stepTop, hc], by simp [SpecStepTop, hc], hi⟩

inductive SpecRunTop (c : Cfg) : Top → List Block → List TopOp → Top → List Block → Prop
  | nil (s chain) : SpecRunTop c s chain [] s chain
  | cons {s chain op s' chain' ops s'' chain''} :
      stepTop c s op = some s' → SpecStepTop s chain op chain' →
      SpecRunTop c s' chain' ops s'' chain'' → SpecRunTop c s chain (op :: ops) s'' chain''

theorem top_history_inv {c : Cfg} (ok : c.Ok) : ∀ (ops : List TopOp) (s : Top) (chain : List Block),
    TopInv c s chain →
    ∃ s' chain', runTop c s ops = some s' ∧ SpecRunTop c s chain ops s' chain' ∧ TopInv c s' chain'
  | [], s, chain, hi => ⟨s, chain, rfl, .nil s chain, hi⟩
  | op :: ops, s, chain, hi => by
    obtain ⟨s1, c1, hs, hsp, hi1⟩ := step_top_inv ok s chain op hi
    obtain ⟨s2, c2, hr, hsr, hi2⟩ := top_history_inv ok ops s1 c1 hi1
    exact ⟨s2, c2, by simp [runTop, hs, hr], .cons hs hsp hsr, hi2⟩

/-- **(a)** After ANY history of freeze (any threshold, any block source, any stop flag) /
    truncate / re-open / crash at any cut (`crash_any_cut`'s cuts) starting from a fresh directory,
    no `open` or `truncate` fails and the freezer holds exactly the blocks `1 .. number-1` of ONE
    parent-linked chain `chain'`, each retrieved byte-for-byte (`enc b`, after decompression),
    nothing else, and `tip` is the last of them; `chain'` follows the list specification
    (`SpecRunTop`: freeze appends blocks returned by the source for consecutive heights, truncate
    takes a prefix, a crash keeps a prefix containing every block that survived completely). -/
theorem freezer_holds_chain_prefix {c : Cfg} (ok : c.Ok) (ops : List TopOp) :
    ∃ s0, openTop c emptyDisk = some s0 ∧
    ∃ s' chain', runTop c s0 ops = some s' ∧ SpecRunTop c s0 [] ops s' chain' ∧
      Holds c s' chain' := by
  obtain ⟨s0, ho, hi⟩ := open_top_empty c ok
  obtain ⟨s', chain', hr, hs, hi'⟩ := top_history_inv ok ops s0 [] hi
  exact ⟨s0, ho, s', chain', hr, hs, holds_of_inv ok hi'⟩

/-- **(b)** One `freeze` call from a freezer holding `chain`: it appends a list `new` of blocks
    such that the block stored at height `number + j` is the one the source returned for that
    height (no height skipped or reordered), at most up to the threshold; each appended block's
    parent hash is the hash of the block stored right before it — the tip at that moment — (none
    for the very first block of an empty freezer); `Ok` returns exactly their (hash, height,
    tx count); an `Err` is a parent mismatch of the next block against the (new) tip, with the
    blocks appended before it kept; an `Ok` short of the threshold is the stop flag or a missing
    block. -/
theorem freeze_only_appends_contiguously {c : Cfg} (ok : c.Ok) {s : Top} {chain : List Block}
    (hi : TopInv c s chain) (thr : Nat) (get : Nat → Option Block) (stopped : Nat → Bool) :
    ∃ new, TopInv c (freeze c s thr get stopped).1 (chain ++ new) ∧
      Holds c (freeze c s thr get stopped).1 (chain ++ new) ∧
      new.length ≤ thr - s.number ∧
      (∀ j b, new[j]? = some b → get (s.number + j) = some b) ∧
      (∀ j b t, new[j]? = some b → (chain ++ new)[chain.length + j - 1]? = some t →
        1 ≤ chain.length + j → b.parent = t.hash) ∧
      (∀ frozen, (freeze c s thr get stopped).2 = .ok frozen → frozen = entries s.number new) ∧
      ((freeze c s thr get stopped).2 = .err →
        ∃ b t, get (s.number + new.length) = some b ∧
          (freeze c s thr get stopped).1.tip = some t ∧ t.hash ≠ b.parent) ∧
      ((freeze c s thr get stopped).2 ≠ .err → new.length < thr - s.number →
        stopped (s.number + new.length) = true ∨ get (s.number + new.length) = none) := by
  obtain ⟨h1, h2⟩ := freeze_spec hi thr get stopped
  have hnum : s.number = chain.length + 1 := hi.number
  have hstop := specRun_stop get stopped (thr - (chain.length + 1)) (chain.length + 1) (tipHash chain)
  try simp only at h1 h2 hstop
  generalize hr : specRun get stopped (thr - (chain.length + 1)) (chain.length + 1) (tipHash chain) = r
    at h1 h2 hstop
  rw [← tipHash_append] at hstop
  refine ⟨r.1, h2, holds_of_inv ok h2, ?_, ?_, ?_, ?_, ?_, ?_⟩
  · rw [hnum, ← hr]; exact specRun_length_le _ _ _ _ _
  · intro j b hj; rw [hnum]; rw [← hr] at hj; exact specRun_get _ _ _ _ _ j b hj
  · intro j b t hj ht h1'
    have hb : (chain ++ r.1)[chain.length + j - 1 + 1]? = some b := by
      rw [List.getElem?_append_right (by omega)]
      have : chain.length + j - 1 + 1 - chain.length = j := by omega
      rw [this]; exact hj
    exact h2.linked _ t b ht hb
  · intro frozen hf
    rw [h1] at hf
    rw [hnum]
    split at hf
    · exact (FreezeOut.ok.inj hf).symm
    · cases hf
  · intro he
    rw [h1] at he
    have hf : r.2 = false := by
      cases h : r.2 with
      | true => simp [h] at he
      | false => rfl
    obtain ⟨b, t, hg, hl, hne, _⟩ := hstop.1 hf
    rw [hnum]
    have htip := h2.tip
    unfold tipHash at hl
    rw [← htip] at hl
    cases hT : (freeze c s thr get stopped).1.tip with
    | none => rw [hT] at hl; simp at hl
    | some tb =>
      rw [hT] at hl
      simp only [Option.map_some, Option.some.injEq] at hl
      exact ⟨b, tb, hg, rfl, by rw [hl]; exact hne⟩
  · intro hne hlt
    rw [h1] at hne
    have hf : r.2 = true := by
      cases h : r.2 with
      | true => rfl
      | false => simp [h] at hne
    rw [hnum] at hlt ⊢
    exact hstop.2 hf hlt

/-- **(c)** A freeze of the chain served by `get` up to `thr` is interrupted — after any number of
    completed appends (`thr1 ≤ thr`, any stop flag) and then by a crash at ANY cut — and the
    freezer is re-opened: `open` succeeds, `number` did not grow, and the next `freeze … thr`
    restarts at the re-opened `number` (its map is the entries of heights `number ..`) and ends
    with exactly the content (`number`, `tip`, every `retrieve`) and the same Ok/Err outcome as the
    crash-free run `freeze s0 thr`.  "Fed the same chain": `get` still returns the blocks already
    frozen (`hfed`; needed only for heights the crash lost). -/
theorem freeze_after_crash_continues {c : Cfg} (ok : c.Ok) {s0 : Top} {chain0 : List Block}
    (hi : TopInv c s0 chain0) (get : Nat → Option Block)
    (hfed : ∀ i b, chain0[i]? = some b → get (i + 1) = some b)
    (thr thr1 : Nat) (stop1 : Nat → Bool) (hthr : thr1 ≤ thr) (hnum : s0.number ≤ thr)
    (il : Nat) (fl : Option Nat) (hil : INDEX_ENTRY_SIZE ≤ il) :
    ∃ s2, crashOpen c (freeze c s0 thr1 get stop1).1 il fl = some s2 ∧
      s2.number ≤ (freeze c s0 thr1 get stop1).1.number ∧
      ∃ final, Holds c (freeze c s0 thr get noStop).1 final ∧
        Holds c (freeze c s2 thr get noStop).1 final ∧
        ((freeze c s0 thr get noStop).2 = .err ↔ (freeze c s2 thr get noStop).2 = .err) ∧
        (∀ fb, (freeze c s2 thr get noStop).2 = .ok fb →
          fb = entries s2.number (final.drop (s2.number - 1))) := by
  have hn0 : s0.number = chain0.length + 1 := hi.number
  -- the interrupted run
  obtain ⟨_, hi1⟩ := freeze_spec hi thr1 get stop1
  try simp only at hi1
  have hlen1 := specRun_length_le get stop1 (thr1 - (chain0.length + 1)) (chain0.length + 1) (tipHash chain0)
  have hget1 := specRun_get get stop1 (thr1 - (chain0.length + 1)) (chain0.length + 1) (tipHash chain0)
  generalize specRun get stop1 (thr1 - (chain0.length + 1)) (chain0.length + 1) (tipHash chain0) = r1
    at hi1 hlen1 hget1
  -- everything stored so far is what the source serves
  have hfedT : ∀ i b, 0 ≤ i → (chain0 ++ r1.1)[i]? = some b → get (i + 1) = some b := by
    intro i b _ hb
    by_cases h : i < chain0.length
    · rw [List.getElem?_append_left h] at hb; exact hfed i b hb
    · rw [List.getElem?_append_right (by omega)] at hb
      have := hget1 _ b hb
      rw [← this]; congr 1; omega
  have hlT := hi1.linked
  have hTlen : (chain0 ++ r1.1).length = chain0.length + r1.1.length := by simp
  -- the crash
  obtain ⟨s2, n, ho, hn, hi2, _⟩ := crashOpen_spec ok hi1 il fl hil
  have hn2 : s2.number = n + 1 := by
    have := hi2.number
    simp only [List.length_take] at this
    show s2.h.number = _; omega
  refine ⟨s2, ho, by rw [hn2]; have := hi1.number; show _ ≤ (freeze c s0 thr1 get stop1).1.h.number; omega, ?_⟩
  -- the crash-free run, resumed from `chain0`
  obtain ⟨_, hA⟩ := freeze_spec hi thr get noStop
  have hresA := specRun_resume get (chain0 ++ r1.1) 0 hfedT hlT r1.1.length chain0.length
    (thr - (chain0.length + 1)) (by omega) (by omega) (by omega) (by omega)
  have htk : (chain0 ++ r1.1).take chain0.length = chain0 := by simp
  have hdr : (chain0 ++ r1.1).drop chain0.length = r1.1 := by simp
  rw [htk, hdr] at hresA
  try simp only at hA
  rw [hresA] at hA
  -- the run after the crash, resumed from the surviving prefix
  obtain ⟨hB1, hB⟩ := freeze_spec hi2 thr get noStop
  have hlk : ((chain0 ++ r1.1).take n).length = n := by simp; omega
  have hresB := specRun_resume get (chain0 ++ r1.1) 0 hfedT hlT ((chain0 ++ r1.1).length - n) n
    (thr - (n + 1)) rfl (by omega) hn (by omega)
  try simp only at hB1 hB
  rw [hlk] at hB1 hB
  rw [hresB] at hB1 hB
  have hfuel : thr - (n + 1) - ((chain0 ++ r1.1).length - n) =
      thr - (chain0.length + 1) - r1.1.length := by omega
  rw [hfuel] at hB1 hB
  have hnl : (chain0 ++ r1.1).length + 1 = chain0.length + r1.1.length + 1 := by omega
  generalize hX : specRun get noStop (thr - (chain0.length + 1) - r1.1.length)
    ((chain0 ++ r1.1).length + 1) (tipHash (chain0 ++ r1.1)) = X at hA hB hB1
  have hfin : (chain0 ++ r1.1).take n ++ ((chain0 ++ r1.1).drop n ++ X.1) = chain0 ++ (r1.1 ++ X.1) := by
    rw [← List.append_assoc, List.take_append_drop, List.append_assoc]
  rw [hfin] at hB
  try simp only at hA
  refine ⟨chain0 ++ (r1.1 ++ X.1), holds_of_inv ok hA, holds_of_inv ok hB, ?_, ?_⟩
  · obtain ⟨hA1, _⟩ := freeze_spec hi thr get noStop
    try simp only at hA1
    rw [hresA, hX] at hA1
    rw [hA1, hB1]
    simp only
    cases X.2 <;> simp
  · intro fb hfb
    rw [hB1] at hfb
    simp only at hfb
    split at hfb
    · have := (FreezeOut.ok.inj hfb).symm
      have hd : (chain0 ++ (r1.1 ++ X.1)).drop n = (chain0 ++ r1.1).drop n ++ X.1 := by
        rw [← List.append_assoc, List.drop_append_of_le_length hn]
      rw [this, hn2, show n + 1 - 1 = n by omega, hd]
    · cases hfb

/-- **(d)** `truncate n` (for `1 ≤ n < number - 1`) keeps blocks `1..n` with `tip` = block `n`, and
    freezing a *different* branch that links to block `n` then yields exactly that branch on top:
    `Ok` with the branch's entries, content `chain.take n ++ branch`. -/
theorem truncate_then_freeze {c : Cfg} (ok : c.Ok) {s : Top} {chain : List Block}
    (hi : TopInv c s chain) (n : Nat) (h1 : 1 ≤ n) (h2 : n < chain.length)
    (branch : List Block) (get : Nat → Option Block)
    (hget : ∀ j b, branch[j]? = some b → get (n + 1 + j) = some b)
    (hl : Linked (chain.take n ++ branch)) :
    ∃ s1, truncateTop c s n = some s1 ∧ Holds c s1 (chain.take n) ∧
      (freeze c s1 (n + 1 + branch.length) get noStop).2 = .ok (entries (n + 1) branch) ∧
      Holds c (freeze c s1 (n + 1 + branch.length) get noStop).1 (chain.take n ++ branch) := by
  obtain ⟨s1, ht, hi1⟩ := (truncateTop_spec ok hi n).1 ⟨h1, h2⟩
  refine ⟨s1, ht, holds_of_inv ok hi1, ?_⟩
  have hlk : (chain.take n).length = n := by simp; omega
  obtain ⟨hr, hinv⟩ := freeze_spec hi1 (n + 1 + branch.length) get noStop
  try simp only at hr hinv
  rw [hlk] at hr hinv
  have hfu : n + 1 + branch.length - (n + 1) = branch.length := by omega
  rw [hfu] at hr hinv
  have hfedT : ∀ i b, n ≤ i → (chain.take n ++ branch)[i]? = some b → get (i + 1) = some b := by
    intro i b hni hb
    rw [List.getElem?_append_right (by omega), hlk] at hb
    have := hget _ b hb
    rw [← this]; congr 1; omega
  have hres := specRun_resume get (chain.take n ++ branch) n hfedT hl branch.length n branch.length
    (by simp; omega) (Nat.le_refl _) (by simp; omega) (Nat.le_refl _)
  have htk : (chain.take n ++ branch).take n = chain.take n := by
    rw [List.take_append_of_le_length (by omega), List.take_of_length_le (by omega)]
  have hdr : (chain.take n ++ branch).drop n = branch := by
    rw [List.drop_append_of_le_length (by omega), List.drop_of_length_le (by omega)]; simp
  rw [htk, hdr] at hres
  simp only [Nat.sub_self, specRun, List.append_nil] at hres
  rw [hres] at hr hinv
  exact ⟨by simpa using hr, holds_of_inv ok hinv⟩


/-! ### non-vacuity of the `Freezer`-layer theorems (kernel-evaluated on the executable model) -/

/-- a toy instance of the parameters: "compression" prefixes a marker byte, the codec writes the
    four header fields in front of the payload; `max_file_size` 16 = two 7-byte items per file -/
def demoCfg : Cfg :=
  { max := 16
    cmp := fun x => 7 :: x
    dcmp := fun x => match x with | 7 :: r => some r | _ => none
    enc := fun b => [b.hash, b.parent, b.number, b.txs] ++ b.payload
    dec := fun x => match x with | h :: p :: n :: t :: pl => some ⟨h, p, n, t, pl⟩ | _ => none }

/-- the hypotheses `Cfg.Ok` are satisfiable -/
theorem demoCfg_ok : demoCfg.Ok := ⟨fun _ => rfl, fun _ => rfl⟩

def chainA : List Block :=
  [⟨11, 10, 1, 1, [1, 1]⟩, ⟨12, 11, 2, 2, [2, 2]⟩, ⟨13, 12, 3, 1, [3, 3]⟩, ⟨14, 13, 4, 3, [4, 4]⟩]
/-- another branch on top of block 12 -/
def branchB : List Block := [⟨23, 12, 3, 1, [5, 5, 5]⟩, ⟨24, 23, 4, 2, [6]⟩]
/-- the third block does not link to the second -/
def brokenC : List Block := [⟨11, 10, 1, 1, [1, 1]⟩, ⟨12, 11, 2, 2, [2, 2]⟩, ⟨33, 99, 3, 1, [3, 3]⟩]
def serve (l : List Block) (start : Nat) : Nat → Option Block :=
  fun n => if n < start then none else l[n - start]?

def demoView (s : Top) :=
  (s.number, s.tip.map (·.hash), s.d.idx.map (fun e => (e.fid, e.off)), retrieveTop demoCfg s 3)

/-- (a): freeze four blocks (rolling into file 1), crash with the index at 4 entries + 5 bytes and
    file 1 at 3 bytes (blocks 3 and 4 are lost), freeze again, truncate to 2, freeze the other
    branch, re-open: blocks 11, 12, 23, 24 with tip 24 -/
example : ((openTop demoCfg emptyDisk).bind fun s0 => runTop demoCfg s0
    [.freeze 5 (serve chainA 1) noStop, .crash (12 * 4 + 5) (some 3), .freeze 5 (serve chainA 1) noStop,
     .truncate 2, .freeze 5 (serve branchB 3) noStop, .reopen]).map demoView =
    some (5, some 24, [(0, 0), (0, 7), (0, 14), (1, 8), (1, 14)], .some [23, 12, 3, 1, 5, 5, 5]) := by
  decide

/-- the crash in the history above really loses blocks -/
example : ((openTop demoCfg emptyDisk).bind fun s0 => runTop demoCfg s0
    [.freeze 5 (serve chainA 1) noStop, .crash (12 * 4 + 5) (some 3)]).map demoView =
    some (3, some 12, [(0, 0), (0, 7), (0, 14)], .none) := by decide

/-- (b): a broken parent link at height 3 — `Err`, blocks 1 and 2 stay, tip 12; and the stop flag
    seen at height 3 — `Ok` with the two entries -/
example : ((openTop demoCfg emptyDisk).map fun s0 =>
      let r := freeze demoCfg s0 9 (serve brokenC 1) noStop
      let r' := freeze demoCfg s0 9 (serve chainA 1) (fun n => n > 2)
      (r.2, r.1.number, r.1.tip.map (·.hash), r'.2, r'.1.number)) =
    some (.err, 3, some 12, .ok [(11, 1, 1), (12, 2, 2)], 3) := by decide

/-- (c): interrupted after 3 blocks, crashed at a cut that loses block 3, re-opened at number 3,
    frozen again to threshold 5: same content as the crash-free run, the map restarts at 3 -/
example : ((openTop demoCfg emptyDisk).bind fun s0 =>
      let a := freeze demoCfg s0 5 (serve chainA 1) noStop
      let s1 := (freeze demoCfg s0 4 (serve chainA 1) noStop).1
      (crashOpen demoCfg s1 (12 * 4) (some 2)).map fun s2 =>
        let b := freeze demoCfg s2 5 (serve chainA 1) noStop
        (s1.number, s2.number, b.2, demoView a.1 == demoView b.1, a.1.number)) =
    some (4, 3, .ok [(13, 3, 1), (14, 4, 3)], true, 5) := by decide

/-- (d): the hypotheses are satisfiable (a real fork) and the result is the other branch -/
example : ((openTop demoCfg emptyDisk).bind fun s0 =>
      (truncateTop demoCfg (freeze demoCfg s0 5 (serve chainA 1) noStop).1 2).map fun s1 =>
        let r := freeze demoCfg s1 (2 + 1 + branchB.length) (serve branchB 3) noStop
        (s1.number, s1.tip.map (·.hash), r.2,
          demoView r.1 ==
            (5, some 24, [(0, 0), (0, 7), (0, 14), (1, 8), (1, 14)], .some [23, 12, 3, 1, 5, 5, 5]))) =
    some (3, some 12, .ok [(23, 3, 1), (24, 4, 2)], true) := by
  decide

end CkbVerif.C09
