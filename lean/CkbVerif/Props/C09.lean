import CkbVerif.Model.Freezer
namespace CkbVerif.C09
open CkbVerif.Freezer

theorem setFile_same' (f : Nat → Bytes) (id : Nat) (b : Bytes) : setFile f id b id = b := by
  simp

end CkbVerif.C09
