import CkbVerif.Lemmas.Freezer

/-!
# C09 — the freezer never loses or corrupts a frozen item, whatever crash interrupts it

Model: `CkbVerif/Model/Freezer.lean` (the executable definitions the `ckbmodel C09` driver runs and
the harness compares with the real `FreezerFiles`).  `Good d items` says the disk `d` holds exactly
`items` (index clean, every item's bytes where its index entry says, head file ends at the last
offset); `HandleOk h d` says the in-memory handle agrees with the disk.

The theorems are about the *repaired* repair loop (`openWith true`, the code after the `fix:`
commit); `open_unfixed_loses_items` keeps the witness for the loop as it was.
-/
namespace CkbVerif.C09
open CkbVerif.Freezer

/-! ## single operations -/

/-- Opening a fresh directory gives an empty, usable freezer. -/
theorem open_empty : ∃ h d, «open» emptyDisk = some (h, d) ∧ Good d [] ∧ HandleOk h d := by
  refine ⟨_, _, rfl, ⟨rfl, ?_, ?_⟩, rfl, ?_⟩
  · simp [RChain]
  · intro e rest hr; simp at hr; obtain ⟨rfl, _⟩ := hr; rfl
  · intro e rest hr; simp at hr; obtain ⟨rfl, _⟩ := hr; exact ⟨rfl, rfl⟩

/-- Re-opening a consistent disk succeeds and changes nothing. -/
theorem reopen_good {d : Disk} {items : List Bytes} (g : Good d items) :
    ∃ h d2, «open» d = some (h, d2) ∧ Good d2 items ∧ HandleOk h d2 := by
  obtain ⟨h, ho, hh⟩ := open_good_aux (fixed := true) g
  exact ⟨h, _, ho, g.set_tail, hh⟩

/-- Appending keeps the disk consistent, with the new item last (same file or rollover). -/
theorem append_good (max : Nat) {h : Handle} {d : Disk} {items : List Bytes} (x : Bytes)
    (g : Good d items) (hk : HandleOk h d) :
    Good (append max h d x).2 (items ++ [x]) ∧ HandleOk (append max h d x).1 (append max h d x).2 :=
  append_good_aux x g hk

/-- Every stored item is returned byte-for-byte … -/
theorem retrieve_stored {h : Handle} {d : Disk} {items : List Bytes}
    (g : Good d items) (hk : HandleOk h d) (i : Nat) (it : Bytes) (hi : 1 ≤ i)
    (hit : items[i - 1]? = some it) : retrieve h d i = .some it :=
  retrieve_good_aux g hk i it hi hit

/-- … and nothing else is (item 0 and items beyond the end read `None`, never an error). -/
theorem retrieve_absent {h : Handle} {d : Disk} {items : List Bytes}
    (g : Good d items) (hk : HandleOk h d) (i : Nat) (hi : i = 0 ∨ items.length < i) :
    retrieve h d i = .none :=
  retrieve_none_aux g hk i hi

/-- `truncate k` keeps exactly the first `k` items (and is a no-op outside `1 ≤ k < count`). -/
theorem truncate_good {h : Handle} {d : Disk} {items : List Bytes}
    (g : Good d items) (hk : HandleOk h d) (k : Nat) :
    (1 ≤ k ∧ k < items.length →
      Good (truncate h d k).2 (items.take k) ∧ HandleOk (truncate h d k).1 (truncate h d k).2) ∧
    (¬ (1 ≤ k ∧ k < items.length) → truncate h d k = (h, d)) := by
  constructor
  · intro ⟨h1, h2⟩; exact truncate_good_aux g hk k h1 h2
  · intro hn
    apply truncate_noop_aux
    have := g.idx_length
    rw [hk.1]; omega

/-- A crash cut of an append is admissible when the index is not shorter than before the append
    and, if the item went into the existing head file, the earlier items' bytes are still there;
    a missing data file is possible only for a freshly rolled head. -/
def CutOk (max : Nat) (h : Handle) (d : Disk) (x : Bytes) (il : Nat) (fl : Option Nat) : Prop :=
  d.idxSize ≤ il ∧
  (∀ m, fl = some m → ¬ (h.headBytes + x.length > max) → h.headBytes ≤ m) ∧
  (fl = none → h.headBytes + x.length > max)

instance (max h d x il fl) : Decidable (CutOk max h d x il fl) := by
  unfold CutOk
  cases fl with
  | none => simp only [reduceCtorEq, false_implies, implies_true, true_and, forall_const]; infer_instance
  | some m =>
    simp only [Option.some.injEq, forall_eq', reduceCtorEq, false_implies, and_true]
    infer_instance

/-- **Crash safety of one append** (every cut, including right at a rollover): re-opening succeeds
    and yields `items` or `items ++ [x]`, the latter whenever index entry and data are complete. -/
theorem crash_cut_open (max : Nat) {h : Handle} {d : Disk} {items : List Bytes} (x : Bytes)
    (g : Good d items) (hk : HandleOk h d) (il : Nat) (fl : Option Nat) (hc : CutOk max h d x il fl) :
    ∃ h2 d2, «open» (applyCut (append max h d x).2 il (append max h d x).1.headId fl) = some (h2, d2) ∧
      HandleOk h2 d2 ∧ (Good d2 items ∨ Good d2 (items ++ [x])) ∧
      ((append max h d x).2.idxSize ≤ il → (∃ m, fl = some m ∧ (append max h d x).1.headBytes ≤ m) →
        Good d2 (items ++ [x])) :=
  crash_cut_open_aux x g hk il fl hc.1 hc.2.1 hc.2.2

/-- which items survive a cut completely: index entry inside the first `il` bytes and data either in
    an older (intact) file or inside the first `cutLen fl` bytes of the head file -/
def Survives (h : Handle) (d : Disk) (il : Nat) (fl : Option Nat) (i : Nat) : Prop :=
  ∃ e, d.idx[i + 1]? = some e ∧ INDEX_ENTRY_SIZE * (i + 2) ≤ il ∧ (e.fid < h.headId ∨ e.off ≤ cutLen fl)

/-- **Crash safety for any cut** (this is the property's quantifier: index file and head data file
    independently at *any* byte lengths — e.g. anywhere between the last sync and the final sizes
    of a whole batch of appends — older data files intact): re-opening succeeds and yields a
    prefix of the items that contains every item that survived completely. -/
theorem crash_any_cut {h : Handle} {d : Disk} {items : List Bytes}
    (g : Good d items) (hk : HandleOk h d) (il : Nat) (fl : Option Nat) (hil : INDEX_ENTRY_SIZE ≤ il) :
    ∃ h2 d2 n, «open» (applyCut d il h.headId fl) = some (h2, d2) ∧ HandleOk h2 d2 ∧
      n ≤ items.length ∧ Good d2 (items.take n) ∧
      (∀ i, i < items.length → Survives h d il fl i → i < n) := by
  obtain ⟨h2, d2, n, ho, hh, hn, hg, hs⟩ := crash_any_cut_aux g hk il fl hil
  exact ⟨h2, d2, n, ho, hh, hn, hg, fun i hi ⟨e, he1, he2, he3⟩ => hs i e hi he1 he2 he3⟩

/-! ## every history -/

inductive Op where
  | append (x : Bytes)
  | truncate (k : Nat)
  | reopen
  /-- an append cut short by a crash (index left at `il` bytes, data file at `fl`), then re-open -/
  | crashAppend (x : Bytes) (il : Nat) (fl : Option Nat)
  /-- a crash that leaves the index at `il` bytes and the head data file at `fl`, then re-open -/
  | crash (il : Nat) (fl : Option Nat)

structure Sys where
  h : Handle
  d : Disk

/-- one step of the system; `none` = a re-open failed -/
def step (max : Nat) (s : Sys) : Op → Option Sys
  | .append x => some ⟨(append max s.h s.d x).1, (append max s.h s.d x).2⟩
  | .truncate k => some ⟨(truncate s.h s.d k).1, (truncate s.h s.d k).2⟩
  | .reopen => («open» s.d).map fun r => ⟨r.1, r.2⟩
  | .crashAppend x il fl =>
    if CutOk max s.h s.d x il fl then
      («open» (applyCut (append max s.h s.d x).2 il (append max s.h s.d x).1.headId fl)).map
        fun r => ⟨r.1, r.2⟩
    else some s
  | .crash il fl =>
    if INDEX_ENTRY_SIZE ≤ il then
      («open» (applyCut s.d il s.h.headId fl)).map fun r => ⟨r.1, r.2⟩
    else some s

def run (max : Nat) : Sys → List Op → Option Sys
  | s, [] => some s
  | s, op :: ops => (step max s op).bind fun s' => run max s' ops

/-- what the item list may be after a step (the specification: a plain list) -/
def SpecStep (max : Nat) (s : Sys) (items : List Bytes) : Op → List Bytes → Prop
  | .append x, items' => items' = items ++ [x]
  | .truncate k, items' => items' = if 1 ≤ k ∧ k < items.length then items.take k else items
  | .reopen, items' => items' = items
  | .crashAppend x il fl, items' =>
    if CutOk max s.h s.d x il fl then
      (items' = items ∨ items' = items ++ [x]) ∧
      ((append max s.h s.d x).2.idxSize ≤ il →
        (∃ m, fl = some m ∧ (append max s.h s.d x).1.headBytes ≤ m) → items' = items ++ [x])
    else items' = items
  | .crash il fl, items' =>
    if INDEX_ENTRY_SIZE ≤ il then
      ∃ n, n ≤ items.length ∧ items' = items.take n ∧
        (∀ i, i < items.length → Survives s.h s.d il fl i → i < n)
    else items' = items

def Inv (s : Sys) (items : List Bytes) : Prop := Good s.d items ∧ HandleOk s.h s.d

theorem step_inv (max : Nat) (s : Sys) (items : List Bytes) (op : Op) (hi : Inv s items) :
    ∃ s' items', step max s op = some s' ∧ SpecStep max s items op items' ∧ Inv s' items' := by
  cases op with
  | append x => exact ⟨_, _, rfl, rfl, append_good max x hi.1 hi.2⟩
  | truncate k =>
    by_cases hk : 1 ≤ k ∧ k < items.length
    · exact ⟨_, _, rfl, by simp [SpecStep, hk], (truncate_good hi.1 hi.2 k).1 hk⟩
    · refine ⟨_, items, rfl, by simp [SpecStep, hk], ?_⟩
      rw [(truncate_good hi.1 hi.2 k).2 hk]; exact hi
  | reopen =>
    obtain ⟨h, d2, ho, hg, hh⟩ := reopen_good hi.1
    exact ⟨⟨h, d2⟩, items, by simp [step, ho], rfl, hg, hh⟩
  | crashAppend x il fl =>
    by_cases hc : CutOk max s.h s.d x il fl
    · obtain ⟨h2, d2, ho, hh, hg, hfull⟩ := crash_cut_open max x hi.1 hi.2 il fl hc
      by_cases hw : (append max s.h s.d x).2.idxSize ≤ il ∧
          (∃ m, fl = some m ∧ (append max s.h s.d x).1.headBytes ≤ m)
      · exact ⟨⟨h2, d2⟩, items ++ [x], by simp [step, hc, ho],
          by show (if CutOk max s.h s.d x il fl then _ else _); rw [if_pos hc]; exact ⟨Or.inr rfl, fun _ _ => rfl⟩,
          hfull hw.1 hw.2, hh⟩
      · rcases hg with hg | hg
        · exact ⟨⟨h2, d2⟩, items, by simp [step, hc, ho],
            by show (if CutOk max s.h s.d x il fl then _ else _); rw [if_pos hc]; exact ⟨Or.inl rfl, fun a b => absurd ⟨a, b⟩ hw⟩,
            hg, hh⟩
        · exact ⟨⟨h2, d2⟩, items ++ [x], by simp [step, hc, ho],
            by show (if CutOk max s.h s.d x il fl then _ else _); rw [if_pos hc]; exact ⟨Or.inr rfl, fun _ _ => rfl⟩, hg, hh⟩
    · exact ⟨s, items, by simp [step, hc], by simp [SpecStep, hc], hi⟩
  | crash il fl =>
    by_cases hc : INDEX_ENTRY_SIZE ≤ il
    · obtain ⟨h2, d2, n, ho, hh, hn, hg, hs⟩ := crash_any_cut hi.1 hi.2 il fl hc
      exact ⟨⟨h2, d2⟩, items.take n, by simp [step, hc, ho],
        by show (if INDEX_ENTRY_SIZE ≤ il then _ else _); rw [if_pos hc]; exact ⟨n, hn, rfl, hs⟩,
        hg, hh⟩
    · exact ⟨s, items, by simp [step, hc], by simp [SpecStep, hc], hi⟩

/-- the specification lifted to op sequences -/
inductive SpecRun (max : Nat) : Sys → List Bytes → List Op → Sys → List Bytes → Prop
  | nil (s items) : SpecRun max s items [] s items
  | cons {s items op s' items' ops s'' items''} :
      step max s op = some s' → SpecStep max s items op items' →
      SpecRun max s' items' ops s'' items'' → SpecRun max s items (op :: ops) s'' items''

/-- **Every history**: from any consistent state, any sequence of appends, truncations, re-opens,
    crash-cut appends and arbitrary crash cuts runs without a failed open, follows the list specification, and ends in a
    consistent state (so `retrieve_stored` / `retrieve_absent` apply to it). -/
theorem history_inv (max : Nat) : ∀ (ops : List Op) (s : Sys) (items : List Bytes), Inv s items →
    ∃ s' items', run max s ops = some s' ∧ SpecRun max s items ops s' items' ∧ Inv s' items'
  | [], s, items, hi => ⟨s, items, rfl, .nil s items, hi⟩
  | op :: ops, s, items, hi => by
    obtain ⟨s1, items1, hs, hsp, hi1⟩ := step_inv max s items op hi
    obtain ⟨s2, items2, hr, hsr, hi2⟩ := history_inv max ops s1 items1 hi1
    exact ⟨s2, items2, by simp [run, hs, hr], .cons hs hsp hsr, hi2⟩

/-- From the empty directory: after any history, the items are a list `items'` allowed by the
    specification and every one of them reads back byte-for-byte. -/
theorem history_from_empty (max : Nat) (ops : List Op) :
    ∃ h d, «open» emptyDisk = some (h, d) ∧
    ∃ s' items', run max ⟨h, d⟩ ops = some s' ∧ SpecRun max ⟨h, d⟩ [] ops s' items' ∧
      (∀ i it, 1 ≤ i → items'[i - 1]? = some it → retrieve s'.h s'.d i = .some it) ∧
      (∀ i, i = 0 ∨ items'.length < i → retrieve s'.h s'.d i = .none) := by
  obtain ⟨h, d, ho, hg, hh⟩ := open_empty
  obtain ⟨s', items', hr, hs, hi⟩ := history_inv max ops ⟨h, d⟩ [] ⟨hg, hh⟩
  exact ⟨h, d, ho, s', items', hr, hs,
    fun i it h1 h2 => retrieve_stored hi.1 hi.2 i it h1 h2,
    fun i h1 => retrieve_absent hi.1 hi.2 i h1⟩

/-! ## non-vacuity and regression witnesses (kernel-evaluated on the executable model) -/

/-- three items in file 0 and a fourth rolled into file 1 (max 50, 15-byte items) -/
def demoOps : List Op :=
  [.append (List.replicate 15 1), .append (List.replicate 15 2), .append (List.replicate 15 3),
   .append (List.replicate 15 4)]

def demoSys : Sys := ⟨{ number := 1, headId := 0, headBytes := 0, cache := [0] },
  { idx := [⟨0, 0⟩], tail := 0, files := fun _ => [] }⟩

/-- the history above really rolls over and all four items read back -/
example : ((run 50 demoSys demoOps).map fun s =>
    (s.d.idx, retrieve s.h s.d 1, retrieve s.h s.d 4)) =
    some ([⟨0, 0⟩, ⟨0, 15⟩, ⟨0, 30⟩, ⟨0, 45⟩, ⟨1, 15⟩],
          .some (List.replicate 15 1), .some (List.replicate 15 4)) := by decide

/-- the disk after the fourth append's index entry reached the disk but its data did not -/
def demoCrashDisk : Disk :=
  let s := (run 50 demoSys demoOps).getD demoSys
  applyCut s.d (12 * 5) 1 none

/-- the repaired loop slips back into file 0 and keeps the three fully written items -/
theorem open_fixed_keeps_items :
    ((openWith true demoCrashDisk).map fun r => (r.1.number, r.1.headId, retrieve r.1 r.2 3)) =
      some (4, 0, .some (List.replicate 15 3)) := by decide

/-- the loop as it was (re-opening the dropped entry's file) discards every item: the defect
    repaired by the `fix:` commit in /repo (freezer/src/freezer_files.rs) -/
theorem open_unfixed_loses_items :
    ((openWith false demoCrashDisk).map fun r => (r.1.number, retrieve r.1 r.2 1)) =
      some (1, .none) := by decide

/-- a batch crash: after the four appends the index keeps 4 entries + 7 bytes and the head file
    (file 1) is gone — items 1..3 (file 0, intact) survive and are kept -/
example : let s := (run 50 demoSys demoOps).getD demoSys
    ((step 50 s (.crash (12 * 4 + 7) none)).map fun s' => (s'.h.number, retrieve s'.h s'.d 3)) =
      some (4, .some (List.replicate 15 3)) := by decide

/-- the translated constants are the ones the index layout needs: a 4-byte file id and an 8-byte
    offset make a 12-byte entry -/
theorem entry_layout : Gen.Freezer.INDEX_ENTRY_SIZE = Gen.Freezer.FILE_ID_BYTES / 8 + 8 ∧
    0 < Gen.Freezer.INDEX_ENTRY_SIZE := by decide

end CkbVerif.C09
