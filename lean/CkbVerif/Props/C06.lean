import CkbVerif.Model.Reward
import CkbVerif.Model.Dao
import CkbVerif.Model.DaoRaw
import CkbVerif.Lemmas.Dao
import CkbVerif.Lemmas.DaoRaw
import CkbVerif.Lemmas.Reward
import CkbVerif.Lemmas.RewardWalk
import CkbVerif.Lemmas.RewardVerifier

/-!
# C06 — rewards, fee split and DAO field follow the issuance rules; nothing else mints

Theorems about `Model/Reward.lean` and `Model/Dao.lean` (which follow
`util/reward-calculator/src/lib.rs` and `util/dao/src/lib.rs` line by line). All statements are
for arbitrary inputs (no bounds); `= some v` / `= .ok v` hypotheses say "the code returned a
value" (no `Err(Overflow)`, no panic).
-/
namespace CkbVerif.C06
open CkbVerif.Arith CkbVerif.Reward CkbVerif.Dao

/-! ## fee split -/

/-- per fee, the proposer's and the committer's shares sum to the fee exactly
(`fee − ⌊fee·r⌋` is used for the committer, not `⌊fee·(1−r)⌋`) -/
theorem shares_sum_to_fee (r : Ratio) (fee p c : Nat)
    (hp : proposerShare r fee = some p) (hc : committerShare r fee = some c) : p + c = fee := by
  obtain ⟨_, _, rfl⟩ := proposerShare_some.1 hp
  obtain ⟨_, _, h, rfl⟩ := committerShare_some.1 hc
  omega

example : proposerShare proposerRatio 9 = some 3 ∧ committerShare proposerRatio 9 = some 6 := by decide

/-- the proposer's share is `⌊fee·numer/denom⌋`, and at most the fee when `numer ≤ denom` -/
theorem proposer_share_eq_floor (r : Ratio) (fee p : Nat) (hp : proposerShare r fee = some p) :
    p = fee * r.numer / r.denom ∧ (r.numer ≤ r.denom → p ≤ fee) := by
  obtain ⟨_, h0, rfl⟩ := proposerShare_some.1 hp
  refine ⟨rfl, fun hle => ?_⟩
  have h1 : fee * r.numer ≤ fee * r.denom := Nat.mul_le_mul_left _ hle
  calc fee * r.numer / r.denom ≤ fee * r.denom / r.denom := Nat.div_le_div_right h1
    _ = fee := Nat.mul_div_cancel _ (Nat.pos_of_ne_zero h0)

/-- both shares are defined for every fee that can occur with the consensus ratio
(`fee·numer < 2^64`; for 4/10 every fee below 2^62) -/
theorem shares_defined (r : Ratio) (fee : Nat) (h0 : r.denom ≠ 0) (hle : r.numer ≤ r.denom)
    (hf : fee * r.numer < U64) :
    ∃ p c, proposerShare r fee = some p ∧ committerShare r fee = some c := by
  refine ⟨_, _, proposerShare_some.2 ⟨hf, h0, rfl⟩, committerShare_some.2 ⟨hf, h0, ?_, rfl⟩⟩
  exact ((proposer_share_eq_floor r fee _ (proposerShare_some.2 ⟨hf, h0, rfl⟩)).2 hle)

/-- `txs_fees` is the sum of the committer shares, and together with the proposer shares of the
same fees it is exactly the sum of the fees -/
theorem txs_fees_eq_sum (r : Ratio) (fees : List Nat) (v : Nat) (h : txsFees r fees = some v) :
    v = committerSum r fees ∧ v + proposerSum r fees = feeSum fees := by
  rcases txsFeesFrom_some h with ⟨a, b, _⟩ | ⟨rfl, rfl⟩
  · omega
  · simp [committerSum, proposerSum, feeSum]

example : txsFees proposerRatio [100, 20, 33, 34, 9] = some 119 := by decide

/-! ## block reward: nothing else mints -/

/-- the total of `block_reward_internal` is exactly the sum of the four parts, and the parts are
reported unchanged -/
theorem total_reward_eq_parts (txFee proposal primary secondary : Nat) (br : BlockReward)
    (h : totalReward txFee proposal primary secondary = some br) :
    br.total = br.primary + br.secondary + br.txFee + br.proposalReward ∧
    br.primary = primary ∧ br.secondary = secondary ∧ br.txFee = txFee ∧
    br.proposalReward = proposal := by
  obtain ⟨_, rfl⟩ := totalReward_some.1 h
  exact ⟨by show txFee + proposal + primary + secondary = primary + secondary + txFee + proposal; omega,
    rfl, rfl, rfl, rfl⟩

example : totalReward 115 40 1000 7 = some ⟨1162, 1000, 7, 115, 40⟩ := by decide

/-- `block_reward_internal`: when it returns, the four parts are `txs_fees`, `proposal_reward`,
`primary_block_reward`, `secondary_block_reward` of the target and the total is their sum -/
theorem block_reward_eq_parts (w : Win) (r : Ratio) (ser : Nat) (chain : List Blk) (e : Epoch)
    (pd : DaoField) (P t : Nat) (br : BlockReward)
    (h : blockReward w r ser chain e pd P t = .ok br) :
    txsFees r (blkAt chain t).fees = some br.txFee ∧
    proposalReward w r chain P t = some br.proposalReward ∧
    primaryBlockReward e t = .ok br.primary ∧
    secondaryBlockReward ser e t pd = .ok br.secondary ∧
    br.total = br.primary + br.secondary + br.txFee + br.proposalReward := by
  unfold Reward.blockReward at h
  simp only [bind_ok, ovf_ok] at h
  obtain ⟨a, ha, b, hb, c, hc, d, hd, h⟩ := h
  cases ht : totalReward a b c d with
  | none => simp [ht, throw, throwThe, MonadExceptOf.throw] at h
  | some br' =>
    simp only [ht, pure_ok] at h
    subst h
    obtain ⟨h1, h2, h3, h4, h5⟩ := total_reward_eq_parts _ _ _ _ _ ht
    exact ⟨by rw [h4]; exact ha, by rw [h5]; exact hb, by rw [h2]; exact hc, by rw [h3]; exact hd, h1⟩

/-- `RewardVerifier`: a block passes iff, in the two exempt cases (no finalisation target yet /
reward too small to create a cell), the cellbase has no outputs, and otherwise the cellbase
outputs sum to exactly the reward total and the first output carries the target's lock -/
theorem cellbase_capacity_eq_reward (w : Win) (P total lockOcc : Nat) (outs : List (Nat × Bool))
    (h : rewardVerify w P total lockOcc outs = some .ok) :
    ((P + 1 ≤ finalizationDelay w ∨ lockOcc > total) ∧ outs = []) ∨
    (¬ (P + 1 ≤ finalizationDelay w ∨ lockOcc > total) ∧
      outs.foldlM (fun acc o => safeAdd acc o.1) 0 = some total ∧
      ∃ o rest, outs = o :: rest ∧ o.2 = true) := by
  unfold rewardVerify at h
  by_cases hex : P + 1 ≤ finalizationDelay w ∨ lockOcc > total
  · left
    simp only [hex, if_true, Option.some.injEq] at h
    refine ⟨hex, ?_⟩
    cases outs with
    | nil => rfl
    | cons o rest => simp at h
  · right
    simp only [hex, if_false] at h
    refine ⟨hex, ?_⟩
    cases hs : outs.foldlM (fun acc o => safeAdd acc o.1) 0 with
    | none => simp [hs] at h
    | some s =>
      simp only [hs] at h
      by_cases hst : s ≠ total
      · simp [hst] at h
      · have hst' : s = total := by omega
        simp only [hst, if_false] at h
        cases outs with
        | nil => simp at h
        | cons o rest =>
          refine ⟨by rw [hst'], o, rest, rfl, ?_⟩
          by_cases ho : o.2 = true
          · exact ho
          · simp [ho] at h

example : rewardVerify defaultWin 11 1000 6100000000 [] = some .ok ∧
    rewardVerify defaultWin 11 7000000000 6100000000 [(7000000000, true)] = some .ok ∧
    rewardVerify defaultWin 11 7000000000 6100000000 [(7000000001, true)] = some .invalidRewardAmount ∧
    rewardVerify defaultWin 10 7000000000 6100000000 [(7000000000, true)] = some .invalidRewardTarget := by
  decide

/-! ## `RewardVerifier`: the three-way rule, exactly; nothing else mints -/

/-- **`RewardVerifier::verify` accepts a cellbase iff** one of
(1) there is no finalisation target yet (`parent + 1 ≤ finalization_delay`) and the cellbase has no
    outputs;
(2) there is a target, the reward cannot fill a cell locked with the target's lock
    (`occupied > total`) and the cellbase has no outputs;
(3) there is a target, the reward fills the cell, the outputs sum to exactly `total` (as natural
    numbers — and `total` fits a u64) and the first output carries the target's lock.
Both directions, for every input; `outsSum` is the unbounded sum of the output capacities. -/
theorem reward_verifier_accepts_iff (w : Win) (P total lockOcc : Nat) (outs : List (Nat × Bool)) :
    rewardVerify w P total lockOcc outs = some .ok ↔
      (P + 1 ≤ finalizationDelay w ∧ outs = []) ∨
      (finalizationDelay w < P + 1 ∧ lockOcc > total ∧ outs = []) ∨
      (finalizationDelay w < P + 1 ∧ lockOcc ≤ total ∧ outsSum outs = total ∧ total < U64 ∧
        ∃ o rest, outs = o :: rest ∧ o.2 = true) := by
  rw [rewardVerify_ok_iff]
  constructor
  · rintro (⟨hex, rfl⟩ | ⟨hex, h⟩)
    · by_cases hn : P + 1 ≤ finalizationDelay w
      · exact .inl ⟨hn, rfl⟩
      · exact .inr (.inl ⟨by omega, by omega, rfl⟩)
    · exact .inr (.inr ⟨by omega, by omega, h⟩)
  · rintro (⟨hn, rfl⟩ | ⟨_, hi, rfl⟩ | ⟨hn, hs, h⟩)
    · exact .inl ⟨.inl hn, rfl⟩
    · exact .inl ⟨.inr hi, rfl⟩
    · exact .inr ⟨by omega, h⟩

example : rewardVerify defaultWin 9 5000000000 6100000000 [] = some .ok ∧                    -- (1)
    rewardVerify defaultWin 11 6099999999 6100000000 [] = some .ok ∧                         -- (2)
    rewardVerify defaultWin 11 6099999999 6100000000 [(6099999999, true)] = some .invalidRewardTarget ∧
    rewardVerify defaultWin 11 6100000000 6100000000 [(6100000000, true)] = some .ok ∧       -- (3)
    rewardVerify defaultWin 11 6100000000 6100000000 [] = some .invalidRewardAmount := by decide

/-- with `CellbaseVerifier`'s "at most one output" in front, the accepted cellbase is unique: a
block passes both verifiers **iff** its cellbase outputs are exactly `expectedCellbase` — nothing
in the two exempt cases, else the single cell `(total, target's lock)` -/
theorem cellbase_accepted_iff (w : Win) (P total lockOcc : Nat) (outs : List (Nat × Bool))
    (hT : total < U64) :
    cellbaseVerify w P total lockOcc outs = some .ok ↔ outs = expectedCellbase w P total lockOcc := by
  rw [cellbaseVerify_ok_iff, rewardVerify_ok_iff]
  unfold expectedCellbase
  by_cases hex : P + 1 ≤ finalizationDelay w ∨ lockOcc > total
  · simp only [hex, if_true, true_and, not_true_eq_false, false_and, or_false]
    constructor
    · rintro ⟨_, h⟩; exact h
    · rintro rfl; exact ⟨by simp, rfl⟩
  · simp only [hex, if_false, false_and, false_or, not_false_eq_true, true_and]
    constructor
    · rintro ⟨hl, hs, _, o, rest, rfl, ho⟩
      cases rest with
      | nil =>
        simp only [outsSum, Nat.add_zero] at hs
        cases o with
        | mk a b => simp only at hs ho; subst hs; subst ho; rfl
      | cons _ _ => simp at hl
    · rintro rfl
      exact ⟨by simp, by simp [outsSum], hT, _, _, rfl, rfl⟩

example : expectedCellbase defaultWin 11 6099999999 6100000000 = [] ∧
    expectedCellbase defaultWin 11 6100000000 6100000000 = [(6100000000, true)] ∧
    cellbaseVerify defaultWin 11 6100000000 6100000000 [(6100000000, true)] = some .ok ∧
    cellbaseVerify defaultWin 11 6100000000 6100000000 [(6000000000, true), (100000000, true)] =
      some .invalidOutputQuantity ∧
    rewardVerify defaultWin 11 6100000000 6100000000 [(6000000000, true), (100000000, true)] = some .ok := by
  decide

/-- an accepted cellbase creates exactly the reward total when the block pays, and nothing
otherwise -/
theorem cellbase_mints_exactly (w : Win) (P total lockOcc : Nat) (outs : List (Nat × Bool))
    (h : rewardVerify w P total lockOcc outs = some .ok) :
    outsSum outs = if P + 1 ≤ finalizationDelay w ∨ lockOcc > total then 0 else total := by
  rcases (rewardVerify_ok_iff w P total lockOcc outs).1 h with ⟨hex, rfl⟩ | ⟨hex, hs, _⟩
  · simp [hex, outsSum]
  · simp [hex, hs]

/-- **no minting when the reward cannot fill a cell** (nor before the first finalisation): an
accepted cellbase then creates no capacity at all — whatever the miner put into it. This is the
clause the seeded regression removes (`dropped_insufficient_alternative_admits_minting`). -/
theorem no_minting_when_insufficient (w : Win) (P total lockOcc : Nat) (outs : List (Nat × Bool))
    (h : rewardVerify w P total lockOcc outs = some .ok)
    (hex : P + 1 ≤ finalizationDelay w ∨ lockOcc > total) : outsSum outs = 0 ∧ outs = [] := by
  have := cellbase_mints_exactly w P total lockOcc outs h
  rw [if_pos hex] at this
  refine ⟨this, ?_⟩
  rcases (rewardVerify_ok_iff w P total lockOcc outs).1 h with ⟨_, h⟩ | ⟨hne, _⟩
  · exact h
  · exact absurd hex hne

example : ∃ outs, rewardVerify defaultWin 11 1000 6100000000 outs = some .ok := ⟨[], by decide⟩

/-- negative witness: the verifier **without** the `|| insufficient_reward_to_create_cell`
alternative (the amount/lock checks stay guarded by `if !insufficient…`) accepts a cellbase that
creates 1 000 000 CKB while the reward to finalise is 1000 shannons; the verifier as written
rejects it. (`seeded/C06/m3-insufficient-reward-falls-through`.) -/
theorem dropped_insufficient_alternative_admits_minting :
    rewardVerifyDroppedAlternative defaultWin 12 1000 6100000000 [(100000000000000, true)] = some .ok ∧
    rewardVerify defaultWin 12 1000 6100000000 [(100000000000000, true)] = some .invalidRewardTarget ∧
    outsSum [(100000000000000, true)] = 100000000000000 := by decide

/-- **nothing else mints**: over any sequence of blocks accepted by `RewardVerifier` (any chain,
any fork — the blocks need not even be consecutive), the capacity created by all cellbases is
exactly the sum of the reward totals of the blocks that have a finalisation target whose reward
fills a cell; in particular it never exceeds the sum of the reward totals, each of which is
`primary + secondary + committer shares + proposer shares` of its target
(`block_reward_eq_parts`), the fee shares being capacity given up by transactions
(`txs_fees_eq_sum`, `fee_distributed_exactly_once`) and `primary + g2` being exactly what the
DAO field adds to `C` (`dao_accounts_over_chain`, `secondary_issuance_conserved`). -/
theorem no_other_minting (w : Win) (bs : List CbBlock)
    (h : ∀ b ∈ bs, rewardVerify w b.parent b.total b.lockOcc b.outs = some .ok) :
    minted bs = due w bs ∧ minted bs ≤ totals bs := by
  have key : minted bs = due w bs := by
    induction bs with
    | nil => rfl
    | cons b bs ih =>
      have hb := cellbase_mints_exactly w b.parent b.total b.lockOcc b.outs (h b (by simp))
      have ih' := ih (fun b' hb' => h b' (by simp [hb']))
      simp only [minted, due, ih', hb, CbBlock.pays]
      by_cases hex : b.parent + 1 ≤ finalizationDelay w ∨ b.lockOcc > b.total
      · have : ¬ (finalizationDelay w < b.parent + 1 ∧ b.lockOcc ≤ b.total) := by omega
        simp [hex, this]
      · have : finalizationDelay w < b.parent + 1 ∧ b.lockOcc ≤ b.total := by omega
        simp [hex, this]
  exact ⟨key, key ▸ due_le_totals w bs⟩

example : minted [⟨9, 7000000000, 6100000000, []⟩, ⟨11, 1000, 6100000000, []⟩,
      ⟨12, 7000000000, 6100000000, [(7000000000, true)]⟩] = 7000000000 ∧
    due defaultWin [⟨9, 7000000000, 6100000000, []⟩, ⟨11, 1000, 6100000000, []⟩,
      ⟨12, 7000000000, 6100000000, [(7000000000, true)]⟩] = 7000000000 := by decide

/-- **along a chain every target is paid at most once and nothing else is**: on a chain whose
blocks `1..n` all pass `RewardVerifier` — block `i` against the reward total of its finalisation
target `i − finalization_delay` — the capacity created by all cellbases together is at most the
sum of the reward totals of the targets `1 .. n − finalization_delay` (each counted once; the
last `finalization_delay` blocks are not paid yet), whatever the miners' locks and whatever the
cellbases contain. With `block_reward_eq_parts` (total = primary + secondary + fee shares),
`secondary_issuance_conserved` (miner secondary ≤ g2) and `dao_accounts_over_chain`
(`C_n − C_0 = Σ (primary + g2)`): miners never receive more than `C`'s growth plus fee shares. -/
theorem minted_le_finalised_rewards (w : Win) (rewards lockOcc : Nat → Nat)
    (outs : Nat → List (Nat × Bool)) (n : Nat)
    (h : ∀ i, 1 ≤ i → i ≤ n →
      rewardVerify w (i - 1) (rewards (i - finalizationDelay w)) (lockOcc i) (outs i) = some .ok) :
    sumTo (fun i => outsSum (outs i)) n ≤ sumTo rewards (n - finalizationDelay w) ∧
    sumTo rewards (n - finalizationDelay w) ≤ sumTo rewards n := by
  refine ⟨?_, sumTo_mono rewards (Nat.sub_le _ _)⟩
  induction n with
  | zero => simp [sumTo]
  | succ n ih =>
    have ih' := ih (fun i h1 h2 => h i h1 (by omega))
    have hm := cellbase_mints_exactly w (n + 1 - 1) (rewards (n + 1 - finalizationDelay w))
      (lockOcc (n + 1)) (outs (n + 1)) (h (n + 1) (by omega) (Nat.le_refl _))
    simp only [sumTo]
    by_cases hd : n + 1 ≤ finalizationDelay w
    · have h0 : n + 1 - finalizationDelay w = 0 := by omega
      have h0' : n - finalizationDelay w = 0 := by omega
      have hex : n + 1 - 1 + 1 ≤ finalizationDelay w ∨
          lockOcc (n + 1) > rewards (n + 1 - finalizationDelay w) := .inl (by omega)
      rw [if_pos hex] at hm
      rw [h0'] at ih'
      rw [h0, hm]
      simp only [sumTo] at ih' ⊢
      omega
    · have hs : n + 1 - finalizationDelay w = (n - finalizationDelay w) + 1 := by omega
      have hle : outsSum (outs (n + 1)) ≤ rewards (n + 1 - finalizationDelay w) := by
        rw [hm]; split <;> omega
      rw [hs] at hle ⊢
      simp only [sumTo]
      omega

example : sumTo (fun i => outsSum (if i = 4 then [(70, true)] else [])) 5 = 70 ∧
    (∀ i, i ≤ 5 → 1 ≤ i → rewardVerify ⟨1, 2⟩ (i - 1) (if i - 3 = 1 then 70 else 5) 61
      (if i = 4 then [(70, true)] else []) = some .ok) := by decide

/-! ## the proposer share: the backwards walk -/

/-- `proposal_reward` is the sum of `⌊fee·r⌋` over the fees the walk selects -/
theorem proposal_reward_eq_sum (w : Win) (r : Ratio) (chain : List Blk) (P t v : Nat)
    (h : proposalReward w r chain P t = some v) : v = paidSum r (paidList w chain P t) := by
  have := sumShares_some h; omega

/-- soundness for every parent `P` and target `t` (including `t = 1`): every fee whose proposer
share goes to `t` belongs to a transaction committed in a block `c ≤ P` whose id `t` proposed
(itself or an uncle), and no block the walk treats as an earlier proposer
(`max (i − w_far) 1` for `c ≤ i < P`) proposed it. (Corollary-level; the exact statement for
`t ≥ 2` is `proposal_reward_eq_spec` below.) -/
theorem paid_fee_is_earliest_proposed (w : Win) (chain : List Blk) (P t : Nat) (e : Paid)
    (he : e ∈ paidList w chain P t) :
    e.id ∈ (blkAt chain t).props ∧ e.blk ≤ P ∧
    (e.id, e.fee) ∈ (blkAt chain e.blk).commitIds.zip (blkAt chain e.blk).fees ∧
    ∀ i, e.blk ≤ i → i < P → e.id ∉ (blkAt chain (max (i - w.far) 1)).props := by
  obtain ⟨a, b, c, d⟩ := paidList_spec w chain P t e he
  exact ⟨a, b, d, c⟩

/-- each committed transaction's proposer share is paid for at most one finalising block
(equivalently at most one target): two blocks `P₁+1`, `P₂+1` that both have a finalisation target
never both pay the proposer share of the same commit `(block, id)` -/
theorem proposer_share_paid_at_most_once (w : Win) (chain : List Blk) (P₁ P₂ : Nat) (e₁ e₂ : Paid)
    (hf₁ : finalizationDelay w < P₁ + 1) (hf₂ : finalizationDelay w < P₂ + 1)
    (h₁ : e₁ ∈ paidList w chain P₁ (P₁ + 1 - finalizationDelay w))
    (h₂ : e₂ ∈ paidList w chain P₂ (P₂ + 1 - finalizationDelay w))
    (hblk : e₁.blk = e₂.blk) (hid : e₁.id = e₂.id) : P₁ = P₂ := by
  have hd : finalizationDelay w = w.far + 1 := by
    simp [finalizationDelay, CkbVerif.Gen.Reward.FINALIZATION_DELAY_EXTRA]
  rw [hd] at hf₁ hf₂ h₁ h₂
  obtain ⟨a₁, b₁, c₁, _⟩ := paidList_spec w chain _ _ e₁ h₁
  obtain ⟨a₂, b₂, c₂, _⟩ := paidList_spec w chain _ _ e₂ h₂
  rcases Nat.lt_trichotomy P₁ P₂ with hlt | heq | hgt
  · exfalso
    have := c₂ P₁ (by omega) hlt
    have hm : max (P₁ - w.far) 1 = P₁ + 1 - (w.far + 1) := by omega
    rw [hm, ← hid] at this
    exact this a₁
  · exact heq
  · exfalso
    have := c₁ P₂ (by omega) hgt
    have hm : max (P₂ - w.far) 1 = P₂ + 1 - (w.far + 1) := by omega
    rw [hm, hid] at this
    exact this a₂

/-- a chain on which the hypotheses hold non-trivially: window (2,10); block 2 proposes id 7,
block 4 commits it (fee 100); block 13 (parent 12, target 2) pays it, block 14 does not -/
def demoChain (proposer commitAt : Nat) : List Blk :=
  (List.range 14).map fun n =>
    ⟨if n = proposer then [7] else [], if n = commitAt then [7] else [], if n = commitAt then [100] else []⟩

example : paidList defaultWin (demoChain 2 4) 12 2 = [⟨4, 7, 100⟩] ∧
    paidList defaultWin (demoChain 2 4) 13 3 = [] ∧
    proposalReward defaultWin proposerRatio (demoChain 2 4) 12 2 = some 40 := by decide

/-- **the code as written deviates from the property for target block 1**: block 1 is the first
and only proposer of id 7, committed in block 3 inside its window, yet the block that finalises
target 1 (block 12, parent 11) pays no proposer share — `max (index − w_far) 1` clamps to the
target itself, which then counts as an earlier proposer. Replayed on the real code:
`corpus/C06/chain-block1-proposer.ops` (known finding `block1-proposer-share-unpaid`). -/
theorem block1_proposer_share_unpaid_witness :
    (blkAt (demoChain 1 3) 1).props = [7] ∧ (blkAt (demoChain 1 3) 3).commitIds = [7] ∧
    (∀ n, n < 14 → n ≠ 1 → (blkAt (demoChain 1 3) n).props = []) ∧
    proposalReward defaultWin proposerRatio (demoChain 1 3) 11 1 = some 0 := by decide

/-! ### the walk is exactly the specification (targets `t ≥ 2`)

`specPaid w chain t` (`Model/Reward.lean`) is declarative: the commits `(c, id, fee)` of blocks
`c ∈ [t + w_close, t + w_far]` with `id ∈ proposals(t)` (own + uncles') such that no block in
`[max (c − w_far) 1, t)` proposed `id` — i.e. `t` is the earliest proposer of `id` inside `c`'s
proposal window (genesis excluded) — listed from the latest block down, block order inside. -/

/-- the specification as a predicate -/
theorem spec_paid_iff (w : Win) (chain : List Blk) (t : Nat) (hw : w.close ≤ w.far) (e : Paid) :
    e ∈ specPaid w chain t ↔
      t + w.close ≤ e.blk ∧ e.blk ≤ t + w.far ∧
      (e.id, e.fee) ∈ (blkAt chain e.blk).commitIds.zip (blkAt chain e.blk).fees ∧
      e.id ∈ (blkAt chain t).props ∧
      ∀ q, max (e.blk - w.far) 1 ≤ q → q < t → e.id ∉ (blkAt chain q).props :=
  mem_specPaid_iff w chain t hw e

/-- **`proposal_reward` = specification** (soundness and completeness, as equal lists in the
order the code adds them). When block `t + w_far + 1` finalises target `t ≥ 2`, the fees whose
proposer share it pays are exactly `specPaid w chain t`, and the reward is the sum of `⌊fee·r⌋`
over them.

Hypotheses, all needed:
* `2 ≤ t`: for `t = 1` the statement is false — the walk's `max (index − w_far) 1` clamps to the
  target itself (`block1_proposer_share_unpaid_witness`); what holds for `t = 1` is
  `block1_pays_only_at_parent`. `t = 0` is never a real finalisation (`RewardVerifier` exempts it).
* `w_close ≤ w_far` (`ProposalWindow::length` underflows otherwise).
* ids are committed at most once in the blocks the walk visits (`hnd`: not twice in a block,
  `hdisj`: not in two blocks): the code removes an id from `target_proposals` at the first
  commit it meets (walking backwards), so a second commit of the same id would be specified but
  not paid; every valid chain satisfies this (a transaction is committed once).
No hypothesis on the chain's length or shape is needed: missing blocks read as empty. -/
theorem proposal_reward_eq_spec (w : Win) (chain : List Blk) (t : Nat) (ht : 2 ≤ t)
    (hw : w.close ≤ w.far)
    (hnd : ∀ c, t + w.close ≤ c → c ≤ t + w.far → (blkAt chain c).commitIds.Nodup)
    (hdisj : ∀ c₁ c₂, t + w.close ≤ c₁ → c₁ < c₂ → c₂ ≤ t + w.far →
      ∀ id ∈ (blkAt chain c₁).commitIds, id ∉ (blkAt chain c₂).commitIds) :
    finalizeTarget w (t + w.far + 1) = some t ∧
    paidList w chain (t + w.far) t = specPaid w chain t ∧
    ∀ r v, proposalReward w r chain (t + w.far) t = some v → v = paidSum r (specPaid w chain t) := by
  have hl := paidList_eq_specPaid w chain t ht hw hnd hdisj
  refine ⟨?_, hl, fun r v hv => ?_⟩
  · simp [finalizeTarget, finalizationDelay, CkbVerif.Gen.Reward.FINALIZATION_DELAY_EXTRA]
  · rw [← hl]; exact proposal_reward_eq_sum w r chain _ t v hv

/-- non-vacuity: window (2,10), target 3. Block 2 proposes id 5; block 3 proposes 7 itself, 8
through an uncle (the model's `props` is the union) and re-proposes 5; block 4 re-proposes 7;
block 5 commits 7 (fee 100); block 6 commits 8 (fee 33) and 5 (fee 50). Block 14 finalises
target 3: it is paid for 8 and 7 (13 + 40 = 53), not for 5 (block 2 was earlier). -/
def demoChain2 : List Blk :=
  [⟨[], [], []⟩, ⟨[], [], []⟩, ⟨[5], [], []⟩, ⟨[7, 8, 5], [], []⟩, ⟨[7], [], []⟩,
   ⟨[], [7], [100]⟩, ⟨[], [8, 5], [33, 50]⟩, ⟨[], [], []⟩, ⟨[], [], []⟩, ⟨[], [], []⟩,
   ⟨[], [], []⟩, ⟨[], [], []⟩, ⟨[], [], []⟩, ⟨[], [], []⟩]

example : paidList defaultWin demoChain2 13 3 = specPaid defaultWin demoChain2 3 ∧
    specPaid defaultWin demoChain2 3 = [⟨6, 8, 33⟩, ⟨5, 7, 100⟩] ∧
    proposalReward defaultWin proposerRatio demoChain2 13 3 = some 53 := by
  have hnd : ∀ c, c ≤ 13 → (blkAt demoChain2 c).commitIds.Nodup := by decide
  have hdisj : ∀ c₂, c₂ ≤ 13 → ∀ c₁, c₁ < c₂ →
      ∀ id ∈ (blkAt demoChain2 c₁).commitIds, id ∉ (blkAt demoChain2 c₂).commitIds := by decide
  refine ⟨(proposal_reward_eq_spec defaultWin demoChain2 3 (by decide) (by decide)
    (fun c _ h2 => hnd c h2) (fun c₁ c₂ _ h2 h3 => hdisj c₂ h3 c₁ h2)).2.1, by decide, by decide⟩

/-- what is true for target block 1: the only commits whose proposer share it can receive are
those in block `1 + w_far` (the parent of the finalising block) -/
theorem block1_pays_only_at_parent (w : Win) (chain : List Blk) (e : Paid)
    (he : e ∈ paidList w chain (1 + w.far) 1) : e.blk = 1 + w.far := by
  obtain ⟨a, b, c, _⟩ := paidList_spec w chain _ _ e he
  by_cases h : e.blk = 1 + w.far
  · exact h
  · exfalso
    have := c e.blk (Nat.le_refl _) (by omega)
    have hm : max (e.blk - w.far) 1 = 1 := by omega
    rw [hm] at this
    exact this a

/-! ### exactly once under the two-phase commit rule -/

/-- the two-phase rule (`proposedInWindow`: the id was proposed by a block in
`[max (c − w_far) 1, c − w_close]`) gives every commit an earliest proposer in its window -/
theorem earliest_proposer_exists (w : Win) (chain : List Blk) (c id : Nat)
    (h : proposedInWindow w chain c id = true) :
    ∃ t, isEarliestProposer w chain c id t = true ∧ 1 ≤ t ∧ t + w.close ≤ c ∧ c ≤ t + w.far := by
  obtain ⟨t, ht⟩ := earliest_exists w chain c id h
  obtain ⟨h1, h2, _, _⟩ := (isEarliestProposer_iff _ _ _ _ _).1 ht
  exact ⟨t, ht, by omega, by omega, by omega⟩

/-- **each committed transaction's proposer share is paid exactly once**: on a chain that commits
every id at most once, a commit `(c, id, fee)` whose earliest in-window proposer is `t ≥ 2`
(it exists under the two-phase rule: `earliest_proposer_exists`) is
(a) paid when block `t + w_far + 1` finalises `t` — provided the chain reaches that height, which
    is the only role of the chain's length —,
(b) listed there once (no second entry with the same `(block, id)`), and
(c) paid by no other finalising block.
With `shares_sum_to_fee`, proposer share + committer share (paid once, in `txs_fees` of target
`c`: `txs_fees_eq_sum`) = the fee: each fee is distributed exactly once.
Exception (stated separately, `block1_proposer_share_lost`): earliest proposer = block 1. -/
theorem proposer_share_paid_exactly_once (w : Win) (chain : List Blk) (hw : w.close ≤ w.far)
    (hnd : ∀ c, (blkAt chain c).commitIds.Nodup)
    (hdisj : ∀ c₁ c₂, c₁ < c₂ → ∀ id ∈ (blkAt chain c₁).commitIds, id ∉ (blkAt chain c₂).commitIds)
    (c id fee t : Nat)
    (hcommit : (id, fee) ∈ (blkAt chain c).commitIds.zip (blkAt chain c).fees)
    (he : isEarliestProposer w chain c id t = true) (ht : 2 ≤ t) :
    (⟨c, id, fee⟩ : Paid) ∈ paidList w chain (t + w.far) t ∧
    (paidList w chain (t + w.far) t).Pairwise (fun a b => ¬ (a.blk = b.blk ∧ a.id = b.id)) ∧
    ∀ P' e', finalizationDelay w < P' + 1 →
      e' ∈ paidList w chain P' (P' + 1 - finalizationDelay w) → e'.blk = c → e'.id = id →
      P' = t + w.far := by
  have hl := paidList_eq_specPaid w chain t ht hw (fun c _ _ => hnd c)
    (fun c₁ c₂ _ h _ => hdisj c₁ c₂ h)
  have hmem : (⟨c, id, fee⟩ : Paid) ∈ paidList w chain (t + w.far) t := by
    rw [hl]; exact mem_specPaid_of_earliest w chain c id fee t (by omega) hw hcommit he
  refine ⟨hmem, by rw [hl]; exact specPaid_keys_distinct w chain t hnd, ?_⟩
  intro P' e' hf he' hb hi
  have hd : finalizationDelay w = w.far + 1 := by
    simp [finalizationDelay, CkbVerif.Gen.Reward.FINALIZATION_DELAY_EXTRA]
  have hmem' : (⟨c, id, fee⟩ : Paid) ∈
      paidList w chain (t + w.far) (t + w.far + 1 - finalizationDelay w) := by
    have : t + w.far + 1 - finalizationDelay w = t := by omega
    rw [this]; exact hmem
  exact proposer_share_paid_at_most_once w chain P' (t + w.far) e' ⟨c, id, fee⟩ hf (by omega)
    he' hmem' hb hi

/-- the exception: when the earliest in-window proposer of a commit is block 1 and the commit is
not in block `1 + w_far`, **no** finalising block pays its proposer share (the share is never
issued — the deviation witnessed by `block1_proposer_share_unpaid_witness`) -/
theorem block1_proposer_share_lost (w : Win) (chain : List Blk) (c id : Nat)
    (he : isEarliestProposer w chain c id 1 = true) (hc : c ≠ 1 + w.far)
    (P' : Nat) (e' : Paid) (hf : finalizationDelay w < P' + 1)
    (he' : e' ∈ paidList w chain P' (P' + 1 - finalizationDelay w))
    (hb : e'.blk = c) (hi : e'.id = id) : False := by
  have hd : finalizationDelay w = w.far + 1 := by
    simp [finalizationDelay, CkbVerif.Gen.Reward.FINALIZATION_DELAY_EXTRA]
  obtain ⟨h1, h2, h3, _⟩ := (isEarliestProposer_iff _ _ _ _ _).1 he
  obtain ⟨a, b, cnd, _⟩ := paidList_spec w chain _ _ e' he'
  rw [hd] at hf he'
  by_cases hP : P' = 1 + w.far
  · subst hP
    have ht : 1 + w.far + 1 - (w.far + 1) = 1 := by omega
    rw [ht] at he'
    have := block1_pays_only_at_parent w chain e' he'
    omega
  · have := cnd c (by omega) (by omega)
    have hm : max (c - w.far) 1 = 1 := by omega
    rw [hm, hi] at this
    exact this h3

/-- each fee is distributed exactly once: the proposer share of a commit (paid once, at the
finalisation of its earliest proposer `t ≥ 2`) and its committer share add up to the fee -/
theorem fee_distributed_exactly_once (w : Win) (r : Ratio) (chain : List Blk) (hw : w.close ≤ w.far)
    (hnd : ∀ c, (blkAt chain c).commitIds.Nodup)
    (hdisj : ∀ c₁ c₂, c₁ < c₂ → ∀ id ∈ (blkAt chain c₁).commitIds, id ∉ (blkAt chain c₂).commitIds)
    (c id fee t p m : Nat)
    (hcommit : (id, fee) ∈ (blkAt chain c).commitIds.zip (blkAt chain c).fees)
    (he : isEarliestProposer w chain c id t = true) (ht : 2 ≤ t)
    (hp : proposerShare r fee = some p) (hm : committerShare r fee = some m) :
    p + m = fee ∧ (⟨c, id, fee⟩ : Paid) ∈ paidList w chain (t + w.far) t ∧
    ∀ P' e', finalizationDelay w < P' + 1 →
      e' ∈ paidList w chain P' (P' + 1 - finalizationDelay w) → e'.blk = c → e'.id = id →
      P' = t + w.far := by
  obtain ⟨a, _, b⟩ := proposer_share_paid_exactly_once w chain hw hnd hdisj c id fee t hcommit he ht
  exact ⟨shares_sum_to_fee r fee p m hp hm, a, b⟩

example : isEarliestProposer defaultWin demoChain2 6 5 2 = true ∧
    isEarliestProposer defaultWin demoChain2 5 7 3 = true ∧
    isEarliestProposer defaultWin demoChain2 5 7 4 = false ∧
    proposedInWindow defaultWin demoChain2 6 8 = true ∧
    (⟨6, 5, 50⟩ : Paid) ∈ paidList defaultWin demoChain2 12 2 := by decide

/-! ## the DAO field -/

/-- `header.dao = rule(parent.dao)`: whenever `dao_field_with_current_epoch`'s arithmetic returns,
C' = C + g + g2, U' = U + added − freed, S' = S + (g2 − ⌊g2·U/C⌋) − interests,
AR' = AR + ⌊AR·g2/C⌋ as exact equations on naturals, and all four fit in a u64 -/
theorem dao_field_eq_rule (p d : DaoField) (g g2 added freed interests : Nat)
    (h : daoUpdate p g g2 added freed interests = .ok d) :
    p.c ≠ 0 ∧
    d.c = p.c + g + g2 ∧
    d.u + freed = p.u + added ∧
    d.s + interests = p.s + (g2 - g2 * p.u / p.c) ∧
    d.ar = p.ar + p.ar * g2 / p.c ∧
    d.c < U64 ∧ d.u < U64 ∧ d.s < U64 ∧ d.ar < U64 := by
  obtain ⟨h0, h1, h2, h3, h4, h5, h6, h7, h8, h9, h10, rfl⟩ := daoUpdate_ok.1 h
  simp only
  generalize g2 * p.u / p.c = m at *
  generalize p.ar * g2 / p.c = inc at *
  refine ⟨h0, ?_, ?_, ?_, ?_, ?_, ?_, ?_, ?_⟩ <;> first | trivial | omega

/-- the rule is total on the states a valid chain produces: with `0 < C`, `U ≤ C`, no u64
overflow of the four results and enough `U`/`S` to subtract from, the code returns a value -/
theorem dao_update_defined (p : DaoField) (g g2 added freed interests : Nat)
    (hc : p.c ≠ 0) (hu : p.u ≤ p.c) (hC : p.c + (g + g2) < U64) (hU : p.u + added < U64)
    (hfreed : freed ≤ p.u + added) (hS : p.s + g2 < U64)
    (hint : interests ≤ p.s + (g2 - g2 * p.u / p.c)) (hAR : p.ar + p.ar * g2 / p.c < U64) :
    ∃ d, daoUpdate p g g2 added freed interests = .ok d := by
  have hm : g2 * p.u / p.c ≤ g2 := by
    calc g2 * p.u / p.c ≤ g2 * p.c / p.c := Nat.div_le_div_right (Nat.mul_le_mul_left _ hu)
      _ = g2 := Nat.mul_div_cancel _ (Nat.pos_of_ne_zero hc)
  have hU64 : (0 : Nat) < U64 := by decide
  generalize hmd : g2 * p.u / p.c = m at *
  generalize hid : p.ar * g2 / p.c = inc at *
  exact ⟨_, daoUpdate_ok.2 ⟨hc, by omega, by omega, hC, hU, hfreed, by omega, by omega, by omega,
    by omega, by omega, rfl⟩⟩

example : (daoUpdate ⟨10000000000123456, 500000000123000, 400000000123, 600000000000⟩
    50000000000 29349527985 500000000 0 0).toOption =
    some ⟨10000586990683018, 500079349650985, 429314308675, 600500000000⟩ := by decide

/-- issuance conservation: the miner's secondary reward for a block (`secondary_block_reward`,
computed from the same parent field) plus what the DAO field adds to `S` for it is exactly the
block's secondary issuance `g2` -/
theorem secondary_issuance_conserved (p d : DaoField) (g g2 added freed interests m : Nat)
    (h : daoUpdate p g g2 added freed interests = .ok d) (hm : minerIssuance g2 p.u p.c = .ok m) :
    m + (d.s + interests - p.s) = g2 ∧ m ≤ g2 := by
  obtain ⟨h0, h1, h2, h3, h4, h5, h6, h7, h8, h9, h10, rfl⟩ := daoUpdate_ok.1 h
  obtain ⟨_, _, rfl⟩ := minerIssuance_ok.1 hm
  simp only
  generalize g2 * p.u / p.c = m at *
  constructor <;> omega

/-- AR never decreases and C grows by exactly the block's issuance -/
theorem ar_monotone_c_grows (p d : DaoField) (g g2 added freed interests : Nat)
    (h : daoUpdate p g g2 added freed interests = .ok d) :
    p.ar ≤ d.ar ∧ p.c ≤ d.c ∧ (0 < g + g2 → p.c < d.c) := by
  obtain ⟨_, hc, _, _, har, _⟩ := dao_field_eq_rule p d g g2 added freed interests h
  generalize p.ar * g2 / p.c = inc at har
  omega

/-- `U` tracks the occupied capacity of the live-cell set: if the parent's `U` is the occupied
capacity of its live set, and this block's `added` / `freed` are the occupied capacities of the
cells it creates / consumes (so `live' + freed = live + added`), then `U'` is the occupied
capacity of the new live set -/
theorem u_tracks_live_occupied (p d : DaoField) (g g2 added freed interests live live' : Nat)
    (h : daoUpdate p g g2 added freed interests = .ok d)
    (hp : p.u = live) (hl : live' + freed = live + added) : d.u = live' := by
  obtain ⟨_, _, hu, _⟩ := dao_field_eq_rule p d g g2 added freed interests h
  omega

/-- along any chain segment whose headers obey the rule: `C` grows by exactly the scheduled
issuance (no other minting into `C`), `U` changes by exactly the occupied capacity created minus
consumed (so `U = Σ occupied(live set)` is an invariant of the replay: with
`live_tip + Σ freed = live_0 + Σ added` and `U_0 = live_0` one gets `U_tip = live_tip`),
AR never decreases, and `S` never exceeds what secondary issuance put in minus the interest paid out.
(`U_eq_occupied_of_live_set` of DESIGN.md in accumulated form; the live set itself is C02's replay
and is an input here.) -/
theorem dao_accounts_over_chain (p d : DaoField) (bs : List BlockTotals)
    (h : daoChain p bs = .ok d) :
    d.c = p.c + sumOf (fun b => b.primary + b.g2) bs ∧
    d.u + sumOf (·.freed) bs = p.u + sumOf (·.added) bs ∧
    p.ar ≤ d.ar ∧
    d.s + sumOf (·.interests) bs ≤ p.s + sumOf (·.g2) bs := daoChain_ok h

example : (daoChain ⟨10000000000123456, 500000000123000, 400000000123, 600000000000⟩
    [⟨50000000000, 29349527985, 500000000, 0, 0⟩, ⟨50000000000, 29349527985, 0, 500000000, 7⟩]).toOption =
    some ⟨10001173922552838, 500158699178970, 458628593463, 600000000000⟩ := by decide

/-- `secondary_block_reward` is `⌊g2·U_parent/C_parent⌋` of the target's secondary issuance
(0 for the genesis block) -/
theorem secondary_block_reward_eq (ser : Nat) (e : Epoch) (t : Nat) (pd : DaoField) (v : Nat)
    (h : secondaryBlockReward ser e t pd = .ok v) :
    (t = 0 ∧ v = 0) ∨
    (t ≠ 0 ∧ ∃ g2, secondaryIssuance e t ser = .ok g2 ∧ pd.c ≠ 0 ∧ v = g2 * pd.u / pd.c) := by
  unfold secondaryBlockReward at h
  by_cases ht : t = 0
  · left; simp [ht, pure, Except.pure] at h; exact ⟨ht, h.symm⟩
  · right
    simp only [ht, if_false, bind_ok] at h
    obtain ⟨g2, hg, hm⟩ := h
    obtain ⟨h0, _, rfl⟩ := minerIssuance_ok.1 hm
    exact ⟨ht, g2, hg, h0, rfl⟩

/-- **the issuance splits exactly, over every chain**: along any chain segment whose headers obey
the rule, the growth of `C` is the scheduled issuance `Σ (primary + g2)`, and the secondary part
splits with no remainder into (miners' secondary rewards `Σ ⌊g2·U/C⌋`) + (NervosDAO interest paid
out) + (growth of `S`: unclaimed interest and the treasury's share, which no rule ever pays out —
the burnt part). Hence `C_n − C_0 = Σ primary + Σ miner secondary + Σ interest + (S_n − S_0)`:
everything that is minted is primary issuance, a miner's secondary share or DAO interest, and the
rest of the secondary issuance stays in `S`. -/
theorem issuance_split_over_chain (p d : DaoField) (bs : List BlockTotals)
    (h : daoChain p bs = .ok d) :
    d.c = p.c + sumOf (·.primary) bs + sumOf (·.g2) bs ∧
    d.s + sumOf (·.interests) bs + minerSum p bs = p.s + sumOf (·.g2) bs ∧
    d.c + p.s = p.c + sumOf (·.primary) bs + minerSum p bs + sumOf (·.interests) bs + d.s ∧
    minerSum p bs ≤ sumOf (·.g2) bs := by
  have hadd : ∀ l : List BlockTotals,
      sumOf (fun b => b.primary + b.g2) l = sumOf (·.primary) l + sumOf (·.g2) l := by
    intro l
    induction l with
    | nil => rfl
    | cons b l ih => simp only [sumOf]; omega
  obtain ⟨hc, _, _, _⟩ := daoChain_ok h
  obtain ⟨hs, hm⟩ := daoChain_split h
  rw [hadd] at hc
  refine ⟨by omega, hs, by omega, hm⟩

example : minerSum ⟨10000000000123456, 500000000123000, 400000000123, 600000000000⟩
    [⟨50000000000, 29349527985, 500000000, 0, 0⟩, ⟨50000000000, 29349527985, 0, 500000000, 7⟩] =
    35219433 + 35243190 := by decide

/-- **miners are never paid more than the issuance split allows, over every chain**: on a chain
whose blocks `1..n` all pass `RewardVerifier` against the reward totals
`primary t + secondary t + fees t` of their targets, the capacity created by all cellbases is at
most `Σ_{t ≤ n − delay} primary + Σ secondary + Σ fee shares` (each target once). With
`issuance_split_over_chain` (`Σ primary + Σ miner secondary = C_n − C_0 − interest − S growth`):
cellbases + DAO interest + growth of `S` never exceed the growth of `C` plus the fee shares. -/
theorem minted_le_issuance_plus_fees (w : Win) (primary secondary fees lockOcc : Nat → Nat)
    (outs : Nat → List (Nat × Bool)) (n : Nat)
    (h : ∀ i, 1 ≤ i → i ≤ n →
      rewardVerify w (i - 1)
        (primary (i - finalizationDelay w) + secondary (i - finalizationDelay w) +
          fees (i - finalizationDelay w)) (lockOcc i) (outs i) = some .ok) :
    sumTo (fun i => outsSum (outs i)) n ≤
      sumTo primary (n - finalizationDelay w) + sumTo secondary (n - finalizationDelay w) +
        sumTo fees (n - finalizationDelay w) := by
  have key := (minted_le_finalised_rewards w (fun t => primary t + secondary t + fees t) lockOcc
    outs n h).1
  have hadd : ∀ m, sumTo (fun t => primary t + secondary t + fees t) m =
      sumTo primary m + sumTo secondary m + sumTo fees m := by
    intro m
    induction m with
    | zero => simp [sumTo]
    | succ m ih => simp only [sumTo, ih]; omega
  rw [hadd] at key
  exact key

/-! ## `transaction_maximum_withdraw` on raw inputs: who is a withdrawing cell, and the error paths

`Model/DaoRaw.lean` follows the classification code (`is_dao_type_script`, `is_withdrawing_input`,
header deps, witness, header-dep index, data loader) that `Model/Dao.lean` took as an input. -/

/-- a cell that is not (NervosDAO type script by `hash_type = Type` and code hash) with (8 loaded
data bytes holding a non-zero number) counts at exactly its capacity — whatever the witnesses,
header deps and headers: only withdrawing NervosDAO cells can bring interest into a transaction -/
theorem non_withdrawing_input_counts_capacity (hdr : Headers) (deps : List Nat)
    (ws : List RawWitness) (k : Nat) (i : RawInput) (h : isDaoWithdrawing i = false) :
    rawInputMaxWithdraw hdr deps ws k i = .ok i.cell.cap := by
  unfold rawInputMaxWithdraw
  rw [h]
  rfl

/-- a deposit cell (8 zero bytes) is not a withdrawing cell; neither is a cell whose type script
has the dao code hash under another hash type, or 7 / 9 data bytes -/
example : isDaoWithdrawing ⟨⟨10200000000, 0, some 0, 8⟩, some (true, true), some (8, 0), none, false⟩ = false ∧
    isDaoWithdrawing ⟨⟨10200000000, 0, some 0, 8⟩, some (false, true), some (8, 5), none, false⟩ = false ∧
    isDaoWithdrawing ⟨⟨10200000000, 0, some 0, 8⟩, some (true, true), some (9, 5), none, false⟩ = false ∧
    isDaoWithdrawing ⟨⟨10200000000, 0, some 0, 8⟩, some (true, true), some (8, 5), none, false⟩ = true := by
  decide

/-- **a withdrawing input is accepted iff it is well formed, and then pays by the formula**:
`transaction_maximum_withdraw`'s summand for input `k` is a value `w` iff either the cell is not a
withdrawing NervosDAO cell and `w` is its capacity, or it is one and: the block that created it
(`transaction_info.block_hash`) is among the header deps; witness `k` parses and its `input_type`
is exactly 8 bytes, read as an index `idx` into the header deps; both headers are known to the
data loader; and `w = calculate_maximum_withdraw` with the deposit header `deps[idx]` and the
withdrawing header = the creating block (so `w = occupied + ⌊counted·AR_w/AR_d⌋` within the u64
domain: `withdraw_eq_formula`). -/
theorem raw_withdraw_ok_iff (hdr : Headers) (deps : List Nat) (ws : List RawWitness) (k : Nat)
    (i : RawInput) (w : Nat) :
    rawInputMaxWithdraw hdr deps ws k i = .ok w ↔
      (isDaoWithdrawing i = false ∧ w = i.cell.cap) ∨
      (isDaoWithdrawing i = true ∧ ∃ info idx dep dn da wn wa d,
        i.txInfo = some info ∧ info.blockHash ∈ deps ∧
        ws[k]? = some (.args (some (8, idx))) ∧ deps[idx]? = some dep ∧
        hdr dep = some (dn, da) ∧ hdr info.blockHash = some (wn, wa) ∧
        capBytes i.cell.dataBytes = .ok d ∧ maxWithdrawWith i.cell d dn da wn wa = .ok w) := by
  cases hw : isDaoWithdrawing i with
  | false =>
    rw [non_withdrawing_input_counts_capacity hdr deps ws k i hw]
    constructor
    · intro h; left; exact ⟨by first | rfl | trivial, by cases h; rfl⟩
    · rintro (⟨_, rfl⟩ | ⟨h, _⟩)
      · rfl
      · cases h
  | true =>
    unfold rawInputMaxWithdraw
    rw [hw]
    simp only [if_true, bind_ok, withdrawingHeaderHash_ok, depositHeaderHash_ok, maxWithdrawRaw_ok]
    constructor
    · rintro ⟨wd, ⟨info, h1, h2, rfl⟩, dep, ⟨idx, h3, h4⟩, d, h5, dn, da, wn, wa, h6, h7, h8⟩
      exact .inr ⟨trivial, info, idx, dep, dn, da, wn, wa, d, h1, h2, h3, h4, h6, h7, h5, h8⟩
    · rintro (⟨h, _⟩ | ⟨_, info, idx, dep, dn, da, wn, wa, d, h1, h2, h3, h4, h6, h7, h5, h8⟩)
      · cases h
      · exact ⟨_, ⟨info, h1, h2, rfl⟩, dep, ⟨idx, h3, h4⟩, d, h5, dn, da, wn, wa, h6, h7, h8⟩

/-- the first-failure order of a withdrawing input, as a decision table: (1) no transaction info or
its block not among the header deps → `InvalidOutPoint`; then (2) witness `k` missing →
`InvalidOutPoint`, not a `WitnessArgs` / no `input_type` / not 8 bytes → `InvalidDaoFormat`; then
(3) index beyond the header deps → `InvalidOutPoint`; then (4) `Capacity::bytes(data_bytes)`
overflow → `Overflow`; then (5) deposit header unknown, then withdrawing header unknown →
`InvalidHeader` -/
theorem raw_withdraw_error_order (hdr : Headers) (deps : List Nat) (ws : List RawWitness) (k : Nat)
    (i : RawInput) (hw : isDaoWithdrawing i = true) :
    ((∀ info, i.txInfo = some info → info.blockHash ∉ deps) →
      rawInputMaxWithdraw hdr deps ws k i = .error .invalidOutPoint) ∧
    (∀ info, i.txInfo = some info → info.blockHash ∈ deps →
      (ws[k]? = none → rawInputMaxWithdraw hdr deps ws k i = .error .invalidOutPoint) ∧
      (ws[k]? = some .malformed → rawInputMaxWithdraw hdr deps ws k i = .error .invalidDaoFormat) ∧
      (ws[k]? = some (.args none) → rawInputMaxWithdraw hdr deps ws k i = .error .invalidDaoFormat) ∧
      (∀ len v, ws[k]? = some (.args (some (len, v))) → len ≠ 8 →
        rawInputMaxWithdraw hdr deps ws k i = .error .invalidDaoFormat) ∧
      (∀ idx, ws[k]? = some (.args (some (8, idx))) →
        (deps[idx]? = none → rawInputMaxWithdraw hdr deps ws k i = .error .invalidOutPoint) ∧
        (∀ dep, deps[idx]? = some dep →
          (capBytes i.cell.dataBytes = .error .overflow →
            rawInputMaxWithdraw hdr deps ws k i = .error .overflow) ∧
          (∀ d, capBytes i.cell.dataBytes = .ok d →
            (hdr dep = none → rawInputMaxWithdraw hdr deps ws k i = .error .invalidHeader) ∧
            (∀ x, hdr dep = some x → hdr info.blockHash = none →
              rawInputMaxWithdraw hdr deps ws k i = .error .invalidHeader))))) := by
  have hwd_bad : (∀ info, i.txInfo = some info → info.blockHash ∉ deps) →
      withdrawingHeaderHash deps i = .error .invalidOutPoint := by
    intro h
    unfold withdrawingHeaderHash
    cases hi : i.txInfo with
    | none => rfl
    | some info =>
      have : deps.contains info.blockHash = false := by simpa using h info hi
      simp only [this]; rfl
  refine ⟨fun h => ?_, fun info hi hmem => ?_⟩
  · unfold rawInputMaxWithdraw
    rw [hw, hwd_bad h]; rfl
  · have e1 : withdrawingHeaderHash deps i = .ok info.blockHash :=
      withdrawingHeaderHash_ok.2 ⟨info, hi, hmem, rfl⟩
    have hidx : ∀ e, depositHeaderIndex ws k = .error e →
        rawInputMaxWithdraw hdr deps ws k i = .error e := by
      intro e he
      unfold rawInputMaxWithdraw depositHeaderHash
      rw [hw, e1, he]; rfl
    refine ⟨fun h => hidx _ (by unfold depositHeaderIndex; rw [h]; rfl),
      fun h => hidx _ (by unfold depositHeaderIndex; rw [h]; rfl),
      fun h => hidx _ (by unfold depositHeaderIndex; rw [h]; rfl),
      fun len v h hl => hidx _ (by unfold depositHeaderIndex; rw [h]; exact if_pos hl),
      fun idx h => ?_⟩
    have e2 : depositHeaderIndex ws k = .ok idx := depositHeaderIndex_ok.2 h
    refine ⟨fun hd => ?_, fun dep hd => ?_⟩
    · unfold rawInputMaxWithdraw depositHeaderHash
      rw [hw, e1, e2]
      simp only [if_true]
      rw [ok_bind, ok_bind, hd]; rfl
    · have e3 : depositHeaderHash deps ws k = .ok dep := depositHeaderHash_ok.2 ⟨idx, h, hd⟩
      refine ⟨fun hc => ?_, fun d hc => ⟨fun h1 => ?_, fun x h1 h2 => ?_⟩⟩
      · unfold rawInputMaxWithdraw
        rw [hw, e1, e3]
        simp only [if_true]
        rw [ok_bind, ok_bind, hc]; rfl
      · unfold rawInputMaxWithdraw
        rw [hw, e1, e3]
        simp only [if_true]
        rw [ok_bind, ok_bind, hc, ok_bind]
        unfold maxWithdrawRaw
        rw [h1]; rfl
      · unfold rawInputMaxWithdraw
        rw [hw, e1, e3]
        simp only [if_true]
        rw [ok_bind, ok_bind, hc, ok_bind]
        unfold maxWithdrawRaw
        rw [h1, h2]; rfl

/-- the failure class of an answer (for the examples) -/
def errClass (r : R Nat) : Option Err :=
  match r with
  | .ok _ => none
  | .error e => some e

/-- non-vacuity of the table: header ids 1 (deposit, number 5, AR 100) and 2 (withdrawing, number 9,
AR 110); one well-formed withdrawing input and the same input with one aspect off per line -/
def demoRawIn : RawInput :=
  ⟨⟨10000000000, 0, some 0, 8⟩, some (true, true), some (8, 5), some ⟨2, 9, 1⟩, false⟩
def demoHdr : Headers :=
  fun h => if h = 1 then some (5, 100) else if h = 2 then some (9, 110) else none
def demoRawTx : RawTx :=
  ⟨[demoRawIn, ⟨⟨7000000000, 20, none, 0⟩, none, some (0, 0), some ⟨3, 0, 0⟩, true⟩],
    [⟨200000000, 0, none, 0⟩], [.args (some (8, 1))], [2, 1]⟩

example :
    (rawInputMaxWithdraw demoHdr [2, 1] [.args (some (8, 1))] 0 demoRawIn).toOption = some 10180000000 ∧
    errClass (rawInputMaxWithdraw demoHdr [1] [.args (some (8, 0))] 0 demoRawIn) = some .invalidOutPoint ∧
    errClass (rawInputMaxWithdraw demoHdr [2, 1] [] 0 demoRawIn) = some .invalidOutPoint ∧
    errClass (rawInputMaxWithdraw demoHdr [2, 1] [.malformed] 0 demoRawIn) = some .invalidDaoFormat ∧
    errClass (rawInputMaxWithdraw demoHdr [2, 1] [.args (some (7, 1))] 0 demoRawIn) = some .invalidDaoFormat ∧
    errClass (rawInputMaxWithdraw demoHdr [2, 1] [.args (some (8, 2))] 0 demoRawIn) = some .invalidOutPoint ∧
    errClass (rawInputMaxWithdraw demoHdr [2, 3] [.args (some (8, 1))] 0 demoRawIn) = some .invalidHeader ∧
    errClass (rawInputMaxWithdraw demoHdr [2, 1] [.args (some (8, 0))] 0 demoRawIn) = some .invalidOutPoint := by
  decide

/-- **several inputs in one transaction**: when `transaction_maximum_withdraw` returns `m`, `m` is
the plain sum of the per-input values (each characterised by `raw_withdraw_ok_iff` at ITS index:
witness `j` belongs to input `j`) — any number of NervosDAO inputs, in any position -/
theorem tx_max_withdraw_is_sum (hdr : Headers) (t : RawTx) (m : Nat)
    (h : rawTxMaxWithdraw hdr t = .ok m) :
    ∃ vs : List Nat, vs.length = t.inputs.length ∧
      (∀ j i, t.inputs[j]? = some i →
        rawInputMaxWithdraw hdr t.headerDeps t.witnesses j i = .ok (vs.getD j 0)) ∧
      m = vs.sum := by
  obtain ⟨vs, hl, hp, hm⟩ := sumRIdx_ok _ t.inputs 0 0 m h
  refine ⟨vs, hl, fun j i hj => ?_, by omega⟩
  have := hp j i hj
  rwa [Nat.zero_add] at this

/-- **the raw calculator refines the kind-level model**: on a transaction all of whose inputs are
well formed (`txOf` = the `InKind` reading: plain / satoshi / withdrawing with its two headers),
`transaction_maximum_withdraw`, `transaction_fee`, `input_occupied_capacities` and the per-tx
sums are those of `Model/Dao.lean` — so every kind-level theorem and every `fee` / `dao`
comparison of the arith stream speaks about the raw code path too -/
theorem raw_tx_refines (hdr : Headers) (t : RawTx) (tx : Tx) (h : txOf hdr t = some tx) :
    rawTxMaxWithdraw hdr t = txMaxWithdraw tx ∧
    rawTransactionFee hdr t = transactionFee tx ∧
    rawInputOccupied t = inputOccupied tx ∧
    rawTxAddedOccupied t = txAddedOccupied tx ∧
    rawTxInputCapacities t = txInputCapacities tx := by
  unfold txOf at h
  cases hk : kindsFrom hdr t.headerDeps t.witnesses 0 t.inputs with
  | none => rw [hk] at h; simp at h
  | some ins =>
    rw [hk] at h
    simp only [Option.map_some, Option.some.injEq] at h
    subst h
    obtain ⟨e1, e2, e3⟩ := sums_refine t.inputs 0 ins 0 hk
    have e1' : rawTxMaxWithdraw hdr t = txMaxWithdraw ⟨ins, t.outputs⟩ := e1
    refine ⟨e1', ?_, e2, rfl, e3⟩
    unfold rawTransactionFee transactionFee outputsCapacity
    rw [e1']

/-- … and so does the whole DAO rule over a block's transactions -/
theorem raw_dao_field_refines (hdr : Headers) (ser : Nat) (e : Epoch) (pn : Nat) (p : DaoField)
    (txs : List RawTx) (txs' : List Tx) (h : txsOf hdr txs = some txs') :
    rawDaoField hdr ser e pn p txs = daoField ser e pn p txs' := by
  have r := fun t t' (ht : txOf hdr t = some t') => raw_tx_refines hdr t t' ht
  unfold rawDaoField daoField freedOccupied addedOccupied rawWithdrawedInterests withdrawedInterests
  rw [sumR_txs (fun t t' ht => (r t t' ht).2.2.1) txs txs' 0 h,
    sumR_txs (fun t t' ht => (r t t' ht).2.2.2.1) txs txs' 0 h,
    sumR_txs (fun t t' ht => (r t t' ht).1) txs txs' 0 h,
    sumR_txs (fun t t' ht => (r t t' ht).2.2.2.2) txs txs' 0 h]

example :
    (txOf demoHdr demoRawTx).map (·.inputs) =
      some [⟨⟨10000000000, 0, some 0, 8⟩, .daoWithdraw 5 100 9 110⟩,
        ⟨⟨7000000000, 20, none, 0⟩, .satoshi⟩] ∧
    (rawTransactionFee demoHdr demoRawTx).toOption = some 16980000000 ∧
    (rawInputOccupied demoRawTx).toOption = some (8200000000 + 4200000000) := by decide

/-! ## NervosDAO withdrawal -/

/-- `calculate_maximum_withdraw` returns `occupied + (⌊counted·AR_w/AR_d⌋ mod 2^64)` with
`counted = capacity − occupied`; in particular exactly `occupied + ⌊counted·AR_w/AR_d⌋` whenever
that quotient fits in a u64 -/
theorem withdraw_eq_formula (c : Cell) (dataCap dn da wn wa w : Nat)
    (h : maxWithdrawWith c dataCap dn da wn wa = .ok w) :
    dn < wn ∧ da ≠ 0 ∧ ∃ occ, occupiedWith c dataCap = .ok occ ∧ occ ≤ c.cap ∧
      w = ((c.cap - occ) * wa / da) % U64 + occ ∧
      ((c.cap - occ) * wa / da < U64 → w = (c.cap - occ) * wa / da + occ) := by
  obtain ⟨h1, occ, h2, h3, h4, _, rfl⟩ := maxWithdrawWith_ok.1 h
  refine ⟨h1, h4, occ, h2, h3, rfl, fun hq => ?_⟩
  rw [Nat.mod_eq_of_lt hq]

/-- a withdrawal never pays less than the deposit when the rate did not fall, and the interest
is at most `⌊counted·(AR_w − AR_d)/AR_d⌋ + …` — precisely: `w − capacity = ⌊counted·AR_w/AR_d⌋ − counted` -/
theorem withdraw_ge_deposit (c : Cell) (dataCap dn da wn wa w : Nat)
    (h : maxWithdrawWith c dataCap dn da wn wa = .ok w) (hr : da ≤ wa) :
    ∃ occ, occupiedWith c dataCap = .ok occ ∧
      ((c.cap - occ) * wa / da < U64 → c.cap ≤ w ∧ w - c.cap = (c.cap - occ) * wa / da - (c.cap - occ)) := by
  obtain ⟨_, h0, occ, ho, hle, _, hq⟩ := withdraw_eq_formula c dataCap dn da wn wa w h
  refine ⟨occ, ho, fun hlt => ?_⟩
  have hw := hq hlt
  have hge : c.cap - occ ≤ (c.cap - occ) * wa / da := by
    calc c.cap - occ = (c.cap - occ) * da / da := (Nat.mul_div_cancel _ (Nat.pos_of_ne_zero h0)).symm
      _ ≤ (c.cap - occ) * wa / da := Nat.div_le_div_right (Nat.mul_le_mul_left _ hr)
  omega

/-- equal rates: the withdrawal returns exactly the deposit -/
theorem withdraw_same_rate (c : Cell) (dataCap dn da wn w : Nat)
    (h : maxWithdrawWith c dataCap dn da wn da = .ok w) (hc : c.cap < U64) : w = c.cap := by
  obtain ⟨_, h0, occ, _, hle, _, hq⟩ := withdraw_eq_formula c dataCap dn da wn da w h
  have e : (c.cap - occ) * da / da = c.cap - occ := Nat.mul_div_cancel _ (Nat.pos_of_ne_zero h0)
  have := hq (by rw [e]; omega)
  omega

example : (maxWithdrawWith ⟨100000000000000, 0, none, 10⟩ 1000000000 100 10000000000123456 200
    10000000001123456).toOption = some 100000000009999 := by decide

/-- the `as u64` narrowing of the withdraw quotient is a silent truncation (the two issuance
quotients use `u64::try_from`): with a large enough rate ratio the code pays *less* than
`occupied + ⌊counted·AR_w/AR_d⌋`. Needs `counted·AR_w/AR_d ≥ 2^64`, i.e. not reachable with
rates produced by the accumulation rule within any realistic horizon; recorded as a latent
deviation, excluded from the oracle's domain. -/
theorem withdraw_truncates_witness :
    (maxWithdrawWith ⟨10000000000000000000, 0, none, 0⟩ 0 1 1 2 2).toOption = some 1553255922190448384 ∧
    (10000000000000000000 - 4100000000) * 2 / 1 + 4100000000 = 19999999995900000000 := by decide

/-! ## the 32-byte encoding -/

/-- `extract_dao_data (pack_dao_data x) = x` for u64 fields -/
theorem extract_pack_roundtrip (d : DaoField) (har : d.ar < U64) (hc : d.c < U64)
    (hs : d.s < U64) (hu : d.u < U64) : extract (pack d) = d ∧ (pack d).length = 32 :=
  ⟨extract_pack d har hc hs hu, pack_length d⟩

/-- `pack_dao_data (extract_dao_data b) = b` for every 32-byte string: the encoding is a bijection -/
theorem pack_extract_roundtrip (bs : List Nat) (hl : bs.length = 32) (hb : ∀ b ∈ bs, b < 256) :
    pack (extract bs) = bs := pack_extract bs hl hb

example : pack ⟨10000000000000000, 3360000145238488200, 35209330473, 504120308900000000⟩ =
    [0x88, 0x74, 0x33, 0x7e, 0x54, 0x1e, 0xa1, 0x2e, 0x00, 0x00, 0xc1, 0x6f, 0xf2, 0x86, 0x23, 0x00,
     0x29, 0xbf, 0xa3, 0x32, 0x08, 0x00, 0x00, 0x00, 0x00, 0x71, 0x0b, 0x00, 0xc0, 0xfe, 0xfe, 0x06] := by
  decide

end CkbVerif.C06
