import CkbVerif.Model.Reward
import CkbVerif.Model.Dao
namespace CkbVerif.C06
open CkbVerif.Arith CkbVerif.Reward

/-- per fee, the proposer's and the committer's shares sum to the fee exactly -/
theorem shares_sum_to_fee (r : Ratio) (fee p c : Nat)
    (hp : proposerShare r fee = some p) (hc : committerShare r fee = some c) : p + c = fee := by
  unfold committerShare at hc
  unfold proposerShare at hp
  rw [hp] at hc
  simp [safeSub, subChk] at hc
  omega

end CkbVerif.C06
