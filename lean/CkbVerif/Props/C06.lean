import CkbVerif.Model.Reward
import CkbVerif.Model.Dao
import CkbVerif.Lemmas.Dao
import CkbVerif.Lemmas.Reward

/-!
# C06 — rewards, fee split and DAO field follow the issuance rules; nothing else mints

Theorems about `Model/Reward.lean` and `Model/Dao.lean` (which follow
`util/reward-calculator/src/lib.rs` and `util/dao/src/lib.rs` line by line). All statements are
for arbitrary inputs (no bounds); `= some v` / `= .ok v` hypotheses say "the code returned a
value" (no `Err(Overflow)`, no panic).
-/
namespace CkbVerif.C06
open CkbVerif.Arith CkbVerif.Reward CkbVerif.Dao

/-! ## fee split -/

/-- per fee, the proposer's and the committer's shares sum to the fee exactly
(`fee − ⌊fee·r⌋` is used for the committer, not `⌊fee·(1−r)⌋`) -/
theorem shares_sum_to_fee (r : Ratio) (fee p c : Nat)
    (hp : proposerShare r fee = some p) (hc : committerShare r fee = some c) : p + c = fee := by
  obtain ⟨_, _, rfl⟩ := proposerShare_some.1 hp
  obtain ⟨_, _, h, rfl⟩ := committerShare_some.1 hc
  omega

example : proposerShare proposerRatio 9 = some 3 ∧ committerShare proposerRatio 9 = some 6 := by decide

/-- the proposer's share is `⌊fee·numer/denom⌋`, and at most the fee when `numer ≤ denom` -/
theorem proposer_share_eq_floor (r : Ratio) (fee p : Nat) (hp : proposerShare r fee = some p) :
    p = fee * r.numer / r.denom ∧ (r.numer ≤ r.denom → p ≤ fee) := by
  obtain ⟨_, h0, rfl⟩ := proposerShare_some.1 hp
  refine ⟨rfl, fun hle => ?_⟩
  have h1 : fee * r.numer ≤ fee * r.denom := Nat.mul_le_mul_left _ hle
  calc fee * r.numer / r.denom ≤ fee * r.denom / r.denom := Nat.div_le_div_right h1
    _ = fee := Nat.mul_div_cancel _ (Nat.pos_of_ne_zero h0)

/-- both shares are defined for every fee that can occur with the consensus ratio
(`fee·numer < 2^64`; for 4/10 every fee below 2^62) -/
theorem shares_defined (r : Ratio) (fee : Nat) (h0 : r.denom ≠ 0) (hle : r.numer ≤ r.denom)
    (hf : fee * r.numer < U64) :
    ∃ p c, proposerShare r fee = some p ∧ committerShare r fee = some c := by
  refine ⟨_, _, proposerShare_some.2 ⟨hf, h0, rfl⟩, committerShare_some.2 ⟨hf, h0, ?_, rfl⟩⟩
  exact ((proposer_share_eq_floor r fee _ (proposerShare_some.2 ⟨hf, h0, rfl⟩)).2 hle)

/-- `txs_fees` is the sum of the committer shares, and together with the proposer shares of the
same fees it is exactly the sum of the fees -/
theorem txs_fees_eq_sum (r : Ratio) (fees : List Nat) (v : Nat) (h : txsFees r fees = some v) :
    v = committerSum r fees ∧ v + proposerSum r fees = feeSum fees := by
  rcases txsFeesFrom_some h with ⟨a, b, _⟩ | ⟨rfl, rfl⟩
  · omega
  · simp [committerSum, proposerSum, feeSum]

example : txsFees proposerRatio [100, 20, 33, 34, 9] = some 119 := by decide

/-! ## block reward: nothing else mints -/

/-- the total of `block_reward_internal` is exactly the sum of the four parts, and the parts are
reported unchanged -/
theorem total_reward_eq_parts (txFee proposal primary secondary : Nat) (br : BlockReward)
    (h : totalReward txFee proposal primary secondary = some br) :
    br.total = br.primary + br.secondary + br.txFee + br.proposalReward ∧
    br.primary = primary ∧ br.secondary = secondary ∧ br.txFee = txFee ∧
    br.proposalReward = proposal := by
  obtain ⟨_, rfl⟩ := totalReward_some.1 h
  exact ⟨by show txFee + proposal + primary + secondary = primary + secondary + txFee + proposal; omega,
    rfl, rfl, rfl, rfl⟩

example : totalReward 115 40 1000 7 = some ⟨1162, 1000, 7, 115, 40⟩ := by decide

/-- `block_reward_internal`: when it returns, the four parts are `txs_fees`, `proposal_reward`,
`primary_block_reward`, `secondary_block_reward` of the target and the total is their sum -/
theorem block_reward_eq_parts (w : Win) (r : Ratio) (ser : Nat) (chain : List Blk) (e : Epoch)
    (pd : DaoField) (P t : Nat) (br : BlockReward)
    (h : blockReward w r ser chain e pd P t = .ok br) :
    txsFees r (blkAt chain t).fees = some br.txFee ∧
    proposalReward w r chain P t = some br.proposalReward ∧
    primaryBlockReward e t = .ok br.primary ∧
    secondaryBlockReward ser e t pd = .ok br.secondary ∧
    br.total = br.primary + br.secondary + br.txFee + br.proposalReward := by
  unfold Reward.blockReward at h
  simp only [bind_ok, ovf_ok] at h
  obtain ⟨a, ha, b, hb, c, hc, d, hd, h⟩ := h
  cases ht : totalReward a b c d with
  | none => simp [ht, throw, throwThe, MonadExceptOf.throw] at h
  | some br' =>
    simp only [ht, pure_ok] at h
    subst h
    obtain ⟨h1, h2, h3, h4, h5⟩ := total_reward_eq_parts _ _ _ _ _ ht
    exact ⟨by rw [h4]; exact ha, by rw [h5]; exact hb, by rw [h2]; exact hc, by rw [h3]; exact hd, h1⟩

/-- `RewardVerifier`: a block passes iff, in the two exempt cases (no finalisation target yet /
reward too small to create a cell), the cellbase has no outputs, and otherwise the cellbase
outputs sum to exactly the reward total and the first output carries the target's lock -/
theorem cellbase_capacity_eq_reward (w : Win) (P total lockOcc : Nat) (outs : List (Nat × Bool))
    (h : rewardVerify w P total lockOcc outs = some .ok) :
    ((P + 1 ≤ finalizationDelay w ∨ lockOcc > total) ∧ outs = []) ∨
    (¬ (P + 1 ≤ finalizationDelay w ∨ lockOcc > total) ∧
      outs.foldlM (fun acc o => safeAdd acc o.1) 0 = some total ∧
      ∃ o rest, outs = o :: rest ∧ o.2 = true) := by
  unfold rewardVerify at h
  by_cases hex : P + 1 ≤ finalizationDelay w ∨ lockOcc > total
  · left
    simp only [hex, if_true, Option.some.injEq] at h
    refine ⟨hex, ?_⟩
    cases outs with
    | nil => rfl
    | cons o rest => simp at h
  · right
    simp only [hex, if_false] at h
    refine ⟨hex, ?_⟩
    cases hs : outs.foldlM (fun acc o => safeAdd acc o.1) 0 with
    | none => simp [hs] at h
    | some s =>
      simp only [hs] at h
      by_cases hst : s ≠ total
      · simp [hst] at h
      · have hst' : s = total := by omega
        simp only [hst, if_false] at h
        cases outs with
        | nil => simp at h
        | cons o rest =>
          refine ⟨by rw [hst'], o, rest, rfl, ?_⟩
          by_cases ho : o.2 = true
          · exact ho
          · simp [ho] at h

example : rewardVerify defaultWin 11 1000 6100000000 [] = some .ok ∧
    rewardVerify defaultWin 11 7000000000 6100000000 [(7000000000, true)] = some .ok ∧
    rewardVerify defaultWin 11 7000000000 6100000000 [(7000000001, true)] = some .invalidRewardAmount ∧
    rewardVerify defaultWin 10 7000000000 6100000000 [(7000000000, true)] = some .invalidRewardTarget := by
  decide

/-! ## the proposer share: the backwards walk -/

/-- `proposal_reward` is the sum of `⌊fee·r⌋` over the fees the walk selects -/
theorem proposal_reward_eq_sum (w : Win) (r : Ratio) (chain : List Blk) (P t v : Nat)
    (h : proposalReward w r chain P t = some v) : v = paidSum r (paidList w chain P t) := by
  have := sumShares_some h; omega

/- Full statement aimed at (DESIGN.md `proposal_reward_eq_spec`), NOT proved here:
   for `t ≥ 2`, on a chain that commits each id at most once,
     paidList w chain (t + w.far) t  =  the commits `(c, id, fee)` with `c ∈ [t + w.close, t + w.far]`,
       `id ∈ props t` and `t = min {q ∈ [max (c − w.far) 1, c − w.close] | id ∈ props q}`
   (as multisets), hence `proposal_reward = Σ ⌊fee·r⌋` over them.
   Proved below: the *soundness* half (everything the walk pays is such a commit, with "earliest"
   in the code's sense) and `proposer_share_paid_at_most_once`. Missing: the *completeness* half
   (every such commit is paid) — checked only by the chain correspondence oracle
   (`reward-proposal`), which also exposed that it is false for `t = 1`
   (`block1_proposer_share_unpaid_witness`). -/

/-- every fee whose proposer share goes to target `t` (finalised on top of parent `P`) belongs to
a transaction committed in a block `c ≤ P` whose id `t` proposed (itself or an uncle), and no
block the walk treats as an earlier proposer (`max (i − w_far) 1` for `c ≤ i < P`) proposed it -/
theorem proposal_reward_eq_spec_partial (w : Win) (chain : List Blk) (P t : Nat) (e : Paid)
    (he : e ∈ paidList w chain P t) :
    e.id ∈ (blkAt chain t).props ∧ e.blk ≤ P ∧
    (e.id, e.fee) ∈ (blkAt chain e.blk).commitIds.zip (blkAt chain e.blk).fees ∧
    ∀ i, e.blk ≤ i → i < P → e.id ∉ (blkAt chain (max (i - w.far) 1)).props := by
  obtain ⟨a, b, c, d⟩ := paidList_spec w chain P t e he
  exact ⟨a, b, d, c⟩

/-- each committed transaction's proposer share is paid for at most one finalising block
(equivalently at most one target): two blocks `P₁+1`, `P₂+1` that both have a finalisation target
never both pay the proposer share of the same commit `(block, id)` -/
theorem proposer_share_paid_at_most_once (w : Win) (chain : List Blk) (P₁ P₂ : Nat) (e₁ e₂ : Paid)
    (hf₁ : finalizationDelay w < P₁ + 1) (hf₂ : finalizationDelay w < P₂ + 1)
    (h₁ : e₁ ∈ paidList w chain P₁ (P₁ + 1 - finalizationDelay w))
    (h₂ : e₂ ∈ paidList w chain P₂ (P₂ + 1 - finalizationDelay w))
    (hblk : e₁.blk = e₂.blk) (hid : e₁.id = e₂.id) : P₁ = P₂ := by
  have hd : finalizationDelay w = w.far + 1 := by
    simp [finalizationDelay, CkbVerif.Gen.Reward.FINALIZATION_DELAY_EXTRA]
  rw [hd] at hf₁ hf₂ h₁ h₂
  obtain ⟨a₁, b₁, c₁, _⟩ := paidList_spec w chain _ _ e₁ h₁
  obtain ⟨a₂, b₂, c₂, _⟩ := paidList_spec w chain _ _ e₂ h₂
  rcases Nat.lt_trichotomy P₁ P₂ with hlt | heq | hgt
  · exfalso
    have := c₂ P₁ (by omega) hlt
    have hm : max (P₁ - w.far) 1 = P₁ + 1 - (w.far + 1) := by omega
    rw [hm, ← hid] at this
    exact this a₁
  · exact heq
  · exfalso
    have := c₁ P₂ (by omega) hgt
    have hm : max (P₂ - w.far) 1 = P₂ + 1 - (w.far + 1) := by omega
    rw [hm, hid] at this
    exact this a₂

/-- a chain on which the hypotheses hold non-trivially: window (2,10); block 2 proposes id 7,
block 4 commits it (fee 100); block 13 (parent 12, target 2) pays it, block 14 does not -/
def demoChain (proposer commitAt : Nat) : List Blk :=
  (List.range 14).map fun n =>
    ⟨if n = proposer then [7] else [], if n = commitAt then [7] else [], if n = commitAt then [100] else []⟩

example : paidList defaultWin (demoChain 2 4) 12 2 = [⟨4, 7, 100⟩] ∧
    paidList defaultWin (demoChain 2 4) 13 3 = [] ∧
    proposalReward defaultWin proposerRatio (demoChain 2 4) 12 2 = some 40 := by decide

/-- **the code as written deviates from the property for target block 1**: block 1 is the first
and only proposer of id 7, committed in block 3 inside its window, yet the block that finalises
target 1 (block 12, parent 11) pays no proposer share — `max (index − w_far) 1` clamps to the
target itself, which then counts as an earlier proposer. Replayed on the real code:
`corpus/C06/chain-block1-proposer.ops` (known finding `block1-proposer-share-unpaid`). -/
theorem block1_proposer_share_unpaid_witness :
    (blkAt (demoChain 1 3) 1).props = [7] ∧ (blkAt (demoChain 1 3) 3).commitIds = [7] ∧
    (∀ n, n < 14 → n ≠ 1 → (blkAt (demoChain 1 3) n).props = []) ∧
    proposalReward defaultWin proposerRatio (demoChain 1 3) 11 1 = some 0 := by decide

/-! ## the DAO field -/

/-- `header.dao = rule(parent.dao)`: whenever `dao_field_with_current_epoch`'s arithmetic returns,
C' = C + g + g2, U' = U + added − freed, S' = S + (g2 − ⌊g2·U/C⌋) − interests,
AR' = AR + ⌊AR·g2/C⌋ as exact equations on naturals, and all four fit in a u64 -/
theorem dao_field_eq_rule (p d : DaoField) (g g2 added freed interests : Nat)
    (h : daoUpdate p g g2 added freed interests = .ok d) :
    p.c ≠ 0 ∧
    d.c = p.c + g + g2 ∧
    d.u + freed = p.u + added ∧
    d.s + interests = p.s + (g2 - g2 * p.u / p.c) ∧
    d.ar = p.ar + p.ar * g2 / p.c ∧
    d.c < U64 ∧ d.u < U64 ∧ d.s < U64 ∧ d.ar < U64 := by
  obtain ⟨h0, h1, h2, h3, h4, h5, h6, h7, h8, h9, h10, rfl⟩ := daoUpdate_ok.1 h
  simp only
  generalize g2 * p.u / p.c = m at *
  generalize p.ar * g2 / p.c = inc at *
  refine ⟨h0, ?_, ?_, ?_, ?_, ?_, ?_, ?_, ?_⟩ <;> first | trivial | omega

/-- the rule is total on the states a valid chain produces: with `0 < C`, `U ≤ C`, no u64
overflow of the four results and enough `U`/`S` to subtract from, the code returns a value -/
theorem dao_update_defined (p : DaoField) (g g2 added freed interests : Nat)
    (hc : p.c ≠ 0) (hu : p.u ≤ p.c) (hC : p.c + (g + g2) < U64) (hU : p.u + added < U64)
    (hfreed : freed ≤ p.u + added) (hS : p.s + g2 < U64)
    (hint : interests ≤ p.s + (g2 - g2 * p.u / p.c)) (hAR : p.ar + p.ar * g2 / p.c < U64) :
    ∃ d, daoUpdate p g g2 added freed interests = .ok d := by
  have hm : g2 * p.u / p.c ≤ g2 := by
    calc g2 * p.u / p.c ≤ g2 * p.c / p.c := Nat.div_le_div_right (Nat.mul_le_mul_left _ hu)
      _ = g2 := Nat.mul_div_cancel _ (Nat.pos_of_ne_zero hc)
  have hU64 : (0 : Nat) < U64 := by decide
  generalize hmd : g2 * p.u / p.c = m at *
  generalize hid : p.ar * g2 / p.c = inc at *
  exact ⟨_, daoUpdate_ok.2 ⟨hc, by omega, by omega, hC, hU, hfreed, by omega, by omega, by omega,
    by omega, by omega, rfl⟩⟩

example : (daoUpdate ⟨10000000000123456, 500000000123000, 400000000123, 600000000000⟩
    50000000000 29349527985 500000000 0 0).toOption =
    some ⟨10000586990683018, 500079349650985, 429314308675, 600500000000⟩ := by decide

/-- issuance conservation: the miner's secondary reward for a block (`secondary_block_reward`,
computed from the same parent field) plus what the DAO field adds to `S` for it is exactly the
block's secondary issuance `g2` -/
theorem secondary_issuance_conserved (p d : DaoField) (g g2 added freed interests m : Nat)
    (h : daoUpdate p g g2 added freed interests = .ok d) (hm : minerIssuance g2 p.u p.c = .ok m) :
    m + (d.s + interests - p.s) = g2 ∧ m ≤ g2 := by
  obtain ⟨h0, h1, h2, h3, h4, h5, h6, h7, h8, h9, h10, rfl⟩ := daoUpdate_ok.1 h
  obtain ⟨_, _, rfl⟩ := minerIssuance_ok.1 hm
  simp only
  generalize g2 * p.u / p.c = m at *
  constructor <;> omega

/-- AR never decreases and C grows by exactly the block's issuance -/
theorem ar_monotone_c_grows (p d : DaoField) (g g2 added freed interests : Nat)
    (h : daoUpdate p g g2 added freed interests = .ok d) :
    p.ar ≤ d.ar ∧ p.c ≤ d.c ∧ (0 < g + g2 → p.c < d.c) := by
  obtain ⟨_, hc, _, _, har, _⟩ := dao_field_eq_rule p d g g2 added freed interests h
  generalize p.ar * g2 / p.c = inc at har
  omega

/-- `U` tracks the occupied capacity of the live-cell set: if the parent's `U` is the occupied
capacity of its live set, and this block's `added` / `freed` are the occupied capacities of the
cells it creates / consumes (so `live' + freed = live + added`), then `U'` is the occupied
capacity of the new live set -/
theorem u_tracks_live_occupied (p d : DaoField) (g g2 added freed interests live live' : Nat)
    (h : daoUpdate p g g2 added freed interests = .ok d)
    (hp : p.u = live) (hl : live' + freed = live + added) : d.u = live' := by
  obtain ⟨_, _, hu, _⟩ := dao_field_eq_rule p d g g2 added freed interests h
  omega

/-- along any chain segment whose headers obey the rule: `C` grows by exactly the scheduled
issuance (no other minting into `C`), `U` changes by exactly the occupied capacity created minus
consumed (so `U = Σ occupied(live set)` is an invariant of the replay: with
`live_tip + Σ freed = live_0 + Σ added` and `U_0 = live_0` one gets `U_tip = live_tip`),
AR never decreases, and `S` never exceeds what secondary issuance put in minus the interest paid out.
(`U_eq_occupied_of_live_set` of DESIGN.md in accumulated form; the live set itself is C02's replay
and is an input here.) -/
theorem dao_accounts_over_chain (p d : DaoField) (bs : List BlockTotals)
    (h : daoChain p bs = .ok d) :
    d.c = p.c + sumOf (fun b => b.primary + b.g2) bs ∧
    d.u + sumOf (·.freed) bs = p.u + sumOf (·.added) bs ∧
    p.ar ≤ d.ar ∧
    d.s + sumOf (·.interests) bs ≤ p.s + sumOf (·.g2) bs := daoChain_ok h

example : (daoChain ⟨10000000000123456, 500000000123000, 400000000123, 600000000000⟩
    [⟨50000000000, 29349527985, 500000000, 0, 0⟩, ⟨50000000000, 29349527985, 0, 500000000, 7⟩]).toOption =
    some ⟨10001173922552838, 500158699178970, 458628593463, 600000000000⟩ := by decide

/-- `secondary_block_reward` is `⌊g2·U_parent/C_parent⌋` of the target's secondary issuance
(0 for the genesis block) -/
theorem secondary_block_reward_eq (ser : Nat) (e : Epoch) (t : Nat) (pd : DaoField) (v : Nat)
    (h : secondaryBlockReward ser e t pd = .ok v) :
    (t = 0 ∧ v = 0) ∨
    (t ≠ 0 ∧ ∃ g2, secondaryIssuance e t ser = .ok g2 ∧ pd.c ≠ 0 ∧ v = g2 * pd.u / pd.c) := by
  unfold secondaryBlockReward at h
  by_cases ht : t = 0
  · left; simp [ht, pure, Except.pure] at h; exact ⟨ht, h.symm⟩
  · right
    simp only [ht, if_false, bind_ok] at h
    obtain ⟨g2, hg, hm⟩ := h
    obtain ⟨h0, _, rfl⟩ := minerIssuance_ok.1 hm
    exact ⟨ht, g2, hg, h0, rfl⟩

/-! ## NervosDAO withdrawal -/

/-- `calculate_maximum_withdraw` returns `occupied + (⌊counted·AR_w/AR_d⌋ mod 2^64)` with
`counted = capacity − occupied`; in particular exactly `occupied + ⌊counted·AR_w/AR_d⌋` whenever
that quotient fits in a u64 -/
theorem withdraw_eq_formula (c : Cell) (dataCap dn da wn wa w : Nat)
    (h : maxWithdrawWith c dataCap dn da wn wa = .ok w) :
    dn < wn ∧ da ≠ 0 ∧ ∃ occ, occupiedWith c dataCap = .ok occ ∧ occ ≤ c.cap ∧
      w = ((c.cap - occ) * wa / da) % U64 + occ ∧
      ((c.cap - occ) * wa / da < U64 → w = (c.cap - occ) * wa / da + occ) := by
  obtain ⟨h1, occ, h2, h3, h4, _, rfl⟩ := maxWithdrawWith_ok.1 h
  refine ⟨h1, h4, occ, h2, h3, rfl, fun hq => ?_⟩
  rw [Nat.mod_eq_of_lt hq]

/-- a withdrawal never pays less than the deposit when the rate did not fall, and the interest
is at most `⌊counted·(AR_w − AR_d)/AR_d⌋ + …` — precisely: `w − capacity = ⌊counted·AR_w/AR_d⌋ − counted` -/
theorem withdraw_ge_deposit (c : Cell) (dataCap dn da wn wa w : Nat)
    (h : maxWithdrawWith c dataCap dn da wn wa = .ok w) (hr : da ≤ wa) :
    ∃ occ, occupiedWith c dataCap = .ok occ ∧
      ((c.cap - occ) * wa / da < U64 → c.cap ≤ w ∧ w - c.cap = (c.cap - occ) * wa / da - (c.cap - occ)) := by
  obtain ⟨_, h0, occ, ho, hle, _, hq⟩ := withdraw_eq_formula c dataCap dn da wn wa w h
  refine ⟨occ, ho, fun hlt => ?_⟩
  have hw := hq hlt
  have hge : c.cap - occ ≤ (c.cap - occ) * wa / da := by
    calc c.cap - occ = (c.cap - occ) * da / da := (Nat.mul_div_cancel _ (Nat.pos_of_ne_zero h0)).symm
      _ ≤ (c.cap - occ) * wa / da := Nat.div_le_div_right (Nat.mul_le_mul_left _ hr)
  omega

/-- equal rates: the withdrawal returns exactly the deposit -/
theorem withdraw_same_rate (c : Cell) (dataCap dn da wn w : Nat)
    (h : maxWithdrawWith c dataCap dn da wn da = .ok w) (hc : c.cap < U64) : w = c.cap := by
  obtain ⟨_, h0, occ, _, hle, _, hq⟩ := withdraw_eq_formula c dataCap dn da wn da w h
  have e : (c.cap - occ) * da / da = c.cap - occ := Nat.mul_div_cancel _ (Nat.pos_of_ne_zero h0)
  have := hq (by rw [e]; omega)
  omega

example : (maxWithdrawWith ⟨100000000000000, 0, none, 10⟩ 1000000000 100 10000000000123456 200
    10000000001123456).toOption = some 100000000009999 := by decide

/-- the `as u64` narrowing of the withdraw quotient is a silent truncation (the two issuance
quotients use `u64::try_from`): with a large enough rate ratio the code pays *less* than
`occupied + ⌊counted·AR_w/AR_d⌋`. Needs `counted·AR_w/AR_d ≥ 2^64`, i.e. not reachable with
rates produced by the accumulation rule within any realistic horizon; recorded as a latent
deviation, excluded from the oracle's domain. -/
theorem withdraw_truncates_witness :
    (maxWithdrawWith ⟨10000000000000000000, 0, none, 0⟩ 0 1 1 2 2).toOption = some 1553255922190448384 ∧
    (10000000000000000000 - 4100000000) * 2 / 1 + 4100000000 = 19999999995900000000 := by decide

/-! ## the 32-byte encoding -/

/-- `extract_dao_data (pack_dao_data x) = x` for u64 fields -/
theorem extract_pack_roundtrip (d : DaoField) (har : d.ar < U64) (hc : d.c < U64)
    (hs : d.s < U64) (hu : d.u < U64) : extract (pack d) = d ∧ (pack d).length = 32 :=
  ⟨extract_pack d har hc hs hu, pack_length d⟩

/-- `pack_dao_data (extract_dao_data b) = b` for every 32-byte string: the encoding is a bijection -/
theorem pack_extract_roundtrip (bs : List Nat) (hl : bs.length = 32) (hb : ∀ b ∈ bs, b < 256) :
    pack (extract bs) = bs := pack_extract bs hl hb

example : pack ⟨10000000000000000, 3360000145238488200, 35209330473, 504120308900000000⟩ =
    [0x88, 0x74, 0x33, 0x7e, 0x54, 0x1e, 0xa1, 0x2e, 0x00, 0x00, 0xc1, 0x6f, 0xf2, 0x86, 0x23, 0x00,
     0x29, 0xbf, 0xa3, 0x32, 0x08, 0x00, 0x00, 0x00, 0x00, 0x71, 0x0b, 0x00, 0xc0, 0xfe, 0xfe, 0x06] := by
  decide

end CkbVerif.C06
