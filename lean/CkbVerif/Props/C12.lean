import CkbVerif.Lemmas.ReorgStage
import CkbVerif.Lemmas.ReorgReadd
import CkbVerif.Lemmas.ReorgSubmit

/-!
# C12 — after any reorg the pool agrees with the new chain

Theorems about the write-locked section of `update_tx_pool_for_reorg` (`Model/Reorg.lean`):
`update` = `_update_tx_pool_for_reorg` up to `remove_expired`, `updateL` = … with `limit_size`,
`reorg` = … followed by `readd_detached_tx`; links (parents/children, `calc_descendants`) are DERIVED
from the entries' inputs / cell deps / outputs, the chain side is the live-cell set before the change
and the detached / attached transactions (`newLive`, `retain`). All statements are for ALL pools and
ALL arguments (attached / detached transaction lists, detached headers and proposals, proposal view,
expired ids, eviction preference, limits); hypotheses are stated where a clause needs one.

Clauses of the property:

* NoCommittedPooled   `no_committed_in_pool`, `no_committed_in_pool_after_reorg`, `no_committed_pooled_step`
                      (invariant form: nothing committed on the old chain pooled ⇒ nothing committed on the new);
* NoConflict          `no_conflict_with_attached` (+ `_after_limit`, `no_conflict_after_reorg`): no survivor spends
                      or has as a cell dep an out-point consumed by an attached transaction (needs C11's
                      "no double spend in the pool"); the seeded variant m1 violates it:
                      `m1_skip_violates_no_conflict`, `m1_skip_violates_inputs_resolvable`;
* InputsResolvable    `inputs_resolvable_up_to_detached` (strongest true form: live on the new chain, or created
                      in the pool, or an output of a DETACHED transaction), `inputs_resolvable_on_extension`
                      (full clause when nothing is detached), `expiry_limit_readd_keep_inputs_resolvable`;
                      negation witnesses for the gap: `child_of_unreadmitted_parent_survives(_reorg)`
                      (known finding `input-of-detached-parent-not-readmitted`), `expired_parent_keeps_child_preF5`;
* header deps         `no_detached_header_dep`, `no_detached_header_dep_after_reorg`;
* no lost tx          `detached_admissible_tx_is_back`, `readd_later_independent_tx_is_back`,
                      `reorg_adds_only_admissible_detached`, `readd_keeps_entries`, `readd_conflicting_tx_not_back`;
* stage = window      `stage_of_pending_matches_window`, `stage_matches_window_partial` (strongest true form: at the
                      window's stage, or a gap entry outside both parts of the window); negation witness
                      `gap_stuck_outside_window` (known finding `stage-gap-outside-window`);
* expiry / size       `no_expired_in_pool`, `first_expired_descendants_removed`, `limit_size_under_limit`,
                      `limit_size_only_removes`;
* structure           `update_only_drops_or_restages`, `descendants_are_reachable_children`,
                      `removal_closed_under_links`, `chain_live_cell_stays_live`, `chain_attached_output_is_live`.

* the re-adds as the code does them (`Model/ReorgReadd.lean`: `addEntry` = `PoolMap::add_entry` with
  `check_and_record_ancestors`'s eviction of cell-ref parents, `detachProposalR` = `remove_by_detached_proposal`
  whose `add_pending` can be refused, `reorgR` = the section with both; the driver answers with `reorgR`):
                      `add_entry_never_invents`, `add_entry_within_limit_inserts`,
                      `add_entry_over_limit_without_cell_ref_parent_refuses`, `add_entry_eviction_ends_within_limit`,
                      `readd_refusal_model_exact_without_cell_ref_parents`, `reorgR_eq_reorg_partial`,
                      `updateR_only_drops_or_restages`, `reorgR_adds_only_resolving_detached`,
                      `no_committed_in_pool_R`, `no_conflict_with_attached_R`, `no_conflict_after_reorgR`,
                      `no_detached_header_dep_R`, `no_expired_in_pool_R`; negation witnesses (suspected defects):
                      `detached_proposal_readd_refused_orphans_child`, `readd_evicts_cell_ref_parent`,
                      `readd_evicts_creator_of_own_input`, `readd_refused_after_eviction_loses_admissible_txs`.

Not covered by theorems: RBF, the victim order of `limit_size` (any order), the async schedule; InputsResolvable and
stage = window are NOT re-proved for `reorgR` (the witnesses above show InputsResolvable fails there).
-/

namespace CkbVerif.C12
open CkbVerif.Reorg

theorem foldl_removeCommitted_no_id (l : List CTx) (p : Pool) :
    ∀ tx ∈ l, ∀ e ∈ l.foldl removeCommitted p, e.id ≠ tx.id := by
  induction l generalizing p with
  | nil => intro tx h; simp at h
  | cons t ts ih =>
    intro tx htx e he
    simp only [List.foldl_cons] at he
    rcases List.mem_cons.mp htx with rfl | h
    · have hsub : Sub (ts.foldl removeCommitted (removeCommitted p tx)) (removeEntry p tx.id) :=
        (sub_foldl _ sub_removeCommitted _ _).trans (sub_foldl _ sub_resolveInput _ _)
      exact hsub.forall (fun id _ _ _ => id ≠ tx.id) (removeEntry_no_id p tx.id) e he
    · exact ih (removeCommitted p t) tx h e he

/-- every surviving entry is an old entry (possibly at another stage) -/
theorem update_only_drops_or_restages (p : Pool) (a : Args) : Sub (update p a) p := by
  unfold update
  exact ((sub_update_tail a _).trans (sub_resolveHeaderDeps _ _)).trans (sub_foldl _ sub_removeCommitted _ _)

/-- no surviving entry is an attached (committed) transaction -/
theorem no_committed_in_pool (p : Pool) (a : Args) :
    ∀ tx ∈ a.attached, ∀ e ∈ update p a, e.id ≠ tx.id := by
  intro tx htx
  have h1 := foldl_removeCommitted_no_id a.attached p tx htx
  have hsub : Sub (update p a) (a.attached.foldl removeCommitted p) := by
    unfold update
    exact (sub_update_tail a _).trans (sub_resolveHeaderDeps _ _)
  exact hsub.forall (fun id _ _ _ => id ≠ tx.id) h1

/-- no surviving entry depends on a detached header -/
theorem no_detached_header_dep (p : Pool) (a : Args) :
    ∀ e ∈ update p a, ∀ h ∈ e.hdeps, h ∉ a.detachedHeaders := by
  intro e he h hh hdet
  let p1 := a.attached.foldl removeCommitted p
  have hsub : Sub (update p a) (resolveHeaderDeps p1 a.detachedHeaders) := by
    unfold update; exact sub_update_tail a _
  obtain ⟨e2, he2, i1, _, _, i4, _⟩ := hsub e he
  obtain ⟨e1, he1, j1, _, _, j4, _⟩ := sub_resolveHeaderDeps p1 a.detachedHeaders e2 he2
  have hoff : e1 ∈ p1.filter (fun x => x.hdeps.any a.detachedHeaders.contains) := by
    apply List.mem_filter.mpr
    refine ⟨he1, ?_⟩
    rw [List.any_eq_true]
    exact ⟨h, by rw [← j4, ← i4]; exact hh, by simpa using hdet⟩
  have hclear := foldl_removeWithDesc_clears (fun x => x.hdeps.any a.detachedHeaders.contains) p1 e2 he2
  apply hclear
  rw [j1]
  exact List.mem_map_of_mem hoff

/-- a pending entry is moved to exactly the stage of the new window -/
theorem stage_of_pending_matches_window (a : Args) (e : PEnt) (h : e.status = 0) :
    (moveStage a e).status = windowStage a e.id := by
  unfold moveStage windowStage
  simp [h]
  split
  · rfl
  · split <;> simp [h]

/-! ## concrete histories -/

def pool1 : Pool :=
  [ ⟨1, 2, [10], [], [], [16], 0⟩,      -- proposed, parent of 2
    ⟨2, 1, [16], [], [], [32], 0⟩,      -- gap, spends 1's output
    ⟨3, 0, [11], [], [7], [48], 0⟩,     -- pending, header dep on block 7
    ⟨4, 0, [12], [], [], [64], 0⟩ ]     -- pending

/-- non-vacuity: tx 1 is committed, block 7 is detached, 4 becomes proposed; 2 moves on to proposed -/
example : update pool1 { attached := [{ id := 1, spent := [10], outs := [16] }], detachedHeaders := [7], detachedProposals := [], gap := [], proposed := [2, 4], expired := [] }
    = [⟨2, 2, [16], [], [], [32], 0⟩, ⟨4, 2, [12], [], [], [64], 0⟩] := by
  decide

/-- a conflicting transaction (id 9, not pooled) spending out-point 10 is committed: 1 and its descendant 2 go -/
example : (update pool1 { attached := [{ id := 9, spent := [10] }], detachedHeaders := [], detachedProposals := [], gap := [], proposed := [], expired := [] }).map (·.id) = [3, 4] := by decide

/-- repaired `remove_expired` (3724ae4): no expired id survives the update -/
theorem no_expired_in_pool (p : Pool) (a : Args) : ∀ e ∈ update p a, e.id ∉ a.expired := by
  intro e he
  exact foldl_removeWithDesc_no_id a.expired _ e he

/-- … and the descendants of the first expired id go with it (for the later ones the statement is
    about `descOf` of the pool at that moment, i.e. the same lemma applied to the intermediate pool) -/
theorem first_expired_descendants_removed (p : Pool) (a : Args) (x : Nat) (xs : List Nat)
    (hx : a.expired = x :: xs) :
    let p4 := ((a.detachedProposals.foldl detachProposal
      (resolveHeaderDeps (a.attached.foldl removeCommitted p) a.detachedHeaders)).map (moveStage a))
    ∀ e ∈ update p a, e.id ∉ descOf p4 x := by
  intro p4 e he hd
  have he' : e ∈ xs.foldl removeWithDesc (removeWithDesc p4 x) := by
    have : update p a = a.expired.foldl removeWithDesc p4 := rfl
    rw [this, hx] at he
    simpa [List.foldl_cons] using he
  have hsub : Sub (xs.foldl removeWithDesc (removeWithDesc p4 x)) (removeWithDesc p4 x) :=
    sub_foldl _ sub_removeWithDesc _ _
  obtain ⟨e0, he0, hid, _⟩ := hsub e he'
  exact removeWithDesc_no_desc p4 x e0 he0 (hid ▸ hd)

/-- non-vacuity: parent 1 (expired) with pooled child 2: both go, 3 stays -/
example : (update [⟨1, 0, [10], [], [], [16], 0⟩, ⟨2, 0, [16], [], [], [32], 0⟩, ⟨3, 0, [11], [], [], [48], 0⟩]
    { attached := [], detachedHeaders := [], detachedProposals := [], gap := [], proposed := [], expired := [1] }).map (·.id) = [3] := by decide

/-- F5 as it was before /repo 3724ae4: the expired parent 1 went alone, its child 2 (spending 1's
    output 16) stayed pooled with an unknown input -/
theorem expired_parent_keeps_child_preF5 :
    (updatePreF5 [⟨1, 0, [10], [], [], [16], 0⟩, ⟨2, 0, [16], [], [], [32], 0⟩]
      { attached := [], detachedHeaders := [], detachedProposals := [], gap := [], proposed := [], expired := [1] }).map (·.id) = [2] := by
  decide

/-- FINDING (stage): entry 2 is in stage gap; after a reorg its proposal is neither in the detached
    proposals (computed from the old *proposed* set only) nor anywhere in the new view — it stays gap -/
theorem gap_stuck_outside_window :
    let a : Args := { attached := [], detachedHeaders := [5, 6], detachedProposals := [], gap := [], proposed := [], expired := [] }
    (update [⟨2, 1, [16], [], [], [32], 0⟩] a).map (fun e => (e.id, e.status)) = [(2, 1)] ∧
    windowStage a 2 = 0 := by decide

/-- FINDING (unknown input): 2 spends out-point 16 = output 0 of tx 1, which was committed on the
    abandoned branch and is not re-admitted; no rule of the update touches 2 -/
theorem child_of_unreadmitted_parent_survives :
    (update [⟨2, 0, [16], [], [], [32], 0⟩]
      { attached := [], detachedHeaders := [5, 6], detachedProposals := [], gap := [], proposed := [], expired := [] }).map (·.id) = [2] := by decide


/-! ## the chain side -/

/-- a cell that was live at the old tip is live at the new tip unless a detached transaction created
    it or an attached transaction consumed it -/
theorem chain_live_cell_stays_live (a : Args) (o : Nat) (ho : o ∈ a.live) (hd : ∀ d ∈ a.detached, o ∉ d.outs)
    (hs : ∀ y ∈ a.attached, o ∉ y.spent) : o ∈ newLive a := live_stays ho hd hs

/-- an output of an attached transaction is live at the new tip unless an attached transaction consumed it -/
theorem chain_attached_output_is_live (a : Args) (y : CTx) (o : Nat) (hy : y ∈ a.attached) (ho : o ∈ y.outs)
    (hs : ∀ y ∈ a.attached, o ∉ y.spent) : o ∈ newLive a := attached_outs_live hy ho hs

/-- non-vacuity: tx 1 (spends 10, creates 16) is un-committed, tx 9 (spends 10, creates 90) is committed -/
example : newLive { attached := [{ id := 9, spent := [10], outs := [90] }], detachedHeaders := [], detachedProposals := [], gap := [], proposed := [], expired := [], detached := [{ id := 1, spent := [10], outs := [16] }], live := [16, 11] } = [11, 90] := by decide

/-! ## links are derived: what `remove_entry_and_descendants` removes -/

/-- `calc_descendants` over the derived links = everything reachable from a link child (a pooled
    transaction that spends or depends on an output of the entry, or spends a cell it depends on) -/
theorem descendants_are_reachable_children (p : Pool) (id y : Nat) :
    y ∈ descOf p id ↔ ∃ c ∈ childIds p id, CkbVerif.Pool.RT (childIds p) c y := mem_descOf p id y

/-- `remove_entry_and_descendants` is closed under links: if an entry goes, every pooled entry that
    spends or depends on one of its outputs, or spends one of its dep cells, goes too -/
theorem removal_closed_under_links (p : Pool) (id : Nat) (e c : PEnt) (he : e ∈ p) (hc : c ∈ p)
    (hgone : e ∉ removeWithDesc p id) (hch : isChild e c = true) : c ∉ removeWithDesc p id := by
  intro hcin
  have hg : Gone p id e.id := by
    by_cases h : Gone p id e.id
    · exact h
    · exact absurd (mem_removeWithDesc.mpr ⟨he, h⟩) hgone
  exact (mem_removeWithDesc.mp hcin).2 (gone_child he hc hg hch)

/-- non-vacuity: B (id 1) depends on cell 20, A (id 2) spends 20 and is therefore B's link child, C (id 3)
    spends A's output: removing B takes A and C along, the unrelated 4 stays -/
example : descOf [⟨1, 0, [10], [20], [], [16], 0⟩, ⟨2, 0, [20], [], [], [32], 0⟩, ⟨3, 0, [32], [], [], [48], 0⟩, ⟨4, 0, [11], [], [], [64], 0⟩] 1 = [2, 3]
    ∧ (removeWithDesc [⟨1, 0, [10], [20], [], [16], 0⟩, ⟨2, 0, [20], [], [], [32], 0⟩, ⟨3, 0, [32], [], [], [48], 0⟩, ⟨4, 0, [11], [], [], [64], 0⟩] 1).map (·.id) = [4] := by
  decide

/-! ## NoConflict: no survivor spends or depends on what an attached transaction consumed -/

/-- for every pool without a double spend (C11's invariant: `edges.inputs` is a map) and all reorg
    arguments: after `_update_tx_pool_for_reorg` no pooled entry spends, or has as a cell dep, an
    out-point consumed by an attached transaction -/
theorem no_conflict_with_attached (p : Pool) (a : Args) (hnd : NoDoubleSpend p) :
    ∀ e ∈ update p a, ∀ t ∈ a.attached, ∀ i ∈ t.spent, i ∉ e.spent ∧ i ∉ e.deps := by
  intro e he t ht i hi
  obtain ⟨e0, he0, _, i2, i3, _⟩ := sub_update_attached p a e he
  have := foldl_removeCommitted_clears a.attached p hnd e0 he0 t ht i hi
  exact ⟨i2 ▸ this.1, i3 ▸ this.2⟩

/-- … and `limit_size` keeps it -/
theorem no_conflict_with_attached_after_limit (p : Pool) (a : Args) (hnd : NoDoubleSpend p) :
    ∀ e ∈ updateL p a, ∀ t ∈ a.attached, ∀ i ∈ t.spent, i ∉ e.spent ∧ i ∉ e.deps := by
  intro e he t ht i hi
  obtain ⟨e0, he0, _, i2, i3, _⟩ := sub_limitSize a (update p a) e he
  have := no_conflict_with_attached p a hnd e0 he0 t ht i hi
  exact ⟨i2 ▸ this.1, i3 ▸ this.2⟩

/-- the m1 shape: B (1) depends on cell 20 and has a child C (3); A (2) spends 20; a block of another
    miner commits A without B -/
def poolM1 : Pool :=
  [⟨1, 0, [10], [20], [], [16, 17], 0⟩, ⟨3, 0, [16], [], [], [48], 0⟩, ⟨2, 0, [20], [], [], [32], 0⟩, ⟨4, 0, [11], [], [], [64], 0⟩]
def argsM1 : Args :=
  { attached := [{ id := 2, spent := [20], outs := [32] }], detachedHeaders := [], detachedProposals := [], gap := [], proposed := [],
    expired := [], live := [10, 11, 20] }

/-- non-vacuity of `no_conflict_with_attached`: the code as written evicts B and its child C -/
example : NoDoubleSpend poolM1 ∧ (reorg poolM1 argsM1).map (·.id) = [4] := by
  refine ⟨?_, by decide⟩
  unfold NoDoubleSpend poolM1
  decide

/-- the seeded variant C12/m1 (`remove_committed_tx` returns early when the committed transaction
    was pooled itself) VIOLATES the clause: B stays pooled with the cell dep 20 that the attached
    transaction consumed — and with it its child C; 20 is dead on the new chain -/
theorem m1_skip_violates_no_conflict :
    (reorgSkip poolM1 argsM1).map (·.id) = [1, 3, 4] ∧
    (∃ e ∈ reorgSkip poolM1 argsM1, ∃ t ∈ argsM1.attached, ∃ i ∈ t.spent, i ∈ e.deps) ∧
    20 ∉ newLive argsM1 := by
  refine ⟨by decide, ⟨⟨1, 0, [10], [20], [], [16, 17], 0⟩, by decide, { id := 2, spent := [20], outs := [32] }, by decide, 20, by decide, by decide⟩, by decide⟩

/-! ## the whole write-locked section: `reorg` = update, `limit_size`, re-adds -/

/-- every entry after the re-adds is a surviving old entry or a detached-only transaction that was
    admissible when its turn came (resolves against pool + new chain, fee and scripts ok, not
    pooled, within the ancestor limit), entered at the stage of the new window -/
theorem reorg_adds_only_admissible_detached (p : Pool) (a : Args) (e : PEnt) (he : e ∈ reorg p a) :
    e ∈ updateL p a ∨
    ∃ l1 t l2, retain a = l1 ++ t :: l2 ∧ Admissible a (newLive a) (readd a (newLive a) (updateL p a) l1) t ∧ e = entryOf a t :=
  readd_prov a (newLive a) (retain a) (updateL p a) he

/-- the re-adds remove nothing -/
theorem readd_keeps_entries (p : Pool) (a : Args) (e : PEnt) (he : e ∈ updateL p a) : e ∈ reorg p a :=
  readd_keeps a (newLive a) (retain a) (updateL p a) he

/-- "no lost tx": a detached-only transaction that is admissible when its turn comes is back in the
    pool at the stage of the new window, whatever happened to the transactions before it -/
theorem detached_admissible_tx_is_back (p : Pool) (a : Args) (l1 : List CTx) (t : CTx) (l2 : List CTx)
    (hr : retain a = l1 ++ t :: l2) (hA : Admissible a (newLive a) (readd a (newLive a) (updateL p a) l1) t) :
    ∃ e ∈ reorg p a, e.id = t.id ∧ e.status = windowStage a t.id ∧ e.spent = t.spent ∧ e.deps = t.deps := by
  refine ⟨entryOf a t, ?_, rfl, rfl, rfl, rfl⟩
  unfold reorg; rw [hr]
  exact readd_admissible_in_turn a (newLive a) (updateL p a) l1 t l2 hA

/-- a failure of earlier detached transactions never loses a later independent one (what the seeded
    change C12/m3 breaks): if `t` shares nothing with the surviving pool and with the detached-only
    transactions before it, lives on the new chain, has no detached header dep and passes fee and
    scripts, it is back -/
theorem readd_later_independent_tx_is_back (p : Pool) (a : Args) (l1 : List CTx) (t : CTx) (l2 : List CTx)
    (hr : retain a = l1 ++ t :: l2)
    (hq : ∀ e ∈ updateL p a, Apart t e.id e.spent e.deps e.outs) (hl : ∀ d ∈ l1, Apart t d.id d.spent d.deps d.outs)
    (hlive : ∀ o ∈ t.spent ++ t.deps, o ∈ newLive a) (hh : ∀ h ∈ t.hdeps, h ∉ a.detachedHeaders)
    (hok : t.ok = true) (hmax : 1 ≤ a.maxAnc) :
    ∃ e ∈ reorg p a, e.id = t.id ∧ e.status = windowStage a t.id ∧ e.spent = t.spent ∧ e.deps = t.deps :=
  detached_admissible_tx_is_back p a l1 t l2 hr
    (admissible_of_apart (apart_readd hq (by intro d hd; have := hl d hd; simpa [entryOf] using this)) hlive hh hok hmax)

/-- a detached-only transaction with an input or cell dep that is dead on the new chain and created by
    nobody around is NOT re-admitted -/
theorem readd_conflicting_tx_not_back (p : Pool) (a : Args) (t : CTx) (o : Nat)
    (ho : o ∈ t.spent ++ t.deps) (hdead : o ∉ newLive a)
    (hp : ∀ x ∈ p, o ∉ x.outs ∧ x.id ≠ t.id) (hd : ∀ d ∈ retain a, o ∉ d.outs ∧ (d.id = t.id → d = t)) :
    ∀ e ∈ reorg p a, e.id ≠ t.id := by
  have hsubL : Sub (updateL p a) p := (sub_limitSize a _).trans (update_only_drops_or_restages p a)
  -- nobody in any intermediate pool creates `o`
  have hno : ∀ l1 l2, retain a = l1 ++ l2 → ∀ x ∈ readd a (newLive a) (updateL p a) l1, o ∉ x.outs := by
    intro l1 l2 hl x hx
    rcases readd_prov a (newLive a) l1 (updateL p a) hx with h | ⟨la, d, lb, hl1, _, rfl⟩
    · obtain ⟨x0, hx0, _, _, _, _, i5⟩ := hsubL x h
      rw [i5]; exact (hp x0 hx0).1
    · have hdm : d ∈ retain a := by rw [hl, hl1]; simp
      exact (hd d hdm).1
  intro e he hid
  rcases reorg_adds_only_admissible_detached p a e he with h | ⟨l1, t', l2, hr, hA, rfl⟩
  · obtain ⟨x0, hx0, i1, _⟩ := hsubL e h
    exact (hp x0 hx0).2 (i1 ▸ hid)
  · have ht' : t' ∈ retain a := by rw [hr]; simp
    have : t' = t := (hd t' ht').2 hid
    subst this
    exact not_admissible_of_dead ho hdead (hno l1 (t' :: l2) hr) hA

/-- NoCommittedPooled for the whole section: no pooled entry is an attached transaction -/
theorem no_committed_in_pool_after_reorg (p : Pool) (a : Args) :
    ∀ tx ∈ a.attached, ∀ e ∈ reorg p a, e.id ≠ tx.id := by
  intro tx htx e he
  rcases reorg_adds_only_admissible_detached p a e he with h | ⟨l1, t, l2, hr, _, rfl⟩
  · obtain ⟨e0, he0, i1, _⟩ := sub_limitSize a _ e h
    rw [i1]; exact no_committed_in_pool p a tx htx e0 he0
  · have ht : t ∈ retain a := by rw [hr]; simp
    exact fun h => (mem_retain.mp ht).2 tx htx h.symm

/-- the transactions committed on the main chain after the change: those of the old chain that were
    not detached, and the attached ones -/
def newCommitted (c : List Nat) (a : Args) : List Nat :=
  (c.filter fun id => !a.detached.any (·.id == id)) ++ a.attached.map (·.id)

/-- NoCommittedPooled as an invariant of chain changes: if no pooled transaction was committed on the
    old main chain, none is committed on the new one -/
theorem no_committed_pooled_step (p : Pool) (a : Args) (c : List Nat) (h : ∀ e ∈ p, e.id ∉ c) :
    ∀ e ∈ reorg p a, e.id ∉ newCommitted c a := by
  intro e he hin
  unfold newCommitted at hin
  rcases List.mem_append.mp hin with h1 | h1
  · obtain ⟨hc, hnd⟩ := List.mem_filter.mp h1
    rcases reorg_adds_only_admissible_detached p a e he with h2 | ⟨l1, t, l2, hr, _, rfl⟩
    · obtain ⟨e0, he0, i1, _⟩ := ((sub_limitSize a _).trans (update_only_drops_or_restages p a)) e h2
      exact h e0 he0 (i1 ▸ hc)
    · have ht : t ∈ retain a := by rw [hr]; simp
      have : a.detached.any (·.id == (entryOf a t).id) = true :=
        List.any_eq_true.mpr ⟨t, (mem_retain.mp ht).1, by simp [entryOf]⟩
      rw [this] at hnd; simp at hnd
  · obtain ⟨tx, htx, hid⟩ := List.mem_map.mp h1
    exact no_committed_in_pool_after_reorg p a tx htx e he hid.symm

/-- no pooled entry depends on a detached header — after the re-adds too -/
theorem no_detached_header_dep_after_reorg (p : Pool) (a : Args) :
    ∀ e ∈ reorg p a, ∀ h ∈ e.hdeps, h ∉ a.detachedHeaders := by
  intro e he h hh
  rcases reorg_adds_only_admissible_detached p a e he with h1 | ⟨l1, t, l2, _, hA, rfl⟩
  · obtain ⟨e0, he0, _, _, _, i4, _⟩ := sub_limitSize a _ e h1
    exact no_detached_header_dep p a e0 he0 h (i4 ▸ hh)
  · exact resolves_hdeps hA.1 h hh

/-- NoConflict for the whole section, re-added transactions included, on a well-formed chain change:
    what an attached transaction consumes is dead at the new tip and was not created by a transaction
    that is off the new chain (a pooled one that is not attached, or a detached-only one) -/
theorem no_conflict_after_reorg (p : Pool) (a : Args) (hnd : NoDoubleSpend p)
    (hchain : ∀ y ∈ a.attached, ∀ i ∈ y.spent, i ∉ newLive a ∧ (∀ d ∈ retain a, i ∉ d.outs) ∧
      (∀ x ∈ p, (∀ y' ∈ a.attached, y'.id ≠ x.id) → i ∉ x.outs)) :
    ∀ e ∈ reorg p a, ∀ t ∈ a.attached, ∀ i ∈ t.spent, i ∉ e.spent ∧ i ∉ e.deps := by
  intro e he t ht i hi
  rcases reorg_adds_only_admissible_detached p a e he with h | ⟨l1, t', l2, hr, hA, rfl⟩
  · exact no_conflict_with_attached_after_limit p a hnd e h t ht i hi
  · have key : i ∉ t'.spent ++ t'.deps := by
      intro hmem
      obtain ⟨_, h2⟩ := cellLive_cases (resolves_cells hA.1 i hmem)
      obtain ⟨hdead, hret, hpool⟩ := hchain t ht i hi
      rcases h2 with ⟨x, hx, hox⟩ | h2
      · rcases readd_prov a (newLive a) l1 (updateL p a) hx with hxu | ⟨la, d, lb, hl1, _, rfl⟩
        · obtain ⟨x1, hx1, j1, _, _, _, j5⟩ := sub_limitSize a _ x hxu
          obtain ⟨x0, hx0, i1, _, _, _, i5⟩ := update_only_drops_or_restages p a x1 hx1
          refine hpool x0 hx0 ?_ (i5 ▸ j5 ▸ hox)
          intro y' hy' hid
          exact no_committed_in_pool p a y' hy' x1 hx1 (i1.trans hid.symm)
        · have hdm : d ∈ retain a := by rw [hr, hl1]; simp
          exact hret d hdm hox
      · exact hdead h2
    exact ⟨fun h => key (List.mem_append.mpr (Or.inl h)), fun h => key (List.mem_append.mpr (Or.inr h))⟩

/-! ## InputsResolvable -/

/-- STRONGEST TRUE FORM of "no dead or unknown input" for the code as written. For every pool whose
    inputs and cell deps were live on the old chain or created in the pool, without a double spend,
    and whose entries agree with the attached transactions of the same id: after the whole section
    every input and every cell dep of every pooled entry is live on the NEW chain, or created by a
    pooled entry, or an output of a transaction of a DETACHED block. (The last case is the known finding
    `input-of-detached-parent-not-readmitted`: `child_of_unreadmitted_parent_survives_reorg` shows it
    happens.) -/
theorem inputs_resolvable_up_to_detached (p : Pool) (a : Args)
    (hres : Resolvable (· ∈ a.live) p) (hnd : NoDoubleSpend p)
    (hsame : ∀ t ∈ a.attached, ∀ x ∈ p, x.id = t.id → x.outs = t.outs) :
    ∀ e ∈ reorg p a, ∀ o ∈ e.spent ++ e.deps,
      o ∈ newLive a ∨ (∃ d ∈ a.detached, o ∈ d.outs) ∨ ∃ x ∈ reorg p a, o ∈ x.outs := by
  -- through the update with everything the chain change accounts for
  have h0 : Resolvable (Excused a) p := by
    intro e he o ho
    exact (hres e he o ho).imp excused_of_live id
  have h1 : Resolvable (Excused a) (updateL p a) := by
    apply resolvable_limitSize
    apply resolvable_update p a h0
    intro t ht x hx hid o ho
    exact excused_of_attached_out ht (hsame t ht x hx hid ▸ ho)
  -- no survivor uses what an attached transaction consumed
  have h2 : Resolvable (fun o => o ∈ newLive a ∨ ∃ d ∈ a.detached, o ∈ d.outs) (updateL p a) := by
    intro e he o ho
    rcases h1 e he o ho with (h | h | ⟨y, hy, hoy⟩) | h
    · exact Or.inl (Or.inl h)
    · exact Or.inl (Or.inr h)
    · exfalso
      have := no_conflict_with_attached_after_limit p a hnd e he y hy o hoy
      rcases List.mem_append.mp ho with h | h
      · exact this.1 h
      · exact this.2 h
    · exact Or.inr h
  have h3 := resolvable_readd a (newLive a) (retain a) (updateL p a) (P := fun o => o ∈ newLive a ∨ ∃ d ∈ a.detached, o ∈ d.outs)
    (fun o ho => Or.inl ho) h2
  intro e he o ho
  rcases h3 e he o ho with (h | h) | h
  · exact Or.inl h
  · exact Or.inr (Or.inl h)
  · exact Or.inr (Or.inr h)

/-- InputsResolvable in full when the chain only grows (another miner's block or the node's own):
    every input and cell dep of every pooled entry is live on the new chain or created in the pool -/
theorem inputs_resolvable_on_extension (p : Pool) (a : Args) (hext : a.detached = [])
    (hres : Resolvable (· ∈ a.live) p) (hnd : NoDoubleSpend p)
    (hsame : ∀ t ∈ a.attached, ∀ x ∈ p, x.id = t.id → x.outs = t.outs) :
    Resolvable (· ∈ newLive a) (reorg p a) := by
  intro e he o ho
  rcases inputs_resolvable_up_to_detached p a hres hnd hsame e he o ho with h | ⟨d, hd, _⟩ | h
  · exact Or.inl h
  · rw [hext] at hd; simp at hd
  · exact Or.inr h

/-- the clause is PRESERVED by the expiry step, by `limit_size` for every eviction order, and by the
    re-adds: once it holds after the conflict phases it holds at the end -/
theorem expiry_limit_readd_keep_inputs_resolvable (a : Args) (live : List Nat) (q : Pool) (ex : List Nat) (l : List CTx)
    (h : Resolvable (· ∈ live) q) :
    Resolvable (· ∈ live) (readd a live (limitSize a (ex.foldl removeWithDesc q)) l) :=
  resolvable_readd a live l _ (fun _ ho => ho)
    (resolvable_limitSize a _ (resolvable_foldl_removeWithDesc (fun x : Nat => x) ex q h))

/-- non-vacuity of `inputs_resolvable_on_extension`: the m1 history on the code as written -/
example : Resolvable (· ∈ argsM1.live) poolM1 ∧ Resolvable (· ∈ newLive argsM1) (reorg poolM1 argsM1) := by
  constructor
  · unfold Resolvable poolM1 argsM1; decide
  · unfold Resolvable; decide

/-- … which the seeded variant C12/m1 breaks: B's cell dep 20 is neither live nor created in the pool -/
theorem m1_skip_violates_inputs_resolvable : ¬ Resolvable (· ∈ newLive argsM1) (reorgSkip poolM1 argsM1) := by
  unfold Resolvable; decide

/-- FINDING `input-of-detached-parent-not-readmitted` on the whole section: tx 1 (header dep on block 5)
    was committed on the abandoned branch, block 5 is detached, so 1 is not re-admitted; its pooled child
    2 spends 1's output 16, which is neither live on the new chain nor created in the pool — and stays -/
theorem child_of_unreadmitted_parent_survives_reorg :
    let a : Args := { attached := [], detachedHeaders := [5, 6], detachedProposals := [], gap := [], proposed := [], expired := [],
                      detached := [{ id := 1, spent := [10], hdeps := [5], outs := [16] }], live := [16] }
    (reorg [⟨2, 0, [16], [], [], [32], 0⟩] a).map (·.id) = [2] ∧ 16 ∉ newLive a ∧ 10 ∈ newLive a := by decide

/-- … while a detached parent that IS admissible comes back and the child's input is created in the pool -/
example :
    let a : Args := { attached := [], detachedHeaders := [5, 6], detachedProposals := [], gap := [], proposed := [], expired := [],
                      detached := [{ id := 1, spent := [10], outs := [16] }], live := [16] }
    (reorg [⟨2, 0, [16], [], [], [32], 0⟩] a).map (·.id) = [2, 1] := by decide


/-! ## `limit_size` -/

/-- `limit_size` ends with the pool under the size limit, for every eviction preference -/
theorem limit_size_under_limit (a : Args) (p : Pool) : totalSize (limitSize a p) ≤ a.maxSize :=
  limitLoop_under a.maxSize a.evictPref (p.length + 1) p (by omega)

/-- … and only removes entries -/
theorem limit_size_only_removes (a : Args) (p : Pool) (e : PEnt) (h : e ∈ limitSize a p) : e ∈ p :=
  mem_of_mem_limitLoop _ _ _ _ h

/-- non-vacuity: three entries of size 300 under a limit of 700; the pending one with a descendant is the
    preferred victim and takes its child along -/
example : (limitSize { attached := [], detachedHeaders := [], detachedProposals := [], gap := [], proposed := [], expired := [], maxSize := 700, evictPref := [1] }
    [⟨1, 0, [10], [], [], [16], 300⟩, ⟨2, 0, [16], [], [], [32], 300⟩, ⟨3, 2, [11], [], [], [48], 300⟩]).map (·.id) = [3] := by decide

/-! ## stage = proposal window -/

/-- STRONGEST TRUE FORM of "stage matches the window" for the code as written. For every pool whose
    stages are 0/1/2, equal for equal ids, and whose proposed entries are proposed in the new window
    or among the detached proposal ids (what `ProposalTable::finalize` reports: old proposed set minus
    new): after the whole section every pooled entry is at the stage the new window gives its id — or
    it is a GAP entry whose id is in neither part of the new window (the known finding
    `stage-gap-outside-window`; `gap_stuck_outside_window` shows it happens). -/
theorem stage_matches_window_partial (p : Pool) (a : Args)
    (hsame : ∀ x ∈ p, ∀ y ∈ p, x.id = y.id → x.status = y.status)
    (hle : ∀ x ∈ p, x.status ≤ 2)
    (hprop : ∀ x ∈ p, x.status = 2 → x.id ∈ a.proposed ∨ x.id ∈ a.detachedProposals) :
    ∀ e ∈ reorg p a, e.status = windowStage a e.id ∨ (e.status = 1 ∧ e.id ∉ a.proposed ∧ e.id ∉ a.gap) := by
  intro e he
  rcases reorg_adds_only_admissible_detached p a e he with h | ⟨_, t, _, _, _, rfl⟩
  · have h1 : e ∈ update p a := mem_of_mem_limitLoop _ _ _ _ h
    unfold update at h1
    have h2 := mem_of_mem_foldl_removeWithDesc _ _ h1
    have hin : ∀ x ∈ resolveHeaderDeps (a.attached.foldl removeCommitted p) a.detachedHeaders, x ∈ p :=
      fun x hx => mem_of_mem_conflict_phases p a hx
    have h0 : StageInv a [] (resolveHeaderDeps (a.attached.foldl removeCommitted p) a.detachedHeaders) :=
      ⟨fun x hx y hy => hsame x (hin x hx) y (hin y hy), fun x hx => hle x (hin x hx),
        fun x hx => hprop x (hin x hx), fun x _ hd => by simp at hd⟩
    have h3 := stageInv_foldl_detachProposal a.detachedProposals [] _ h0
    rw [List.append_nil] at h3
    exact stage_after_moves h3 e h2
  · exact Or.inl rfl

/-- non-vacuity: 1 proposed and still proposed, 2 proposed with a detached proposal (back to pending, then
    gap by the new window), 3 pending and newly proposed, 4 gap and now proposed -/
example :
    let a : Args := { attached := [], detachedHeaders := [], detachedProposals := [2], gap := [2], proposed := [1, 3, 4], expired := [] }
    (reorg [⟨1, 2, [10], [], [], [16], 0⟩, ⟨2, 2, [11], [], [], [32], 0⟩, ⟨3, 0, [12], [], [], [48], 0⟩, ⟨4, 1, [13], [], [], [64], 0⟩] a).map
      (fun e => (e.id, e.status)) = [(1, 2), (2, 1), (3, 2), (4, 2)] := by decide


/-! ## the re-adds as the code does them: `add_entry`, `remove_by_detached_proposal`, `reorgR` -/

/-- `PoolMap::add_entry` never invents or alters an entry (evictions only remove) -/
theorem add_entry_never_invents (m : Nat) (pref : List Nat) (q : Pool) (e e' : PEnt)
    (h : e' ∈ (addEntry m pref q e).1) : e' ∈ q ∨ e' = e := addEntry_mem m pref q e h

/-- within `max_ancestors_count` a transaction with a fresh id is inserted and nothing else changes -/
theorem add_entry_within_limit_inserts (m : Nat) (pref : List Nat) (q : Pool) (e : PEnt) (hid : hasId q e.id = false)
    (h : (ancestorsOf q (linkParentsE q e)).length + 1 ≤ m) : addEntry m pref q e = (q ++ [e], true) :=
  addEntry_within_limit m pref q e hid h

/-- over the limit with no cell-ref parent: `ExceededMaximumAncestorsCount`, the pool is unchanged -/
theorem add_entry_over_limit_without_cell_ref_parent_refuses (m : Nat) (pref : List Nat) (q : Pool) (e : PEnt)
    (h : m < (ancestorsOf q (linkParentsE q e)).length + 1) (hc : cellRefParents q e = []) :
    addEntry m pref q e = (q, false) := addEntry_over_limit_no_cell_ref m pref q e h hc

/-- the eviction loop of `check_and_record_ancestors` is entered only when it can succeed: whenever
    `ancestors_count - |cell_ref_parents| ≤ max` it ends with `ancestors_count ≤ max` (the premise of the
    `assert!(ancestors.len() < max_ancestors_count)` that follows it), whatever the eviction order -/
theorem add_entry_eviction_ends_within_limit (m : Nat) (cs : List Nat) (cnt : Nat) (q : Pool) (ps : List Nat)
    (h : cnt - cs.length ≤ m) : (evictLoop m cs cnt q ps).2.2 ≤ m := evictLoop_count m cs cnt q ps h

/-- non-vacuity: B (2) has cell 20 as a cell dep, the new entry 3 spends 20 and an output of 1: over the limit 2
    because of B only, B is evicted and 3 is inserted -/
example : addEntry 2 [] [⟨1, 0, [10], [], [], [16], 0⟩, ⟨2, 0, [11], [20], [], [32], 0⟩] ⟨3, 0, [16, 20], [], [], [48], 0⟩
    = ([⟨1, 0, [10], [], [], [16], 0⟩, ⟨3, 0, [16, 20], [], [], [48], 0⟩], true) := by decide

/-- the refusal model of `Model/Reorg.lean` (`readdOne`) is EXACT for a transaction none of whose inputs is a
    cell dep of a pooled entry (the hypothesis that used to be an assumption of the tie) -/
theorem readd_refusal_model_exact_without_cell_ref_parents (a : Args) (live : List Nat) (q : Pool) (t : CTx)
    (hc : cellRefParents q (entryOf a t) = []) : readdOneR a live q t = readdOne a live q t :=
  readdOneR_eq_readdOne a live q t hc

/-- the same with the weaker hypothesis of the repaired code: no EVICTABLE cell-ref parent (none, or only parents the
    transaction needs) -/
theorem readd_refusal_model_exact_without_evictable_parents (a : Args) (live : List Nat) (q : Pool) (t : CTx)
    (hc : evictableParents q (entryOf a t) = []) : readdOneR a live q t = readdOne a live q t :=
  readdOneR_eq_readdOne_of_no_evictable a live q t hc

/-- over the limit with no evictable cell-ref parent (every cell-ref parent created an input or cell dep of the
    entry): `ExceededMaximumAncestorsCount`, the pool is unchanged (/repo 10e306f) -/
theorem add_entry_over_limit_without_evictable_parent_refuses (m : Nat) (pref : List Nat) (q : Pool) (e : PEnt)
    (h : m < (ancestorsOf q (linkParentsE q e)).length + 1) (hc : evictableParents q e = []) :
    addEntry m pref q e = (q, false) := addEntry_over_limit_no_evictable m pref q e h hc

/-- F33 REPAIRED, for every pool, limit and evict-key order: when `add_entry` inserts the entry, every pooled
    transaction that created one of its inputs or cell deps is still pooled -/
theorem add_entry_inserted_keeps_needed_parents (m : Nat) (pref : List Nat) (q : Pool) (e : PEnt)
    (h : (addEntry m pref q e).2 = true) (id : Nat) (hid : id ∈ neededIds q e) :
    hasId (addEntry m pref q e).1 id = true := addEntry_inserted_keeps_needed m pref q e h id hid

/-- `add_entry` keeps InputsResolvable, whatever it evicts, inserts or refuses: if every input and cell dep of every
    pooled entry and of the new entry is live or created in the pool, the same holds afterwards (false for the
    function before 10e306f: `readd_evicts_creator_of_own_input`) -/
theorem add_entry_keeps_inputs_resolvable (P : Nat → Prop) (m : Nat) (pref : List Nat) (q : Pool) (e : PEnt)
    (hu : UniqueIds q) (hr : Resolvable P q) (he : ∀ o ∈ e.spent ++ e.deps, P o ∨ ∃ x ∈ q, o ∈ x.outs) :
    Resolvable P (addEntry m pref q e).1 := resolvable_addEntry m pref q e hu hr he

/-- the whole loop of `readd_detached_tx` AS WRITTEN (evictions, refusals after evictions included) keeps
    InputsResolvable for every list of detached transactions and every pool in which an id determines the outputs -/
theorem readds_as_written_keep_inputs_resolvable (a : Args) (live : List Nat) (q : Pool) (l : List CTx)
    (hu : UniqueIds q) (h : Resolvable (· ∈ live) q) : Resolvable (· ∈ live) (readdR a live q l) :=
  (resolvable_readdR a live l q (fun _ ho => ho) hu h).1

/-- non-vacuity: the cell-ref eviction history V1 (B evicted, t inserted), resolvable before and after -/
example :
    let q : Pool := [⟨1, 0, [10], [], [], [16], 0⟩, ⟨2, 0, [11], [20], [], [32], 0⟩]
    let a : Args := { attached := [], detachedHeaders := [], detachedProposals := [], gap := [], proposed := [], expired := [], maxAnc := 2 }
    UniqueIds q ∧ Resolvable (· ∈ [10, 11, 20]) q ∧
    (readdR a [10, 11, 20] q [{ id := 3, spent := [16, 20], outs := [48] }]).map (·.id) = [1, 3] := by
  refine ⟨?_, ?_, by decide⟩
  · unfold UniqueIds; decide
  · unfold Resolvable; decide

/-- every surviving entry of the update with the real `remove_by_detached_proposal` is an old entry (possibly at another stage) -/
theorem updateR_only_drops_or_restages (p : Pool) (a : Args) : Sub (updateR p a) p :=
  (sub_updateR_attached p a).trans (sub_foldl _ sub_removeCommitted _ _)

/-- everything pooled after the whole section is a survivor of the update or a detached-only transaction that
    resolved against the pool of its turn + the new chain and passed fee and scripts, at the stage of the new window -/
theorem reorgR_adds_only_resolving_detached (p : Pool) (a : Args) (e : PEnt) (he : e ∈ reorgR p a) :
    e ∈ limitSize a (updateR p a) ∨
    ∃ l1 t l2, retain a = l1 ++ t :: l2 ∧
      resolves (readdR a (newLive a) (limitSize a (updateR p a)) l1) a (newLive a) t = true ∧ t.ok = true ∧ e = entryOf a t :=
  readdR_prov a (newLive a) (retain a) _ he

/-- NoCommittedPooled for the section with the real re-adds -/
theorem no_committed_in_pool_R (p : Pool) (a : Args) : ∀ tx ∈ a.attached, ∀ e ∈ reorgR p a, e.id ≠ tx.id := by
  intro tx htx e he
  rcases reorgR_adds_only_resolving_detached p a e he with h | ⟨l1, t, l2, hr, _, _, rfl⟩
  · have hsub : Sub (limitSize a (updateR p a)) (a.attached.foldl removeCommitted p) :=
      (sub_limitSize a _).trans (sub_updateR_attached p a)
    exact hsub.forall (fun id _ _ _ => id ≠ tx.id) (foldl_removeCommitted_no_id a.attached p tx htx) e h
  · have ht : t ∈ retain a := by rw [hr]; simp
    exact fun h => (mem_retain.mp ht).2 tx htx h.symm

/-- NoConflict for the survivors of the update with the real `remove_by_detached_proposal` and `limit_size` -/
theorem no_conflict_with_attached_R (p : Pool) (a : Args) (hnd : NoDoubleSpend p) :
    ∀ e ∈ limitSize a (updateR p a), ∀ t ∈ a.attached, ∀ i ∈ t.spent, i ∉ e.spent ∧ i ∉ e.deps := by
  intro e he t ht i hi
  obtain ⟨e0, he0, _, i2, i3, _⟩ := ((sub_limitSize a _).trans (sub_updateR_attached p a)) e he
  have := foldl_removeCommitted_clears a.attached p hnd e0 he0 t ht i hi
  exact ⟨i2 ▸ this.1, i3 ▸ this.2⟩

/-- NoConflict for the whole section with the real re-adds, on a well-formed chain change (same side condition as
    `no_conflict_after_reorg`) -/
theorem no_conflict_after_reorgR (p : Pool) (a : Args) (hnd : NoDoubleSpend p)
    (hchain : ∀ y ∈ a.attached, ∀ i ∈ y.spent, i ∉ newLive a ∧ (∀ d ∈ retain a, i ∉ d.outs) ∧
      (∀ x ∈ p, (∀ y' ∈ a.attached, y'.id ≠ x.id) → i ∉ x.outs)) :
    ∀ e ∈ reorgR p a, ∀ t ∈ a.attached, ∀ i ∈ t.spent, i ∉ e.spent ∧ i ∉ e.deps := by
  intro e he t ht i hi
  rcases reorgR_adds_only_resolving_detached p a e he with h | ⟨l1, t', l2, hr, hA, _, rfl⟩
  · exact no_conflict_with_attached_R p a hnd e h t ht i hi
  · have key : i ∉ t'.spent ++ t'.deps := by
      intro hmem
      obtain ⟨_, h2⟩ := cellLive_cases (resolves_cells hA i hmem)
      obtain ⟨hdead, hret, hpool⟩ := hchain t ht i hi
      rcases h2 with ⟨x, hx, hox⟩ | h2
      · rcases readdR_prov a (newLive a) l1 _ hx with hxu | ⟨la, d, lb, hl1, _, _, rfl⟩
        · obtain ⟨x1, hx1, j1, _, _, _, j5⟩ := sub_limitSize a _ x hxu
          obtain ⟨x0, hx0, i1, _, _, _, i5⟩ := updateR_only_drops_or_restages p a x1 hx1
          refine hpool x0 hx0 ?_ (i5 ▸ j5 ▸ hox)
          intro y' hy' hid
          have hsub : Sub (updateR p a) (a.attached.foldl removeCommitted p) := sub_updateR_attached p a
          exact hsub.forall (fun id _ _ _ => id ≠ y'.id) (foldl_removeCommitted_no_id a.attached p y' hy') x1 hx1 (i1.trans hid.symm)
        · have hdm : d ∈ retain a := by rw [hr, hl1]; simp
          exact hret d hdm hox
      · exact hdead h2
    exact ⟨fun h => key (List.mem_append.mpr (Or.inl h)), fun h => key (List.mem_append.mpr (Or.inr h))⟩

/-- no pooled entry depends on a detached header, with the real re-adds -/
theorem no_detached_header_dep_R (p : Pool) (a : Args) :
    ∀ e ∈ reorgR p a, ∀ h ∈ e.hdeps, h ∉ a.detachedHeaders := by
  intro e he h hh hdet
  rcases reorgR_adds_only_resolving_detached p a e he with h1 | ⟨l1, t, l2, _, hA, _, rfl⟩
  · let p1 := a.attached.foldl removeCommitted p
    have hsub : Sub (limitSize a (updateR p a)) (resolveHeaderDeps p1 a.detachedHeaders) := by
      refine (sub_limitSize a _).trans ?_
      unfold updateR; exact sub_updateR_tail a _
    obtain ⟨e2, he2, i1, _, _, i4, _⟩ := hsub e h1
    obtain ⟨e1, he1, j1, _, _, j4, _⟩ := sub_resolveHeaderDeps p1 a.detachedHeaders e2 he2
    have hoff : e1 ∈ p1.filter (fun x => x.hdeps.any a.detachedHeaders.contains) := by
      apply List.mem_filter.mpr
      refine ⟨he1, ?_⟩
      rw [List.any_eq_true]
      exact ⟨h, by rw [← j4, ← i4]; exact hh, by simpa using hdet⟩
    have hclear := foldl_removeWithDesc_clears (fun x => x.hdeps.any a.detachedHeaders.contains) p1 e2 he2
    apply hclear
    rw [j1]
    exact List.mem_map_of_mem hoff
  · exact resolves_hdeps hA h hh hdet

/-- no expired id survives the update with the real `remove_by_detached_proposal` -/
theorem no_expired_in_pool_R (p : Pool) (a : Args) : ∀ e ∈ updateR p a, e.id ∉ a.expired := by
  intro e he
  exact foldl_removeWithDesc_no_id a.expired _ e he

/-- REFINEMENT (partial): the optimistic model `reorg` of the 34 theorems above IS the section as the code does it
    whenever (1) every pooled entry with a detached proposal id is pending (so `remove_by_detached_proposal` has
    nothing to take out) and (2) no pooled entry and no detached-only transaction has an input of a detached-only
    transaction as a cell dep (so `check_and_record_ancestors` has no cell-ref parent to evict).
    FULL STATEMENT not proved: equality up to the order of the pool whenever every re-add of
    `remove_by_detached_proposal` is within the ancestor limit at its turn (needs permutation-invariance of the
    later phases); the tie compares the two on every generated chain change instead. -/
theorem reorgR_eq_reorg_partial (p : Pool) (a : Args)
    (h1 : ∀ id ∈ a.detachedProposals, ∀ e ∈ p, e.id = id → e.status = 0)
    (h2 : ∀ x ∈ p, ∀ t ∈ retain a, ∀ o ∈ t.spent, o ∉ x.deps)
    (h3 : ∀ d ∈ retain a, ∀ t ∈ retain a, ∀ o ∈ t.spent, o ∉ d.deps) : reorgR p a = reorg p a := by
  have hp2 : ∀ e ∈ resolveHeaderDeps (a.attached.foldl removeCommitted p) a.detachedHeaders, e ∈ p :=
    fun e he => mem_of_mem_conflict_phases p a he
  have hfold := foldl_detachProposalR_eq_of_pending a.maxAnc a.evictPref a.detachedProposals
    (resolveHeaderDeps (a.attached.foldl removeCommitted p) a.detachedHeaders)
    (fun id hid e he => h1 id hid e (hp2 e he))
  have hupd : updateR p a = update p a := by
    unfold updateR update
    simp only [hfold.1, hfold.2]
  unfold reorgR reorg updateL
  rw [hupd]
  apply readdR_eq_readd _ _ _ _ _ h3
  intro x hx t ht o ho
  obtain ⟨x0, hx0, _, _, i3, _⟩ := ((sub_limitSize a _).trans (update_only_drops_or_restages p a)) x hx
  rw [i3]; exact h2 x0 hx0 t ht o ho

/-- non-vacuity of `reorgR_eq_reorg_partial` and of the clauses above: the m1 history -/
example : reorgR poolM1 argsM1 = reorg poolM1 argsM1 ∧ (reorgR poolM1 argsM1).map (·.id) = [4] := by decide

/-- InputsResolvable for the section AS WRITTEN (partial): with the hypotheses of `inputs_resolvable_up_to_detached`,
    an id determining the outputs, and every pooled entry with a detached proposal id pending (so that
    `remove_by_detached_proposal` takes nothing out — the step that breaks the clause, known finding
    input-of-parent-dropped-at-detached-proposal-readd), every input and cell dep of every pooled entry after
    `reorgR` — cell-ref evictions and refusals after evictions of the re-adds included — is live on the new chain,
    created by a pooled entry, or an output of a detached transaction. No hypothesis about cell deps is needed
    any more (compare `reorgR_eq_reorg_partial`): that is what /repo 10e306f bought.
    FULL STATEMENT (false as the code is): the same without the pending hypothesis. -/
theorem inputs_resolvable_up_to_detached_R_partial (p : Pool) (a : Args) (hu : UniqueIds p)
    (hres : Resolvable (· ∈ a.live) p) (hnd : NoDoubleSpend p)
    (hsame : ∀ t ∈ a.attached, ∀ x ∈ p, x.id = t.id → x.outs = t.outs)
    (h1 : ∀ id ∈ a.detachedProposals, ∀ e ∈ p, e.id = id → e.status = 0) :
    ∀ e ∈ reorgR p a, ∀ o ∈ e.spent ++ e.deps,
      o ∈ newLive a ∨ (∃ d ∈ a.detached, o ∈ d.outs) ∨ ∃ x ∈ reorgR p a, o ∈ x.outs := by
  have hp2 : ∀ e ∈ resolveHeaderDeps (a.attached.foldl removeCommitted p) a.detachedHeaders, e ∈ p :=
    fun e he => mem_of_mem_conflict_phases p a he
  have hfold := foldl_detachProposalR_eq_of_pending a.maxAnc a.evictPref a.detachedProposals
    (resolveHeaderDeps (a.attached.foldl removeCommitted p) a.detachedHeaders)
    (fun id hid e he => h1 id hid e (hp2 e he))
  have hupd : updateR p a = update p a := by
    unfold updateR update
    simp only [hfold.1, hfold.2]
  have h0 : Resolvable (Excused a) p := by
    intro e he o ho
    exact (hres e he o ho).imp excused_of_live id
  have hL : Resolvable (Excused a) (updateL p a) := by
    apply resolvable_limitSize
    apply resolvable_update p a h0
    intro t ht x hx hid o ho
    exact excused_of_attached_out ht (hsame t ht x hx hid ▸ ho)
  have h2 : Resolvable (fun o => o ∈ newLive a ∨ ∃ d ∈ a.detached, o ∈ d.outs) (updateL p a) := by
    intro e he o ho
    rcases hL e he o ho with (h | h | ⟨y, hy, hoy⟩) | h
    · exact Or.inl (Or.inl h)
    · exact Or.inl (Or.inr h)
    · exfalso
      have := no_conflict_with_attached_after_limit p a hnd e he y hy o hoy
      rcases List.mem_append.mp ho with h | h
      · exact this.1 h
      · exact this.2 h
    · exact Or.inr h
  have huL : UniqueIds (updateL p a) :=
    uniqueIds_of_sub ((sub_limitSize a _).trans (update_only_drops_or_restages p a)) hu
  have h3 := (resolvable_readdR a (newLive a) (retain a) (updateL p a)
    (P := fun o => o ∈ newLive a ∨ ∃ d ∈ a.detached, o ∈ d.outs) (fun o ho => Or.inl ho) huL h2).1
  have hE : reorgR p a = readdR a (newLive a) (updateL p a) (retain a) := by
    unfold reorgR updateL; rw [hupd]
  rw [hE]
  intro e he o ho
  rcases h3 e he o ho with (h | h) | h
  · exact Or.inl h
  · exact Or.inr (Or.inl h)
  · exact Or.inr (Or.inr h)

/-- non-vacuity: the V1 eviction history as a whole section (B and 1 pooled, t detached), hypotheses hold, B is evicted -/
example :
    let p : Pool := [⟨1, 0, [10], [], [], [16], 0⟩, ⟨2, 0, [11], [20], [], [32], 0⟩]
    let a : Args := { attached := [], detachedHeaders := [], detachedProposals := [], gap := [], proposed := [], expired := [],
                      detached := [{ id := 3, spent := [16, 20], outs := [48] }], live := [10, 11, 48], maxAnc := 2 }
    UniqueIds p ∧ NoDoubleSpend p ∧ (reorgR p a).map (·.id) = [1, 3] := by
  refine ⟨?_, ?_, by decide⟩
  · unfold UniqueIds; decide
  · unfold NoDoubleSpend; decide

/-- STAGE = WINDOW for the section AS WRITTEN (same strongest true form and same hypotheses as
    `stage_matches_window_partial`, now about `reorgR`: the real `remove_by_detached_proposal`, whose refused
    re-adds only drop entries, and the real re-adds): every pooled entry is at the stage the new window gives its
    id, or it is a gap entry outside both parts of the window (known finding stage-gap-outside-window) -/
theorem stage_matches_window_R_partial (p : Pool) (a : Args)
    (hsame : ∀ x ∈ p, ∀ y ∈ p, x.id = y.id → x.status = y.status)
    (hle : ∀ x ∈ p, x.status ≤ 2)
    (hprop : ∀ x ∈ p, x.status = 2 → x.id ∈ a.proposed ∨ x.id ∈ a.detachedProposals) :
    ∀ e ∈ reorgR p a, e.status = windowStage a e.id ∨ (e.status = 1 ∧ e.id ∉ a.proposed ∧ e.id ∉ a.gap) := by
  intro e he
  rcases reorgR_adds_only_resolving_detached p a e he with h | ⟨_, t, _, _, _, _, rfl⟩
  · have h1 : e ∈ updateR p a := mem_of_mem_limitLoop _ _ _ _ h
    unfold updateR at h1
    have h2 := mem_of_mem_foldl_removeWithDesc _ _ h1
    have hin : ∀ x ∈ resolveHeaderDeps (a.attached.foldl removeCommitted p) a.detachedHeaders, x ∈ p :=
      fun x hx => mem_of_mem_conflict_phases p a hx
    have h0 : StageInv a [] (resolveHeaderDeps (a.attached.foldl removeCommitted p) a.detachedHeaders) :=
      ⟨fun x hx y hy => hsame x (hin x hx) y (hin y hy), fun x hx => hle x (hin x hx),
        fun x hx => hprop x (hin x hx), fun x _ hd => by simp at hd⟩
    have h3 := stageInv_foldl_detachProposalR a.maxAnc a.evictPref a.detachedProposals [] _ h0
    rw [List.append_nil] at h3
    exact stage_after_moves h3 e h2
  · exact Or.inl rfl

/-- non-vacuity: limit 2, the chain 1 → 2 → 3 → 4 with 3 proposed and its proposal detached (the history of
    `detached_proposal_readd_refused_orphans_child`): 3 is dropped, the others are at the stage of the window -/
example :
    let p : Pool := [⟨1, 0, [10], [], [], [16], 0⟩, ⟨2, 0, [16], [], [], [32], 0⟩, ⟨3, 2, [32], [], [], [48], 0⟩, ⟨4, 0, [48], [], [], [64], 0⟩]
    let a : Args := { attached := [], detachedHeaders := [], detachedProposals := [3], gap := [4], proposed := [1], expired := [],
                      live := [10], maxAnc := 2 }
    (reorgR p a).map (fun e => (e.id, e.status)) = [(1, 2), (2, 0), (4, 1)] := by decide

/-! ## `submit_entry` interleaved with the reorg notification (`Model/ReorgSubmit.lean`)

Every schedule of the tx-pool service is a sequence of atomic write-locked steps; a submission whose
verification started before a chain change reaches `submit_entry` with the tip of its pre-check. -/

/-- a submission that was verified against an OLDER tip keeps InputsResolvable, whatever the pool and the chain
    became meanwhile: it is re-checked against pool + current chain, and `add_entry` keeps the clause -/
theorem stale_submit_keeps_inputs_resolvable (a : Args) (live : List Nat) (preTip tip preStage : Nat) (q : Pool) (t : CTx)
    (hne : preTip ≠ tip) (hu : UniqueIds q) (hr : Resolvable (· ∈ live) q) :
    Resolvable (· ∈ live) (submitEntry a live preTip tip preStage q t).1 :=
  (resolvable_submitEntry_stale a live preTip tip preStage q t hne (fun _ ho => ho) hu hr).1

/-- … for every batch of paused submissions released after the chain change, in every order -/
theorem stale_submits_keep_inputs_resolvable (a : Args) (live : List Nat) (tip : Nat) (q : Pool) (l : List (CTx × Nat × Nat))
    (hne : ∀ x ∈ l, x.2.1 ≠ tip) (hu : UniqueIds q) (hr : Resolvable (· ∈ live) q) :
    Resolvable (· ∈ live) (submitAll a live tip q l) :=
  (resolvable_submitAll a live tip l q hne (fun _ ho => ho) hu hr).1

/-- a stale submission never brings in anything but the transaction itself, and only if it resolves against the
    pool + the CURRENT chain; it then sits at the stage of the CURRENT proposal window and has no header dep off
    the main chain -/
theorem stale_submit_adds_only_resolving_tx_at_window_stage (a : Args) (live : List Nat) (preTip tip preStage : Nat)
    (q : Pool) (t : CTx) (hne : preTip ≠ tip) (e : PEnt) (he : e ∈ (submitEntry a live preTip tip preStage q t).1) :
    e ∈ q ∨ (e = entryOf a t ∧ e.status = windowStage a t.id ∧ resolves q a live t = true ∧
             ∀ h ∈ e.hdeps, h ∉ a.detachedHeaders) := by
  rcases submitEntry_stale_prov a live preTip tip preStage q t hne he with h | ⟨hres, rfl⟩
  · exact Or.inl h
  · exact Or.inr ⟨rfl, rfl, hres, fun h hh => resolves_hdeps hres h hh⟩

/-- NoCommittedPooled / NoConflict across the interleaving: a paused transaction one of whose inputs was consumed
    on the new chain (by itself — it was committed meanwhile — or by a conflicting transaction) and is not created
    in the pool is refused and the pool is untouched -/
theorem stale_submit_with_consumed_input_refused (a : Args) (live : List Nat) (preTip tip preStage : Nat) (q : Pool) (t : CTx)
    (hne : preTip ≠ tip) (o : Nat) (ho : o ∈ t.spent) (hdead : o ∉ live) (hmade : ∀ x ∈ q, o ∉ x.outs) :
    submitEntry a live preTip tip preStage q t = (q, false) := by
  apply submitEntry_stale_refused a live preTip tip preStage q t hne
  cases hres : resolves q a live t with
  | false => rfl
  | true =>
    exfalso
    obtain ⟨_, h2⟩ := cellLive_cases (resolves_cells hres o (List.mem_append.mpr (Or.inl ho)))
    rcases h2 with ⟨x, hx, hox⟩ | h2
    · exact hmade x hx hox
    · exact hdead h2

/-- WITNESS for the re-check: the same step without it (`submitEntryNoRecheck`) admits a transaction whose input
    was consumed on the new chain; with it the transaction is refused -/
theorem stale_submit_without_recheck_admits_dead_input :
    let a : Args := { attached := [], detachedHeaders := [], detachedProposals := [], gap := [], proposed := [], expired := [] }
    let t : CTx := { id := 3, spent := [10], outs := [48] }
    (submitEntryNoRecheck a 0 [] t).1.map (·.id) = [3] ∧ ¬ Resolvable (· ∈ ([] : List Nat)) (submitEntryNoRecheck a 0 [] t).1 ∧
    submitEntry a [] 1 2 0 [] t = ([], false) := by
  refine ⟨by decide, ?_, by decide⟩
  unfold Resolvable; decide

/-- SUSPECTED DEFECT (round 6; replay work/eng-C12/finding-same-tip-parent-replaced.ops on the real node): the re-check
    runs only when the TIP moved. P = 1 (output 16) was pooled when t = 2 was verified; a concurrent submission
    replaced P by P' = 3 (RBF, same input 10); the tip is still the one of t's pre-check, so `submit_entry` re-checks
    nothing, `add_entry` finds no pooled parent, and t is pooled with the input 16 that is neither live nor created
    in the pool. Had the tip moved, t would have been refused. -/
theorem same_tip_submit_is_not_rechecked_orphans_child :
    let a : Args := { attached := [], detachedHeaders := [], detachedProposals := [], gap := [], proposed := [], expired := [] }
    let q : Pool := [⟨3, 0, [10], [], [], [48], 0⟩]
    let t : CTx := { id := 2, spent := [16], outs := [32] }
    (submitEntry a [] 7 7 0 q t).1.map (·.id) = [3, 2] ∧ ¬ Resolvable (· ∈ ([] : List Nat)) (submitEntry a [] 7 7 0 q t).1 ∧
    submitEntry a [] 6 7 0 q t = (q, false) := by
  refine ⟨by decide, ?_, by decide⟩
  unfold Resolvable; decide

/-- non-vacuity of the stale-submission theorems: the tip moved, the parent 1 is pooled, cell 20 is live: t is
    admitted at the stage of the current window (proposed) -/
example :
    let a : Args := { attached := [], detachedHeaders := [], detachedProposals := [], gap := [], proposed := [3], expired := [] }
    (submitEntry a [10, 20] 1 2 0 [⟨1, 0, [10], [], [], [16], 0⟩] { id := 3, spent := [16, 20], outs := [48] }).1.map
      (fun e => (e.id, e.status)) = [(1, 0), (3, 2)] := by decide


/-! ### negation witnesses: what the real re-adds break (suspected defects, reproduced on the node) -/

/-- SUSPECTED DEFECT (replay corpus/C12/reorg-suspect-detached-proposal-readd-refused.ops): limit 2; the chain
    1 → 2 → 3 → 4 is pooled (3 and 4 are over the limit: their ancestors 1, 2 were re-added behind them by an earlier
    reorg, which nothing checks), 3 is proposed and its proposal is detached. `remove_by_detached_proposal` takes 3
    and 4 out; the re-add of 3 is refused (3 ancestors-with-self > 2) and only logged; the re-add of 4 finds no
    pooled parent and succeeds: 4 stays pooled with the input 48 that is neither live nor created in the pool, and
    3 is lost although nothing on the chain conflicts with it. -/
theorem detached_proposal_readd_refused_orphans_child :
    let p : Pool := [⟨1, 0, [10], [], [], [16], 0⟩, ⟨2, 0, [16], [], [], [32], 0⟩, ⟨3, 2, [32], [], [], [48], 0⟩, ⟨4, 0, [48], [], [], [64], 0⟩]
    let a : Args := { attached := [], detachedHeaders := [], detachedProposals := [3], gap := [], proposed := [], expired := [],
                      live := [10], maxAnc := 2 }
    Resolvable (· ∈ a.live) p ∧ (reorgR p a).map (·.id) = [1, 2, 4] ∧ ¬ Resolvable (· ∈ newLive a) (reorgR p a) ∧
    (reorg p a).map (·.id) = [1, 2, 3, 4] := by
  refine ⟨?_, by decide, ?_, by decide⟩
  · unfold Resolvable; decide
  · unfold Resolvable; decide

/-- the cell-ref eviction during a re-add (replay corpus/C12/reorg-readd-evicts-cell-ref-parent.ops): 1, B = 2 (cell dep
    20) and t = 3 (spends 20 and an output of 1) were committed on the abandoned branch; limit 2: the re-add of t is over
    the limit only because of B, B is evicted, t is back. The refusal model `reorg` keeps B and refuses t. -/
theorem readd_evicts_cell_ref_parent :
    let a : Args := { attached := [], detachedHeaders := [], detachedProposals := [], gap := [], proposed := [], expired := [],
                      detached := [{ id := 1, spent := [10], outs := [16] }, { id := 2, spent := [11], deps := [20], outs := [32] },
                                   { id := 3, spent := [16, 20], outs := [48] }],
                      live := [32, 48], maxAnc := 2 }
    (reorgR [] a).map (·.id) = [1, 3] ∧ (reorg [] a).map (·.id) = [1, 2] ∧ newLive a = [20, 11, 10] := by decide

/-- DEFECT F33, repaired by /repo 10e306f (replay corpus/C12/reorg-suspect-evicted-cell-ref-parent-is-creator.ops, also
    reachable by a plain submission) — about the function AS IT WAS (`reorgRPreF33`): B = 2 spends an output of 1 and has
    cell 20 as a cell dep; t = 3 spends 20 AND B's output 32. Limit 2: t is over the limit, B is its only cell-ref
    parent, B is evicted and leaves `parents`, so the check "every remaining parent is pooled" passes and t is
    inserted — with the input 32 that nobody creates any more. -/
theorem readd_evicts_creator_of_own_input :
    let a : Args := { attached := [], detachedHeaders := [], detachedProposals := [], gap := [], proposed := [], expired := [],
                      detached := [{ id := 1, spent := [10], outs := [16] }, { id := 2, spent := [16], deps := [20], outs := [32] },
                                   { id := 3, spent := [32, 20], outs := [48] }],
                      live := [48], maxAnc := 2 }
    (reorgRPreF33 [] a).map (·.id) = [1, 3] ∧ ¬ Resolvable (· ∈ newLive a) (reorgRPreF33 [] a) ∧ 32 ∉ newLive a := by
  refine ⟨by decide, ?_, by decide⟩
  unfold Resolvable; decide

/-- the same history on the code as it is (10e306f): B is needed by t, so it is no eviction candidate; t is over
    the limit with no evictable parent and is refused; 1 and B stay and every input is live or created in the pool -/
theorem readd_keeps_creator_of_own_input :
    let a : Args := { attached := [], detachedHeaders := [], detachedProposals := [], gap := [], proposed := [], expired := [],
                      detached := [{ id := 1, spent := [10], outs := [16] }, { id := 2, spent := [16], deps := [20], outs := [32] },
                                   { id := 3, spent := [32, 20], outs := [48] }],
                      live := [48], maxAnc := 2 }
    (reorgR [] a).map (·.id) = [1, 2] ∧ Resolvable (· ∈ newLive a) (reorgR [] a) := by
  refine ⟨by decide, ?_⟩
  unfold Resolvable; decide

/-- SUSPECTED DEFECT (replay corpus/C12/reorg-suspect-refused-after-eviction.ops): 1, B = 2 (cell dep 20), C = 3 (spends
    B's output) and t = 4 (spends 20, an output of 1 and C's output) were committed on the abandoned branch; limit 3. The
    re-add of t evicts its cell-ref parent B, which takes C along; C was another parent of t, so the insertion is
    refused (/repo b7267ec) — but the evictions stay: B and C, both re-admitted a moment ago and both admissible
    against the final pool and the new chain, are lost. -/
theorem readd_refused_after_eviction_loses_admissible_txs :
    let a : Args := { attached := [], detachedHeaders := [], detachedProposals := [], gap := [], proposed := [], expired := [],
                      detached := [{ id := 1, spent := [10], outs := [16] }, { id := 2, spent := [11], deps := [20], outs := [32] },
                                   { id := 3, spent := [32], outs := [48] }, { id := 4, spent := [16, 48, 20], outs := [64] }],
                      live := [64], maxAnc := 3 }
    (reorgR [] a).map (·.id) = [1] ∧
    Admissible a (newLive a) (reorgR [] a) { id := 2, spent := [11], deps := [20], outs := [32] } := by
  refine ⟨by decide, ?_⟩
  decide

end CkbVerif.C12
