import CkbVerif.Lemmas.Reorg

/-!
# C12 — after any reorg the pool agrees with the new chain

Theorems about `Reorg.update` = `_update_tx_pool_for_reorg` restricted to the entries pooled before
the change (`Model/Reorg.lean`), for ALL pools, attached transaction lists, detached header /
proposal sets and proposal views:

* `no_committed_in_pool`      no surviving entry is one of the attached (committed) transactions;
* `no_detached_header_dep`    no surviving entry has a header dep among the detached headers;
* `update_only_drops_or_restages`  every surviving entry is an entry of the old pool (same id,
                              inputs, deps, header deps): the update never invents or alters one;
* `stage_of_pending_matches_window`  an entry that is pending when the stage moves run ends up
                              exactly at the stage the new proposal view gives its id.

* `no_expired_in_pool`        no surviving entry is one of the expired ids (repaired `remove_expired`);
* `first_expired_descendants_removed`  the descendants (as `calc_descendants` sees them when the
                              removal runs) of the first expired id are gone too; pre-fix witness
                              `expired_parent_keeps_child_preF5` (F5, /repo 3724ae4).

NOT theorems — false for the code as written, with `decide`d witnesses that the harness also
observes on the real node (findings, see the final report):

* `gap_stuck_outside_window` (stage_matches_window fails): an entry in stage gap whose proposal sat
  in the *gap* part of the abandoned branch is in neither `detached_proposal_id` (= old proposed set
  \ new proposed set; the gap set is not consulted) nor the new view, and stays `Gap`; since
  `get_proposals` offers only `Pending` entries, this node never proposes it again.
* `child_of_unreadmitted_parent_survives` (no_dead_or_unknown_input fails): nothing removes a pooled
  transaction whose parent was committed on the abandoned branch and cannot be re-admitted (e.g.
  its header dep was detached, or a conflicting transaction is committed on the new branch).

Not modelled: `readd_detached_tx`, `limit_size`, concurrent submissions (`submit_entry`'s re-check);
`no_conflict_with_attached` (no survivor spends an input of an attached tx) is only checked by the
oracle (it needs C11's "pool inputs are unique" invariant).
-/

namespace CkbVerif.C12
open CkbVerif.Reorg

theorem foldl_removeCommitted_no_id (l : List Tx) (p : Pool) :
    ∀ tx ∈ l, ∀ e ∈ l.foldl removeCommitted p, e.id ≠ tx.id := by
  induction l generalizing p with
  | nil => intro tx h; simp at h
  | cons t ts ih =>
    intro tx htx e he
    simp only [List.foldl_cons] at he
    rcases List.mem_cons.mp htx with rfl | h
    · have hsub : Sub (ts.foldl removeCommitted (removeCommitted p tx)) (removeEntry p tx.id) :=
        (sub_foldl _ sub_removeCommitted _ _).trans (sub_foldl _ sub_resolveInput _ _)
      exact hsub.forall (fun id _ _ _ => id ≠ tx.id) (removeEntry_no_id p tx.id) e he
    · exact ih (removeCommitted p t) tx h e he

/-- every surviving entry is an old entry (possibly at another stage) -/
theorem update_only_drops_or_restages (p : Pool) (a : Args) : Sub (update p a) p := by
  unfold update
  exact ((sub_update_tail a _).trans (sub_resolveHeaderDeps _ _)).trans (sub_foldl _ sub_removeCommitted _ _)

/-- no surviving entry is an attached (committed) transaction -/
theorem no_committed_in_pool (p : Pool) (a : Args) :
    ∀ tx ∈ a.attached, ∀ e ∈ update p a, e.id ≠ tx.id := by
  intro tx htx
  have h1 := foldl_removeCommitted_no_id a.attached p tx htx
  have hsub : Sub (update p a) (a.attached.foldl removeCommitted p) := by
    unfold update
    exact (sub_update_tail a _).trans (sub_resolveHeaderDeps _ _)
  exact hsub.forall (fun id _ _ _ => id ≠ tx.id) h1

/-- no surviving entry depends on a detached header -/
theorem no_detached_header_dep (p : Pool) (a : Args) :
    ∀ e ∈ update p a, ∀ h ∈ e.hdeps, h ∉ a.detachedHeaders := by
  intro e he h hh hdet
  let p1 := a.attached.foldl removeCommitted p
  have hsub : Sub (update p a) (resolveHeaderDeps p1 a.detachedHeaders) := by
    unfold update; exact sub_update_tail a _
  obtain ⟨e2, he2, i1, _, _, i4⟩ := hsub e he
  obtain ⟨e1, he1, j1, _, _, j4⟩ := sub_resolveHeaderDeps p1 a.detachedHeaders e2 he2
  have hoff : e1 ∈ p1.filter (fun x => x.hdeps.any a.detachedHeaders.contains) := by
    apply List.mem_filter.mpr
    refine ⟨he1, ?_⟩
    rw [List.any_eq_true]
    exact ⟨h, by rw [← j4, ← i4]; exact hh, by simpa using hdet⟩
  have hclear := foldl_removeWithDesc_clears (fun x => x.hdeps.any a.detachedHeaders.contains) p1 e2 he2
  apply hclear
  rw [j1]
  exact List.mem_map_of_mem hoff

/-- the stage the new proposal view gives an id -/
def windowStage (a : Args) (id : Nat) : Nat :=
  if a.proposed.contains id then 2 else if a.gap.contains id then 1 else 0

/-- a pending entry is moved to exactly the stage of the new window -/
theorem stage_of_pending_matches_window (a : Args) (e : PEnt) (h : e.status = 0) :
    (moveStage a e).status = windowStage a e.id := by
  unfold moveStage windowStage
  simp [h]
  split
  · rfl
  · split <;> simp [h]

/-! ## concrete histories -/

def pool1 : Pool :=
  [ ⟨1, 2, [10], [], [], [2]⟩,      -- proposed, parent of 2
    ⟨2, 1, [16], [], [], []⟩,       -- gap, spends 1's output
    ⟨3, 0, [11], [], [7], []⟩,      -- pending, header dep on block 7
    ⟨4, 0, [12], [], [], []⟩ ]      -- pending

/-- non-vacuity: tx 1 is committed, block 7 is detached, 4 becomes proposed; 2 moves on to proposed -/
example : update pool1 ⟨[⟨1, [10]⟩], [7], [], [], [2, 4], []⟩ = [⟨2, 2, [16], [], [], []⟩, ⟨4, 2, [12], [], [], []⟩] := by
  decide

/-- a conflicting transaction (id 9, not pooled) spending out-point 10 is committed: 1 and its descendant 2 go -/
example : (update pool1 ⟨[⟨9, [10]⟩], [], [], [], [], []⟩).map (·.id) = [3, 4] := by decide

/-- repaired `remove_expired` (3724ae4): no expired id survives the update -/
theorem no_expired_in_pool (p : Pool) (a : Args) : ∀ e ∈ update p a, e.id ∉ a.expired := by
  intro e he
  exact foldl_removeWithDesc_no_id a.expired _ e he

/-- … and the descendants of the first expired id go with it (for the later ones the statement is
    about `descOf` of the pool at that moment, i.e. the same lemma applied to the intermediate pool) -/
theorem first_expired_descendants_removed (p : Pool) (a : Args) (x : Nat) (xs : List Nat)
    (hx : a.expired = x :: xs) :
    let p4 := ((a.detachedProposals.foldl detachProposal
      (resolveHeaderDeps (a.attached.foldl removeCommitted p) a.detachedHeaders)).map (moveStage a))
    ∀ e ∈ update p a, e.id ∉ descOf p4 x := by
  intro p4 e he hd
  have he' : e ∈ xs.foldl removeWithDesc (removeWithDesc p4 x) := by
    have : update p a = a.expired.foldl removeWithDesc p4 := rfl
    rw [this, hx] at he
    simpa [List.foldl_cons] using he
  have hsub : Sub (xs.foldl removeWithDesc (removeWithDesc p4 x)) (removeWithDesc p4 x) :=
    sub_foldl _ sub_removeWithDesc _ _
  obtain ⟨e0, he0, hid, _⟩ := hsub e he'
  exact removeWithDesc_no_desc p4 x e0 he0 (hid ▸ hd)

/-- non-vacuity: parent 1 (expired) with pooled child 2: both go, 3 stays -/
example : (update [⟨1, 0, [10], [], [], [2]⟩, ⟨2, 0, [16], [], [], []⟩, ⟨3, 0, [11], [], [], []⟩]
    ⟨[], [], [], [], [], [1]⟩).map (·.id) = [3] := by decide

/-- F5 as it was before /repo 3724ae4: the expired parent 1 went alone, its child 2 (spending 1's
    output 16) stayed pooled with an unknown input -/
theorem expired_parent_keeps_child_preF5 :
    (updatePreF5 [⟨1, 0, [10], [], [], [2]⟩, ⟨2, 0, [16], [], [], []⟩] ⟨[], [], [], [], [], [1]⟩).map (·.id) = [2] := by
  decide

/-- FINDING (stage): entry 2 is in stage gap; after a reorg its proposal is neither in the detached
    proposals (computed from the old *proposed* set only) nor anywhere in the new view — it stays gap -/
theorem gap_stuck_outside_window :
    let a : Args := ⟨[], [5, 6], [], [], [], []⟩
    (update [⟨2, 1, [16], [], [], []⟩] a).map (fun e => (e.id, e.status)) = [(2, 1)] ∧
    windowStage a 2 = 0 := by decide

/-- FINDING (unknown input): 2 spends out-point 16 = output 0 of tx 1, which was committed on the
    abandoned branch and is not re-admitted; no rule of the update touches 2 -/
theorem child_of_unreadmitted_parent_survives :
    (update [⟨2, 0, [16], [], [], []⟩] ⟨[], [5, 6], [], [], [], []⟩).map (·.id) = [2] := by decide

end CkbVerif.C12
