import CkbVerif.Lemmas.Selector
import CkbVerif.Lemmas.SelectorOrder
import CkbVerif.Lemmas.Template
import CkbVerif.Lemmas.Assembler
import CkbVerif.Lemmas.AssemblerSvc

/-!
# C13 — every block template handed to miners would be accepted by the node itself

What is proved here is the part of the property that is decided by
`TxSelector::txs_to_commit` (tx-pool/src/component/tx_selector.rs), over ALL pool views, limits and
tie ranks (`Model/Selector.lean` follows the Rust loop; `Lemmas/Selector.lean` has the loop
invariant `Inv`, preserved by every iteration, hence by the whole run):

* `selected_no_duplicates`      no transaction is packaged twice;
* `selected_ancestor_closed`    every packaged transaction is a proposed pool entry and ALL of its
                                in-pool ancestors are packaged too, each of them proposed;
* `selected_sums`               the returned (size, cycles) are the sums over the packaged entries;
* `selected_within_limits`      Σ size ≤ size_limit ∧ Σ cycles ≤ cycles_limit.

Hypotheses, stated precisely (all decidable, all evaluated by the model driver on every real pool
the harness dumps and compared with the harness's own evaluation over the real
`calc_ancestors`/`calc_descendants`):

* `LinksOk v` (needed by all four): ids unique; `calc_ancestors` lists are duplicate-free, consist
  of pool entries and are transitively closed; `d ∈ calc_descendants p → p ∈ calc_ancestors d`;
  `calc_descendants` lists are duplicate-free.
* `AggGe v` (needed ONLY by `selected_within_limits`): every entry's maintained
  `ancestors_size`/`ancestors_cycles` is at least the recomputation over `calc_ancestors`.
  Admission (`size + ancestors_size ≤ limit`) trusts these numbers and nothing re-checks the
  package afterwards, so the hypothesis cannot be dropped: `within_limits_fails_when_stale` is a
  three-transaction pool (the shape PoolMap::add_entry leaves after a reorg re-adds a parent behind
  its pooled child — C11's finding F3) where the packaged set exceeds the limit (finding F8,
  reproduced on the real node by the harness: the node rejects its own template).

* `selected_parents_first`      (hypotheses `LinksOk v`, `LinksExact v`, `AggExact v`) in the returned
                                list no transaction appears before one of its in-pool ancestors;
  `selected_topological_order`  together with `selected_ancestor_closed`: the list is duplicate-free and
                                every in-pool ancestor of the transaction at position `i` sits at some
                                position `j < i` — a valid topological order of an ancestor-closed set.
  Inside a package the order comes from sorting by the (modified) `ancestors_count`; the proof
  (`Lemmas/SelectorOrder.lean`, second loop invariant `Inv2`) shows that every never-failed occupant
  of `modified_entries` carries EXACT aggregates w.r.t. `fetched_txs`, that an entry which failed
  admission (and everything depending on it) can never be packaged later, hence that every member of an
  admitted package is exact, and that exact counts strictly increase along ancestor links.
  `LinksExact` (acyclic links; `desc` is the inverse of `anc`) and `AggExact` (maintained aggregates =
  recomputation) cannot be dropped: `parents_first_fails_when_stale` shows the order is false when the
  counts are stale (F8; also observed on the real node).

Block level (`Model/Assembler.lean`: `prepare_uncles`, `package_proposals`, the five update paths
with content, the sealed block as the verifier model of C03 sees it; `Lemmas/Assembler.lean`):

* `prepared_uncles_rules`                the output of `prepare_uncles` has at most `max_uncles_num` elements with
                                         distinct hashes, each a candidate of the epoch and target of the block
                                         BEING ASSEMBLED (`next_epoch_ext(tip)`), with number < the block's number,
                                         neither on the main chain nor embedded as an uncle already;
* `prepared_uncles_pass_uncles_verifier` on such a list the model of `UnclesVerifier` (`Rules.unclesCheck`, C03)
                                         answers `none`, given the candidates are blocks the node processed
                                         (`CandsOk`) and the snapshot is the verifier's chain view (`SnapOk`);
* `uncles_rejected_when_tip_epoch_used`  at an epoch's last block, selecting by the TIP's epoch (instead of the
                                         stored epoch of the block being assembled) yields a template the uncle
                                         verifier rejects (`uncleEpoch`) — the selection parameter matters;
* `packaged_proposals_rules`             `package_proposals`: at most `limit` ids, duplicate-free, each pending,
                                         none proposed by one of the template's uncles;
* `template_passes_block_verifier_partial` after `update_blank` on any tip followed by ANY sequence of
                                         `update_full/uncles/proposals/transactions/blank`, the sealed template
                                         passes the modelled non-contextual `BlockVerifier` (proposals limit,
                                         block bytes, all `CellbaseVerifier` clauses, transaction / proposal
                                         duplicates) and `UnclesVerifier`, and its cycles are within
                                         `max_block_cycles` — composed from `selected_no_duplicates`,
                                         `selected_within_limits`, `template_size_le_max` (through the projection
                                         `toTSt_astep`) and the two theorems above.
  PARTIAL: hypotheses per update (`AOp.Ok`): pool views with `LinksOk` and `AggGe` (F8 otherwise), pending ids
  distinct, the cellbase is not a pool entry, candidates are processed blocks, a blank template with
  `max_uncles_num` uncles fits, the configured / reward-target locks use an enabled hash type. Still decided only
  by the implementation-only oracle (a copy node's full verification of every fetched template): header stage
  (PoW, timestamp/median time), merkle roots (recomputed by sealing), `NonContextualBlockTxsVerifier` and
  `BlockTxsVerifier` (script execution, since, capacity; that the recorded cycles are the consumed ones),
  transaction resolution in block order (`calc_dao`'s re-check is the abstract `keep`), `TwoPhaseCommitVerifier`
  (that Proposed pool entries are inside the window is C12/C20), `EpochVerifier` (epoch/target EQUAL the
  verifier's: `next_epoch_ext` is shared code, C07), `DaoHeaderVerifier` (C06), `RewardVerifier` (C06),
  `BlockExtensionVerifier` (C19).

Service level (round 6; `Model/AssemblerSvc.lean`, `Lemmas/AssemblerSvc.lean`): the candidate-uncle
container as written (`insert` with the eviction of the lowest height, `remove_by_number`,
`prepare_uncles`' removals) and the service's messages (`receive_candidate_uncle`, `Reset`, the reorg
hook, the update paths with their staleness guard against the pool's tip):

* `candidate_uncles_invariant`, `_count_exact`, `_insert_never_panics`, `_values_ascending`,
  `_insert_spec`, `_remove_spec`, `_prepare_spec`      for EVERY history of the container;
  `insert_refused_after_evicting`                      a quirk of `insert` as written (witness);
* `svc_template_passes_block_verifier_partial`         the block-level theorem for ANY message sequence;
  `stale_pool_tip_leaves_template`, `tip_changes_only_by_blank`, `svc_container_invariant`;
* `template_passes_two_phase_commit_partial`, `svc_…`  `TwoPhaseCommitVerifier` (C03's `commitCheck`) accepts
                                                       the sealed template, given the pool-stage invariant
                                                       (`ProposedInWindow`: C12/C20) for the views the selector
                                                       reads; `two_phase_commit_rejects_when_stage_wrong` shows
                                                       the hypothesis is needed.
-/

namespace CkbVerif.C13
open CkbVerif.Selector

/-- no transaction is packaged twice -/
theorem selected_no_duplicates (v : View) (sl cl : Nat) (hL : LinksOk v) :
    ((txsToCommit v sl cl).out.map (·.id)).Nodup :=
  (Inv.final (sl := sl) (cl := cl) hL).nodup

/-- every packaged transaction is a proposed pool entry, and all of its in-pool ancestors are
    packaged as well, every one of them proposed -/
theorem selected_ancestor_closed (v : View) (sl cl : Nat) (hL : LinksOk v) :
    ∀ e ∈ (txsToCommit v sl cl).out,
      v.hasProposed e.id = true ∧
      ∀ a ∈ v.anc e.id, a ∈ (txsToCommit v sl cl).out.map (·.id) ∧ v.hasProposed a = true := by
  have h := Inv.final (sl := sl) (cl := cl) hL
  intro e he
  refine ⟨(h.outGood e he).1, fun a ha => ?_⟩
  have hin := h.fetchedOut a (h.closed e.id (h.outFetched e he) a ha)
  refine ⟨hin, ?_⟩
  obtain ⟨x, hx, rfl⟩ := List.mem_map.mp hin
  exact (h.outGood x hx).1

/-- the returned totals are the sums over the packaged entries -/
theorem selected_sums (v : View) (sl cl : Nat) (hL : LinksOk v) :
    (txsToCommit v sl cl).size = ((txsToCommit v sl cl).out.map (·.size)).sum ∧
    (txsToCommit v sl cl).cycles = ((txsToCommit v sl cl).out.map (·.cycles)).sum :=
  ⟨(Inv.final (sl := sl) (cl := cl) hL).sizeEq, (Inv.final (sl := sl) (cl := cl) hL).cyclesEq⟩

/-- total size ≤ size_limit ∧ total cycles ≤ cycles_limit, provided the maintained
    `ancestors_size`/`ancestors_cycles` are not smaller than the recomputation -/
theorem selected_within_limits (v : View) (sl cl : Nat) (hL : LinksOk v) (hA : AggGe v) :
    ((txsToCommit v sl cl).out.map (·.size)).sum ≤ sl ∧
    ((txsToCommit v sl cl).out.map (·.cycles)).sum ≤ cl := by
  have h := Inv.final (sl := sl) (cl := cl) hL
  have := h.limits hA
  rw [h.sizeEq, h.cyclesEq] at this
  exact this

/-- Parents first: in the returned list no transaction appears before (or at the position of) one
    of its in-pool ancestors. Hypotheses: consistent links (`LinksOk`), acyclic links with `desc` the
    exact inverse of `anc` (`LinksExact`), maintained aggregates equal to the recomputation
    (`AggExact`). For every size limit, cycles limit and tie rank. -/
theorem selected_parents_first (v : View) (sl cl : Nat) (hL : LinksOk v) (hX : LinksExact v)
    (hA : AggExact v) :
    ∀ (i j : Nat) (hi : i < (txsToCommit v sl cl).out.length) (hj : j < (txsToCommit v sl cl).out.length),
      ((txsToCommit v sl cl).out[j]).id ∈ v.anc ((txsToCommit v sl cl).out[i]).id → j < i := by
  have h := Inv.final (sl := sl) (cl := cl) hL
  have h2 := Inv2.final (sl := sl) (cl := cl) hL hX hA
  intro i j hi hj hin
  have hord := List.pairwise_iff_getElem.mp h2.order
  rcases Nat.lt_trichotomy j i with hlt | heq | hgt
  · exact hlt
  · subst heq
    have hg := h.outGood _ (List.getElem_mem hi)
    exact absurd hin (hX.1 _ (hasProposed_mem_ids hg.1))
  · exact absurd hin (hord i j hi hj hgt)

/-- The returned list is a valid topological order of an ancestor-closed set: no duplicates, and
    every in-pool ancestor of the transaction at position `i` is at some position `j < i`. -/
theorem selected_topological_order (v : View) (sl cl : Nat) (hL : LinksOk v) (hX : LinksExact v)
    (hA : AggExact v) :
    ((txsToCommit v sl cl).out.map (·.id)).Nodup ∧
    ∀ (i : Nat) (hi : i < (txsToCommit v sl cl).out.length),
      ∀ a ∈ v.anc ((txsToCommit v sl cl).out[i]).id,
        ∃ (j : Nat) (hj : j < (txsToCommit v sl cl).out.length), j < i ∧ ((txsToCommit v sl cl).out[j]).id = a := by
  refine ⟨selected_no_duplicates v sl cl hL, ?_⟩
  intro i hi a ha
  have hc := (selected_ancestor_closed v sl cl hL _ (List.getElem_mem hi)).2 a ha
  obtain ⟨x, hx, hxa⟩ := List.mem_map.mp hc.1
  obtain ⟨j, hj, hjx⟩ := List.getElem_of_mem hx
  refine ⟨j, hj, ?_, by rw [hjx, hxa]⟩
  apply selected_parents_first v sl cl hL hX hA i j hi hj
  rw [hjx, hxa]; exact ha

/-! ## concrete pools -/

/-- entry with key computed from the entry -/
def mk (id size cycles fee ac asz acy af : Nat) (prop : Bool) (ps cs : List Nat) : PEntry :=
  let e : Entry := ⟨id, size, cycles, fee, ac, asz, acy, af⟩
  ⟨e, prop, e.key, ps, cs⟩

/-- a consistent pool: chain 1 → 2 → 3 plus an independent 4, everything proposed -/
def okPool : View := View.ofLinks
  [ mk 1 100 10 1000 1 100 10 1000 true [] [2],
    mk 2 100 10 5000 2 200 20 6000 true [1] [3],
    mk 3 100 10 100 3 300 30 6100 true [2] [],
    mk 4 150 10 3000 1 150 10 3000 true [] [] ] (fun id => id)

/-- the hypotheses of the theorems are satisfiable by a non-trivial pool, and the selection on it is
    non-trivial (a package 1,2 picked for its child-pays-for-parent rate, limits binding) -/
example : LinksOk okPool ∧ LinksExact okPool ∧ AggGe okPool ∧ AggExact okPool ∧ KeysOk okPool := by decide
example : (txsToCommit okPool 1000 1000).out.map (·.id) = [1, 2, 4, 3] := by decide
example : (txsToCommit okPool 250 1000).out.map (·.id) = [1, 2] := by decide
example : (txsToCommit okPool 1000 25).out.map (·.id) = [1, 2] := by decide

/-- a pool where a package is built from MODIFIED entries (after 1 is packaged, 2 and 3 sit in
    `modified_entries` with reduced counts), an admission fails and is recorded in `failed_txs`
    (the package 4 → 5 does not fit; 4 alone is packaged afterwards), and the
    hypotheses of `selected_parents_first` hold: the order theorem applies non-vacuously -/
def orderPool : View := View.ofLinks
  [ mk 1 100 10 9000 1 100 10 9000 true [] [2, 3],
    mk 2 100 10 100 2 200 20 9100 true [1] [6],
    mk 3 100 10 100 2 200 20 9100 true [1] [6],
    mk 6 100 10 8000 4 400 40 17200 true [2, 3] [],
    mk 4 300 10 50 1 300 10 50 true [] [5],
    mk 5 300 10 7000 2 600 20 7050 true [4] [] ] (fun id => id)

example : LinksOk orderPool ∧ LinksExact orderPool ∧ AggExact orderPool := by decide
example : (txsToCommit orderPool 900 1000).out.map (·.id) = [1, 2, 3, 6, 4] ∧
    (txsToCommit orderPool 900 1000).failed = [5] := by decide

/-- the pool `PoolMap::add_entry` leaves behind when a reorg re-adds grand-parent 1 and parent 2
    behind the pooled child 3 (C11's F3): 3's aggregates include 2 but miss 1 -/
def stalePool : View := View.ofLinks
  [ mk 3 100 10 9000 2 200 20 9500 true [2] [],
    mk 1 100 10 500 1 100 10 500 true [] [2],
    mk 2 100 10 500 2 200 20 1000 true [1] [3] ] (fun id => id)

/-- F8: the links are consistent, only the maintained aggregates are too small — and the packaged
    set (300 bytes) exceeds the size limit (200) that admission was supposed to enforce -/
theorem within_limits_fails_when_stale :
    LinksOk stalePool ∧ ¬ AggGe stalePool ∧
    ((txsToCommit stalePool 200 1000).out.map (·.id) = [1, 2, 3]) ∧
    ((txsToCommit stalePool 200 1000).out.map (·.size)).sum = 300 ∧ 300 > 200 := by decide

/-- two roots 1, 5 → 2 (re-added, count 3) → 3 (pooled child whose count 2 misses 1 and 5) → 4 -/
def staleOrderPool : View := View.ofLinks
  [ mk 3 100 10 500 2 200 20 1000 true [2] [4],
    mk 4 100 10 9000 3 300 30 10000 true [3] [],
    mk 1 100 10 500 1 100 10 500 true [] [2],
    mk 5 100 10 500 1 100 10 500 true [] [2],
    mk 2 100 10 500 3 300 30 1500 true [1, 5] [3] ] (fun id => id)

/-- with stale `ancestors_count` the child 3 is emitted BEFORE its parent 2 -/
theorem parents_first_fails_when_stale :
    LinksOk staleOrderPool ∧ LinksExact staleOrderPool ∧ ¬ AggExact staleOrderPool ∧
    (txsToCommit staleOrderPool 100000 100000).out.map (·.id) = [1, 5, 3, 2, 4] := by decide

/-- `get_transaction_weight`: the double arithmetic is pinned on two values (also compared with the
    real function on random inputs by the harness) -/
example : weight 100 1000000 = 170 ∧ weight 100 70000000000 = 11939998 := by decide


/-! ## `TemplateSize` bookkeeping of the assembler's update paths -/

open CkbVerif.Template in
/-- run a sequence of update paths -/
def runOps (s : TSt) (ops : List Op) : TSt := ops.foldl Template.step s

open CkbVerif.Template in
/-- After ANY sequence of `update_blank / update_full / update_uncles / update_proposals /
    update_transactions`, the `TemplateSize` bookkeeping equals the real size of the described block
    (header + cellbase + extension + uncles + proposals + transactions) and that size is ≤
    `max_block_bytes` — provided every transaction selection respects the limit it was given
    (`selected_within_limits`, i.e. the pool aggregates are not stale) and a blank template fits. -/
theorem template_size_le_max (s : TSt) (ops : List Op) (h : Template.Inv s)
    (hsel : ∀ op ∈ ops, op.selOk) (hblank : ∀ op ∈ ops, op.blankOk s.max s.U) :
    (runOps s ops).sTotal = (runOps s ops).actual ∧ (runOps s ops).actual ≤ s.max := by
  suffices hs : Template.Inv (runOps s ops) ∧ (runOps s ops).max = s.max from
    ⟨hs.1.total, hs.2 ▸ hs.1.le⟩
  unfold runOps
  induction ops generalizing s with
  | nil => exact ⟨h, rfl⟩
  | cons op ops ih =>
    simp only [List.foldl_cons]
    have hm := Template.step_max s op
    have h' := h.step op (hsel op List.mem_cons_self) (hblank op List.mem_cons_self)
    have := ih (Template.step s op) h'
      (fun o ho => hsel o (List.mem_cons_of_mem _ ho))
      (fun o ho => by rw [hm.1, hm.2]; exact hblank o (List.mem_cons_of_mem _ ho))
    exact ⟨this.1, this.2.trans hm.1⟩

open CkbVerif.Template in
/-- a blank template of 600 bytes, limit 1000: a full update with 2 proposals and a well-behaved
    selector stays within the limit (non-vacuity) … -/
example : (runOps ⟨1000, 228, 600, 0, 0, 0, 0, 0, 0, 600⟩ [.full 2 (fun l => l), .uncles 1 2, .proposals 3]).actual = 1000 := by
  decide

open CkbVerif.Template in
/-- … and with a selector that overshoots by 100 bytes (F8: stale `ancestors_size`) `update_full`
    installs a 1100-byte template: nothing re-checks the total -/
theorem template_oversize_when_selection_overshoots :
    (runOps ⟨1000, 228, 600, 0, 0, 0, 0, 0, 0, 600⟩ [.full 2 (fun l => l + 100)]).actual = 1100 := by
  decide


/-! ## block level: uncles, proposals, and the sealed template against the verifier model of C03 -/

open CkbVerif.Assembler CkbVerif.Rules in
/-- `prepare_uncles`: at most `max_uncles_num` uncles, distinct hashes, every one a candidate with the
    target and epoch number of the block being assembled (`en`/`tg` are those of `next_epoch_ext(tip)`),
    number below the block's, neither a main-chain block nor embedded as an uncle before. -/
theorem prepared_uncles_rules (cfg : Cfg) (cx : Cx) (snap : Snap) (en tg : Nat) (cands : List Uncle)
    (hc : CandsOk cfg cx cands) :
    (prepareUncles cfg.maxUncles snap en tg cands).length ≤ cfg.maxUncles ∧
    ((prepareUncles cfg.maxUncles snap en tg cands).map (·.id)).Nodup ∧
    ∀ u ∈ prepareUncles cfg.maxUncles snap en tg cands,
      u ∈ cands ∧ u.target = tg ∧ u.epochNumber = en ∧ u.number < snap.tipNumber + 1 ∧
      snap.isMain u.id = false ∧ snap.isUncle u.id = false := by
  obtain ⟨hl, hp⟩ := prepareUncles_spec cfg cx snap en tg cands hc
  refine ⟨hl, (pickedFrom_nodup hp).1, ?_⟩
  intro u hu
  obtain ⟨pre, h1, h2, h3, h4, h5, h6, _⟩ := pickedFrom_mem hp u hu
  exact ⟨h1, h2, h3, h4, h5, h6⟩

open CkbVerif.Assembler CkbVerif.Rules in
/-- The uncle verifier model of C03 accepts what `prepare_uncles` selects, for every block on this tip
    whose (verifier-computed) epoch number and target are the ones the assembler selected by. -/
theorem prepared_uncles_pass_uncles_verifier (cfg : Cfg) (cx : Cx) (snap : Snap) (en tg : Nat)
    (cands : List Uncle) (b : Blk) (hs : SnapOk snap cx) (hc : CandsOk cfg cx cands)
    (hbn : b.number = snap.tipNumber + 1) (hbe : b.expEpoch.number = en) (hbt : b.expTarget = tg)
    (hbu : b.uncles = prepareUncles cfg.maxUncles snap en tg cands) :
    unclesCheck cfg cx b = none := by
  obtain ⟨hl, hp⟩ := prepareUncles_spec cfg cx snap en tg cands hc
  unfold unclesCheck
  split
  · rfl
  · have hn : ¬ (b.number == 0) = true := by simp [hbn]
    have hlen : ¬ (b.uncles.length > cfg.maxUncles) := by rw [hbu]; omega
    rw [if_neg hn, if_neg hlen, hbu]
    have := unclesLoop_of_picked cfg cx b snap en tg cands hs hc hbn hbe hbt [] _ (by simp) hp
    simpa using this

namespace UncleEx
open CkbVerif.Assembler CkbVerif.Rules

/-- chain 0..5 (ids = numbers), no embedded uncles; epochs of 6 blocks: the tip (5) is the LAST block
    of epoch 0, the block being assembled (6) is the first of epoch 1 (same target: permanent difficulty) -/
def cx : Cx := { parentNumber := 5, mainNum := fun h => if h < 6 then some h else none, uncleNum := fun _ => none, chain := [] }
def snap : Snap := ⟨5, fun h => (cx.mainNum h).isSome, fun h => (cx.uncleNum h).isSome⟩
/-- a sibling of block 5 (epoch 0, old target 7) and nothing else -/
def cands : List Uncle := [{ id := 105, parent := 4, number := 5, epochNumber := 0, target := 7 }]
def blk (us : List Uncle) : Blk := { number := 6, expEpoch := { number := 1 }, expTarget := 7, uncles := us }
end UncleEx

open UncleEx CkbVerif.Assembler CkbVerif.Rules in
/-- At an epoch boundary the selection must use the epoch of the block being assembled: with the
    TIP's epoch (0) the old-epoch candidate is selected and the uncle verifier rejects the
    template; with the stored epoch of the block being assembled (1) nothing is selected and
    it passes. (Seeded change C13/m3 is exactly this; the node harness catches it on real code.) -/
theorem uncles_rejected_when_tip_epoch_used :
    unclesCheck {} cx (blk (prepareUncles 2 snap 0 7 cands)) = some .uncleEpoch ∧
    unclesCheck {} cx (blk (prepareUncles 2 snap 1 7 cands)) = none ∧
    (prepareUncles 2 snap 0 7 cands).length = 1 := by decide

open CkbVerif.Assembler CkbVerif.Rules in
/-- `package_proposals(limit, uncles)` -/
theorem packaged_proposals_rules (limit : Nat) (pending : List Nat) (uncles : List Uncle) (h : pending.Nodup) :
    (packageProposals limit pending uncles).length ≤ limit ∧
    (packageProposals limit pending uncles).Nodup ∧
    ∀ id ∈ packageProposals limit pending uncles, id ∈ pending ∧ ∀ u ∈ uncles, id ∉ u.proposals :=
  ⟨packageProposals_length _ _ _, packageProposals_nodup _ _ _ h, fun _ hid => packageProposals_mem hid⟩

open CkbVerif.Assembler CkbVerif.Rules in
/-- PARTIAL (see the file header for what stays oracle-only). Start from `update_blank` on any tip (in
    any previous state `s`), apply ANY sequence of the five update paths (tip changes included), each
    update satisfying its hypotheses `AOp.Ok` in the state it meets; seal the resulting template. Then
    the modelled non-contextual `BlockVerifier` and the modelled `UnclesVerifier` accept it, and its
    cycles are within `max_block_cycles`. -/
theorem template_passes_block_verifier_partial (cfg : Cfg) (U : Nat) (cxOf : Tip → Cx) (s : ASt)
    (tip : Tip) (cands : List Uncle) (ops : List AOp)
    (h0 : (AOp.blank tip cands).Ok cfg U cxOf s)
    (hops : OkRun cfg U cxOf (astep cfg U s (.blank tip cands)) ops) :
    let s' := arun cfg U (astep cfg U s (.blank tip cands)) ops
    nonContextualCheck cfg (sealBlock U s') = none ∧
    unclesCheck cfg (cxOf s'.tip) (sealBlock U s') = none ∧
    (sealBlock U s').cycles ≤ cfg.maxCycles :=
  ((AInv.blank s tip cands h0).run ops hops).sealed

namespace AsmEx
open CkbVerif.Assembler CkbVerif.Rules

def cfg : Cfg := { maxUncles := 2, maxProposals := 3, maxBytes := 1500, maxCycles := 25 }
/-- chain 0..5 (ids = numbers), no embedded uncles -/
def cx : Cx := { parentNumber := 5, mainNum := fun h => if h < 6 then some h else none, uncleNum := fun _ => none, chain := [] }
def tip : Tip :=
  { snap := ⟨5, fun h => (cx.mainNum h).isSome, fun h => (cx.uncleNum h).isSome⟩, epochNumber := 1, target := 7,
    base := 600, cbOutputs := 1, cbId := 1000, cbWitnessOk := true, cbLockOk := true }
/-- a sibling of block 4, its child (parent = the candidate before it: an embedded parent), and a
    candidate of the previous epoch -/
def cands : List Uncle :=
  [ { id := 104, parent := 3, number := 4, epochNumber := 1, target := 7, proposals := [12] },
    { id := 105, parent := 104, number := 5, epochNumber := 1, target := 7 },
    { id := 106, parent := 4, number := 5, epochNumber := 0, target := 7 } ]
def ops : List AOp :=
  [ .full [11, 12, 13] okPool (fun _ => true), .uncles cands, .proposals [11, 12, 13, 14, 15],
    .txs okPool (fun e => e.id != 3) ]
def start : ASt := { tip := tip, t := {} }

theorem candsOk : CandsOk cfg cx cands := by
  refine ⟨by decide, by decide, ?_, ?_, by decide⟩
  · intro u hu n hn
    simp only [cands, List.mem_cons, List.not_mem_nil, or_false] at hu
    rcases hu with rfl | rfl | rfl <;> simp [cx] at hn <;> simp <;> omega
  · intro u hu n hn
    simp [cx] at hn

theorem tipOk : TipOk cfg 228 tip cx :=
  ⟨⟨rfl, fun _ => rfl, fun _ => rfl⟩, by decide, by decide, rfl, rfl⟩

end AsmEx

open AsmEx CkbVerif.Assembler CkbVerif.Rules in
/-- non-vacuity of `template_passes_block_verifier_partial`: the hypotheses hold for a run that uses
    every update path (two uncles, the second a child of the first; the old-epoch candidate is
    dropped; proposals cut at the limit and minus the uncle's; the cycles limit binds; `calc_dao`
    drops an entry), and the sealed template is non-trivial -/
example :
    (AOp.blank tip cands).Ok cfg 228 (fun _ => cx) start ∧
    OkRun cfg 228 (fun _ => cx) (astep cfg 228 start (.blank tip cands)) ops := by
  refine ⟨⟨tipOk, candsOk⟩, ?_⟩
  have hpool : LinksOk okPool ∧ AggGe okPool ∧ (1000 : Nat) ∉ okPool.ids := by decide
  refine ⟨⟨by decide, hpool.1, hpool.2.1, hpool.2.2⟩, candsOk, ?_, ⟨hpool.1, hpool.2.1, hpool.2.2⟩, trivial⟩
  show [11, 12, 13, 14, 15].Nodup
  decide

open AsmEx CkbVerif.Assembler CkbVerif.Rules in
example :
    let s' := arun cfg 228 (astep cfg 228 start (.blank tip cands)) ops
    s'.t.uncles.map (·.id) = [104, 105] ∧ s'.t.proposals = [11, 13, 14] ∧ s'.t.txs.map (·.id) = [1, 2] ∧
    (sealBlock 228 s').bytes = 1286 ∧ nonContextualCheck cfg (sealBlock 228 s') = none ∧
    unclesCheck cfg cx (sealBlock 228 s') = none := by decide


/-! ## The candidate-uncle container and the service's messages (`Model/AssemblerSvc.lean`)

`CandidateUncles` (tx-pool/src/block_assembler/candidate_uncles.rs) with both limits as parameters
(`mc` = `MAX_CANDIDATE_UNCLES`, `mp` = `MAX_PER_HEIGHT`, both > 0; the driver runs the model with the
translated constants 128 / 10), for EVERY sequence of `insert` / `remove_by_number` / `prepare_uncles`. -/

open CkbVerif.AssemblerSvc CkbVerif.Assembler CkbVerif.Rules
open CkbVerif.Selector (View Entry)

/-- one call on the container -/
inductive CUOp where
  | insert (u : Uncle)
  | remove (u : Uncle)
  | prepare (maxUncles : Nat) (snap : Snap) (epochNumber target : Nat)

def cuStep (mc mp : Nat) (c : CU) : CUOp → CU
  | .insert u => (c.insert mc mp u).1
  | .remove u => (c.removeByNumber u).1
  | .prepare mu snap en tg => (c.prepare mu snap en tg).2

def cuRun (mc mp : Nat) (ops : List CUOp) : CU := ops.foldl (cuStep mc mp) {}

theorem cuStep_inv {mc mp : Nat} (hmc : 0 < mc) (hmp : 0 < mp) {c : CU} (h : CU.Inv mc mp c) (op : CUOp) :
    CU.Inv mc mp (cuStep mc mp c op) := by
  cases op with
  | insert u => exact CU.insert_inv hmc hmp h u
  | remove u => exact CU.remove_inv h u
  | prepare mu snap en tg => exact CU.fold_remove_inv _ h

/-- after every history: `count` = number of stored uncles ≤ `MAX_CANDIDATE_UNCLES`, heights strictly
    ascending, no empty height, at most `MAX_PER_HEIGHT` distinct uncles per height, each stored under
    its own number -/
theorem candidate_uncles_invariant (mc mp : Nat) (hmc : 0 < mc) (hmp : 0 < mp) (ops : List CUOp) :
    CU.Inv mc mp (cuRun mc mp ops) := by
  unfold cuRun
  suffices ∀ c, CU.Inv mc mp c → CU.Inv mc mp (ops.foldl (cuStep mc mp) c) from this _ (CU.Inv.empty mc mp)
  induction ops with
  | nil => exact fun c h => h
  | cons op ops ih => exact fun c h => ih _ (cuStep_inv hmc hmp h op)

/-- `len()` is the number of uncles `values()` yields, and never exceeds the global limit -/
theorem candidate_uncles_count_exact (mc mp : Nat) (hmc : 0 < mc) (hmp : 0 < mp) (ops : List CUOp) :
    (cuRun mc mp ops).count = (cuRun mc mp ops).values.length ∧ (cuRun mc mp ops).count ≤ mc := by
  have h := candidate_uncles_invariant mc mp hmc hmp ops
  refine ⟨?_, h.le⟩
  rw [h.count]
  simp [CU.values, tot, List.length_flatMap]

/-- `self.map.keys().next().expect("length checked")` in `insert` never panics -/
theorem candidate_uncles_insert_never_panics (mc mp : Nat) (hmc : 0 < mc) (hmp : 0 < mp) (ops : List CUOp) :
    ¬ (cuRun mc mp ops).insertPanics mc :=
  CU.insert_never_panics hmc (candidate_uncles_invariant mc mp hmc hmp ops)

/-- `values()` yields the candidates in ascending height order (what `prepare_uncles` relies on when it
    accepts a candidate whose parent is an uncle selected earlier in the same pass) -/
theorem candidate_uncles_values_ascending (mc mp : Nat) (hmc : 0 < mc) (hmp : 0 < mp) (ops : List CUOp) :
    ((cuRun mc mp ops).values.map (·.number)).Pairwise (· ≤ ·) :=
  values_sorted _ (candidate_uncles_invariant mc mp hmc hmp ops).map

/-- `insert` adds nothing but the new uncle; when it answers `true` the uncle is stored; below the
    global limit nothing is evicted; at the limit only the LOWEST height can be evicted (every
    candidate of another height survives) and a candidate not above the lowest height is refused with
    the container unchanged -/
theorem candidate_uncles_insert_spec (mc mp : Nat) (hmp : 0 < mp) (c : CU) (h : CU.Inv mc mp c) (u : Uncle) :
    (∀ x ∈ (c.insert mc mp u).1.values, x ∈ c.values ∨ x = u) ∧
    ((c.insert mc mp u).2 = true → u ∈ (c.insert mc mp u).1.values) ∧
    (c.count < mc → ∀ x ∈ c.values, x ∈ (c.insert mc mp u).1.values) ∧
    (∀ first set rest, c.map = (first, set) :: rest →
      (∀ x ∈ c.values, x.number ≠ first → x ∈ (c.insert mc mp u).1.values) ∧
      (c.count ≥ mc → u.number ≤ first → c.insert mc mp u = (c, false))) := by
  have put_mem : ∀ c' : CU, MapOk mp c'.map → ∀ x, x ∈ (CU.put mp c' u).1.values ↔
      (x ∈ c'.values ∨ ((CU.put mp c' u).2 = true ∧ x = u)) := fun c' hm x =>
    (insertAt_spec mp hmp u c'.map hm).2.2.2 x
  refine ⟨?_, ?_, ?_, ?_⟩
  · intro x hx
    unfold CU.insert at hx
    split at hx
    · split at hx
      · exact Or.inl hx
      · rename_i first set rest hmap
        split at hx
        · have hm : MapOk mp ((first, set) :: rest) := hmap ▸ h.map
          rcases (put_mem ⟨rest, _⟩ hm.tail x).mp hx with hx | hx
          · left; simp only [CU.values, hmap, List.flatMap_cons, List.mem_append]; exact Or.inr hx
          · exact Or.inr hx.2
        · exact Or.inl hx
    · rcases (put_mem c h.map x).mp hx with hx | hx
      · exact Or.inl hx
      · exact Or.inr hx.2
  · intro ht
    by_cases hfull : c.count ≥ mc
    · cases hmap : c.map with
      | nil => simp [CU.insert, hfull, hmap] at ht
      | cons p rest =>
        obtain ⟨first, set⟩ := p
        have hm : MapOk mp ((first, set) :: rest) := hmap ▸ h.map
        by_cases hgt : u.number > first
        · have e : c.insert mc mp u = CU.put mp ⟨rest, c.count - set.length⟩ u := by
            simp [CU.insert, hfull, hmap, hgt]
          rw [e] at ht ⊢
          exact (put_mem ⟨rest, _⟩ hm.tail u).mpr (Or.inr ⟨ht, rfl⟩)
        · simp [CU.insert, hfull, hmap, hgt] at ht
    · have e : c.insert mc mp u = CU.put mp c u := by simp [CU.insert, hfull]
      rw [e] at ht ⊢
      exact (put_mem c h.map u).mpr (Or.inr ⟨ht, rfl⟩)
  · intro hlt x hx
    have : ¬ c.count ≥ mc := by omega
    simp only [CU.insert, this, if_false]
    exact (put_mem c h.map x).mpr (Or.inl hx)
  · intro first set rest hmap
    have hm : MapOk mp ((first, set) :: rest) := hmap ▸ h.map
    refine ⟨?_, ?_⟩
    · intro x hx hne
      unfold CU.insert
      split
      · simp only [hmap]
        split
        · apply (put_mem ⟨rest, _⟩ hm.tail x).mpr
          left
          simp only [CU.values, hmap, List.flatMap_cons, List.mem_append] at hx
          rcases hx with hx | hx
          · exact absurd (hm.number (first, set) (List.mem_cons_self ..) x hx) hne
          · exact hx
        · exact hx
      · exact (put_mem c h.map x).mpr (Or.inl hx)
    · intro hfull hle
      have : ¬ u.number > first := by omega
      simp [CU.insert, hfull, hmap, this]

/-- `remove_by_number` removes exactly the uncle of that number and hash, answers whether it was there,
    and keeps `count` exact -/
theorem candidate_uncles_remove_spec (mc mp : Nat) (c : CU) (h : CU.Inv mc mp c) (u : Uncle) :
    (∀ x, x ∈ (c.removeByNumber u).1.values ↔ (x ∈ c.values ∧ ¬ (x.number = u.number ∧ x.id = u.id))) ∧
    (c.removeByNumber u).1.count + (if (c.removeByNumber u).2 then 1 else 0) = c.count := by
  obtain ⟨_, i2, _, i4⟩ := removeAt_spec mp u c.map h.map
  refine ⟨i4, ?_⟩
  have := h.count
  have h' := (CU.remove_inv h u).count
  simp only [CU.removeByNumber] at h' ⊢
  split <;> rename_i hb <;> simp [hb] at i2 h' ⊢ <;> omega

/-- `prepare_uncles` on the container: it only removes candidates, never one of the epoch and target
    it prepares for ("we should keep candidate until next epoch"), keeps the container well formed,
    and what it returns is `prepareUncles` over `values()` (so `prepared_uncles_rules` applies) -/
theorem candidate_uncles_prepare_spec (mc mp : Nat) (c : CU) (h : CU.Inv mc mp c) (mu : Nat) (snap : Snap) (en tg : Nat) :
    (c.prepare mu snap en tg).1 = prepareUncles mu snap en tg c.values ∧
    CU.Inv mc mp (c.prepare mu snap en tg).2 ∧
    (∀ x ∈ (c.prepare mu snap en tg).2.values, x ∈ c.values) ∧
    (∀ x ∈ c.values, x.target = tg → x.epochNumber = en → x ∈ (c.prepare mu snap en tg).2.values) :=
  ⟨rfl, CU.fold_remove_inv _ h, (CU.prepare_values h mu snap en tg).1, (CU.prepare_values h mu snap en tg).2⟩

/-- a stored candidate of a lower height is yielded by `values()` BEFORE every candidate of a greater
    height: a candidate's parent (one height below, `CandsOk.numCand`) that is itself a candidate has
    already been decided when `prepare_uncles` tests `uncles.iter().any(|u| u.hash() == parent_hash)` -/
theorem candidate_lower_height_comes_first (mc mp : Nat) (c : CU) (h : CU.Inv mc mp c) (i j : Nat)
    (hi : i < c.values.length) (hj : j < c.values.length)
    (hlt : c.values[i].number < c.values[j].number) : i < j := by
  have hs := values_sorted c.map h.map
  rw [List.pairwise_iff_getElem] at hs
  rcases Nat.lt_trichotomy i j with h1 | h1 | h1
  · exact h1
  · subst h1; omega
  · have := hs j i (by simpa [CU.values] using hj) (by simpa [CU.values] using hi) h1
    simp only [List.getElem_map] at this
    simp only [CU.values] at hlt
    omega

/-- a refused insertion CAN still evict: with the container full, a duplicate (or a candidate for a
    full height) above the lowest height first drops the lowest height and is then refused
    (`mc = 2`, `mp = 1`). Harmless for templates (candidates are only ever optional), recorded because
    `insert`'s documentation reads as if `false` meant "unchanged". -/
theorem insert_refused_after_evicting :
    let a : Uncle := { id := 1, parent := 0, number := 5, epochNumber := 0, target := 0 }
    let b : Uncle := { id := 2, parent := 0, number := 6, epochNumber := 0, target := 0 }
    let c := cuRun 2 1 [.insert a, .insert b]
    c.count = 2 ∧ (c.insert 2 1 b).2 = false ∧ (c.insert 2 1 b).1.count = 1 ∧
      (c.insert 2 1 b).1.values.map (·.id) = [2] := by decide

/-- non-vacuity of the container theorems: a history that fills the container, overflows a height,
    evicts the lowest height and removes by number -/
example :
    let mk (id n : Nat) : Uncle := { id := id, parent := 0, number := n, epochNumber := 0, target := 0 }
    let c := cuRun 4 2 [.insert (mk 1 5), .insert (mk 2 5), .insert (mk 3 5), .insert (mk 4 7), .insert (mk 5 6),
      .insert (mk 6 4), .insert (mk 7 8), .remove (mk 4 7), .remove (mk 9 9)]
    c.values.map (·.id) = [5, 7] ∧ c.count = 2 := by decide

/-! ### the service's messages -/

/-- PARTIAL (same stages as `template_passes_block_verifier_partial`). The template after ANY sequence of
    service messages — candidate uncles received (with the container's evictions), resets, reorgs that
    turn detached blocks into candidates, and the four update paths WITH their staleness guard (the
    pool may be on another tip: then the path returns without touching the template), `update_uncles`
    reading and pruning the shared container — that starts with a message installing a blank template
    passes the modelled non-contextual `BlockVerifier` and `UnclesVerifier` and is within
    `max_block_cycles`, provided every message meets its hypotheses (`GOp.Ok`) in the state it finds. -/
theorem svc_template_passes_block_verifier_partial (cfg : Cfg) (U mc mp : Nat) (cxOf : Tip → Cx) (g : GSt)
    (op0 : GOp) (ops : List GOp) (hb : op0.isBlank = true)
    (h0 : op0.Ok cfg U mc mp cxOf g)
    (hops : GOkRun cfg U mc mp cxOf (gstep cfg U mc mp g op0) ops) :
    let g' := grun cfg U mc mp (gstep cfg U mc mp g op0) ops
    nonContextualCheck cfg (sealBlock U g'.a) = none ∧
    unclesCheck cfg (cxOf g'.a.tip) (sealBlock U g'.a) = none ∧
    (sealBlock U g'.a).cycles ≤ cfg.maxCycles :=
  (grun_inv cfg U mc mp cxOf ops _ (gstep_blank_inv cfg U mc mp cxOf g op0 hb h0) hops).sealed

/-! ### the commit phase: `TwoPhaseCommitVerifier` on the sealed template -/

/-- PARTIAL (the pool-stage invariant is a hypothesis: C12 / C20 prove and tie it). After `update_blank`
    on any tip and ANY sequence of the five update paths, if every pool view the selector reads has
    consistent links and its `Proposed` entries are exactly inside the verifier's proposal window
    `[tip+1-w_far, tip+1-w_close]` of the template's tip (`ProposedInWindow`), the modelled
    `TwoPhaseCommitVerifier` accepts the sealed template: the selector packages only `Proposed`
    entries (`selected_ancestor_closed`), `calc_dao` only drops, and the two paths that do not select
    (`update_uncles`, `update_proposals`) keep transactions and tip. -/
theorem template_passes_two_phase_commit_partial (cfg : Cfg) (U : Nat) (cxOf : Tip → Cx) (s : ASt)
    (tip : Tip) (cands : List Uncle) (ops : List AOp)
    (hops : CommitOkRun cfg U cxOf (astep cfg U s (.blank tip cands)) ops) :
    let s' := arun cfg U (astep cfg U s (.blank tip cands)) ops
    s'.tip.snap.tipNumber + 1 - cfg.win.close < (cxOf s'.tip).chain.length →
    commitCheck cfg (cxOf s'.tip) (sealBlock U s') = none := by
  intro s' hlen
  have h0 : CInv cfg cxOf (astep cfg U s (.blank tip cands)) := by
    intro e he; simp [astep] at he
  exact (h0.run ops hops).sealed hlen

/-- the same for ANY sequence of service messages (guards, container, reorgs) after a message that
    installs a blank template -/
theorem svc_template_passes_two_phase_commit_partial (cfg : Cfg) (U mc mp : Nat) (cxOf : Tip → Cx) (g : GSt)
    (op0 : GOp) (ops : List GOp) (hb : op0.isBlank = true)
    (hops : GCommitOkRun cfg U mc mp cxOf (gstep cfg U mc mp g op0) ops) :
    let g' := grun cfg U mc mp (gstep cfg U mc mp g op0) ops
    g'.a.tip.snap.tipNumber + 1 - cfg.win.close < (cxOf g'.a.tip).chain.length →
    commitCheck cfg (cxOf g'.a.tip) (sealBlock U g'.a) = none := by
  intro g' hlen
  have h0 : CInv cfg cxOf (gstep cfg U mc mp g op0).a := by
    cases op0 with
    | reorgBlank detached tip tipId => intro e he; simp [gstep, blankWith, astep] at he
    | reset tip tipId => intro e he; simp [gstep, blankWith, astep] at he
    | _ => simp [GOp.isBlank] at hb
  exact (grun_cinv cfg U mc mp cxOf ops _ h0 hops).sealed hlen

/-- the hypothesis cannot be dropped: a pool whose `Proposed` entry 2 is NOT in the verifier's window
    (a stage the pool must never be in) yields a template the commit check rejects -/
theorem two_phase_commit_rejects_when_stage_wrong :
    let cx' : Cx := { AsmEx.cx with chain := [[], [], [], [], [1, 3], []] }
    let cfg' : Cfg := { AsmEx.cfg with win := ⟨1, 2⟩ }
    let s' := arun cfg' 228 (astep cfg' 228 AsmEx.start (.blank AsmEx.tip [])) [.full [] okPool (fun _ => true)]
    (s'.t.txs.map (·.id)).contains 2 = true ∧ commitCheck cfg' cx' (sealBlock 228 s') = some .commitInvalid := by
  decide

open AsmEx in
/-- non-vacuity of `template_passes_two_phase_commit_partial`: window (1, 2), tip 5, the ids proposed
    in blocks 4 and 5 are the pool's proposed entries; hypotheses hold, template commits 1 and 2 -/
example :
    let cx' : Cx := { cx with chain := [[], [], [], [], [1, 3], [2, 4]] }
    let cfg' : Cfg := { cfg with win := ⟨1, 2⟩ }
    let ops : List AOp := [.full [11] okPool (fun _ => true), .uncles cands, .txs okPool (fun e => e.id != 3)]
    CommitOkRun cfg' 228 (fun _ => cx') (astep cfg' 228 start (.blank tip cands)) ops ∧
    (arun cfg' 228 (astep cfg' 228 start (.blank tip cands)) ops).t.txs.map (·.id) = [1, 2] ∧
    commitCheck cfg' cx' (sealBlock 228 (arun cfg' 228 (astep cfg' 228 start (.blank tip cands)) ops)) = none := by
  have hw : ∀ id, okPool.hasProposed id = true →
      (Window.verifierIds ⟨1, 2⟩ [[], [], [], [], [1, 3], [2, 4]] 6).contains id = true := by
    intro id h
    have : id ∈ okPool.ids := Selector.hasProposed_mem_ids h
    have hids : okPool.ids = [1, 2, 3, 4] := by decide
    rw [hids] at this
    simp only [List.mem_cons, List.not_mem_nil, or_false] at this
    rcases this with rfl | rfl | rfl | rfl <;> decide
  have hL : LinksOk okPool := by decide
  exact ⟨⟨⟨hL, hw⟩, trivial, ⟨hL, hw⟩, trivial⟩, by decide, by decide⟩

/-! ### the cellbase: `build_cellbase` against `RewardVerifier` / `CellbaseVerifier` -/

/-- `build_cellbase` never makes more than one output (the per-tip hypothesis `TipOk.cbOutputs` of the
    block-level theorems is a fact of the code) -/
theorem built_cellbase_outputs_le_one (finDelay tipNumber rewardTotal occupied : Nat) :
    cellbaseOutputs finDelay tipNumber rewardTotal occupied ≤ 1 := by
  unfold cellbaseOutputs; split <;> omega

/-- the cellbase `build_cellbase` makes for the tip passes the modelled `RewardVerifier`: no output
    exactly when the verifier expects none (`parent + 1 <= finalization_delay_length`, or the reward
    cannot fill the target's cell), else one output carrying the finalised reward to the target lock —
    given that assembler and verifier ask the same `RewardCalculator` on the same chain (total, lock) and
    the template's tip is the verifier's parent. Same boundary (`<=`) on both sides. -/
theorem built_cellbase_passes_reward_verifier (cfg : Cfg) (cx : Cx) (U : Nat) (s : ASt) (rewardTotal occupied : Nat)
    (hp : cx.parentNumber = s.tip.snap.tipNumber) :
    rewardCheck cfg cx
      { sealBlock U s with
        cbOutputs := cellbaseOutputs cfg.finDelay s.tip.snap.tipNumber rewardTotal occupied
        rewardInsufficient := decide (occupied > rewardTotal)
        cbCapacity := rewardTotal, expReward := rewardTotal, cbLockEq := true } = none := by
  simp only [rewardCheck, cellbaseOutputs, hp]
  split <;> simp

/-- the boundary matters: a cellbase with an output one block too early (`<` for `<=` in
    `no_finalization_target`) is rejected (`finalization_delay_length` = 4, tip 3) -/
theorem cellbase_output_at_finalization_delay_rejected :
    let cfg' : Cfg := { AsmEx.cfg with win := ⟨1, 3⟩ }
    cfg'.finDelay = 4 ∧ cellbaseOutputs cfg'.finDelay 3 1000 100 = 0 ∧
    rewardCheck cfg' { AsmEx.cx with parentNumber := 3 }
      { cbOutputs := 1, cbCapacity := 1000, expReward := 1000, cbLockEq := true } = some .rewardTarget := by
  decide

/-- the `TemplateSize` bookkeeping stays exact (total and the three parts = the real sizes of the
    template it describes) and within `max_block_bytes` under ANY sequence of service messages — the
    invariant the `tsize` lines evaluate on the real assembler after every scenario op -/
theorem svc_template_size_exact (cfg : Cfg) (U mc mp : Nat) (cxOf : Tip → Cx) (g : GSt)
    (op0 : GOp) (ops : List GOp) (hb : op0.isBlank = true)
    (h0 : op0.Ok cfg U mc mp cxOf g)
    (hops : GOkRun cfg U mc mp cxOf (gstep cfg U mc mp g op0) ops) :
    Template.Inv ((grun cfg U mc mp (gstep cfg U mc mp g op0) ops).a.toTSt cfg U) :=
  (grun_inv cfg U mc mp cxOf ops _ (gstep_blank_inv cfg U mc mp cxOf g op0 hb h0) hops).size

/-- `update_uncles` touches neither template nor container unless BOTH of its guards pass (fewer than
    `max_uncles_num` uncles in the template, more than one uncle's size left) -/
theorem update_uncles_guards (cfg : Cfg) (U mc mp : Nat) (g : GSt)
    (h : ¬ g.a.t.uncles.length < cfg.maxUncles ∨ ¬ cfg.maxBytes - g.a.t.sTotal > U) :
    gstep cfg U mc mp g .uncles = g := by
  rcases h with h | h
  · simp [gstep, h]
  · simp only [gstep]; split
    · simp [h]
    · rfl

/-- `update_uncles` with EXACTLY one uncle's size left (`remain_size == serialized_size_in_block`): the
    guard `remain_size > U` refuses, template and container stay as they are -/
theorem update_uncles_at_boundary_unchanged (cfg : Cfg) (U mc mp : Nat) (g : GSt)
    (h : cfg.maxBytes - g.a.t.sTotal = U) : gstep cfg U mc mp g .uncles = g :=
  update_uncles_guards cfg U mc mp g (Or.inr (by omega))

/-- why `>` and `>=` in that guard differ only in side effects: at the boundary the test that follows
    (`new_total_size < max_block_bytes`) refuses every prepared list that is LONGER than the template's
    current one, whatever `prepare_uncles` returns. With `>=` the path could therefore only prune the
    container or install a list that is not longer. (The correspondence does not distinguish the two
    guards: its fills reach 228 / 229 bytes, but not at the moment old-epoch candidates arrive.) -/
theorem update_uncles_boundary_growth_refused (maxBytes U sTotal sUncles nOld nNew : Nat)
    (h : maxBytes - sTotal = U) (hle : sTotal ≤ maxBytes) (hu : sUncles = U * nOld) (hgrow : nOld < nNew) :
    ¬ Template.calcTotal sTotal sUncles (U * nNew) < maxBytes := by
  have hmul : U * (nOld + 1) ≤ U * nNew := Nat.mul_le_mul_left U hgrow
  rw [Nat.mul_add, Nat.mul_one] at hmul
  subst hu
  generalize U * nOld = a at *
  generalize U * nNew = b at *
  unfold Template.calcTotal
  split <;> omega

/-- the staleness guard: while the pool's snapshot is on another tip than the assembler's, the three
    pool-reading paths leave assembler, container and tip exactly as they are -/
theorem stale_pool_tip_leaves_template (cfg : Cfg) (U mc mp : Nat) (g : GSt) (poolTip : Nat) (hne : g.tipId ≠ poolTip)
    (pending : List Nat) (v : View) (keep : Entry → Bool) :
    gstep cfg U mc mp g (.full poolTip pending v keep) = g ∧
    gstep cfg U mc mp g (.proposals poolTip pending) = g ∧
    gstep cfg U mc mp g (.txs poolTip v keep) = g := by
  have : (g.tipId != poolTip) = true := by simpa using hne
  simp [gstep, this]

/-- the tip a template is built on changes only through `update_blank` (reset / reorg): every other
    message keeps `tipId` and the per-tip data (epoch, target, cellbase, extension size) -/
theorem tip_changes_only_by_blank (cfg : Cfg) (U mc mp : Nat) (g : GSt) (op : GOp) (hb : op.isBlank = false) :
    (gstep cfg U mc mp g op).tipId = g.tipId ∧ (gstep cfg U mc mp g op).a.tip = g.a.tip := by
  cases op with
  | recvUncle u => exact ⟨rfl, rfl⟩
  | reorgBlank detached tip tipId => simp [GOp.isBlank] at hb
  | reset tip tipId => simp [GOp.isBlank] at hb
  | full poolTip pending v keep =>
    simp only [gstep]; split
    · exact ⟨rfl, rfl⟩
    · refine ⟨rfl, ?_⟩; simp only [astep]; split <;> rfl
  | uncles =>
    simp only [gstep]; split
    · split
      · refine ⟨rfl, ?_⟩; simp only [astep]; split <;> (try split) <;> (try split) <;> rfl
      · exact ⟨rfl, rfl⟩
    · exact ⟨rfl, rfl⟩
  | proposals poolTip pending =>
    simp only [gstep]; split
    · exact ⟨rfl, rfl⟩
    · refine ⟨rfl, ?_⟩; simp only [astep]; split <;> rfl
  | txs poolTip v keep =>
    simp only [gstep]; split
    · exact ⟨rfl, rfl⟩
    · refine ⟨rfl, ?_⟩; simp only [astep]; split <;> rfl

/-- the shared container stays well formed under every message of the service -/
theorem svc_container_invariant (cfg : Cfg) (U mc mp : Nat) (hmc : 0 < mc) (hmp : 0 < mp) (g : GSt) (ops : List GOp)
    (h : CU.Inv mc mp g.cu) : CU.Inv mc mp (grun cfg U mc mp g ops).cu := by
  unfold grun
  induction ops generalizing g with
  | nil => exact h
  | cons op ops ih => exact ih _ (gstep_cu_inv cfg U mc mp hmc hmp g op h)

/-- the translated limits satisfy the side conditions of the container theorems -/
theorem candidate_uncle_limits_positive :
    0 < Gen.Template.MAX_CANDIDATE_UNCLES ∧ 0 < Gen.Template.MAX_PER_HEIGHT := by decide

open AsmEx CkbVerif.Assembler CkbVerif.Rules in
/-- the hypotheses of `svc_template_passes_block_verifier_partial` are satisfiable: a container filled
    through `insert` with the three candidates of `AsmEx` (one of the previous epoch), a reset, a full
    update, a received uncle, an incremental transaction update -/
example :
    let g0 : GSt := { a := start, tipId := 0, cu := cuRun 128 10 (cands.map .insert) }
    (GOp.reset tip 7).isBlank = true ∧ (GOp.reset tip 7).Ok cfg 228 128 10 (fun _ => cx) g0 ∧
    GOkRun cfg 228 128 10 (fun _ => cx) (gstep cfg 228 128 10 g0 (.reset tip 7))
      [.full 7 [11, 12, 13] okPool (fun _ => true), .recvUncle cands[1], .txs 7 okPool (fun e => e.id != 3)] := by
  have hv : (cuRun 128 10 (cands.map .insert)).values = cands := by rfl
  have hpool : LinksOk okPool ∧ AggGe okPool ∧ (1000 : Nat) ∉ okPool.ids := by decide
  refine ⟨rfl, ⟨tipOk, ?_⟩, ⟨by decide, hpool.1, hpool.2.1, hpool.2.2⟩, trivial, ⟨hpool.1, hpool.2.1, hpool.2.2⟩, trivial⟩
  show CandsOk cfg cx (cuRun 128 10 (cands.map .insert)).values
  rw [hv]; exact candsOk

open AsmEx CkbVerif.Assembler CkbVerif.Rules in
/-- non-vacuity of `svc_template_passes_block_verifier_partial`: a reorg whose detached block becomes a
    candidate, a full update, a received uncle, `update_uncles`, a guarded path while the pool is on
    another tip (no effect), then the same path on the right tip -/
example :
    let g0 : GSt := { a := start, tipId := 0, cu := {} }
    let ops : List GOp :=
      [ .full 7 [11, 12, 13] okPool (fun _ => true), .recvUncle cands[1], .uncles,
        .proposals 8 [11, 12, 13, 14, 15], .proposals 7 [11, 12, 13, 14, 15] ]
    let g' := grun cfg 228 128 10 (gstep cfg 228 128 10 g0 (.reorgBlank [cands[0]] tip 7)) ops
    g'.a.t.uncles.map (·.id) = [104, 105] ∧ g'.a.t.proposals = [11, 13, 14] ∧ g'.a.t.txs.map (·.id) = [1, 2] ∧
    g'.cu.count = 2 ∧ nonContextualCheck cfg (sealBlock 228 g'.a) = none ∧
    unclesCheck cfg cx (sealBlock 228 g'.a) = none := by decide

/-! ### the score sort key (`AncestorsScoreSortKey`), F35 (repaired in /repo ef05b33) -/

open CkbVerif.Selector in
/-- WITNESS about the code as it was (reproduced on the real PoolMap, seeded/C12/findings-round6): with stale
    aggregates saturated to zero the order of the score index was not transitive — `kc = kq`, `kc < klo`, yet
    `klo < kq` — so the ordered index filed `kq` under `kc`'s bucket and `get_proposals` panicked `invalid key`. -/
theorem score_key_order_not_transitive_PreF35 :
    let kq : Key := ⟨5000, 300, 4000, 0⟩
    let kc : Key := ⟨5000, 300, 0, 0⟩
    let klo : Key := ⟨100, 300, 100, 300⟩
    kc.cmpPreF35 kq = .eq ∧ kc.cmpPreF35 klo = .lt ∧ klo.cmpPreF35 kq = .lt := by decide

open CkbVerif.Selector in
/-- repaired code, every key of an entry with positive own weight: the selected (fee, weight) pair never has
    weight zero, so the cross-multiplied comparison is a comparison of genuine fee rates -/
theorem score_key_pair_weight_positive (k : Key) (hw : 0 < k.weight) : 0 < k.minFeeWeight.2 := by
  unfold Key.minFeeWeight
  split
  · exact hw
  · rename_i h
    have : k.ancWeight ≠ 0 := fun h0 => h (Or.inl h0)
    exact Nat.pos_of_ne_zero this

open CkbVerif.Selector in
/-- the three keys of the witness under the repaired order: consistent (`klo < kc`, `klo < kq`, `kc = kq`) -/
theorem score_key_witness_repaired :
    let kq : Key := ⟨5000, 300, 4000, 0⟩
    let kc : Key := ⟨5000, 300, 0, 0⟩
    let klo : Key := ⟨100, 300, 100, 300⟩
    kc.cmp kq = .eq ∧ klo.cmp kc = .lt ∧ klo.cmp kq = .lt := by decide

end CkbVerif.C13
