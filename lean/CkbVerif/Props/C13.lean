import CkbVerif.Lemmas.Selector
import CkbVerif.Lemmas.SelectorOrder
import CkbVerif.Lemmas.Template
import CkbVerif.Lemmas.Assembler

/-!
# C13 — every block template handed to miners would be accepted by the node itself

What is proved here is the part of the property that is decided by
`TxSelector::txs_to_commit` (tx-pool/src/component/tx_selector.rs), over ALL pool views, limits and
tie ranks (`Model/Selector.lean` follows the Rust loop; `Lemmas/Selector.lean` has the loop
invariant `Inv`, preserved by every iteration, hence by the whole run):

* `selected_no_duplicates`      no transaction is packaged twice;
* `selected_ancestor_closed`    every packaged transaction is a proposed pool entry and ALL of its
                                in-pool ancestors are packaged too, each of them proposed;
* `selected_sums`               the returned (size, cycles) are the sums over the packaged entries;
* `selected_within_limits`      Σ size ≤ size_limit ∧ Σ cycles ≤ cycles_limit.

Hypotheses, stated precisely (all decidable, all evaluated by the model driver on every real pool
the harness dumps and compared with the harness's own evaluation over the real
`calc_ancestors`/`calc_descendants`):

* `LinksOk v` (needed by all four): ids unique; `calc_ancestors` lists are duplicate-free, consist
  of pool entries and are transitively closed; `d ∈ calc_descendants p → p ∈ calc_ancestors d`;
  `calc_descendants` lists are duplicate-free.
* `AggGe v` (needed ONLY by `selected_within_limits`): every entry's maintained
  `ancestors_size`/`ancestors_cycles` is at least the recomputation over `calc_ancestors`.
  Admission (`size + ancestors_size ≤ limit`) trusts these numbers and nothing re-checks the
  package afterwards, so the hypothesis cannot be dropped: `within_limits_fails_when_stale` is a
  three-transaction pool (the shape PoolMap::add_entry leaves after a reorg re-adds a parent behind
  its pooled child — C11's finding F3) where the packaged set exceeds the limit (finding F8,
  reproduced on the real node by the harness: the node rejects its own template).

* `selected_parents_first`      (hypotheses `LinksOk v`, `LinksExact v`, `AggExact v`) in the returned
                                list no transaction appears before one of its in-pool ancestors;
  `selected_topological_order`  together with `selected_ancestor_closed`: the list is duplicate-free and
                                every in-pool ancestor of the transaction at position `i` sits at some
                                position `j < i` — a valid topological order of an ancestor-closed set.
  Inside a package the order comes from sorting by the (modified) `ancestors_count`; the proof
  (`Lemmas/SelectorOrder.lean`, second loop invariant `Inv2`) shows that every never-failed occupant
  of `modified_entries` carries EXACT aggregates w.r.t. `fetched_txs`, that an entry which failed
  admission (and everything depending on it) can never be packaged later, hence that every member of an
  admitted package is exact, and that exact counts strictly increase along ancestor links.
  `LinksExact` (acyclic links; `desc` is the inverse of `anc`) and `AggExact` (maintained aggregates =
  recomputation) cannot be dropped: `parents_first_fails_when_stale` shows the order is false when the
  counts are stale (F8; also observed on the real node).

Block level (`Model/Assembler.lean`: `prepare_uncles`, `package_proposals`, the five update paths
with content, the sealed block as the verifier model of C03 sees it; `Lemmas/Assembler.lean`):

* `prepared_uncles_rules`                the output of `prepare_uncles` has at most `max_uncles_num` elements with
                                         distinct hashes, each a candidate of the epoch and target of the block
                                         BEING ASSEMBLED (`next_epoch_ext(tip)`), with number < the block's number,
                                         neither on the main chain nor embedded as an uncle already;
* `prepared_uncles_pass_uncles_verifier` on such a list the model of `UnclesVerifier` (`Rules.unclesCheck`, C03)
                                         answers `none`, given the candidates are blocks the node processed
                                         (`CandsOk`) and the snapshot is the verifier's chain view (`SnapOk`);
* `uncles_rejected_when_tip_epoch_used`  at an epoch's last block, selecting by the TIP's epoch (instead of the
                                         stored epoch of the block being assembled) yields a template the uncle
                                         verifier rejects (`uncleEpoch`) — the selection parameter matters;
* `packaged_proposals_rules`             `package_proposals`: at most `limit` ids, duplicate-free, each pending,
                                         none proposed by one of the template's uncles;
* `template_passes_block_verifier_partial` after `update_blank` on any tip followed by ANY sequence of
                                         `update_full/uncles/proposals/transactions/blank`, the sealed template
                                         passes the modelled non-contextual `BlockVerifier` (proposals limit,
                                         block bytes, all `CellbaseVerifier` clauses, transaction / proposal
                                         duplicates) and `UnclesVerifier`, and its cycles are within
                                         `max_block_cycles` — composed from `selected_no_duplicates`,
                                         `selected_within_limits`, `template_size_le_max` (through the projection
                                         `toTSt_astep`) and the two theorems above.
  PARTIAL: hypotheses per update (`AOp.Ok`): pool views with `LinksOk` and `AggGe` (F8 otherwise), pending ids
  distinct, the cellbase is not a pool entry, candidates are processed blocks, a blank template with
  `max_uncles_num` uncles fits, the configured / reward-target locks use an enabled hash type. Still decided only
  by the implementation-only oracle (a copy node's full verification of every fetched template): header stage
  (PoW, timestamp/median time), merkle roots (recomputed by sealing), `NonContextualBlockTxsVerifier` and
  `BlockTxsVerifier` (script execution, since, capacity; that the recorded cycles are the consumed ones),
  transaction resolution in block order (`calc_dao`'s re-check is the abstract `keep`), `TwoPhaseCommitVerifier`
  (that Proposed pool entries are inside the window is C12/C20), `EpochVerifier` (epoch/target EQUAL the
  verifier's: `next_epoch_ext` is shared code, C07), `DaoHeaderVerifier` (C06), `RewardVerifier` (C06),
  `BlockExtensionVerifier` (C19).
-/

namespace CkbVerif.C13
open CkbVerif.Selector

/-- no transaction is packaged twice -/
theorem selected_no_duplicates (v : View) (sl cl : Nat) (hL : LinksOk v) :
    ((txsToCommit v sl cl).out.map (·.id)).Nodup :=
  (Inv.final (sl := sl) (cl := cl) hL).nodup

/-- every packaged transaction is a proposed pool entry, and all of its in-pool ancestors are
    packaged as well, every one of them proposed -/
theorem selected_ancestor_closed (v : View) (sl cl : Nat) (hL : LinksOk v) :
    ∀ e ∈ (txsToCommit v sl cl).out,
      v.hasProposed e.id = true ∧
      ∀ a ∈ v.anc e.id, a ∈ (txsToCommit v sl cl).out.map (·.id) ∧ v.hasProposed a = true := by
  have h := Inv.final (sl := sl) (cl := cl) hL
  intro e he
  refine ⟨(h.outGood e he).1, fun a ha => ?_⟩
  have hin := h.fetchedOut a (h.closed e.id (h.outFetched e he) a ha)
  refine ⟨hin, ?_⟩
  obtain ⟨x, hx, rfl⟩ := List.mem_map.mp hin
  exact (h.outGood x hx).1

/-- the returned totals are the sums over the packaged entries -/
theorem selected_sums (v : View) (sl cl : Nat) (hL : LinksOk v) :
    (txsToCommit v sl cl).size = ((txsToCommit v sl cl).out.map (·.size)).sum ∧
    (txsToCommit v sl cl).cycles = ((txsToCommit v sl cl).out.map (·.cycles)).sum :=
  ⟨(Inv.final (sl := sl) (cl := cl) hL).sizeEq, (Inv.final (sl := sl) (cl := cl) hL).cyclesEq⟩

/-- total size ≤ size_limit ∧ total cycles ≤ cycles_limit, provided the maintained
    `ancestors_size`/`ancestors_cycles` are not smaller than the recomputation -/
theorem selected_within_limits (v : View) (sl cl : Nat) (hL : LinksOk v) (hA : AggGe v) :
    ((txsToCommit v sl cl).out.map (·.size)).sum ≤ sl ∧
    ((txsToCommit v sl cl).out.map (·.cycles)).sum ≤ cl := by
  have h := Inv.final (sl := sl) (cl := cl) hL
  have := h.limits hA
  rw [h.sizeEq, h.cyclesEq] at this
  exact this

/-- Parents first: in the returned list no transaction appears before (or at the position of) one
    of its in-pool ancestors. Hypotheses: consistent links (`LinksOk`), acyclic links with `desc` the
    exact inverse of `anc` (`LinksExact`), maintained aggregates equal to the recomputation
    (`AggExact`). For every size limit, cycles limit and tie rank. -/
theorem selected_parents_first (v : View) (sl cl : Nat) (hL : LinksOk v) (hX : LinksExact v)
    (hA : AggExact v) :
    ∀ (i j : Nat) (hi : i < (txsToCommit v sl cl).out.length) (hj : j < (txsToCommit v sl cl).out.length),
      ((txsToCommit v sl cl).out[j]).id ∈ v.anc ((txsToCommit v sl cl).out[i]).id → j < i := by
  have h := Inv.final (sl := sl) (cl := cl) hL
  have h2 := Inv2.final (sl := sl) (cl := cl) hL hX hA
  intro i j hi hj hin
  have hord := List.pairwise_iff_getElem.mp h2.order
  rcases Nat.lt_trichotomy j i with hlt | heq | hgt
  · exact hlt
  · subst heq
    have hg := h.outGood _ (List.getElem_mem hi)
    exact absurd hin (hX.1 _ (hasProposed_mem_ids hg.1))
  · exact absurd hin (hord i j hi hj hgt)

/-- The returned list is a valid topological order of an ancestor-closed set: no duplicates, and
    every in-pool ancestor of the transaction at position `i` is at some position `j < i`. -/
theorem selected_topological_order (v : View) (sl cl : Nat) (hL : LinksOk v) (hX : LinksExact v)
    (hA : AggExact v) :
    ((txsToCommit v sl cl).out.map (·.id)).Nodup ∧
    ∀ (i : Nat) (hi : i < (txsToCommit v sl cl).out.length),
      ∀ a ∈ v.anc ((txsToCommit v sl cl).out[i]).id,
        ∃ (j : Nat) (hj : j < (txsToCommit v sl cl).out.length), j < i ∧ ((txsToCommit v sl cl).out[j]).id = a := by
  refine ⟨selected_no_duplicates v sl cl hL, ?_⟩
  intro i hi a ha
  have hc := (selected_ancestor_closed v sl cl hL _ (List.getElem_mem hi)).2 a ha
  obtain ⟨x, hx, hxa⟩ := List.mem_map.mp hc.1
  obtain ⟨j, hj, hjx⟩ := List.getElem_of_mem hx
  refine ⟨j, hj, ?_, by rw [hjx, hxa]⟩
  apply selected_parents_first v sl cl hL hX hA i j hi hj
  rw [hjx, hxa]; exact ha

/-! ## concrete pools -/

/-- entry with key computed from the entry -/
def mk (id size cycles fee ac asz acy af : Nat) (prop : Bool) (ps cs : List Nat) : PEntry :=
  let e : Entry := ⟨id, size, cycles, fee, ac, asz, acy, af⟩
  ⟨e, prop, e.key, ps, cs⟩

/-- a consistent pool: chain 1 → 2 → 3 plus an independent 4, everything proposed -/
def okPool : View := View.ofLinks
  [ mk 1 100 10 1000 1 100 10 1000 true [] [2],
    mk 2 100 10 5000 2 200 20 6000 true [1] [3],
    mk 3 100 10 100 3 300 30 6100 true [2] [],
    mk 4 150 10 3000 1 150 10 3000 true [] [] ] (fun id => id)

/-- the hypotheses of the theorems are satisfiable by a non-trivial pool, and the selection on it is
    non-trivial (a package 1,2 picked for its child-pays-for-parent rate, limits binding) -/
example : LinksOk okPool ∧ LinksExact okPool ∧ AggGe okPool ∧ AggExact okPool ∧ KeysOk okPool := by decide
example : (txsToCommit okPool 1000 1000).out.map (·.id) = [1, 2, 4, 3] := by decide
example : (txsToCommit okPool 250 1000).out.map (·.id) = [1, 2] := by decide
example : (txsToCommit okPool 1000 25).out.map (·.id) = [1, 2] := by decide

/-- a pool where a package is built from MODIFIED entries (after 1 is packaged, 2 and 3 sit in
    `modified_entries` with reduced counts), an admission fails and is recorded in `failed_txs`
    (the package 4 → 5 does not fit; 4 alone is packaged afterwards), and the
    hypotheses of `selected_parents_first` hold: the order theorem applies non-vacuously -/
def orderPool : View := View.ofLinks
  [ mk 1 100 10 9000 1 100 10 9000 true [] [2, 3],
    mk 2 100 10 100 2 200 20 9100 true [1] [6],
    mk 3 100 10 100 2 200 20 9100 true [1] [6],
    mk 6 100 10 8000 4 400 40 17200 true [2, 3] [],
    mk 4 300 10 50 1 300 10 50 true [] [5],
    mk 5 300 10 7000 2 600 20 7050 true [4] [] ] (fun id => id)

example : LinksOk orderPool ∧ LinksExact orderPool ∧ AggExact orderPool := by decide
example : (txsToCommit orderPool 900 1000).out.map (·.id) = [1, 2, 3, 6, 4] ∧
    (txsToCommit orderPool 900 1000).failed = [5] := by decide

/-- the pool `PoolMap::add_entry` leaves behind when a reorg re-adds grand-parent 1 and parent 2
    behind the pooled child 3 (C11's F3): 3's aggregates include 2 but miss 1 -/
def stalePool : View := View.ofLinks
  [ mk 3 100 10 9000 2 200 20 9500 true [2] [],
    mk 1 100 10 500 1 100 10 500 true [] [2],
    mk 2 100 10 500 2 200 20 1000 true [1] [3] ] (fun id => id)

/-- F8: the links are consistent, only the maintained aggregates are too small — and the packaged
    set (300 bytes) exceeds the size limit (200) that admission was supposed to enforce -/
theorem within_limits_fails_when_stale :
    LinksOk stalePool ∧ ¬ AggGe stalePool ∧
    ((txsToCommit stalePool 200 1000).out.map (·.id) = [1, 2, 3]) ∧
    ((txsToCommit stalePool 200 1000).out.map (·.size)).sum = 300 ∧ 300 > 200 := by decide

/-- two roots 1, 5 → 2 (re-added, count 3) → 3 (pooled child whose count 2 misses 1 and 5) → 4 -/
def staleOrderPool : View := View.ofLinks
  [ mk 3 100 10 500 2 200 20 1000 true [2] [4],
    mk 4 100 10 9000 3 300 30 10000 true [3] [],
    mk 1 100 10 500 1 100 10 500 true [] [2],
    mk 5 100 10 500 1 100 10 500 true [] [2],
    mk 2 100 10 500 3 300 30 1500 true [1, 5] [3] ] (fun id => id)

/-- with stale `ancestors_count` the child 3 is emitted BEFORE its parent 2 -/
theorem parents_first_fails_when_stale :
    LinksOk staleOrderPool ∧ LinksExact staleOrderPool ∧ ¬ AggExact staleOrderPool ∧
    (txsToCommit staleOrderPool 100000 100000).out.map (·.id) = [1, 5, 3, 2, 4] := by decide

/-- `get_transaction_weight`: the double arithmetic is pinned on two values (also compared with the
    real function on random inputs by the harness) -/
example : weight 100 1000000 = 170 ∧ weight 100 70000000000 = 11939998 := by decide


/-! ## `TemplateSize` bookkeeping of the assembler's update paths -/

open CkbVerif.Template in
/-- run a sequence of update paths -/
def runOps (s : TSt) (ops : List Op) : TSt := ops.foldl Template.step s

open CkbVerif.Template in
/-- After ANY sequence of `update_blank / update_full / update_uncles / update_proposals /
    update_transactions`, the `TemplateSize` bookkeeping equals the real size of the described block
    (header + cellbase + extension + uncles + proposals + transactions) and that size is ≤
    `max_block_bytes` — provided every transaction selection respects the limit it was given
    (`selected_within_limits`, i.e. the pool aggregates are not stale) and a blank template fits. -/
theorem template_size_le_max (s : TSt) (ops : List Op) (h : Template.Inv s)
    (hsel : ∀ op ∈ ops, op.selOk) (hblank : ∀ op ∈ ops, op.blankOk s.max s.U) :
    (runOps s ops).sTotal = (runOps s ops).actual ∧ (runOps s ops).actual ≤ s.max := by
  suffices hs : Template.Inv (runOps s ops) ∧ (runOps s ops).max = s.max from
    ⟨hs.1.total, hs.2 ▸ hs.1.le⟩
  unfold runOps
  induction ops generalizing s with
  | nil => exact ⟨h, rfl⟩
  | cons op ops ih =>
    simp only [List.foldl_cons]
    have hm := Template.step_max s op
    have h' := h.step op (hsel op List.mem_cons_self) (hblank op List.mem_cons_self)
    have := ih (Template.step s op) h'
      (fun o ho => hsel o (List.mem_cons_of_mem _ ho))
      (fun o ho => by rw [hm.1, hm.2]; exact hblank o (List.mem_cons_of_mem _ ho))
    exact ⟨this.1, this.2.trans hm.1⟩

open CkbVerif.Template in
/-- a blank template of 600 bytes, limit 1000: a full update with 2 proposals and a well-behaved
    selector stays within the limit (non-vacuity) … -/
example : (runOps ⟨1000, 228, 600, 0, 0, 0, 0, 0, 0, 600⟩ [.full 2 (fun l => l), .uncles 1 2, .proposals 3]).actual = 1000 := by
  decide

open CkbVerif.Template in
/-- … and with a selector that overshoots by 100 bytes (F8: stale `ancestors_size`) `update_full`
    installs a 1100-byte template: nothing re-checks the total -/
theorem template_oversize_when_selection_overshoots :
    (runOps ⟨1000, 228, 600, 0, 0, 0, 0, 0, 0, 600⟩ [.full 2 (fun l => l + 100)]).actual = 1100 := by
  decide


/-! ## block level: uncles, proposals, and the sealed template against the verifier model of C03 -/

open CkbVerif.Assembler CkbVerif.Rules in
/-- `prepare_uncles`: at most `max_uncles_num` uncles, distinct hashes, every one a candidate with the
    target and epoch number of the block being assembled (`en`/`tg` are those of `next_epoch_ext(tip)`),
    number below the block's, neither a main-chain block nor embedded as an uncle before. -/
theorem prepared_uncles_rules (cfg : Cfg) (cx : Cx) (snap : Snap) (en tg : Nat) (cands : List Uncle)
    (hc : CandsOk cfg cx cands) :
    (prepareUncles cfg.maxUncles snap en tg cands).length ≤ cfg.maxUncles ∧
    ((prepareUncles cfg.maxUncles snap en tg cands).map (·.id)).Nodup ∧
    ∀ u ∈ prepareUncles cfg.maxUncles snap en tg cands,
      u ∈ cands ∧ u.target = tg ∧ u.epochNumber = en ∧ u.number < snap.tipNumber + 1 ∧
      snap.isMain u.id = false ∧ snap.isUncle u.id = false := by
  obtain ⟨hl, hp⟩ := prepareUncles_spec cfg cx snap en tg cands hc
  refine ⟨hl, (pickedFrom_nodup hp).1, ?_⟩
  intro u hu
  obtain ⟨pre, h1, h2, h3, h4, h5, h6, _⟩ := pickedFrom_mem hp u hu
  exact ⟨h1, h2, h3, h4, h5, h6⟩

open CkbVerif.Assembler CkbVerif.Rules in
/-- The uncle verifier model of C03 accepts what `prepare_uncles` selects, for every block on this tip
    whose (verifier-computed) epoch number and target are the ones the assembler selected by. -/
theorem prepared_uncles_pass_uncles_verifier (cfg : Cfg) (cx : Cx) (snap : Snap) (en tg : Nat)
    (cands : List Uncle) (b : Blk) (hs : SnapOk snap cx) (hc : CandsOk cfg cx cands)
    (hbn : b.number = snap.tipNumber + 1) (hbe : b.expEpoch.number = en) (hbt : b.expTarget = tg)
    (hbu : b.uncles = prepareUncles cfg.maxUncles snap en tg cands) :
    unclesCheck cfg cx b = none := by
  obtain ⟨hl, hp⟩ := prepareUncles_spec cfg cx snap en tg cands hc
  unfold unclesCheck
  split
  · rfl
  · have hn : ¬ (b.number == 0) = true := by simp [hbn]
    have hlen : ¬ (b.uncles.length > cfg.maxUncles) := by rw [hbu]; omega
    rw [if_neg hn, if_neg hlen, hbu]
    have := unclesLoop_of_picked cfg cx b snap en tg cands hs hc hbn hbe hbt [] _ (by simp) hp
    simpa using this

namespace UncleEx
open CkbVerif.Assembler CkbVerif.Rules

/-- chain 0..5 (ids = numbers), no embedded uncles; epochs of 6 blocks: the tip (5) is the LAST block
    of epoch 0, the block being assembled (6) is the first of epoch 1 (same target: permanent difficulty) -/
def cx : Cx := { parentNumber := 5, mainNum := fun h => if h < 6 then some h else none, uncleNum := fun _ => none, chain := [] }
def snap : Snap := ⟨5, fun h => (cx.mainNum h).isSome, fun h => (cx.uncleNum h).isSome⟩
/-- a sibling of block 5 (epoch 0, old target 7) and nothing else -/
def cands : List Uncle := [{ id := 105, parent := 4, number := 5, epochNumber := 0, target := 7 }]
def blk (us : List Uncle) : Blk := { number := 6, expEpoch := { number := 1 }, expTarget := 7, uncles := us }
end UncleEx

open UncleEx CkbVerif.Assembler CkbVerif.Rules in
/-- At an epoch boundary the selection must use the epoch of the block being assembled: with the
    TIP's epoch (0) the old-epoch candidate is selected and the uncle verifier rejects the
    template; with the stored epoch of the block being assembled (1) nothing is selected and
    it passes. (Seeded change C13/m3 is exactly this; the node harness catches it on real code.) -/
theorem uncles_rejected_when_tip_epoch_used :
    unclesCheck {} cx (blk (prepareUncles 2 snap 0 7 cands)) = some .uncleEpoch ∧
    unclesCheck {} cx (blk (prepareUncles 2 snap 1 7 cands)) = none ∧
    (prepareUncles 2 snap 0 7 cands).length = 1 := by decide

open CkbVerif.Assembler CkbVerif.Rules in
/-- `package_proposals(limit, uncles)` -/
theorem packaged_proposals_rules (limit : Nat) (pending : List Nat) (uncles : List Uncle) (h : pending.Nodup) :
    (packageProposals limit pending uncles).length ≤ limit ∧
    (packageProposals limit pending uncles).Nodup ∧
    ∀ id ∈ packageProposals limit pending uncles, id ∈ pending ∧ ∀ u ∈ uncles, id ∉ u.proposals :=
  ⟨packageProposals_length _ _ _, packageProposals_nodup _ _ _ h, fun _ hid => packageProposals_mem hid⟩

open CkbVerif.Assembler CkbVerif.Rules in
/-- PARTIAL (see the file header for what stays oracle-only). Start from `update_blank` on any tip (in
    any previous state `s`), apply ANY sequence of the five update paths (tip changes included), each
    update satisfying its hypotheses `AOp.Ok` in the state it meets; seal the resulting template. Then
    the modelled non-contextual `BlockVerifier` and the modelled `UnclesVerifier` accept it, and its
    cycles are within `max_block_cycles`. -/
theorem template_passes_block_verifier_partial (cfg : Cfg) (U : Nat) (cxOf : Tip → Cx) (s : ASt)
    (tip : Tip) (cands : List Uncle) (ops : List AOp)
    (h0 : (AOp.blank tip cands).Ok cfg U cxOf s)
    (hops : OkRun cfg U cxOf (astep cfg U s (.blank tip cands)) ops) :
    let s' := arun cfg U (astep cfg U s (.blank tip cands)) ops
    nonContextualCheck cfg (sealBlock U s') = none ∧
    unclesCheck cfg (cxOf s'.tip) (sealBlock U s') = none ∧
    (sealBlock U s').cycles ≤ cfg.maxCycles :=
  ((AInv.blank s tip cands h0).run ops hops).sealed

namespace AsmEx
open CkbVerif.Assembler CkbVerif.Rules

def cfg : Cfg := { maxUncles := 2, maxProposals := 3, maxBytes := 1500, maxCycles := 25 }
/-- chain 0..5 (ids = numbers), no embedded uncles -/
def cx : Cx := { parentNumber := 5, mainNum := fun h => if h < 6 then some h else none, uncleNum := fun _ => none, chain := [] }
def tip : Tip :=
  { snap := ⟨5, fun h => (cx.mainNum h).isSome, fun h => (cx.uncleNum h).isSome⟩, epochNumber := 1, target := 7,
    base := 600, cbOutputs := 1, cbId := 1000, cbWitnessOk := true, cbLockOk := true }
/-- a sibling of block 4, its child (parent = the candidate before it: an embedded parent), and a
    candidate of the previous epoch -/
def cands : List Uncle :=
  [ { id := 104, parent := 3, number := 4, epochNumber := 1, target := 7, proposals := [12] },
    { id := 105, parent := 104, number := 5, epochNumber := 1, target := 7 },
    { id := 106, parent := 4, number := 5, epochNumber := 0, target := 7 } ]
def ops : List AOp :=
  [ .full [11, 12, 13] okPool (fun _ => true), .uncles cands, .proposals [11, 12, 13, 14, 15],
    .txs okPool (fun e => e.id != 3) ]
def start : ASt := { tip := tip, t := {} }

theorem candsOk : CandsOk cfg cx cands := by
  refine ⟨by decide, by decide, ?_, ?_, by decide⟩
  · intro u hu n hn
    simp only [cands, List.mem_cons, List.not_mem_nil, or_false] at hu
    rcases hu with rfl | rfl | rfl <;> simp [cx] at hn <;> simp <;> omega
  · intro u hu n hn
    simp [cx] at hn

theorem tipOk : TipOk cfg 228 tip cx :=
  ⟨⟨rfl, fun _ => rfl, fun _ => rfl⟩, by decide, by decide, rfl, rfl⟩

end AsmEx

open AsmEx CkbVerif.Assembler CkbVerif.Rules in
/-- non-vacuity of `template_passes_block_verifier_partial`: the hypotheses hold for a run that uses
    every update path (two uncles, the second a child of the first; the old-epoch candidate is
    dropped; proposals cut at the limit and minus the uncle's; the cycles limit binds; `calc_dao`
    drops an entry), and the sealed template is non-trivial -/
example :
    (AOp.blank tip cands).Ok cfg 228 (fun _ => cx) start ∧
    OkRun cfg 228 (fun _ => cx) (astep cfg 228 start (.blank tip cands)) ops := by
  refine ⟨⟨tipOk, candsOk⟩, ?_⟩
  have hpool : LinksOk okPool ∧ AggGe okPool ∧ (1000 : Nat) ∉ okPool.ids := by decide
  refine ⟨⟨by decide, hpool.1, hpool.2.1, hpool.2.2⟩, candsOk, ?_, ⟨hpool.1, hpool.2.1, hpool.2.2⟩, trivial⟩
  show [11, 12, 13, 14, 15].Nodup
  decide

open AsmEx CkbVerif.Assembler CkbVerif.Rules in
example :
    let s' := arun cfg 228 (astep cfg 228 start (.blank tip cands)) ops
    s'.t.uncles.map (·.id) = [104, 105] ∧ s'.t.proposals = [11, 13, 14] ∧ s'.t.txs.map (·.id) = [1, 2] ∧
    (sealBlock 228 s').bytes = 1286 ∧ nonContextualCheck cfg (sealBlock 228 s') = none ∧
    unclesCheck cfg cx (sealBlock 228 s') = none := by decide

end CkbVerif.C13
