import CkbVerif.Lemmas.Selector
import CkbVerif.Lemmas.Template

/-!
# C13 — every block template handed to miners would be accepted by the node itself

What is proved here is the part of the property that is decided by
`TxSelector::txs_to_commit` (tx-pool/src/component/tx_selector.rs), over ALL pool views, limits and
tie ranks (`Model/Selector.lean` follows the Rust loop; `Lemmas/Selector.lean` has the loop
invariant `Inv`, preserved by every iteration, hence by the whole run):

* `selected_no_duplicates`      no transaction is packaged twice;
* `selected_ancestor_closed`    every packaged transaction is a proposed pool entry and ALL of its
                                in-pool ancestors are packaged too, each of them proposed;
* `selected_sums`               the returned (size, cycles) are the sums over the packaged entries;
* `selected_within_limits`      Σ size ≤ size_limit ∧ Σ cycles ≤ cycles_limit.

Hypotheses, stated precisely (all decidable, all evaluated by the model driver on every real pool
the harness dumps and compared with the harness's own evaluation over the real
`calc_ancestors`/`calc_descendants`):

* `LinksOk v` (needed by all four): ids unique; `calc_ancestors` lists are duplicate-free, consist
  of pool entries and are transitively closed; `d ∈ calc_descendants p → p ∈ calc_ancestors d`;
  `calc_descendants` lists are duplicate-free.
* `AggGe v` (needed ONLY by `selected_within_limits`): every entry's maintained
  `ancestors_size`/`ancestors_cycles` is at least the recomputation over `calc_ancestors`.
  Admission (`size + ancestors_size ≤ limit`) trusts these numbers and nothing re-checks the
  package afterwards, so the hypothesis cannot be dropped: `within_limits_fails_when_stale` is a
  three-transaction pool (the shape PoolMap::add_entry leaves after a reorg re-adds a parent behind
  its pooled child — C11's finding F3) where the packaged set exceeds the limit (finding F8,
  reproduced on the real node by the harness: the node rejects its own template).

NOT proved: `selected_parents_first` (every parent precedes its child in the output). Full statement:
  `LinksOk v → LinksExact v → AggExact v → ∀ i j, out[j].id ∈ v.anc out[i].id → j < i`.
  Inside a package the order comes from sorting by the (modified) `ancestors_count`; the proof needs
  the exactness of the modified counts of never-failed entries plus the fact that an entry that
  failed admission (and everything depending on it) can never be packaged later; that argument is not
  formalised. The order is checked on every real selection and template by the implementation-only
  oracle and by exact comparison with the model's output; `parents_first_fails_when_stale` shows it is
  false when the counts are stale (also observed on the real node).

Block-level validity of the template (cellbase, DAO, epoch, target, extension, uncles, total
size with cellbase/uncles/proposals) is decided by the implementation-only oracle of the harness (a
copy node's full verification of every fetched template), not by theorems in this file, except for
the `TemplateSize` bookkeeping (`template_size_le_max`, `Model/Template.lean`).
-/

namespace CkbVerif.C13
open CkbVerif.Selector

/-- no transaction is packaged twice -/
theorem selected_no_duplicates (v : View) (sl cl : Nat) (hL : LinksOk v) :
    ((txsToCommit v sl cl).out.map (·.id)).Nodup :=
  (Inv.final (sl := sl) (cl := cl) hL).nodup

/-- every packaged transaction is a proposed pool entry, and all of its in-pool ancestors are
    packaged as well, every one of them proposed -/
theorem selected_ancestor_closed (v : View) (sl cl : Nat) (hL : LinksOk v) :
    ∀ e ∈ (txsToCommit v sl cl).out,
      v.hasProposed e.id = true ∧
      ∀ a ∈ v.anc e.id, a ∈ (txsToCommit v sl cl).out.map (·.id) ∧ v.hasProposed a = true := by
  have h := Inv.final (sl := sl) (cl := cl) hL
  intro e he
  refine ⟨(h.outGood e he).1, fun a ha => ?_⟩
  have hin := h.fetchedOut a (h.closed e.id (h.outFetched e he) a ha)
  refine ⟨hin, ?_⟩
  obtain ⟨x, hx, rfl⟩ := List.mem_map.mp hin
  exact (h.outGood x hx).1

/-- the returned totals are the sums over the packaged entries -/
theorem selected_sums (v : View) (sl cl : Nat) (hL : LinksOk v) :
    (txsToCommit v sl cl).size = ((txsToCommit v sl cl).out.map (·.size)).sum ∧
    (txsToCommit v sl cl).cycles = ((txsToCommit v sl cl).out.map (·.cycles)).sum :=
  ⟨(Inv.final (sl := sl) (cl := cl) hL).sizeEq, (Inv.final (sl := sl) (cl := cl) hL).cyclesEq⟩

/-- total size ≤ size_limit ∧ total cycles ≤ cycles_limit, provided the maintained
    `ancestors_size`/`ancestors_cycles` are not smaller than the recomputation -/
theorem selected_within_limits (v : View) (sl cl : Nat) (hL : LinksOk v) (hA : AggGe v) :
    ((txsToCommit v sl cl).out.map (·.size)).sum ≤ sl ∧
    ((txsToCommit v sl cl).out.map (·.cycles)).sum ≤ cl := by
  have h := Inv.final (sl := sl) (cl := cl) hL
  have := h.limits hA
  rw [h.sizeEq, h.cyclesEq] at this
  exact this

/-! ## concrete pools -/

/-- entry with key computed from the entry -/
def mk (id size cycles fee ac asz acy af : Nat) (prop : Bool) (ps cs : List Nat) : PEntry :=
  let e : Entry := ⟨id, size, cycles, fee, ac, asz, acy, af⟩
  ⟨e, prop, e.key, ps, cs⟩

/-- a consistent pool: chain 1 → 2 → 3 plus an independent 4, everything proposed -/
def okPool : View := View.ofLinks
  [ mk 1 100 10 1000 1 100 10 1000 true [] [2],
    mk 2 100 10 5000 2 200 20 6000 true [1] [3],
    mk 3 100 10 100 3 300 30 6100 true [2] [],
    mk 4 150 10 3000 1 150 10 3000 true [] [] ] (fun id => id)

/-- the hypotheses of the theorems are satisfiable by a non-trivial pool, and the selection on it is
    non-trivial (a package 1,2 picked for its child-pays-for-parent rate, limits binding) -/
example : LinksOk okPool ∧ LinksExact okPool ∧ AggGe okPool ∧ AggExact okPool ∧ KeysOk okPool := by decide
example : (txsToCommit okPool 1000 1000).out.map (·.id) = [1, 2, 4, 3] := by decide
example : (txsToCommit okPool 250 1000).out.map (·.id) = [1, 2] := by decide
example : (txsToCommit okPool 1000 25).out.map (·.id) = [1, 2] := by decide

/-- the pool `PoolMap::add_entry` leaves behind when a reorg re-adds grand-parent 1 and parent 2
    behind the pooled child 3 (C11's F3): 3's aggregates include 2 but miss 1 -/
def stalePool : View := View.ofLinks
  [ mk 3 100 10 9000 2 200 20 9500 true [2] [],
    mk 1 100 10 500 1 100 10 500 true [] [2],
    mk 2 100 10 500 2 200 20 1000 true [1] [3] ] (fun id => id)

/-- F8: the links are consistent, only the maintained aggregates are too small — and the packaged
    set (300 bytes) exceeds the size limit (200) that admission was supposed to enforce -/
theorem within_limits_fails_when_stale :
    LinksOk stalePool ∧ ¬ AggGe stalePool ∧
    ((txsToCommit stalePool 200 1000).out.map (·.id) = [1, 2, 3]) ∧
    ((txsToCommit stalePool 200 1000).out.map (·.size)).sum = 300 ∧ 300 > 200 := by decide

/-- two roots 1, 5 → 2 (re-added, count 3) → 3 (pooled child whose count 2 misses 1 and 5) → 4 -/
def staleOrderPool : View := View.ofLinks
  [ mk 3 100 10 500 2 200 20 1000 true [2] [4],
    mk 4 100 10 9000 3 300 30 10000 true [3] [],
    mk 1 100 10 500 1 100 10 500 true [] [2],
    mk 5 100 10 500 1 100 10 500 true [] [2],
    mk 2 100 10 500 3 300 30 1500 true [1, 5] [3] ] (fun id => id)

/-- with stale `ancestors_count` the child 3 is emitted BEFORE its parent 2 -/
theorem parents_first_fails_when_stale :
    LinksOk staleOrderPool ∧ LinksExact staleOrderPool ∧ ¬ AggExact staleOrderPool ∧
    (txsToCommit staleOrderPool 100000 100000).out.map (·.id) = [1, 5, 3, 2, 4] := by decide

/-- `get_transaction_weight`: the double arithmetic is pinned on two values (also compared with the
    real function on random inputs by the harness) -/
example : weight 100 1000000 = 170 ∧ weight 100 70000000000 = 11939998 := by decide


/-! ## `TemplateSize` bookkeeping of the assembler's update paths -/

open CkbVerif.Template in
/-- run a sequence of update paths -/
def runOps (s : TSt) (ops : List Op) : TSt := ops.foldl Template.step s

open CkbVerif.Template in
/-- After ANY sequence of `update_blank / update_full / update_uncles / update_proposals /
    update_transactions`, the `TemplateSize` bookkeeping equals the real size of the described block
    (header + cellbase + extension + uncles + proposals + transactions) and that size is ≤
    `max_block_bytes` — provided every transaction selection respects the limit it was given
    (`selected_within_limits`, i.e. the pool aggregates are not stale) and a blank template fits. -/
theorem template_size_le_max (s : TSt) (ops : List Op) (h : Template.Inv s)
    (hsel : ∀ op ∈ ops, op.selOk) (hblank : ∀ op ∈ ops, op.blankOk s.max s.U) :
    (runOps s ops).sTotal = (runOps s ops).actual ∧ (runOps s ops).actual ≤ s.max := by
  suffices hs : Template.Inv (runOps s ops) ∧ (runOps s ops).max = s.max from
    ⟨hs.1.total, hs.2 ▸ hs.1.le⟩
  unfold runOps
  induction ops generalizing s with
  | nil => exact ⟨h, rfl⟩
  | cons op ops ih =>
    simp only [List.foldl_cons]
    have hm := Template.step_max s op
    have h' := h.step op (hsel op List.mem_cons_self) (hblank op List.mem_cons_self)
    have := ih (Template.step s op) h'
      (fun o ho => hsel o (List.mem_cons_of_mem _ ho))
      (fun o ho => by rw [hm.1, hm.2]; exact hblank o (List.mem_cons_of_mem _ ho))
    exact ⟨this.1, this.2.trans hm.1⟩

open CkbVerif.Template in
/-- a blank template of 600 bytes, limit 1000: a full update with 2 proposals and a well-behaved
    selector stays within the limit (non-vacuity) … -/
example : (runOps ⟨1000, 228, 600, 0, 0, 0, 0, 0, 0, 600⟩ [.full 2 (fun l => l), .uncles 1 2, .proposals 3]).actual = 1000 := by
  decide

open CkbVerif.Template in
/-- … and with a selector that overshoots by 100 bytes (F8: stale `ancestors_size`) `update_full`
    installs a 1100-byte template: nothing re-checks the total -/
theorem template_oversize_when_selection_overshoots :
    (runOps ⟨1000, 228, 600, 0, 0, 0, 0, 0, 0, 600⟩ [.full 2 (fun l => l + 100)]).actual = 1100 := by
  decide

end CkbVerif.C13
