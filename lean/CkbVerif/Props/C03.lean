import CkbVerif.Lemmas.Rules
import CkbVerif.Lemmas.RulesChain
import CkbVerif.Lemmas.RulesIndex
import CkbVerif.Lemmas.RulesBody

/-!
# C03 — a block joins the main chain iff it meets every consensus rule in its context

Model: `Model/Rules.lean` (the three verification stages in the code's order, the uncle loop, the
two-phase-commit walk of `Model/Window.lean`, and `submit`: header check → non-contextual check →
store → heavier-than-tip test → all-or-nothing verification of the branch).  The declarative side
is `Lemmas/Rules.lean`: one list of `(error class, rule holds)` per stage, in the code's order.

What is proved here, for all blocks, contexts and configurations (no bounds):

* `accept_iff_rules`, `accept_error_is_first_failing` — the staged checker accepts iff every rule of
  the list holds, and otherwise reports exactly the first rule of the list that fails.
* `header_accept_facts`, `timestamp_edges`, `median_is_a_past_timestamp` — what an accepted header
  satisfies; the timestamp boundary (`ts = median` refused, `median + 1` accepted, `now + future`
  accepted, one more refused).
* `commit_ok_iff_in_window` — the two-phase-commit walk accepts iff every committed id was proposed
  by a main-chain block (or an uncle of it) at a distance `d` with `w_close ≤ d ≤ w_far`, the
  genesis block excluded — for all heights (the saturating subtractions are covered).
* `uncles_accept_facts` — an accepted uncle list: count ≤ max, and every uncle has the block's
  target and epoch, a smaller number, a parent that is on the chain / an embedded uncle / an uncle
  listed before it, is not on the chain, not embedded before, not listed twice, and its proposals
  are within the limit, hashed correctly and free of duplicates.
* `failed_attempt_is_noop`, `side_block_keeps_chain`, `attached_needs_every_stage`,
  `violating_branch_is_refused` — the pipeline: a refused block changes neither the stored blocks,
  nor the tip, nor the verified set; a lighter block is only stored; a block becomes the tip only
  if it passed the header and non-contextual stages and it and every unverified block of its
  branch passed the contextual stage in the context of their own parent chains; an attempt whose
  branch contains a block failing its contextual check is refused whatever is built on it.
* `redelivery_same_body_is_noop` — an attached block delivered again (what a miner or peer can do)
  changes nothing; `marked_invalid_inprocess_witness` — in-process only: a second, failing body
  under an attached hash marks it invalid (observed on the real code, out of the quantifier);
  `redelivery_of_attached_is_noop_hardened` — a hardening variant that is not in /repo.
* `main_chain_blocks_passed_all_stages_partial` — by induction over arbitrary submission histories:
  every main-chain block passed the header, non-contextual and contextual stages in the context of
  its own ancestors (for histories without two bodies under one hash).
* `context_depends_only_on_main_chain`, `verdict_is_function_of_block_and_main_chain` — the store
  indexes the contextual verifier reads (`COLUMN_INDEX` both ways, `COLUMN_UNCLES`,
  `COLUMN_TRANSACTION_INFO`, the epoch-number rows), maintained by `attach_block` / `detach_block`
  through any history of extensions, reorgs and switch-backs, equal the indexes of a store that
  attached the final main chain from the genesis block and never saw another branch; hence two
  histories that end in the same main chain give every block the same verdict.
  `accepted_uncles_write_fresh_keys` — the freshness the theorem needs for the uncle column is what
  the double-inclusion rule enforces. `stale_uncle_index_breaks_context_witness` — the seeded variant
  (detach leaves the uncle rows) breaks it: a valid block of the new branch is refused with
  `DoubleInclusion` and an uncle descending from a stale row is accepted.
  `index_context_is_ancestor_context_partial`, `main_chain_uncles_valid_in_index_context_partial` —
  the index context and the ancestor context of `Model/Rules.lean` agree on `get_block_number` and
  `get_uncle_header`, so the uncle verdict of the two is the same.
-/
namespace CkbVerif.C03
open CkbVerif.Rules CkbVerif.Window

/-! ## the staged checker = the conjunction, first failing rule reported -/

/-- The three stages accept a block iff every rule of the declarative list holds. -/
theorem accept_iff_rules (cfg : Cfg) (hcx : HeaderCx) (cx : Cx) (b : Blk) :
    accept cfg hcx cx b = none ↔ ∀ r ∈ allRules cfg hcx cx b, r.2 = true := by
  rw [accept_eq, firstFail_none_iff]

/-- The reported error class is the class of the first rule (in the code's order) that fails:
every rule before it holds. -/
theorem accept_error_is_first_failing (cfg : Cfg) (hcx : HeaderCx) (cx : Cx) (b : Blk) (e : Err) :
    accept cfg hcx cx b = some e ↔
      ∃ pre post, allRules cfg hcx cx b = pre ++ (e, false) :: post ∧ ∀ r ∈ pre, r.2 = true := by
  rw [accept_eq, firstFail_some_iff]

/-- stage-wise versions (the chain service runs the stages at different times) -/
theorem header_iff_rules (cfg : Cfg) (hcx : HeaderCx) (b : Blk) :
    headerCheck cfg hcx b = none ↔ ∀ r ∈ headerRules cfg hcx b, r.2 = true := by
  rw [headerCheck_eq, firstFail_none_iff]

theorem nonContextual_iff_rules (cfg : Cfg) (b : Blk) :
    nonContextualCheck cfg b = none ↔ ∀ r ∈ nonContextualRules cfg b, r.2 = true := by
  rw [nonContextualCheck_eq, firstFail_none_iff]

theorem contextual_iff_rules (cfg : Cfg) (cx : Cx) (b : Blk) :
    contextualCheck cfg cx b = none ↔ ∀ r ∈ contextualRules cfg cx b, r.2 = true := by
  rw [contextualCheck_eq, firstFail_none_iff]

/-- a concrete non-trivial block and context that all three stages accept -/
def exCx : Cx := { parentNumber := 4, mainNum := fun h => if h < 5 then some h else none,
                   uncleNum := fun _ => none, chain := [[], [], [7], [], []] }
def exHcx : HeaderCx := { parent := some (4, ⟨0, 4, 10⟩), pastTs := [50, 40, 30, 20, 10], now := 100 }
def exBlk : Blk :=
  { id := 5, parent := 4, number := 5, epoch := ⟨0, 5, 10⟩, expEpoch := ⟨0, 5, 10⟩, ts := 31,
    cbSince := 5, cbOutputs := 0, cbOutputsData := 0, committed := [7], txIds := [1, 2],
    uncles := [{ id := 9, parent := 3, number := 4, epochNumber := 0, target := 0 }] }

example : accept {} exHcx exCx exBlk = none := by decide
example : accept {} exHcx exCx { exBlk with ts := 30 } = some .timeTooOld := by decide
example : accept {} exHcx exCx { exBlk with committed := [8] } = some .commitInvalid := by decide

/-! ## header facts and the timestamp boundary -/

/-- What `HeaderVerifier` guarantees about an accepted header. -/
theorem header_accept_facts {cfg : Cfg} {hcx : HeaderCx} {b : Blk} (h : headerCheck cfg hcx b = none) :
    b.powOk = true ∧ ∃ pn pe, hcx.parent = some (pn, pe) ∧ b.number = pn + 1 ∧ b.epoch.wellFormed = true ∧
      (pe.isGenesis = true ∨ b.epoch.isSuccessorOf pe = true) ∧
      median hcx.pastTs < b.ts ∧ b.ts ≤ hcx.now + cfg.future := by
  unfold headerCheck at h
  cases hp : hcx.parent with
  | none => simp [hp] at h; grind
  | some p =>
    obtain ⟨pn, pe⟩ := p
    simp only [hp] at h
    refine ⟨by grind, pn, pe, rfl, by grind, by grind, by grind, by grind, by grind⟩

/-- The timestamp boundary, for a header whose other header rules hold: accepted iff
`median < ts ≤ now + ALLOWED_FUTURE`; `ts = median` is "too old", `ts = now + future + 1` "too new". -/
theorem timestamp_edges {cfg : Cfg} {hcx : HeaderCx} {b : Blk} {pn : Nat} {pe : Epoch}
    (hpow : b.powOk = true) (hp : hcx.parent = some (pn, pe)) (hn : b.number = pn + 1)
    (hw : b.epoch.wellFormed = true) (hs : pe.isGenesis = true ∨ b.epoch.isSuccessorOf pe = true) :
    (headerCheck cfg hcx b = none ↔ median hcx.pastTs < b.ts ∧ b.ts ≤ hcx.now + cfg.future) ∧
    (headerCheck cfg hcx b = some .timeTooOld ↔ b.ts ≤ median hcx.pastTs) ∧
    (headerCheck cfg hcx b = some .timeTooNew ↔ median hcx.pastTs < b.ts ∧ hcx.now + cfg.future < b.ts) := by
  unfold headerCheck
  simp only [hp]
  refine ⟨?_, ?_, ?_⟩ <;> grind

/-- The median the header is compared with is the timestamp of one of the (at most
`median_time_block_count`) blocks walked back from the parent. -/
theorem median_is_a_past_timestamp {ts : List Nat} (h : ts ≠ []) : median ts ∈ ts :=
  median_mem h

example : median [50, 40, 30, 20, 10] = 30 ∧ median [40, 10, 30, 20] = 30 ∧ median [7] = 7 := by decide

/-! ## the propose/commit window -/

/-- `TwoPhaseCommitVerifier`: for a non-genesis block whose window start is stored, the commit
check passes iff every committed id was proposed at a distance inside the window:
some main-chain block `n ≥ 1` (own proposals or an uncle's) with
`n + w_close ≤ number ≤ n + w_far` lists it. Holds for every height, including heights below the
window length where the code's subtractions saturate. -/
theorem commit_ok_iff_in_window (cfg : Cfg) (cx : Cx) (b : Blk) (hn : b.number ≠ 0)
    (hstored : b.number - cfg.win.close < cx.chain.length) :
    commitCheck cfg cx b = none ↔
      ∀ x ∈ b.committed, ∃ n, 1 ≤ n ∧ n + cfg.win.close ≤ b.number ∧ b.number ≤ n + cfg.win.far ∧
        x ∈ idsAt cx.chain n := by
  have hc : commitCheck cfg cx b = none ↔ commitOk cfg.win cx.chain b.number b.committed = true := by
    unfold commitCheck; grind
  rw [hc]
  unfold commitOk verifierIds
  simp only [List.all_eq_true, List.contains_iff_mem, mem_verifierWalk]
  constructor
  · intro h x hx
    obtain ⟨n, h1, h2, h3, h4⟩ := h x hx
    exact ⟨n, h1, by omega, by omega, h4⟩
  · intro h x hx
    obtain ⟨n, h1, h2, h3, h4⟩ := h x hx
    exact ⟨n, h1, by omega, by omega, h4⟩

/-- edges with the default window (2, 10) at height 12: proposals at heights 2 … 10 count, 1 and 11 do not -/
example :
    let chain : List Ids := [[], [1], [2], [], [], [], [], [], [], [], [10], [11]]
    (commitOk ⟨2, 10⟩ chain 12 [2] = true ∧ commitOk ⟨2, 10⟩ chain 12 [10] = true ∧
     commitOk ⟨2, 10⟩ chain 12 [1] = false ∧ commitOk ⟨2, 10⟩ chain 12 [11] = false) := by decide

/-- the genesis block's ids never count, whatever the window -/
example : commitOk ⟨1, 5⟩ [[9], []] 2 [9] = false := by decide

/-! ## uncles -/

/-- What an accepted uncle list satisfies (`UnclesVerifier`), for every uncle in its position. -/
theorem uncles_accept_facts {cfg : Cfg} {cx : Cx} {b : Blk} (h : unclesCheck cfg cx b = none) :
    b.uncles.length ≤ cfg.maxUncles ∧
    ∀ pre u post, b.uncles = pre ++ u :: post →
      u.target = b.expTarget ∧ u.epochNumber = b.expEpoch.number ∧ u.number < b.number ∧
      (cx.descendant u = true ∨ ∃ v ∈ pre, v.id = u.parent ∧ v.number + 1 = u.number) ∧
      (∀ v ∈ pre, v.id ≠ u.id) ∧
      cx.mainNum u.id = none ∧ cx.uncleNum u.id = none ∧
      u.proposals.length ≤ cfg.maxProposals ∧ u.proposalsHashOk = true ∧ hasDup u.proposals = false ∧
      u.powOk = true := by
  unfold unclesCheck at h
  by_cases h0 : b.uncles.length = 0
  · refine ⟨by omega, ?_⟩
    intro pre u post hs
    have : b.uncles = [] := List.eq_nil_of_length_eq_zero h0
    rw [this] at hs; simp at hs
  · have hlen : b.uncles.length ≤ cfg.maxUncles := by grind
    have hloop : unclesLoop cfg cx b [] b.uncles = none := by grind
    refine ⟨hlen, ?_⟩
    intro pre u post hs
    have hu := (unclesLoop_none_iff cfg cx b [] b.uncles).mp hloop pre u post hs
    simp only [List.append_nil] at hu
    unfold uncleCheck at hu
    have hemb : embeddedDescendant ((pre.map fun v => (v.id, v.number)).reverse) u = true →
        ∃ v ∈ pre, v.id = u.parent ∧ v.number + 1 = u.number := by
      intro he
      unfold embeddedDescendant at he
      split at he
      · rename_i e hf
        have hm := List.mem_of_find?_eq_some hf
        have hpred := List.find?_some hf
        simp only [List.mem_reverse, List.mem_map] at hm
        obtain ⟨v, hv, rfl⟩ := hm
        exact ⟨v, hv, by simpa using hpred, by simpa using he⟩
      · cases he
    have hdupfree : (((pre.map fun v => (v.id, v.number)).reverse).any fun e => e.1 == u.id) = false →
        ∀ v ∈ pre, v.id ≠ u.id := by
      intro hany v hv hveq
      have : (((pre.map fun v => (v.id, v.number)).reverse).any fun e => e.1 == u.id) = true := by
        simp only [List.any_eq_true, List.mem_reverse, List.mem_map]
        exact ⟨(v.id, v.number), ⟨v, hv, rfl⟩, by simp [hveq]⟩
      rw [this] at hany; cases hany
    have hdi : cx.doubleInclusion u.id = false → cx.mainNum u.id = none ∧ cx.uncleNum u.id = none := by
      unfold Cx.doubleInclusion
      cases cx.mainNum u.id <;> cases cx.uncleNum u.id <;> simp
    refine ⟨by grind, by grind, by grind, ?_, ?_, ?_, ?_, by grind, by grind, by grind, by grind⟩
    · have : (embeddedDescendant ((pre.map fun v => (v.id, v.number)).reverse) u || cx.descendant u) = true := by grind
      rcases Bool.or_eq_true_iff.mp this with he | hd
      · exact Or.inr (hemb he)
      · exact Or.inl hd
    · exact hdupfree (by grind)
    · exact (hdi (by grind)).1
    · exact (hdi (by grind)).2

/-- an uncle listed before its parent uncle is refused, after it accepted (embedded descent) -/
example :
    let cx : Cx := { parentNumber := 5, mainNum := fun h => if h < 6 then some h else none, uncleNum := fun _ => none, chain := [] }
    let u1 : Uncle := { id := 20, parent := 3, number := 4, epochNumber := 0, target := 0 }
    let u2 : Uncle := { id := 21, parent := 20, number := 5, epochNumber := 0, target := 0 }
    (unclesCheck {} cx { number := 6, uncles := [u1, u2] } = none ∧
     unclesCheck {} cx { number := 6, uncles := [u2, u1] } = some .uncleDescendant ∧
     unclesCheck {} cx { number := 6, uncles := [u1, u1] } = some .uncleDuplicate ∧
     unclesCheck {} cx { number := 6, uncles := [{ u1 with id := 4, parent := 3 }] } = some .uncleDoubleInclusion) := by decide

/-! ## the pipeline -/

/-- A refused block changes nothing but the in-memory invalid marks: stored blocks, tip and the
verified set are those of before (`chain/src/verify.rs`: the DB transaction is dropped, the
submitted block deleted). -/
theorem failed_attempt_is_noop (cfg : Cfg) (s : St) (now : Nat) (b : Blk) (e : Err)
    (h : (submit cfg s now b).2 = .rejected e) :
    (submit cfg s now b).1.stored = s.stored ∧ (submit cfg s now b).1.tip = s.tip ∧
    (submit cfg s now b).1.verified = s.verified := by
  unfold submit at h ⊢
  grind

/-- A block that is not heavier than the tip is stored and nothing else happens (it is not verified). -/
theorem side_block_keeps_chain (cfg : Cfg) (s : St) (now : Nat) (b : Blk)
    (h : (submit cfg s now b).2 = .sideStored) :
    (submit cfg s now b).1.tip = s.tip ∧ (submit cfg s now b).1.verified = s.verified ∧
    (submit cfg s now b).1.invalid = s.invalid := by
  unfold submit at h ⊢
  grind

/-- A block becomes the tip only if it passed the header stage and the non-contextual stage, its
parent is stored and not marked invalid, it is heavier than the old tip, and it *and every
unverified block of its branch* passed the contextual stage, each in the context of its own parent
chain. -/
theorem attached_needs_every_stage (cfg : Cfg) (s : St) (now : Nat) (b : Blk)
    (h : (submit cfg s now b).2 = .attached) :
    headerCheck cfg (headerCxOf cfg s.stored now b) b = none ∧ nonContextualCheck cfg b = none ∧
    s.invalid.contains b.parent = false ∧
    ∃ p t, findBlk s.stored b.parent = some p ∧ findBlk s.stored s.tip = some t ∧
      totalWork s.stored t < totalWork s.stored p + b.work ∧
      verifyAll cfg (if (findBlk s.stored b.id).isSome then s.stored else s.stored ++ [b])
        (dirtyBranch s p ++ [b]) = none ∧
      (submit cfg s now b).1.tip = b.id := by
  unfold submit at h ⊢
  grind

/-- If some unverified block of the branch fails its contextual check, the attempt is refused —
whatever valid blocks are built on top of it, and as often as it is tried (the stored, unverified
violating block stays unverified, so every later attempt meets it again). -/
theorem violating_branch_is_refused (cfg : Cfg) (st : List Blk) (pre post : List Blk) (x p : Blk) (e : Err)
    (hpre : verifyAll cfg st pre = none) (hp : findBlk st x.parent = some p)
    (hx : contextualCheck cfg (cxOf st p) x = some e) :
    verifyAll cfg st (pre ++ x :: post) = some e := by
  induction pre with
  | nil => simp [verifyAll, hp, hx]
  | cons y ys ih =>
    simp only [verifyAll, List.cons_append] at hpre ⊢
    cases hy : findBlk st y.parent with
    | none => simp [hy] at hpre
    | some q =>
      simp only [hy] at hpre ⊢
      cases hc : contextualCheck cfg (cxOf st q) y with
      | some e' => simp [hc] at hpre
      | none =>
        simp only [hc] at hpre ⊢
        exact ih hpre

/-! ## a concrete history: side branch with a violating block; finding F14 in the model -/

def g0 : Blk := { id := 0, number := 0, ts := 100, nCellbase := 0 }
def mk (id parent number ts : Nat) : Blk :=
  { id := id, parent := parent, number := number, ts := ts, cbSince := number, cbOutputs := 0, cbOutputsData := 0,
    epoch := ⟨0, number, 100⟩, expEpoch := ⟨0, number, 100⟩ }

def cfg0 : Cfg := { medianCount := 3 }
def s0 : St := St.init g0
def s1 : St := (submit cfg0 s0 200 (mk 1 0 1 101)).1
def s2 : St := (submit cfg0 s1 200 (mk 2 1 2 102)).1
/-- a side block at height 2 with a wrong DAO field: lighter, so only stored -/
def s3 : St := (submit cfg0 s2 200 { mk 3 1 2 103 with daoEq := false }).1

example : (submit cfg0 s2 200 { mk 3 1 2 103 with daoEq := false }).2 = .sideStored := by decide
/-- its valid child would be the heaviest: refused with the side block's error, chain unchanged -/
example : (submit cfg0 s3 200 (mk 4 3 3 104)).2 = .rejected .invalidDao ∧
    (submit cfg0 s3 200 (mk 4 3 3 104)).1.tip = 2 := by decide
/-- the honest branch still grows -/
example : (submit cfg0 s3 200 (mk 5 2 3 104)).2 = .attached := by decide

/-- **What a miner or peer can do — deliver an attached block again (same hash, hence same
body)** — changes nothing: the answer is `Ok(false)` (or the header stage's refusal when the clock
makes the header too new) and the state is the same. -/
theorem redelivery_same_body_is_noop (cfg : Cfg) (s : St) (now : Nat) (b : Blk) (hv : b.id ∈ s.verified)
    (hbody : nonContextualCheck cfg b = none) (hpar : b.parent ∉ s.invalid) :
    (submit cfg s now b).1 = s ∧
    ((submit cfg s now b).2 = .known ∨ ∃ e, headerCheck cfg (headerCxOf cfg s.stored now b) b = some e ∧
      (submit cfg s now b).2 = .rejected e) := by
  unfold submit
  cases hH : headerCheck cfg (headerCxOf cfg s.stored now b) b with
  | some e => exact ⟨rfl, Or.inr ⟨e, rfl, rfl⟩⟩
  | none => cases hg : cfg.redeliveryGuard <;> simp [hv, hbody, hpar]

/-- Hardening variant (NOT in /repo, `redeliveryGuard := true`): an attached hash delivered again
with ANY accompanying body changes nothing. -/
theorem redelivery_of_attached_is_noop_hardened (cfg : Cfg) (hg : cfg.redeliveryGuard = true) (s : St) (now : Nat)
    (b : Blk) (hv : b.id ∈ s.verified) :
    (submit cfg s now b).1 = s ∧
    ((submit cfg s now b).2 = .known ∨ ∃ e, headerCheck cfg (headerCxOf cfg s.stored now b) b = some e ∧
      (submit cfg s now b).2 = .rejected e) := by
  unfold submit
  cases hH : headerCheck cfg (headerCxOf cfg s.stored now b) b with
  | some e => exact ⟨rfl, Or.inr ⟨e, rfl, rfl⟩⟩
  | none =>
    simp [hg, hv]

/-- the attached tip delivered again with its own body: known, nothing changes, the chain grows -/
example :
    (submit cfg0 s2 200 (mk 2 1 2 102)).2 = .known ∧ (submit cfg0 s2 200 (mk 2 1 2 102)).1.invalid = [] ∧
    (submit cfg0 (submit cfg0 s2 200 (mk 2 1 2 102)).1 200 (mk 5 2 3 104)).2 = .attached := by decide

/-- **In-process only** (observed on the real chain service, out of the property's quantifier: no
RPC / P2P entry point can produce two bodies under one header hash): the code as it is runs the
non-contextual stage on whatever body accompanies an attached hash; a failing body marks that hash
`BLOCK_INVALID`, and the next fully valid, heaviest block is refused as the child of an invalid
parent. The model follows the code here. -/
theorem marked_invalid_inprocess_witness :
    let bad : Blk := { mk 2 1 2 102 with nCellbase := 0 }
    let sBad := (submit cfg0 s2 200 bad).1
    (submit cfg0 s2 200 bad).2 = .rejected .cbQuantity ∧ sBad.tip = 2 ∧ sBad.verified.contains 2 = true ∧
    (submit cfg0 sBad 200 (mk 5 2 3 104)).2 = .rejected .parentInvalid ∧
    (submit cfg0 s2 200 (mk 5 2 3 104)).2 = .attached := by decide

/-! ## the multi-step statement -/

/-- **Every main-chain block passed all three stages in the context of its own ancestor chain**,
after any history of submissions (valid, invalid, side branches, failed attempts, re-deliveries)
starting from the genesis block — for histories in which no hash is delivered with two different
bodies (`OneBody`).

`_partial`: the full statement drops `OneBody`. It is false for the code as it is: a stored, not
yet verified block re-delivered under the same header with other uncles / extension has its body
rows overwritten (`insert_block`), so what is later verified is the second body — harmless for this
statement's conclusion (the verified body is the stored one) but outside the model, whose stored
blocks are immutable. No RPC / P2P entry point can deliver two bodies under one header hash
(`into_view()` re-derives the header's roots from the body), so `OneBody` holds for every history a
miner or peer can produce, given collision-free hashing. -/
theorem main_chain_blocks_passed_all_stages_partial (cfg : Cfg) (g : Blk) (hg0 : g.number = 0)
    (ops : List (Nat × Blk)) (hob : OneBody (g :: ops.map (·.2))) :
    let s := run cfg (St.init g) ops
    ∀ x ∈ mainChain s, x.number ≠ 0 →
      ∃ p, findBlk s.stored x.parent = some p ∧ p ∈ mainChain s ∧
        (∃ now, headerCheck cfg (headerCxOf cfg s.stored now x) x = none) ∧
        nonContextualCheck cfg x = none ∧
        contextualCheck cfg (cxOf s.stored p) x = none := by
  intro s x hx h0
  have hi : Inv cfg g (g :: ops.map (·.2)) s :=
    inv_run hob ops _ (inv_init cfg g _ (by simp) hg0) (by
      intro o ho
      exact List.mem_cons_of_mem _ (List.mem_map_of_mem ho))
  unfold mainChain at hx ⊢
  cases ht : findBlk s.stored s.tip with
  | none => simp [ht] at hx
  | some t =>
    simp only [ht] at hx ⊢
    have htid : t.id = s.tip := (findBlk_some ht).2
    have htf : findBlk s.stored t.id = some t := by rw [htid]; exact ht
    have hxs := ancestors_mem _ _ _ hx
    have hxv := ancestors_verified hi (t.number + 1) t.id (htid ▸ hi.tipVer) x hx
    obtain ⟨p, hp, _, hc⟩ := hi.good x hxs hxv h0
    obtain ⟨hh, hn⟩ := hi.early x hxs h0
    obtain ⟨q, hq, hqm⟩ := ancestors_parent_mem hi.closed (t.number + 1) t.id t htf (by omega) x hx h0
    rw [hp] at hq
    exact ⟨p, hp, (Option.some.inj hq) ▸ hqm, hh, hn, hc⟩

/-- non-vacuity: the history of `s3` plus the refused attempt and the honest continuation -/
example :
    let ops : List (Nat × Blk) := [(200, mk 1 0 1 101), (200, mk 2 1 2 102), (200, { mk 3 1 2 103 with daoEq := false }),
      (200, mk 4 3 3 104), (200, mk 5 2 3 104)]
    (mainChain (run cfg0 (St.init g0) ops)).map (·.id) = [5, 2, 1, 0] := by decide

/-! ## context-dependence across reorgs: the indexes maintained by attach / detach -/

/-- **After every history of new-best-block events (plain extensions, reorgs A → B, switch-backs
A → B → A′, any depth) the indexes the contextual verifier reads — `get_block_hash`,
`get_block_number` / `is_main_chain`, `is_uncle` / `get_uncle_header`, `get_transaction_info`, the
epoch-number rows — are exactly those of a store that attached the final main chain from the genesis
block and never saw any other branch.** `StepsOk`: every intermediate main chain writes fresh keys
when attached in order (hashes, numbers and transaction hashes do not repeat along one chain, no
uncle is embedded twice — see `accepted_uncles_write_fresh_keys`). -/
theorem context_depends_only_on_main_chain (g : Blk) (steps : List (Nat × List Blk))
    (hok : StepsOk g ⟨[], idxInit g⟩ steps) :
    (runReorgs g steps).idx = idxOfChain g (runReorgs g steps).chain :=
  (runReorgs_inv g steps ⟨[], idxInit g⟩ rfl trivial hok).1

/-- Hence the verdict of any block is a function of the block, the stored bodies and the main chain:
two histories that end in the same main chain — one of them may be the reorg-free one — give the
same contextual verdict, whatever branches were attached and abandoned on the way. -/
theorem verdict_is_function_of_block_and_main_chain (cfg : Cfg) (g : Blk) (steps₁ steps₂ : List (Nat × List Blk))
    (h₁ : StepsOk g ⟨[], idxInit g⟩ steps₁) (h₂ : StepsOk g ⟨[], idxInit g⟩ steps₂)
    (hsame : (runReorgs g steps₁).chain = (runReorgs g steps₂).chain) (st : List Blk) (p b : Blk) :
    contextualCheck cfg (cxOfIdx st (runReorgs g steps₁).idx p) b =
      contextualCheck cfg (cxOfIdx st (runReorgs g steps₂).idx p) b := by
  rw [context_depends_only_on_main_chain g steps₁ h₁, context_depends_only_on_main_chain g steps₂ h₂, hsame]

/-- The uncle part of `StepsOk` is enforced by the verifier itself: a block whose uncle rules pass
in the index context embeds only uncles that have no row in `COLUMN_UNCLES` (and are not main-chain
blocks), so attaching it writes fresh uncle keys. -/
theorem accepted_uncles_write_fresh_keys (cfg : Cfg) (st : List Blk) (x : Idx) (p b : Blk)
    (h : unclesCheck cfg (cxOfIdx st x p) b = none) :
    ∀ r ∈ b.rowsUncle, x.uncle r.1 = none ∧ x.numOf r.1 = none := by
  intro r hr
  obtain ⟨u, hu, rfl⟩ := List.mem_map.mp hr
  obtain ⟨pre, post, hsplit⟩ := List.append_of_mem hu
  have hf := (uncles_accept_facts h).2 pre u post hsplit
  exact ⟨hf.2.2.2.2.2.2.1, hf.2.2.2.2.2.1⟩

/-! the history of the seeded change `r2m2`: `g ← A1 ← A2{U}` is the main chain, `g ← B1 ← B2 ← B3`
becomes the heaviest; `B4{U}` is valid on B (nobody on B embedded `U`), `B4′{V}` with `V` a child of
`U` is not (`U` is unknown on B) -/
def rU : Uncle := { id := 9, parent := 0, number := 1, epochNumber := 0, target := 0 }
def rV : Uncle := { id := 10, parent := 9, number := 2, epochNumber := 0, target := 0 }
def rA1 : Blk := mk 1 0 1 101
def rA2 : Blk := { mk 2 1 2 102 with uncles := [rU] }
def rB1 : Blk := mk 3 0 1 103
def rB2 : Blk := mk 4 3 2 104
def rB3 : Blk := mk 5 4 3 105
def rB4 : Blk := { mk 6 5 4 106 with uncles := [rU] }
def rB4' : Blk := { mk 7 5 4 107 with uncles := [rV] }
def rSteps : List (Nat × List Blk) := [(0, [rA1]), (1, [rA2]), (0, [rB1, rB2, rB3])]
def rStore : List Blk := [g0, rA1, rA2, rB1, rB2, rB3]

/-- non-vacuity of `context_depends_only_on_main_chain`: the reorg history above satisfies `StepsOk`,
ends on B, and the uncle row of the detached A2 is gone while B's rows are there -/
example : StepsOk g0 ⟨[], idxInit g0⟩ rSteps ∧ (runReorgs g0 rSteps).chain.map (·.id) = [3, 4, 5] ∧
    (runReorgs g0 rSteps).idx.uncle 9 = none ∧ (runReorgs g0 rSteps).idx.numOf 2 = none ∧
    (runReorgs g0 rSteps).idx.numOf 5 = some 3 ∧ (runReorgs g0 rSteps).idx.hashAt 2 = some 4 := by
  decide

/-- and a switch-back A → B → A′ after it: A2's uncle row is back -/
example :
    let steps := rSteps ++ [(0, [rA1, rA2, mk 11 2 3 111, mk 12 11 4 112])]
    StepsOk g0 ⟨[], idxInit g0⟩ steps ∧ (runReorgs g0 steps).chain.map (·.id) = [1, 2, 11, 12] ∧
    (runReorgs g0 steps).idx.uncle 9 = some 1 ∧ (runReorgs g0 steps).idx.numOf 5 = none := by
  decide

/-- **The seeded variant breaks it** (`detach_block` leaves the detached blocks' rows in
`COLUMN_UNCLES`): same history, same main chain, but the index still claims `U`; the valid `B4{U}` is
refused with `DoubleInclusion`, and `B4′{V}`, whose uncle descends from the stale row, passes the
descent rule — with the code as it is the verdicts are the opposite ones. -/
theorem stale_uncle_index_breaks_context_witness :
    let good := runReorgs g0 rSteps
    let bad := runReorgsWith detachIdxStaleUncles ⟨[], idxInit g0⟩ rSteps
    good.chain.map (·.id) = bad.chain.map (·.id) ∧
    good.idx.uncle 9 = none ∧ (idxOfChain g0 bad.chain).uncle 9 = none ∧ bad.idx.uncle 9 = some 1 ∧
    contextualCheck cfg0 (cxOfIdx rStore good.idx rB3) rB4 = none ∧
    contextualCheck cfg0 (cxOfIdx rStore bad.idx rB3) rB4 = some .uncleDoubleInclusion ∧
    contextualCheck cfg0 (cxOfIdx rStore good.idx rB3) rB4' = some .uncleDescendant ∧
    contextualCheck cfg0 (cxOfIdx rStore bad.idx rB3) rB4' = none := by decide

/-- **The index context is the ancestor context** of `Model/Rules.lean` as far as the uncle rules
read it: on the index of a store that attached the chain `anc` (newest first, genesis last) and
nothing else, `get_block_number` and `get_uncle_header` answer what `cxOf` computes from the
ancestors, so the uncle verdict is the same.

`_partial`: the proposal walk (`Cx.chain`, read through `get_block_hash`) is not covered by this
theorem — its agreement with the ancestor walk is tested by the correspondence only. -/
theorem index_context_is_ancestor_context_partial (cfg : Cfg) (st : List Blk) (p b : Blk)
    (hf : UncleIdsFunctional ((ancestors st (p.number + 1) p.id).flatMap (·.uncles))) :
    (cxOfIdx st (idxOfAnc (ancestors st (p.number + 1) p.id)) p).mainNum = (cxOf st p).mainNum ∧
    (cxOfIdx st (idxOfAnc (ancestors st (p.number + 1) p.id)) p).uncleNum = (cxOf st p).uncleNum ∧
    unclesCheck cfg (cxOfIdx st (idxOfAnc (ancestors st (p.number + 1) p.id)) p) b = unclesCheck cfg (cxOf st p) b := by
  have h1 : (cxOfIdx st (idxOfAnc (ancestors st (p.number + 1) p.id)) p).mainNum = (cxOf st p).mainNum := by
    funext h; simp only [cxOfIdx, cxOf]; exact idxOfAnc_numOf _ h
  have h2 : (cxOfIdx st (idxOfAnc (ancestors st (p.number + 1) p.id)) p).uncleNum = (cxOf st p).uncleNum := by
    funext h; simp only [cxOfIdx, cxOf]; exact idxOfAnc_uncle _ h hf
  exact ⟨h1, h2, unclesCheck_congr cfg _ _ b h1 h2⟩

example : (cxOfIdx rStore (idxOfAnc (ancestors rStore 4 5)) rB3).mainNum 4 = some 2 ∧
    (cxOf rStore rB3).mainNum 4 = some 2 ∧ (cxOf rStore rB3).uncleNum 9 = none ∧ (cxOf rStore rA2).uncleNum 9 = some 1 ∧
    (cxOfIdx rStore (idxOfAnc (ancestors rStore 3 2)) rA2).uncleNum 9 = some 1 := by decide

/-- **Every main-chain block passed the uncle rules in the context of the store indexes**, whatever
reorg history the store went through: after any submission history (`OneBody`) and for the index of
ANY reorg history that ends in the block's own ancestor chain (`context_depends_only_on_main_chain`
reduces them all to `idxOfChain`), the uncle verdict read from the index is "accepted".

`_partial`: strengthens `main_chain_blocks_passed_all_stages_partial` for the uncle rules only; the
two-phase-commit walk through `get_block_hash`, the cell set, the MMR and the epoch records are not
part of the index model (oracle inputs / other properties), and `OneBody` stays. -/
theorem main_chain_uncles_valid_in_index_context_partial (cfg : Cfg) (g : Blk) (hg0 : g.number = 0)
    (ops : List (Nat × Blk)) (hob : OneBody (g :: ops.map (·.2))) :
    let s := run cfg (St.init g) ops
    ∀ x ∈ mainChain s, x.number ≠ 0 →
      ∃ p, findBlk s.stored x.parent = some p ∧ p ∈ mainChain s ∧
        (UncleIdsFunctional ((ancestors s.stored (p.number + 1) p.id).flatMap (·.uncles)) →
          unclesCheck cfg (cxOfIdx s.stored (idxOfAnc (ancestors s.stored (p.number + 1) p.id)) p) x = none) := by
  intro s x hx h0
  obtain ⟨p, hp, hpm, _, _, hc⟩ := main_chain_blocks_passed_all_stages_partial cfg g hg0 ops hob x hx h0
  refine ⟨p, hp, hpm, fun hf => ?_⟩
  rw [(index_context_is_ancestor_context_partial cfg s.stored p x hf).2.2]
  have hcr := (contextual_iff_rules cfg (cxOf s.stored p) x).mp hc
  have : firstFail (unclesRules cfg (cxOf s.stored p) x) = none := by
    rw [firstFail_none_iff]
    intro r hr
    exact hcr r (by simp only [contextualRules, List.mem_append]; grind)
  rw [unclesCheck_eq]; exact this

/-! ## round 5: the block body inside the model (cellbase / duplicate / reward-probe / extension rules) -/

open CkbVerif.Gen.RulesBody in
/-- `ScriptHashType::try_from(byte)` succeeds exactly for `1` (`Type`) and the even bytes
(`Data = 0`, `Data1 = 2`, `Data2 = 4`, `DataN = N << 1`, `N ≤ 127`). -/
theorem hash_type_known_iff (v : Nat) : hashTypeKnown v = true ↔ v = 1 ∨ (v % 2 = 0 ∧ v ≤ 254) := by
  unfold hashTypeKnown
  simp only [HASH_TYPE_TYPE, HASH_TYPE_DATA, HASH_TYPE_DATA1, HASH_TYPE_DATA2, HASH_TYPE_DATA_N_SHIFT,
    HASH_TYPE_DATA_N_FIRST, HASH_TYPE_DATA_N_LAST, Bool.or_eq_true, Bool.and_eq_true, beq_iff_eq, decide_eq_true_iff, Nat.pow_one]
  omega

open CkbVerif.Gen.RulesBody in
/-- A hash-type byte passes the cellbase witness / cellbase output-lock test iff it is one of the four
enabled values; in particular `6` (`Data3`: known to `ScriptHashType`, not enabled) and `3` (unknown)
are refused. -/
theorem hash_type_enabled_iff (v : Nat) : hashTypeEnabled v = true ↔ v = 0 ∨ v = 1 ∨ v = 2 ∨ v = 4 := by
  unfold hashTypeEnabled hashTypeInEnabledSet
  rw [Bool.and_eq_true, hash_type_known_iff]
  simp only [ENABLED_HASH_TYPE_0, ENABLED_HASH_TYPE_1, ENABLED_HASH_TYPE_2, ENABLED_HASH_TYPE_3_LAST,
    Bool.or_eq_true, beq_iff_eq]
  omega

example : hashTypeEnabled 4 = true ∧ hashTypeEnabled 6 = false ∧ hashTypeKnown 6 = true ∧ hashTypeKnown 3 = false ∧
    hashTypeKnown 254 = true ∧ hashTypeKnown 255 = false := by decide

/-- **The cellbase features the rule model reads are derived from the transactions inside the
model**: `CellbaseVerifier` over the feature record built by `Blk.withTxs` is the structural check
that follows `block_verifier.rs` branch by branch (`is_cellbase` count, position, output / data
quantity, data emptiness, witness parse + hash type, type script, output lock hash types, the
whole-input comparison with `new_cellbase_input(number)`). -/
theorem cellbase_check_is_structural (b : Blk) (txs : List Tx) :
    cellbaseCheck (b.withTxs txs) = cellbaseCheckBody b.number txs :=
  cellbaseCheck_withTxs b txs

/-- **`CellbaseVerifier` accepts a non-genesis block iff** its first transaction is the only one
with the cellbase shape (one input, the null out-point, exactly one witness), has at most one
output and as many data fields as outputs, every data field empty, a well-formed `CellbaseWitness`
whose lock has an enabled hash type, no type script, enabled lock hash types on the outputs, and
`since = number` on its input. -/
theorem cellbase_accept_iff (n : Nat) (hn : n ≠ 0) (txs : List Tx) :
    cellbaseCheckBody n txs = none ↔
      ∃ cb rest, txs = cb :: rest ∧ cb.isCellbase = true ∧ (∀ t ∈ rest, t.isCellbase = false) ∧
        cb.outputs.length ≤ 1 ∧ cb.datas.length = cb.outputs.length ∧ (∀ d ∈ cb.datas, d = 0) ∧
        (∃ ht, cb.wit0 = .lock ht ∧ hashTypeEnabled ht = true) ∧
        (∀ o ∈ cb.outputs, o.hasType = false ∧ hashTypeEnabled o.lockHashType = true) ∧
        cb.inputs = [⟨true, n⟩] ∧ cb.nWitnesses = 1 := by
  unfold cellbaseCheckBody
  simp only [beq_iff_eq, hn, if_false]
  cases txs with
  | nil => simp
  | cons cb rest =>
    have hone := one_cellbase_first_iff cb rest
    have hwit : cb.cbWitnessOk = true ↔ ∃ ht, cb.wit0 = .lock ht ∧ hashTypeEnabled ht = true := by
      unfold Tx.cbWitnessOk
      cases cb.wit0 <;> simp
    have hdat : firstDataEmpty cb.datas = true → cb.datas.length ≤ 1 → ∀ d ∈ cb.datas, d = 0 := by
      intro h hl d hd
      cases hds : cb.datas with
      | nil => rw [hds] at hd; cases hd
      | cons x xs =>
        rw [hds] at h hl hd
        have : xs = [] := by
          cases xs with
          | nil => rfl
          | cons _ _ => simp at hl
        subst this
        simp [firstDataEmpty] at hd h; omega
    have hdat' : (∀ d ∈ cb.datas, d = 0) → firstDataEmpty cb.datas = true := by
      intro h
      cases hds : cb.datas with
      | nil => rfl
      | cons x xs => simp [firstDataEmpty, h x (by simp [hds])]
    constructor
    · intro h
      by_cases hq : (List.filter Tx.isCellbase (cb :: rest)).length = 1
      · have hq' : ((List.filter Tx.isCellbase (cb :: rest)).length != 1) = false := by simp [hq]
        simp only [hq', Bool.false_eq_true, if_false] at h
        by_cases hc : cb.isCellbase = true
        · simp only [hc, Bool.not_true, Bool.false_eq_true, if_false] at h
          obtain ⟨s, hin, hw1⟩ := (isCellbase_iff cb).mp hc
          have hrest := (hone.mp ⟨hq, hc⟩).2
          refine ⟨cb, rest, rfl, hc, hrest, ?_⟩
          have h1 : cb.outputs.length ≤ 1 ∧ cb.datas.length ≤ 1 ∧ cb.outputs.length = cb.datas.length := by grind
          have h2 : firstDataEmpty cb.datas = true := by grind
          have h3 : cb.cbWitnessOk = true := by grind
          have h4 : (cb.outputs.any (·.hasType)) = false := by grind
          have h5 : (cb.outputs.all fun o => hashTypeEnabled o.lockHashType) = true := by grind
          have h6 : cb.inputs.head? = some ⟨true, n⟩ := by grind
          refine ⟨h1.1, h1.2.2.symm, hdat h2 h1.2.1, hwit.mp h3, ?_, ?_, hw1⟩
          · intro o ho
            exact ⟨by simpa using (List.any_eq_false.mp h4) o ho, (List.all_eq_true.mp h5) o ho⟩
          · rw [hin] at h6 ⊢
            simp at h6; simp [h6]
        · simp [hc] at h
      · have hq' : ((List.filter Tx.isCellbase (cb :: rest)).length != 1) = true := by simpa using hq
        simp [hq'] at h
    · rintro ⟨cb', rest', heq, hc, hrest, ho, hd, hde, hw, hout, hin, _⟩
      obtain ⟨rfl, rfl⟩ := List.cons.inj heq
      have hq := (hone.mpr ⟨hc, hrest⟩).1
      have hq' : ((List.filter Tx.isCellbase (cb :: rest)).length != 1) = false := by simp [hq]
      have h4 : (cb.outputs.any (·.hasType)) = false := by
        apply List.any_eq_false.mpr; intro o ho'; simp [(hout o ho').1]
      have h5 : (cb.outputs.all fun o => hashTypeEnabled o.lockHashType) = true :=
        List.all_eq_true.mpr fun o ho' => (hout o ho').2
      have h2 := hdat' hde
      have h3 := hwit.mpr hw
      simp only [hq', Bool.false_eq_true, if_false, hc, Bool.not_true, h2, h3, h4, h5, hin, List.head?_cons]
      have : (decide (cb.outputs.length > 1) || decide (cb.datas.length > 1) || cb.outputs.length != cb.datas.length) = false := by
        simp only [Bool.or_eq_false_iff, decide_eq_false_iff_not, bne_eq_false_iff_eq]
        omega
      simp [this]

/-- a valid two-transaction body; the same body with a second cellbase-shaped transaction, a
two-witness "cellbase", a `Data3` witness lock, a `since` one off -/
example :
    let cb : Tx := { id := 1, inputs := [⟨true, 7⟩], outputs := [⟨false, 1⟩], datas := [0], nWitnesses := 1, wit0 := .lock 2 }
    let t : Tx := { id := 2, shortId := 9, inputs := [⟨false, 0⟩], outputs := [⟨false, 0⟩], datas := [0], nWitnesses := 1 }
    (cellbaseCheckBody 7 [cb, t] = none ∧
     cellbaseCheckBody 7 [cb, { t with inputs := [⟨true, 0⟩] }] = some .cbQuantity ∧
     cellbaseCheckBody 7 [{ cb with nWitnesses := 2 }, t] = some .cbQuantity ∧
     cellbaseCheckBody 7 [t, cb] = some .cbPosition ∧
     cellbaseCheckBody 7 [{ cb with wit0 := .lock 6 }, t] = some .cbWitness ∧
     cellbaseCheckBody 7 [{ cb with wit0 := .malformed }, t] = some .cbWitness ∧
     cellbaseCheckBody 7 [{ cb with outputs := [⟨false, 6⟩] }, t] = some .cbOutputLock ∧
     cellbaseCheckBody 7 [{ cb with outputs := [], datas := [0] }, t] = some .cbOutputQuantity ∧
     cellbaseCheckBody 7 [{ cb with inputs := [⟨true, 8⟩] }, t] = some .cbInput ∧
     (({ number := 7 } : Blk).withTxs [cb, t]).committed = [9]) := by decide

/-- `DuplicateVerifier`: the two `seen.insert` scans pass iff the transaction hashes, resp. the
proposal ids, are pairwise distinct. -/
theorem duplicate_rules_iff_nodup (cfg : Cfg) (b : Blk) (h : nonContextualCheck cfg b = none) :
    b.txIds.Nodup ∧ b.proposals.Nodup := by
  have hr := (nonContextual_iff_rules cfg b).mp h
  have h1 := hr (.txDuplicate, !hasDup b.txIds) (by simp [nonContextualRules])
  have h2 := hr (.proposalDuplicate, !hasDup b.proposals) (by simp [nonContextualRules])
  exact ⟨(hasDup_false_iff_nodup _).mp (by simpa using h1), (hasDup_false_iff_nodup _).mp (by simpa using h2)⟩

theorem has_dup_iff_not_nodup (l : List Nat) : hasDup l = true ↔ ¬ l.Nodup := by
  rw [← hasDup_false_iff_nodup]; cases hasDup l <;> simp

example : hasDup [3, 1, 3] = true ∧ hasDup [3, 1, 2] = false := by decide

/-- `RewardVerifier`'s probe cell (`CellOutput { capacity: total, lock: target_lock }`): the finalized
reward is "insufficient to create a cell" iff it is below the occupied capacity of the probe — the
8-byte capacity field plus the lock's `32 + 1 + args` bytes, in shannons; at exactly that amount
the reward must be paid. `none` (an overflow of the checked byte→shannon arithmetic) is an error. -/
theorem reward_lack_spec (total args occ : Nat) (h : probeOccupied args = some occ) :
    rewardLack total args = some (decide (total < occ)) := by
  unfold rewardLack; rw [h]; rfl

/-- **`BlockExtensionVerifier` accepts iff**: no extra field and rfc0044 not active, or exactly one
extra field that is a `Bytes` of 1 ..= 96 bytes and — when rfc0044 is active — at least 32 bytes
whose first 32 are the chain root of the parent chain; and in both cases the header's `extra_hash`
commits to the uncles and the extension. -/
theorem extension_accept_iff (cfg : Cfg) (b : Blk) :
    extensionCheck cfg b = none ↔
      ((b.extraFields = 0 ∧ cfg.mmrActive = false) ∨
       (b.extraFields = 1 ∧ ∃ len, b.extLen = some len ∧ 1 ≤ len ∧ len ≤ cfg.extMax ∧
          (cfg.mmrActive = true → cfg.extMinRoot ≤ len ∧ b.rootOk = true))) ∧ b.extraHashOk = true := by
  unfold extensionCheck
  rcases h : b.extraFields with _ | _ | n
  · simp only []; grind
  · simp only []
    cases hl : b.extLen with
    | none => simp
    | some len => simp only []; grind
  · simp

example : extensionCheck {} { extLen := some 96 } = none ∧ extensionCheck {} { extLen := some 97 } = some .extensionTooLong ∧
    extensionCheck {} { extLen := some 31 } = some .invalidExtension ∧ extensionCheck {} { extLen := some 32, rootOk := false } = some .invalidChainRoot ∧
    extensionCheck {} { extraFields := 0 } = some .noExtension ∧ extensionCheck { mmrActive := false } { extraFields := 0 } = none := by decide

/-! ## the multi-step statement over the histories of the property's quantifier -/

/-- what every external entry point (RPC `submit_block`, sync `SendBlock`, compact-block
reconstruction) guarantees about the `BlockView` it hands to the chain service: it was built by
`into_view()`, which derives `transactions_root`, `proposals_hash` and `extra_hash` from the body -/
def ViaIntoView (b : Blk) : Prop := b.txRootOk = true ∧ b.proposalsHashOk = true ∧ b.extraHashOk = true

instance (b : Blk) : Decidable (ViaIntoView b) := by unfold ViaIntoView; infer_instance

/-- collision-free hashing (the substrate assumption of C03): the header hash determines the
header, and roots derived from a body determine that body — so two delivered `BlockView`s with
derived roots and the same hash are the same block -/
def CollisionFree (bs : List Blk) : Prop :=
  ∀ b ∈ bs, ∀ b' ∈ bs, ViaIntoView b → ViaIntoView b' → b.id = b'.id → b = b'

/-- **Every main-chain block passed all three stages in the context of its own ancestor chain,
after ANY history of submissions a miner or peer can produce** (valid and invalid blocks, side
branches, failed attempts, reorgs, re-deliveries, in any order), from the genesis block — under
the substrate assumption only (collision-free hashing).

This is `main_chain_blocks_passed_all_stages_partial` with its `OneBody` hypothesis discharged:
`OneBody` follows from collision-freeness because every delivered `BlockView` has roots derived
from its body. The quantifier still excludes in-process callers that hand the chain service a
`BlockView` whose roots do not match its body (`build_unchecked`): for those the statement is false
for the code as it is (`marked_invalid_inprocess_witness`, corpus F13–F15). -/
theorem main_chain_blocks_passed_all_stages (cfg : Cfg) (g : Blk) (hg0 : g.number = 0) (hgv : ViaIntoView g)
    (ops : List (Nat × Blk)) (hview : ∀ o ∈ ops, ViaIntoView o.2) (hcf : CollisionFree (g :: ops.map (·.2))) :
    let s := run cfg (St.init g) ops
    ∀ x ∈ mainChain s, x.number ≠ 0 →
      ∃ p, findBlk s.stored x.parent = some p ∧ p ∈ mainChain s ∧
        (∃ now, headerCheck cfg (headerCxOf cfg s.stored now x) x = none) ∧
        nonContextualCheck cfg x = none ∧
        contextualCheck cfg (cxOf s.stored p) x = none := by
  have hall : ∀ b ∈ g :: ops.map (·.2), ViaIntoView b := by
    intro b hb
    rcases List.mem_cons.mp hb with rfl | hb
    · exact hgv
    · obtain ⟨o, ho, rfl⟩ := List.mem_map.mp hb
      exact hview o ho
  have hob : OneBody (g :: ops.map (·.2)) := fun b hb b' hb' hid => hcf b hb b' hb' (hall b hb) (hall b' hb') hid
  exact main_chain_blocks_passed_all_stages_partial cfg g hg0 ops hob

/-- non-vacuity: the history of `s3` (side block with a wrong DAO field, its refused child, the
honest continuation) consists of `into_view` blocks with distinct hashes -/
example :
    let ops : List (Nat × Blk) := [(200, mk 1 0 1 101), (200, mk 2 1 2 102), (200, { mk 3 1 2 103 with daoEq := false }),
      (200, mk 4 3 3 104), (200, mk 5 2 3 104), (200, mk 2 1 2 102)]
    ViaIntoView g0 ∧ (∀ o ∈ ops, ViaIntoView o.2) ∧
    ((g0 :: ops.map (·.2)).map (·.id) = [0, 1, 2, 3, 4, 5, 2]) ∧
    (mainChain (run cfg0 (St.init g0) ops)).map (·.id) = [5, 2, 1, 0] := by
  refine ⟨by decide, by decide, by decide, by decide⟩

/-! ## round 6: the activation epoch of the hardfork-conditional rules (rfc0044)

`Consensus::rfc0044_active(parent.epoch().number())` decides, per block, whether the chain-root
extension is required (`BlockExtensionVerifier`). The model no longer takes that verdict as a
configuration constant: `contextualCheck` derives it from the epoch number of the PARENT header
(`Cx.parentEpochNumber`, which `cxOf` reads from the stored parent) and the activation epoch of the
consensus (`Cfg.rfc0044Epoch`, selected by the consensus id from the regenerated constants). The
theorems below hold for EVERY activation epoch and every parent epoch — before, at and after the
boundary. -/

/-- `rfc0044_active(target)` iff `target` is at or past the activation epoch (`>=`) -/
theorem rfc0044_active_iff (cfg : Cfg) (t : Nat) : cfg.rfc0044Active t = true ↔ cfg.rfc0044Epoch ≤ t := by
  simp [Cfg.rfc0044Active]

/-- the activation boundary: the epoch just below the activation epoch is the last one without the
rule, the activation epoch itself is the first with it -/
theorem rfc0044_boundary (cfg : Cfg) (e : Nat) (h : cfg.rfc0044Epoch = e + 1) :
    cfg.rfc0044Active e = false ∧ cfg.rfc0044Active (e + 1) = true := by
  simp [Cfg.rfc0044Active, h]

/-- activation is permanent: once active, active for every later epoch -/
theorem rfc0044_active_mono (cfg : Cfg) {t t' : Nat} (h : t ≤ t') (ha : cfg.rfc0044Active t = true) :
    cfg.rfc0044Active t' = true := by
  simp only [Cfg.rfc0044Active, decide_eq_true_eq] at *; omega

/-- the rule list of `BlockExtensionVerifier` for a child of a block of epoch `pe`, with the
activation epoch explicit (no `mmr_active` flag) -/
def extensionRulesAt (cfg : Cfg) (pe : Nat) (b : Blk) : List (Err × Bool) :=
  match b.extraFields with
  | 0 => [ (.noExtension, decide (pe < cfg.rfc0044Epoch)), (.invalidExtraHash, b.extraHashOk) ]
  | 1 =>
    match b.extLen with
    | none => [ (.unknownFields, false) ]
    | some len =>
      [ (.emptyExtension, len != 0),
        (.extensionTooLong, decide (len ≤ cfg.extMax)),
        (.invalidExtension, decide (pe < cfg.rfc0044Epoch) || decide (cfg.extMinRoot ≤ len)),
        (.invalidChainRoot, decide (pe < cfg.rfc0044Epoch) || b.rootOk),
        (.invalidExtraHash, b.extraHashOk) ]
  | _ => [ (.unknownFields, false) ]

/-- **For every activation epoch and every parent epoch, `BlockExtensionVerifier` reports the first
failing rule of the explicit list** (and accepts iff all hold): before activation the `NoBlockExtension`,
`InvalidBlockExtension` and `InvalidChainRoot` rules are vacuous, from the activation epoch on they
bind; the count / empty / length / `extra_hash` rules bind at every epoch. -/
theorem extension_check_every_activation_epoch (cfg : Cfg) (pe : Nat) (b : Blk) :
    extensionCheck (cfg.forParentEpoch pe) b = firstFail (extensionRulesAt cfg pe b) := by
  rw [extensionCheck_eq]
  unfold extensionRules extensionRulesAt
  have hm : (cfg.forParentEpoch pe).mmrActive = decide (cfg.rfc0044Epoch ≤ pe) := rfl
  have hx : (cfg.forParentEpoch pe).extMax = cfg.extMax := rfl
  have hr : (cfg.forParentEpoch pe).extMinRoot = cfg.extMinRoot := rfl
  have hn : (!decide (cfg.rfc0044Epoch ≤ pe)) = decide (pe < cfg.rfc0044Epoch) := by
    by_cases h : cfg.rfc0044Epoch ≤ pe
    · simp [h]
    · simp [h]; omega
  rw [hm, hx, hr, hn]
  rcases b.extraFields with _ | _ | n
  · rfl
  · cases b.extLen <;> rfl
  · rfl

/-- **Before the activation epoch** (`parent epoch < rfc0044 epoch`) the extension verifier accepts
iff the block has no extension field, or one of 1 ..= 96 bytes (content free), and the header's
`extra_hash` commits to the uncles and the extension. -/
theorem extension_accept_before_activation_iff (cfg : Cfg) (pe : Nat) (b : Blk) (h : pe < cfg.rfc0044Epoch) :
    extensionCheck (cfg.forParentEpoch pe) b = none ↔
      (b.extraFields = 0 ∨ (b.extraFields = 1 ∧ ∃ len, b.extLen = some len ∧ 1 ≤ len ∧ len ≤ cfg.extMax)) ∧
      b.extraHashOk = true := by
  rw [extension_accept_iff]
  have hm : (cfg.forParentEpoch pe).mmrActive = false := by
    show decide (cfg.rfc0044Epoch ≤ pe) = false
    simp; omega
  have hx : (cfg.forParentEpoch pe).extMax = cfg.extMax := rfl
  rw [hm, hx]
  simp

/-- **From the activation epoch on** (`rfc0044 epoch ≤ parent epoch`) the extension verifier accepts
iff the block has exactly one extension field of 32 ..= 96 bytes whose first 32 bytes are the chain
root of the parent chain, and the header's `extra_hash` commits to the uncles and the extension. -/
theorem extension_accept_after_activation_iff (cfg : Cfg) (pe : Nat) (b : Blk) (h : cfg.rfc0044Epoch ≤ pe) :
    extensionCheck (cfg.forParentEpoch pe) b = none ↔
      (b.extraFields = 1 ∧ ∃ len, b.extLen = some len ∧ 1 ≤ len ∧ len ≤ cfg.extMax ∧ cfg.extMinRoot ≤ len ∧ b.rootOk = true) ∧
      b.extraHashOk = true := by
  rw [extension_accept_iff]
  have hm : (cfg.forParentEpoch pe).mmrActive = true := by
    show decide (cfg.rfc0044Epoch ≤ pe) = true
    simp; omega
  have hx : (cfg.forParentEpoch pe).extMax = cfg.extMax := rfl
  have hr : (cfg.forParentEpoch pe).extMinRoot = cfg.extMinRoot := rfl
  rw [hm, hx, hr]
  simp

/-- **The header commits to the uncles and the extension at every epoch, for every activation
epoch**: no arm of the hardfork switch lets a block through whose `extra_hash` is not the one
derived from its body (the class of the seeded change `r5m1`: an early return in the
"no extension, not yet active" arm). -/
theorem extra_hash_checked_at_every_epoch (cfg : Cfg) (pe : Nat) (b : Blk)
    (h : extensionCheck (cfg.forParentEpoch pe) b = none) : b.extraHashOk = true :=
  ((extension_accept_iff _ b).mp h).2

/-- a block without extension field: refused with `NoBlockExtension` from the activation epoch on,
judged by its `extra_hash` alone before -/
theorem no_extension_verdict (cfg : Cfg) (pe : Nat) (b : Blk) (h0 : b.extraFields = 0) :
    extensionCheck (cfg.forParentEpoch pe) b =
      if cfg.rfc0044Epoch ≤ pe then some .noExtension
      else if b.extraHashOk then none else some .invalidExtraHash := by
  unfold extensionCheck
  have hm : (cfg.forParentEpoch pe).mmrActive = decide (cfg.rfc0044Epoch ≤ pe) := rfl
  rw [h0, hm]
  by_cases h : cfg.rfc0044Epoch ≤ pe
  · simp [h]
  · simp [h]
    cases b.extraHashOk <;> simp

/-- the verdict of the extension verifier depends on the parent's epoch only through the side of
the activation boundary it lies on -/
theorem extension_verdict_same_side (cfg : Cfg) (pe pe' : Nat) (b : Blk)
    (h : (cfg.rfc0044Epoch ≤ pe) ↔ (cfg.rfc0044Epoch ≤ pe')) :
    extensionCheck (cfg.forParentEpoch pe) b = extensionCheck (cfg.forParentEpoch pe') b := by
  have : cfg.forParentEpoch pe = cfg.forParentEpoch pe' := by
    unfold Cfg.forParentEpoch Cfg.rfc0044Active
    congr 1
    exact decide_eq_decide.mpr h
  rw [this]

/-- what the contextual stage hands to `BlockExtensionVerifier`: an accepted block passed it under
the activation verdict of ITS OWN parent's epoch -/
theorem contextual_accept_extension (cfg : Cfg) (cx : Cx) (b : Blk) (h : contextualCheck cfg cx b = none) :
    extensionCheck (cfg.forParentEpoch cx.parentEpochNumber) b = none := by
  have hr := (contextual_iff_rules cfg cx b).mp h
  rw [extensionCheck_eq, firstFail_none_iff]
  intro r hr'
  apply hr
  unfold contextualRules
  simp only [List.mem_append]
  exact Or.inl (Or.inr hr')

/-- **the staged acceptance function equals the conjunction of the rules, for every activation
epoch and every parent epoch** — `accept_iff_rules` read with the activation epoch and the parent's
epoch explicit; in particular an accepted block satisfies the explicit extension rule list of its
side of the boundary -/
theorem accept_iff_rules_every_activation_epoch (cfg : Cfg) (e pe : Nat) (hcx : HeaderCx) (cx : Cx) (b : Blk) :
    let cfg' := { cfg with rfc0044Epoch := e }
    let cx' := { cx with parentEpochNumber := pe }
    (accept cfg' hcx cx' b = none ↔ ∀ r ∈ allRules cfg' hcx cx' b, r.2 = true) ∧
    (accept cfg' hcx cx' b = none → ∀ r ∈ extensionRulesAt cfg' pe b, r.2 = true) := by
  intro cfg' cx'
  refine ⟨accept_iff_rules cfg' hcx cx' b, fun h => ?_⟩
  have hc : contextualCheck cfg' cx' b = none := by
    unfold accept at h
    cases hh : headerCheck cfg' hcx b with
    | some e => simp [hh] at h
    | none =>
      cases hn : nonContextualCheck cfg' b with
      | some e => simp [hh, hn] at h
      | none => simpa [hh, hn] using h
  have := contextual_accept_extension cfg' cx' b hc
  rw [extension_check_every_activation_epoch, firstFail_none_iff] at this
  exact this

/-- non-vacuity and the boundary pairs the harness drives, on the test-net activation epoch: a
parent in the last epoch before activation (no extension accepted, wrong `extra_hash` refused, a
31-byte extension and a wrong chain root accepted, 97 bytes refused) and a parent in the activation
epoch (no extension, 31 bytes, wrong root refused; 32 bytes with the root accepted) -/
example :
    let cfg : Cfg := { rfc0044Epoch := rfc0044EpochOf .testnet }
    let e := rfc0044EpochOf .testnet
    extensionCheck (cfg.forParentEpoch (e - 1)) { extraFields := 0 } = none ∧
    extensionCheck (cfg.forParentEpoch (e - 1)) { extraFields := 0, extraHashOk := false } = some .invalidExtraHash ∧
    extensionCheck (cfg.forParentEpoch (e - 1)) { extLen := some 31, rootOk := false } = none ∧
    extensionCheck (cfg.forParentEpoch (e - 1)) { extLen := some 97 } = some .extensionTooLong ∧
    extensionCheck (cfg.forParentEpoch (e - 1)) { extLen := some 0 } = some .emptyExtension ∧
    extensionCheck (cfg.forParentEpoch e) { extraFields := 0 } = some .noExtension ∧
    extensionCheck (cfg.forParentEpoch e) { extLen := some 31 } = some .invalidExtension ∧
    extensionCheck (cfg.forParentEpoch e) { extLen := some 32, rootOk := false } = some .invalidChainRoot ∧
    extensionCheck (cfg.forParentEpoch e) { extLen := some 32 } = none ∧
    extensionCheck (cfg.forParentEpoch e) { extLen := some 32, extraHashOk := false } = some .invalidExtraHash := by
  decide

/-- **Along every main chain, after any submission history, each block satisfies the extension rule
of the side of the activation boundary its PARENT's epoch lies on, and its header commits to its
uncles and extension on both sides** (no assumption that the delivered roots are right: only
`OneBody`). The contexts before, at and after the boundary are all covered: `p` ranges over every
parent on the chain. -/
theorem main_chain_extension_rule_by_parent_epoch (cfg : Cfg) (g : Blk) (hg0 : g.number = 0)
    (ops : List (Nat × Blk)) (hob : OneBody (g :: ops.map (·.2))) :
    let s := run cfg (St.init g) ops
    ∀ x ∈ mainChain s, x.number ≠ 0 →
      ∃ p, findBlk s.stored x.parent = some p ∧ p ∈ mainChain s ∧
        x.extraHashOk = true ∧
        (p.epoch.number < cfg.rfc0044Epoch →
          x.extraFields = 0 ∨ (x.extraFields = 1 ∧ ∃ len, x.extLen = some len ∧ 1 ≤ len ∧ len ≤ cfg.extMax)) ∧
        (cfg.rfc0044Epoch ≤ p.epoch.number →
          x.extraFields = 1 ∧ ∃ len, x.extLen = some len ∧ 1 ≤ len ∧ len ≤ cfg.extMax ∧ cfg.extMinRoot ≤ len ∧ x.rootOk = true) := by
  intro s x hx h0
  obtain ⟨p, hp, hpm, _, _, hc⟩ := main_chain_blocks_passed_all_stages_partial cfg g hg0 ops hob x hx h0
  have he := contextual_accept_extension cfg (cxOf s.stored p) x hc
  have hpe : (cxOf s.stored p).parentEpochNumber = p.epoch.number := rfl
  rw [hpe] at he
  refine ⟨p, hp, hpm, extra_hash_checked_at_every_epoch cfg _ x he, fun hlt => ?_, fun hge => ?_⟩
  · exact ((extension_accept_before_activation_iff cfg _ x hlt).mp he).1
  · exact ((extension_accept_after_activation_iff cfg _ x hge).mp he).1

/-- non-vacuity: a chain that crosses the activation boundary (activation epoch 6; epochs of 2
blocks starting at epoch 5): block 1 (parent epoch 5) has no extension, block 2 (parent epoch 5,
own epoch 6) has none either, block 3 (parent epoch 6) must carry the chain root — and does; the
same block without extension is refused there -/
example :
    let cfg : Cfg := { medianCount := 3, rfc0044Epoch := 6 }
    let g : Blk := { id := 0, number := 0, ts := 100, nCellbase := 0, epoch := ⟨5, 0, 2⟩ }
    let b1 : Blk := { mk 1 0 1 101 with epoch := ⟨5, 1, 2⟩, expEpoch := ⟨5, 1, 2⟩, extraFields := 0, extLen := none }
    let b2 : Blk := { mk 2 1 2 102 with epoch := ⟨6, 0, 2⟩, expEpoch := ⟨6, 0, 2⟩, extraFields := 0, extLen := none }
    let b3 : Blk := { mk 3 2 3 103 with epoch := ⟨6, 1, 2⟩, expEpoch := ⟨6, 1, 2⟩ }
    let b3' : Blk := { b3 with id := 4, extraFields := 0, extLen := none }
    let b2' : Blk := { b2 with id := 5, extraHashOk := false }
    let ops : List (Nat × Blk) := [(200, b1), (200, b2'), (200, b2), (200, b3'), (200, b3)]
    (mainChain (run cfg (St.init g) ops)).map (·.id) = [3, 2, 1, 0] ∧
    (submit cfg (run cfg (St.init g) [(200, b1)]) 200 b2').2 = .rejected .invalidExtraHash ∧
    (submit cfg (run cfg (St.init g) [(200, b1), (200, b2)]) 200 b3').2 = .rejected .noExtension := by
  decide


/-- the seeded variant `r5m1` (NOT in /repo): the "no extension field" arm returns as soon as it has
looked at the activation flag, so the `extra_hash` comparison below the `match` is skipped for
extension-less blocks -/
def extensionCheckEarlyReturn (cfg : Cfg) (b : Blk) : Option Err :=
  match b.extraFields with
  | 0 => if cfg.mmrActive then some .noExtension else none
  | _ => extensionCheck cfg b

/-- **the variant differs from the code exactly on the inputs the harness now generates**: it agrees
with `BlockExtensionVerifier` from the activation epoch on (so no context with rfc0044 active from
epoch 0 can tell them apart), and before activation it lets through precisely the extension-less
blocks whose header does not commit to their uncles -/
theorem early_return_variant_differs_iff (cfg : Cfg) (pe : Nat) (b : Blk) :
    extensionCheckEarlyReturn (cfg.forParentEpoch pe) b ≠ extensionCheck (cfg.forParentEpoch pe) b ↔
      pe < cfg.rfc0044Epoch ∧ b.extraFields = 0 ∧ b.extraHashOk = false := by
  have hm : (cfg.forParentEpoch pe).mmrActive = decide (cfg.rfc0044Epoch ≤ pe) := rfl
  unfold extensionCheckEarlyReturn
  rcases h : b.extraFields with _ | n
  · unfold extensionCheck
    rw [h, hm]
    by_cases ha : cfg.rfc0044Epoch ≤ pe
    · simp [ha]; omega
    · simp [ha]
      cases b.extraHashOk <;> simp <;> omega
  · simp

/-- witness: one epoch below the test-net activation epoch the variant accepts a header that commits
to nothing, the code refuses it -/
theorem early_return_variant_witness :
    let cfg : Cfg := { rfc0044Epoch := rfc0044EpochOf .testnet }
    let pe := rfc0044EpochOf .testnet - 1
    let b : Blk := { extraFields := 0, extLen := none, extraHashOk := false }
    extensionCheckEarlyReturn (cfg.forParentEpoch pe) b = none ∧
    extensionCheck (cfg.forParentEpoch pe) b = some .invalidExtraHash := by
  decide


/-! ### the second rfc0044-gated rule: `DaoScriptSizeVerifier` inside `BlockTxsVerifier` -/

/-- the contextual rule list without the `DaoScriptSizeVerifier` entry (what `BlockTxsVerifier`
checks when the gate is closed) -/
def contextualRulesNoDao (cfg : Cfg) (cx : Cx) (b : Blk) : List (Err × Bool) :=
  [ (.resolve, b.resolveOk),
    (.epochNumberMismatch, b.epoch == b.expEpoch),
    (.targetMismatch, b.expTarget == b.target) ] ++
  unclesRules cfg cx b ++ commitRules cfg cx b ++
  [ (.daoCalc, b.daoCalcOk), (.invalidDao, b.daoEq) ] ++
  rewardRules cfg cx b ++ extensionRules (cfg.forParentEpoch cx.parentEpochNumber) b ++
  [ (.txs, b.txsOk), (.exceededCycles, decide (b.cycles ≤ cfg.maxCycles)) ]

/-- **For every activation epoch: an accepted block whose parent lies at or past the activation epoch
has equal lock-script sizes in every Nervos DAO deposit → withdrawing pair whose deposit was committed
at or above `starting_block_limiting_dao_withdrawing_lock`; before activation the contextual stage
does not look at the pairs at all** (it reports the first failing rule of the list without the
`DaoScriptSizeVerifier` entry). -/
theorem dao_lock_size_rule_by_activation (cfg : Cfg) (cx : Cx) (b : Blk) :
    (cfg.rfc0044Epoch ≤ cx.parentEpochNumber → contextualCheck cfg cx b = none →
      ∀ p ∈ b.daoPairs, cfg.daoLimitStart ≤ p.2.2 → p.1 = p.2.1) ∧
    (cx.parentEpochNumber < cfg.rfc0044Epoch →
      contextualCheck cfg cx b = firstFail (contextualRulesNoDao cfg cx b)) := by
  constructor
  · intro ha h p hp hs
    have hr := (contextual_iff_rules cfg cx b).mp h
    have hmem : (Err.daoLockSizeMismatch, !cfg.rfc0044Active cx.parentEpochNumber || daoLockSizeOk cfg b) ∈ contextualRules cfg cx b := by
      unfold contextualRules
      simp
    have := hr _ hmem
    have hact : cfg.rfc0044Active cx.parentEpochNumber = true := (rfc0044_active_iff cfg _).mpr ha
    simp only [hact, Bool.not_true, Bool.false_or] at this
    unfold daoLockSizeOk at this
    have hp' := List.all_eq_true.mp this p hp
    simp only [Bool.or_eq_true, decide_eq_true_eq, beq_iff_eq] at hp'
    rcases hp' with hlt | heq
    · omega
    · exact heq
  · intro hlt
    have hact : cfg.rfc0044Active cx.parentEpochNumber = false := by
      simp [Cfg.rfc0044Active]; omega
    rw [contextualCheck_eq]
    unfold contextualRules contextualRulesNoDao
    simp only [firstFail_append, hact, Bool.not_false, Bool.true_or, firstFail, if_true]

/-- the gate flips exactly at the activation epoch: the same block (one mismatching pair, everything
else in order) passes `BlockTxsVerifier` on a parent of epoch `e - 1` and is refused (`DaoLockSizeMismatch`) on a parent of epoch `e` -/
example :
    let cfg : Cfg := { rfc0044Epoch := 6, daoLimitStart := 0 }
    let cx (pe : Nat) : Cx := { exCx with parentEpochNumber := pe }
    let b : Blk := { exBlk with daoPairs := [(61, 62, 3)] }
    contextualCheck cfg (cx 5) b = none ∧ contextualCheck cfg (cx 6) b = some .daoLockSizeMismatch ∧
    contextualCheck cfg (cx 6) { b with daoPairs := [(61, 61, 3)] } = none ∧
    contextualCheck { cfg with daoLimitStart := 4 } (cx 6) b = none := by
  decide


end CkbVerif.C03
