import CkbVerif.Model.Indexer

namespace CkbVerif.C18
open CkbVerif.Indexer

theorem get_put_same (s : Store) (k : Key) (v : Val) : get (put s k v) k = some v := by
  simp [put, Indexer.get]

end CkbVerif.C18
