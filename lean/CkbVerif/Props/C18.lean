import CkbVerif.Lemmas.IndexerAppend
import CkbVerif.Lemmas.IndexerScan
import CkbVerif.Lemmas.IndexerChain
import CkbVerif.Lemmas.IndexerType
import CkbVerif.Lemmas.IndexerHistory
import CkbVerif.Lemmas.IndexerStep5
import CkbVerif.Lemmas.IndexerRbS5
import CkbVerif.Lemmas.IndexerRbPrune
import CkbVerif.Lemmas.IndexerRbTip
import CkbVerif.Lemmas.IndexerCells
import CkbVerif.Lemmas.IndexerHistReplayT
import CkbVerif.Lemmas.IndexerCellOrder
import CkbVerif.Lemmas.IndexerWF
import CkbVerif.Lemmas.IndexerFollow
import CkbVerif.Lemmas.RichIndexer
import CkbVerif.Lemmas.RichCells
import CkbVerif.Lemmas.RichTxPage
import CkbVerif.Lemmas.RichTxRows
import CkbVerif.Lemmas.RichReach

/-!
# C18 — the indexer's answers equal filtering the chain's live cells and transactions

Model: `CkbVerif.Model.Indexer` (follows `util/indexer/src/indexer.rs` / `service.rs`).

Proved here (all unbounded: any store, any block, any script):

* `tip_follows` — after `append` (commit + the automatic prune) of a block whose number exceeds
  every indexed header number, the tip is that block.
* `prune_preserves_answers`, `append_answers_eq_core` — `prune` never changes a row that carries an
  answer (OutPoint, Cell*Script, Tx*Script rows): the retention only limits rollback.
* `append_keeps_history` — appending block `n` never changes a transaction-history row or a
  ConsumedOutPoint (undo-log) row of another block number.
* `scan_exact`, `exact_search_cells` — the iteration behind every query returns exactly the rows
  whose key starts with the search prefix, and in exact mode exactly the rows of the searched script.
* `prefix_search_overmatch_witness` — in prefix mode the code returns a cell whose script does NOT
  start with the searched script (query args `01 00` vs. cell args `01`): the negation of the naive
  prefix specification; replayed on the real code (corpus/C18/finding-prefix-search-overmatch).
* `capacity_script_len_range_witness_prefix` (the deviation of `get_cells_capacity` BEFORE the repair
  963ba99, stated about `getCellsCapacityBuggy`; the repaired code agrees with `get_cells`),
  `tip_garbage_after_rollback_to_empty_witness` — the other known deviation, replayed on the real code.
* `replay_step_created` / `replay_step_spent` / `replay_step_other` — what one `append` does to the
  live-cell set (OutPoint rows), SAME-BLOCK SPENDS INCLUDED (`WFAppend2`: an input may refer to an
  output of an earlier transaction of the block): outputs of the block that are not spent later in
  the block become live, cells spent by a non-cellbase input (live before, or created earlier in the
  same block) are dead, everything else is unchanged — i.e. the step of the direct replay of the chain.
* `live_set_eq_replay` — the store's OutPoint rows equal `replayLive blocks`, a pure fold over the block
  list (no store), for ANY `ChainOK2` chain (same-block spends, automatic prune).
* `rollback_append_tip` — the tip after `rollback (append keep interval s b)`, prune included, equals
  the tip of `s` under the exact retention hypothesis `b.number ≤ tipNumber + keep` (= `keep_num ≥ 1`
  for a chain growing by one); `keep0_tip_not_restored_witness` shows the hypothesis is needed (the
  documented retention limit, not a defect).
* `answers_eq_filter_partial` — (right-hand side = `replayLive blocks`) by induction over ANY chain of blocks, each well-formed for the store
  it is appended to (`ChainOK2`: distinct fresh tx ids, inputs of the same block only to EARLIER
  transactions, …; same-block spends included), with the automatic prune interleaved: the exact-mode
  live-cell scan by lock script returns exactly the rows of the live cells (OutPoint rows = replayed
  live set) whose lock script is the searched one, with their creation block number / tx index.
  PARTIAL only in scope: exact mode, before ordering / limit / cursor / the cell filters.
* `answers_eq_filter_type_partial` — the same for live cells by TYPE script.
* `get_cells_eq_filter_partial` — the model of `get_cells` (lock search, exact mode, ANY cell filter,
  before limit) never panics on a chain store and returns exactly the cells of `replayLive blocks` with
  that lock script passing the filter (as a set; order / limit / cursor by correspondence).
* `tx_history_eq_replay` / `tx_history_type_eq_replay` — every TxLockScript / TxTypeScript row of the
  store after ANY well-formed chain equals `replayTxLock blocks` / `replayTxType blocks`, pure folds
  over the block list (the chain's transaction history filtered by script).
* `history_step_lock_partial` / `history_step_type_partial` — the Tx*Script rows of the appended
  block's number are exactly the direct filter over that block (same-block spends included): one
  `output` row per output under its lock / type script, one `input` row per resolved input of a
  non-cellbase transaction under the lock / type script of the cell it spends, each mapping to the
  transaction's id; together with `append_keeps_history` (rows of other block numbers never change)
  this is "tx lists by script = filter over the chain's tx history" by induction over appends.
* `rollback_append_partial` — SAME-BLOCK SPENDS INCLUDED: for ANY store `s` with unique keys and ANY
  block `b` that is well-formed for `s` (`WFRollback2`: distinct fresh tx ids, inputs referring to the
  block's own transactions only refer to earlier ones, no rows of `b`'s number in `s`, header number
  above every indexed header, the lock/type live-cell indexes of `s` consistent with its OutPoint
  rows): `rollback (appendCore s b)` has EVERY row of every family except ConsumedOutPoint (OutPoint,
  CellLockScript, CellTypeScript, TxLockScript, TxTypeScript, TxHash, Header) equal to that of `s`,
  and the same tip (stated for `appendCore`, i.e. up to the commit).
* `rollback_append_pruned_partial` — the same for the FULL `append` (automatic prune between append
  and rollback, any `keep_num`): every ANSWER row (OutPoint, Cell*Script, Tx*Script) is restored.
  (The tip: `rollback_append_tip`; TxHash / Header rows of pruned blocks are of course not restored.)
* `answers_eq_filter_instance`, `rollback_append_instance` — sanity instances on one concrete
  two-block chain WITH a same-block spend (kernel evaluation).


Round 3 (all unbounded; `S` = the store after ANY well-formed chain of in-range blocks):

* `get_cells_type_eq_filter_partial` — `get_cells` by TYPE script, exact mode, any cell filter =
  filter over `replayLive` (the clone of the lock-script theorem).
* `get_cells_order_partial` — exact mode, lock or type search: the ascending unlimited answer is
  STRICTLY sorted by (block_number, tx_index, output_index); `get_cells` with `Desc` returns its reverse.
* `get_cells_order_by_key` — prefix or exact mode: ascending answers are strictly sorted by their
  key bytes (= `last_cursor` values), descending is the reverse.
* `get_cells_pages_concat` / `get_transactions_pages_concat` — LIMIT / CURSOR: for every limit ≥ 1,
  asc or desc, prefix or exact, lock or type search, any filter: following `last_cursor` from the
  first page until a page comes back empty terminates (within `|S| + 1` calls) and the pages
  concatenate to EXACTLY the unlimited answer — no row lost, none duplicated.
* `get_transactions_eq_filter_partial` / `get_transactions_type_eq_filter_partial` — ungrouped,
  exact mode: the unlimited answer is exactly the rows of the replayed history (`replayTxLock` /
  `replayTxType`) under the searched script that pass the filter script (sibling row in the other
  replayed history) and the block range; `get_transactions_order_partial` (+ `_type_`): strictly
  ascending in (block_number, tx_index, io_index, io_type) with inputs before outputs; `Desc` reverses.
* `get_cells_capacity_eq_sum`, `get_cells_capacity_eq_get_cells` — `get_cells_capacity` is the sum of
  the capacities of the unlimited `get_cells` answer, any mode, EVERY filter (`script_len_range`
  included since the repair 963ba99; `capacity_script_len_range_witness_prefix` is the old deviation).
* `wf_checks_sound`, `chain_checks_sound` — the decidable checks the DRIVER evaluates on every
  block of every chain the harness produces (synthetic and real-node: the `wf` op) imply the
  hypotheses of all the theorems above (`ChainOK2/3/3T`, `WFRollback2`, `HdrDisjoint`, retention);
  `WFRollback2.freshConsumed` now allows the ConsumedOutPoint RESIDUE that `rollback` leaves behind,
  so the rollback theorems apply to a store that has been through reorgs at the same height.

* `answers_after_reorgs_partial` — appends AND rollbacks: for every store reached by appending
  checked blocks and rolling back the block appended last (`Followed`: any interleaving of
  `append b` and `append b; rollback`, residue and automatic prune included), EVERY answer row
  (OutPoint, Cell*Script, Tx*Script) equals the replay spec of the MAIN chain (`replayLive`,
  `replayTxLock`, `replayTxType`) — so all the query theorems above, which only read answer rows,
  transfer. PARTIAL: a rollback deeper than the last appended block is not covered.

NOT proved in general: that the chain the node delivers satisfies `ChainOK2` / `WFRollback2` (now
CHECKED on every generated and every real-node block by evaluating the Lean predicates themselves in
the driver and an independent Rust mirror in the harness); prefix-mode answer SETS (the code
over-matches: `prefix_search_overmatch_witness`); grouped transaction lists; rollback deeper than the
last appended block as a theorem (correspondence + rollback oracle only).
-/
namespace CkbVerif.C18
open CkbVerif.Indexer CkbVerif.Gen.Indexer

/-! ## tip -/

theorem appendCore_eq (s : Store) (b : Block) :
    ∃ f l, appendCore s b =
      (Key.header b.number b.hash f, Val.txs l) ::
        del (commit s (b.txs.zipIdx.flatMap fun (tx, i) => txOps s b i tx)) (Key.header b.number b.hash f) := by
  obtain ⟨f, l, h⟩ := headerOp_eq s b
  refine ⟨f, l, ?_⟩
  unfold appendCore appendOps
  rw [commit_append, h]
  rfl

theorem hdrBelow_txs (s : Store) (b : Block) (k : Key) (hb : HdrBelow s b.number) :
    HdrBelow (del (commit s (b.txs.zipIdx.flatMap fun (tx, i) => txOps s b i tx)) k) b.number := by
  intro e he bn h f hk
  have he1 := (List.mem_filter.mp he).1
  rcases mem_commit _ _ _ he1 with h1 | h1
  · exact hb e h1 bn h f hk
  · have := txsOps_ok s b _ h1
    simp [BOp.key, hk, appendKeyOk] at this

theorem tip_appendCore (s : Store) (b : Block) (hb : HdrBelow s b.number) :
    tip (appendCore s b) = some (b.number, b.hash) := by
  obtain ⟨f, l, h⟩ := appendCore_eq s b
  rw [h]
  exact tip_cons_header _ _ _ _ _ (hdrBelow_txs s b _ hb)

/-- `prune` keeps the first row when it is the tip header, and only removes rows -/
theorem tip_prune_cons (bn h : Nat) (f : Bool) (l) (rest : Store) (keep : Nat)
    (hb : HdrBelow rest bn) :
    tip (prune ((Key.header bn h f, Val.txs l) :: rest) keep) = some (bn, h) := by
  have htip := tip_cons_header bn h f l rest hb
  unfold prune
  have hd := pruneOps_dels ((Key.header bn h f, Val.txs l) :: rest) keep
  rw [commit_dels_cons]
  · apply tip_cons_header
    intro e he bn' h' f' hk
    have : e ∈ rest := mem_commit_dels _ _ _ (fun o ho => by
      obtain ⟨k, hk, _⟩ := hd o ho; exact ⟨k, hk⟩) he
    exact hb e this bn' h' f' hk
  · intro o ho
    obtain ⟨k, hk, _, hh⟩ := hd o ho
    refine ⟨k, hk, ?_⟩
    intro heq
    obtain ⟨n, hh', ht, hle, _⟩ := hh bn h f heq
    rw [htip] at ht
    cases ht
    omega

/-- **tip_follows**: appending a block above every indexed header makes it the tip (whether or not
the automatic prune runs). -/
theorem tip_follows (keep interval : Nat) (s : Store) (b : Block) (hb : HdrBelow s b.number) :
    tip (append keep interval s b) = some (b.number, b.hash) := by
  unfold append
  dsimp only
  split
  · obtain ⟨f, l, h⟩ := appendCore_eq s b
    rw [h]
    exact tip_prune_cons _ _ _ _ _ _ (hdrBelow_txs s b _ hb)
  · exact tip_appendCore s b hb

/-- decidable form of `HdrBelow` (for the examples) -/
def hdrBelowB (s : Store) (n : Nat) : Bool :=
  s.all fun e => match e.1 with | .header bn _ _ => decide (bn < n) | _ => true

theorem hdrBelow_of_B (s : Store) (n : Nat) (h : hdrBelowB s n = true) : HdrBelow s n := by
  intro e he bn hh f hk
  have := List.all_eq_true.mp h e he
  rw [hk] at this
  simpa using this

/-- the hypothesis is satisfiable by a non-trivial state, and the conclusion computes -/
example :
    let s0 : Store := append 1 1 [] ⟨0, 10, [⟨1, [⟨0, 4294967295⟩], [⟨100, ⟨1, [1]⟩, none, []⟩]⟩]⟩
    HdrBelow s0 1 ∧
      tip (append 1 1 s0 ⟨1, 11, [⟨2, [⟨0, 4294967295⟩], []⟩, ⟨3, [⟨1, 0⟩], [⟨100, ⟨1, [1, 2]⟩, none, []⟩]⟩]⟩) = some (1, 11) :=
  ⟨hdrBelow_of_B _ _ (by decide), by decide⟩

/-! ## prune and the answers -/

/-- **prune_preserves_answers**: no OutPoint / Cell*Script / Tx*Script row is changed by `prune`. -/
theorem prune_preserves_answers (s : Store) (keep : Nat) (k : Key) (hk : k.isAnswer = true) :
    get (prune s keep) k = get s k := by
  unfold prune
  apply get_commit_untouched
  intro o ho
  obtain ⟨k', hk', ha, _⟩ := pruneOps_dels s keep o ho
  subst hk'
  intro heq
  simp only [BOp.key] at heq
  rw [heq] at ha
  rw [ha] at hk
  cases hk

/-- so the automatic prune inside `append` is invisible to every query -/
theorem append_answers_eq_core (keep interval : Nat) (s : Store) (b : Block) (k : Key)
    (hk : k.isAnswer = true) : get (append keep interval s b) k = get (appendCore s b) k := by
  unfold append
  dsimp only
  split
  · exact prune_preserves_answers _ _ _ hk
  · rfl

/-! ## history is append-only -/

/-- **append_keeps_history**: appending block `b` leaves every transaction-history row of another
block number exactly as it was. -/
theorem append_keeps_history (s : Store) (b : Block) (k : Key)
    (hk : (∃ sc bn tx io t, k = .txLock sc bn tx io t ∧ bn ≠ b.number) ∨
          (∃ sc bn tx io t, k = .txType sc bn tx io t ∧ bn ≠ b.number) ∨
          (∃ bn op, k = .consumed bn op ∧ bn ≠ b.number)) :
    get (appendCore s b) k = get s k := by
  unfold appendCore appendOps
  apply get_commit_untouched
  intro o ho heq
  rw [List.mem_append] at ho
  rcases ho with ho | ho
  · have hok := txsOps_ok s b o ho
    rw [heq] at hok
    rcases hk with ⟨sc, bn, tx, io, t, rfl, hne⟩ | ⟨sc, bn, tx, io, t, rfl, hne⟩ | ⟨bn, op, rfl, hne⟩ <;>
      simp [appendKeyOk] at hok <;> exact hne hok
  · simp only [List.mem_singleton] at ho
    obtain ⟨f, l, h⟩ := headerOp_eq s b
    rw [ho, h] at heq
    simp only [BOp.key] at heq
    rcases hk with ⟨sc, bn, tx, io, t, rfl, _⟩ | ⟨sc, bn, tx, io, t, rfl, _⟩ | ⟨bn, op, rfl, _⟩ <;> cases heq

example : ∃ (s : Store) (b : Block) (k : Key), get s k ≠ none ∧
    (∃ sc bn tx io t, k = Key.txLock sc bn tx io t ∧ bn ≠ b.number) :=
  ⟨[(Key.txLock ⟨1, []⟩ 0 0 0 .output, Val.tx 1)], ⟨1, 1, []⟩, Key.txLock ⟨1, []⟩ 0 0 0 .output,
    by decide, ⟨_, _, _, _, _, rfl, by decide⟩⟩

/-! ## the scan behind the queries -/

/-- every query iterates exactly the rows whose key starts with the search prefix -/
theorem scan_exact (s : Store) (pre : List Nat) (e : Key × Val) :
    e ∈ scan s pre ↔ e ∈ s ∧ isPrefix pre e.1.bytes = true := mem_scan s pre e

/-- **exact mode**: a CellLockScript row passes the prefix scan and the key-length test of
`get_cells` / `get_cells_capacity` iff it is a stored row of exactly the searched script. -/
theorem exact_search_cells (s : Store) (q sc : Script) (bn tx io : Nat) (v : Val) :
    ((Key.cellLock sc bn tx io, v) ∈ scan s (cellPrefix true q) ∧
      (Key.cellLock sc bn tx io).bytes.length = (cellPrefix true q).length + 16) ↔
    ((Key.cellLock sc bn tx io, v) ∈ s ∧ sc = q) := by
  rw [mem_scan]
  have h := exact_cellLock q sc bn tx io
  simp only [cellPrefix, if_true] at *
  constructor
  · rintro ⟨⟨hs, hp⟩, hl⟩
    exact ⟨hs, h.mp ⟨hp, hl⟩⟩
  · rintro ⟨hs, he⟩
    obtain ⟨hp, hl⟩ := h.mpr he
    exact ⟨⟨hs, hp⟩, hl⟩

example : ((Key.cellLock ⟨1, [1]⟩ 0 0 0, Val.tx 1) ∈
    scan (appendCore [] ⟨0, 1, [⟨1, [⟨0, 4294967295⟩], [⟨100, ⟨1, [1]⟩, none, []⟩]⟩]⟩) (cellPrefix true ⟨1, [1]⟩)) := by
  decide

/-- **prefix mode over-matches** (the code as written, also on the real indexer): a live cell with
lock args `01`, searched with lock args `01 00` in prefix mode, is returned although its script does
not start with the searched script — the query's tail runs into the big-endian block number. -/
theorem prefix_search_overmatch_witness :
    ∃ (s : Store) (q : Script) (op : OutPoint) (c : Cell),
      get s (.outPoint op) = some (.cell c) ∧
      op ∈ liveCellsByScript s KP_CELL_LOCK_SCRIPT q ∧
      isPrefix (scriptRaw q) (scriptRaw c.out.lock) = false :=
  ⟨appendCore [] ⟨0, 1, [⟨1, [⟨0, 4294967295⟩], [⟨100, ⟨1, [1]⟩, none, []⟩]⟩]⟩, ⟨1, [1, 0]⟩, ⟨1, 0⟩,
    ⟨0, 0, ⟨100, ⟨1, [1]⟩, none, []⟩⟩, by decide, by decide, by decide⟩

/-! ## the live-cell set follows the replay of the chain (blocks without same-block spends) -/

/-- outputs of the appended block that no later transaction of the block spends become live cells -/
theorem replay_step_created (s : Store) (b : Block) (wf : WFAppend2 s b) (op : OutPoint) (c : Cell)
    (hc : Created b op c) (hns : ∀ c', ¬ Spent2 s b op c') :
    get (appendCore s b) (.outPoint op) = some (.cell c) :=
  outPoint_created2 wf op c hc hns

/-- cells spent by a non-cellbase input of the appended block — live before, or created earlier in
the SAME block — are dead -/
theorem replay_step_spent (s : Store) (b : Block) (wf : WFAppend2 s b) (op : OutPoint) (c : Cell)
    (hs : Spent2 s b op c) : get (appendCore s b) (.outPoint op) = none :=
  outPoint_spent2 wf op c hs

/-- every other out-point keeps its state -/
theorem replay_step_other (s : Store) (b : Block) (wf : WFAppend2 s b) (op : OutPoint)
    (hnc : ∀ c, ¬ Created b op c) (hns : ∀ c, ¬ Spent2 s b op c) :
    get (appendCore s b) (.outPoint op) = get s (.outPoint op) :=
  outPoint_other2 wf op hnc hns

/-- **the live-cell set is the direct replay of the chain**: after ANY well-formed chain of appends
from the empty store (same-block spends and the automatic prune included) the store's OutPoint rows
are exactly `replayLive blocks` — a pure fold over the block list that knows nothing of the store:
outputs become live with (block number, tx index), out-points spent by a non-cellbase input die. -/
theorem live_set_eq_replay (keep interval : Nat) (blocks : List Block)
    (ok : ChainOK2 keep interval [] blocks) (op : OutPoint) :
    get (blocks.foldl (append keep interval) []) (.outPoint op) = (replayLive blocks op).map Val.cell :=
  outPoint_eq_replay keep interval blocks ok op

/-- **answers_eq_filter** for live cells by LOCK script. After ANY chain of well-formed appends from
the empty store (same-block spends and the automatic prune included), a CellLockScript row is
returned by the exact-mode scan for `q` iff it is the row of a cell of the REPLAYED live set
(`replayLive blocks`, no store involved) whose lock script is `q`, created at that block number / tx
index. PARTIAL in scope only: exact search mode (prefix mode over-matches, see
`prefix_search_overmatch_witness`), and membership of the scanned rows — the RPC layer's ordering,
limit, cursor and cell filters on top of these rows are tested by correspondence. -/
theorem answers_eq_filter_partial (keep interval : Nat) (blocks : List Block)
    (ok : ChainOK2 keep interval [] blocks) (q sc : Script) (bn txi io t : Nat) :
    ((Key.cellLock sc bn txi io, Val.tx t) ∈ scan (blocks.foldl (append keep interval) []) (cellPrefix true q) ∧
      (Key.cellLock sc bn txi io).bytes.length = (cellPrefix true q).length + 16) ↔
    (sc = q ∧ ∃ c : Cell, replayLive blocks ⟨t, io⟩ = some c ∧
      c.out.lock = q ∧ c.bn = bn ∧ c.txIdx = txi) := by
  have hnd := nodup_chain keep interval blocks [] trivial
  have hinv := lockInv_chain2 keep interval blocks [] lockInv_empty ok
  have hrep := outPoint_eq_replay keep interval blocks ok ⟨t, io⟩
  rw [exact_search_cells, mem_iff_get _ hnd, hinv sc bn txi io t, hrep]
  constructor
  · rintro ⟨⟨c, hc, hl, hb, ht⟩, rfl⟩
    refine ⟨rfl, c, ?_, hl, hb, ht⟩
    cases h : replayLive blocks ⟨t, io⟩ with
    | none => simp [h] at hc
    | some c' => simp [h] at hc; rw [hc]
  · rintro ⟨rfl, c, hc, hl, hb, ht⟩
    exact ⟨⟨c, by simp [hc], hl, hb, ht⟩, rfl⟩

/-- `ChainOK2` is satisfiable by a non-trivial chain: block 1 spends an output of block 0, creates
two cells, spends one of them again in the SAME block (tx 4) and that one again (tx 5); block 2
spends a cell of block 1 -/
example : ChainOK2 1 1 []
    [ ⟨0, 10, [⟨1, [⟨0, 4294967295⟩], [⟨1000, ⟨1, [1]⟩, none, []⟩]⟩]⟩,
      ⟨1, 11, [⟨2, [⟨0, 4294967295⟩], []⟩,
               ⟨3, [⟨1, 0⟩], [⟨100, ⟨1, [1]⟩, some ⟨2, [5]⟩, [7]⟩, ⟨250, ⟨1, [1, 2]⟩, none, []⟩]⟩,
               ⟨4, [⟨3, 0⟩], [⟨50, ⟨1, [1]⟩, none, []⟩]⟩,
               ⟨5, [⟨4, 0⟩], [⟨1, ⟨2, [5]⟩, some ⟨1, [1]⟩, [9]⟩]⟩]⟩,
      ⟨2, 12, [⟨6, [⟨0, 4294967295⟩], [⟨5, ⟨1, [1]⟩, none, []⟩]⟩, ⟨7, [⟨3, 1⟩, ⟨5, 0⟩], []⟩]⟩ ] :=
  ⟨wfAppend2_of_B _ _ (by decide), wfAppend2_of_B _ _ (by decide), wfAppend2_of_B _ _ (by decide), trivial⟩

/-- **answers_eq_filter** for live cells by TYPE script (same scope as above). -/
theorem answers_eq_filter_type_partial (keep interval : Nat) (blocks : List Block)
    (ok : ChainOK2 keep interval [] blocks) (q sc : Script) (bn txi io t : Nat) :
    ((Key.cellType sc bn txi io, Val.tx t) ∈ scan (blocks.foldl (append keep interval) []) (cellPrefix false q) ∧
      (Key.cellType sc bn txi io).bytes.length = (cellPrefix false q).length + 16) ↔
    (sc = q ∧ ∃ c : Cell, replayLive blocks ⟨t, io⟩ = some c ∧
      c.out.type = some q ∧ c.bn = bn ∧ c.txIdx = txi) := by
  have hnd := nodup_chain keep interval blocks [] trivial
  have hinv := typeInv_chain2 keep interval blocks [] typeInv_empty ok
  have hrep := outPoint_eq_replay keep interval blocks ok ⟨t, io⟩
  have h := exact_cellType q sc bn txi io
  rw [mem_scan, mem_iff_get _ hnd, hinv sc bn txi io t, hrep]
  simp only [cellPrefix, Bool.false_eq_true, if_false] at *
  constructor
  · rintro ⟨⟨⟨c, hc, hl, hb, ht⟩, hp⟩, hlen⟩
    have := h.mp ⟨hp, hlen⟩
    subst this
    refine ⟨rfl, c, ?_, hl, hb, ht⟩
    cases h' : replayLive blocks ⟨t, io⟩ with
    | none => simp [h'] at hc
    | some c' => simp [h'] at hc; rw [hc]
  · rintro ⟨rfl, c, hc, hl, hb, ht⟩
    obtain ⟨hp, hlen⟩ := h.mpr rfl
    exact ⟨⟨⟨c, by simp [hc], hl, hb, ht⟩, hp⟩, hlen⟩

/-- the replay spec computes: after blocks 0 and 1 of the `ChainOK2` example, 5.0 is live and 3.0 (created and spent in block 1) is not -/
example :
    replayLive
      [ ⟨0, 10, [⟨1, [⟨0, 4294967295⟩], [⟨1000, ⟨1, [1]⟩, none, []⟩]⟩]⟩,
        ⟨1, 11, [⟨2, [⟨0, 4294967295⟩], []⟩,
                 ⟨3, [⟨1, 0⟩], [⟨100, ⟨1, [1]⟩, some ⟨2, [5]⟩, [7]⟩, ⟨250, ⟨1, [1, 2]⟩, none, []⟩]⟩,
                 ⟨4, [⟨3, 0⟩], [⟨50, ⟨1, [1]⟩, none, []⟩]⟩,
                 ⟨5, [⟨4, 0⟩], [⟨1, ⟨2, [5]⟩, some ⟨1, [1]⟩, [9]⟩]⟩]⟩ ] ⟨5, 0⟩
      = some ⟨1, 3, ⟨1, ⟨2, [5]⟩, some ⟨1, [1]⟩, [9]⟩⟩ ∧
    replayLive
      [ ⟨0, 10, [⟨1, [⟨0, 4294967295⟩], [⟨1000, ⟨1, [1]⟩, none, []⟩]⟩]⟩,
        ⟨1, 11, [⟨2, [⟨0, 4294967295⟩], []⟩,
                 ⟨3, [⟨1, 0⟩], [⟨100, ⟨1, [1]⟩, some ⟨2, [5]⟩, [7]⟩, ⟨250, ⟨1, [1, 2]⟩, none, []⟩]⟩,
                 ⟨4, [⟨3, 0⟩], [⟨50, ⟨1, [1]⟩, none, []⟩]⟩,
                 ⟨5, [⟨4, 0⟩], [⟨1, ⟨2, [5]⟩, some ⟨1, [1]⟩, [9]⟩]⟩]⟩ ] ⟨3, 0⟩ = none := by
  decide

def exBlock0' : Block := ⟨0, 10, [⟨1, [⟨0, 4294967295⟩], [⟨1000, ⟨1, [1]⟩, none, []⟩]⟩]⟩
def exBlock1' : Block :=
  ⟨1, 11, [⟨2, [⟨0, 4294967295⟩], [⟨5000, ⟨1, [1]⟩, none, []⟩]⟩,
           ⟨3, [⟨1, 0⟩], [⟨100, ⟨1, [1]⟩, none, [7]⟩, ⟨250, ⟨1, [1, 2]⟩, none, []⟩]⟩]⟩

/-- **`get_cells` = filter over the replayed live set** (lock-script search, exact mode, ANY cell
filter: script prefix / script_len_range / output_data prefix|exact|partial / data length / capacity /
block range). On the store reached by any well-formed chain (same-block spends, automatic prune) the
model of `IndexerHandle::get_cells` before `take(limit)` never hits `expect("stored OutPoint")`
and its answers are EXACTLY the cells of `replayLive blocks` whose lock script is `q` and that pass
the filter, each with its out-point, creation block number / tx index and key (= the cursor).
PARTIAL in scope only: exact search mode; set of answers (their ORDER — key-byte order, asc/desc —
limit and cursor paging are tested by correspondence); the type-script search is the analogous clone. -/
theorem get_cells_eq_filter_partial (keep interval : Nat) (blocks : List Block)
    (ok : ChainOK2 keep interval [] blocks) (q : Script) (f : Filter) :
    ∃ l, cellRows (blocks.foldl (append keep interval) []) true q true f false
        (scan (blocks.foldl (append keep interval) []) (cellPrefix true q)) = some l ∧
      ∀ a : CellAns, a ∈ l ↔
        ∃ c : Cell, replayLive blocks a.op = some c ∧ c.out.lock = q ∧ cellPasses f true false c = true ∧
          a.cell = c ∧ a.key = (Key.cellLock q c.bn c.txIdx a.op.idx).bytes :=
  getCells_exact_eq_replay keep interval blocks ok q f

/-- the statement is not vacuous: a capacity-range query on a two-block chain returns one cell -/
example :
    (cellRows (appendCore (appendCore [] exBlock0') exBlock1') true ⟨1, [1]⟩ true
        { capRange := some (0, 101) } false
        (scan (appendCore (appendCore [] exBlock0') exBlock1') (cellPrefix true ⟨1, [1]⟩))).map
      (fun l => l.map (fun a => (a.op, a.cell.out.cap))) = some [(⟨3, 0⟩, 100)] := by
  decide

/-! ## the transaction history written by one append -/

/-- **tx lists by lock script = filter over the block** (same-block spends included: `Res` = the
cell an input resolves to, live in the store or created earlier in the block) -/
theorem history_step_lock_partial (s : Store) (b : Block) (wf : WFAppend2 s b)
    (fresh : ∀ (sc : Script) (txi io : Nat) (t : IoType), get s (.txLock sc b.number txi io t) = none)
    (sc : Script) (i io : Nat) (t : IoType) (id : Nat) :
    get (appendCore s b) (.txLock sc b.number i io t) = some (.tx id) ↔
      ∃ tx : Tx, b.txs[i]? = some tx ∧ id = tx.id ∧
        ((t = .output ∧ ∃ out : Output, tx.outputs[io]? = some out ∧ out.lock = sc) ∨
         (t = .input ∧ i ≠ 0 ∧ ∃ (op : OutPoint) (c : Cell), tx.inputs[io]? = some op ∧
            Res s b op c ∧ c.out.lock = sc)) :=
  txLock_step2 wf fresh sc i io t id

/-- **tx lists by type script = filter over the block** (same-block spends included) -/
theorem history_step_type_partial (s : Store) (b : Block) (wf : WFAppend2 s b)
    (fresh : ∀ (sc : Script) (txi io : Nat) (t : IoType), get s (.txType sc b.number txi io t) = none)
    (sc : Script) (i io : Nat) (t : IoType) (id : Nat) :
    get (appendCore s b) (.txType sc b.number i io t) = some (.tx id) ↔
      ∃ tx : Tx, b.txs[i]? = some tx ∧ id = tx.id ∧
        ((t = .output ∧ ∃ out : Output, tx.outputs[io]? = some out ∧ out.type = some sc) ∨
         (t = .input ∧ i ≠ 0 ∧ ∃ (op : OutPoint) (c : Cell), tx.inputs[io]? = some op ∧
            Res s b op c ∧ c.out.type = some sc)) :=
  txType_step2 wf fresh sc i io t id

/-- hypotheses satisfiable (the empty store, a block with an output), and a row it describes -/
example :
    let b0 : Block := ⟨0, 10, [⟨1, [⟨0, 4294967295⟩], [⟨1000, ⟨1, [1]⟩, some ⟨2, [5]⟩, [7]⟩]⟩]⟩
    WFAppend2 [] b0 ∧ (∀ (sc : Script) (txi io : Nat) (t : IoType), get [] (.txLock sc b0.number txi io t) = none) ∧
      get (appendCore [] b0) (.txLock ⟨1, [1]⟩ 0 0 0 .output) = some (.tx 1) :=
  ⟨wfAppend2_of_B _ _ (by decide), fun _ _ _ _ => rfl, by decide⟩

/-! ## the transaction lists equal the replayed history -/

/-- **tx lists by lock script = filter over the chain's transaction history.** After ANY chain of
well-formed appends (`ChainOK3` = `ChainOK2` + the new block's number is new to the history index;
same-block spends and the automatic prune included), every TxLockScript row of the store is exactly
what `replayTxLock blocks` says — a pure fold over the block list: for every block one `output` row
per output under its lock script and one `input` row per input of a non-cellbase transaction under
the lock script of the cell it spends (resolved in the replayed live set), mapping to the tx id. -/
theorem tx_history_eq_replay (keep interval : Nat) (blocks : List Block)
    (ok : ChainOK3 keep interval [] blocks) (sc : Script) (bn i io : Nat) (t : IoType) :
    get (blocks.foldl (append keep interval) []) (.txLock sc bn i io t) =
      (replayTxLock blocks sc bn i io t).map Val.tx :=
  txLock_eq_replay keep interval blocks ok sc bn i io t

/-- the same for the transaction history by TYPE script -/
theorem tx_history_type_eq_replay (keep interval : Nat) (blocks : List Block)
    (ok : ChainOK3T keep interval [] blocks) (sc : Script) (bn i io : Nat) (t : IoType) :
    get (blocks.foldl (append keep interval) []) (.txType sc bn i io t) =
      (replayTxType blocks sc bn i io t).map Val.tx :=
  txType_eq_replay keep interval blocks ok sc bn i io t

theorem freshTxLock_of_B (s : Store) (b : Block) (h : freshB s b = true) (sc : Script) (txi io : Nat)
    (t : IoType) : get s (.txLock sc b.number txi io t) = none := by
  apply get_none_of
  intro e he heq
  have := List.all_eq_true.mp h e he
  rw [heq] at this
  simp at this

/-- hypotheses satisfiable by a chain with a same-block spend, and the spec computes: tx 4 spends
3.0 (lock `1.1`, created in the same block) as input 0 -/
example :
    ChainOK3 1 1 [] [exBlock0', ⟨1, 11, [⟨2, [⟨0, 4294967295⟩], []⟩,
        ⟨3, [⟨1, 0⟩], [⟨100, ⟨1, [1]⟩, some ⟨2, [5]⟩, [7]⟩]⟩, ⟨4, [⟨3, 0⟩], []⟩]⟩] ∧
    replayTxLock [exBlock0', ⟨1, 11, [⟨2, [⟨0, 4294967295⟩], []⟩,
        ⟨3, [⟨1, 0⟩], [⟨100, ⟨1, [1]⟩, some ⟨2, [5]⟩, [7]⟩]⟩, ⟨4, [⟨3, 0⟩], []⟩]⟩] ⟨1, [1]⟩ 1 2 0 .input = some 4 :=
  ⟨⟨wfAppend2_of_B _ _ (by decide), fun _ _ _ _ => rfl, wfAppend2_of_B _ _ (by decide),
     freshTxLock_of_B _ _ (by decide), trivial⟩, by decide⟩

/-! ## rollback ∘ append -/

/-- **rollback_append** (same-block spends INCLUDED). For ANY store `s` with unique keys and ANY
block `b` well-formed for `s` (`WFRollback2`: distinct fresh tx ids; inputs referring to the block's
own transactions only refer to EARLIER ones; no rows of `b`'s number in `s`; header number above every
indexed header; the lock/type live-cell indexes of `s` consistent with its OutPoint rows): rolling
back the block just appended restores EVERY row of every family except the ConsumedOutPoint residue
(OutPoint, CellLockScript, CellTypeScript, TxLockScript, TxTypeScript, TxHash, Header) — hence every
answer — and the tip. PARTIAL only in that it is stated for `appendCore` (append up to the commit):
the automatic `prune` that may run between the append and the rollback is not included. -/
theorem rollback_append_partial (s : Store) (b : Block) (wf : WFRollback2 s b) (hnd : NodupKeys s) :
    (∀ k : Key, (∀ bn op, k ≠ .consumed bn op) → get (rollback (appendCore s b)) k = get s k) ∧
    tip (rollback (appendCore s b)) = tip s :=
  ⟨fun k hk => rollback_append_get2 wf k hk, rollback_append_tip2 wf hnd⟩

/-- the hypotheses are satisfiable by a non-trivial state: `s` = one block indexed; `b` spends its
output (lock + type script), creates two cells, spends one of them in the SAME block, and that one
again; the spent out-point is dead after the append and live again after the rollback -/
example :
    let b0 : Block := ⟨0, 10, [⟨1, [⟨0, 4294967295⟩], [⟨1000, ⟨1, [1]⟩, some ⟨2, [5]⟩, [7]⟩]⟩]⟩
    let b1 : Block := ⟨1, 11, [⟨2, [⟨0, 4294967295⟩], []⟩,
      ⟨3, [⟨1, 0⟩], [⟨100, ⟨1, [1]⟩, some ⟨2, [5]⟩, [7]⟩, ⟨250, ⟨1, [1, 2]⟩, none, []⟩]⟩,
      ⟨4, [⟨3, 0⟩], [⟨50, ⟨1, [1]⟩, none, []⟩]⟩,
      ⟨5, [⟨4, 0⟩, ⟨3, 1⟩], [⟨1, ⟨2, [5]⟩, some ⟨1, [1]⟩, [9]⟩]⟩]⟩
    WFRollback2 (appendCore [] b0) b1 ∧ NodupKeys (appendCore [] b0) ∧
      get (appendCore (appendCore [] b0) b1) (.outPoint ⟨1, 0⟩) = none ∧
      get (rollback (appendCore (appendCore [] b0) b1)) (.outPoint ⟨1, 0⟩) ≠ none := by
  intro b0 b1
  have wf0 : WFAppend2 [] b0 := wfAppend2_of_B _ _ (by decide)
  refine ⟨wfRollback2_of _ _ (by decide) (by decide) (lockInv_append2 wf0 lockInv_empty)
    (typeInv_append2 wf0 typeInv_empty), nodup_commit _ _ trivial, by decide, by decide⟩

/-- **rollback after the FULL `append`** (commit + the automatic `prune` when
`number % prune_interval = 0`), same-block spends included: every answer row (OutPoint,
Cell*Script, Tx*Script) is restored, for every `keep_num` — the prune only removes ConsumedOutPoint /
TxHash / Header rows of OLDER blocks, none of which the rollback of the tip block reads.
`HdrDisjoint`: no stored Header row lists a transaction id of `b` (ids are unique along the chain).
PARTIAL: the tip after such a rollback (it needs the retention hypothesis that the previous tip's
Header row survived the prune: `keep_num ≥ 1`) is not proved here. -/
theorem rollback_append_pruned_partial (s : Store) (b : Block) (wf : WFRollback2 s b)
    (hd : HdrDisjoint s b) (keep interval : Nat) (k : Key) (hk : k.isAnswer = true) :
    get (rollback (append keep interval s b)) k = get s k :=
  rollback_append_full_answers wf hd keep interval k hk

example :
    let b0 : Block := ⟨0, 10, [⟨1, [⟨0, 4294967295⟩], [⟨1000, ⟨1, [1]⟩, some ⟨2, [5]⟩, [7]⟩]⟩]⟩
    let b1 : Block := ⟨1, 11, [⟨2, [⟨0, 4294967295⟩], []⟩, ⟨3, [⟨1, 0⟩], [⟨100, ⟨1, [1]⟩, none, []⟩]⟩,
      ⟨4, [⟨3, 0⟩], []⟩]⟩
    WFRollback2 (appendCore [] b0) b1 ∧ HdrDisjoint (appendCore [] b0) b1 := by
  intro b0 b1
  have wf0 : WFAppend2 [] b0 := wfAppend2_of_B _ _ (by decide)
  exact ⟨wfRollback2_of _ _ (by decide) (by decide) (lockInv_append2 wf0 lockInv_empty)
    (typeInv_append2 wf0 typeInv_empty), by unfold HdrDisjoint; decide⟩

/-- **rollback_append, tip across the automatic prune**: `tip (rollback (append keep interval s b))
= tip s` whenever the previous tip's Header row is inside the retention: `b.number ≤ tipNumber + keep`
— for a chain that grows by one block at a time this is exactly `keep_num ≥ 1`. Together with
`rollback_append_pruned_partial` (all answer rows) this is "rolling back the last appended block
restores every answer, within the configured retention". -/
theorem rollback_append_tip (s : Store) (b : Block) (wf : WFRollback2 s b) (hd : HdrDisjoint s b)
    (hnd : NodupKeys s) (keep interval : Nat)
    (hret : ∀ tn th, tip s = some (tn, th) → b.number ≤ tn + keep) :
    tip (rollback (append keep interval s b)) = tip s :=
  rollback_append_full_tip wf hd hnd keep interval hret

example :
    let b0 : Block := ⟨0, 10, [⟨1, [⟨0, 4294967295⟩], [⟨1000, ⟨1, [1]⟩, none, []⟩]⟩]⟩
    let b1 : Block := ⟨1, 11, [⟨2, [⟨0, 4294967295⟩], []⟩, ⟨3, [⟨1, 0⟩], [⟨100, ⟨1, [1]⟩, none, []⟩]⟩,
      ⟨4, [⟨3, 0⟩], []⟩]⟩
    (∀ tn th, tip (appendCore [] b0) = some (tn, th) → b1.number ≤ tn + 1) ∧
      tip (rollback (append 1 1 (appendCore [] b0) b1)) = some (0, 10) := by
  intro b0 b1
  refine ⟨?_, by decide⟩
  intro tn th h
  have : tip (appendCore [] b0) = some (0, 10) := by decide
  rw [this] at h
  cases h
  decide

/-- the retention hypothesis is needed — and this is the DOCUMENTED limit, not a defect:
with `keep_num = 0` the prune that runs inside `append` of block 2 deletes the Header rows of
blocks 0 and 1, so after rolling block 2 back no Header row is left and the tip is not (1, 11).
(`keep_num: number of blocks to keep for rollback and forking`; the node uses 100.) -/
theorem keep0_tip_not_restored_witness :
    ∃ (s : Store) (b : Block), tip s = some (1, 11) ∧ tip (rollback (append 0 1 s b)) = none :=
  ⟨append 0 1 (append 0 1 [] ⟨0, 10, [⟨1, [⟨0, 4294967295⟩], [⟨1000, ⟨1, [1]⟩, none, []⟩]⟩,
      ⟨2, [⟨1, 0⟩], [⟨1000, ⟨1, [1]⟩, none, []⟩]⟩]⟩)
      ⟨1, 11, [⟨3, [⟨0, 4294967295⟩], [⟨5, ⟨1, [1]⟩, none, []⟩]⟩]⟩,
    ⟨2, 12, [⟨4, [⟨0, 4294967295⟩], [⟨5, ⟨1, [1]⟩, none, []⟩]⟩]⟩, by decide, by decide⟩

/-! ## Lean witnesses of the other deviations of the code (one repaired by 963ba99, one known finding) -/

/-- **capacity / script_len_range, BEFORE the repair 963ba99** (`getCellsCapacityBuggy` = the code
with `script_len > r1`): the END of `script_len_range` was inclusive in `get_cells_capacity` and
exclusive in `get_cells`: with range [0,33) and a cell whose type script has raw length 33, `get_cells`
returns nothing but the old `get_cells_capacity` summed the cell. The repaired code
(`getCellsCapacity`) agrees with `get_cells` — second component, and `get_cells_capacity_eq_sum`. -/
theorem capacity_script_len_range_witness_prefix :
    ∃ (s : Store) (q : Script) (f : Filter),
      (getCells s true q true f false 100 none).map (·.1.length) = some 0 ∧
      getCellsCapacityBuggy s true q true f = some 100 ∧
      getCellsCapacity s true q true f = some 0 :=
  ⟨appendCore [] ⟨0, 1, [⟨1, [⟨0, 4294967295⟩], [⟨100, ⟨1, []⟩, some ⟨2, []⟩, []⟩]⟩]⟩, ⟨1, []⟩,
    { scriptLenRange := some (0, 33) }, by decide, by decide, by decide⟩

/-- **tip after rolling back the only indexed block**: `rollback` leaves the ConsumedOutPoint rows
behind and `tip()` does not test the key family, so the tip is decoded from a residue row instead of
being `None` (what it was before the block was appended). -/
theorem tip_garbage_after_rollback_to_empty_witness :
    ∃ (b : Block), tipAsCode [] = .none ∧ tipAsCode (rollback (appendCore [] b)) = .residue 0 :=
  ⟨⟨0, 1, [⟨1, [⟨0, 4294967295⟩], [⟨100, ⟨1, []⟩, none, []⟩]⟩, ⟨2, [⟨1, 0⟩], [⟨100, ⟨1, []⟩, none, []⟩]⟩]⟩,
    by decide, by decide⟩

/-! ## the two main statements on a concrete chain (sanity instances only) -/

def exBlock0 : Block :=
  ⟨0, 10, [⟨1, [⟨0, 4294967295⟩], [⟨1000, ⟨1, [1]⟩, none, []⟩]⟩]⟩

/-- cellbase; tx 3 spends 1.0 and creates two cells; tx 4 spends 3.0 (same block); tx 5 spends 4.0, 3.1 -/
def exBlock1 : Block :=
  ⟨1, 11, [⟨2, [⟨0, 4294967295⟩], []⟩,
           ⟨3, [⟨1, 0⟩], [⟨100, ⟨1, [1]⟩, some ⟨2, [5]⟩, [7]⟩, ⟨250, ⟨1, [1, 2]⟩, none, [7, 8]⟩]⟩,
           ⟨4, [⟨3, 0⟩], [⟨50, ⟨1, [1]⟩, none, []⟩]⟩,
           ⟨5, [⟨4, 0⟩, ⟨3, 1⟩], [⟨1, ⟨2, [5]⟩, some ⟨1, [1]⟩, [9]⟩]⟩]⟩

def answerRows (s : Store) : List (Key × Val) := s.filter fun e => e.1.isAnswer

/-- same rows as sets (both directions, through `get`) -/
def sameAnswers (a b : Store) : Bool :=
  ((answerRows a).all fun e => get b e.1 = some e.2) && ((answerRows b).all fun e => get a e.1 = some e.2)

/-- `answers_eq_filter` on the concrete chain exBlock0, exBlock1: the answer rows are exactly the
live cell 5.0 (created, not spent) with its lock/type index rows and the nine history rows.
(A kernel-evaluated sanity instance: all answer rows of a two-block chain with a same-block spend.) -/
theorem answers_eq_filter_instance :
    sameAnswers (appendCore (appendCore [] exBlock0) exBlock1)
      [ (.outPoint ⟨5, 0⟩, .cell ⟨1, 3, ⟨1, ⟨2, [5]⟩, some ⟨1, [1]⟩, [9]⟩⟩),
        (.cellLock ⟨2, [5]⟩ 1 3 0, .tx 5), (.cellType ⟨1, [1]⟩ 1 3 0, .tx 5),
        (.txLock ⟨1, [1]⟩ 0 0 0 .output, .tx 1), (.txLock ⟨1, [1]⟩ 1 1 0 .input, .tx 3),
        (.txLock ⟨1, [1]⟩ 1 1 0 .output, .tx 3), (.txType ⟨2, [5]⟩ 1 1 0 .output, .tx 3),
        (.txLock ⟨1, [1, 2]⟩ 1 1 1 .output, .tx 3),
        (.txLock ⟨1, [1]⟩ 1 2 0 .input, .tx 4), (.txType ⟨2, [5]⟩ 1 2 0 .input, .tx 4),
        (.txLock ⟨1, [1]⟩ 1 2 0 .output, .tx 4),
        (.txLock ⟨1, [1]⟩ 1 3 0 .input, .tx 5), (.txLock ⟨1, [1, 2]⟩ 1 3 1 .input, .tx 5),
        (.txLock ⟨2, [5]⟩ 1 3 0 .output, .tx 5), (.txType ⟨1, [1]⟩ 1 3 0 .output, .tx 5) ] = true := by
  decide +kernel

/-- `rollback_append` on the same chain: rolling back exBlock1 restores every answer row and the
tip of the state before it was appended (ConsumedOutPoint residue stays behind).
(A kernel-evaluated sanity instance of the theorem above.) -/
theorem rollback_append_instance :
    sameAnswers (rollback (appendCore (appendCore [] exBlock0) exBlock1)) (appendCore [] exBlock0) = true ∧
    tip (rollback (appendCore (appendCore [] exBlock0) exBlock1)) = tip (appendCore [] exBlock0) ∧
    get (rollback (appendCore (appendCore [] exBlock0) exBlock1)) (.consumed 1 ⟨3, 0⟩) ≠ none := by
  decide +kernel

/-! ## Round 3: type-script search, ORDER, LIMIT / CURSOR, get_transactions, get_cells_capacity -/

/-- **(a) `get_cells` by TYPE script = filter over the replayed live set** (exact mode, ANY cell
filter; for a type search the filter script and `script_len_range` apply to the LOCK script).
PARTIAL in scope only: exact search mode (prefix mode over-matches: known finding). -/
theorem get_cells_type_eq_filter_partial (keep interval : Nat) (blocks : List Block)
    (ok : ChainOK2 keep interval [] blocks) (q : Script) (f : Filter) :
    ∃ l, cellRows (blocks.foldl (append keep interval) []) false q true f false
        (scan (blocks.foldl (append keep interval) []) (cellPrefix false q)) = some l ∧
      ∀ a : CellAns, a ∈ l ↔
        ∃ c : Cell, replayLive blocks a.op = some c ∧ c.out.type = some q ∧ cellPasses f false false c = true ∧
          a.cell = c ∧ a.key = (Key.cellType q c.bn c.txIdx a.op.idx).bytes :=
  getCellsType_exact_eq_replay keep interval blocks ok q f

def exBlock1T : Block :=
  ⟨1, 11, [⟨2, [⟨0, 4294967295⟩], [⟨5000, ⟨1, [1]⟩, some ⟨2, [5]⟩, []⟩]⟩,
           ⟨3, [⟨1, 0⟩], [⟨100, ⟨1, [1]⟩, some ⟨2, [5]⟩, [7]⟩, ⟨250, ⟨1, [1, 2]⟩, some ⟨2, [5, 0]⟩, []⟩]⟩]⟩

/-- not vacuous: a type-script query with a lock-script filter returns two cells, in key order -/
example :
    (cellRows (appendCore (appendCore [] exBlock0') exBlock1T) false ⟨2, [5]⟩ true
        { script := some ⟨1, [1]⟩ } false
        (scan (appendCore (appendCore [] exBlock0') exBlock1T) (cellPrefix false ⟨2, [5]⟩))).map
      (fun l => l.map (fun a => (a.op, a.cell.out.cap))) = some [(⟨2, 0⟩, 5000), (⟨3, 0⟩, 100)] := by
  decide

/-- **(b) ORDER, exact mode** (lock or type search, any filter): the unlimited ascending answer `l`
is STRICTLY sorted by (block_number, tx_index, output_index) and `get_cells` returns `l` for `Asc`
and `l.reverse` for `Desc` whenever `limit ≥ |l|`. `BlockBounded`: u64 block number, at most 2^32
transactions / inputs / outputs (what the wire format allows). PARTIAL: exact mode (the numeric
reading of the key order needs all rows to carry the same script); any mode: `get_cells_order_by_key`. -/
theorem get_cells_order_partial (keep interval : Nat) (blocks : List Block)
    (ok : ChainOK2 keep interval [] blocks) (hb : ∀ b ∈ blocks, BlockBounded b)
    (ls : Bool) (q : Script) (f : Filter) :
    ∃ l, cellRows (blocks.foldl (append keep interval) []) ls q true f false
        (scan (blocks.foldl (append keep interval) []) (cellPrefix ls q)) = some l ∧
      l.Pairwise (fun a b => lex3Lt (a.cell.bn, a.cell.txIdx, a.op.idx) (b.cell.bn, b.cell.txIdx, b.op.idx)) ∧
      ∀ limit, l.length ≤ limit →
        (getCells (blocks.foldl (append keep interval) []) ls q true f false limit none).map (·.1) = some l ∧
        (getCells (blocks.foldl (append keep interval) []) ls q true f true limit none).map (·.1) = some l.reverse :=
  ⟨_, cellRows_chain keep interval blocks ok ls q true f,
    cellAnswers_sorted keep interval blocks ok hb ls q f,
    fun limit hl =>
      ⟨getCells_unlimited _ ls q true f (cellsResolvable_chain keep interval blocks ok ls q true) false limit hl,
       getCells_unlimited _ ls q true f (cellsResolvable_chain keep interval blocks ok ls q true) true limit hl⟩⟩

/-- **(b') ORDER, any mode**: ascending answers are strictly sorted by their keys (the byte strings
returned as `last_cursor`); `Desc` is the reverse. -/
theorem get_cells_order_by_key (keep interval : Nat) (blocks : List Block)
    (ok : ChainOK2 keep interval [] blocks) (hb : ∀ b ∈ blocks, BlockBounded b)
    (ls : Bool) (q : Script) (exact : Bool) (f : Filter) :
    ∃ l, cellRows (blocks.foldl (append keep interval) []) ls q exact f false
        (scan (blocks.foldl (append keep interval) []) (cellPrefix ls q)) = some l ∧
      l.Pairwise (fun a b => bytesLt a.key b.key = true) ∧
      ∀ limit, l.length ≤ limit →
        (getCells (blocks.foldl (append keep interval) []) ls q exact f false limit none).map (·.1) = some l ∧
        (getCells (blocks.foldl (append keep interval) []) ls q exact f true limit none).map (·.1) = some l.reverse :=
  ⟨_, cellRows_chain keep interval blocks ok ls q exact f,
    cellAnswers_sorted_key keep interval blocks hb ls q exact f,
    fun limit hl =>
      ⟨getCells_unlimited _ ls q exact f (cellsResolvable_chain keep interval blocks ok ls q exact) false limit hl,
       getCells_unlimited _ ls q exact f (cellsResolvable_chain keep interval blocks ok ls q exact) true limit hl⟩⟩

theorem blockBounded_ex : ∀ b ∈ [exBlock0', exBlock1T], BlockBounded b := by
  intro b hb
  simp only [List.mem_cons, List.not_mem_nil, or_false] at hb
  rcases hb with rfl | rfl <;> exact blockBounded_of_B _ (by decide)

theorem chainOK2_ex : ChainOK2 1 1 [] [exBlock0', exBlock1T] :=
  ⟨wfAppend2_of_B _ _ (by decide), wfAppend2_of_B _ _ (by decide), trivial⟩

/-- not vacuous: the hypotheses hold for a two-block chain, and `Desc` really reverses a 2-cell answer -/
example :
    (∀ b ∈ [exBlock0', exBlock1T], BlockBounded b) ∧ ChainOK2 1 1 [] [exBlock0', exBlock1T] ∧
    (getCells ([exBlock0', exBlock1T].foldl (append 1 1) []) false ⟨2, [5]⟩ true {} true 10 none).map
      (fun r => r.1.map (·.op)) = some [⟨3, 0⟩, ⟨2, 0⟩] :=
  ⟨blockBounded_ex, chainOK2_ex, by decide⟩

/-- **(c) LIMIT / CURSOR for `get_cells`**: for every limit ≥ 1, asc or desc, prefix or exact mode,
lock or type search, any filter — calling `get_cells` with `after_cursor = None`, then with the
returned `last_cursor`, and so on until a page comes back empty, terminates within `|S| + 1` calls
(`fuel`), never hits `expect("stored OutPoint")`, and the pages concatenate to EXACTLY the unlimited
answer in the requested direction: no row lost, none duplicated. -/
theorem get_cells_pages_concat (keep interval : Nat) (blocks : List Block)
    (ok : ChainOK2 keep interval [] blocks) (hb : ∀ b ∈ blocks, BlockBounded b)
    (ls : Bool) (q : Script) (exact : Bool) (f : Filter) (desc : Bool) (limit : Nat) (hl : 1 ≤ limit)
    (fuel : Nat) (hf : (blocks.foldl (append keep interval) []).length < fuel) :
    ∃ l pages, cellRows (blocks.foldl (append keep interval) []) ls q exact f false
        (scan (blocks.foldl (append keep interval) []) (cellPrefix ls q)) = some l ∧
      getCellsPages (blocks.foldl (append keep interval) []) ls q exact f desc limit fuel none = some pages ∧
      pages.flatten = (if desc then l.reverse else l) ∧ pages.getLast? = some [] := by
  obtain ⟨fam, hfam, hfm⟩ := cellPrefix_fam ls q
  have hs := scan_strict_chain keep interval blocks hb fam (scriptRaw q) hfm
  rw [← hfam] at hs
  obtain ⟨pages, h1, h2, h3⟩ := getCellsPages_concat _ ls q exact f
    (cellsResolvable_chain keep interval blocks ok ls q exact) hs desc limit hl fuel hf
  exact ⟨_, pages, cellRows_chain keep interval blocks ok ls q exact f, h1, h2, h3⟩

/-- not vacuous: limit 1, descending, on the two-block chain: three calls, pages [3.0] [2.0] [] -/
example :
    (getCellsPages ([exBlock0', exBlock1T].foldl (append 1 1) []) false ⟨2, [5]⟩ true {} true 1 20 none).map
      (fun ps => ps.map (·.map (·.op))) = some [[⟨3, 0⟩], [⟨2, 0⟩], []] := by
  decide

/-- **(c) LIMIT / CURSOR for ungrouped `get_transactions`** (any chain of in-range blocks, prefix or
exact mode, filter script, block range, asc / desc, limit ≥ 1): the page walk terminates with an
empty page and concatenates to exactly the unlimited answer `L` in the requested direction, where
`L` is what one call with `limit ≥ |L|` returns. -/
theorem get_transactions_pages_concat (keep interval : Nat) (blocks : List Block)
    (hb : ∀ b ∈ blocks, BlockBounded b)
    (ls : Bool) (q : Script) (exact : Bool) (fs : Option Script) (br : Option (Nat × Nat))
    (desc : Bool) (limit : Nat) (hl : 1 ≤ limit)
    (fuel : Nat) (hf : (blocks.foldl (append keep interval) []).length < fuel) :
    ∃ L : List TxRow,
      (∀ d lim, L.length ≤ lim →
        (getTxs (blocks.foldl (append keep interval) []) ls q exact fs br d lim none).1 = if d then L.reverse else L) ∧
      (getTxsPages (blocks.foldl (append keep interval) []) ls q exact fs br desc limit fuel none).flatten =
        (if desc then L.reverse else L) ∧
      (getTxsPages (blocks.foldl (append keep interval) []) ls q exact fs br desc limit fuel none).getLast? = some [] := by
  obtain ⟨fam, hfam, hfm⟩ := txPrefix_fam ls q
  have hs := scan_strict_chain keep interval blocks hb fam (scriptRaw q) hfm
  rw [← hfam] at hs
  obtain ⟨h1, h2⟩ := getTxsPages_concat _ ls q exact fs br hs desc limit hl fuel hf
  exact ⟨_, fun d lim hlim => getTxs_unlimited _ ls q exact fs br d lim hlim, h1, h2⟩

def exChainTx : List Block :=
  [exBlock0', ⟨1, 11, [⟨2, [⟨0, 4294967295⟩], []⟩,
      ⟨3, [⟨1, 0⟩], [⟨100, ⟨1, [1]⟩, some ⟨2, [5]⟩, [7]⟩]⟩, ⟨4, [⟨3, 0⟩], []⟩]⟩]

/-- not vacuous: the history of lock `1.1` has four rows; limit 3 gives pages of 3, 1, 0 rows -/
example :
    (getTxsPages (exChainTx.foldl (append 1 1) []) true ⟨1, [1]⟩ true none none false 3 20 none).map
      (·.map (fun r => (r.tx, r.isInput))) = [[(1, false), (3, true), (3, false)], [(4, true)], []] := by
  decide

/-- **(d) `get_transactions` by LOCK script = filter over the replayed transaction history in key
order** (ungrouped, exact mode). `L` = the unlimited ascending answer (what `get_transactions` returns
for `Asc` and any `limit ≥ |L|`; `Desc` returns `L.reverse`). A row is in `L` iff it is a row
`(q, bn, i, io, t) ↦ id` of `replayTxLock blocks` — the chain's history: one `output` row per output
under its lock script, one `input` row per resolved input under the lock script of the spent cell —
such that, when a filter script is given, the SAME cell has that TYPE script (`replayTxType`), and
`bn` is in the block range; and `L` is STRICTLY ascending in (block_number, tx_index, io_index,
io_type) with inputs before outputs. PARTIAL in scope only: exact mode, ungrouped. -/
theorem get_transactions_eq_filter_partial (keep interval : Nat) (blocks : List Block)
    (ok : ChainOK3 keep interval [] blocks) (okT : ChainOK3T keep interval [] blocks)
    (hb : ∀ b ∈ blocks, BlockBounded b)
    (q : Script) (fs : Option Script) (br : Option (Nat × Nat)) :
    ∃ L : List TxRow,
      (∀ d lim, L.length ≤ lim →
        (getTxs (blocks.foldl (append keep interval) []) true q true fs br d lim none).1 = if d then L.reverse else L) ∧
      (∀ r, r ∈ L ↔ ∃ bn i io t id, replayTxLock blocks q bn i io t = some id ∧
        (∀ f, fs = some f → (replayTxType blocks f bn i io t).isSome = true) ∧ inRange br bn = true ∧
        r = txRowOfLock q bn i io t id) ∧
      L.Pairwise (fun a b => lex4Lt (a.bn, a.txIdx, a.io, if a.isInput then 0 else 1)
        (b.bn, b.txIdx, b.io, if b.isInput then 0 else 1)) :=
  ⟨_, fun d lim hlim => getTxs_unlimited _ true q true fs br d lim hlim,
    fun r => getTxsLock_exact_eq_replay keep interval blocks ok okT q fs br r,
    getTxsLock_exact_sorted keep interval blocks hb q fs br⟩

/-- **(d) the same by TYPE script** (the filter script is then a LOCK script) -/
theorem get_transactions_type_eq_filter_partial (keep interval : Nat) (blocks : List Block)
    (ok : ChainOK3 keep interval [] blocks) (okT : ChainOK3T keep interval [] blocks)
    (hb : ∀ b ∈ blocks, BlockBounded b)
    (q : Script) (fs : Option Script) (br : Option (Nat × Nat)) :
    ∃ L : List TxRow,
      (∀ d lim, L.length ≤ lim →
        (getTxs (blocks.foldl (append keep interval) []) false q true fs br d lim none).1 = if d then L.reverse else L) ∧
      (∀ r, r ∈ L ↔ ∃ bn i io t id, replayTxType blocks q bn i io t = some id ∧
        (∀ f, fs = some f → (replayTxLock blocks f bn i io t).isSome = true) ∧ inRange br bn = true ∧
        r = txRowOfType q bn i io t id) ∧
      L.Pairwise (fun a b => lex4Lt (a.bn, a.txIdx, a.io, if a.isInput then 0 else 1)
        (b.bn, b.txIdx, b.io, if b.isInput then 0 else 1)) :=
  ⟨_, fun d lim hlim => getTxs_unlimited _ false q true fs br d lim hlim,
    fun r => getTxsType_exact_eq_replay keep interval blocks okT ok q fs br r,
    getTxsType_exact_sorted keep interval blocks hb q fs br⟩

/-- not vacuous: the chain satisfies all three hypotheses, and with the TYPE filter `2.5` the lock
history of `1.1` keeps exactly the two rows of the typed cell 3.0 (created by tx 3, spent by tx 4) -/
example :
    ChainOK3 1 1 [] exChainTx ∧ ChainOK3T 1 1 [] exChainTx ∧ (∀ b ∈ exChainTx, BlockBounded b) ∧
    ((getTxs (exChainTx.foldl (append 1 1) []) true ⟨1, [1]⟩ true (some ⟨2, [5]⟩) none false 10 none).1.map
      (fun r => (r.tx, r.bn, r.txIdx, r.io, r.isInput))) = [(3, 1, 1, 0, false), (4, 1, 2, 0, true)] := by
  have h := chainOK_of_checked 1 1 exChainTx [] (by decide)
  refine ⟨h.2.1, h.2.2, ?_, by decide⟩
  intro b hb
  simp only [exChainTx, List.mem_cons, List.not_mem_nil, or_false] at hb
  rcases hb with rfl | rfl <;> exact blockBounded_of_B _ (by decide)


/-- not vacuous (TYPE search with a LOCK filter): the type history of `2.5` filtered by lock `1.1` -/
example :
    ((getTxs (exChainTx.foldl (append 1 1) []) false ⟨2, [5]⟩ true (some ⟨1, [1]⟩) (some (1, 2)) true 10 none).1.map
      (fun r => (r.tx, r.bn, r.txIdx, r.io, r.isInput))) = [(4, 1, 2, 0, true), (3, 1, 1, 0, false)] := by
  decide

/-- not vacuous (prefix mode, by key): the prefix query `1.` meets the rows of scripts `1.1` and
`1.1.2`; limit 2 pages through them without loss -/
example :
    (getCellsPages ([exBlock0', exBlock1T].foldl (append 1 1) []) true ⟨1, []⟩ false {} false 2 20 none).map
      (fun ps => ps.map (·.map (·.op))) = some [[⟨2, 0⟩, ⟨3, 0⟩], [⟨3, 1⟩], []] := by
  decide

/-- **(e) `get_cells_capacity` = sum of the capacities of the `get_cells` answer** — lock or type
search, prefix or exact mode, EVERY filter, `script_len_range` included (the code as repaired by
963ba99; before the repair the two disagreed on the end of `script_len_range`:
`capacity_script_len_range_witness_prefix`). `l` is the unlimited `get_cells` answer, which in exact
mode is the filter over `replayLive` (`get_cells_eq_filter_partial`,
`get_cells_type_eq_filter_partial`). -/
theorem get_cells_capacity_eq_sum (keep interval : Nat) (blocks : List Block)
    (ok : ChainOK2 keep interval [] blocks) (ls : Bool) (q : Script) (exact : Bool) (f : Filter) :
    ∃ l, cellRows (blocks.foldl (append keep interval) []) ls q exact f false
        (scan (blocks.foldl (append keep interval) []) (cellPrefix ls q)) = some l ∧
      getCellsCapacity (blocks.foldl (append keep interval) []) ls q exact f =
        some ((l.map fun a => a.cell.out.cap).foldl (· + ·) 0) := by
  refine ⟨_, cellRows_chain keep interval blocks ok ls q exact f, ?_⟩
  unfold getCellsCapacity
  rw [cellRows_chain keep interval blocks ok ls q exact f]
  rfl

/-- so on a chain store the answer of `get_cells_capacity` is the sum over the `get_cells` page
obtained with a limit that covers the whole answer -/
theorem get_cells_capacity_eq_get_cells (keep interval : Nat) (blocks : List Block)
    (ok : ChainOK2 keep interval [] blocks) (ls : Bool) (q : Script) (exact : Bool) (f : Filter) :
    ∃ l, (∀ limit, l.length ≤ limit →
        (getCells (blocks.foldl (append keep interval) []) ls q exact f false limit none).map (·.1) = some l) ∧
      getCellsCapacity (blocks.foldl (append keep interval) []) ls q exact f =
        some ((l.map fun a => a.cell.out.cap).foldl (· + ·) 0) := by
  obtain ⟨l, h1, h2⟩ := get_cells_capacity_eq_sum keep interval blocks ok ls q exact f
  rw [cellRows_chain keep interval blocks ok ls q exact f] at h1
  cases h1
  exact ⟨_, fun limit hl => getCells_unlimited _ ls q exact f
    (cellsResolvable_chain keep interval blocks ok ls q exact) false limit hl, h2⟩

example :
    getCellsCapacity ([exBlock0', exBlock1T].foldl (append 1 1) []) false ⟨2, [5]⟩ true
      { capRange := some (100, 5001), scriptLenRange := some (34, 35) } = some 5100 := by
  decide

/-! ## appends AND rollbacks -/

/-- **the answers follow the main chain through reorganisations.** `Followed keep interval S bl`:
`S` is reached from the empty store by any interleaving of (i) `append b` and (ii) `append b` followed
by `rollback` (a block of a branch that is abandoned again), every block passing the driver's
per-append checks on the ACTUAL store (ConsumedOutPoint residue of earlier rollbacks and the effects of
the automatic prune included); `bl` is the main chain (the blocks of kind (i)). Then every answer row
of `S` is the replay spec of `bl`: the OutPoint rows are `replayLive bl`, the Tx*Script rows are
`replayTxLock bl` / `replayTxType bl`, and the Cell*Script rows index exactly the replayed live cells.
PARTIAL: only rollbacks of the block appended LAST (reorganisations of depth 1, arbitrarily many of
them); a rollback two or more blocks deep is covered by the correspondence + rollback oracle only. -/
theorem answers_after_reorgs_partial (keep interval : Nat) (S : Store) (bl : List Block)
    (h : Followed keep interval S bl) :
    (∀ op, get S (.outPoint op) = (replayLive bl op).map Val.cell) ∧
    (∀ sc bn i io t, get S (.txLock sc bn i io t) = (replayTxLock bl sc bn i io t).map Val.tx) ∧
    (∀ sc bn i io t, get S (.txType sc bn i io t) = (replayTxType bl sc bn i io t).map Val.tx) ∧
    (∀ sc bn txi io t, get S (.cellLock sc bn txi io) = some (.tx t) ↔
      ∃ c : Cell, replayLive bl ⟨t, io⟩ = some c ∧ c.out.lock = sc ∧ c.bn = bn ∧ c.txIdx = txi) ∧
    (∀ sc bn txi io t, get S (.cellType sc bn txi io) = some (.tx t) ↔
      ∃ c : Cell, replayLive bl ⟨t, io⟩ = some c ∧ c.out.type = some sc ∧ c.bn = bn ∧ c.txIdx = txi) := by
  obtain ⟨heq, _, c2, c3, c3t⟩ := followed_spec keep interval S bl h
  have hrep := outPoint_eq_replay keep interval bl c2
  have hcell : ∀ (op : OutPoint) (c : Cell),
      get (bl.foldl (append keep interval) []) (.outPoint op) = some (.cell c) ↔ replayLive bl op = some c := by
    intro op c
    rw [hrep]
    cases replayLive bl op <;> simp
  refine ⟨fun op => by rw [heq _ rfl]; exact hrep op,
    fun sc bn i io t => by rw [heq _ rfl]; exact txLock_eq_replay keep interval bl c3 sc bn i io t,
    fun sc bn i io t => by rw [heq _ rfl]; exact txType_eq_replay keep interval bl c3t sc bn i io t, ?_, ?_⟩
  · intro sc bn txi io t
    rw [heq _ rfl, lockInv_chain2 keep interval bl [] lockInv_empty c2 sc bn txi io t]
    simp only [hcell]
  · intro sc bn txi io t
    rw [heq _ rfl, typeInv_chain2 keep interval bl [] typeInv_empty c2 sc bn txi io t]
    simp only [hcell]

/-- not vacuous: block 0; block 1 (spends 1.0) appended and rolled back; block 1' (spends 1.0 too)
appended on the store that carries the residue of block 1 -/
example :
    let b0 : Block := ⟨0, 10, [⟨1, [⟨0, 4294967295⟩], [⟨1000, ⟨1, [1]⟩, none, []⟩]⟩]⟩
    let b1 : Block := ⟨1, 11, [⟨2, [⟨0, 4294967295⟩], []⟩, ⟨3, [⟨1, 0⟩], [⟨100, ⟨1, [1]⟩, none, []⟩]⟩]⟩
    let b1' : Block := ⟨1, 12, [⟨4, [⟨0, 4294967295⟩], []⟩, ⟨5, [⟨1, 0⟩], [⟨7, ⟨1, [2]⟩, none, []⟩]⟩]⟩
    Followed 1 1 (append 1 1 (rollback (append 1 1 (append 1 1 [] b0) b1)) b1') ([] ++ [b0] ++ [b1']) := by
  intro b0 b1 b1'
  exact Followed.app b1' (Followed.reorg b1 (Followed.app b0 Followed.nil (by decide) (by decide))
    (by decide) (by decide) (by decide)) (by decide) (by decide)


/-! ## the checks the driver evaluates on every generated / real block imply the hypotheses -/

/-- **the `wf` op is sound**: when the decidable checks `a` (`wfAppend2B`), `k` (`freshB2`: fresh
rows, ConsumedOutPoint residue allowed), `d` (`hdrDisjointB`) and `r` (`retentionB`) that the driver
evaluates on the store and the block about to be appended are all true — and the store satisfies the
index invariants, which every chain store does (`lockInv_chain2`, `typeInv_chain2`, `nodup_chain`) —
then the block satisfies the hypotheses of the append-step theorems and rolling it back right after
the FULL `append` (automatic prune included) restores every answer row and the tip. -/
theorem wf_checks_sound (s : Store) (b : Block) (keep interval : Nat)
    (a : wfAppend2B s b = true) (k : freshB2 s b = true) (d : hdrDisjointB s b = true)
    (r : retentionB s b keep = true) (li : LockInv s) (ti : TypeInv s) (hnd : NodupKeys s) :
    WFAppend2 s b ∧ WFRollback2 s b ∧ HdrDisjoint s b ∧
    (∀ key : Key, key.isAnswer = true → get (rollback (append keep interval s b)) key = get s key) ∧
    tip (rollback (append keep interval s b)) = tip s := by
  have wf := wfRollback2_of_B2 s b a k li ti
  have hd := hdrDisjoint_of_B s b d
  exact ⟨wf.toWFAppend2, wf, hd, fun key hk => rollback_append_full_answers wf hd keep interval key hk,
    rollback_append_full_tip wf hd hnd keep interval (retention_of_B s b keep r)⟩

/-- not vacuous, and on a store WITH residue: block 1 (spending 1.0) was appended and rolled back,
leaving `ConsumedOutPoint(1, 1.0)`; another block 1 spending the same cell passes all checks (the
strong `freshB` does not) -/
example :
    let b0 : Block := ⟨0, 10, [⟨1, [⟨0, 4294967295⟩], [⟨1000, ⟨1, [1]⟩, none, []⟩]⟩]⟩
    let b1 : Block := ⟨1, 11, [⟨2, [⟨0, 4294967295⟩], []⟩, ⟨3, [⟨1, 0⟩], [⟨100, ⟨1, [1]⟩, none, []⟩]⟩]⟩
    let b1' : Block := ⟨1, 12, [⟨4, [⟨0, 4294967295⟩], []⟩, ⟨5, [⟨1, 0⟩], [⟨7, ⟨1, [2]⟩, none, []⟩]⟩]⟩
    let s := rollback (append 1 1 (append 1 1 [] b0) b1)
    get s (.consumed 1 ⟨1, 0⟩) ≠ none ∧ freshB s b1' = false ∧
      wfAppend2B s b1' = true ∧ freshB2 s b1' = true ∧ hdrDisjointB s b1' = true ∧ retentionB s b1' 1 = true := by
  decide

/-- **every chain on which the per-append checks succeeded satisfies the chain hypotheses** of all
the answer theorems (`ChainOK2` for live cells / get_cells / order / paging / capacity, `ChainOK3` and
`ChainOK3T` for the transaction history). The driver evaluates exactly these checks (bits `a`, `k` of
the `wf` op) before every `append` of every synthetic and real-node chain. -/
theorem chain_checks_sound (keep interval : Nat) (blocks : List Block)
    (h : chainCheckedB keep interval [] blocks = true) :
    ChainOK2 keep interval [] blocks ∧ ChainOK3 keep interval [] blocks ∧ ChainOK3T keep interval [] blocks :=
  chainOK_of_checked keep interval blocks [] h

example : chainCheckedB 1 1 [] exChainTx = true := by decide


/-! ## Round 4: the SQL rich-indexer (`util/rich-indexer`), relational model `Model/RichIndexer.lean`

The database is five relations (block, ckb_transaction, output, input, script) with foreign ids;
`Rich.appendBlock` / `Rich.rollback` follow `indexer/{mod,insert,remove}.rs`. -/
section RichIndexer
open CkbVerif.Rich

/-- two blocks for the examples: block 0 creates P (lock A = 1.[1], type T = 2.[5]); block 1 spends
the cellbase of block 0 AFTER an input the index does not know, creates Q (lock B = 3.[9], SAME type
T) and a cell it spends again in the same block -/
def rb0 : Block := ⟨0, 1, [⟨1, [⟨0, 4294967295⟩], [⟨1000, ⟨1, [1]⟩, none, []⟩]⟩,
  ⟨2, [], [⟨500, ⟨1, [1]⟩, some ⟨2, [5]⟩, [7]⟩]⟩]⟩
def rb1 : Block := ⟨1, 2, [⟨3, [⟨0, 4294967295⟩], [⟨1000, ⟨1, [1]⟩, none, []⟩]⟩,
  ⟨4, [⟨99, 0⟩, ⟨1, 0⟩], [⟨500, ⟨3, [9]⟩, some ⟨2, [5]⟩, []⟩, ⟨5, ⟨1, [1]⟩, none, [7, 8]⟩]⟩,
  ⟨5, [⟨4, 1⟩], []⟩]⟩

/-- **rollback removes exactly one layer.** If `d` is `db` plus the rows of one block (`Layer`: the
block row; transaction rows of that block with ids new to `db`; output rows of those transactions;
input rows consumed by them; the older outputs they reference were unspent and are now marked spent;
script rows referenced by an output of the block and by no older output; every older script row is
referenced by an older output as lock OR type script), then `rollback d = db`: EVERY relation is
restored, row ids and `is_spent` flags included — in particular the script-row garbage collection
deletes exactly the script rows the block added and keeps every older one. -/
theorem rich_rollback_layer {db d : DB} {B : RBlock} {nt : List RTx} {no : List ROut} {ni : List RIn}
    {ns : List RScript} {M : List Nat} (L : Layer db B nt no ni ns M d) : Rich.rollback d = db :=
  rollback_layer L

/-- the hypothesis is satisfiable: `appendBlock` of `rb1` (unindexed input first, shared type script,
same-block spend) on top of the database after `rb0` is a layer -/
example : layerCheckB (appendBlock {} rb0) (appendBlock (appendBlock {} rb0) rb1) = true := by decide

/-- **rollback ∘ append = id on the whole database** (every relation the queries read, hence every
answer and the tip), for every database and block for which the appended database is a layer —
`layerCheckB`, the decidable form of `Layer` with the witnesses read off the two databases.
PARTIAL: that `appendBlock db b` IS a layer for every well-formed block (fresh distinct transaction
ids, inputs only to earlier transactions, no double spend) is not proved; the driver evaluates
`layerCheckB` on every appended block of every generated history (bit `l` of the `wf` op). -/
theorem rich_rollback_append_partial (db : DB) (b : Block)
    (h : layerCheckB db (appendBlock db b) = true) :
    Rich.rollback (appendBlock db b) = db ∧ Rich.tip (Rich.rollback (appendBlock db b)) = Rich.tip db := by
  have := rollback_of_layerCheck h
  exact ⟨this, by rw [this]⟩

example : Rich.rollback (appendBlock (appendBlock {} rb0) rb1) = appendBlock {} rb0 :=
  (rich_rollback_append_partial _ _ (by decide)).1

/-- **script-row garbage collection**: `rollback_block` deletes a script id iff an output row it
removes referenced it (as lock or type) and NO remaining output row references it as lock OR as type
script. -/
theorem rich_script_gc_iff (removed remaining : List ROut) (sid : Nat) :
    sid ∈ scriptsToRemove removed remaining ↔
      (∃ o ∈ removed, o.lockId = some sid ∨ o.typeId = some sid) ∧
      ¬ ∃ o ∈ remaining, o.lockId = some sid ∨ o.typeId = some sid := by
  rw [mem_scriptsToRemove]
  constructor
  · rintro ⟨h1, h2⟩
    refine ⟨h1, fun h => ?_⟩
    rw [(scriptReferenced_iff _ _).mpr h] at h2
    cases h2
  · rintro ⟨h1, h2⟩
    exact ⟨h1, Bool.eq_false_iff.mpr fun h => h2 ((scriptReferenced_iff _ _).mp h)⟩

example : scriptsToRemove [⟨3, 2, 0, 5, some 1, some 2, [], 0⟩] [⟨1, 1, 0, 5, some 4, some 2, [], 0⟩] = [1] := by
  decide

/-- the seeded change m3 (`script_exists_in_output` testing `lock_script_id` in both queries) breaks
the identity: with `rollbackLockOnly` the script row of T — referenced by the surviving cell P only as
its TYPE script — is deleted, so P's `type_script_id` dangles and a search by type T finds nothing. -/
theorem rich_gc_lock_only_witness :
    let db := appendBlock {} rb0
    layerCheckB db (appendBlock db rb1) = true ∧ rollbackLockOnly (appendBlock db rb1) ≠ db ∧
      (cellRows db false .exact ⟨2, [5]⟩ {}).length = 1 ∧
      (cellRows (rollbackLockOnly (appendBlock db rb1)) false .exact ⟨2, [5]⟩ {}).length = 0 := by
  decide

/-- the defect repaired by 8589800 (`break` at the first input whose previous output is not in the
index): with the old loop (`appendBlockPrefix`) the cell 1.0, spent by the SECOND input of tx 4, stays
live; with the repaired loop it is dead. -/
theorem rich_break_witness_prefix :
    let db := appendBlock {} rb0
    liveCell db ⟨1, 0⟩ ≠ none ∧ liveCell (appendBlock db rb1) ⟨1, 0⟩ = none ∧
      liveCell (appendBlockPrefix db rb1) ⟨1, 0⟩ ≠ none := by
  decide

/-- NEW deviation of the code (prefix mode, `get_binary_upper_boundary` of an all-0xff string): the
searched args `ff` are a prefix of the cell's args `ff ff`, but the range `[ff, ff ff)` excludes them —
the live cell is not returned. -/
theorem rich_prefix_allff_witness :
    isPrefix [255] [255, 255] = true ∧ inPrefixRange [255] [255, 255] = false ∧
    (let db := appendBlock {} ⟨0, 1, [⟨1, [⟨0, 4294967295⟩], [⟨100, ⟨1, [255, 255]⟩, none, []⟩]⟩]⟩
     liveCell db ⟨1, 0⟩ ≠ none ∧ cellRows db true .pre ⟨1, [255]⟩ {} = []) := by
  decide

/-- the defect repaired by 706cf75 (F24; `getTxsPreF24` = the old cursor arithmetic: the offset
counted only the rows of the last transaction INSIDE the current page): with limit 1 and a transaction
with two matching cells, the third call repeats the second page — the walk never reaches an empty
page and never leaves that transaction. With the repaired arithmetic the same calls advance. -/
theorem rich_txs_cursor_cycle_witness :
    let db := appendBlock (appendBlock {} rb0) rb1
    let p1 := getTxsPreF24 db true .exact ⟨1, [1]⟩ {} false 1 (some (4, 1))
    let p2 := getTxsPreF24 db true .exact ⟨1, [1]⟩ {} false 1 (some p1.2)
    let r1 := getTxs db true .exact ⟨1, [1]⟩ {} false 1 (some (4, 1))
    let r2 := getTxs db true .exact ⟨1, [1]⟩ {} false 1 (some r1.2)
    p1.1 ≠ [] ∧ p2.1 = p1.1 ∧ p2.2 = p1.2 ∧ r1.1 = p1.1 ∧ r1.2 = (4, 2) ∧ r2.1 ≠ r1.1 ∧ r2.2 = (5, 1) := by
  decide

/-- `get_cells_capacity` answers `None` (SUM is NULL) for a search without a matching cell even
though the index has a tip — the key-value indexer answers `Some(0, tip)` -/
theorem rich_capacity_none_witness :
    let db := appendBlock {} rb0
    Rich.tip db = some (0, 1) ∧ getCellsCapacity db true .exact ⟨7, []⟩ {} = none ∧
      getCellsCapacity db false .exact ⟨2, [5]⟩ {} = some 500 := by
  decide

/-- **`get_cells` of the rich-indexer = filter over the live view of the relations** (ANY search mode —
exact, prefix range, partial — any filter, lock or type search, any database with unique transaction
hashes / ids, unique (tx_id, output_index) and resolvable lock ids — `KeysOK`, decidable):
(1) every answer row is the live cell at its out-point (unspent output row joined with its
transaction, block and script rows) with exactly the reported block number, tx index, capacity,
scripts and data, and its searched-family script matches; (2) every live cell whose searched-family
script matches and which passes the filters (read on the cell: `cellPassesR`) is answered.
Answers are in `output.id` order (`cellRows` is a `filterMap` over the output relation).
PARTIAL: `KeysOK` of every reachable database and `liveCell = replayLive` (the replayed chain's live
set, the specification the key-value model is proved to refine) are not proved — the dump and the
answers are compared with the independent chain replay on every generated history. -/
theorem rich_get_cells_eq_filter_partial {db : DB} (ok : KeysOK db) (ls : Bool) (m : Mode) (q : Script)
    (f : Filter) :
    (∀ a ∈ cellRows db ls m q f, liveCell db a.op = some a.cell ∧
      (if ls then scriptMatch m q a.cell.out.lock = true
       else ∃ t, a.cell.out.type = some t ∧ scriptMatch m q t = true)) ∧
    (∀ (op : OutPoint) (c : Cell), liveCell db op = some c →
      (if ls then scriptMatch m q c.out.lock = true else ∃ t, c.out.type = some t ∧ scriptMatch m q t = true) →
      cellPassesR f ls c = true → ∃ a ∈ cellRows db ls m q f, a.op = op ∧ a.cell = c) :=
  ⟨fun a ha => cellRows_sound ok ls m q f a ha, fun op c hl hm hf => cellRows_complete ok ls m q f op c hl hm hf⟩

/-- not vacuous: the database after `rb0`, `rb1` has unique keys, and a type search answers P and Q -/
example : KeysOK (appendBlock (appendBlock {} rb0) rb1) ∧
    (cellRows (appendBlock (appendBlock {} rb0) rb1) false .exact ⟨2, [5]⟩ {}).map (·.op) = [⟨2, 0⟩, ⟨4, 0⟩] := by
  decide

/-- sanity instance (one concrete chain, kernel evaluation): the live view of the relational model,
the OutPoint rows of the key-value model and the replay specification agree on every out-point of
the chain `rb0`, `rb1` (tx 4 has an input the indexes do not know before one they know) -/
theorem rich_kv_agree_instance :
    [(⟨1, 0⟩ : OutPoint), ⟨2, 0⟩, ⟨3, 0⟩, ⟨4, 0⟩, ⟨4, 1⟩, ⟨99, 0⟩].all (fun op =>
      (liveCell (appendBlock (appendBlock {} rb0) rb1) op).map Val.cell =
          get (appendCore (appendCore [] rb0) rb1) (.outPoint op) &&
        liveCell (appendBlock (appendBlock {} rb0) rb1) op = replayLive [rb0, rb1] op) = true := by
  decide +kernel

/-- **ORDER of the rich-indexer's `get_cells`**: when the output rows are in ascending id order (new
rows get `max(id)+1` and are appended), the unlimited ascending answer is STRICTLY ascending in the
cursor `output.id` — the order in which the chain created the cells; `Desc` is its reverse and a
cursor `after` keeps the rows strictly beyond it (`getCells`). -/
theorem rich_get_cells_order (db : DB) (ls : Bool) (m : Mode) (q : Script) (f : Filter)
    (h : (db.outs.map (·.id)).Pairwise (· < ·)) :
    ((cellRows db ls m q f).map (·.cur)).Pairwise (· < ·) :=
  cellRows_sorted ls m q f db.outs h

example : ((appendBlock (appendBlock {} rb0) rb1).outs.map (·.id)).Pairwise (· < ·) ∧
    (cellRows (appendBlock (appendBlock {} rb0) rb1) true .pre ⟨1, []⟩ {}).map (·.cur) = [2, 3] := by
  decide

/-- **LIMIT / CURSOR of the rich-indexer's ungrouped `get_transactions`, repaired cursor (706cf75).**
For EVERY database, search (lock / type, any mode, any filter), order (asc / desc) and limit ≥ 1:
following `last_cursor` from the first call until a page comes back empty terminates (within
`|answer| + 1` calls), every page has at most `limit` rows, and the pages concatenate to EXACTLY the
unlimited ordered answer `sortByTx desc (txRows ..)` — which is a permutation of the matching rows
(each exactly once) in non-decreasing (non-increasing for Desc) `tx_id`. The old arithmetic
(`getTxsPreF24`) cycles: `rich_txs_cursor_cycle_witness`. -/
theorem rich_get_transactions_pages_concat (db : DB) (ls : Bool) (m : Mode) (q : Script) (f : Filter)
    (desc : Bool) (limit fuel : Nat) (hl : 1 ≤ limit)
    (hf : (sortByTx desc (txRows db ls m q f)).length < fuel) :
    (getTxsPages db ls m q f desc limit fuel none).flatten = sortByTx desc (txRows db ls m q f) ∧
    (getTxsPages db ls m q f desc limit fuel none).getLast? = some [] ∧
    (∀ p ∈ getTxsPages db ls m q f desc limit fuel none, p.length ≤ limit) ∧
    (sortByTx desc (txRows db ls m q f)).Perm (txRows db ls m q f) ∧
    SortedTx desc (sortByTx desc (txRows db ls m q f)) := by
  have h := walk_pages db ls m q f desc limit hl fuel [] _ (by simp) hf
  simp only [if_true] at h
  exact ⟨h.1, h.2.1, h.2.2, perm_sortByTx desc _, sorted_sortByTx desc _⟩

/-- not vacuous: limit 1 over the six matching rows of lock `1.[1]` (the walk that cycled before the repair) -/
example :
    (getTxsPages (appendBlock (appendBlock {} rb0) rb1) true .exact ⟨1, [1]⟩ {} false 1 9 none).map
      (·.map fun r => (r.tx, r.isInput, r.io)) =
      [[(1, false, 0)], [(2, false, 0)], [(3, false, 0)], [(4, false, 1)], [(4, true, 1)], [(5, true, 0)], []] := by
  decide

/-- **`get_transactions` of the rich-indexer = filter over the transaction / output / input relations**
(any mode, any filter, lock or type search; rows before ORDER BY / LIMIT, whose paging is
`rich_get_transactions_pages_concat`): a row is answered iff its transaction and block rows exist, the
block number passes `block_range`, and it is (output) a matching output row of that transaction, or
(input) an input row consumed by that transaction whose spent output row matches — searched script by
mode and every output filter read on the SPENT cell. PARTIAL: stated over the relations; that the
input rows are exactly the chain's resolved inputs (`replayTxLock` / `replayTxType` of the key-value
theorems) is not proved (table dumps are compared with the chain replay on every history). -/
theorem rich_get_transactions_rows_iff_partial (db : DB) (ls : Bool) (m : Mode) (q : Script) (f : Filter)
    (r : RTxRow) :
    r ∈ txRows db ls m q f ↔
      ∃ t b, txById db r.txId = some t ∧ blockById db t.blockId = some b ∧
        inRangeC f.blockRange b.number = true ∧ r.tx = t.hash ∧ r.bn = b.number ∧ r.txIdx = t.txIndex ∧
        ((r.isInput = false ∧ ∃ o ∈ db.outs, outMatches db ls m q f o = true ∧ o.txId = r.txId ∧ o.index = r.io) ∨
         (r.isInput = true ∧ ∃ i ∈ db.ins, ∃ o, db.outs.find? (fun o => o.id = i.outputId) = some o ∧
            outMatches db ls m q f o = true ∧ i.consumedTx = r.txId ∧ i.index = r.io)) := by
  rw [mem_txRows]
  constructor
  · rintro ⟨t, b, h1, h2, h3, h4, h5, h6, hu⟩
    exact ⟨t, b, h1, h2, h3, h4, h5, h6, (mem_unionRows db ls m q f _ _ _).mp hu⟩
  · rintro ⟨t, b, h1, h2, h3, h4, h5, h6, hu⟩
    exact ⟨t, b, h1, h2, h3, h4, h5, h6, (mem_unionRows db ls m q f _ _ _).mpr hu⟩

example : (txRows (appendBlock (appendBlock {} rb0) rb1) false .exact ⟨2, [5]⟩ {}).map
    (fun r => (r.tx, r.isInput, r.io)) = [(2, false, 0), (4, false, 0)] := by
  decide

/-- **ORDER for every reachable database**: in every database reached from the empty one by ANY
interleaving of `append` (any block, well-formed or not) and `rollback`, the output rows are in
strictly ascending id order — so the hypothesis of `rich_get_cells_order` always holds: `get_cells`
answers come strictly ascending in the cursor `output.id`, for every history. -/
theorem rich_get_cells_order_reachable {db : DB} (h : Reachable db) (ls : Bool) (m : Mode) (q : Script)
    (f : Filter) : ((cellRows db ls m q f).map (·.cur)).Pairwise (· < ·) :=
  rich_get_cells_order db ls m q f (reachable_outsAsc h)

example : Reachable (Rich.rollback (appendBlock (appendBlock {} rb0) rb1)) :=
  .rollback _ (.append _ _ (.append _ _ .empty))

/-- **towards `KeysOK` of every reachable database** (the hypothesis of
`rich_get_cells_eq_filter_partial`): in every database reached by ANY interleaving of `append` (any
block) and `rollback`, the transaction row ids and the output row ids are strictly ascending, hence
pairwise distinct — clause 2 of `KeysOK` (`(db.txs.map id).Nodup`) holds unconditionally.
PARTIAL: clauses 1 and 3 (unique transaction hashes, unique (tx_id, output_index)) need the delivered
blocks to carry fresh transaction hashes (bit `a` of the `wf` op) and clause 4 (resolvable lock ids)
needs the script-table invariant; they are not proved (checked through the table dumps). -/
theorem rich_reachable_ids_partial {db : DB} (h : Reachable db) :
    (db.txs.map (·.id)).Nodup ∧ (db.outs.map (·.id)).Nodup :=
  ⟨asc_nodup _ (reachable_txsAsc h), asc_nodup _ (reachable_outsAsc h)⟩

end RichIndexer

end CkbVerif.C18
