/-
C10, round 6 — "a crash leaves a state from which the next run CONTINUES", over the combined state
(rows + freezer files + crash cuts) for what happens AFTER the re-open: any number of further whole
passes of `Shared::freeze`, each under ANY data-file limit (so: appends that still fit into the head
file the repair loop of `Freezer::open` ended in — also one it SLIPPED BACK into — then a rollover),
further crashes, clean restarts, chain-service steps in between (`ContRun`, `Lemmas/FreezeCont.lean`).

Class behind these theorems: seeded change r5m1 (`head_id` taken from the INDEX's last entry BEFORE
the repair loop): the first re-open looks fine, the blocks frozen by the NEXT pass are written into
one data file and indexed under another.  In the model the head handle IS `Handle.headId`; the
theorem `reopen_head_handle_is_on_head_id` states what the repaired code guarantees — after every
re-open the in-memory head id / byte count are those of the INDEX's last surviving entry, whose data
file has exactly that length — and `repair_ends_on_last_entry_file` states it for the repair loop
itself (the file the loop's `head` handle is on = the file of the entry `head_id` is read from).
-/
import CkbVerif.Lemmas.FreezeCont
import CkbVerif.Props.C10Files
namespace CkbVerif.C10
open CkbVerif.Store CkbVerif.Freeze CkbVerif.Freezer CkbVerif.FreezeSys

/-- **the data-file limit is invisible**: the combined invariant (hence every accessor answer) does
not depend on `max_size`; a node may run every pass (every start) under another limit -/
theorem data_file_limit_is_invisible (k : Codec) (s : Sys) (chain : List Block) (m : Nat) :
    SysInv (k.withMax m) s chain ↔ SysInv k s chain := sysInv_withMax m

/-- **continue after the crash cut — every accessor, after ANY continuation.**  From any combined
state satisfying the invariant, after ANY run of: crash cuts (INDEX and head data file at any byte
lengths that respect the write order) followed by `Freezer::open`, whole passes under any data-file
limit and stop flag, clean restarts, legal chain-service steps and pass micro-steps — any number of
each, in any order (so: first crash, re-open, n passes, second crash, re-open, more blocks, more
passes, restart …) — every accessor of the state reached answers EVERY block of ITS main chain with
the block, reading the rows or the real files (retrieve + decompress + decode; no `expect` fires);
and these are the answers of ANY other node with the same chain view whose freezer is consistent — in
particular of a node that never froze anything. -/
theorem continue_after_crash_every_accessor (k : Codec) (ok : k.Ok) (s t : Sys) (chain : List Block)
    (h : SysInv k s chain) (r : ContRun k s t) :
    (∀ id blk, OnMain t.rows id blk →
      getBlockS k t id = .some blk ∧ getPackedS k t id = .some blk ∧ getPartS k t id = .some blk ∧
      getHeaderS t id = some blk ∧ getAncestorS t blk.number = some blk ∧
      getBodyS k t id = blk.txs ∧ getTxsHashesS k t id = blk.txs.map (·.id) ∧
      getCellbaseS k t id = blk.txs.head? ∧ getUnclesS k t id = some blk.uncles) ∧
    (∀ (u : Sys) (cu : List Block), SysInv k u cu → u.rows.v = t.rows.v →
      ∀ id blk, OnMain t.rows id blk →
        getBlockS k t id = getBlockS k u id ∧ getPackedS k t id = getPackedS k u id ∧
        getPartS k t id = getPartS k u id ∧ getHeaderS t id = getHeaderS u id ∧
        getAncestorS t blk.number = getAncestorS u blk.number) := by
  obtain ⟨c, hc⟩ := contRun_inv ok h r
  refine ⟨fun id blk hm => ?_, fun u cu hu hv id blk hm => ?_⟩
  · obtain ⟨b, p, q, hh, a⟩ := answers_of_sysInv ok hc id blk hm
    refine ⟨b, p, q, hh, a, ?_, ?_, ?_, ?_⟩ <;>
      simp [getBodyS, getTxsHashesS, getCellbaseS, getUnclesS, q]
  · obtain ⟨b, p, q, hh, a⟩ := answers_of_sysInv ok hc id blk hm
    obtain ⟨b', p', q', hh', a'⟩ := answers_of_sysInv ok hu id blk ((onMain_of_view hv id blk).mpr hm)
    exact ⟨by rw [b, b'], by rw [p, p'], by rw [q, q'], by rw [hh, hh'], by rw [a, a']⟩

/-- the same for transactions: `get_transaction(_with_info)` of a transaction committed on the main
chain of the state reached -/
theorem continue_after_crash_transactions (k : Codec) (ok : k.Ok) (s t : Sys) (chain : List Block)
    (h : SysInv k s chain) (r : ContRun k s t)
    (tx : Nat) (info : TxInfo) (blk : Block) (x : Tx) (hi : t.rows.v.m.txInfo tx = some info)
    (hm : OnMain t.rows info.blockId blk) (hn : info.number = blk.number)
    (hx : blk.txs[info.index]? = some x) : getTxS k t tx = .some (x, info) := by
  obtain ⟨c, hc⟩ := contRun_inv ok h r
  exact tx_of_sysInv ok hc tx info blk x hi hm hn hx

/-- **nothing in a continuation can fail to re-open**: in every state a run reaches, a crash at ANY
cut that respects the write order re-opens (and keeps every synced item), and so does a clean
restart, which keeps every item -/
theorem continuation_always_reopens (k : Codec) (ok : k.Ok) (s t : Sys) (chain : List Block)
    (h : SysInv k s chain) (r : ContRun k s t) :
    (∀ il fl, INDEX_ENTRY_SIZE ≤ il → CutKeepsSynced t il fl →
      ∃ u, stepCrash k t il fl = some u ∧ t.synced ≤ u.top.number ∧ u.rows = t.rows) ∧
    ∃ u, stepReopen k t = some u ∧ u.top.number = t.top.number ∧ u.rows = t.rows := by
  obtain ⟨c, hc⟩ := contRun_inv ok h r
  constructor
  · intro il fl hil hcut
    obtain ⟨u, n, hu, hge, _, hi, hrows, _⟩ := stepCrash_inv ok hc il fl hil hcut
    refine ⟨u, hu, ?_, hrows⟩
    rw [top_number hi.files]
    have := hc.syncedPos
    simp only [List.length_take]
    have := hc.syncedLe
    omega
  · obtain ⟨u, hu, _, hrows, hnum⟩ := stepReopen_inv ok hc
    exact ⟨u, hu, hnum, hrows⟩

/-- **the next run continues, after ANY history** (strengthens `next_run_continues` to any number of
passes, a second — third … — crash, restarts and chain steps before it, and to any data-file limit of
the continuing pass): the pass is again a run, and it appends exactly the main-chain blocks of the
heights `freezer.number(), freezer.number()+1, …` of the freezer as re-opened — contiguous, none
skipped, nothing already frozen changed -/
theorem next_run_continues_after_any_history (k : Codec) (ok : k.Ok) (s t : Sys) (chain : List Block)
    (h : SysInv k s chain) (r : ContRun k s t) (m : Nat) (stopped : Nat → Bool) :
    ContRun k s (pass (k.withMax m) t stopped).1 ∧
    ∃ chain', SysInv k t chain' ∧ t.top.number = chain'.length + 1 ∧
      ∀ thr, thresholdAt t.rows t.top.number = .at thr →
        ∃ new, SysInv k (stepFreeze (k.withMax m) t thr stopped).1 (chain' ++ new) ∧
          (pass (k.withMax m) t stopped).1.top = (stepFreeze (k.withMax m) t thr stopped).1.top ∧
          ∀ j b, new[j]? = some b → getUnfrozen t.rows (t.top.number + j) = some b := by
  obtain ⟨c, hc⟩ := contRun_inv ok h r
  have hc' := (sysInv_withMax (k := k) m).mpr hc
  obtain ⟨_, hq⟩ := pass_is_fileSteps (ok.withMax m) hc' stopped
  have hn := top_number hc.files
  refine ⟨ContRun.pass m stopped r, c, hc, hn, fun thr hthr => ?_⟩
  obtain ⟨new, h1, h2, h3, _⟩ := hq thr hthr
  exact ⟨new, (sysInv_withMax m).mp h1, h2, fun j b hj => by rw [hn]; exact h3 j b hj⟩

/-- **freezer thread, crashes and restarts alone never touch the chain view** (live cells, number
index, tx-info rows, epoch rows), however many passes and crashes -/
theorem chain_view_untouched_by_any_freezer_run (k : Codec) (ok : k.Ok) (s t : Sys) (chain : List Block)
    (h : SysInv k s chain) (r : FreezerRun k s t) :
    t.rows.v = s.rows.v ∧ ∀ id blk, OnMain s.rows id blk →
      getBlockS k t id = .some blk ∧ getPackedS k t id = .some blk ∧ getPartS k t id = .some blk := by
  have hv := freezerRun_view ok h r
  refine ⟨hv, fun id blk hm => ?_⟩
  obtain ⟨hq, _⟩ := continue_after_crash_every_accessor k ok s t chain h r.toCont
  obtain ⟨b, p, q, _⟩ := hq id blk ((onMain_of_view hv id blk).mpr hm)
  exact ⟨b, p, q⟩

/-- **after every re-open (and every pass) the head handle is on `head_id`**: in every state a run
reaches, the in-memory `head_id` / `head.bytes` are the file id / end offset of the INDEX's LAST
entry and that data file has exactly that length — so the next `append` writes at the offset it
indexes, in the file it indexes (what seeded change r5m1 breaks: `head_id` of the entry read BEFORE
the repair loop dropped it) -/
theorem reopen_head_handle_is_on_head_id (k : Codec) (ok : k.Ok) (s t : Sys) (chain : List Block)
    (h : SysInv k s chain) (r : ContRun k s t) :
    ∃ e rest, t.top.d.idx.reverse = e :: rest ∧ t.top.h.headId = e.fid ∧ t.top.h.headBytes = e.off ∧
      (t.top.d.files e.fid).length = e.off ∧ t.top.h.number = t.top.d.idx.length := by
  obtain ⟨c, hc⟩ := contRun_inv ok h r
  obtain ⟨e, rest, hrev⟩ := hc.files.good.rev_ne_nil
  obtain ⟨h1, h2⟩ := hc.files.handle.2 e rest hrev
  exact ⟨e, rest, hrev, h1, h2, hc.files.good.headLen e rest hrev, hc.files.handle.1⟩

/-- **the repair loop ends on the file of the entry it stops at** — on ANY directory content: when
`FreezerFilesBuilder::build`'s loop (started on the file of the INDEX's last entry) returns, the file
its `head` handle is opened on is the file of the first surviving entry (the one `head_id` must be
read from), and the handle's size is that entry's offset -/
theorem repair_ends_on_last_entry_file (files : Nat → Bytes) (e : Entry) (rest : List Entry)
    (rev' : List Entry) (files' : Nat → Bytes) (hf hs : Nat)
    (hr : repair true (e :: rest) files e.fid (files e.fid).length = some (rev', files', hf, hs)) :
    ∃ hd tl, rev' = hd :: tl ∧ hf = hd.fid ∧ hs = hd.off ∧ (files' hd.fid).length = hd.off := by
  rw [repair_eq_table] at hr
  unfold repairTable at hr
  split at hr
  · rename_i e' rest' hlf
    cases hr
    obtain ⟨pre, e'', rest'', _, hr', hfit, _⟩ := lastFit_some files _ _ hlf
    cases hr'
    refine ⟨e', rest', rfl, rfl, rfl, ?_⟩
    rw [setFile_same, List.length_take]
    have := (fits_iff files e').mp hfit
    omega
  · cases hr

/-! ### non-vacuity (kernel-evaluated on the executable model with the concrete codec) -/

open FilesWitness Witness FreezeSys.Demo in
/-- on the witness chain: the append of block 1 crashes with its index entry on disk and its data
file missing (`cutAt … indexNoData`): the re-open drops the entry (number 1); the recovery pass under
a limit the block exactly fits (`fitLimit`), a clean restart, a second pass (idle) and another
restart end with number 2 and every accessor answering block 1 from the files -/
example :
    ((cutAt demoCodec y0 1 (.indexNoData false true)).bind fun t =>
      (contRun demoCodec t [.pass (fitLimit demoCodec t 1) (fun _ => false), .reopen,
          .pass 1 (fun _ => false), .reopen]).map fun u =>
        (t.top.number == 1 && u.top.number == 2 && u.synced == 2 && !u.rows.body 1 &&
         getBlockS demoCodec u 1 == .some b1 && getPartS demoCodec u 1 == .some b1 &&
         getPackedS demoCodec u 1 == .some b1)) = some true := by
  decide +kernel

open FilesWitness FreezeSys.Demo in
/-- the hypotheses of the theorems are satisfiable: the witness state satisfies the invariant (it is
reachable), and a pass / restart / pass history from it is a `ContRun` -/
example : ∃ chain, SysInv demoCodec ⟨startState (replay [Witness.g]) [0], top0, 1⟩ chain ∧
    ∃ t, ContRun demoCodec ⟨startState (replay [Witness.g]) [0], top0, 1⟩ t := by
  obtain ⟨c, hc⟩ : ∃ chain, SysInv demoCodec ⟨startState (replay [Witness.g]) [0], top0, 1⟩ chain := by
    have hr : SysReach demoCodec ⟨startState (replay [Witness.g]) [0], top0, 1⟩ :=
      SysReach.start Witness.g [] [0] top0
        ⟨by decide, fun _ _ => rfl, fun _ _ => rfl, rfl, rfl, fun _ _ => rfl,
         by intro o ho; simp [deadInputs, Witness.g, Witness.mk] at ho,
         Or.inl rfl, by decide, fun _ => rfl, Or.inl rfl, Or.inr ⟨by decide, rfl⟩⟩
        (ValidChain.nil _) (by
          obtain ⟨t, ht, _⟩ := C09.open_top_empty demoCodec.cfg demoCodec_ok.cfg
          have : top0 = t := by unfold top0; rw [ht]; rfl
          rw [this]; exact ht)
    exact sysInv_reachable demoCodec demoCodec_ok hr
  exact ⟨c, hc, _, ContRun.pass 7 (fun _ => false) (ContRun.refl _)⟩

end CkbVerif.C10
