import CkbVerif.Model.ChainContent

/-!
# C01, continued — the contextual verdict of a block depends on its own chain only

The pipeline theorems use `ok b` = "the contextual verdict of `b` on top of its own verified parent chain". The
implementation does not recompute a chain's state from genesis: it maintains live cells, uncle index and proposal
window incrementally while the main chain switches between branches. Model: `Content` (Model/ChainContent.lean).

* `detach_attach`: detaching a block that passed the verdict restores the view exactly;
* `incremental_eq_replay`: after ANY sequence of attach / detach moves in which every attached block is valid on
  its own chain (in particular: A → B → A' → B' switch-backs, re-attaching an already verified prefix without
  verifying it again), the maintained view equals the replay of the CURRENT main chain alone;
* `verdict_depends_only_on_own_chain`, `verdict_independent_of_history`: hence the verdict the implementation
  computes for a block is the verdict on the replay of that block's ancestors — whatever other branches were
  attached and detached before;
* `m1_breaks_independence`, `m3_breaks_independence`: with `detach` keeping the uncle index (seeded change r5m1),
  resp. a re-attach without cells (r5m3), the statement fails on three-block histories (kernel evaluation).
Tie: the correspondence of the real `attach_block(_cell)` / `detach_block(_cell)` with `attach` / `detach` is
tested through verdicts (harness family `content`: both seeded changes caught), not compared field by field.
-/
namespace CkbVerif.C01Content
open CkbVerif.Content

theorem View.eq_of {a b : View} (h1 : ∀ x, a.live x = b.live x) (h2 : ∀ x, a.uncles x = b.uncles x)
    (h3 : a.props = b.props) : a = b := by
  cases a; cases b
  simp only [View.mk.injEq]
  exact ⟨funext h1, funext h2, h3⟩

/-- **detach_attach**: a block that passed the verdict is detached without trace -/
theorem detach_attach (w0 w1 : Nat) (v : View) (c : Body) (h : verdict w0 w1 v c = true) :
    detach (attach v c) c = v := by
  unfold verdict at h
  simp only [Bool.and_eq_true, List.all_eq_true, Bool.not_eq_true'] at h
  obtain ⟨⟨⟨hsp, hcr⟩, hun⟩, _⟩ := h
  apply View.eq_of
  · intro x
    show (((v.live x && !c.spends.contains x) || c.creates.contains x) && !c.creates.contains x ||
      c.spends.contains x) = v.live x
    by_cases hc : x ∈ c.creates
    · have h1 := hcr x hc
      have hcc : c.creates.contains x = true := List.contains_iff_mem.mpr hc
      rw [hcc, h1.1, h1.2]; rfl
    · have hcc : c.creates.contains x = false := by
        cases hh : c.creates.contains x with
        | false => rfl
        | true => exact absurd (List.contains_iff_mem.mp hh) hc
      by_cases hs : x ∈ c.spends
      · have hss : c.spends.contains x = true := List.contains_iff_mem.mpr hs
        rw [hcc, hss, hsp x hs]; rfl
      · have hss : c.spends.contains x = false := by
          cases hh : c.spends.contains x with
          | false => rfl
          | true => exact absurd (List.contains_iff_mem.mp hh) hs
        rw [hcc, hss]; cases v.live x <;> rfl
  · intro u
    show ((v.uncles u || c.uncles.contains u) && !c.uncles.contains u) = v.uncles u
    by_cases hu : u ∈ c.uncles
    · have huu : c.uncles.contains u = true := List.contains_iff_mem.mpr hu
      rw [huu, hun u hu]; rfl
    · have huu : c.uncles.contains u = false := by
        cases hh : c.uncles.contains u with
        | false => rfl
        | true => exact absurd (List.contains_iff_mem.mp hh) hu
      rw [huu]; cases v.uncles u <;> rfl
  · rfl

/-- every block of the chain passed the verdict on the replay of the blocks below it -/
def ValidChain (w0 w1 : Nat) (g : View) : List Body → Prop
  | [] => True
  | c :: r => verdict w0 w1 (replay g r) c = true ∧ ValidChain w0 w1 g r

theorem validChain_tail {w0 w1 : Nat} {g : View} : ∀ {l : List Body}, ValidChain w0 w1 g l → ValidChain w0 w1 g l.tail
  | [], _ => trivial
  | _ :: _, h => h.2

/-- **incremental_eq_replay**: the incrementally maintained view is the replay of the current main chain, after
every legal sequence of attach / detach moves -/
theorem incremental_eq_replay (w0 w1 : Nat) (g : View) : ∀ (ms : List Move) (s : Inc),
    s.view = replay g s.chain → ValidChain w0 w1 g s.chain → Legal w0 w1 g s.chain ms →
    (moves s ms).view = replay g (moves s ms).chain ∧ ValidChain w0 w1 g (moves s ms).chain := by
  intro ms
  induction ms with
  | nil => intro s hv hc _; exact ⟨hv, hc⟩
  | cons m r ih =>
    intro s hv hc hl
    cases m with
    | attach c =>
      obtain ⟨h1, h2⟩ := hl
      refine ih (move s (.attach c)) ?_ ⟨h1, hc⟩ h2
      show attach s.view c = attach (replay g s.chain) c
      rw [hv]
    | detach =>
      cases hch : s.chain with
      | nil =>
        have hm : move s .detach = s := by simp [move, hch]
        have e : moves s (.detach :: r) = moves (move s .detach) r := rfl
        rw [e, hm]
        refine ih s hv hc ?_
        have : Legal w0 w1 g s.chain.tail r := hl
        rw [hch] at this ⊢; exact this
      | cons c rest =>
        have hm : move s .detach = { view := detach s.view c, chain := rest } := by simp [move, hch]
        have e : moves s (.detach :: r) = moves (move s .detach) r := rfl
        rw [e, hm]
        rw [hch] at hc hv
        have hl' : Legal w0 w1 g rest r := by
          have : Legal w0 w1 g s.chain.tail r := hl
          rw [hch] at this; exact this
        refine ih { view := detach s.view c, chain := rest } ?_ hc.2 hl'
        show detach s.view c = replay g rest
        rw [hv]
        exact detach_attach w0 w1 (replay g rest) c hc.1

/-- **verdict_depends_only_on_own_chain**: start at genesis, perform any legal sequence of moves (any number
of branch switches and switch-backs); the verdict the implementation computes for a block `c` on its maintained
view is the verdict on the replay of the current main chain — `c`'s own ancestors — alone -/
theorem verdict_depends_only_on_own_chain (w0 w1 : Nat) (g : View) (ms : List Move)
    (hl : Legal w0 w1 g [] ms) (c : Body) :
    verdict w0 w1 (moves { view := g, chain := [] } ms).view c =
      verdict w0 w1 (replay g (moves { view := g, chain := [] } ms).chain) c := by
  rw [(incremental_eq_replay w0 w1 g ms { view := g, chain := [] } rfl trivial hl).1]

/-- two legal histories that end with the same main chain give every block the same verdict -/
theorem verdict_independent_of_history (w0 w1 : Nat) (g : View) (ms1 ms2 : List Move)
    (h1 : Legal w0 w1 g [] ms1) (h2 : Legal w0 w1 g [] ms2)
    (hsame : (moves { view := g, chain := [] } ms1).chain = (moves { view := g, chain := [] } ms2).chain)
    (c : Body) :
    verdict w0 w1 (moves { view := g, chain := [] } ms1).view c =
      verdict w0 w1 (moves { view := g, chain := [] } ms2).view c := by
  rw [verdict_depends_only_on_own_chain w0 w1 g ms1 h1, verdict_depends_only_on_own_chain w0 w1 g ms2 h2, hsame]

/-! ## Witnesses -/

/-- genesis view: cells 1, 2 live -/
def g0 : View := { live := fun x => x == 1 || x == 2, uncles := fun _ => false, props := [] }
/-- A1 embeds uncle 7 and proposes tx 5; B1 embeds the same uncle -/
def bodyA1 : Body := { spends := [], creates := [], uncles := [7], proposes := [5], commits := [] }
def bodyB1 : Body := { spends := [], creates := [], uncles := [7], proposes := [], commits := [] }
/-- A2, A3: padding; A3 commits tx 5 (proposed two blocks back): spends cell 1, creates cell 10 -/
def bodyPad : Body := { spends := [], creates := [], uncles := [], proposes := [], commits := [] }
def bodyA3 : Body := { spends := [1], creates := [10], uncles := [], proposes := [], commits := [5] }
/-- spends the cell created by A3 -/
def bodyA4 : Body := { spends := [10], creates := [11], uncles := [], proposes := [], commits := [] }

/-- A1 A2 A3 attached, all detached, B1 attached (switch to branch B), detached again, A1 A2 A3 re-attached:
a legal history with a switch-back; the hypotheses of the theorems are satisfiable -/
def switchBack : List Move :=
  [.attach bodyA1, .attach bodyPad, .attach bodyA3, .detach, .detach, .detach, .attach bodyB1, .detach,
   .attach bodyA1, .attach bodyPad, .attach bodyA3]

theorem switchBack_legal : Legal 2 10 g0 [] switchBack := by
  refine ⟨by decide, by decide, by decide, by decide, by decide, by decide, by decide, trivial⟩

example : verdict 2 10 (moves { view := g0, chain := [] } switchBack).view bodyA4 = true ∧
    verdict 2 10 (moves { view := g0, chain := [] } switchBack).view bodyA3 = false := by decide

/-- **m1_breaks_independence** (seeded change r5m1): `detach` that keeps the uncle index. After attach A1 /
detach A1 the maintained view still lists uncle 7, so B1 — valid on its own chain (genesis) — is rejected -/
theorem m1_breaks_independence :
    verdict 2 10 (detachKeepUncles (attach g0 bodyA1) bodyA1) bodyB1 = false ∧
    verdict 2 10 (replay g0 []) bodyB1 = true ∧
    verdict 2 10 (detach (attach g0 bodyA1) bodyA1) bodyB1 = true := by decide

/-- **m3_breaks_independence** (seeded change r5m3): the verified prefix re-attached without its cells. A4
(spends the cell A3 creates) is rejected and a second spend of cell 1 is accepted, although the replay of the
chain A1 A2 A3 says the opposite -/
theorem m3_breaks_independence :
    let v := attachNoCells (attach (attach g0 bodyA1) bodyPad) bodyA3
    verdict 2 10 v bodyA4 = false ∧ verdict 2 10 (replay g0 [bodyA3, bodyPad, bodyA1]) bodyA4 = true ∧
    verdict 2 10 v { bodyA4 with spends := [1], creates := [12] } = true ∧
    verdict 2 10 (replay g0 [bodyA3, bodyPad, bodyA1]) { bodyA4 with spends := [1], creates := [12] } = false := by
  decide

end CkbVerif.C01Content
