/-
C10 — the chain-step hypotheses of `Props/C10.lean` (C10.5) discharged for the model's chain service
`Store.process` through the C02 theorems: what `process` commits for a new best block of ANY branch
is the replay of the new main chain (`C02.process_reorg_eq_replay`), so a reorg whose fork point is
at or above the last frozen block is a legal chain step between freezer micro-steps.

Kept in its own module because it imports `Props/C02.lean` (another property's file).
-/
import CkbVerif.Props.C10
import CkbVerif.Props.C02
namespace CkbVerif.C10
open CkbVerif.Store CkbVerif.Freeze

/-- **`Store.process` of a new best block (extension or reorg, any depth above the frozen height)
keeps the freezer invariant.**  The node's main-chain view is the replay of `g :: rest` (`hv`); the
block tree, the records and the current-epoch condition are exactly the hypotheses of
`C02.process_reorg_eq_replay`; `g :: rest'` is the parent path of the new tip (`hpath`).  `hfork` is
the exclusion (the two chains agree below `freezer.number()`), `hrows` says that side-branch blocks
joining the main chain still have their rows, `hsame` that a hash names one block. -/
theorem process_new_best_keeps_freezer_invariant (s : FS) (r : Reach s)
    (body : Nat → Block) (g : Block) (rest rest' : List Block) (b : Block) (ver : Nat → Bool)
    (hv : s.v.m = (replay (g :: rest)).m)
    (htree : C02.TreeWF body g rest b)
    (hwf : C02.WellFormed g rest)
    (hext : RecsLe (replay (g :: rest)).r s.v.r)
    (hanc : ∀ k, 1 ≤ k → k ≤ b.number →
      s.v.r.bodies (Fork.anc (C02.forkStore body (g :: rest) ver) b.id k) =
        some (body (Fork.anc (C02.forkStore body (g :: rest) ver) b.id k)))
    (hbest : (freshExt (Store.insertBlock s.v.r b) b).td > tdOf (Store.insertBlock s.v.r b) ((replay (g :: rest)).m.tip.getD 0))
    (hnewr : RecsLe s.v.r (C02.recsBest s.v.r b))
    (hatt : ∀ k, k ≤ b.number →
      let a := body (Fork.anc (C02.forkStore body (g :: rest) ver) b.id k)
      epochOf (C02.recsBest s.v.r b) a.id = some a.epochRec ∧ (a.isHead = true ↔ a.epochRec.start = a.number))
    (hcur : b.isHead = true ∨
      (Fork.findFork (C02.forkStore body (g :: rest) ver) rest.length b.id).detached ≠ [] ∨
      (Fork.findFork (C02.forkStore body (g :: rest) ver) rest.length b.id).attached.length > 1 ∨
      (replay (g :: rest)).m.curEpoch = some b.epochRec)
    (hpath : C02.pathTo (C02.forkStore body (g :: rest) ver) body b.id = g :: rest')
    (hnum' : ∀ n (h : n < (g :: rest').length), ((g :: rest')[n]).number = n)
    (hstored' : ∀ blk ∈ g :: rest', (process s.v b).r.bodies blk.id = some blk)
    (hsame : ∀ blk, s.v.r.bodies b.id = some blk → blk = b)
    (hfork : ∀ n, n < frozenNumber s → (g :: rest')[n]? = (g :: rest)[n]?)
    (hrows : ∀ blk ∈ g :: rest', blk ∈ g :: rest ∨ blk.id = b.id ∨ (s.hdr blk.id = true ∧ s.body blk.id = true)) :
    Reach (chainStore s b (process s.v b)) ∧ Inv (chainStore s b (process s.v b)) ∧
    (process s.v b).m = (replay (g :: rest')).m := by
  have hsv : s.v = ⟨(replay (g :: rest)).m, s.v.r⟩ := by
    cases hs : s.v with
    | mk m r' => rw [hs] at hv; simp only at hv; rw [hv]
  have hproc : (process s.v b).m = (replay (g :: rest')).m := by
    rw [hsv, ← hpath]
    exact C02.process_reorg_eq_replay body g rest b s.v.r ver htree hwf hext hanc hbest hnewr hatt hcur
  have h := reorg_above_frozen_height_keeps_freezer_invariant s r b (process s.v b) g rest rest'
    (by rw [hv]) (by rw [hproc]) htree.chain_num hnum' (process_bodies s.v b) hsame hstored' hfork hrows
  exact ⟨h.1, h.2, hproc⟩

end CkbVerif.C10
