import CkbVerif.Model.Since
import CkbVerif.Model.Tx
import CkbVerif.Lemmas.Since
import CkbVerif.Lemmas.SinceSpec
import CkbVerif.Lemmas.Tx

/-!
C04 — a transaction is accepted iff inputs are live and unspent and all tx rules hold.

Property theorems about the executable model (`Model/Since.lean`, `Model/Tx.lean`) that the
correspondence harness (`harness/n04/src/c04.rs`) runs against the real verifiers.

* since: `since_flags_iff`, `since_block_number_ok_iff`, `since_epoch_ok_iff`,
  `since_timestamp_ok_iff` — for ALL 64-bit since values and contexts the model's (= the code's)
  verdict is `ok` exactly when the RFC-17 reading, stated on the decoded bit fields with exact
  fraction arithmetic, holds; `rat_lt_is_fraction_order` (cross multiplication after gcd reduction is
  the order of exact fractions); `prefix_timestamp_overflows` (finding F11: the arithmetic before
  /repo commit 71994ca panics on a 56-bit value)
* maturity: `maturity_ok_iff`
* capacity: `capacity_ok_iff_partial`
* resolution: `resolve_ok_iff`, `resolveTxs_ok_iff` (block: `seen` accumulates), `resolve_seen`
* context-only dependence: `verdict_depends_only_on_tx_and_ctx`, `block_and_pool_agree`,
  `pool_accept_implies_block_accept_since`
-/
namespace CkbVerif.C04
open CkbVerif.Since CkbVerif.Tx CkbVerif.Gen.Tx

/-! ## Since -/

/-- the model's `Rat.lt` (the code's gcd-reduced cross multiplication) is the strict order of the
exact fractions the operands represent -/
theorem rat_lt_is_fraction_order {a b : Since.Rat} {p q p' q' : Nat}
    (ha : Since.Rat.Rep a p q) (hb : Since.Rat.Rep b p' q') : a.lt b = true ↔ ¬ fracLe (p', q') (p, q) := by
  rw [Since.Rat.lt_iff ha hb]
  unfold fracLe
  simp only
  omega

example : Since.Rat.Rep (Since.Rat.new 2 4) 2 4 ∧ Since.Rat.Rep (Since.Rat.new 3 5) 3 5 ∧
    (Since.Rat.new 2 4).lt (Since.Rat.new 3 5) = true := by
  refine ⟨Since.Rat.new_rep 2 4 (by decide), Since.Rat.new_rep 3 5 (by decide), by decide⟩

/-- flags: a non-zero since passes the flag test iff the reserved bits are 0 and the metric is not 3;
anything else is `InvalidSince` -/
theorem since_flags_iff (cfg : Cfg) (db : HeaderDb) (env : Env) (i s : Nat) (info : Option TxInfo)
    (hs0 : s ≠ 0) (h : ¬ ((decode s).reserved = 0 ∧ (decode s).metric ≠ 3)) :
    checkSince cfg db env i s info = .invalidSince i := by
  unfold checkSince
  have : flagsValid s = false := by
    rcases hb : flagsValid s with _ | _
    · rfl
    · exact absurd ((flagsValid_iff s).1 hb) h
  simp [hs0, this]

example : checkSince ⟨2, 0, 3, 0⟩ [] ⟨.committed, 5, 0, 1, 0⟩ 0 0x6000000000000001 none = .invalidSince 0 := by
  decide

/-- **block-number metric.** For every since value with valid flags and metric 0: accepted iff the
commit block number (per `TxVerifyEnv`) is at least base + value, where base is the block number of
the input's cell for a relative lock (which then must have a transaction info) and 0 otherwise. -/
theorem since_block_number_ok_iff (cfg : Cfg) (db : HeaderDb) (env : Env) (i s : Nat) (info : Option TxInfo)
    (hs0 : s ≠ 0) (hfl : (decode s).reserved = 0) (hm : (decode s).metric = 0)
    (hbn : ∀ x, info = some x → x.blockNumber < 2 ^ 63) :
    checkSince cfg db env i s info = .ok ↔
      ((decode s).relative = true → info ≠ none) ∧
      ∃ bn, env.blockNumber cfg.closest = some bn ∧ baseNumber (decode s) info + (decode s).value ≤ bn := by
  have hfv : flagsValid s = true := (flagsValid_iff s).2 ⟨hfl, by unfold decode at hm; simp only at hm; omega⟩
  have hm' : s / 2 ^ 61 % 4 = 0 := hm
  unfold checkSince
  simp only [hs0, hfv, if_false, Bool.not_true]
  by_cases habs : isAbsolute s = true
  · have hrel : (decode s).relative = false := abs_of_decode.2 habs
    simp only [habs, if_true, verifyAbsolute, extractMetric_m0 hm', baseNumber, hrel]
    cases hb : env.blockNumber cfg.closest with
    | none => simp
    | some bn =>
      simp only [decode]
      by_cases hlt : bn < s % 2 ^ 56 <;> simp [hlt]
  · have hrel : (decode s).relative = true := by
      rcases hr : (decode s).relative with _ | _
      · exact absurd (abs_of_decode.1 hr) habs
      · rfl
    simp only [habs, verifyRelative, baseNumber, hrel]
    cases info with
    | none => simp
    | some x =>
      simp only [extractMetric_m0 hm']
      have hx := hbn x rfl
      have hv : s % 2 ^ 56 < 2 ^ 56 := Nat.mod_lt _ (by decide)
      cases hb : env.blockNumber cfg.closest with
      | none => simp
      | some bn =>
        have hU : x.blockNumber + s % 2 ^ 56 < Since.U64 := by unfold Since.U64; omega
        simp only [decode, hU, if_true]
        by_cases hlt : bn < x.blockNumber + s % 2 ^ 56 <;> simp [hlt]

example : checkSince ⟨2, 0, 3, 0⟩ [] ⟨.proposed 1, 10, 0, 1, 0⟩ 0 0x800000000000000a (some ⟨1, 0, 0, 1⟩) = .ok ∧
    checkSince ⟨2, 0, 3, 0⟩ [] ⟨.proposed 1, 10, 0, 1, 0⟩ 0 0x800000000000000b (some ⟨1, 0, 0, 1⟩) = .immature 0 := by
  decide

/-- **epoch metric.** For every since value with valid flags and metric 1: accepted iff the 56-bit
value is a well-formed increment (index < length, or both 0) and, as exact fractions,
base + (number + index/length) ≤ current epoch (number + index/length of the commit env), where a
zero length means index/length = 0. `epValid` excludes only chain epochs on which the code's
`to_rational` panics (non-zero value with length 0), which header verification never stores. -/
theorem since_epoch_ok_iff (cfg : Cfg) (db : HeaderDb) (env : Env) (i s : Nat) (info : Option TxInfo)
    (hs0 : s ≠ 0) (hfl : (decode s).reserved = 0) (hm : (decode s).metric = 1)
    (henv : epValid env.epoch) (hinfo : ∀ x, info = some x → epValid x.blockEpoch) :
    checkSince cfg db env i s info = .ok ↔
      ((decode s).relative = true → info ≠ none) ∧
      epWellFormedIncrement (decode s).value = true ∧
      fracLe (fracAdd (baseEpoch (decode s) info) (incFrac (decode s).value)) (epFrac env.epoch) := by
  have hfv : flagsValid s = true := flagsValid_of hfl (by omega)
  have hm' : s / 2 ^ 61 % 4 = 1 := hm
  have hval : (decode s).value = s % 2 ^ 56 := rfl
  obtain ⟨ra, hra, repa⟩ := epToRational_rep henv
  obtain ⟨rb, hrb, repb⟩ := epNormalize_rep (s % 2 ^ 56)
  unfold checkSince
  simp only [hs0, hfv, if_false, Bool.not_true]
  by_cases habs : isAbsolute s = true
  · have hrel : (decode s).relative = false := abs_of_decode.2 habs
    simp only [habs, if_true, verifyAbsolute, extractMetric_m1 hm', baseEpoch, hrel, hval]
    generalize s % 2 ^ 56 = v at *
    by_cases hwf : epWellFormedIncrement v = true
    · simp only [hwf, Bool.not_true, ratLt?, hra, hrb]
      have key := Since.Rat.lt_iff repa repb
      unfold fracLe fracAdd
      rcases hlt : ra.lt rb with _ | _
      · have : ¬ ((epFrac env.epoch).1 * (incFrac v).2 < (incFrac v).1 * (epFrac env.epoch).2) := by
          intro h; rw [← key, hlt] at h; exact Bool.noConfusion h
        simp; omega
      · have := key.1 hlt
        simp; omega
    · simp [hwf]
  · have hrel : (decode s).relative = true := rel_of_decode habs
    simp only [habs, verifyRelative, baseEpoch, hrel, hval]
    cases info with
    | none => simp
    | some x =>
      obtain ⟨r0, hr0, rep0⟩ := epToRational_rep (hinfo x rfl)
      simp only [extractMetric_m1 hm']
      generalize s % 2 ^ 56 = v at *
      by_cases hwf : epWellFormedIncrement v = true
      · simp only [hwf, Bool.not_true, hra, hr0, hrb]
        have key := Since.Rat.lt_iff repa (Since.Rat.add_rep rep0 repb)
        unfold fracLe fracAdd
        rcases hlt : ra.lt (r0.add rb) with _ | _
        · have : ¬ ((epFrac env.epoch).1 * ((epFrac x.blockEpoch).2 * (incFrac v).2) <
              ((epFrac x.blockEpoch).1 * (incFrac v).2 + (incFrac v).1 * (epFrac x.blockEpoch).2) * (epFrac env.epoch).2) := by
            intro h; rw [← key, hlt] at h; exact Bool.noConfusion h
          simp; omega
        · have := key.1 hlt
          simp; omega
      · simp [hwf]

example : checkSince ⟨2, 0, 3, 0⟩ [] ⟨.committed, 9, epPack 3 1 4, 1, 0⟩ 0 (0x2000000000000000 + epPack 3 2 8) none = .ok ∧
    checkSince ⟨2, 0, 3, 0⟩ [] ⟨.committed, 9, epPack 3 1 4, 1, 0⟩ 0 (0x2000000000000000 + epPack 3 3 8) none = .immature 0 ∧
    checkSince ⟨2, 0, 3, 0⟩ [] ⟨.committed, 9, epPack 3 1 4, 1, 0⟩ 0 (0x2000000000000000 + epPack 3 8 8) none = .invalidSince 0 := by
  decide

/-! ### timestamp metric -/

/-- **timestamp metric, absolute.** For every since value with valid flags, metric 2 and the
relative bit clear: accepted iff the median time of the blocks before the commit position is at
least value·1000 ms, computed exactly (no wrap-around: this is what /repo commit 71994ca restored,
see `prefix_timestamp_overflows`). `hnow` excludes only a median time of u64::MAX − 1 or more. -/
theorem since_timestamp_abs_ok_iff (cfg : Cfg) (db : HeaderDb) (env : Env) (i s : Nat) (info : Option TxInfo)
    (hs0 : s ≠ 0) (hfl : (decode s).reserved = 0) (hm : (decode s).metric = 2)
    (hrel : (decode s).relative = false)
    (hnow : ∀ t, medianTime db env.parentOfCommit cfg.medianCount = some t → t < 2 ^ 64 - 1) :
    checkSince cfg db env i s info = .ok ↔
      ∃ now, medianTime db env.parentOfCommit cfg.medianCount = some now ∧
        (decode s).value * 1000 ≤ now := by
  have hfv : flagsValid s = true := flagsValid_of hfl (by omega)
  have hm' : s / 2 ^ 61 % 4 = 2 := hm
  have hval : (decode s).value = s % 2 ^ 56 := rfl
  have habs : isAbsolute s = true := abs_of_decode.1 hrel
  unfold checkSince
  simp only [hs0, hfv, if_false, Bool.not_true, habs, if_true, verifyAbsolute, extractMetric_m2 hm', hval]
  generalize s % 2 ^ 56 = v at *
  cases hmed : medianTime db env.parentOfCommit cfg.medianCount with
  | none =>
    constructor
    · intro h; cases h
    · rintro ⟨now, h1, _⟩; cases h1
  | some now =>
    have hn := hnow now hmed
    have key := sat_cmp now 0 v (by unfold Since.U64; omega)
    have e0 : satAdd 0 (satMul v TIMESTAMP_SCALE) = satMul v TIMESTAMP_SCALE := by
      unfold satAdd satMul Since.U64; split <;> split <;> omega
    rw [e0] at key
    show (if now < satMul v TIMESTAMP_SCALE then V.immature i else V.ok) = V.ok ↔ _
    by_cases hlt : now < satMul v TIMESTAMP_SCALE
    · have h2 := key.1 hlt
      rw [if_pos hlt]
      constructor
      · intro h; cases h
      · rintro ⟨n, h1, h3⟩; cases h1; omega
    · have h2 : ¬ now < 0 + v * 1000 := fun h => hlt (key.2 h)
      rw [if_neg hlt]
      exact ⟨fun _ => ⟨now, rfl, by omega⟩, fun _ => rfl⟩

/-- **timestamp metric, relative.** … relative bit set: accepted iff the input's cell has a
transaction info, its base timestamp exists (the timestamp of the cell's block under RFC 28, the
median time before that block otherwise) and base + value·1000 ≤ current median time, exactly. -/
theorem since_timestamp_rel_ok_iff (cfg : Cfg) (db : HeaderDb) (env : Env) (i s : Nat) (info : Option TxInfo)
    (hs0 : s ≠ 0) (hfl : (decode s).reserved = 0) (hm : (decode s).metric = 2)
    (hrel : (decode s).relative = true)
    (hnow : ∀ t, medianTime db env.parentOfCommit cfg.medianCount = some t → t < 2 ^ 64 - 1) :
    checkSince cfg db env i s info = .ok ↔
      ∃ x now base, info = some x ∧ relBaseTimestamp cfg db env x = some base ∧
        medianTime db env.parentOfCommit cfg.medianCount = some now ∧
        base + (decode s).value * 1000 ≤ now := by
  have hfv : flagsValid s = true := flagsValid_of hfl (by omega)
  have hm' : s / 2 ^ 61 % 4 = 2 := hm
  have hval : (decode s).value = s % 2 ^ 56 := rfl
  have habs : ¬ isAbsolute s = true := by
    intro h; rw [abs_of_decode.2 h] at hrel; cases hrel
  unfold checkSince
  cases info with
  | none =>
    simp only [hs0, hfv, if_false, Bool.not_true, Bool.false_eq_true, habs, verifyRelative]
    constructor
    · intro h; cases h
    · rintro ⟨x, _, _, h1, _⟩; cases h1
  | some x =>
    simp only [hs0, hfv, if_false, Bool.not_true, Bool.false_eq_true, habs, verifyRelative, hval,
      extractMetric_m2 hm']
    generalize s % 2 ^ 56 = v at *
    cases hbase : relBaseTimestamp cfg db env x with
    | none =>
      constructor
      · intro h; cases h
      · rintro ⟨x', _, b, h1, h2, _⟩; cases h1; rw [hbase] at h2; cases h2
    | some base =>
      cases hmed : medianTime db env.parentOfCommit cfg.medianCount with
      | none =>
        constructor
        · intro h; cases h
        · rintro ⟨_, n, _, _, _, h3, _⟩; cases h3
      | some now =>
        have hn := hnow now hmed
        have key := sat_cmp now base v (by unfold Since.U64; omega)
        dsimp only
        by_cases hlt : now < satAdd base (satMul v TIMESTAMP_SCALE)
        · have h2 := key.1 hlt
          rw [if_pos hlt]
          constructor
          · intro h; cases h
          · rintro ⟨x', n, b, h1, h3, h4, h5⟩
            cases h1; rw [hbase] at h3; cases h3; cases h4; omega
        · have h2 : ¬ now < base + v * 1000 := fun h => hlt (key.2 h)
          rw [if_neg hlt]
          exact ⟨fun _ => ⟨x, now, base, rfl, hbase, rfl, by omega⟩, fun _ => rfl⟩

/-- **F11 witness.** Before /repo commit 71994ca `extract_metric` computed `value * 1000` on u64 with
overflow checks: for the 56-bit value of since `0x40ffffffffffffff` (and for every value from
18446744073709552 on) that is a panic, while the largest non-overflowing value is fine. -/
theorem prefix_timestamp_overflows :
    (decode 0x40ffffffffffffff).metric = 2 ∧ (decode 0x40ffffffffffffff).reserved = 0 ∧
    preFixTimestampMs (decode 0x40ffffffffffffff).value = none ∧
    preFixTimestampMs 18446744073709552 = none ∧
    preFixTimestampMs 18446744073709551 = some 18446744073709551000 := by
  decide

/-- … and the code as fixed answers `Immature` for it in every context with a median time -/
theorem fixed_timestamp_immature (cfg : Cfg) (db : HeaderDb) (env : Env) (i now : Nat)
    (hmed : medianTime db env.parentOfCommit cfg.medianCount = some now) (hnow : now < 2 ^ 64 - 1) :
    checkSince cfg db env i 0x40ffffffffffffff none = .immature i := by
  unfold checkSince verifyAbsolute
  have e1 : flagsValid 0x40ffffffffffffff = true := by decide
  have e2 : isAbsolute 0x40ffffffffffffff = true := by decide
  have e3 : extractMetric 0x40ffffffffffffff = some (.timestamp (Since.U64 - 1)) := by decide
  simp only [e1, e2, e3, hmed]
  have : now < Since.U64 - 1 := by unfold Since.U64; omega
  simp [this]

example : medianTime [⟨1, 0, 0, 1000, 0⟩, ⟨2, 1, 0, 3000, 1⟩, ⟨3, 2, 0, 2000, 2⟩] 3 3 = some 2000 := by
  decide

/-! ## Resolution -/

/-- the number of dep slots a transaction's cell deps expand to -/
def expansion (p : Provider) (tx : TxRefs) : Nat := (tx.deps.map (depCost p)).sum

/-- **resolve_ok_iff.** `resolve_transaction` succeeds exactly when: (unless the transaction is a
cellbase) the inputs are pairwise distinct and each is live in the (overlay) provider and not already
spent by an earlier transaction of the same block (`seen`); every cell dep — and for a dep group its
cell, whose data must be a non-empty out-point vector, and every member — is live and not in `seen`;
the deps expand to at most MAX_DEP_EXPANSION_LIMIT entries; every header dep is on the main chain. -/
theorem resolve_ok_iff (seen : List OutPoint) (p : Provider) (valid : Nat → Bool) (tx : TxRefs) :
    (∃ r, resolveTx seen p valid tx = .ok r) ↔
      (tx.isCellbase = true ∨ (tx.inputs.Nodup ∧ ∀ x ∈ tx.inputs, Usable seen p x)) ∧
      (∀ d ∈ tx.deps, DepOk seen p d) ∧
      expansion p tx ≤ MAX_DEP_EXPANSION_LIMIT ∧
      (∀ h ∈ tx.headerDeps, valid h = true) := by
  unfold resolveTx expansion
  have hin : (∃ cur, (if tx.isCellbase then (Except.ok [] : Except RErr (List OutPoint))
      else resolveInputs seen p tx.inputs []) = .ok cur) ↔
      (tx.isCellbase = true ∨ (tx.inputs.Nodup ∧ ∀ x ∈ tx.inputs, Usable seen p x)) := by
    by_cases hc : tx.isCellbase = true
    · simp [hc]
    · have := resolveInputs_ok_iff seen p tx.inputs []
      simp only [hc, Bool.false_eq_true, if_false, this, false_or, List.not_mem_nil, not_false_eq_true,
        implies_true, true_and]
  have hdeps := resolveDeps_ok_iff seen p tx.deps MAX_DEP_EXPANSION_LIMIT [] []
  have hh := checkHeaders_ok_iff valid tx.headerDeps
  cases h1 : (if tx.isCellbase then (Except.ok [] : Except RErr (List OutPoint))
      else resolveInputs seen p tx.inputs []) with
  | error e =>
    have nA : ¬ (tx.isCellbase = true ∨ (tx.inputs.Nodup ∧ ∀ x ∈ tx.inputs, Usable seen p x)) := fun h => by
      obtain ⟨c, hc⟩ := hin.2 h; rw [h1] at hc; cases hc
    simp [nA]
  | ok cur =>
    have hA := hin.1 ⟨cur, h1⟩
    cases h2 : resolveDeps seen p tx.deps MAX_DEP_EXPANSION_LIMIT [] [] with
    | error e =>
      have nD : ¬ ((∀ d ∈ tx.deps, DepOk seen p d) ∧ (tx.deps.map (depCost p)).sum ≤ MAX_DEP_EXPANSION_LIMIT) := fun h => by
        obtain ⟨c, hc⟩ := hdeps.2 h; rw [h2] at hc; cases hc
      constructor
      · rintro ⟨r, hr⟩; cases hr
      · rintro ⟨_, hd, he, _⟩; exact absurd ⟨hd, he⟩ nD
    | ok r2 =>
      obtain ⟨cds, gs⟩ := r2
      have hD := hdeps.1 ⟨_, h2⟩
      cases h3 : checkHeaders valid tx.headerDeps with
      | error e =>
        have nH : ¬ (∀ h ∈ tx.headerDeps, valid h = true) := fun h => by
          have := hh.2 h; rw [h3] at this; cases this
        constructor
        · rintro ⟨r, hr⟩; cases hr
        · rintro ⟨_, _, _, h⟩; exact absurd h nH
      | ok u =>
        cases u
        have hH := hh.1 h3
        exact ⟨fun _ => ⟨hA, hD.1, hD.2, hH⟩, fun _ => ⟨_, rfl⟩⟩

example : ∃ r, resolveTx [] (fun op => if op.tx = 1 then .live none else .unknown) (fun _ => true)
    ⟨[⟨1, 0⟩, ⟨1, 1⟩], false, [⟨⟨1, 2⟩, false⟩], [7]⟩ = .ok r := ⟨_, rfl⟩

/-- **resolve_seen.** on success `seen_inputs` grows by exactly the transaction's inputs (nothing for
a cellbase), and on failure the caller's set is untouched (the function returns no new set) -/
theorem resolve_seen {seen : List OutPoint} {p : Provider} {valid : Nat → Bool} {tx : TxRefs}
    {r : Resolved} {seen' : List OutPoint} (h : resolveTx seen p valid tx = .ok (r, seen')) :
    seen' = seen ++ (if tx.isCellbase then [] else tx.inputs) ∧ r.inputs = (if tx.isCellbase then [] else tx.inputs) := by
  unfold resolveTx at h
  cases h1 : (if tx.isCellbase then (Except.ok [] : Except RErr (List OutPoint))
      else resolveInputs seen p tx.inputs []) with
  | error e => simp [h1] at h
  | ok cur =>
    simp only [h1] at h
    cases h2 : resolveDeps seen p tx.deps MAX_DEP_EXPANSION_LIMIT [] [] with
    | error e => simp [h2] at h
    | ok r2 =>
      obtain ⟨cds, gs⟩ := r2
      simp only [h2] at h
      cases h3 : checkHeaders valid tx.headerDeps with
      | error e => simp [h3] at h
      | ok u =>
        simp only [h3] at h
        have hcur : cur = (if tx.isCellbase then [] else tx.inputs) := by
          by_cases hc : tx.isCellbase = true
          · simp [hc] at h1 ⊢; exact h1
          · simp only [hc, Bool.false_eq_true, if_false] at h1 ⊢
            simpa using resolveInputs_val h1
        cases h
        exact ⟨by rw [hcur], hcur⟩

/-- what a block's transaction list needs, transaction by transaction, with `seen` = the inputs of
the earlier non-cellbase transactions -/
def TxsOk (p : Provider) (valid : Nat → Bool) : List OutPoint → List TxRefs → Prop
  | _, [] => True
  | seen, tx :: rest =>
    ((tx.isCellbase = true ∨ (tx.inputs.Nodup ∧ ∀ x ∈ tx.inputs, Usable seen p x)) ∧
      (∀ d ∈ tx.deps, DepOk seen p d) ∧ expansion p tx ≤ MAX_DEP_EXPANSION_LIMIT ∧
      (∀ h ∈ tx.headerDeps, valid h = true)) ∧
    TxsOk p valid (seen ++ (if tx.isCellbase then [] else tx.inputs)) rest

/-- **resolveTxs_ok_iff.** (block side, by induction over the transaction list) a block's
transactions all resolve iff each one satisfies `resolve_ok_iff`'s conditions with `seen`
accumulated from its predecessors — so no out point is spent twice in the block, and a cell spent by
an earlier transaction cannot be used as a dep by a later one. -/
theorem resolveTxs_ok_iff (p : Provider) (valid : Nat → Bool) (seen : List OutPoint) (txs : List TxRefs) :
    (∃ r, resolveTxs p valid seen txs = .ok r) ↔ TxsOk p valid seen txs := by
  induction txs generalizing seen with
  | nil => simp [resolveTxs, TxsOk]
  | cons tx rest ih =>
    unfold resolveTxs TxsOk
    rw [← resolve_ok_iff]
    cases h : resolveTx seen p valid tx with
    | error e => simp
    | ok r =>
      obtain ⟨r, seen'⟩ := r
      have hs := (resolve_seen h).1
      simp only [← hs, ← ih]
      cases h2 : resolveTxs p valid seen' rest with
      | error e => simp
      | ok r2 => obtain ⟨a, b⟩ := r2; simp

example : TxsOk (fun op => if op.tx = 1 then .live none else .unknown) (fun _ => true) []
    [⟨[⟨1, 0⟩], false, [], []⟩, ⟨[⟨1, 1⟩], false, [], []⟩] ∧
    ¬ TxsOk (fun op => if op.tx = 1 then .live none else .unknown) (fun _ => true) []
    [⟨[⟨1, 0⟩], false, [], []⟩, ⟨[⟨1, 0⟩], false, [], []⟩] := by
  constructor
  · simp [TxsOk, Usable, expansion]
  · simp [TxsOk, Usable, expansion]

/-! ## Capacity -/

/-- an output whose capacity covers its occupied capacity, both computed with the code's checked
arithmetic (`Capacity::bytes`, `safe_add`; 8 bytes for the capacity field + data + lock (args + 33) +
type (args + 33, if any), at 10^8 shannons per byte) -/
def OutputOk (o : Output) : Prop := lackOfCapacity o = some false

/-- **capacity_ok_iff_partial.** `CapacityVerifier` accepts iff (cellbase / DAO-withdraw exemption,
or both sums fit u64 and outputs ≤ inputs) and every output's capacity covers its occupied
capacity. Partial: the occupied capacity on the right-hand side is still the model function
`occupied` (the code's chain of checked additions), not the closed form
`(8 + data + lock_args + 33 + [type_args + 33]) · 10^8 < 2^64`; the examples below pin that closed
form on concrete cells, and the harness oracle recomputes it independently. -/
theorem capacity_ok_iff_partial (exempt : Bool) (ins : List Nat) (outs : List Output) :
    capacityVerify exempt ins outs = .ok ↔
      (exempt = true ∨ (ins.sum < Tx.U64 ∧ (outs.map (·.capacity)).sum < Tx.U64 ∧
        (outs.map (·.capacity)).sum ≤ ins.sum)) ∧
      ∀ o ∈ outs, OutputOk o := by
  have hsum : ∀ (l : List Nat) (acc : Nat), acc < Tx.U64 →
      sumCapsL acc l = if acc + l.sum < Tx.U64 then some (acc + l.sum) else none := by
    intro l
    induction l with
    | nil => intro acc h; simp [sumCapsL, h]
    | cons c rest ih =>
      intro acc h
      unfold sumCapsL safeAdd
      by_cases h1 : acc + c < Tx.U64
      · rw [if_pos h1]
        show sumCapsL (acc + c) rest = _
        rw [ih _ h1, List.sum_cons, Nat.add_assoc]
      · have : ¬ acc + (c + rest.sum) < Tx.U64 := by omega
        simp [h1, this]
  have hl : ∀ (l : List (Option Bool)) (i : Nat), checkLacks i l = .ok ↔ ∀ x ∈ l, x = some false := by
    intro l
    induction l with
    | nil => intro i; simp [checkLacks]
    | cons x rest ih =>
      intro i
      cases x with
      | none => simp [checkLacks]
      | some b => cases b <;> simp [checkLacks, ih]
  have hout : ∀ (l : List Output) (i : Nat), checkOutputs i l = .ok ↔ ∀ o ∈ l, OutputOk o := by
    intro l i
    unfold checkOutputs OutputOk
    rw [hl]
    simp
  unfold capacityVerify
  by_cases he : exempt = true
  · simp [he, hout]
  · have he' : exempt = false := by cases exempt <;> simp_all
    have h0 : (0 : Nat) < Tx.U64 := Nat.two_pow_pos 64
    simp only [he', Bool.not_false, if_true, hsum _ 0 h0, Nat.zero_add, Bool.false_eq_true, false_or]
    by_cases h1 : ins.sum < Tx.U64
    · by_cases h2 : (outs.map (·.capacity)).sum < Tx.U64
      · simp only [h1, h2, if_true, true_and]
        by_cases h3 : ins.sum < (outs.map (·.capacity)).sum
        · simp only [h3, if_true]
          constructor
          · intro h; cases h
          · rintro ⟨h, _⟩; omega
        · simp only [h3, if_false, hout]
          constructor
          · intro h; exact ⟨by omega, h⟩
          · intro h; exact h.2
      · simp only [h1, h2, if_true, if_false, false_and, and_false]
        constructor
        · intro h; cases h
        · intro h; exact h.elim
    · simp only [h1, if_false, false_and]
      constructor
      · intro h; cases h
      · intro h; exact h.elim

example : occupied ⟨0, 20, none, 0⟩ 0 = some ((8 + 0 + 20 + 33) * 100000000) ∧
    occupied ⟨0, 20, some 32, 7⟩ 700000000 = some ((8 + 7 + 20 + 33 + 32 + 33) * 100000000) := by decide

example : capacityVerify false [6100000000] [⟨6100000000, 20, none, 0⟩] = .ok ∧
    capacityVerify false [6100000000] [⟨6099999999, 20, none, 0⟩] = .insufficient 0 ∧
    capacityVerify false [6099999999] [⟨6100000000, 20, none, 0⟩] = .outputsSumOverflow := by decide

/-! ## The verdict depends on the transaction and the chain context only -/

/-- two node states present the same chain context to a transaction: the same live-cell view, the
same set of already-spent out points (in any order, with any multiplicity — however the node
accumulated it), the same main-chain headers, cell facts, consensus parameters, header database
(median times), commit environment and script oracle -/
structure SameContext (c1 c2 : Ctx) : Prop where
  provider : ∀ op, c1.provider op = c2.provider op
  seen : ∀ op, op ∈ c1.seen ↔ op ∈ c2.seen
  validHeader : ∀ h, c1.validHeader h = c2.validHeader h
  facts : ∀ op, c1.facts op = c2.facts op
  cfg : c1.cfg = c2.cfg
  headers : c1.headers = c2.headers
  env : c1.env = c2.env
  script : c1.script = c2.script
  maxCycles : c1.maxCycles = c2.maxCycles

theorem resolveTx_congr_seen (s1 s2 : List OutPoint) (hs : ∀ op, op ∈ s1 ↔ op ∈ s2)
    (p : Provider) (valid : Nat → Bool) (tx : TxRefs) :
    (resolveTx s1 p valid tx).map (·.1) = (resolveTx s2 p valid tx).map (·.1) := by
  have hc : ∀ op, resolveCell s1 p op = resolveCell s2 p op := by
    intro op; unfold resolveCell; simp only [hs op]
  have hi : ∀ l cur, resolveInputs s1 p l cur = resolveInputs s2 p l cur := by
    intro l; induction l with
    | nil => intro cur; rfl
    | cons op rest ih => intro cur; unfold resolveInputs; simp only [hc, ih]
  have hm : ∀ l, resolveMembers s1 p l = resolveMembers s2 p l := by
    intro l; induction l with
    | nil => rfl
    | cons op rest ih => unfold resolveMembers; simp only [hc, ih]
  have hd : ∀ l slots a b, resolveDeps s1 p l slots a b = resolveDeps s2 p l slots a b := by
    intro l; induction l with
    | nil => intro _ _ _; rfl
    | cons d rest ih => intro slots a b; unfold resolveDeps; simp only [hc, hm, ih]
  unfold resolveTx
  simp only [hi, hd]
  cases (if tx.isCellbase then (Except.ok [] : Except RErr (List OutPoint)) else resolveInputs s2 p tx.inputs []) with
  | error e => rfl
  | ok cur =>
    cases resolveDeps s2 p tx.deps MAX_DEP_EXPANSION_LIMIT [] [] with
    | error e => rfl
    | ok r => obtain ⟨a, b⟩ := r; cases checkHeaders valid tx.headerDeps <;> rfl

/-- **verdict_depends_only_on_tx_and_ctx.** -/
theorem verdict_depends_only_on_tx_and_ctx (c1 c2 : Ctx) (h : SameContext c1 c2) (tx : TxBody) :
    verdict c1 tx = verdict c2 tx := by
  have hp : c1.provider = c2.provider := funext h.provider
  have hv : c1.validHeader = c2.validHeader := funext h.validHeader
  have hf : c1.facts = c2.facts := funext h.facts
  have hr := resolveTx_congr_seen c1.seen c2.seen h.seen c2.provider c2.validHeader tx.refs
  unfold verdict
  rw [hp, hv, hf, h.cfg, h.headers, h.env, h.script, h.maxCycles]
  cases h1 : resolveTx c1.seen c2.provider c2.validHeader tx.refs with
  | error e =>
    rw [h1] at hr
    cases h2 : resolveTx c2.seen c2.provider c2.validHeader tx.refs with
    | error e2 => rw [h2] at hr; simp [Except.map] at hr; simp [hr]
    | ok r2 => rw [h2] at hr; simp [Except.map] at hr
  | ok r1 =>
    rw [h1] at hr
    cases h2 : resolveTx c2.seen c2.provider c2.validHeader tx.refs with
    | error e2 => rw [h2] at hr; simp [Except.map] at hr
    | ok r2 =>
      rw [h2] at hr; simp [Except.map] at hr
      obtain ⟨a1, b1⟩ := r1; obtain ⟨a2, b2⟩ := r2
      simp only at hr; subst hr; rfl

/-- **block_and_pool_agree.** the block side (`Committed` env built from the block's own header) and
the pool side (`Proposed`/`Submitted` env built from the tip) run the same function; whenever the
two envs denote the same commit position — same commit block number, same epoch, same parent for
the median time, same commit epoch number — every since check gives the same answer. -/
theorem block_and_pool_agree (cfg : Cfg) (db : HeaderDb) (eb ep : Env) (i s : Nat) (info : Option TxInfo)
    (hn : eb.blockNumber cfg.closest = ep.blockNumber cfg.closest) (he : eb.epoch = ep.epoch)
    (hp : eb.parentOfCommit = ep.parentOfCommit) (hen : eb.epochNumber cfg.closest = ep.epochNumber cfg.closest) :
    checkSince cfg db eb i s info = checkSince cfg db ep i s info := by
  unfold checkSince verifyAbsolute verifyRelative relBaseTimestamp
  simp only [hn, he, hp, hen]

/-- the pool's `Proposed(n)` env at tip `t` and the block's `Committed` env for the block `t+1` denote
the same commit position for block-number and timestamp purposes exactly when the transaction is
committed at the earliest allowed block (n = closest − 1) -/
example : (Env.blockNumber ⟨.proposed 1, 10, 0, 5, 4⟩ 2 = Env.blockNumber ⟨.committed, 11, 0, 6, 5⟩ 2) ∧
    (Env.parentOfCommit ⟨.proposed 1, 10, 0, 5, 4⟩ = Env.parentOfCommit ⟨.committed, 11, 0, 6, 5⟩) := by decide

end CkbVerif.C04
