import CkbVerif.Model.Since
import CkbVerif.Model.Tx
import CkbVerif.Lemmas.Since
import CkbVerif.Lemmas.SinceSpec
import CkbVerif.Lemmas.Tx
import CkbVerif.Lemmas.TxMaturity
import CkbVerif.Lemmas.TxCapacity
import CkbVerif.Lemmas.TxRules
import CkbVerif.Lemmas.TxDao

/-!
C04 — a transaction is accepted iff inputs are live and unspent and all tx rules hold.

Property theorems about the executable model (`Model/Since.lean`, `Model/Tx.lean`) that the
correspondence harness (`harness/n04/src/c04.rs`) runs against the real verifiers.

* since: `since_flags_iff`, `since_block_number_ok_iff`, `since_epoch_ok_iff`,
  `since_timestamp_ok_iff` — for ALL 64-bit since values and contexts the model's (= the code's)
  verdict is `ok` exactly when the RFC-17 reading, stated on the decoded bit fields with exact
  fraction arithmetic, holds; `rat_lt_is_fraction_order` (cross multiplication after gcd reduction is
  the order of exact fractions); `prefix_timestamp_overflows` (finding F11: the arithmetic before
  /repo commit 71994ca panics on a 56-bit value)
* maturity: `cellbase_immature_iff`, `maturity_ok_iff`, `maturity_first_failure`,
  `time_relative_ok_iff`, `since_verify_ok_iff`
* capacity: `occupied_capacity_closed_form`, `output_ok_iff`, `capacity_ok_iff` (closed form, non-partial),
  and the older `capacity_ok_iff_partial`
* context-free rules: `non_contextual_ok_iff`, `non_contextual_first_failure`, `pool_non_contextual_ok_iff`,
  `select_version_ok_iff`, `dao_script_size_ok_iff`, `fee_basic_law`, `fee_cellbase`,
  `capacity_ok_implies_fee`, `pipeline_accept_iff`, `pipeline_first_failure`
* resolution: `resolve_ok_iff`, `resolveTxs_ok_iff` (block: `seen` accumulates), `resolve_seen`
* whole verdict: `verdict_accepted_iff`
* context-only dependence: `verdict_depends_only_on_tx_and_ctx`, `block_and_pool_agree`,
  `pool_accept_implies_block_accept_since`
-/
namespace CkbVerif.C04
open CkbVerif.Since CkbVerif.Tx CkbVerif.Gen.Tx

/-! ## Since -/

/-- the model's `Rat.lt` (the code's gcd-reduced cross multiplication) is the strict order of the
exact fractions the operands represent -/
theorem rat_lt_is_fraction_order {a b : Since.Rat} {p q p' q' : Nat}
    (ha : Since.Rat.Rep a p q) (hb : Since.Rat.Rep b p' q') : a.lt b = true ↔ ¬ fracLe (p', q') (p, q) := by
  rw [Since.Rat.lt_iff ha hb]
  unfold fracLe
  simp only
  omega

example : Since.Rat.Rep (Since.Rat.new 2 4) 2 4 ∧ Since.Rat.Rep (Since.Rat.new 3 5) 3 5 ∧
    (Since.Rat.new 2 4).lt (Since.Rat.new 3 5) = true := by
  refine ⟨Since.Rat.new_rep 2 4 (by decide), Since.Rat.new_rep 3 5 (by decide), by decide⟩

/-- flags: a non-zero since passes the flag test iff the reserved bits are 0 and the metric is not 3;
anything else is `InvalidSince` -/
theorem since_flags_iff (cfg : Cfg) (db : HeaderDb) (env : Env) (i s : Nat) (info : Option TxInfo)
    (hs0 : s ≠ 0) (h : ¬ ((decode s).reserved = 0 ∧ (decode s).metric ≠ 3)) :
    checkSince cfg db env i s info = .invalidSince i := by
  unfold checkSince
  have : flagsValid s = false := by
    rcases hb : flagsValid s with _ | _
    · rfl
    · exact absurd ((flagsValid_iff s).1 hb) h
  simp [hs0, this]

example : checkSince ⟨2, 0, 3, 0⟩ [] ⟨.committed, 5, 0, 1, 0⟩ 0 0x6000000000000001 none = .invalidSince 0 := by
  decide

/-- **block-number metric.** For every since value with valid flags and metric 0: accepted iff the
commit block number (per `TxVerifyEnv`) is at least base + value, where base is the block number of
the input's cell for a relative lock (which then must have a transaction info) and 0 otherwise. -/
theorem since_block_number_ok_iff (cfg : Cfg) (db : HeaderDb) (env : Env) (i s : Nat) (info : Option TxInfo)
    (hs0 : s ≠ 0) (hfl : (decode s).reserved = 0) (hm : (decode s).metric = 0)
    (hbn : ∀ x, info = some x → x.blockNumber < 2 ^ 63) :
    checkSince cfg db env i s info = .ok ↔
      ((decode s).relative = true → info ≠ none) ∧
      ∃ bn, env.blockNumber cfg.closest = some bn ∧ baseNumber (decode s) info + (decode s).value ≤ bn := by
  have hfv : flagsValid s = true := (flagsValid_iff s).2 ⟨hfl, by unfold decode at hm; simp only at hm; omega⟩
  have hm' : s / 2 ^ 61 % 4 = 0 := hm
  unfold checkSince
  simp only [hs0, hfv, if_false, Bool.not_true]
  by_cases habs : isAbsolute s = true
  · have hrel : (decode s).relative = false := abs_of_decode.2 habs
    simp only [habs, if_true, verifyAbsolute, extractMetric_m0 hm', baseNumber, hrel]
    cases hb : env.blockNumber cfg.closest with
    | none => simp
    | some bn =>
      simp only [decode]
      by_cases hlt : bn < s % 2 ^ 56 <;> simp [hlt]
  · have hrel : (decode s).relative = true := by
      rcases hr : (decode s).relative with _ | _
      · exact absurd (abs_of_decode.1 hr) habs
      · rfl
    simp only [habs, verifyRelative, baseNumber, hrel]
    cases info with
    | none => simp
    | some x =>
      simp only [extractMetric_m0 hm']
      have hx := hbn x rfl
      have hv : s % 2 ^ 56 < 2 ^ 56 := Nat.mod_lt _ (by decide)
      cases hb : env.blockNumber cfg.closest with
      | none => simp
      | some bn =>
        have hU : x.blockNumber + s % 2 ^ 56 < Since.U64 := by unfold Since.U64; omega
        simp only [decode, hU, if_true]
        by_cases hlt : bn < x.blockNumber + s % 2 ^ 56 <;> simp [hlt]

example : checkSince ⟨2, 0, 3, 0⟩ [] ⟨.proposed 1, 10, 0, 1, 0⟩ 0 0x800000000000000a (some ⟨1, 0, 0, 1⟩) = .ok ∧
    checkSince ⟨2, 0, 3, 0⟩ [] ⟨.proposed 1, 10, 0, 1, 0⟩ 0 0x800000000000000b (some ⟨1, 0, 0, 1⟩) = .immature 0 := by
  decide

/-- **epoch metric.** For every since value with valid flags and metric 1: accepted iff the 56-bit
value is a well-formed increment (index < length, or both 0) and, as exact fractions,
base + (number + index/length) ≤ current epoch (number + index/length of the commit env), where a
zero length means index/length = 0. `epValid` excludes only chain epochs on which the code's
`to_rational` panics (non-zero value with length 0), which header verification never stores. -/
theorem since_epoch_ok_iff (cfg : Cfg) (db : HeaderDb) (env : Env) (i s : Nat) (info : Option TxInfo)
    (hs0 : s ≠ 0) (hfl : (decode s).reserved = 0) (hm : (decode s).metric = 1)
    (henv : epValid env.epoch) (hinfo : ∀ x, info = some x → epValid x.blockEpoch) :
    checkSince cfg db env i s info = .ok ↔
      ((decode s).relative = true → info ≠ none) ∧
      epWellFormedIncrement (decode s).value = true ∧
      fracLe (fracAdd (baseEpoch (decode s) info) (incFrac (decode s).value)) (epFrac env.epoch) := by
  have hfv : flagsValid s = true := flagsValid_of hfl (by omega)
  have hm' : s / 2 ^ 61 % 4 = 1 := hm
  have hval : (decode s).value = s % 2 ^ 56 := rfl
  obtain ⟨ra, hra, repa⟩ := epToRational_rep henv
  obtain ⟨rb, hrb, repb⟩ := epNormalize_rep (s % 2 ^ 56)
  unfold checkSince
  simp only [hs0, hfv, if_false, Bool.not_true]
  by_cases habs : isAbsolute s = true
  · have hrel : (decode s).relative = false := abs_of_decode.2 habs
    simp only [habs, if_true, verifyAbsolute, extractMetric_m1 hm', baseEpoch, hrel, hval]
    generalize s % 2 ^ 56 = v at *
    by_cases hwf : epWellFormedIncrement v = true
    · simp only [hwf, Bool.not_true, ratLt?, hra, hrb]
      have key := Since.Rat.lt_iff repa repb
      unfold fracLe fracAdd
      rcases hlt : ra.lt rb with _ | _
      · have : ¬ ((epFrac env.epoch).1 * (incFrac v).2 < (incFrac v).1 * (epFrac env.epoch).2) := by
          intro h; rw [← key, hlt] at h; exact Bool.noConfusion h
        simp; omega
      · have := key.1 hlt
        simp; omega
    · simp [hwf]
  · have hrel : (decode s).relative = true := rel_of_decode habs
    simp only [habs, verifyRelative, baseEpoch, hrel, hval]
    cases info with
    | none => simp
    | some x =>
      obtain ⟨r0, hr0, rep0⟩ := epToRational_rep (hinfo x rfl)
      simp only [extractMetric_m1 hm']
      generalize s % 2 ^ 56 = v at *
      by_cases hwf : epWellFormedIncrement v = true
      · simp only [hwf, Bool.not_true, hra, hr0, hrb]
        have key := Since.Rat.lt_iff repa (Since.Rat.add_rep rep0 repb)
        unfold fracLe fracAdd
        rcases hlt : ra.lt (r0.add rb) with _ | _
        · have : ¬ ((epFrac env.epoch).1 * ((epFrac x.blockEpoch).2 * (incFrac v).2) <
              ((epFrac x.blockEpoch).1 * (incFrac v).2 + (incFrac v).1 * (epFrac x.blockEpoch).2) * (epFrac env.epoch).2) := by
            intro h; rw [← key, hlt] at h; exact Bool.noConfusion h
          simp; omega
        · have := key.1 hlt
          simp; omega
      · simp [hwf]

example : checkSince ⟨2, 0, 3, 0⟩ [] ⟨.committed, 9, epPack 3 1 4, 1, 0⟩ 0 (0x2000000000000000 + epPack 3 2 8) none = .ok ∧
    checkSince ⟨2, 0, 3, 0⟩ [] ⟨.committed, 9, epPack 3 1 4, 1, 0⟩ 0 (0x2000000000000000 + epPack 3 3 8) none = .immature 0 ∧
    checkSince ⟨2, 0, 3, 0⟩ [] ⟨.committed, 9, epPack 3 1 4, 1, 0⟩ 0 (0x2000000000000000 + epPack 3 8 8) none = .invalidSince 0 := by
  decide

/-! ### timestamp metric -/

/-- **timestamp metric, absolute.** For every since value with valid flags, metric 2 and the
relative bit clear: accepted iff the median time of the blocks before the commit position is at
least value·1000 ms, computed exactly (no wrap-around: this is what /repo commit 71994ca restored,
see `prefix_timestamp_overflows`). `hnow` excludes only a median time of u64::MAX − 1 or more. -/
theorem since_timestamp_abs_ok_iff (cfg : Cfg) (db : HeaderDb) (env : Env) (i s : Nat) (info : Option TxInfo)
    (hs0 : s ≠ 0) (hfl : (decode s).reserved = 0) (hm : (decode s).metric = 2)
    (hrel : (decode s).relative = false)
    (hnow : ∀ t, medianTime db env.parentOfCommit cfg.medianCount = some t → t < 2 ^ 64 - 1) :
    checkSince cfg db env i s info = .ok ↔
      ∃ now, medianTime db env.parentOfCommit cfg.medianCount = some now ∧
        (decode s).value * 1000 ≤ now := by
  have hfv : flagsValid s = true := flagsValid_of hfl (by omega)
  have hm' : s / 2 ^ 61 % 4 = 2 := hm
  have hval : (decode s).value = s % 2 ^ 56 := rfl
  have habs : isAbsolute s = true := abs_of_decode.1 hrel
  unfold checkSince
  simp only [hs0, hfv, if_false, Bool.not_true, habs, if_true, verifyAbsolute, extractMetric_m2 hm', hval]
  generalize s % 2 ^ 56 = v at *
  cases hmed : medianTime db env.parentOfCommit cfg.medianCount with
  | none =>
    constructor
    · intro h; cases h
    · rintro ⟨now, h1, _⟩; cases h1
  | some now =>
    have hn := hnow now hmed
    have key := sat_cmp now 0 v (by unfold Since.U64; omega)
    have e0 : satAdd 0 (satMul v TIMESTAMP_SCALE) = satMul v TIMESTAMP_SCALE := by
      unfold satAdd satMul Since.U64; split <;> split <;> omega
    rw [e0] at key
    show (if now < satMul v TIMESTAMP_SCALE then V.immature i else V.ok) = V.ok ↔ _
    by_cases hlt : now < satMul v TIMESTAMP_SCALE
    · have h2 := key.1 hlt
      rw [if_pos hlt]
      constructor
      · intro h; cases h
      · rintro ⟨n, h1, h3⟩; cases h1; omega
    · have h2 : ¬ now < 0 + v * 1000 := fun h => hlt (key.2 h)
      rw [if_neg hlt]
      exact ⟨fun _ => ⟨now, rfl, by omega⟩, fun _ => rfl⟩

/-- **timestamp metric, relative.** … relative bit set: accepted iff the input's cell has a
transaction info, its base timestamp exists (the timestamp of the cell's block under RFC 28, the
median time before that block otherwise) and base + value·1000 ≤ current median time, exactly. -/
theorem since_timestamp_rel_ok_iff (cfg : Cfg) (db : HeaderDb) (env : Env) (i s : Nat) (info : Option TxInfo)
    (hs0 : s ≠ 0) (hfl : (decode s).reserved = 0) (hm : (decode s).metric = 2)
    (hrel : (decode s).relative = true)
    (hnow : ∀ t, medianTime db env.parentOfCommit cfg.medianCount = some t → t < 2 ^ 64 - 1) :
    checkSince cfg db env i s info = .ok ↔
      ∃ x now base, info = some x ∧ relBaseTimestamp cfg db env x = some base ∧
        medianTime db env.parentOfCommit cfg.medianCount = some now ∧
        base + (decode s).value * 1000 ≤ now := by
  have hfv : flagsValid s = true := flagsValid_of hfl (by omega)
  have hm' : s / 2 ^ 61 % 4 = 2 := hm
  have hval : (decode s).value = s % 2 ^ 56 := rfl
  have habs : ¬ isAbsolute s = true := by
    intro h; rw [abs_of_decode.2 h] at hrel; cases hrel
  unfold checkSince
  cases info with
  | none =>
    simp only [hs0, hfv, if_false, Bool.not_true, Bool.false_eq_true, habs, verifyRelative]
    constructor
    · intro h; cases h
    · rintro ⟨x, _, _, h1, _⟩; cases h1
  | some x =>
    simp only [hs0, hfv, if_false, Bool.not_true, Bool.false_eq_true, habs, verifyRelative, hval,
      extractMetric_m2 hm']
    generalize s % 2 ^ 56 = v at *
    cases hbase : relBaseTimestamp cfg db env x with
    | none =>
      constructor
      · intro h; cases h
      · rintro ⟨x', _, b, h1, h2, _⟩; cases h1; rw [hbase] at h2; cases h2
    | some base =>
      cases hmed : medianTime db env.parentOfCommit cfg.medianCount with
      | none =>
        constructor
        · intro h; cases h
        · rintro ⟨_, n, _, _, _, h3, _⟩; cases h3
      | some now =>
        have hn := hnow now hmed
        have key := sat_cmp now base v (by unfold Since.U64; omega)
        dsimp only
        by_cases hlt : now < satAdd base (satMul v TIMESTAMP_SCALE)
        · have h2 := key.1 hlt
          rw [if_pos hlt]
          constructor
          · intro h; cases h
          · rintro ⟨x', n, b, h1, h3, h4, h5⟩
            cases h1; rw [hbase] at h3; cases h3; cases h4; omega
        · have h2 : ¬ now < base + v * 1000 := fun h => hlt (key.2 h)
          rw [if_neg hlt]
          exact ⟨fun _ => ⟨x, now, base, rfl, hbase, rfl, by omega⟩, fun _ => rfl⟩

/-- **F11 witness.** Before /repo commit 71994ca `extract_metric` computed `value * 1000` on u64 with
overflow checks: for the 56-bit value of since `0x40ffffffffffffff` (and for every value from
18446744073709552 on) that is a panic, while the largest non-overflowing value is fine. -/
theorem prefix_timestamp_overflows :
    (decode 0x40ffffffffffffff).metric = 2 ∧ (decode 0x40ffffffffffffff).reserved = 0 ∧
    preFixTimestampMs (decode 0x40ffffffffffffff).value = none ∧
    preFixTimestampMs 18446744073709552 = none ∧
    preFixTimestampMs 18446744073709551 = some 18446744073709551000 := by
  decide

/-- … and the code as fixed answers `Immature` for it in every context with a median time -/
theorem fixed_timestamp_immature (cfg : Cfg) (db : HeaderDb) (env : Env) (i now : Nat)
    (hmed : medianTime db env.parentOfCommit cfg.medianCount = some now) (hnow : now < 2 ^ 64 - 1) :
    checkSince cfg db env i 0x40ffffffffffffff none = .immature i := by
  unfold checkSince verifyAbsolute
  have e1 : flagsValid 0x40ffffffffffffff = true := by decide
  have e2 : isAbsolute 0x40ffffffffffffff = true := by decide
  have e3 : extractMetric 0x40ffffffffffffff = some (.timestamp (Since.U64 - 1)) := by decide
  simp only [e1, e2, e3, hmed]
  have : now < Since.U64 - 1 := by unfold Since.U64; omega
  simp [this]

example : medianTime [⟨1, 0, 0, 1000, 0⟩, ⟨2, 1, 0, 3000, 1⟩, ⟨3, 2, 0, 2000, 2⟩] 3 3 = some 2000 := by
  decide

/-! ## Cellbase maturity -/

/-- **cellbase_immature_iff.** the closure `cellbase_immature` of `MaturityVerifier::verify` answers
`true` exactly for a cell that has a transaction info, was created by transaction 0 (the cellbase)
of a block with number > 0, and for which, as exact fractions,
`current epoch < cellbase_maturity + created epoch` — the code's `RationalU256` comparison
(gcd-reduced sum and cross multiplication) is proved to be that exact comparison. The epoch the
code calls "current" is `tx_env.epoch()`: the epoch field of the header the env was built from (the
block itself for `Committed`, the tip for `Submitted`/`Proposed`). `epValid` excludes only packed
epochs on which `to_rational` panics (non-zero with length 0). -/
theorem cellbase_immature_iff (cfg : Cfg) (env : Env) (info : Option TxInfo)
    (hm : epValid cfg.maturity) (henv : epValid env.epoch) (hinfo : InfoValid info) :
    cellbaseImmature cfg env info = some true ↔ CellbaseImmature cfg env info :=
  cellbaseImmature_true_iff cfg env info hm henv hinfo

example : CellbaseImmature ⟨2, epPack 4 0 1, 37, 0⟩ ⟨.committed, 49, epPack 4 9 10, 1, 0⟩
      (some ⟨10, epPack 1 0 10, 7, 0⟩) ∧
    ¬ CellbaseImmature ⟨2, epPack 4 0 1, 37, 0⟩ ⟨.committed, 50, epPack 5 0 10, 1, 0⟩
      (some ⟨10, epPack 1 0 10, 7, 0⟩) := by
  constructor
  · exact ⟨_, rfl, by decide, rfl, by unfold fracLe fracAdd; decide⟩
  · rintro ⟨x, hx, _, _, h⟩
    cases hx
    exact h (by unfold fracLe fracAdd; decide)

/-- **maturity_ok_iff.** `MaturityVerifier::verify` accepts iff no resolved input and no resolved
cell dep (dep-group members included: they are in `resolved_cell_deps`) is an immature cellbase
output; it never panics on valid chain epochs. -/
theorem maturity_ok_iff (cfg : Cfg) (env : Env) (inputs deps : List (Option TxInfo))
    (hm : epValid cfg.maturity) (henv : epValid env.epoch)
    (hin : ∀ x ∈ inputs, InfoValid x) (hdep : ∀ x ∈ deps, InfoValid x) :
    maturityVerify cfg env inputs deps = .ok ↔ ∀ x ∈ inputs ++ deps, ¬ CellbaseImmature cfg env x := by
  unfold maturityVerify
  rcases firstImmature_spec cfg env hm henv inputs hin 0 with ⟨e1, h1⟩ | ⟨k, e1, h1⟩
  · rw [e1]
    rcases firstImmature_spec cfg env hm henv deps hdep 0 with ⟨e2, h2⟩ | ⟨k, e2, h2⟩
    · rw [e2]
      constructor
      · intro _ x hx
        rcases List.mem_append.1 hx with hx | hx
        · exact h1 x hx
        · exact h2 x hx
      · intro _; rfl
    · rw [e2]
      constructor
      · intro h; cases h
      · intro h
        obtain ⟨x, hx, hP⟩ := h2.exists_mem
        exact absurd hP (h x (List.mem_append.2 (Or.inr hx)))
  · rw [e1]
    constructor
    · intro h; cases h
    · intro h
      obtain ⟨x, hx, hP⟩ := h1.exists_mem
      exact absurd hP (h x (List.mem_append.2 (Or.inl hx)))

example : maturityVerify ⟨2, epPack 4 0 1, 37, 0⟩ ⟨.committed, 50, epPack 5 0 10, 1, 0⟩
      [some ⟨10, epPack 1 0 10, 7, 0⟩] [some ⟨10, epPack 1 0 10, 7, 1⟩] = .ok ∧
    maturityVerify ⟨2, epPack 4 0 1, 37, 0⟩ ⟨.committed, 49, epPack 4 9 10, 1, 0⟩
      [some ⟨10, epPack 1 0 10, 7, 1⟩] [none, some ⟨10, epPack 1 0 10, 7, 0⟩] = .cellbaseImmature .cellDeps 1 := by
  decide

/-- **maturity_first_failure.** the error names the first immature position: inputs are examined
before cell deps, each in order (`CellbaseImmaturity { inner: Inputs | CellDeps, index }`). -/
theorem maturity_first_failure (cfg : Cfg) (env : Env) (inputs deps : List (Option TxInfo))
    (hm : epValid cfg.maturity) (henv : epValid env.epoch)
    (hin : ∀ x ∈ inputs, InfoValid x) (hdep : ∀ x ∈ deps, InfoValid x) (i : Nat) :
    (maturityVerify cfg env inputs deps = .cellbaseImmature .inputs i ↔
      FirstAt (CellbaseImmature cfg env) inputs i) ∧
    (maturityVerify cfg env inputs deps = .cellbaseImmature .cellDeps i ↔
      (∀ x ∈ inputs, ¬ CellbaseImmature cfg env x) ∧ FirstAt (CellbaseImmature cfg env) deps i) := by
  unfold maturityVerify
  rcases firstImmature_spec cfg env hm henv inputs hin 0 with ⟨e1, h1⟩ | ⟨k, e1, h1⟩
  · rw [e1]
    have nin : ¬ FirstAt (CellbaseImmature cfg env) inputs i := fun h => by
      obtain ⟨x, hx, hP⟩ := h.exists_mem; exact h1 x hx hP
    rcases firstImmature_spec cfg env hm henv deps hdep 0 with ⟨e2, h2⟩ | ⟨k, e2, h2⟩
    · rw [e2]
      have nd : ¬ FirstAt (CellbaseImmature cfg env) deps i := fun h => by
        obtain ⟨x, hx, hP⟩ := h.exists_mem; exact h2 x hx hP
      refine ⟨⟨(fun h => by cases h), fun h => absurd h nin⟩, ⟨(fun h => by cases h), fun h => absurd h.2 nd⟩⟩
    · rw [e2]
      refine ⟨⟨(fun h => by cases h), fun h => absurd h nin⟩, ⟨?_, ?_⟩⟩
      · intro h
        have : 0 + k = i := by injection h
        have : k = i := by omega
        subst this
        exact ⟨h1, h2⟩
      · rintro ⟨_, h⟩
        have : k = i := h2.unique h
        subst this
        simp
  · rw [e1]
    refine ⟨⟨?_, ?_⟩, ⟨(fun h => by cases h), ?_⟩⟩
    · intro h
      have : 0 + k = i := by injection h
      have : k = i := by omega
      subst this
      exact h1
    · intro h
      have : k = i := h1.unique h
      subst this
      simp
    · rintro ⟨hno, _⟩
      obtain ⟨x, hx, hP⟩ := h1.exists_mem
      exact absurd hP (hno x hx)

/-- `SinceVerifier::verify` accepts iff every input's since check does (first failing input decides) -/
theorem since_verify_ok_iff (cfg : Cfg) (db : HeaderDb) (env : Env) (ins : List (Nat × Option TxInfo)) (i : Nat) :
    sinceVerify cfg db env i ins = .ok ↔
      ∀ k (h : k < ins.length), checkSince cfg db env (i + k) ins[k].1 ins[k].2 = .ok := by
  induction ins generalizing i with
  | nil => simp [sinceVerify]
  | cons a rest ih =>
    obtain ⟨s, info⟩ := a
    unfold sinceVerify
    cases hc : checkSince cfg db env i s info with
    | ok =>
      simp only
      rw [ih]
      constructor
      · intro h k hk
        cases k with
        | zero => simpa using hc
        | succ k =>
          have := h k (by simpa using hk)
          simpa [Nat.add_assoc, Nat.add_comm 1 k] using this
      · intro h k hk
        have := h (k + 1) (by simpa using hk)
        simpa [Nat.add_assoc, Nat.add_comm 1 k] using this
    | invalidSince j =>
      simp only
      constructor
      · intro h; cases h
      · intro h; have := h 0 (by simp); simp [hc] at this
    | immature j =>
      simp only
      constructor
      · intro h; cases h
      · intro h; have := h 0 (by simp); simp [hc] at this
    | cellbaseImmature a j =>
      simp only
      constructor
      · intro h; cases h
      · intro h; have := h 0 (by simp); simp [hc] at this
    | panic =>
      simp only
      constructor
      · intro h; cases h
      · intro h; have := h 0 (by simp); simp [hc] at this

/-- **time_relative_ok_iff.** `TimeRelativeTransactionVerifier::verify` (what a cache hit re-runs
in a block and in the pool) accepts iff the maturity rule holds for all inputs and deps AND every
input's since check passes at the env's commit position. -/
theorem time_relative_ok_iff (cfg : Cfg) (db : HeaderDb) (env : Env)
    (ins : List (Nat × Option TxInfo)) (deps : List (Option TxInfo))
    (hm : epValid cfg.maturity) (henv : epValid env.epoch)
    (hin : ∀ x ∈ ins, InfoValid x.2) (hdep : ∀ x ∈ deps, InfoValid x) :
    timeRelativeVerify cfg db env ins deps = .ok ↔
      (∀ x ∈ ins.map (·.2) ++ deps, ¬ CellbaseImmature cfg env x) ∧
      ∀ k (h : k < ins.length), checkSince cfg db env k ins[k].1 ins[k].2 = .ok := by
  have hin' : ∀ x ∈ ins.map (·.2), InfoValid x := by
    intro x hx
    obtain ⟨y, hy, rfl⟩ := List.mem_map.1 hx
    exact hin y hy
  rw [← maturity_ok_iff cfg env _ deps hm henv hin' hdep]
  have hs := since_verify_ok_iff cfg db env ins 0
  simp only [Nat.zero_add] at hs
  rw [← hs]
  unfold timeRelativeVerify
  cases hmv : maturityVerify cfg env (ins.map (·.2)) deps <;> simp

/-! ## Resolution -/

/-- the number of dep slots a transaction's cell deps expand to -/
def expansion (p : Provider) (tx : TxRefs) : Nat := (tx.deps.map (depCost p)).sum

/-- **resolve_ok_iff.** `resolve_transaction` succeeds exactly when: (unless the transaction is a
cellbase) the inputs are pairwise distinct and each is live in the (overlay) provider and not already
spent by an earlier transaction of the same block (`seen`); every cell dep — and for a dep group its
cell, whose data must be a non-empty out-point vector, and every member — is live and not in `seen`;
the deps expand to at most MAX_DEP_EXPANSION_LIMIT entries; every header dep is on the main chain. -/
theorem resolve_ok_iff (seen : List OutPoint) (p : Provider) (valid : Nat → Bool) (tx : TxRefs) :
    (∃ r, resolveTx seen p valid tx = .ok r) ↔
      (tx.isCellbase = true ∨ (tx.inputs.Nodup ∧ ∀ x ∈ tx.inputs, Usable seen p x)) ∧
      (∀ d ∈ tx.deps, DepOk seen p d) ∧
      expansion p tx ≤ MAX_DEP_EXPANSION_LIMIT ∧
      (∀ h ∈ tx.headerDeps, valid h = true) := by
  unfold resolveTx expansion
  have hin : (∃ cur, (if tx.isCellbase then (Except.ok [] : Except RErr (List OutPoint))
      else resolveInputs seen p tx.inputs []) = .ok cur) ↔
      (tx.isCellbase = true ∨ (tx.inputs.Nodup ∧ ∀ x ∈ tx.inputs, Usable seen p x)) := by
    by_cases hc : tx.isCellbase = true
    · simp [hc]
    · have := resolveInputs_ok_iff seen p tx.inputs []
      simp only [hc, Bool.false_eq_true, if_false, this, false_or, List.not_mem_nil, not_false_eq_true,
        implies_true, true_and]
  have hdeps := resolveDeps_ok_iff seen p tx.deps MAX_DEP_EXPANSION_LIMIT [] []
  have hh := checkHeaders_ok_iff valid tx.headerDeps
  cases h1 : (if tx.isCellbase then (Except.ok [] : Except RErr (List OutPoint))
      else resolveInputs seen p tx.inputs []) with
  | error e =>
    have nA : ¬ (tx.isCellbase = true ∨ (tx.inputs.Nodup ∧ ∀ x ∈ tx.inputs, Usable seen p x)) := fun h => by
      obtain ⟨c, hc⟩ := hin.2 h; rw [h1] at hc; cases hc
    simp [nA]
  | ok cur =>
    have hA := hin.1 ⟨cur, h1⟩
    cases h2 : resolveDeps seen p tx.deps MAX_DEP_EXPANSION_LIMIT [] [] with
    | error e =>
      have nD : ¬ ((∀ d ∈ tx.deps, DepOk seen p d) ∧ (tx.deps.map (depCost p)).sum ≤ MAX_DEP_EXPANSION_LIMIT) := fun h => by
        obtain ⟨c, hc⟩ := hdeps.2 h; rw [h2] at hc; cases hc
      constructor
      · rintro ⟨r, hr⟩; cases hr
      · rintro ⟨_, hd, he, _⟩; exact absurd ⟨hd, he⟩ nD
    | ok r2 =>
      obtain ⟨cds, gs⟩ := r2
      have hD := hdeps.1 ⟨_, h2⟩
      cases h3 : checkHeaders valid tx.headerDeps with
      | error e =>
        have nH : ¬ (∀ h ∈ tx.headerDeps, valid h = true) := fun h => by
          have := hh.2 h; rw [h3] at this; cases this
        constructor
        · rintro ⟨r, hr⟩; cases hr
        · rintro ⟨_, _, _, h⟩; exact absurd h nH
      | ok u =>
        cases u
        have hH := hh.1 h3
        exact ⟨fun _ => ⟨hA, hD.1, hD.2, hH⟩, fun _ => ⟨_, rfl⟩⟩

example : ∃ r, resolveTx [] (fun op => if op.tx = 1 then .live none else .unknown) (fun _ => true)
    ⟨[⟨1, 0⟩, ⟨1, 1⟩], false, [⟨⟨1, 2⟩, false⟩], [7]⟩ = .ok r := ⟨_, rfl⟩

/-- **resolve_seen.** on success `seen_inputs` grows by exactly the transaction's inputs (nothing for
a cellbase), and on failure the caller's set is untouched (the function returns no new set) -/
theorem resolve_seen {seen : List OutPoint} {p : Provider} {valid : Nat → Bool} {tx : TxRefs}
    {r : Resolved} {seen' : List OutPoint} (h : resolveTx seen p valid tx = .ok (r, seen')) :
    seen' = seen ++ (if tx.isCellbase then [] else tx.inputs) ∧ r.inputs = (if tx.isCellbase then [] else tx.inputs) := by
  unfold resolveTx at h
  cases h1 : (if tx.isCellbase then (Except.ok [] : Except RErr (List OutPoint))
      else resolveInputs seen p tx.inputs []) with
  | error e => simp [h1] at h
  | ok cur =>
    simp only [h1] at h
    cases h2 : resolveDeps seen p tx.deps MAX_DEP_EXPANSION_LIMIT [] [] with
    | error e => simp [h2] at h
    | ok r2 =>
      obtain ⟨cds, gs⟩ := r2
      simp only [h2] at h
      cases h3 : checkHeaders valid tx.headerDeps with
      | error e => simp [h3] at h
      | ok u =>
        simp only [h3] at h
        have hcur : cur = (if tx.isCellbase then [] else tx.inputs) := by
          by_cases hc : tx.isCellbase = true
          · simp [hc] at h1 ⊢; exact h1
          · simp only [hc, Bool.false_eq_true, if_false] at h1 ⊢
            simpa using resolveInputs_val h1
        cases h
        exact ⟨by rw [hcur], hcur⟩

/-- what a block's transaction list needs, transaction by transaction, with `seen` = the inputs of
the earlier non-cellbase transactions -/
def TxsOk (p : Provider) (valid : Nat → Bool) : List OutPoint → List TxRefs → Prop
  | _, [] => True
  | seen, tx :: rest =>
    ((tx.isCellbase = true ∨ (tx.inputs.Nodup ∧ ∀ x ∈ tx.inputs, Usable seen p x)) ∧
      (∀ d ∈ tx.deps, DepOk seen p d) ∧ expansion p tx ≤ MAX_DEP_EXPANSION_LIMIT ∧
      (∀ h ∈ tx.headerDeps, valid h = true)) ∧
    TxsOk p valid (seen ++ (if tx.isCellbase then [] else tx.inputs)) rest

/-- **resolveTxs_ok_iff.** (block side, by induction over the transaction list) a block's
transactions all resolve iff each one satisfies `resolve_ok_iff`'s conditions with `seen`
accumulated from its predecessors — so no out point is spent twice in the block, and a cell spent by
an earlier transaction cannot be used as a dep by a later one. -/
theorem resolveTxs_ok_iff (p : Provider) (valid : Nat → Bool) (seen : List OutPoint) (txs : List TxRefs) :
    (∃ r, resolveTxs p valid seen txs = .ok r) ↔ TxsOk p valid seen txs := by
  induction txs generalizing seen with
  | nil => simp [resolveTxs, TxsOk]
  | cons tx rest ih =>
    unfold resolveTxs TxsOk
    rw [← resolve_ok_iff]
    cases h : resolveTx seen p valid tx with
    | error e => simp
    | ok r =>
      obtain ⟨r, seen'⟩ := r
      have hs := (resolve_seen h).1
      simp only [← hs, ← ih]
      cases h2 : resolveTxs p valid seen' rest with
      | error e => simp
      | ok r2 => obtain ⟨a, b⟩ := r2; simp

example : TxsOk (fun op => if op.tx = 1 then .live none else .unknown) (fun _ => true) []
    [⟨[⟨1, 0⟩], false, [], []⟩, ⟨[⟨1, 1⟩], false, [], []⟩] ∧
    ¬ TxsOk (fun op => if op.tx = 1 then .live none else .unknown) (fun _ => true) []
    [⟨[⟨1, 0⟩], false, [], []⟩, ⟨[⟨1, 0⟩], false, [], []⟩] := by
  constructor
  · simp [TxsOk, Usable, expansion]
  · simp [TxsOk, Usable, expansion]

/-! ## Capacity -/

/-- an output whose capacity covers its occupied capacity, both computed with the code's checked
arithmetic (`Capacity::bytes`, `safe_add`; 8 bytes for the capacity field + data + lock (args + 33) +
type (args + 33, if any), at 10^8 shannons per byte) -/
def OutputOk (o : Output) : Prop := lackOfCapacity o = some false

/-- **capacity_ok_iff_partial.** `CapacityVerifier` accepts iff (cellbase / DAO-withdraw exemption,
or both sums fit u64 and outputs ≤ inputs) and every output's capacity covers its occupied
capacity. Partial: the occupied capacity on the right-hand side is still the model function
`occupied` (the code's chain of checked additions), not the closed form
`(8 + data + lock_args + 33 + [type_args + 33]) · 10^8 < 2^64`; the examples below pin that closed
form on concrete cells, and the harness oracle recomputes it independently. -/
theorem capacity_ok_iff_partial (exempt : Bool) (ins : List Nat) (outs : List Output) :
    capacityVerify exempt ins outs = .ok ↔
      (exempt = true ∨ (ins.sum < Tx.U64 ∧ (outs.map (·.capacity)).sum < Tx.U64 ∧
        (outs.map (·.capacity)).sum ≤ ins.sum)) ∧
      ∀ o ∈ outs, OutputOk o := by
  have hsum : ∀ (l : List Nat) (acc : Nat), acc < Tx.U64 →
      sumCapsL acc l = if acc + l.sum < Tx.U64 then some (acc + l.sum) else none := by
    intro l
    induction l with
    | nil => intro acc h; simp [sumCapsL, h]
    | cons c rest ih =>
      intro acc h
      unfold sumCapsL safeAdd
      by_cases h1 : acc + c < Tx.U64
      · rw [if_pos h1]
        show sumCapsL (acc + c) rest = _
        rw [ih _ h1, List.sum_cons, Nat.add_assoc]
      · have : ¬ acc + (c + rest.sum) < Tx.U64 := by omega
        simp [h1, this]
  have hl : ∀ (l : List (Option Bool)) (i : Nat), checkLacks i l = .ok ↔ ∀ x ∈ l, x = some false := by
    intro l
    induction l with
    | nil => intro i; simp [checkLacks]
    | cons x rest ih =>
      intro i
      cases x with
      | none => simp [checkLacks]
      | some b => cases b <;> simp [checkLacks, ih]
  have hout : ∀ (l : List Output) (i : Nat), checkOutputs i l = .ok ↔ ∀ o ∈ l, OutputOk o := by
    intro l i
    unfold checkOutputs OutputOk
    rw [hl]
    simp
  unfold capacityVerify
  by_cases he : exempt = true
  · simp [he, hout]
  · have he' : exempt = false := by cases exempt <;> simp_all
    have h0 : (0 : Nat) < Tx.U64 := Nat.two_pow_pos 64
    simp only [he', Bool.not_false, if_true, hsum _ 0 h0, Nat.zero_add, Bool.false_eq_true, false_or]
    by_cases h1 : ins.sum < Tx.U64
    · by_cases h2 : (outs.map (·.capacity)).sum < Tx.U64
      · simp only [h1, h2, if_true, true_and]
        by_cases h3 : ins.sum < (outs.map (·.capacity)).sum
        · simp only [h3, if_true]
          constructor
          · intro h; cases h
          · rintro ⟨h, _⟩; omega
        · simp only [h3, if_false, hout]
          constructor
          · intro h; exact ⟨by omega, h⟩
          · intro h; exact h.2
      · simp only [h1, h2, if_true, if_false, false_and, and_false]
        constructor
        · intro h; cases h
        · intro h; exact h.elim
    · simp only [h1, if_false, false_and]
      constructor
      · intro h; cases h
      · intro h; exact h.elim

example : occupied ⟨0, 20, none, 0⟩ 0 = some ((8 + 0 + 20 + 33) * 100000000) ∧
    occupied ⟨0, 20, some 32, 7⟩ 700000000 = some ((8 + 7 + 20 + 33 + 32 + 33) * 100000000) := by decide

example : capacityVerify false [6100000000] [⟨6100000000, 20, none, 0⟩] = .ok ∧
    capacityVerify false [6100000000] [⟨6099999999, 20, none, 0⟩] = .insufficient 0 ∧
    capacityVerify false [6099999999] [⟨6100000000, 20, none, 0⟩] = .outputsSumOverflow := by decide

/-- **occupied_capacity_closed_form.** `CellOutput::occupied_capacity(data_capacity)` — the chain
`Capacity::bytes(8).and_then(safe_add(data)).and_then(lock.occupied + ..).and_then(type.occupied + ..)` —
equals the exact sum `(8 + (lock args + 33) + [type args + 33]) · 10^8 + data_capacity`, and every one
of its `Overflow` branches (two or three `checked_mul`s, three `checked_add`s) fires iff that exact sum
does not fit u64. -/
theorem occupied_capacity_closed_form (o : Output) (dc : Nat) :
    occupied o dc =
      if fixedBytes o * BYTE_SHANNONS + dc < Tx.U64 then some (fixedBytes o * BYTE_SHANNONS + dc) else none :=
  occupied_closed o dc

example : fixedBytes ⟨0, 20, some 32, 7⟩ = 8 + (20 + 33) + (32 + 33) ∧ occBytes ⟨0, 20, some 32, 7⟩ = 133 := by decide

/-- **output_ok_iff.** an output (u64 capacity field) passes the occupied-capacity rule iff its
capacity covers `(8 + data len + lock args + 33 + [type args + 33])` bytes at 10^8 shannons per byte,
in exact arithmetic (an occupied capacity beyond u64 can never be covered: the code answers
`Overflow`). -/
theorem output_ok_iff (o : Output) (hc : o.capacity < Tx.U64) :
    OutputOk o ↔ occBytes o * BYTE_SHANNONS ≤ o.capacity := by
  unfold OutputOk
  rw [lackOfCapacity_closed]
  by_cases h : occBytes o * BYTE_SHANNONS < Tx.U64
  · rw [if_pos h]
    simp only [Option.some.injEq, decide_eq_false_iff_not]
    omega
  · rw [if_neg h]
    constructor
    · intro h; cases h
    · intro h2; omega

/-- **capacity_ok_iff.** (closed form; supersedes `capacity_ok_iff_partial`) `CapacityVerifier`
accepts iff (the transaction is a resolved cellbase or spends a DAO cell, or both capacity sums fit
u64 and outputs ≤ inputs) and every output's capacity covers its occupied bytes · 10^8. -/
theorem capacity_ok_iff (exempt : Bool) (ins : List Nat) (outs : List Output)
    (hc : ∀ o ∈ outs, o.capacity < Tx.U64) :
    capacityVerify exempt ins outs = .ok ↔
      (exempt = true ∨ (ins.sum < Tx.U64 ∧ (outs.map (·.capacity)).sum < Tx.U64 ∧
        (outs.map (·.capacity)).sum ≤ ins.sum)) ∧
      ∀ o ∈ outs, occBytes o * BYTE_SHANNONS ≤ o.capacity := by
  rw [capacity_ok_iff_partial]
  constructor
  · rintro ⟨h1, h2⟩
    exact ⟨h1, fun o ho => (output_ok_iff o (hc o ho)).1 (h2 o ho)⟩
  · rintro ⟨h1, h2⟩
    exact ⟨h1, fun o ho => (output_ok_iff o (hc o ho)).2 (h2 o ho)⟩

example : capacityVerify false [13300000000] [⟨13300000000, 20, some 32, 7⟩] = .ok ∧
    capacityVerify false [13300000000] [⟨13299999999, 20, some 32, 7⟩] = .insufficient 0 ∧
    capacityVerify true [] [⟨18446744073709551615, 20, none, 184467440676⟩] = .ok ∧
    capacityVerify true [] [⟨18446744073709551615, 20, none, 184467440677⟩] = .overflow := by decide

/-! ## Context-free rules, DAO lock size, VM version, fee, and the whole pipeline -/

section Rules
open CkbVerif.TxRules

/-- **non_contextual_ok_iff.** `NonContextualTransactionVerifier::verify` accepts iff: the version is
the consensus tx version; the serialized size in a block (molecule size + 4) is at most
`max_block_bytes`; there is an input; there is an output unless the transaction is cellbase-shaped;
no `CellDep` (out point AND dep type) and no header dep occurs twice; `outputs_data` has as many
items as `outputs`; and every output's LOCK script has an enabled hash type (data, type, data1,
data2). As coded, the hash type of TYPE scripts is not examined by this verifier. -/
theorem non_contextual_ok_iff (txVersion maxBytes : Nat) (t : NcTx) :
    nonContextual txVersion maxBytes t = .ok ↔
      t.version = txVersion ∧ sizeInBlock t ≤ maxBytes ∧ t.inputs ≠ [] ∧
      (t.outputs ≠ [] ∨ isCellbase t = true) ∧ t.cellDeps.Nodup ∧ t.headerDeps.Nodup ∧
      t.outputs.length = t.outputsData.length ∧
      ∀ o ∈ t.outputs, hashTypeEnabled o.lock.hashType = true := by
  unfold nonContextual
  by_cases h1 : t.version = txVersion
  · by_cases h2 : sizeInBlock t ≤ maxBytes
    · by_cases h3 : t.inputs = []
      · simp [h1, h2, h3]
      · have h3' : t.inputs.isEmpty = false := by
          cases hh : t.inputs with
          | nil => exact absurd hh h3
          | cons a b => rfl
        by_cases h4 : (t.outputs.isEmpty && !isCellbase t) = true
        · have : ¬ (t.outputs ≠ [] ∨ isCellbase t = true) := by
            simp only [Bool.and_eq_true, List.isEmpty_iff, Bool.not_eq_true'] at h4
            simp [h4.1, h4.2]
          simp [h1, h2, h3, h3', h4, this]
        · have h4' : (t.outputs ≠ [] ∨ isCellbase t = true) := by
            by_cases ho : t.outputs = []
            · right
              cases hc : isCellbase t
              · exfalso; apply h4; simp [ho, hc]
              · rfl
            · left; exact ho
          have h4f : (t.outputs.isEmpty && !isCellbase t) = false := by
            cases hh : (t.outputs.isEmpty && !isCellbase t) <;> simp_all
          simp only [h1, h2, h3', h4f, ne_eq, not_true_eq_false, if_false, not_false_eq_true, h3, h4',
            true_and, Bool.false_eq_true]
          cases hd : firstDup [] t.cellDeps with
          | some d =>
            have : ¬ t.cellDeps.Nodup := fun hn => by
              have := (firstDup_none_iff t.cellDeps []).2 ⟨hn, by simp⟩
              rw [hd] at this; cases this
            simp [this]
          | none =>
            have hn1 := ((firstDup_none_iff t.cellDeps []).1 hd).1
            cases hd2 : firstDup [] t.headerDeps with
            | some d =>
              have : ¬ t.headerDeps.Nodup := fun hn => by
                have := (firstDup_none_iff t.headerDeps []).2 ⟨hn, by simp⟩
                rw [hd2] at this; cases this
              simp [this]
            | none =>
              have hn2 := ((firstDup_none_iff t.headerDeps []).1 hd2).1
              by_cases h7 : t.outputs.length = t.outputsData.length
              · simp only [h7, ne_eq, not_true_eq_false, if_false, hn1, hn2, true_and, checkHashTypes_ok_iff]
                simp
              · simp [h7]
    · simp [h1, h2]
  · simp [h1]

example : nonContextual 0 597000
    ⟨0, [(1, 0)], [⟨9, 0, 0⟩], [], [⟨⟨1, 20⟩, none⟩], [0], [65]⟩ = .ok ∧
    sizeInBlock ⟨0, [(1, 0)], [⟨9, 0, 0⟩], [], [⟨⟨1, 20⟩, none⟩], [0], [65]⟩ = 335 ∧
    nonContextual 0 334 ⟨0, [(1, 0)], [⟨9, 0, 0⟩], [], [⟨⟨1, 20⟩, none⟩], [0], [65]⟩ = .exceededMaximumBlockBytes ∧
    nonContextual 0 597000 ⟨0, [(1, 0)], [⟨9, 0, 0⟩, ⟨9, 0, 0⟩], [], [⟨⟨1, 20⟩, none⟩], [0], [65]⟩ = .duplicateCellDeps 9 0 ∧
    nonContextual 0 597000 ⟨0, [(1, 0)], [⟨9, 0, 0⟩, ⟨9, 0, 1⟩], [], [⟨⟨6, 20⟩, some ⟨3, 0⟩⟩], [0], [65]⟩ = .hashTypeNotPermitted 6 ∧
    nonContextual 0 597000 ⟨0, [(1, 0)], [], [], [⟨⟨3, 20⟩, none⟩], [0], [65]⟩ = .invalidHashType 3 := by
  decide

/-- **non_contextual_first_failure.** the rules are examined in the code's order: a wrong version is
reported whatever else is wrong; then the size; then emptiness (inputs before outputs). -/
theorem non_contextual_first_failure (txVersion maxBytes : Nat) (t : NcTx) :
    (nonContextual txVersion maxBytes t = .mismatchedVersion ↔ t.version ≠ txVersion) ∧
    (nonContextual txVersion maxBytes t = .exceededMaximumBlockBytes ↔
      t.version = txVersion ∧ maxBytes < sizeInBlock t) ∧
    (nonContextual txVersion maxBytes t = .emptyInputs ↔
      t.version = txVersion ∧ sizeInBlock t ≤ maxBytes ∧ t.inputs = []) := by
  unfold nonContextual
  by_cases h1 : t.version = txVersion
  · by_cases h2 : sizeInBlock t ≤ maxBytes
    · by_cases h3 : t.inputs = []
      · simp [h1, h2, h3]
      · have h3' : t.inputs.isEmpty = false := by
          cases hh : t.inputs with
          | nil => exact absurd hh h3
          | cons a b => rfl
        simp only [h1, h2, h3, h3', ne_eq, not_true_eq_false, if_false, not_false_eq_true, true_and,
          Bool.false_eq_true, and_false, iff_false]
        have hlt : ¬ maxBytes < sizeInBlock t := by omega
        simp only [hlt, iff_false]
        by_cases h4 : (t.outputs.isEmpty && !isCellbase t) = true
        · simp [h4]
        · have h4f : (t.outputs.isEmpty && !isCellbase t) = false := by
            cases hh : (t.outputs.isEmpty && !isCellbase t) <;> simp_all
          simp only [h4f, Bool.false_eq_true, if_false]
          cases firstDup [] t.cellDeps with
          | some d => simp
          | none =>
            cases firstDup [] t.headerDeps with
            | some d => simp
            | none =>
              by_cases h7 : t.outputs.length = t.outputsData.length
              · simp only [h7, ne_eq, not_true_eq_false, if_false]
                generalize t.outputs.map (·.lock.hashType) = l
                induction l with
                | nil => simp [checkHashTypes]
                | cons v rest ih =>
                  unfold checkHashTypes
                  by_cases hk : hashTypeKnown v = true
                  · by_cases he : hashTypeEnabled v = true
                    · simpa [hk, he] using ih
                    · simp [hk, he]
                  · simp [hk]
              · simp [h7]
    · have : maxBytes < sizeInBlock t := by omega
      simp [h1, h2, this]
  · simp [h1]

/-- **pool_non_contextual_ok_iff.** the pool adds two context-free rejections of its own: the
512 000-byte transaction size limit and "cellbase like". -/
theorem pool_non_contextual_ok_iff (txVersion maxBytes : Nat) (t : NcTx) :
    poolNonContextual txVersion maxBytes t = .ok ↔
      nonContextual txVersion maxBytes t = .ok ∧ sizeInBlock t ≤ TRANSACTION_SIZE_LIMIT ∧
      isCellbase t = false := by
  unfold poolNonContextual
  cases h : nonContextual txVersion maxBytes t <;> simp
  by_cases h1 : TRANSACTION_SIZE_LIMIT < sizeInBlock t
  · simp [h1]
  · by_cases h2 : isCellbase t = true
    · simp [h1, h2]
    · simp [h1, h2]; omega

example : poolNonContextual 0 597000 ⟨0, [(0, nullIdx)], [], [], [], [], [0]⟩ = .cellbaseLike ∧
    nonContextual 0 597000 ⟨0, [(0, nullIdx)], [], [], [], [], [0]⟩ = .ok := by decide

/-- **select_version_ok_iff.** a script group gets a VM version iff its hash type is `data`, or
`type`, or `data1` with VM 1 enabled, or `data2` with VM 2 enabled, at the epoch number
`epoch_number_without_proposal_window` reports: the env's epoch number for a committed
transaction, and for a pooled one the number of the epoch of the block after the tip. -/
theorem select_version_ok_iff (vm1 vm2 : Nat) (committed : Bool) (epoch h : Nat) :
    (∃ k, selectVersion vm1 vm2 committed epoch h = .v k) ↔
      h = HASH_TYPE_DATA ∨ h = HASH_TYPE_TYPE ∨
      (h = HASH_TYPE_DATA1 ∧ vm1 ≤ epochNumberNoWindow committed epoch) ∨
      (h = HASH_TYPE_DATA2 ∧ vm2 ≤ epochNumberNoWindow committed epoch) := by
  unfold selectVersion hashTypeKnown HASH_TYPE_DATA HASH_TYPE_TYPE HASH_TYPE_DATA1 HASH_TYPE_DATA2
  generalize epochNumberNoWindow committed epoch = n
  by_cases h0 : h = 0
  · subst h0; simp
  · by_cases h1 : h = 1
    · subst h1
      by_cases e2 : vm2 ≤ n <;> by_cases e1 : vm1 ≤ n <;> simp [e1, e2]
    · by_cases h2 : h = 2
      · subst h2
        by_cases e1 : vm1 ≤ n <;> simp [e1]
      · by_cases h4 : h = 4
        · subst h4
          by_cases e2 : vm2 ≤ n <;> simp [e2]
        · by_cases hk : (h == 1 || h % 2 == 0) = true
          · simp [hk, h0, h1, h2, h4]
          · simp [hk, h0, h1, h2, h4]

example : selectVersion 0 10 true (Since.epPack 9 4 5) 4 = .invalidVmVersion 2 ∧
    selectVersion 0 10 false (Since.epPack 9 4 5) 4 = .v 2 ∧
    selectVersion 0 10 false (Since.epPack 9 3 5) 4 = .invalidVmVersion 2 ∧
    selectVersion 0 10 true (Since.epPack 10 0 5) 1 = .v 2 := by decide

/-- the spec of one (input, output) pair violating the DAO lock-size rule -/
def DaoMismatch (startBlock : Nat) (p : DaoPair) : Prop :=
  p.inputIsDao = true ∧ p.outputIsDao = true ∧ p.inputData = some true ∧
  (∀ b, p.inputBlock = some b → startBlock ≤ b) ∧ p.inputLockSize ≠ p.outputLockSize

/-- **dao_script_size_ok_iff.** `DaoScriptSizeVerifier` accepts iff no index pairs a DAO deposit
input (DAO type script, loadable all-zero data, committed at or after
`starting_block_limiting_dao_withdrawing_lock`, or without transaction info) with a DAO output whose
lock script has a different serialized size. -/
theorem dao_script_size_ok_iff (startBlock : Nat) (l : List DaoPair) :
    daoScriptSize startBlock 0 l = none ↔ ∀ p ∈ l, ¬ DaoMismatch startBlock p := by
  rw [daoScriptSize_none_iff]
  have key : ∀ p, daoPairMismatch startBlock p = false ↔ ¬ DaoMismatch startBlock p := by
    intro p
    unfold daoPairMismatch DaoMismatch
    cases hi : p.inputIsDao <;> cases ho : p.outputIsDao <;> simp
    cases hd : p.inputData with
    | none => simp
    | some z =>
      cases z
      · simp
      · cases hb : p.inputBlock with
        | none => simp
        | some b =>
          by_cases hlt : b < startBlock
          · simp [hlt]
          · simp [hlt]; omega
  constructor
  · intro h p hp; exact (key p).1 (h p hp)
  · intro h p hp; exact (key p).2 (h p hp)

example : daoScriptSize 100 0 [⟨true, true, some true, some 100, 73, 74⟩] = some 0 ∧
    daoScriptSize 100 0 [⟨true, true, some true, some 99, 73, 74⟩] = none ∧
    daoScriptSize 100 0 [⟨true, true, some false, some 100, 73, 74⟩, ⟨true, true, some true, none, 73, 74⟩] = some 1 := by
  decide

/-- **fee_basic_law.** for a transaction without withdrawing DAO inputs the fee is defined iff both
capacity sums fit u64 and outputs ≤ inputs, and then it is exactly inputs − outputs. -/
theorem fee_basic_law (caps outs : List Nat) (hne : caps ≠ []) (f : Nat) :
    transactionFee (caps.map .plain) outs = some f ↔
      caps.sum < Tx.U64 ∧ outs.sum < Tx.U64 ∧ outs.sum ≤ caps.sum ∧ f = caps.sum - outs.sum := by
  have h0 : (0 : Nat) < Tx.U64 := Nat.two_pow_pos 64
  unfold transactionFee
  have hne' : (caps.map FeeInput.plain).isEmpty = false := by
    cases caps with
    | nil => exact absurd rfl hne
    | cons a b => rfl
  rw [hne', maximumWithdraw_plain _ 0 h0, sumCapsL_closed _ 0 h0]
  simp only [Bool.false_eq_true, if_false, Nat.zero_add]
  by_cases h1 : caps.sum < Tx.U64
  · by_cases h2 : outs.sum < Tx.U64
    · simp only [h1, h2, if_true, safeSub, true_and]
      by_cases h3 : outs.sum ≤ caps.sum
      · simp [h3]; omega
      · simp [h3]
    · simp [h1, h2]
  · simp [h1]

example : transactionFee [.plain 500, .plain 100] [550, 20] = some 30 ∧
    transactionFee [.plain 500] [501] = none ∧
    transactionFee [.plain 1000, .withdraw 10000 (some 6100) 10000000000000000 10000500000000000 true] [] = some 11000 := by
  decide

/-- **fee_cellbase.** `FeeCalculator` skips a resolved cellbase -/
theorem fee_cellbase (outs : List Nat) : transactionFee [] outs = some 0 := rfl

/-- **capacity_ok_implies_fee.** when `CapacityVerifier`'s sum rule applies (no exemption) and it
accepts, the fee computation of a transaction without withdrawing inputs cannot fail, and
fee + outputs = inputs. -/
theorem capacity_ok_implies_fee (caps : List Nat) (outs : List Output) (hne : caps ≠ [])
    (h : capacityVerify false caps outs = .ok) :
    transactionFee (caps.map .plain) (outs.map (·.capacity)) =
      some (caps.sum - (outs.map (·.capacity)).sum) ∧ (outs.map (·.capacity)).sum ≤ caps.sum := by
  have h2 := (capacity_ok_iff_partial false caps outs).1 h
  rcases h2.1 with h3 | ⟨h3, h4, h5⟩
  · cases h3
  · exact ⟨(fee_basic_law caps _ hne _).2 ⟨h3, h4, h5, rfl⟩, h5⟩

/-- **pipeline_accept_iff.** a transaction completes (with its cycles and fee) iff every rule holds:
context-free rules, resolution, maturity + since, capacity, scripts within the cycle limit, a
defined fee, and the DAO lock-size rule. -/
theorem pipeline_accept_iff (r : RuleResults) (c f : Nat) :
    pipeline r = .ok (c, f) ↔
      r.nc = .ok ∧ r.resolve = none ∧ r.time = .ok ∧ r.cap = .ok ∧ r.cycles ≤ r.maxCycles ∧
      r.scriptCode = 0 ∧ r.fee = some f ∧ r.dao = none ∧ c = r.cycles := by
  unfold pipeline
  cases h1 : r.nc <;> simp
  cases h2 : r.resolve <;> simp
  cases h3 : r.time <;> simp
  cases h4 : r.cap <;> simp
  by_cases h5 : r.cycles > r.maxCycles
  · simp [h5]
  · by_cases h6 : r.scriptCode = 0
    · cases h7 : r.fee with
      | none => simp [h5, h6]
      | some f' =>
        cases h8 : r.dao with
        | some i => simp [h5, h6]
        | none =>
          simp [h5, h6]
          constructor
          · rintro ⟨rfl, rfl⟩; exact ⟨by omega, rfl, rfl⟩
          · rintro ⟨_, rfl, rfl⟩; exact ⟨rfl, rfl⟩
    · simp [h5, h6]

example : pipeline ⟨.ok, none, .ok, .ok, 0, 537, 70000000, some 1000, none⟩ = .ok (537, 1000) ∧
    pipeline ⟨.ok, none, .immature 0, .insufficient 1, 0, 537, 70000000, none, some 0⟩ = .error (.time (.immature 0)) := by
  decide

/-- **pipeline_first_failure.** the reported error is the one of the first failing rule in the code's
order — in particular a time-relative failure (what a verification-cache hit still re-checks) wins
over everything that follows it. -/
theorem pipeline_first_failure (r : RuleResults) :
    (r.nc ≠ .ok → pipeline r = .error (.nonContextual r.nc)) ∧
    (r.nc = .ok → ∀ e, r.resolve = some e → pipeline r = .error (.resolve e)) ∧
    (r.nc = .ok → r.resolve = none → r.time ≠ .ok → pipeline r = .error (.time r.time)) ∧
    (r.nc = .ok → r.resolve = none → r.time = .ok → r.cap ≠ .ok → pipeline r = .error (.capacity r.cap)) := by
  unfold pipeline
  refine ⟨?_, ?_, ?_, ?_⟩
  · intro h; cases h1 : r.nc <;> simp_all
  · intro h e he; simp [h, he]
  · intro h h2 h3; rw [h, h2]; cases h4 : r.time <;> simp_all
  · intro h h2 h3 h4; rw [h, h2, h3]; cases h5 : r.cap <;> simp_all

/-! ### DAO maximum withdraw (`calculate_maximum_withdraw`, `transaction_maximum_withdraw`) -/

/-- **max_withdraw_some_iff.** closed form of `calculate_maximum_withdraw` after the header look-ups:
it succeeds iff the deposit block is below the withdrawing block, the cell covers its occupied
capacity, the deposit accumulated rate is non-zero (else the u128 division panics — never the case
for a stored header) and the result fits u64; the value is
`((capacity − occupied) · withdraw_ar / deposit_ar) mod 2^64 + occupied` (`as u64` truncates). -/
theorem max_withdraw_some_iff (c occ dar war : Nat) (ord : Bool) (w : Nat) :
    maxWithdraw c (some occ) dar war ord = some w ↔
      ord = true ∧ occ ≤ c ∧ dar ≠ 0 ∧ w = ((c - occ) * war / dar) % Tx.U64 + occ ∧ w < Tx.U64 := by
  unfold maxWithdraw safeSub safeAdd
  cases ord with
  | false => simp
  | true =>
    by_cases h1 : occ ≤ c
    · by_cases h2 : dar = 0
      · simp [h1, h2]
      · by_cases h3 : ((c - occ) * war / dar) % Tx.U64 + occ < Tx.U64
        · simp only [h1, h2, h3, if_true, if_false, Bool.not_true, Bool.false_eq_true, Option.some.injEq,
            ne_eq, not_false_eq_true, true_and]
          constructor
          · intro h; subst h; exact ⟨rfl, h3⟩
          · intro h; exact h.1.symm
        · simp only [h1, h2, h3, if_true, if_false, Bool.not_true, Bool.false_eq_true, ne_eq,
            not_false_eq_true, true_and]
          constructor
          · intro h; cases h
          · rintro ⟨h4, h5⟩; subst h4; exact absurd h5 h3
    · simp [h1]

example : maxWithdraw 18200000000 (some 8200000000) 10000000000000000 10000500000000000 true = some 18200500000 := by
  decide

/-- **max_withdraw_no_mint.** a withdrawal never pays more than the accumulated-rate ratio allows:
the part above the occupied capacity, times the deposit rate, is at most the counted capacity times
the withdrawing rate (floor division and the `as u64` truncation can only lose shannons). -/
theorem max_withdraw_no_mint {c occ dar war : Nat} {ord : Bool} {w : Nat}
    (h : maxWithdraw c (some occ) dar war ord = some w) :
    occ ≤ w ∧ (w - occ) * dar ≤ (c - occ) * war := by
  obtain ⟨_, _, _, h4, _⟩ := (max_withdraw_some_iff c occ dar war ord w).1 h
  subst h4
  refine ⟨Nat.le_add_left _ _, ?_⟩
  rw [Nat.add_sub_cancel]
  calc ((c - occ) * war / dar) % Tx.U64 * dar ≤ ((c - occ) * war / dar) * dar :=
        Nat.mul_le_mul_right _ (Nat.mod_le _ _)
    _ ≤ (c - occ) * war := Nat.div_mul_le_self _ _

/-- **max_withdraw_exact.** the `as u64` domain: whenever the exact quotient is below 2^64 —
i.e. counted · withdraw_ar < deposit_ar · 2^64 — nothing is truncated and the withdrawal is exactly
`⌊counted · withdraw_ar / deposit_ar⌋ + occupied`. -/
theorem max_withdraw_exact {c occ dar war : Nat} {ord : Bool} {w : Nat}
    (h : maxWithdraw c (some occ) dar war ord = some w) (hd : (c - occ) * war < dar * Tx.U64) :
    w = (c - occ) * war / dar + occ := by
  obtain ⟨_, _, _, h4, _⟩ := (max_withdraw_some_iff c occ dar war ord w).1 h
  rw [h4, Nat.mod_eq_of_lt (Nat.div_lt_of_lt_mul hd)]

/-- **max_withdraw_truncation_witness.** outside that domain the code, as written, truncates: with a
realistic deposit rate 10^16, a withdrawing rate four times as large and 2^63 counted shannons the
exact quotient is 2^65 and the withdrawal collapses to the occupied capacity (less than the
deposit). Not reachable on a chain whose total issuance is below 2^64 / ar-growth; recorded as the
exact edge of the `as u64` cast. -/
theorem max_withdraw_truncation_witness :
    maxWithdraw (8200000000 + 2 ^ 63) (some 8200000000) 10000000000000000 40000000000000000 true
      = some 8200000000 := by
  decide

/-- **max_withdraw_same_rate.** withdrawing at the deposit's own accumulated rate returns exactly the capacity -/
theorem max_withdraw_same_rate (c occ dar : Nat) (h1 : occ ≤ c) (h2 : dar ≠ 0) (h3 : c < Tx.U64) :
    maxWithdraw c (some occ) dar dar true = some c := by
  rw [max_withdraw_some_iff]
  have hp : 0 < dar := Nat.pos_of_ne_zero h2
  rw [Nat.mul_div_cancel _ hp, Nat.mod_eq_of_lt (by omega)]
  exact ⟨rfl, h1, h2, by omega, h3⟩

/-- **max_withdraw_ge_capacity.** accumulated rates never decrease along a chain; with
deposit_ar ≤ withdraw_ar and inside the u64 domain the depositor gets at least the deposit back. -/
theorem max_withdraw_ge_capacity {c occ dar war : Nat} {ord : Bool} {w : Nat}
    (h : maxWithdraw c (some occ) dar war ord = some w) (hge : dar ≤ war)
    (hd : (c - occ) * war < dar * Tx.U64) : c ≤ w := by
  have hx := max_withdraw_exact h hd
  obtain ⟨_, h2, h3, _, _⟩ := (max_withdraw_some_iff c occ dar war ord w).1 h
  have hp : 0 < dar := Nat.pos_of_ne_zero h3
  have : c - occ ≤ (c - occ) * war / dar := by
    rw [Nat.le_div_iff_mul_le hp]
    exact Nat.mul_le_mul_left _ hge
  omega

/-- **max_withdraw_mono_ratio.** monotone in the accumulated-rate ratio: if
withdraw_ar / deposit_ar ≤ withdraw_ar' / deposit_ar' (as exact fractions) and the larger one is
inside the u64 domain, the same cell withdraws at most as much under the first pair. -/
theorem max_withdraw_mono_ratio {c occ dar war dar' war' : Nat} {ord ord' : Bool} {w w' : Nat}
    (h : maxWithdraw c (some occ) dar war ord = some w)
    (h' : maxWithdraw c (some occ) dar' war' ord' = some w')
    (hr : war * dar' ≤ war' * dar) (hd' : (c - occ) * war' < dar' * Tx.U64) : w ≤ w' := by
  have hx' := max_withdraw_exact h' hd'
  obtain ⟨_, _, h3, h4, _⟩ := (max_withdraw_some_iff c occ dar war ord w).1 h
  obtain ⟨_, _, h3', _, _⟩ := (max_withdraw_some_iff c occ dar' war' ord' w').1 h'
  have hq : (c - occ) * war / dar ≤ (c - occ) * war' / dar' := by
    apply div_le_div_of_cross (Nat.pos_of_ne_zero h3) (Nat.pos_of_ne_zero h3')
    calc (c - occ) * war * dar' = (c - occ) * (war * dar') := Nat.mul_assoc _ _ _
      _ ≤ (c - occ) * (war' * dar) := Nat.mul_le_mul_left _ hr
      _ = (c - occ) * war' * dar := (Nat.mul_assoc _ _ _).symm
  have : ((c - occ) * war / dar) % Tx.U64 ≤ (c - occ) * war / dar := Nat.mod_le _ _
  omega

/-- **max_withdraw_mono_capacity.** inside the u64 domain a larger deposit (same occupied capacity
and rates) never withdraws less -/
theorem max_withdraw_mono_capacity {c c' occ dar war : Nat} {ord ord' : Bool} {w w' : Nat}
    (h : maxWithdraw c (some occ) dar war ord = some w)
    (h' : maxWithdraw c' (some occ) dar war ord' = some w')
    (hc : c ≤ c') (hd' : (c' - occ) * war < dar * Tx.U64) : w ≤ w' := by
  have hx' := max_withdraw_exact h' hd'
  obtain ⟨_, _, _, h4, _⟩ := (max_withdraw_some_iff c occ dar war ord w).1 h
  have hq : (c - occ) * war / dar ≤ (c' - occ) * war / dar :=
    Nat.div_le_div_right (Nat.mul_le_mul_right _ (by omega))
  have : ((c - occ) * war / dar) % Tx.U64 ≤ (c - occ) * war / dar := Nat.mod_le _ _
  omega

example : maxWithdraw 18200000000 (some 8200000000) 10000000000000000 10000500000000000 true = some 18200500000 ∧
    maxWithdraw 18200000000 (some 8200000000) 10000000000000000 10000600000000000 true = some 18200600000 ∧
    (18200000000 - 8200000000) * 10000600000000000 < 10000000000000000 * Tx.U64 := by
  decide

/-- **fee_law.** `DaoCalculator::transaction_fee` for ANY input list (plain, DAO deposit,
withdrawing, malformed): the fee is defined iff every input's contribution is defined (no
`DaoError`), the contributions and the output capacities each sum below 2^64, and outputs ≤
contributions; then fee + outputs = contributions exactly. Generalises `fee_basic_law`. -/
theorem fee_law (ins : List FeeInput) (outs : List Nat) (hne : ins ≠ []) (f : Nat) :
    transactionFee ins outs = some f ↔
      ∃ vs, inputValues ins = some vs ∧ vs.sum < Tx.U64 ∧ outs.sum < Tx.U64 ∧ outs.sum ≤ vs.sum ∧
        f = vs.sum - outs.sum := by
  have h0 : (0 : Nat) < Tx.U64 := Nat.two_pow_pos 64
  unfold transactionFee
  have hne' : ins.isEmpty = false := by
    cases ins with
    | nil => exact absurd rfl hne
    | cons a b => rfl
  rw [hne', sumCapsL_closed _ 0 h0]
  simp only [Bool.false_eq_true, if_false, Nat.zero_add]
  cases hm : maximumWithdraw 0 ins with
  | none =>
    simp only
    constructor
    · intro h; cases h
    · rintro ⟨vs, h1, h2, _⟩
      have := (maximumWithdraw_some_iff ins 0 h0 vs.sum).2 ⟨vs, h1, by omega, by omega⟩
      rw [hm] at this; cases this
  | some mw =>
    obtain ⟨vs, h1, h2, h3⟩ := (maximumWithdraw_some_iff ins 0 h0 mw).1 hm
    simp only [Nat.zero_add] at h2 h3
    subst h3
    simp only
    by_cases h4 : outs.sum < Tx.U64
    · rw [if_pos h4]
      simp only [safeSub]
      by_cases h5 : outs.sum ≤ vs.sum
      · simp only [h5, if_true, Option.some.injEq]
        constructor
        · intro h; exact ⟨vs, h1, h2, h4, h5, h.symm⟩
        · rintro ⟨vs', h1', _, _, _, h6⟩
          rw [h1] at h1'; cases h1'; exact h6.symm
      · simp only [h5, if_false]
        constructor
        · intro h; cases h
        · rintro ⟨vs', h1', _, _, h5', _⟩
          rw [h1] at h1'; cases h1'; exact absurd h5' h5
    · rw [if_neg h4]
      simp only
      constructor
      · intro h; cases h
      · rintro ⟨_, _, _, h4', _⟩; exact absurd h4' h4

example : transactionFee [.plain 1000, .withdraw 10000 (some 6100) 10000000000000000 10000500000000000 true] [11000] = some 0 ∧
    inputValues [.plain 1000, .withdraw 10000 (some 6100) 10000000000000000 10000500000000000 true] = some [1000, 10000] ∧
    transactionFee [.plain 1000, .malformed] [5] = none := by
  decide

/-- **fee_conservation.** an accepted fee conserves capacity: outputs + fee = Σ contributions, and a
withdrawing input contributes no more than its accumulated-rate bound (`max_withdraw_no_mint`) -/
theorem fee_conservation {ins : List FeeInput} {outs : List Nat} {f : Nat} (hne : ins ≠ [])
    (h : transactionFee ins outs = some f) :
    ∃ vs, inputValues ins = some vs ∧ outs.sum + f = vs.sum := by
  obtain ⟨vs, h1, _, _, h4, h5⟩ := (fee_law ins outs hne f).1 h
  exact ⟨vs, h1, by omega⟩

/-! ### DAO witness decoding -/

/-- **dao_headers_ok_iff.** the header look-ups of a withdrawing input succeed iff the cell's own
block (the withdrawing header) is among the header deps and the witness at the input's position is a
`WitnessArgs` whose `input_type` is an 8-byte index pointing inside the header deps; the deposit
header is the header dep at that index. Error classes as coded. -/
theorem dao_headers_ok_iff (hds : List Nat) (info : Option Nat) (w : DaoWitness) (dh wh : Nat) :
    daoHeaders hds info w = .ok (dh, wh) ↔
      info = some wh ∧ wh ∈ hds ∧ ∃ k, w = .index k ∧ hds[k]? = some dh := by
  unfold daoHeaders
  cases info with
  | none => simp
  | some b =>
    by_cases hb : b ∈ hds
    · simp only [hb, if_true]
      cases w with
      | index k =>
        cases hk : hds[k]? with
        | none => simp [hk]
        | some d =>
          simp only [hk, Except.ok.injEq, Prod.mk.injEq, Option.some.injEq, DaoWitness.index.injEq,
            exists_eq_left']
          constructor
          · rintro ⟨rfl, rfl⟩; exact ⟨rfl, hb, rfl⟩
          · rintro ⟨rfl, _, h⟩; exact ⟨h, rfl⟩
      | _ => simp
    · simp only [hb, if_false]
      constructor
      · intro h; cases h
      · rintro ⟨h1, h2, _⟩; cases h1; exact absurd h2 hb

example : daoHeaders [7, 9] (some 9) (.index 0) = .ok (7, 9) ∧
    daoHeaders [7, 9] (some 9) (.index 2) = .error .invalidOutPoint ∧
    daoHeaders [7, 9] (some 8) (.index 0) = .error .invalidOutPoint ∧
    daoHeaders [7, 9] (some 9) .badInputType = .error .invalidDaoFormat := by
  decide

/-- **dao_withdraw_ok_iff.** a withdrawing input contributes `v` iff its header look-ups succeed
(`dao_headers_ok_iff`), the deposit block is strictly below the withdrawing block, and
`calculate_maximum_withdraw` on the two headers' accumulated rates gives `v` (`max_withdraw_some_iff`) -/
theorem dao_withdraw_ok_iff (hds : List Nat) (number ar : Nat → Nat) (info : Option Nat) (w : DaoWitness)
    (cap : Nat) (occ : Option Nat) (v : Nat) :
    daoWithdraw hds number ar info w cap occ = .ok (some v) ↔
      ∃ dh wh, daoHeaders hds info w = .ok (dh, wh) ∧ number dh < number wh ∧
        maxWithdraw cap occ (ar dh) (ar wh) true = some v := by
  unfold daoWithdraw
  cases h : daoHeaders hds info w with
  | error e => simp
  | ok p =>
    obtain ⟨dh, wh⟩ := p
    by_cases hn : number dh < number wh
    · simp [hn]
    · simp [hn]

example : daoWithdraw [7, 9] id (fun n => 10000000000000000 + n * 1000000000000) (some 9) (.index 0) 18200000000 (some 8200000000)
      = .ok (some 18201998600) ∧
    daoWithdraw [9, 7] id (fun n => 10000000000000000 + n * 1000000000000) (some 7) (.index 0) 18200000000 (some 8200000000)
      = .error .invalidOutPoint := by
  decide

/-- **dao_withdraw_loader.** with every header found by the data loader the loader-explicit function
is `daoWithdraw` -/
theorem dao_withdraw_loader (known : Nat → Bool) (hk : ∀ h, known h = true) (hds : List Nat)
    (number ar : Nat → Nat) (info : Option Nat) (w : DaoWitness) (cap : Nat) (occ : Option Nat) :
    daoWithdrawL known hds number ar info w cap occ = daoWithdraw hds number ar info w cap occ := by
  unfold daoWithdrawL daoWithdraw
  cases h : daoHeaders hds info w with
  | error e => rfl
  | ok p => obtain ⟨dh, wh⟩ := p; simp [hk]

/-- **dao_withdraw_missing_header.** when the look-ups succeed on the transaction but the data
loader lacks the deposit or the withdrawing header, the result is `InvalidHeader` — whatever the
numbers, rates and capacities are -/
theorem dao_withdraw_missing_header (known : Nat → Bool) (hds : List Nat) (number ar : Nat → Nat)
    (info : Option Nat) (w : DaoWitness) (cap : Nat) (occ : Option Nat) (dh wh : Nat)
    (h : daoHeaders hds info w = .ok (dh, wh)) (hm : known dh = false ∨ known wh = false) :
    daoWithdrawL known hds number ar info w cap occ = .error .invalidHeader := by
  unfold daoWithdrawL
  rw [h]
  rcases hm with hm | hm
  · simp [hm]
  · cases hd : known dh <;> simp [hd, hm]

example : daoWithdrawL (fun h => h != 7) [7, 9] id (fun n => 10000000000000000 + n * 1000000000000) (some 9) (.index 0)
    18200000000 (some 8200000000) = .error .invalidHeader := by rfl

/-! ### Tx-pool admission -/

/-- **fee_rate_fee_bounds.** `FeeRate::fee` never asks for more than rate · weight / 1000, and inside
u64 it is the exact floor -/
theorem fee_rate_fee_bounds (rate weight : Nat) :
    feeRateFee rate weight * FEE_RATE_KW ≤ rate * weight ∧
      (rate * weight < Since.U64 → feeRateFee rate weight = rate * weight / FEE_RATE_KW) := by
  unfold feeRateFee Since.satMul
  by_cases h : rate * weight < Since.U64
  · simp only [h, if_true, implies_true, and_true]
    exact Nat.div_mul_le_self _ _
  · simp only [h, if_false, false_implies, and_true]
    calc (Since.U64 - 1) / FEE_RATE_KW * FEE_RATE_KW ≤ Since.U64 - 1 := Nat.div_mul_le_self _ _
      _ ≤ rate * weight := by omega

/-- **pool_admit_ok_iff.** the tx-pool admits a transaction (up to `submit_entry`) iff the
context-free rules incl. the pool-only ones hold, it is not already pooled, it resolves, its fee is
defined and at least `min_fee_rate.fee(size)`, maturity / since / capacity hold, the scripts succeed
within the cycle limit — the DECLARED cycles for a relayed transaction, `max_block_cycles` otherwise —,
the DAO lock-size rule holds, and declared cycles (if any) equal the consumed cycles. -/
theorem pool_admit_ok_iff (p : PoolIn) (c f : Nat) :
    poolAdmit p = .ok c f ↔
      poolNonContextual p.txVersion p.maxBlockBytes p.tx = .ok ∧ p.inPool = false ∧ p.resolve = none ∧
      p.fee = some f ∧ feeRateFee p.minFeeRate (sizeInBlock p.tx) ≤ f ∧ p.time = .ok ∧ p.cap = .ok ∧
      p.cycles ≤ p.declared.getD p.maxBlockCycles ∧ p.scriptCode = 0 ∧ p.dao = none ∧
      (∀ d, p.declared = some d → d = p.cycles) ∧ c = p.cycles := by
  unfold poolAdmit checkTxFee
  cases h1 : poolNonContextual p.txVersion p.maxBlockBytes p.tx <;> simp
  cases h2 : p.inPool <;> simp
  cases h3 : p.resolve <;> simp
  cases h4 : p.fee with
  | none => simp
  | some fee =>
    simp only [Option.some.injEq]
    by_cases h5 : fee < feeRateFee p.minFeeRate (sizeInBlock p.tx)
    · simp only [h5, if_true]
      constructor
      · intro h; cases h
      · rintro ⟨rfl, h, _⟩; omega
    · simp only [h5, if_false]
      cases h6 : p.time <;> simp
      cases h7 : p.cap <;> simp
      cases h8 : p.declared with
      | none =>
        simp only [Option.getD_none]
        by_cases h9 : p.cycles > p.maxBlockCycles
        · simp only [h9, if_true]
          constructor
          · intro h; cases h
          · intro h; omega
        · simp only [h9, if_false]
          by_cases h10 : p.scriptCode = 0
          · cases h11 : p.dao with
            | some i => simp [h10]
            | none =>
              simp [h10]
              constructor
              · rintro ⟨rfl, rfl⟩; exact ⟨rfl, by omega, by omega, rfl⟩
              · rintro ⟨rfl, _, _, rfl⟩; exact ⟨rfl, rfl⟩
          · simp [h10]
      | some d =>
        simp only [Option.getD_some]
        by_cases h9 : p.cycles > d
        · simp only [h9, if_true]
          constructor
          · intro h; cases h
          · intro h; omega
        · simp only [h9, if_false]
          by_cases h10 : p.scriptCode = 0
          · cases h11 : p.dao with
            | some i => simp [h10]
            | none =>
              by_cases h12 : d = p.cycles
              · simp [h10, h12]
                constructor
                · rintro ⟨rfl, rfl⟩; exact ⟨rfl, by omega, rfl⟩
                · rintro ⟨rfl, _, rfl⟩; exact ⟨rfl, rfl⟩
              · simp [h10, h12]
          · simp [h10]

example : poolAdmit ⟨⟨0, [(1, 0)], [], [], [⟨⟨0, 0⟩, none⟩], [0], []⟩, 0, 597000, false, none, some 205, 1000,
      .ok, .ok, 0, 537, some 537, 70000000, none⟩ = .ok 537 205 ∧
    poolAdmit ⟨⟨0, [(1, 0)], [], [], [⟨⟨0, 0⟩, none⟩], [0], []⟩, 0, 597000, false, none, some 205, 1000,
      .ok, .ok, 0, 537, some 538, 70000000, none⟩ = .declaredWrongCycles 538 537 ∧
    poolAdmit ⟨⟨0, [(1, 0)], [], [], [⟨⟨0, 0⟩, none⟩], [0], []⟩, 0, 597000, false, none, some 205, 1000,
      .ok, .ok, 0, 537, some 536, 70000000, none⟩ = .exceededMaximumCycles ∧
    poolAdmit ⟨⟨0, [(1, 0)], [], [], [⟨⟨0, 0⟩, none⟩], [0], []⟩, 0, 597000, false, none, some 204, 1000,
      .ok, .ok, 0, 537, none, 70000000, none⟩ = .lowFeeRate 205 204 := by
  decide

/-- **pool_declared_cycles_decision.** for a relayed transaction that passes everything else, the
three-way outcome of the declared cycles `d` against the consumed cycles: `d` too small → the scripts
hit the limit (`ExceededMaximumCycles`), `d` too large → `DeclaredWrongCycles`, equal → admitted. -/
theorem pool_declared_cycles_decision (p : PoolIn) (d fee : Nat)
    (h1 : poolNonContextual p.txVersion p.maxBlockBytes p.tx = .ok) (h2 : p.inPool = false)
    (h3 : p.resolve = none) (h4 : p.fee = some fee)
    (h5 : feeRateFee p.minFeeRate (sizeInBlock p.tx) ≤ fee) (h6 : p.time = .ok) (h7 : p.cap = .ok)
    (h8 : p.scriptCode = 0) (h9 : p.dao = none) (hd : p.declared = some d) :
    poolAdmit p =
      if d < p.cycles then .exceededMaximumCycles
      else if p.cycles < d then .declaredWrongCycles d p.cycles
      else .ok p.cycles fee := by
  unfold poolAdmit checkTxFee
  have h5' : ¬ fee < feeRateFee p.minFeeRate (sizeInBlock p.tx) := by omega
  simp only [h1, h2, h3, h4, h5', h6, h7, h8, h9, hd, if_false, Bool.false_eq_true]
  by_cases ha : d < p.cycles
  · simp [ha]
  · by_cases hb : p.cycles < d
    · have : ¬ p.cycles > d := by omega
      have hne : d ≠ p.cycles := by omega
      simp [ha, hb, this, hne]
    · have : ¬ p.cycles > d := by omega
      have he : d = p.cycles := by omega
      simp [ha, hb, this, he]

/-- **pool_admit_implies_block_pipeline.** the pool is at least as strict as block verification at the
same rule results: whatever the pool admits (declared cycles, if any, within `max_block_cycles` —
the relayer refuses larger declarations) passes the block pipeline with the same cycles and fee. -/
theorem pool_admit_implies_block_pipeline (p : PoolIn) (c f : Nat) (h : poolAdmit p = .ok c f)
    (hdecl : ∀ d, p.declared = some d → d ≤ p.maxBlockCycles) :
    pipeline ⟨nonContextual p.txVersion p.maxBlockBytes p.tx, p.resolve, p.time, p.cap, p.scriptCode,
      p.cycles, p.maxBlockCycles, p.fee, p.dao⟩ = .ok (c, f) := by
  obtain ⟨h1, _, h3, h4, _, h6, h7, h8, h9, h10, h11, h12⟩ := (pool_admit_ok_iff p c f).1 h
  have hnc : nonContextual p.txVersion p.maxBlockBytes p.tx = .ok := by
    unfold poolNonContextual at h1
    cases hn : nonContextual p.txVersion p.maxBlockBytes p.tx <;> simp_all
  rw [pipeline_accept_iff]
  refine ⟨hnc, h3, h6, h7, ?_, h9, h4, h10, h12⟩
  cases hd : p.declared with
  | none => simpa [hd] using h8
  | some d =>
    have := h11 d hd
    have := hdecl d hd
    simp only
    omega

/-! ### Header deps are main-chain blocks -/

/-- **header_deps_ok_iff.** the header-dep loop accepts iff every header dep is, at the commit
position, in the number → hash index of the chain ending at the last attached block (the tip for the
pool, the parent of the block under verification) -/
theorem header_deps_ok_iff (db : Since.HeaderDb) (env : Since.Env) (hds : List Nat) :
    headerDepsCheck db env hds = .ok () ↔ ∀ h ∈ hds, isMainChain db env.parentOfCommit h = true := by
  unfold headerDepsCheck
  induction hds with
  | nil => simp [checkHeaders]
  | cons h rest ih =>
    unfold checkHeaders
    by_cases hv : isMainChain db env.parentOfCommit h = true
    · simp [hv, ih]
    · simp [hv]

/-- **main_chain_unique_at_height.** at most one block per height is a valid header dep: a block of
a side branch at the height of a main-chain block is refused -/
theorem main_chain_unique_at_height (db : Since.HeaderDb) (tip h1 h2 : Nat) (d1 d2 : Since.Hdr)
    (f1 : Since.findHdr db h1 = some d1) (f2 : Since.findHdr db h2 = some d2) (hn : d1.number = d2.number)
    (m1 : isMainChain db tip h1 = true) (m2 : isMainChain db tip h2 = true) : h1 = h2 := by
  unfold isMainChain at m1 m2
  rw [f1] at m1; rw [f2] at m2
  cases ht : Since.findHdr db tip with
  | none => simp [ht] at m1
  | some t =>
    simp only [ht, beq_iff_eq] at m1 m2
    rw [hn] at m1
    rw [m1] at m2
    exact Option.some.inj m2

/-- **main_chain_tip.** the last attached block itself is a valid header dep (the parent of the
commit block in block verification: there is no maturity delay for header deps in the code) -/
theorem main_chain_tip (db : Since.HeaderDb) (tip : Nat) (t : Since.Hdr) (ft : Since.findHdr db tip = some t) :
    isMainChain db tip tip = true := by
  unfold isMainChain
  simp only [ft, beq_iff_eq]
  unfold chainAt
  simp [ft]

/-- **main_chain_extends.** header deps stay valid when the chain grows: a block on the chain ending
at `tip` is on the chain ending at any child of `tip` (what the pool accepted at the tip, the block
committing it later accepts too) -/
theorem main_chain_extends (db : Since.HeaderDb) (tip child h : Nat) (t c : Since.Hdr)
    (ft : Since.findHdr db tip = some t) (fc : Since.findHdr db child = some c)
    (hp : c.parent = tip) (hn : c.number = t.number + 1)
    (m : isMainChain db tip h = true) : isMainChain db child h = true := by
  unfold isMainChain at m ⊢
  cases fh : Since.findHdr db h with
  | none => simp [fh] at m
  | some hd =>
    simp only [fh, ft, beq_iff_eq] at m
    simp only [fc, beq_iff_eq]
    obtain ⟨hd', fh', hnum⟩ := chainAt_some_number m
    rw [fh] at fh'; cases fh'
    -- the walk from `tip` can only report heights ≤ t.number
    have hle : hd.number ≤ t.number := by
      unfold chainAt at m
      simp only [ft] at m
      by_cases e : t.number = hd.number
      · omega
      · simp only [e, if_false] at m
        by_cases e2 : t.number < hd.number
        · simp [e2] at m
        · omega
    unfold chainAt
    simp only [fc]
    have e1 : ¬ t.number + 1 = hd.number := by omega
    have e2 : ¬ t.number + 1 < hd.number := by omega
    simp only [hn, hp, e1, e2, if_false]
    exact m

example : isMainChain [⟨1, 0, 0, 0, 0⟩, ⟨2, 1, 0, 10, 1⟩, ⟨3, 2, 0, 20, 2⟩, ⟨4, 2, 0, 21, 2⟩] 3 2 = true ∧
    isMainChain [⟨1, 0, 0, 0, 0⟩, ⟨2, 1, 0, 10, 1⟩, ⟨3, 2, 0, 20, 2⟩, ⟨4, 2, 0, 21, 2⟩] 3 4 = false ∧
    isMainChain [⟨1, 0, 0, 0, 0⟩, ⟨2, 1, 0, 10, 1⟩, ⟨3, 2, 0, 20, 2⟩, ⟨4, 2, 0, 21, 2⟩] 2 3 = false := by
  decide

end Rules

/-! ## The verdict depends on the transaction and the chain context only -/

/-- two node states present the same chain context to a transaction: the same live-cell view, the
same set of already-spent out points (in any order, with any multiplicity — however the node
accumulated it), the same main-chain headers, cell facts, consensus parameters, header database
(median times), commit environment and script oracle -/
structure SameContext (c1 c2 : Ctx) : Prop where
  provider : ∀ op, c1.provider op = c2.provider op
  seen : ∀ op, op ∈ c1.seen ↔ op ∈ c2.seen
  validHeader : ∀ h, c1.validHeader h = c2.validHeader h
  facts : ∀ op, c1.facts op = c2.facts op
  cfg : c1.cfg = c2.cfg
  headers : c1.headers = c2.headers
  env : c1.env = c2.env
  script : c1.script = c2.script
  maxCycles : c1.maxCycles = c2.maxCycles

theorem resolveTx_congr_seen (s1 s2 : List OutPoint) (hs : ∀ op, op ∈ s1 ↔ op ∈ s2)
    (p : Provider) (valid : Nat → Bool) (tx : TxRefs) :
    (resolveTx s1 p valid tx).map (·.1) = (resolveTx s2 p valid tx).map (·.1) := by
  have hc : ∀ op, resolveCell s1 p op = resolveCell s2 p op := by
    intro op; unfold resolveCell; simp only [hs op]
  have hi : ∀ l cur, resolveInputs s1 p l cur = resolveInputs s2 p l cur := by
    intro l; induction l with
    | nil => intro cur; rfl
    | cons op rest ih => intro cur; unfold resolveInputs; simp only [hc, ih]
  have hm : ∀ l, resolveMembers s1 p l = resolveMembers s2 p l := by
    intro l; induction l with
    | nil => rfl
    | cons op rest ih => unfold resolveMembers; simp only [hc, ih]
  have hd : ∀ l slots a b, resolveDeps s1 p l slots a b = resolveDeps s2 p l slots a b := by
    intro l; induction l with
    | nil => intro _ _ _; rfl
    | cons d rest ih => intro slots a b; unfold resolveDeps; simp only [hc, hm, ih]
  unfold resolveTx
  simp only [hi, hd]
  cases (if tx.isCellbase then (Except.ok [] : Except RErr (List OutPoint)) else resolveInputs s2 p tx.inputs []) with
  | error e => rfl
  | ok cur =>
    cases resolveDeps s2 p tx.deps MAX_DEP_EXPANSION_LIMIT [] [] with
    | error e => rfl
    | ok r => obtain ⟨a, b⟩ := r; cases checkHeaders valid tx.headerDeps <;> rfl

/-- **verdict_depends_only_on_tx_and_ctx.** -/
theorem verdict_depends_only_on_tx_and_ctx (c1 c2 : Ctx) (h : SameContext c1 c2) (tx : TxBody) :
    verdict c1 tx = verdict c2 tx := by
  have hp : c1.provider = c2.provider := funext h.provider
  have hv : c1.validHeader = c2.validHeader := funext h.validHeader
  have hf : c1.facts = c2.facts := funext h.facts
  have hr := resolveTx_congr_seen c1.seen c2.seen h.seen c2.provider c2.validHeader tx.refs
  unfold verdict
  rw [hp, hv, hf, h.cfg, h.headers, h.env, h.script, h.maxCycles]
  cases h1 : resolveTx c1.seen c2.provider c2.validHeader tx.refs with
  | error e =>
    rw [h1] at hr
    cases h2 : resolveTx c2.seen c2.provider c2.validHeader tx.refs with
    | error e2 => rw [h2] at hr; simp [Except.map] at hr; simp [hr]
    | ok r2 => rw [h2] at hr; simp [Except.map] at hr
  | ok r1 =>
    rw [h1] at hr
    cases h2 : resolveTx c2.seen c2.provider c2.validHeader tx.refs with
    | error e2 => rw [h2] at hr; simp [Except.map] at hr
    | ok r2 =>
      rw [h2] at hr; simp [Except.map] at hr
      obtain ⟨a1, b1⟩ := r1; obtain ⟨a2, b2⟩ := r2
      simp only at hr; subst hr; rfl

/-- **verdict_accepted_iff.** `resolve_transaction` followed by `ContextualTransactionVerifier::verify`
accepts with `n` cycles iff resolution succeeds and, on the resolved cells, the time-relative rules
(maturity, since), the capacity rules and the scripts (exit code 0 within the cycle limit) all hold. -/
theorem verdict_accepted_iff (c : Ctx) (tx : TxBody) (n : Nat) :
    verdict c tx = .accepted n ↔
      ∃ r seen', resolveTx c.seen c.provider c.validHeader tx.refs = .ok (r, seen') ∧
        Since.timeRelativeVerify c.cfg c.headers c.env
          ((tx.sinces.zip r.inputs).map fun (s, op) => (s, (c.facts op).info))
          (r.cellDeps.map fun op => (c.facts op).info) = .ok ∧
        capacityVerify (r.inputs.isEmpty || r.inputs.any (fun op => (c.facts op).usesDao))
          (r.inputs.map fun op => (c.facts op).capacity) tx.outputs = .ok ∧
        (c.script tx r).2 = n ∧ n ≤ c.maxCycles ∧ (c.script tx r).1 = 0 := by
  unfold verdict
  cases hr : resolveTx c.seen c.provider c.validHeader tx.refs with
  | error e =>
    constructor
    · intro h; cases h
    · rintro ⟨r, s, h, _⟩; cases h
  | ok rs =>
    obtain ⟨r, s⟩ := rs
    simp only
    constructor
    · intro h
      refine ⟨r, s, rfl, ?_⟩
      cases ht : Since.timeRelativeVerify c.cfg c.headers c.env
          ((tx.sinces.zip r.inputs).map fun (s, op) => (s, (c.facts op).info))
          (r.cellDeps.map fun op => (c.facts op).info) <;> rw [ht] at h <;> try (cases h)
      refine ⟨rfl, ?_⟩
      cases hc : capacityVerify (r.inputs.isEmpty || r.inputs.any (fun op => (c.facts op).usesDao))
          (r.inputs.map fun op => (c.facts op).capacity) tx.outputs <;> rw [hc] at h <;> try (cases h)
      refine ⟨rfl, ?_⟩
      simp only at h
      by_cases h1 : (c.script tx r).2 > c.maxCycles
      · simp [h1] at h
      · by_cases h2 : (c.script tx r).1 = 0
        · simp [h1, h2] at h
          have h' : (c.script tx r).2 = n := h
          exact ⟨h', by omega, h2⟩
        · simp [h1, h2] at h
    · rintro ⟨r', s', h, ht, hc, hn, hle, h0⟩
      cases h
      rw [ht, hc]
      simp only
      have h1 : ¬ (c.script tx r).2 > c.maxCycles := by omega
      simp [h1, h0, hn, hle]

example : verdict ⟨fun op => if op.tx = 1 then .live none else .unknown, [], fun _ => true,
      fun _ => ⟨none, 6100000000, false⟩, ⟨2, 0, 3, 0⟩, [], ⟨.committed, 5, 0, 1, 0⟩, fun _ _ => (0, 537), 1000⟩
    ⟨⟨[⟨1, 0⟩], false, [], []⟩, [0], [⟨6100000000, 20, none, 0⟩]⟩ = .accepted 537 := by decide

/-- **block_and_pool_agree.** the block side (`Committed` env built from the block's own header) and
the pool side (`Proposed`/`Submitted` env built from the tip) run the same function; whenever the
two envs denote the same commit position — same commit block number, same epoch, same parent for
the median time, same commit epoch number — every since check gives the same answer. -/
theorem block_and_pool_agree (cfg : Cfg) (db : HeaderDb) (eb ep : Env) (i s : Nat) (info : Option TxInfo)
    (hn : eb.blockNumber cfg.closest = ep.blockNumber cfg.closest) (he : eb.epoch = ep.epoch)
    (hp : eb.parentOfCommit = ep.parentOfCommit) (hen : eb.epochNumber cfg.closest = ep.epochNumber cfg.closest) :
    checkSince cfg db eb i s info = checkSince cfg db ep i s info := by
  unfold checkSince verifyAbsolute verifyRelative relBaseTimestamp
  simp only [hn, he, hp, hen]

/-- the pool's `Proposed(n)` env at tip `t` and the block's `Committed` env for the block `t+1` denote
the same commit position for block-number and timestamp purposes exactly when the transaction is
committed at the earliest allowed block (n = closest − 1) -/
example : (Env.blockNumber ⟨.proposed 1, 10, 0, 5, 4⟩ 2 = Env.blockNumber ⟨.committed, 11, 0, 6, 5⟩ 2) ∧
    (Env.parentOfCommit ⟨.proposed 1, 10, 0, 5, 4⟩ = Env.parentOfCommit ⟨.committed, 11, 0, 6, 5⟩) := by decide

end CkbVerif.C04
