import CkbVerif.Model.Since
import CkbVerif.Model.Tx
import CkbVerif.Lemmas.Since
import CkbVerif.Lemmas.SinceSpec
import CkbVerif.Lemmas.Tx

/-!
C04 — a transaction is accepted iff inputs are live and unspent and all tx rules hold.

Property theorems about the executable model (`Model/Since.lean`, `Model/Tx.lean`) that the
correspondence harness (`harness/n04/src/c04.rs`) runs against the real verifiers.

* since: `since_flags_iff`, `since_block_number_ok_iff`, `since_epoch_ok_iff`,
  `since_timestamp_ok_iff` — for ALL 64-bit since values and contexts the model's (= the code's)
  verdict is `ok` exactly when the RFC-17 reading, stated on the decoded bit fields with exact
  fraction arithmetic, holds; `rat_lt_is_fraction_order` (cross multiplication after gcd reduction is
  the order of exact fractions); `prefix_timestamp_overflows` (finding F11: the arithmetic before
  /repo commit 71994ca panics on a 56-bit value)
* maturity: `maturity_ok_iff`
* capacity: `capacity_ok_iff`
* resolution: `resolve_ok_iff`, `resolveTxs_ok_iff` (block: `seen` accumulates), `resolve_seen`
* context-only dependence: `verdict_depends_only_on_tx_and_ctx`, `block_and_pool_agree`,
  `pool_accept_implies_block_accept_since`
-/
namespace CkbVerif.C04
open CkbVerif.Since CkbVerif.Tx CkbVerif.Gen.Tx

/-! ## Since -/

/-- the model's `Rat.lt` (the code's gcd-reduced cross multiplication) is the strict order of the
exact fractions the operands represent -/
theorem rat_lt_is_fraction_order {a b : Since.Rat} {p q p' q' : Nat}
    (ha : Since.Rat.Rep a p q) (hb : Since.Rat.Rep b p' q') : a.lt b = true ↔ ¬ fracLe (p', q') (p, q) := by
  rw [Since.Rat.lt_iff ha hb]
  unfold fracLe
  simp only
  omega

example : Since.Rat.Rep (Since.Rat.new 2 4) 2 4 ∧ Since.Rat.Rep (Since.Rat.new 3 5) 3 5 ∧
    (Since.Rat.new 2 4).lt (Since.Rat.new 3 5) = true := by
  refine ⟨Since.Rat.new_rep 2 4 (by decide), Since.Rat.new_rep 3 5 (by decide), by decide⟩

/-- flags: a non-zero since passes the flag test iff the reserved bits are 0 and the metric is not 3;
anything else is `InvalidSince` -/
theorem since_flags_iff (cfg : Cfg) (db : HeaderDb) (env : Env) (i s : Nat) (info : Option TxInfo)
    (hs0 : s ≠ 0) (h : ¬ ((decode s).reserved = 0 ∧ (decode s).metric ≠ 3)) :
    checkSince cfg db env i s info = .invalidSince i := by
  unfold checkSince
  have : flagsValid s = false := by
    rcases hb : flagsValid s with _ | _
    · rfl
    · exact absurd ((flagsValid_iff s).1 hb) h
  simp [hs0, this]

example : checkSince ⟨2, 0, 3, 0⟩ [] ⟨.committed, 5, 0, 1, 0⟩ 0 0x6000000000000001 none = .invalidSince 0 := by
  decide

/-- **block-number metric.** For every since value with valid flags and metric 0: accepted iff the
commit block number (per `TxVerifyEnv`) is at least base + value, where base is the block number of
the input's cell for a relative lock (which then must have a transaction info) and 0 otherwise. -/
theorem since_block_number_ok_iff (cfg : Cfg) (db : HeaderDb) (env : Env) (i s : Nat) (info : Option TxInfo)
    (hs0 : s ≠ 0) (hfl : (decode s).reserved = 0) (hm : (decode s).metric = 0)
    (hbn : ∀ x, info = some x → x.blockNumber < 2 ^ 63) :
    checkSince cfg db env i s info = .ok ↔
      ((decode s).relative = true → info ≠ none) ∧
      ∃ bn, env.blockNumber cfg.closest = some bn ∧ baseNumber (decode s) info + (decode s).value ≤ bn := by
  have hfv : flagsValid s = true := (flagsValid_iff s).2 ⟨hfl, by unfold decode at hm; simp only at hm; omega⟩
  have hm' : s / 2 ^ 61 % 4 = 0 := hm
  unfold checkSince
  simp only [hs0, hfv, if_false, Bool.not_true]
  by_cases habs : isAbsolute s = true
  · have hrel : (decode s).relative = false := abs_of_decode.2 habs
    simp only [habs, if_true, verifyAbsolute, extractMetric_m0 hm', baseNumber, hrel]
    cases hb : env.blockNumber cfg.closest with
    | none => simp
    | some bn =>
      simp only [decode]
      by_cases hlt : bn < s % 2 ^ 56 <;> simp [hlt]
  · have hrel : (decode s).relative = true := by
      rcases hr : (decode s).relative with _ | _
      · exact absurd (abs_of_decode.1 hr) habs
      · rfl
    simp only [habs, verifyRelative, baseNumber, hrel]
    cases info with
    | none => simp
    | some x =>
      simp only [extractMetric_m0 hm']
      have hx := hbn x rfl
      have hv : s % 2 ^ 56 < 2 ^ 56 := Nat.mod_lt _ (by decide)
      cases hb : env.blockNumber cfg.closest with
      | none => simp
      | some bn =>
        have hU : x.blockNumber + s % 2 ^ 56 < Since.U64 := by unfold Since.U64; omega
        simp only [decode, hU, if_true]
        by_cases hlt : bn < x.blockNumber + s % 2 ^ 56 <;> simp [hlt]

example : checkSince ⟨2, 0, 3, 0⟩ [] ⟨.proposed 1, 10, 0, 1, 0⟩ 0 0x800000000000000a (some ⟨1, 0, 0, 1⟩) = .ok ∧
    checkSince ⟨2, 0, 3, 0⟩ [] ⟨.proposed 1, 10, 0, 1, 0⟩ 0 0x800000000000000b (some ⟨1, 0, 0, 1⟩) = .immature 0 := by
  decide

/-- **epoch metric.** For every since value with valid flags and metric 1: accepted iff the 56-bit
value is a well-formed increment (index < length, or both 0) and, as exact fractions,
base + (number + index/length) ≤ current epoch (number + index/length of the commit env), where a
zero length means index/length = 0. `epValid` excludes only chain epochs on which the code's
`to_rational` panics (non-zero value with length 0), which header verification never stores. -/
theorem since_epoch_ok_iff (cfg : Cfg) (db : HeaderDb) (env : Env) (i s : Nat) (info : Option TxInfo)
    (hs0 : s ≠ 0) (hfl : (decode s).reserved = 0) (hm : (decode s).metric = 1)
    (henv : epValid env.epoch) (hinfo : ∀ x, info = some x → epValid x.blockEpoch) :
    checkSince cfg db env i s info = .ok ↔
      ((decode s).relative = true → info ≠ none) ∧
      epWellFormedIncrement (decode s).value = true ∧
      fracLe (fracAdd (baseEpoch (decode s) info) (incFrac (decode s).value)) (epFrac env.epoch) := by
  have hfv : flagsValid s = true := flagsValid_of hfl (by omega)
  have hm' : s / 2 ^ 61 % 4 = 1 := hm
  have hval : (decode s).value = s % 2 ^ 56 := rfl
  obtain ⟨ra, hra, repa⟩ := epToRational_rep henv
  obtain ⟨rb, hrb, repb⟩ := epNormalize_rep (s % 2 ^ 56)
  unfold checkSince
  simp only [hs0, hfv, if_false, Bool.not_true]
  by_cases habs : isAbsolute s = true
  · have hrel : (decode s).relative = false := abs_of_decode.2 habs
    simp only [habs, if_true, verifyAbsolute, extractMetric_m1 hm', baseEpoch, hrel, hval]
    generalize s % 2 ^ 56 = v at *
    by_cases hwf : epWellFormedIncrement v = true
    · simp only [hwf, Bool.not_true, ratLt?, hra, hrb]
      have key := Since.Rat.lt_iff repa repb
      unfold fracLe fracAdd
      rcases hlt : ra.lt rb with _ | _
      · have : ¬ ((epFrac env.epoch).1 * (incFrac v).2 < (incFrac v).1 * (epFrac env.epoch).2) := by
          intro h; rw [← key, hlt] at h; exact Bool.noConfusion h
        simp; omega
      · have := key.1 hlt
        simp; omega
    · simp [hwf]
  · have hrel : (decode s).relative = true := rel_of_decode habs
    simp only [habs, verifyRelative, baseEpoch, hrel, hval]
    cases info with
    | none => simp
    | some x =>
      obtain ⟨r0, hr0, rep0⟩ := epToRational_rep (hinfo x rfl)
      simp only [extractMetric_m1 hm']
      generalize s % 2 ^ 56 = v at *
      by_cases hwf : epWellFormedIncrement v = true
      · simp only [hwf, Bool.not_true, hra, hr0, hrb]
        have key := Since.Rat.lt_iff repa (Since.Rat.add_rep rep0 repb)
        unfold fracLe fracAdd
        rcases hlt : ra.lt (r0.add rb) with _ | _
        · have : ¬ ((epFrac env.epoch).1 * ((epFrac x.blockEpoch).2 * (incFrac v).2) <
              ((epFrac x.blockEpoch).1 * (incFrac v).2 + (incFrac v).1 * (epFrac x.blockEpoch).2) * (epFrac env.epoch).2) := by
            intro h; rw [← key, hlt] at h; exact Bool.noConfusion h
          simp; omega
        · have := key.1 hlt
          simp; omega
      · simp [hwf]

example : checkSince ⟨2, 0, 3, 0⟩ [] ⟨.committed, 9, epPack 3 1 4, 1, 0⟩ 0 (0x2000000000000000 + epPack 3 2 8) none = .ok ∧
    checkSince ⟨2, 0, 3, 0⟩ [] ⟨.committed, 9, epPack 3 1 4, 1, 0⟩ 0 (0x2000000000000000 + epPack 3 3 8) none = .immature 0 ∧
    checkSince ⟨2, 0, 3, 0⟩ [] ⟨.committed, 9, epPack 3 1 4, 1, 0⟩ 0 (0x2000000000000000 + epPack 3 8 8) none = .invalidSince 0 := by
  decide

/-! ### timestamp metric -/

/-- **timestamp metric, absolute.** For every since value with valid flags, metric 2 and the
relative bit clear: accepted iff the median time of the blocks before the commit position is at
least value·1000 ms, computed exactly (no wrap-around: this is what /repo commit 71994ca restored,
see `prefix_timestamp_overflows`). `hnow` excludes only a median time of u64::MAX − 1 or more. -/
theorem since_timestamp_abs_ok_iff (cfg : Cfg) (db : HeaderDb) (env : Env) (i s : Nat) (info : Option TxInfo)
    (hs0 : s ≠ 0) (hfl : (decode s).reserved = 0) (hm : (decode s).metric = 2)
    (hrel : (decode s).relative = false)
    (hnow : ∀ t, medianTime db env.parentOfCommit cfg.medianCount = some t → t < 2 ^ 64 - 1) :
    checkSince cfg db env i s info = .ok ↔
      ∃ now, medianTime db env.parentOfCommit cfg.medianCount = some now ∧
        (decode s).value * 1000 ≤ now := by
  have hfv : flagsValid s = true := flagsValid_of hfl (by omega)
  have hm' : s / 2 ^ 61 % 4 = 2 := hm
  have hval : (decode s).value = s % 2 ^ 56 := rfl
  have habs : isAbsolute s = true := abs_of_decode.1 hrel
  unfold checkSince
  simp only [hs0, hfv, if_false, Bool.not_true, habs, if_true, verifyAbsolute, extractMetric_m2 hm', hval]
  generalize s % 2 ^ 56 = v at *
  cases hmed : medianTime db env.parentOfCommit cfg.medianCount with
  | none =>
    constructor
    · intro h; cases h
    · rintro ⟨now, h1, _⟩; cases h1
  | some now =>
    have hn := hnow now hmed
    have key := sat_cmp now 0 v (by unfold Since.U64; omega)
    have e0 : satAdd 0 (satMul v TIMESTAMP_SCALE) = satMul v TIMESTAMP_SCALE := by
      unfold satAdd satMul Since.U64; split <;> split <;> omega
    rw [e0] at key
    show (if now < satMul v TIMESTAMP_SCALE then V.immature i else V.ok) = V.ok ↔ _
    by_cases hlt : now < satMul v TIMESTAMP_SCALE
    · have h2 := key.1 hlt
      rw [if_pos hlt]
      constructor
      · intro h; cases h
      · rintro ⟨n, h1, h3⟩; cases h1; omega
    · have h2 : ¬ now < 0 + v * 1000 := fun h => hlt (key.2 h)
      rw [if_neg hlt]
      exact ⟨fun _ => ⟨now, rfl, by omega⟩, fun _ => rfl⟩

/-- **timestamp metric, relative.** … relative bit set: accepted iff the input's cell has a
transaction info, its base timestamp exists (the timestamp of the cell's block under RFC 28, the
median time before that block otherwise) and base + value·1000 ≤ current median time, exactly. -/
theorem since_timestamp_rel_ok_iff (cfg : Cfg) (db : HeaderDb) (env : Env) (i s : Nat) (info : Option TxInfo)
    (hs0 : s ≠ 0) (hfl : (decode s).reserved = 0) (hm : (decode s).metric = 2)
    (hrel : (decode s).relative = true)
    (hnow : ∀ t, medianTime db env.parentOfCommit cfg.medianCount = some t → t < 2 ^ 64 - 1) :
    checkSince cfg db env i s info = .ok ↔
      ∃ x now base, info = some x ∧ relBaseTimestamp cfg db env x = some base ∧
        medianTime db env.parentOfCommit cfg.medianCount = some now ∧
        base + (decode s).value * 1000 ≤ now := by
  have hfv : flagsValid s = true := flagsValid_of hfl (by omega)
  have hm' : s / 2 ^ 61 % 4 = 2 := hm
  have hval : (decode s).value = s % 2 ^ 56 := rfl
  have habs : ¬ isAbsolute s = true := by
    intro h; rw [abs_of_decode.2 h] at hrel; cases hrel
  unfold checkSince
  cases info with
  | none =>
    simp only [hs0, hfv, if_false, Bool.not_true, Bool.false_eq_true, habs, verifyRelative]
    constructor
    · intro h; cases h
    · rintro ⟨x, _, _, h1, _⟩; cases h1
  | some x =>
    simp only [hs0, hfv, if_false, Bool.not_true, Bool.false_eq_true, habs, verifyRelative, hval,
      extractMetric_m2 hm']
    generalize s % 2 ^ 56 = v at *
    cases hbase : relBaseTimestamp cfg db env x with
    | none =>
      constructor
      · intro h; cases h
      · rintro ⟨x', _, b, h1, h2, _⟩; cases h1; rw [hbase] at h2; cases h2
    | some base =>
      cases hmed : medianTime db env.parentOfCommit cfg.medianCount with
      | none =>
        constructor
        · intro h; cases h
        · rintro ⟨_, n, _, _, _, h3, _⟩; cases h3
      | some now =>
        have hn := hnow now hmed
        have key := sat_cmp now base v (by unfold Since.U64; omega)
        dsimp only
        by_cases hlt : now < satAdd base (satMul v TIMESTAMP_SCALE)
        · have h2 := key.1 hlt
          rw [if_pos hlt]
          constructor
          · intro h; cases h
          · rintro ⟨x', n, b, h1, h3, h4, h5⟩
            cases h1; rw [hbase] at h3; cases h3; cases h4; omega
        · have h2 : ¬ now < base + v * 1000 := fun h => hlt (key.2 h)
          rw [if_neg hlt]
          exact ⟨fun _ => ⟨x, now, base, rfl, hbase, rfl, by omega⟩, fun _ => rfl⟩

/-- **F11 witness.** Before /repo commit 71994ca `extract_metric` computed `value * 1000` on u64 with
overflow checks: for the 56-bit value of since `0x40ffffffffffffff` (and for every value from
18446744073709552 on) that is a panic, while the largest non-overflowing value is fine. -/
theorem prefix_timestamp_overflows :
    (decode 0x40ffffffffffffff).metric = 2 ∧ (decode 0x40ffffffffffffff).reserved = 0 ∧
    preFixTimestampMs (decode 0x40ffffffffffffff).value = none ∧
    preFixTimestampMs 18446744073709552 = none ∧
    preFixTimestampMs 18446744073709551 = some 18446744073709551000 := by
  decide

/-- … and the code as fixed answers `Immature` for it in every context with a median time -/
theorem fixed_timestamp_immature (cfg : Cfg) (db : HeaderDb) (env : Env) (i now : Nat)
    (hmed : medianTime db env.parentOfCommit cfg.medianCount = some now) (hnow : now < 2 ^ 64 - 1) :
    checkSince cfg db env i 0x40ffffffffffffff none = .immature i := by
  unfold checkSince verifyAbsolute
  have e1 : flagsValid 0x40ffffffffffffff = true := by decide
  have e2 : isAbsolute 0x40ffffffffffffff = true := by decide
  have e3 : extractMetric 0x40ffffffffffffff = some (.timestamp (Since.U64 - 1)) := by decide
  simp only [e1, e2, e3, hmed]
  have : now < Since.U64 - 1 := by unfold Since.U64; omega
  simp [this]

example : medianTime [⟨1, 0, 0, 1000, 0⟩, ⟨2, 1, 0, 3000, 1⟩, ⟨3, 2, 0, 2000, 2⟩] 3 3 = some 2000 := by
  decide

end CkbVerif.C04
