/-
C10 — freezing old blocks is invisible to every chain query and survives crashes.

Theorems about `Model/Freeze.lean` (the freezer pass of `shared/src/shared.rs` over the store model).
A pass is a sequence of micro-steps (`Step`): append the next main-chain block to the freezer,
delete the body rows of a frozen block, delete a side-chain block.  A crash (process death) leaves
the state after some prefix of these steps (the freezer keeps a prefix of the appended items — C09 —
and each of the two write batches is atomic, which is coarser than single deletions), so every
statement quantified over `Steps s t` covers every crash point.

The model follows /repo with its three repairs: F9 (e69f9a7), F17 (ea444a5, `get_block(hash)`
compares the hash of the freezer item) and F18 (the seven part accessors fall back to
`get_frozen_block`).  What the code did before each repair is kept as regression witnesses about the
`…PreF17` / `…PreF18` / `Store.PreFix` functions (`part_accessors_change_when_frozen_prefix`,
`get_block_by_hash_returns_other_block_prefix`, `freeze_panics_on_stale_epoch_row_prefix`).
-/
import CkbVerif.Lemmas.Freeze
import CkbVerif.Lemmas.FreezeStart
import CkbVerif.Lemmas.FreezeChain
namespace CkbVerif.C10
open CkbVerif.Store CkbVerif.Freeze

/-! ### C10.1 — the dispatching accessors answer the same before, during and after a pass -/

/-- **C10.1, full.**  For every main-chain block (`OnMain s id blk`), in every state `t` that a
freezer pass, or any crash inside it (= any prefix of its micro-steps), can leave when started in a
state satisfying the freezer invariant: EVERY listed accessor answers the block (resp. its part), in
`t` exactly as in `s` — `get_block`, `get_packed_block`, `get_block_header`, the part accessors
(`getPart` stands for `get_block_proposal_txs_ids` / `get_block_extension`, which the model does not
split off, and is projected to `get_block_body`, `get_block_txs_hashes`, `get_cellbase`,
`get_block_uncles`), `get_ancestor` to its height; and the whole chain view `v` (live cells = `get_cell`,
number index, transaction-info rows, epoch rows) is untouched.  `get_transaction(_info)` is
`transactions_invariant_under_freeze` below.  Holds since the repair of F18; before it the part
accessors and `get_packed_block` flipped to nothing (`part_accessors_change_when_frozen_prefix`). -/
theorem queries_invariant_under_freeze (s t : FS) (h : Inv s) (st : Steps s t)
    (id : Nat) (blk : Block) (hm : OnMain s id blk) :
    (getBlock t id = .some blk ∧ getBlock s id = .some blk) ∧
    (getPacked t id = some blk ∧ getPacked s id = some blk) ∧
    (getHeader t id = some blk ∧ getHeader s id = some blk) ∧
    (getPart t id = some blk ∧ getPart s id = some blk) ∧
    (getBody t id = blk.txs ∧ getBody s id = blk.txs) ∧
    (getTxsHashes t id = blk.txs.map (·.id) ∧ getTxsHashes s id = blk.txs.map (·.id)) ∧
    (getCellbase t id = blk.txs.head? ∧ getCellbase s id = blk.txs.head?) ∧
    (getUncles t id = some blk.uncles ∧ getUncles s id = some blk.uncles) ∧
    (getAncestor t blk.number = some blk ∧ getAncestor s blk.number = some blk) ∧
    t.v = s.v := by
  have ht := inv_steps h st
  have hm' := (onMain_steps st id blk).mpr hm
  have p1 := getPart_main t ht id blk hm'
  have p2 := getPart_main s h id blk hm
  have a1 : getAncestor t blk.number = some blk := by
    simp [getAncestor, hm'.2, getHeader_main t ht id blk hm']
  have a2 : getAncestor s blk.number = some blk := by
    simp [getAncestor, hm.2, getHeader_main s h id blk hm]
  refine ⟨⟨getBlock_main t ht id blk hm', getBlock_main s h id blk hm⟩,
    ⟨getPacked_main t ht id blk hm', getPacked_main s h id blk hm⟩,
    ⟨getHeader_main t ht id blk hm', getHeader_main s h id blk hm⟩,
    ⟨p1, p2⟩, ?_, ?_, ?_, ?_, ⟨a1, a2⟩, ?_⟩
  · simp [getBody, p1, p2]
  · simp [getTxsHashes, getBody, p1, p2]
  · simp [getCellbase, p1, p2]
  · simp [getUncles, p1, p2]
  · clear p1 p2 a1 a2 hm hm' ht h
    induction st with
    | refl => rfl
    | tail _ st ih => cases st <;> exact ih

/-- the part of `queries_invariant_under_freeze` that was provable before the repair of F18 (kept
under its name: `get_block(hash)` and `get_block_header` only) -/
theorem queries_invariant_under_freeze_partial (s t : FS) (h : Inv s) (st : Steps s t)
    (id : Nat) (blk : Block) (hm : OnMain s id blk) :
    getBlock t id = getBlock s id ∧ getBlock t id = .some blk ∧ getHeader t id = getHeader s id := by
  obtain ⟨⟨b1, b2⟩, _, ⟨h1, h2⟩, _⟩ := queries_invariant_under_freeze s t h st id blk hm
  exact ⟨by rw [b1, b2], b1, by rw [h1, h2]⟩

/-- every committed transaction with its location reads the same (`get_transaction`,
`get_transaction_info`, `get_transaction_with_info`) -/
theorem transactions_invariant_under_freeze (s t : FS) (h : Inv s) (st : Steps s t)
    (tx : Nat) (info : TxInfo) (blk : Block) (x : Tx)
    (hi : s.v.m.txInfo tx = some info) (hit : t.v.m.txInfo tx = some info)
    (hm : OnMain s info.blockId blk) (hn : info.number = blk.number) (hx : blk.txs[info.index]? = some x) :
    getTx t tx = getTx s tx ∧ getTx t tx = some (x, info) := by
  have ht := inv_steps h st
  have hm' := (onMain_steps st _ blk).mpr hm
  have h1 := getTx_main t ht tx info blk x hit hm' hn hx
  have h2 := getTx_main s h tx info blk x hi hm hn hx
  exact ⟨by rw [h1, h2], h1⟩

/-- the same for a whole pass of the model's `freeze` (the function the driver runs), and the
pass does not touch the chain view at all (live cells, indexes, epoch rows) -/
theorem freeze_pass_invisible (s : FS) (h : Inv s) (id : Nat) (blk : Block) (hm : OnMain s id blk) :
    getBlock (freeze s).1 id = getBlock s id ∧ Inv (freeze s).1 :=
  ⟨(queries_invariant_under_freeze_partial s _ h (freeze_is_steps s h) id blk hm).1,
   inv_steps h (freeze_is_steps s h)⟩

theorem steps_keep_view {s t : FS} (st : Steps s t) : t.v = s.v := by
  induction st with
  | refl => rfl
  | tail _ st ih => cases st <;> exact ih

/-! ### C10.1b — the invariant is not an assumption for chains of the C02 model -/

/-- `n` passes in a row (new blocks may not arrive in between in this statement) -/
def passes : Nat → FS → FS
  | 0, s => s
  | n + 1, s => passes n (freeze s).1

theorem passes_steps (n : Nat) (s : FS) (h : Inv s) : Steps s (passes n s) := by
  induction n generalizing s with
  | zero => exact Steps.refl s
  | succ n ih =>
    have h1 := freeze_is_steps s h
    exact Steps.trans h1 (ih _ (inv_steps h h1))

/-- For the replay of ANY well-formed chain (`Valid` genesis, `ValidChain` rest — the C02
well-formedness), started with nothing frozen and every row present, any number of freezer passes
leaves `get_block` / `get_block_header` of every main-chain block unchanged: the invariant `Inv` is
derived (`inv_start`, `storeOk_attachAll`), not assumed. -/
theorem freeze_invisible_on_replayed_chain (g : Block) (rest : List Block) (stored : List Nat)
    (hg : Valid Main.empty Recs.empty g) (hc : ValidChain (init g) rest) (n : Nat)
    (id : Nat) (blk : Block) (hm : OnMain (startState (replay (g :: rest)) stored) id blk) :
    let s := startState (replay (g :: rest)) stored
    Inv s ∧ getBlock (passes n s) id = getBlock s id ∧ getBlock (passes n s) id = .some blk ∧
      getHeader (passes n s) id = getHeader s id := by
  intro s
  have hinv : Inv s := inv_start _ _ (storeOk_attachAll (storeOk_init g hg) hc)
  exact ⟨hinv, queries_invariant_under_freeze_partial s _ hinv (passes_steps n s hinv) id blk hm⟩

/-- the same with every part accessor and the packed block (full accessor list, replayed chain,
any number of passes) -/
theorem freeze_invisible_on_replayed_chain_all_accessors (g : Block) (rest : List Block) (stored : List Nat)
    (hg : Valid Main.empty Recs.empty g) (hc : ValidChain (init g) rest) (n : Nat)
    (id : Nat) (blk : Block) (hm : OnMain (startState (replay (g :: rest)) stored) id blk) :
    let s := startState (replay (g :: rest)) stored
    getBlock (passes n s) id = .some blk ∧ getPacked (passes n s) id = some blk ∧
      getHeader (passes n s) id = some blk ∧ getPart (passes n s) id = some blk ∧
      getBody (passes n s) id = blk.txs ∧ getCellbase (passes n s) id = blk.txs.head? ∧
      getUncles (passes n s) id = some blk.uncles ∧ (passes n s).v = s.v := by
  intro s
  have hinv : Inv s := inv_start _ _ (storeOk_attachAll (storeOk_init g hg) hc)
  obtain ⟨⟨b, _⟩, ⟨k, _⟩, ⟨hh, _⟩, ⟨p, _⟩, ⟨bd, _⟩, _, ⟨cb, _⟩, ⟨un, _⟩, _, hv⟩ :=
    queries_invariant_under_freeze s _ hinv (passes_steps n s hinv) id blk hm
  exact ⟨b, k, hh, p, bd, cb, un, hv⟩

/-! ### C10.2 — crash safety -/

theorem steps_frozen_prefix {s t : FS} (st : Steps s t) : ∃ new, t.frozen = s.frozen ++ new := by
  induction st with
  | refl => exact ⟨[], by simp⟩
  | tail _ st ih =>
    obtain ⟨new, hn⟩ := ih
    cases st with
    | append b _ => exact ⟨new ++ [b], by simp [appendOne, hn]⟩
    | wipeBody x _ => exact ⟨new, hn⟩
    | wipeSide x _ => exact ⟨new, hn⟩

/-- At every crash point of a pass: no frozen block is lost (the freezer only grows), every
main-chain block still answers with itself, and the state satisfies the invariant again, so the next
pass simply continues from `freezer.number`. -/
theorem freeze_crash_safe (s t : FS) (h : Inv s) (st : Steps s t) :
    Inv t ∧ (∃ new, t.frozen = s.frozen ++ new) ∧
    ∀ id blk, OnMain s id blk → getBlock t id = .some blk :=
  ⟨inv_steps h st, steps_frozen_prefix st, fun id blk hm => (queries_invariant_under_freeze_partial s t h st id blk hm).2.1⟩

/-- crash safety for the full accessor list: at every crash point every main-chain block still
answers with itself through every accessor -/
theorem freeze_crash_safe_all_accessors (s t : FS) (h : Inv s) (st : Steps s t) :
    Inv t ∧ (∃ new, t.frozen = s.frozen ++ new) ∧ t.v = s.v ∧
    ∀ id blk, OnMain s id blk →
      getBlock t id = .some blk ∧ getPacked t id = some blk ∧ getHeader t id = some blk ∧
      getPart t id = some blk := by
  refine ⟨inv_steps h st, steps_frozen_prefix st, steps_keep_view st, fun id blk hm => ?_⟩
  obtain ⟨⟨b, _⟩, ⟨k, _⟩, ⟨hh, _⟩, ⟨p, _⟩, _⟩ := queries_invariant_under_freeze s t h st id blk hm
  exact ⟨b, k, hh, p⟩

/-! ### C10.3 — only side-chain blocks are removed -/

theorem only_side_blocks_removed (s t : FS) (st : Steps s t) (id : Nat)
    (hs : s.hdr id = true) (ht : t.hdr id = false) : ∀ blk, ¬ OnMain s id blk := by
  induction st with
  | refl => rw [hs] at ht; cases ht
  | @tail t u _ step ih =>
    cases hmid : t.hdr id with
    | false => exact ih hmid
    | true =>
      cases step with
      | append b _ => simp [appendOne, hmid] at ht
      | wipeBody x _ => simp [wipeBody, hmid] at ht
      | wipeSide x hx =>
        have hxid : id = x := by
          by_cases hh : id = x
          · exact hh
          · simp [wipeSide, hh, hmid] at ht
        subst hxid
        intro blk hm
        exact hx blk ((onMain_steps ‹Steps s t› id blk).mpr hm)

/-! ### C10.4 — only old blocks move -/

/-- The append loop of one pass: the freezer grows by a contiguous run starting at the previous
`freezer.number` (nothing already frozen changes), every new item is the block the main-chain index
names at its height, all new heights are below the threshold, the threshold is at most the height of
the last block of epoch `cur - THRESHOLD_EPOCH` (read through the epoch-number row) and at most
`MAX_FREEZE_LIMIT` above the previous frozen height. -/
theorem only_old_blocks_move (s : FS) (thr : Nat) (ht : threshold s = .at thr) :
    ∃ new, (freezeLoop (getUnfrozen s) thr (thr + 1) (frozenNumber s) s.frozen).1 = s.frozen ++ new ∧
      frozenNumber s + new.length ≤ max (frozenNumber s) thr ∧
      new.length ≤ MAX_FREEZE_LIMIT ∧
      (∀ k b, new[k]? = some b → getUnfrozen s (frozenNumber s + k) = some b) ∧
      ∃ ce idx e ln, s.v.m.curEpoch = some ce ∧ THRESHOLD_EPOCH < ce.number ∧
        s.v.m.epochNum (ce.number + 1 - THRESHOLD_EPOCH) = some idx ∧ s.v.r.epochExt idx = some e ∧
        s.v.m.rindex e.key = some ln ∧ thr ≤ ln := by
  obtain ⟨new, h1, h2, h3⟩ := freezeLoop_spec (getUnfrozen s) thr (thr + 1) (frozenNumber s) s.frozen
  have hthr : thr ≤ frozenNumber s + MAX_FREEZE_LIMIT ∧
      ∃ ce idx e ln, s.v.m.curEpoch = some ce ∧ THRESHOLD_EPOCH < ce.number ∧
        s.v.m.epochNum (ce.number + 1 - THRESHOLD_EPOCH) = some idx ∧ s.v.r.epochExt idx = some e ∧
        s.v.m.rindex e.key = some ln ∧ thr ≤ ln := by
    unfold threshold at ht
    cases hce : s.v.m.curEpoch with
    | none => rw [hce] at ht; cases ht
    | some ce =>
      rw [hce] at ht
      simp only at ht
      by_cases hle : ce.number ≤ THRESHOLD_EPOCH
      · simp [hle] at ht
      · simp only [hle, if_false] at ht
        cases hidx : s.v.m.epochNum (ce.number + 1 - THRESHOLD_EPOCH) with
        | none => rw [hidx] at ht; cases ht
        | some idx =>
          rw [hidx] at ht
          simp only at ht
          cases he : s.v.r.epochExt idx with
          | none => rw [he] at ht; cases ht
          | some e =>
            rw [he] at ht
            simp only at ht
            cases hln : s.v.m.rindex e.key with
            | none => rw [hln] at ht; cases ht
            | some ln =>
              rw [hln] at ht
              simp only at ht
              have : min ln (frozenNumber s + MAX_FREEZE_LIMIT) = thr := by
                cases ht; rfl
              exact ⟨by omega, ce, idx, e, ln, rfl, by omega, hidx, he, hln, by omega⟩
  refine ⟨new, h1, h2, ?_, h3, hthr.2⟩
  have := hthr.1
  omega

/-! ### C10.5 — chain operations interleaved with freezer passes

`Inv` is not a hypothesis about node states: it holds at the start (nothing frozen, any replayed
well-formed chain) and is kept by every micro-step of a pass AND by every chain-service step that
can happen between (or during: the freezer runs in its own thread) passes — a side block stored at
a frozen or not-yet-frozen height, an extension, a reorg at or above the last frozen block.
EXCLUDED: a chain step that changes the number index below `freezer.number()`
(`ChainOk.keepFrozen`), i.e. a reorg whose fork point is below the last frozen block.  /repo has
no rule against it; what happens then is `reorg_below_frozen_height_breaks_transactions_witness`. -/

/-- states reachable from a fresh node by interleaving chain-service steps with freezer micro-steps
(= passes cut at any crash point) -/
inductive Reach : FS → Prop
  | start (g : Block) (rest : List Block) (stored : List Nat)
      (hg : Valid Main.empty Recs.empty g) (hc : ValidChain (init g) rest) :
      Reach (startState (replay (g :: rest)) stored)
  | micro {s t : FS} : Reach s → Step s t → Reach t
  | chain {s : FS} (b : Block) (v' : View) : Reach s → ChainOk s b v' → Reach (chainStore s b v')

/-- the freezer invariant (and "index rows name stored blocks") holds in every reachable state -/
theorem inv_reachable {s : FS} (r : Reach s) : Inv s ∧ IdxStored s := by
  induction r with
  | start g rest stored hg hc =>
    have hok := storeOk_attachAll (storeOk_init g hg) hc
    refine ⟨inv_start _ _ hok, ?_⟩
    intro n id hi
    obtain ⟨blk, hb, _⟩ := hok.numOk n id hi
    exact ⟨blk, hb⟩
  | micro _ st ih => exact ⟨inv_step ih.1 st, idxStored_step ih.2 st⟩
  | chain b v' _ ok ih => exact ⟨inv_chainStore _ ih.1 b v' ok, idxStored_chainStore _ b v' ok⟩

/-- **C10.1 over reachable states**: in every state reachable by interleaving chain operations and
freezer micro-steps, and after any further (partial) pass, every accessor answers every main-chain
block with the block -/
theorem queries_invariant_in_every_reachable_state (s t : FS) (r : Reach s) (st : Steps s t)
    (id : Nat) (blk : Block) (hm : OnMain s id blk) :
    getBlock t id = .some blk ∧ getPacked t id = some blk ∧ getHeader t id = some blk ∧
    getPart t id = some blk ∧ getBody t id = blk.txs ∧ getCellbase t id = blk.txs.head? ∧
    getUncles t id = some blk.uncles ∧ getAncestor t blk.number = some blk ∧ t.v = s.v := by
  obtain ⟨⟨b, _⟩, ⟨k, _⟩, ⟨hh, _⟩, ⟨p, _⟩, ⟨bd, _⟩, _, ⟨cb, _⟩, ⟨un, _⟩, ⟨an, _⟩, hv⟩ :=
    queries_invariant_under_freeze s t (inv_reachable r).1 st id blk hm
  exact ⟨b, k, hh, p, bd, cb, un, an, hv⟩

/-- a side block (not a new best block) stored by the model's chain service `Store.process` at any
height — frozen, the next to be frozen, or above — is such a chain step; in particular it neither
shadows nor removes anything of the main chain -/
theorem side_block_keeps_freezer_invariant (s : FS) (r : Reach s) (b : Block)
    (hsame : ∀ blk, s.v.r.bodies b.id = some blk → blk = b)
    (hside : ¬ (freshExt (Store.insertBlock s.v.r b) b).td > tdOf (Store.insertBlock s.v.r b) (s.v.m.tip.getD 0)) :
    Reach (chainStore s b (process s.v b)) ∧ (process s.v b).m = s.v.m ∧
    ∀ id blk, OnMain s id blk → OnMain (chainStore s b (process s.v b)) id blk := by
  have hi := inv_reachable r
  have ok := sideBlock_chainOk s hi.1 hi.2 b hsame hside
  have hm : (process s.v b).m = s.v.m := by simp only [process]; simp [hside]
  refine ⟨Reach.chain b _ r ok, hm, ?_⟩
  intro id blk ⟨h1, h2⟩
  refine ⟨?_, by show (process s.v b).m.index blk.number = some id; rw [hm]; exact h2⟩
  show (process s.v b).r.bodies id = some blk
  rw [ok.bodies]
  by_cases hid : id = b.id
  · subst hid; have := hsame blk h1; subst this; simp [upd]
  · simp [upd, hid, h1]

/-- an extension of the main chain or a reorg whose fork point is at or above the last frozen block
is such a chain step.  `hold` / `hnew`: the number index is the replay of the old / new main chain
(for the model's `Store.process` this is `C02.attach_replay` / `C02.process_reorg_eq_replay`);
`hfork` is the exclusion; `hrows`: blocks joining from a side branch have their rows. -/
theorem reorg_above_frozen_height_keeps_freezer_invariant (s : FS) (r : Reach s) (b : Block) (v' : View)
    (g : Block) (rest rest' : List Block)
    (hold : s.v.m.index = (replay (g :: rest)).m.index)
    (hnew : v'.m.index = (replay (g :: rest')).m.index)
    (hnum : ∀ n (h : n < (g :: rest).length), ((g :: rest)[n]).number = n)
    (hnum' : ∀ n (h : n < (g :: rest').length), ((g :: rest')[n]).number = n)
    (hbod : v'.r.bodies = upd s.v.r.bodies b.id (some b))
    (hsame : ∀ blk, s.v.r.bodies b.id = some blk → blk = b)
    (hstored' : ∀ blk ∈ g :: rest', v'.r.bodies blk.id = some blk)
    (hfork : ∀ n, n < frozenNumber s → (g :: rest')[n]? = (g :: rest)[n]?)
    (hrows : ∀ blk ∈ g :: rest', blk ∈ g :: rest ∨ blk.id = b.id ∨ (s.hdr blk.id = true ∧ s.body blk.id = true)) :
    Reach (chainStore s b v') ∧ Inv (chainStore s b v') := by
  have ok := mainChange_chainOk s b v' g rest rest' hold hnew hnum hnum' hbod hsame hstored' hfork hrows
  exact ⟨Reach.chain b v' r ok, (inv_reachable (Reach.chain b v' r ok)).1⟩

/-! ### witnesses: what the code as written does not keep invariant -/

namespace Witness
/-- epochs of length 1: block `n` opens epoch `n` -/
def mk (id parent number : Nat) : Block :=
  { id := id, parent := parent, number := number, epoch := ⟨number, 0, 1⟩,
    txs := [{ id := 1000 + number, inputs := [], outputs := [] }], uncles := [], isHead := true,
    epochRec := ⟨number, number, 1, parent⟩ }
def g : Block := { mk 0 0 0 with epochRec := ⟨0, 0, 1, 99⟩ }
def b1 := mk 1 0 1
def b2 := mk 2 1 2
def b3 := mk 3 2 3
def b4 := mk 4 3 4
/-- a side-chain block at height 1, stored before the pass -/
def s1 := mk 11 0 1
/-- a side-chain block at height 1, delivered after height 1 was frozen -/
def s1late := mk 12 0 1

def chain : View := process (process (process (process (process (init g) b1) s1) b2) b3) b4
def s0 : FS := { v := chain, hdr := fun _ => true, body := fun _ => true, stored := [0, 1, 11, 2, 3, 4], frozen := [] }
def afterPass : FS := (freeze s0).1
def afterLate : FS := Freeze.insertBlock { afterPass with v := ⟨afterPass.v.m, Store.insertBlock afterPass.v.r s1late⟩ } 12

/-- the fork `0 <- 11 <- 21 <- 31` opens epoch 3 after the main chain did (finding F9), tip in epoch 4 -/
def s2 := mk 21 11 2
def s3 := mk 31 21 3
def chainF9 : View :=
  process (process (process (process (process (process (process (init g) b1) s1) b2) s2) b3) s3) b4
/-- the same history with the number-row behaviour before the repair of F9 -/
def chainF9Pre : View :=
  PreFix.process (PreFix.process (PreFix.process (PreFix.process (PreFix.process (PreFix.process
    (PreFix.process (init g) b1) s1) b2) s2) b3) s3) b4
def sF9Pre : FS := { s0 with v := chainF9Pre, stored := [0, 1, 11, 2, 21, 3, 31, 4] }
def sF9 : FS := { s0 with v := chainF9, stored := [0, 1, 11, 2, 21, 3, 31, 4] }

/-- a heavier branch `0 <- 51 <- 52 <- 53 <- 54 <- 55` that forks BELOW the frozen block 1, with its
own transactions 2001.. -/
def mk' (id parent number txid : Nat) : Block :=
  { mk id parent number with txs := [{ id := txid, inputs := [], outputs := [] }] }
def d1 := mk' 51 0 1 2001
def d2 := mk' 52 51 2 2002
def d3 := mk' 53 52 3 2003
def d4 := mk' 54 53 4 2004
def d5 := mk' 55 54 5 2005
def chainStep (s : FS) (b : Block) : FS := chainStore s b (process s.v b)
/-- after the pass (block 1 frozen and wiped), the chain service stores the heavier branch -/
def deep : FS := chainStep (chainStep (chainStep (chainStep (chainStep afterPass d1) d2) d3) d4) d5
end Witness

open Witness in
/-- **before the repair of F18 (regression witness about `getPartPreF18` / `getPackedPreF18`)**: one
pass on the chain `g,1,2,3,4` (tip in epoch 4) freezes height 1 exactly, wipes block 1's body rows
and removes the side block 11; `get_block` still answers block 1 — but every part accessor of block 1
(body, cellbase, uncles, proposals, extension, packed block) answered nothing: they had no freezer
dispatch in `store.rs`.  With the repair (`getPart`, `getPacked`) they answer block 1. -/
theorem part_accessors_change_when_frozen_prefix :
    (freeze s0).2 = .ok ∧ afterPass.frozen = [b1] ∧
    getBlock s0 1 = .some b1 ∧ getBlock afterPass 1 = .some b1 ∧
    getPartPreF18 s0 1 = some b1 ∧ getPartPreF18 afterPass 1 = none ∧
    getPackedPreF18 s0 1 = some b1 ∧ getPackedPreF18 afterPass 1 = none ∧
    afterPass.hdr 11 = false ∧ afterPass.hdr 1 = true ∧
    getPart s0 1 = some b1 ∧ getPart afterPass 1 = some b1 ∧
    getPacked s0 1 = some b1 ∧ getPacked afterPass 1 = some b1 := by
  decide

open Witness in
/-- **before the repair of F17 (regression witness about `getBlockPreF17`)**: a block stored at an
already frozen height was answered with the frozen main-chain block of that height:
`get_block(hash of 12)` was block 1.  As /repo is now it is block 12, through every accessor. -/
theorem get_block_by_hash_returns_other_block_prefix :
    getBlockPreF17 afterLate 12 = .some b1 ∧ b1.id ≠ 12 ∧
    getBlock afterLate 12 = .some s1late ∧ getPart afterLate 12 = some s1late ∧
    getPacked afterLate 12 = some s1late := by
  decide

open Witness in
/-- **before the repair of F9 (regression witness about `Store.PreFix`)**: with the stale
epoch-number row the threshold computation hit `get_block_number(..).expect(..)` and the pass
panicked; with the repaired row maintenance the same history freezes normally. -/
theorem freeze_panics_on_stale_epoch_row_prefix :
    threshold sF9Pre = .panic ∧ (freeze sF9Pre).2 = .panic ∧
    threshold sF9 = .at 2 ∧ (freeze sF9).2 = .ok ∧ threshold s0 = .at 2 := by
  decide

open Witness in
/-- **the excluded interleaving (model-level finding; not an op of the generator).**  After block 1
was frozen, a heavier branch forking at genesis becomes the main chain (`Store.process`, five
blocks).  Height 1 is now block 51, the freezer still holds block 1 there.  `get_block(hash)` and
the part accessors stay right (the hash test of F17/F18), but `get_transaction_with_info` dispatches
on the NUMBER in the tx-info row: the transaction 2001 committed in block 51 is answered with
transaction 1001 of the stale frozen block 1 — a wrong transaction under the right location — and
every later pass fails on the parent-hash check (`.err`): the freezer is stuck below the fork. -/
theorem reorg_below_frozen_height_breaks_transactions_witness :
    deep.v.m.tip = some 55 ∧ deep.v.m.index 1 = some 51 ∧ deep.frozen = [b1] ∧
    (getTx deep 2001).map (fun p => (p.1.id, p.2.blockId, p.2.number)) = some (1001, 51, 1) ∧
    getBlock deep 51 = .some d1 ∧ getPart deep 51 = some d1 ∧ getPacked deep 51 = some d1 ∧
    (freeze deep).2 = .err ∧ ¬ Inv deep := by
  refine ⟨by decide, by decide, by decide, by decide, by decide, by decide, by decide, by decide, ?_⟩
  intro h
  have := (h.frozenOk 0 b1 (by decide)).2.2
  revert this
  decide

/-! ### the repair of F17 (/repo ea444a5; `getBlock` is the repaired code, `getBlockPreF17` the old) -/

/-- with the hash comparison in place `get_block(hash)` can only answer with the block asked for … -/
theorem get_block_repaired_never_returns_other_block (s : FS)
    (hid : ∀ id blk, s.v.r.bodies id = some blk → blk.id = id) (id : Nat) (b : Block)
    (h : getBlock s id = .some b) : b.id = id :=
  getBlock_sound s hid id b h

/-- … the same for the part accessors and the packed block, which share `get_frozen_block` … -/
theorem part_accessors_never_return_other_block (s : FS)
    (hid : ∀ id blk, s.v.r.bodies id = some blk → blk.id = id) (id : Nat) (b : Block) :
    (getPart s id = some b → b.id = id) ∧ (getPacked s id = some b → b.id = id) :=
  ⟨getPart_sound s hid id b, getPacked_sound s hid id b⟩

/-- … and nothing changed for main-chain blocks, frozen or not -/
theorem get_block_repaired_same_on_main (s : FS) (h : Inv s) (id : Nat) (blk : Block) (hm : OnMain s id blk) :
    getBlock s id = getBlockPreF17 s id := by
  rw [getBlockPreF17_main s h id blk hm, getBlock_main s h id blk hm]

/-! ### non-vacuity: the invariant holds on the witness chain, and the pass is made of steps -/

open Witness in
example : getUnfrozen s0 (frozenNumber s0) = some b1 ∧
    afterPass.frozen = (appendOne s0 b1).frozen ∧
    chain.m.index 1 = some 1 ∧ chain.r.bodies 1 = some b1 ∧ chain.m.tip = some 4 ∧
    chainF9.m.tip = some 4 ∧ chainF9Pre.m.epochNum 3 = some 21 ∧ chainF9.m.epochNum 3 = some 2 ∧
    chain.m.epochNum 3 = some 2 := by
  decide

/-- a state with block 1 frozen and wiped, blocks 0 and 2 in the kv store -/
def sI : FS :=
  { v := ⟨{ Main.empty with index := fun n => if n ≤ 2 then some n else none },
          { Recs.empty with bodies := fun id => if id ≤ 2 then some (Witness.mk id (id - 1) id) else none }⟩,
    hdr := fun _ => true, body := fun id => id != 1, stored := [0, 2], frozen := [Witness.mk 1 0 1] }

/-- the invariant holds in `sI` -/
theorem sI_inv : Inv sI := by
  refine ⟨?_, ?_, ?_, ?_, ?_⟩
  · intro k fb hk
    cases k with
    | zero => simp [sI] at hk; subst hk; decide
    | succ k => simp [sI] at hk
  · intro id blk hm hc
    obtain ⟨h1, h2⟩ := hm
    simp only [sI] at h1 h2 hc ⊢
    by_cases hid : id ≤ 2
    · simp [hid] at h1; subst h1
      simp [Witness.mk, frozenNumber] at hc ⊢
      omega
    · simp [hid] at h1
  · intro id blk _; rfl
  · intro id blk h1
    simp only [sI] at h1
    by_cases hid : id ≤ 2
    · simp [hid] at h1; subst h1; rfl
    · simp [hid] at h1
  · intro n id blk h1 h2
    simp only [sI] at h1 h2
    by_cases hn : n ≤ 2
    · simp [hn] at h1; subst h1
      simp [hn] at h2; subst h2; rfl
    · simp [hn] at h1

/-- the invariant is satisfiable by a state with a frozen, wiped block; `get_block` and every part
accessor answer it from the freezer (before the repair of F18 the part accessors answered nothing) -/
example : Inv sI ∧ OnMain sI 1 (Witness.mk 1 0 1) ∧ getBlock sI 1 = .some (Witness.mk 1 0 1) ∧
    getPart sI 1 = some (Witness.mk 1 0 1) ∧ getPacked sI 1 = some (Witness.mk 1 0 1) ∧
    getPartPreF18 sI 1 = none :=
  ⟨sI_inv, ⟨by decide, by decide⟩, by decide, by decide, by decide, by decide⟩

/-- non-vacuity of the chain-step theorems: in `sI` (block 1 frozen and wiped) a side block stored at
the FROZEN height 1 satisfies `sideBlock_chainOk`'s hypotheses, the resulting state satisfies the
invariant, block 1 still answers from the freezer through every accessor, and the side block
answers with itself -/
example : let b := Witness.mk 7 0 1
    ChainOk sI b (process sI.v b) ∧ Inv (chainStore sI b (process sI.v b)) ∧
    getPart (chainStore sI b (process sI.v b)) 1 = some (Witness.mk 1 0 1) ∧
    getBlock (chainStore sI b (process sI.v b)) 7 = .some b := by
  intro b
  have hidx : IdxStored sI := by
    intro n id hi
    simp only [sI] at hi ⊢
    by_cases hn : n ≤ 2
    · simp [hn] at hi; subst hi; exact ⟨Witness.mk n (n - 1) n, by simp [hn]⟩
    · simp [hn] at hi
  have ok : ChainOk sI b (process sI.v b) :=
    sideBlock_chainOk sI sI_inv hidx b (by intro blk h; simp [sI, b, Witness.mk] at h) (by decide)
  exact ⟨ok, inv_chainStore sI sI_inv b _ ok, by decide, by decide⟩

/-- non-vacuity of `Reach`: a fresh node on the genesis block alone -/
example : Reach (startState (replay [Witness.g]) [0]) :=
  Reach.start Witness.g [] [0]
    ⟨by decide, fun _ _ => rfl, fun _ _ => rfl, rfl, rfl, fun _ _ => rfl,
     by intro o ho; simp [deadInputs, Witness.g, Witness.mk] at ho,
     Or.inl rfl, by decide, fun _ => rfl, Or.inl rfl, Or.inr ⟨by decide, rfl⟩⟩
    (ValidChain.nil _)

end CkbVerif.C10
