/-
C10 — freezing old blocks is invisible to every chain query and survives crashes.

Theorems about `Model/Freeze.lean` (the freezer pass of `shared/src/shared.rs` over the store model).
A pass is a sequence of micro-steps (`Step`): append the next main-chain block to the freezer,
delete the body rows of a frozen block, delete a side-chain block.  A crash (process death) leaves
the state after some prefix of these steps (the freezer keeps a prefix of the appended items — C09 —
and each of the two write batches is atomic, which is coarser than single deletions), so every
statement quantified over `Steps s t` covers every crash point.

What the code as written does NOT satisfy is kept as witnesses (`part_accessors_change_when_frozen`,
`get_block_by_hash_returns_other_block`); `freeze_panics_on_stale_epoch_row_prefix` is the regression
witness of the F9 consequence that /repo commit e69f9a7 repaired.
-/
import CkbVerif.Lemmas.Freeze
import CkbVerif.Lemmas.FreezeStart
namespace CkbVerif.C10
open CkbVerif.Store CkbVerif.Freeze

/-! ### C10.1 — the dispatching accessors answer the same before, during and after a pass -/

/-- FULL STATEMENT (not provable — false for the code as written, see the witnesses below):
`∀ q ∈ {get_block, get_packed_block, get_block_header, get_block_body, get_block_txs_hashes,
get_cellbase, get_block_uncles, get_block_proposal_txs_ids, get_block_extension, get_transaction,
get_transaction_info, get_ancestor, get_cell}, answer t q = answer s q` for every main-chain block.
PROVED PART: the accessors that dispatch on `freezer.number()` or never touch deleted rows —
`get_block(hash)`, `get_block_header`, (and `get_transaction*` below; `get_ancestor` is
`get_block_header` + the index, `get_cell*` are columns the pass never writes: `freeze` does not
change `v`) — for every main-chain block, in every state a freezer pass, or any crash inside it,
can leave: the answer is the block.  MISSING: the seven part accessors (finding F18, negation
witness `part_accessors_change_when_frozen`). -/
theorem queries_invariant_under_freeze_partial (s t : FS) (h : Inv s) (st : Steps s t)
    (id : Nat) (blk : Block) (hm : OnMain s id blk) :
    getBlock t id = getBlock s id ∧ getBlock t id = .some blk ∧ getHeader t id = getHeader s id := by
  have ht := inv_steps h st
  have hm' := (onMain_steps st id blk).mpr hm
  have h1 := getBlock_main t ht id blk hm'
  have h2 := getBlock_main s h id blk hm
  refine ⟨by rw [h1, h2], h1, ?_⟩
  have hb : t.v.r.bodies id = s.v.r.bodies id := by rw [hm'.1, hm.1]
  simp [getHeader, ht.hdrOk id blk hm', h.hdrOk id blk hm, hb]

/-- every committed transaction with its location reads the same (`get_transaction`,
`get_transaction_info`, `get_transaction_with_info`) -/
theorem transactions_invariant_under_freeze (s t : FS) (h : Inv s) (st : Steps s t)
    (tx : Nat) (info : TxInfo) (blk : Block) (x : Tx)
    (hi : s.v.m.txInfo tx = some info) (hit : t.v.m.txInfo tx = some info)
    (hm : OnMain s info.blockId blk) (hn : info.number = blk.number) (hx : blk.txs[info.index]? = some x) :
    getTx t tx = getTx s tx ∧ getTx t tx = some (x, info) := by
  have ht := inv_steps h st
  have hm' := (onMain_steps st _ blk).mpr hm
  have h1 := getTx_main t ht tx info blk x hit hm' hn hx
  have h2 := getTx_main s h tx info blk x hi hm hn hx
  exact ⟨by rw [h1, h2], h1⟩

/-- the same for a whole pass of the model's `freeze` (the function the driver runs), and the
pass does not touch the chain view at all (live cells, indexes, epoch rows) -/
theorem freeze_pass_invisible (s : FS) (h : Inv s) (id : Nat) (blk : Block) (hm : OnMain s id blk) :
    getBlock (freeze s).1 id = getBlock s id ∧ Inv (freeze s).1 :=
  ⟨(queries_invariant_under_freeze_partial s _ h (freeze_is_steps s h) id blk hm).1,
   inv_steps h (freeze_is_steps s h)⟩

theorem steps_keep_view {s t : FS} (st : Steps s t) : t.v = s.v := by
  induction st with
  | refl => rfl
  | tail _ st ih => cases st <;> exact ih

/-! ### C10.1b — the invariant is not an assumption for chains of the C02 model -/

/-- `n` passes in a row (new blocks may not arrive in between in this statement) -/
def passes : Nat → FS → FS
  | 0, s => s
  | n + 1, s => passes n (freeze s).1

theorem passes_steps (n : Nat) (s : FS) (h : Inv s) : Steps s (passes n s) := by
  induction n generalizing s with
  | zero => exact Steps.refl s
  | succ n ih =>
    have h1 := freeze_is_steps s h
    exact Steps.trans h1 (ih _ (inv_steps h h1))

/-- For the replay of ANY well-formed chain (`Valid` genesis, `ValidChain` rest — the C02
well-formedness), started with nothing frozen and every row present, any number of freezer passes
leaves `get_block` / `get_block_header` of every main-chain block unchanged: the invariant `Inv` is
derived (`inv_start`, `storeOk_attachAll`), not assumed. -/
theorem freeze_invisible_on_replayed_chain (g : Block) (rest : List Block) (stored : List Nat)
    (hg : Valid Main.empty Recs.empty g) (hc : ValidChain (init g) rest) (n : Nat)
    (id : Nat) (blk : Block) (hm : OnMain (startState (replay (g :: rest)) stored) id blk) :
    let s := startState (replay (g :: rest)) stored
    Inv s ∧ getBlock (passes n s) id = getBlock s id ∧ getBlock (passes n s) id = .some blk ∧
      getHeader (passes n s) id = getHeader s id := by
  intro s
  have hinv : Inv s := inv_start _ _ (storeOk_attachAll (storeOk_init g hg) hc)
  exact ⟨hinv, queries_invariant_under_freeze_partial s _ hinv (passes_steps n s hinv) id blk hm⟩

/-! ### C10.2 — crash safety -/

theorem steps_frozen_prefix {s t : FS} (st : Steps s t) : ∃ new, t.frozen = s.frozen ++ new := by
  induction st with
  | refl => exact ⟨[], by simp⟩
  | tail _ st ih =>
    obtain ⟨new, hn⟩ := ih
    cases st with
    | append b _ => exact ⟨new ++ [b], by simp [appendOne, hn]⟩
    | wipeBody x _ => exact ⟨new, hn⟩
    | wipeSide x _ => exact ⟨new, hn⟩

/-- At every crash point of a pass: no frozen block is lost (the freezer only grows), every
main-chain block still answers with itself, and the state satisfies the invariant again, so the next
pass simply continues from `freezer.number`. -/
theorem freeze_crash_safe (s t : FS) (h : Inv s) (st : Steps s t) :
    Inv t ∧ (∃ new, t.frozen = s.frozen ++ new) ∧
    ∀ id blk, OnMain s id blk → getBlock t id = .some blk :=
  ⟨inv_steps h st, steps_frozen_prefix st, fun id blk hm => (queries_invariant_under_freeze_partial s t h st id blk hm).2.1⟩

/-! ### C10.3 — only side-chain blocks are removed -/

theorem only_side_blocks_removed (s t : FS) (st : Steps s t) (id : Nat)
    (hs : s.hdr id = true) (ht : t.hdr id = false) : ∀ blk, ¬ OnMain s id blk := by
  induction st with
  | refl => rw [hs] at ht; cases ht
  | @tail t u _ step ih =>
    cases hmid : t.hdr id with
    | false => exact ih hmid
    | true =>
      cases step with
      | append b _ => simp [appendOne, hmid] at ht
      | wipeBody x _ => simp [wipeBody, hmid] at ht
      | wipeSide x hx =>
        have hxid : id = x := by
          by_cases hh : id = x
          · exact hh
          · simp [wipeSide, hh, hmid] at ht
        subst hxid
        intro blk hm
        exact hx blk ((onMain_steps ‹Steps s t› id blk).mpr hm)

/-! ### C10.4 — only old blocks move -/

/-- The append loop of one pass: the freezer grows by a contiguous run starting at the previous
`freezer.number` (nothing already frozen changes), every new item is the block the main-chain index
names at its height, all new heights are below the threshold, the threshold is at most the height of
the last block of epoch `cur - THRESHOLD_EPOCH` (read through the epoch-number row) and at most
`MAX_FREEZE_LIMIT` above the previous frozen height. -/
theorem only_old_blocks_move (s : FS) (thr : Nat) (ht : threshold s = .at thr) :
    ∃ new, (freezeLoop (getUnfrozen s) thr (thr + 1) (frozenNumber s) s.frozen).1 = s.frozen ++ new ∧
      frozenNumber s + new.length ≤ max (frozenNumber s) thr ∧
      new.length ≤ MAX_FREEZE_LIMIT ∧
      (∀ k b, new[k]? = some b → getUnfrozen s (frozenNumber s + k) = some b) ∧
      ∃ ce idx e ln, s.v.m.curEpoch = some ce ∧ THRESHOLD_EPOCH < ce.number ∧
        s.v.m.epochNum (ce.number + 1 - THRESHOLD_EPOCH) = some idx ∧ s.v.r.epochExt idx = some e ∧
        s.v.m.rindex e.key = some ln ∧ thr ≤ ln := by
  obtain ⟨new, h1, h2, h3⟩ := freezeLoop_spec (getUnfrozen s) thr (thr + 1) (frozenNumber s) s.frozen
  have hthr : thr ≤ frozenNumber s + MAX_FREEZE_LIMIT ∧
      ∃ ce idx e ln, s.v.m.curEpoch = some ce ∧ THRESHOLD_EPOCH < ce.number ∧
        s.v.m.epochNum (ce.number + 1 - THRESHOLD_EPOCH) = some idx ∧ s.v.r.epochExt idx = some e ∧
        s.v.m.rindex e.key = some ln ∧ thr ≤ ln := by
    unfold threshold at ht
    cases hce : s.v.m.curEpoch with
    | none => rw [hce] at ht; cases ht
    | some ce =>
      rw [hce] at ht
      simp only at ht
      by_cases hle : ce.number ≤ THRESHOLD_EPOCH
      · simp [hle] at ht
      · simp only [hle, if_false] at ht
        cases hidx : s.v.m.epochNum (ce.number + 1 - THRESHOLD_EPOCH) with
        | none => rw [hidx] at ht; cases ht
        | some idx =>
          rw [hidx] at ht
          simp only at ht
          cases he : s.v.r.epochExt idx with
          | none => rw [he] at ht; cases ht
          | some e =>
            rw [he] at ht
            simp only at ht
            cases hln : s.v.m.rindex e.key with
            | none => rw [hln] at ht; cases ht
            | some ln =>
              rw [hln] at ht
              simp only at ht
              have : min ln (frozenNumber s + MAX_FREEZE_LIMIT) = thr := by
                cases ht; rfl
              exact ⟨by omega, ce, idx, e, ln, rfl, by omega, hidx, he, hln, by omega⟩
  refine ⟨new, h1, h2, ?_, h3, hthr.2⟩
  have := hthr.1
  omega

/-! ### witnesses: what the code as written does not keep invariant -/

namespace Witness
/-- epochs of length 1: block `n` opens epoch `n` -/
def mk (id parent number : Nat) : Block :=
  { id := id, parent := parent, number := number, epoch := ⟨number, 0, 1⟩,
    txs := [{ id := 1000 + number, inputs := [], outputs := [] }], uncles := [], isHead := true,
    epochRec := ⟨number, number, 1, parent⟩ }
def g : Block := { mk 0 0 0 with epochRec := ⟨0, 0, 1, 99⟩ }
def b1 := mk 1 0 1
def b2 := mk 2 1 2
def b3 := mk 3 2 3
def b4 := mk 4 3 4
/-- a side-chain block at height 1, stored before the pass -/
def s1 := mk 11 0 1
/-- a side-chain block at height 1, delivered after height 1 was frozen -/
def s1late := mk 12 0 1

def chain : View := process (process (process (process (process (init g) b1) s1) b2) b3) b4
def s0 : FS := { v := chain, hdr := fun _ => true, body := fun _ => true, stored := [0, 1, 11, 2, 3, 4], frozen := [] }
def afterPass : FS := (freeze s0).1
def afterLate : FS := Freeze.insertBlock { afterPass with v := ⟨afterPass.v.m, Store.insertBlock afterPass.v.r s1late⟩ } 12

/-- the fork `0 <- 11 <- 21 <- 31` opens epoch 3 after the main chain did (finding F9), tip in epoch 4 -/
def s2 := mk 21 11 2
def s3 := mk 31 21 3
def chainF9 : View :=
  process (process (process (process (process (process (process (init g) b1) s1) b2) s2) b3) s3) b4
/-- the same history with the number-row behaviour before the repair of F9 -/
def chainF9Pre : View :=
  PreFix.process (PreFix.process (PreFix.process (PreFix.process (PreFix.process (PreFix.process
    (PreFix.process (init g) b1) s1) b2) s2) b3) s3) b4
def sF9Pre : FS := { s0 with v := chainF9Pre, stored := [0, 1, 11, 2, 21, 3, 31, 4] }
def sF9 : FS := { s0 with v := chainF9, stored := [0, 1, 11, 2, 21, 3, 31, 4] }
end Witness

open Witness in
/-- one pass on the chain `g,1,2,3,4` (tip in epoch 4) freezes height 1 exactly, wipes block 1's body
rows and removes the side block 11; `get_block` still answers block 1 — but every part accessor of
block 1 (body, cellbase, uncles, proposals, extension, packed block) now answers nothing: they have
no freezer dispatch in `store.rs` (finding F18). -/
theorem part_accessors_change_when_frozen :
    (freeze s0).2 = .ok ∧ afterPass.frozen = [b1] ∧
    getBlock s0 1 = .some b1 ∧ getBlock afterPass 1 = .some b1 ∧
    getPart s0 1 = some b1 ∧ getPart afterPass 1 = none ∧
    getPacked s0 1 = some b1 ∧ getPacked afterPass 1 = none ∧
    afterPass.hdr 11 = false ∧ afterPass.hdr 1 = true := by
  decide

open Witness in
/-- a block stored at an already frozen height is answered with the frozen main-chain block of
that height: `get_block(hash of 12)` is block 1 (finding F17). -/
theorem get_block_by_hash_returns_other_block :
    getBlock afterLate 12 = .some b1 ∧ b1.id ≠ 12 := by
  decide

open Witness in
/-- **before the repair of F9 (regression witness about `Store.PreFix`)**: with the stale
epoch-number row the threshold computation hit `get_block_number(..).expect(..)` and the pass
panicked; with the repaired row maintenance the same history freezes normally. -/
theorem freeze_panics_on_stale_epoch_row_prefix :
    threshold sF9Pre = .panic ∧ (freeze sF9Pre).2 = .panic ∧
    threshold sF9 = .at 2 ∧ (freeze sF9).2 = .ok ∧ threshold s0 = .at 2 := by
  decide

/-! ### the repair proposed for F17 (`/verif/work/C10-fix-F17.diff`, model `getBlockF17`) -/

/-- with the hash comparison in place `get_block(hash)` can only answer with the block asked for … -/
theorem get_block_repaired_never_returns_other_block (s : FS)
    (hid : ∀ id blk, s.v.r.bodies id = some blk → blk.id = id) (id : Nat) (b : Block)
    (h : getBlockF17 s id = .some b) : b.id = id :=
  getBlockF17_sound s hid id b h

/-- … and nothing changes for main-chain blocks, frozen or not -/
theorem get_block_repaired_same_on_main (s : FS) (h : Inv s) (id : Nat) (blk : Block) (hm : OnMain s id blk) :
    getBlockF17 s id = getBlock s id := by
  rw [getBlockF17_main s h id blk hm, getBlock_main s h id blk hm]

/-! ### non-vacuity: the invariant holds on the witness chain, and the pass is made of steps -/

open Witness in
example : getUnfrozen s0 (frozenNumber s0) = some b1 ∧
    afterPass.frozen = (appendOne s0 b1).frozen ∧
    chain.m.index 1 = some 1 ∧ chain.r.bodies 1 = some b1 ∧ chain.m.tip = some 4 ∧
    chainF9.m.tip = some 4 ∧ chainF9Pre.m.epochNum 3 = some 21 ∧ chainF9.m.epochNum 3 = some 2 ∧
    chain.m.epochNum 3 = some 2 := by
  decide

/-- a state with block 1 frozen and wiped, blocks 0 and 2 in the kv store -/
def sI : FS :=
  { v := ⟨{ Main.empty with index := fun n => if n ≤ 2 then some n else none },
          { Recs.empty with bodies := fun id => if id ≤ 2 then some (Witness.mk id (id - 1) id) else none }⟩,
    hdr := fun _ => true, body := fun id => id != 1, stored := [0, 2], frozen := [Witness.mk 1 0 1] }

/-- the invariant is satisfiable by a state with a frozen, wiped block; `get_block` answers it from
the freezer while its part accessors answer nothing -/
example : Inv sI ∧ OnMain sI 1 (Witness.mk 1 0 1) ∧ getBlock sI 1 = .some (Witness.mk 1 0 1) ∧ getPart sI 1 = none := by
  refine ⟨⟨?_, ?_, ?_, ?_, ?_⟩, ⟨by decide, by decide⟩, by decide, by decide⟩
  · intro k fb hk
    cases k with
    | zero => simp [sI] at hk; subst hk; decide
    | succ k => simp [sI] at hk
  · intro id blk hm hc
    obtain ⟨h1, h2⟩ := hm
    simp only [sI] at h1 h2 hc ⊢
    by_cases hid : id ≤ 2
    · simp [hid] at h1; subst h1
      simp [Witness.mk, frozenNumber] at hc ⊢
      omega
    · simp [hid] at h1
  · intro id blk _; rfl
  · intro id blk h1
    simp only [sI] at h1
    by_cases hid : id ≤ 2
    · simp [hid] at h1; subst h1; rfl
    · simp [hid] at h1
  · intro n id blk h1 h2
    simp only [sI] at h1 h2
    by_cases hn : n ≤ 2
    · simp [hn] at h1; subst h1
      simp [hn] at h2; subst h2; rfl
    · simp [hn] at h1

end CkbVerif.C10
