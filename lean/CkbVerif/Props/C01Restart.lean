import CkbVerif.Lemmas.ChainRestart

/-!
# C01, continued — the node is stopped and started again in the middle of a delivery

The property's quantifier ("after the node has processed any set of blocks … delivered in any order") also
covers a node that was stopped and started again on the same database while blocks were queued for
verification or held in the orphan pool. Model: `Chain.restart` / `Chain.rstep` (Model/Chain.lean): a
restart drops the volatile state (`crash`) and `InitLoadUnverified` hands every stored block without
ext inside its scan window to the ordinary delivery path (`scanList`, in NUMBER_HASH order, no
callback, no waiting).

* `rrun_eq_run`, `rreachable_reachable`: a history with restarts is a plain history (`Op.crash` followed
  by the scan's deliveries), so every theorem of `Props/C01.lean` about `Inv` / `Reachable` covers it;
  `inv_rstep`, `inv_rreachable` state that directly.
* `restart_keeps_chain`, `rstep_tip_moves_only_if_strictly_heavier`, `rstep_tip_work_monotone`: a restart
  never touches exts, verified marks, tip or total difficulty.
* `restart_requeues_stored_unverified`: right after the restart every stored block without ext inside
  the horizon is queued for verification (and marked pending) or pooled again — pooled only when its
  parent has neither an ext nor is pending — it is still stored, not marked invalid, and counts as received.
* `tip_heaviest_after_restart`: the liveness clause — at quiescence after a restart (preceded by ANY
  history, earlier restarts included) every fully valid chain formable from the blocks that had an ext
  or were stored at the stop, or were delivered afterwards, has work ≤ tipTd, under the HORIZON HYPOTHESIS
  that every stored block without ext lies inside the scan window.
* `horizon_mutant_breaks_liveness`: with a window of EXPIRED_EPOCH BLOCKS (`maxEpochLen = 1`, the seeded
  regression m3) the clause fails on a 12-block history; `horizon_hypothesis_needed`: that history
  violates the horizon hypothesis for the mutant window and satisfies it for the real one.
* `panic_reachable` / `not_no_panic_reachable`: finding F7 as a model state (section at the end).
-/
namespace CkbVerif.C01
open CkbVerif.Chain CkbVerif.Gen.Chain

/-- states reachable from genesis by any sequence of operations INCLUDING restarts -/
def RReachable (T : Tree) (s : State) : Prop := ∃ ops, s = rrun T (init T) ops

/-- every state reachable with restarts is reachable by a plain operation sequence (with `crash`): all
theorems of `Props/C01.lean` about `Reachable` states cover stopped-and-restarted nodes -/
theorem rreachable_reachable (T : Tree) (s : State) (h : RReachable T s) : Reachable T s := by
  obtain ⟨rops, rfl⟩ := h
  exact ⟨expand T (init T) rops, rrun_eq_run T rops (init T)⟩

theorem reachable_rreachable (T : Tree) (s : State) (h : Reachable T s) : RReachable T s := by
  obtain ⟨ops, rfl⟩ := h
  exact ⟨ops.map ROp.op, (rrun_ops T ops (init T)).symm⟩

/-! ## The invariant -/

/-- `Inv` is preserved by every operation, `Restart` included -/
theorem inv_rstep (T : Tree) (s : State) (op : ROp) (h : Inv T s) : Inv T (rstep T s op).1 := by
  cases op with
  | op o => exact inv_step' h o
  | restart mel order =>
    show Inv T (restart T mel order s).1
    rw [restart_eq_run]
    exact inv_run' _ _ ⟨safe_crash h.safe, fun _ => live_crash h.safe⟩

theorem inv_rrun (T : Tree) : ∀ (rops : List ROp) (s : State), Inv T s → Inv T (rrun T s rops) := by
  intro rops
  induction rops with
  | nil => intro s h; exact h
  | cons op r ih => intro s h; exact ih _ (inv_rstep T s op h)

/-- the invariant holds in every state reachable by deliveries, verifications, expiry ticks, crashes
and restarts, in any order and number -/
theorem inv_rreachable (T : Tree) (s : State) (h : RReachable T s) : Inv T s := by
  obtain ⟨rops, rfl⟩ := h
  exact inv_rrun T rops _ (inv_init' T)

/-! ## A restart does not touch the chain -/

/-- exts, verified marks, tip and total difficulty are exactly those of the stopped database -/
theorem restart_keeps_chain (T : Tree) (mel : Nat) (order : List Nat) (s : State) :
    (restart T mel order s).1.td = s.td ∧ (restart T mel order s).1.ver = s.ver ∧
    (restart T mel order s).1.tip = s.tip ∧ (restart T mel order s).1.tipTd = s.tipTd := by
  rw [restart_eq_run]
  exact run_delivers_sameChain T _ (crash s)

theorem rstep_tip (T : Tree) (s : State) (op : ROp) :
    ((rstep T s op).1.tip = s.tip ∧ (rstep T s op).1.tipTd = s.tipTd) ∨ s.tipTd < (rstep T s op).1.tipTd := by
  cases op with
  | op o => exact step_tip T s o
  | restart mel order =>
    obtain ⟨_, _, h3, h4⟩ := restart_keeps_chain T mel order s
    exact Or.inl ⟨h3, h4⟩

/-- also with restarts: a step that changes the tip strictly increases the tip's accumulated work -/
theorem rstep_tip_moves_only_if_strictly_heavier (T : Tree) (s : State) (op : ROp)
    (h : (rstep T s op).1.tip ≠ s.tip) : s.tipTd < (rstep T s op).1.tipTd := by
  rcases rstep_tip T s op with h1 | h1
  · exact absurd h1.1 h
  · exact h1

theorem rstep_tip_work_monotone (T : Tree) (s : State) (op : ROp) : s.tipTd ≤ (rstep T s op).1.tipTd := by
  rcases rstep_tip T s op with h1 | h1
  · rw [h1.2]; exact Nat.le_refl _
  · exact Nat.le_of_lt h1

/-! ## The scan horizon -/

/-- `b` lies inside the scan window of a database whose tip is `s.tip`: it is listed in the NUMBER_HASH
column (`order`), its number is in `[max 1 (tip − EXPIRED_EPOCH·maxEpochLen), tip + 10·BLOCK_DOWNLOAD_WINDOW]`
and, for numbers above the tip, every number between the tip and it has a stored block without ext
(`find_unverified_blocks` returns at the first number above the tip that has none). -/
def InHorizon (T : Tree) (mel : Nat) (order : List Nat) (s : State) (b : Nat) : Prop :=
  b ∈ order ∧
  max 1 (T.num s.tip - EXPIRED_EPOCH * mel) ≤ T.num b ∧
  T.num b ≤ T.num s.tip + BLOCK_DOWNLOAD_WINDOW * INIT_LOAD_WINDOW_FACTOR ∧
  (∀ i, i < T.num b - T.num s.tip →
    ∃ x, (x ∈ order ∧ s.stored x = true ∧ s.td x = none ∧ x ≠ 0) ∧ T.num x = T.num s.tip + 1 + i)

/-- exactly the stored blocks without ext inside the horizon are re-submitted -/
theorem mem_scanList_iff (T : Tree) (mel : Nat) (order : List Nat) (s : State) (b : Nat) :
    b ∈ scanList T mel order s ↔ (s.stored b = true ∧ s.td b = none ∧ b ≠ 0) ∧ InHorizon T mel order s b := by
  unfold scanList InHorizon
  simp only [List.mem_filter, Bool.and_eq_true, decide_eq_true_eq, List.all_eq_true, List.mem_range,
    List.any_eq_true, beq_iff_eq, bne_iff_ne, ne_eq, Option.isNone_iff_eq_none]
  constructor
  · rintro ⟨⟨h1, ⟨h2, h3⟩, h4⟩, ⟨h5, h6⟩, h7⟩
    refine ⟨⟨h2, h3, h4⟩, h1, h5, h6, fun i hi => ?_⟩
    obtain ⟨x, ⟨hx1, ⟨hx2, hx3⟩, hx4⟩, hx5⟩ := h7 i hi
    exact ⟨x, ⟨hx1, hx2, hx3, hx4⟩, hx5⟩
  · rintro ⟨⟨h2, h3, h4⟩, h1, h5, h6, h7⟩
    refine ⟨⟨h1, ⟨h2, h3⟩, h4⟩, ⟨h5, h6⟩, fun i hi => ?_⟩
    obtain ⟨x, ⟨hx1, hx2, hx3, hx4⟩, hx5⟩ := h7 i hi
    exact ⟨x, ⟨hx1, ⟨hx2, hx3⟩, hx4⟩, hx5⟩

theorem mem_scanList_crash (T : Tree) (mel : Nat) (order : List Nat) (s : State) (b : Nat) :
    b ∈ scanList T mel order (crash s) ↔ (s.stored b = true ∧ s.td b = none ∧ b ≠ 0) ∧ InHorizon T mel order s b :=
  mem_scanList_iff T mel order (crash s) b

/-- **restart_requeues_stored_unverified**: stop the node in ANY reachable state (any history, earlier
restarts included, verify queue and orphan pool in any condition) and start it again. Right after the
start-up scan — before the verify thread has done anything — every block that was stored without ext
inside the horizon
* is in the verify queue and marked pending, or is in the orphan pool again;
* it is in the pool only if its parent has no ext and is not pending (so: a block whose parent has an
  ext, or whose parent was itself re-queued, IS queued);
* its data is still stored, it has no ext yet, it is not marked BLOCK_INVALID, and it counts as received.
(No validity hypothesis: a contextually invalid block is queued too and fails later. "Verified" comes
with the verify steps: `tip_heaviest_after_restart`.) -/
theorem restart_requeues_stored_unverified (T : Tree) (s : State) (h : RReachable T s) (mel : Nat)
    (order : List Nat) (b : Nat) (hst : s.stored b = true) (hun : s.td b = none) (hb0 : b ≠ 0)
    (hw : InHorizon T mel order s b) :
    ((b ∈ (restart T mel order s).1.queue ∧ (restart T mel order s).1.pending b = true) ∨
      b ∈ (restart T mel order s).1.pool) ∧
    (((restart T mel order s).1.td (T.par b)).isSome = true ∨ (restart T mel order s).1.pending (T.par b) = true →
      b ∈ (restart T mel order s).1.queue ∧ (restart T mel order s).1.pending b = true) ∧
    (restart T mel order s).1.stored b = true ∧ (restart T mel order s).1.td b = none ∧
    (restart T mel order s).1.seen b = true ∧ (restart T mel order s).1.invalid b = false := by
  have hinv := inv_rreachable T s h
  obtain ⟨ops, hops⟩ := rreachable_reachable T s h
  have hnc : ∀ x ∈ scanList T mel order (crash s), x ≠ 0 ∧ T.nc x = true := by
    intro x hx
    obtain ⟨⟨h1, _, h3⟩, _⟩ := (mem_scanList_crash T mel order s x).mp hx
    rw [hops] at h1
    exact ⟨h3, (stored_reachable T ops x h3 h1).2⟩
  have hni : NoInv (crash s) := fun _ => rfl
  obtain ⟨k, m⟩ := run_delivers T _ (crash s) hni hnc
  have hmem : b ∈ scanList T mel order (crash s) := (mem_scanList_crash T mel order s b).mpr ⟨⟨hst, hun, hb0⟩, hw⟩
  obtain ⟨m1, m2, m3⟩ := m b hmem
  have hrun := restart_eq_run T mel order s
  unfold scanOps at hrun
  rw [← hrun] at k m1 m2 m3
  have htd : (restart T mel order s).1.td b = none := by rw [k.td]; exact hun
  have hinvb : (restart T mel order s).1.invalid b = false := k.noInv b
  have hfired : (restart T mel order s).1.expiryFired = false := by rw [k.fired]; rfl
  have hinv' : Inv T (restart T mel order s).1 := inv_rstep T s (.restart mel order) hinv
  have hlive := hinv'.live hfired
  have hq : b ∈ (restart T mel order s).1.queue → (restart T mel order s).1.pending b = true := by
    intro hbq
    rcases hlive.core.queueSt b hbq with h1 | h1 | h1
    · exact h1
    · rw [htd] at h1; simp at h1
    · rw [hinvb] at h1; simp at h1
  refine ⟨?_, ?_, m2, htd, m3, hinvb⟩
  · rcases m1 with h1 | h1
    · exact Or.inl ⟨h1, hq h1⟩
    · exact Or.inr h1
  · intro hpar
    rcases m1 with h1 | h1
    · exact ⟨h1, hq h1⟩
    · obtain ⟨p1, p2, _⟩ := hlive.poolPar b h1
      rcases hpar with hp | hp
      · rw [p2] at hp; simp at hp
      · rw [p1] at hp; simp at hp

/-! ## Liveness across a restart -/

/-- **tip_heaviest_after_restart** (the liveness clause). `s` is any state reachable with any number
of restarts; the node is stopped there and started again (`restart`); afterwards `more` runs — any
interleaving of deliveries, verify steps and expiry ticks, crash-free — and ends quiescent without an
expiry. HORIZON HYPOTHESIS `hwin`: every block stored without ext at the stop lies inside the scan
window. Then every fully valid chain formable from
  the blocks that had an ext at the stop, the blocks that were stored at the stop, and the blocks
  delivered after the restart
has accumulated work at most the tip's. Nothing that was stored needs to be delivered again: the scan
re-submits it. (Blocks that were received but NOT stored at the stop — rejected, deleted, expired — are
not in the set: they need re-delivery, like a block that was never sent.) -/
theorem tip_heaviest_after_restart (T : Tree) (s : State) (hs : RReachable T s) (mel : Nat) (order : List Nat)
    (more : List Op) (hcf : crashFree more)
    (hwin : ∀ x, s.stored x = true → s.td x = none → x ≠ 0 → InHorizon T mel order s x)
    (hq : Quiescent (run T (restart T mel order s).1 more))
    (hx : (run T (restart T mel order s).1 more).expiryFired = false)
    (b n : Nat)
    (hc : ChainIn T (fun x => (s.td x).isSome = true ∨ s.stored x = true ∨ x ∈ delivered more) b)
    (hn : TD T b n) : n ≤ (run T (restart T mel order s).1 more).tipTd := by
  have hinv0 := inv_rreachable T s hs
  have hinv : Inv T (run T (restart T mel order s).1 more) :=
    inv_run' more _ (inv_rstep T s (.restart mel order) hinv0)
  have hrun : run T (restart T mel order s).1 more = run T (crash s) (scanOps T mel order s ++ more) := by
    rw [restart_eq_run, run_append]
  have hcf' : crashFree (scanOps T mel order s ++ more) := by
    intro op hop
    rcases List.mem_append.mp hop with h1 | h1
    · exact crashFree_scanOps T mel order s op h1
    · exact hcf op h1
  have hseen : ∀ x, ((s.td x).isSome = true ∨ s.stored x = true ∨ x ∈ delivered more) →
      (run T (restart T mel order s).1 more).seen x = true := by
    intro x hxD
    rw [hrun, seen_run T _ _ hcf' x, delivered_append, delivered_scanOps]
    by_cases hx0 : x = 0
    · left; subst hx0; show (s.td 0).isSome = true; rw [hinv0.safe.gen.2]; rfl
    · rcases hxD with h1 | h1 | h1
      · exact Or.inl h1
      · cases htd : s.td x with
        | some m => left; show (s.td x).isSome = true; rw [htd]; rfl
        | none =>
          right
          exact ⟨hx0, List.mem_append_left _
            ((mem_scanList_crash T mel order s x).mpr ⟨⟨h1, htd, hx0⟩, hwin x h1 htd hx0⟩)⟩
      · exact Or.inr ⟨hx0, List.mem_append_right _ h1⟩
  exact tip_heaviest_at_quiescence T _ hinv hq hx b n (hc.mono hseen) hn

/-! ## Witnesses: the horizon matters, and a horizon of EXPIRED_EPOCH BLOCKS loses the heavier chain

Main chain 1..9 (work 1 each, genesis work 1), competing branch 10 ← 11 ← 12 from genesis where 11
carries work 20 (the branch is heavier: 1+1+20+1 = 23 > 10). Blocks 11 and 12 arrive before their
parent 10 (stored without ext, pooled; numbers 2 and 3: seven and six below the tip 9); the node is
stopped and started again; afterwards only the missing block 10 is delivered. -/

def m3Tree : Tree :=
  { parent := fun b => match b with | 10 => 0 | 0 => 0 | b + 1 => b
    num := fun b => match b with | 10 => 1 | 11 => 2 | 12 => 3 | b => b
    epoch := fun _ => 0
    work := fun b => if b = 11 then 20 else 1
    nc := fun b => decide (b ≤ 12)
    ok := fun _ => true }

/-- before the stop: 1..9 delivered and verified one by one, then the orphans 11, 12 -/
def m3Pre : List Op :=
  (List.range 9).flatMap (fun i => [Op.deliver (i + 1) [], Op.verify]) ++ [.deliver 11 [], .deliver 12 []]

def m3Order : List Nat := [1, 10, 2, 11, 3, 12, 4, 5, 6, 7, 8, 9]

/-- after the restart: only the never-stored block 10, then the verify thread runs -/
def m3More : List Op := [.deliver 10 [], .verify, .verify, .verify]

def m3Stop : State := run m3Tree (init m3Tree) m3Pre

def m3Final (mel : Nat) : State := run m3Tree (restart m3Tree mel m3Order m3Stop).1 m3More

theorem m3Stop_rreachable : RReachable m3Tree m3Stop := reachable_rreachable _ _ ⟨m3Pre, rfl⟩

/-- the chain genesis ← 10 ← 11 ← 12 is fully valid, formable from what was stored at the stop plus
what was delivered afterwards, and has work 23 -/
theorem m3_chain :
    ChainIn m3Tree (fun x => (m3Stop.td x).isSome = true ∨ m3Stop.stored x = true ∨ x ∈ delivered m3More) 12 ∧
    TD m3Tree 12 23 := by
  refine ⟨?_, ?_⟩
  · refine .step (b := 12) (by decide) (Or.inr (Or.inl (by decide +kernel))) (by decide) (by decide) ?_
    refine .step (b := 11) (by decide) (Or.inr (Or.inl (by decide +kernel))) (by decide) (by decide) ?_
    exact .step (b := 10) (by decide) (Or.inr (Or.inr (by decide))) (by decide) (by decide) .genesis
  · exact TD.step (b := 12) (n := 22) (by decide)
      (TD.step (b := 11) (n := 2) (by decide) (TD.step (b := 10) (n := 1) (by decide) TD.genesis))

set_option maxRecDepth 4096 in
/-- **horizon_mutant_breaks_liveness**: with a window of EXPIRED_EPOCH (6) BLOCKS below the tip — what
`scanList` computes for `maxEpochLen = 1`, i.e. the seeded regression
`tip_number.saturating_sub(EXPIRED_EPOCH)` — block 11 (number 2 < 9 − 6) is not re-submitted, its child
12 waits in the orphan pool for ever: the node is quiescent, no expiry fired, it has been given every
block, and its tip (work 10) is NOT maximal — the conclusion of `tip_heaviest_after_restart` fails. -/
theorem horizon_mutant_breaks_liveness :
    scanList m3Tree 1 m3Order (crash m3Stop) = [12] ∧
    Quiescent (m3Final 1) ∧ (m3Final 1).expiryFired = false ∧ crashFree m3More ∧
    (m3Final 1).tip = 9 ∧ (m3Final 1).tipTd = 10 ∧ (m3Final 1).pool = [12] ∧
    ¬ (∀ b n, ChainIn m3Tree (fun x => (m3Stop.td x).isSome = true ∨ m3Stop.stored x = true ∨ x ∈ delivered m3More) b →
        TD m3Tree b n → n ≤ (m3Final 1).tipTd) := by
  refine ⟨by decide +kernel, by decide +kernel, by decide +kernel, by decide, by decide +kernel,
    by decide +kernel, by decide +kernel, ?_⟩
  intro hall
  have h := hall 12 23 m3_chain.1 m3_chain.2
  have ht : (m3Final 1).tipTd = 10 := by decide +kernel
  rw [ht] at h
  exact absurd h (by decide)

set_option maxRecDepth 4096 in
/-- **horizon_hypothesis_needed**: the history violates the horizon hypothesis of
`tip_heaviest_after_restart` for the mutant window (block 11 is stored without ext outside it) … -/
theorem horizon_hypothesis_needed :
    RReachable m3Tree m3Stop ∧ m3Stop.stored 11 = true ∧ m3Stop.td 11 = none ∧
    ¬ InHorizon m3Tree 1 m3Order m3Stop 11 := by
  refine ⟨m3Stop_rreachable, by decide +kernel, by decide +kernel, ?_⟩
  intro h
  have : max 1 (m3Tree.num m3Stop.tip - EXPIRED_EPOCH * 1) ≤ m3Tree.num 11 := h.2.1
  revert this
  decide +kernel

set_option maxRecDepth 4096 in
/-- … and with the real window (six epochs of `MAX_EPOCH_LENGTH` = 1800 blocks) both stored orphans are
re-submitted, and the delivery of the one missing block makes the heavier branch the tip -/
example : scanList m3Tree 1800 m3Order (crash m3Stop) = [11, 12] ∧
    Quiescent (m3Final 1800) ∧ (m3Final 1800).expiryFired = false ∧
    (m3Final 1800).tip = 12 ∧ (m3Final 1800).tipTd = 23 := by
  decide +kernel

set_option maxRecDepth 4096 in
/-- non-vacuity of `tip_heaviest_after_restart`: all its hypotheses hold for the witness history with the
real window; its conclusion for the chain ending in 12 -/
example : 23 ≤ (m3Final 1800).tipTd := by
  have hpre : delivered m3Pre = [1, 2, 3, 4, 5, 6, 7, 8, 9, 11, 12] := by decide
  have hscan : scanList m3Tree 1800 m3Order (crash m3Stop) = [11, 12] := by decide +kernel
  have hwin : ∀ x, m3Stop.stored x = true → m3Stop.td x = none → x ≠ 0 → InHorizon m3Tree 1800 m3Order m3Stop x := by
    intro x h1 h2 h3
    have hmem := (stored_reachable m3Tree m3Pre x h3 h1).1
    rw [hpre] at hmem
    have h1112 : x = 11 ∨ x = 12 := by
      simp only [List.mem_cons, List.mem_nil_iff, or_false] at hmem
      rcases hmem with h | h | h | h | h | h | h | h | h | h | h
      all_goals first
        | exact Or.inl h
        | exact Or.inr h
        | (subst h; revert h2; decide +kernel)
    have : x ∈ scanList m3Tree 1800 m3Order (crash m3Stop) := by
      rw [hscan]; rcases h1112 with h | h <;> simp [h]
    exact ((mem_scanList_crash m3Tree 1800 m3Order m3Stop x).mp this).2
  exact tip_heaviest_after_restart m3Tree m3Stop m3Stop_rreachable 1800 m3Order m3More (by decide) hwin
    (by decide +kernel) (by decide +kernel) 12 23 m3_chain.1 m3_chain.2

set_option maxRecDepth 4096 in
/-- non-vacuity of `restart_requeues_stored_unverified`: block 12 is stored without ext inside the real
horizon of the stopped database; after the restart it is pooled again (its parent 11 too: 10 is missing) -/
example : m3Stop.stored 12 = true ∧ m3Stop.td 12 = none ∧ InHorizon m3Tree 1800 m3Order m3Stop 12 ∧
    (restart m3Tree 1800 m3Order m3Stop).1.pool = [12, 11] := by
  have hscan : scanList m3Tree 1800 m3Order (crash m3Stop) = [11, 12] := by decide +kernel
  have h12 : 12 ∈ scanList m3Tree 1800 m3Order (crash m3Stop) := by rw [hscan]; simp
  exact ⟨by decide +kernel, by decide +kernel, ((mem_scanList_crash m3Tree 1800 m3Order m3Stop 12).mp h12).2,
    by decide +kernel⟩

/-- a history with a restart in the middle, as one `ROp` sequence (non-vacuity of `inv_rreachable`,
`rstep_tip_moves_only_if_strictly_heavier`: the verify step after the restart moves the tip to 12) -/
def m3ROps : List ROp := m3Pre.map ROp.op ++ [.restart 1800 m3Order] ++ m3More.map ROp.op

set_option maxRecDepth 4096 in
example : (rrun m3Tree (init m3Tree) m3ROps).tip = 12 ∧ (rrun m3Tree (init m3Tree) m3ROps).tipTd = 23 ∧
    RReachable m3Tree (rrun m3Tree (init m3Tree) m3ROps) :=
  ⟨by decide +kernel, by decide +kernel, ⟨m3ROps, rfl⟩⟩

/-! ## Finding F7 as a model state: `no_panic_reachable` is false for the code as written

`Chain.pstep` (Model/Chain.lean) adds the dead-pipeline state: the verify / preload thread panics when the
block it takes from the queue has no data in the database any more. -/

/-- what one would like to have: no history makes a pipeline thread panic -/
def NoPanicReachable : Prop := ∀ (T : Tree) (ops : List Op), (prun T (pinit T) ops).dead = false

/-- **panic_reachable**: block 1 (a contextually invalid child of genesis) is delivered twice before the
verify thread runs; the first copy fails verification and is deleted; the second queued copy has no
block data: the thread panics (the harness scenario `f7`, KNOWN-FINDING
pipeline-dead-after-duplicate-of-failed-block). Two deliveries and two verify steps suffice. -/
theorem panic_reachable : ∃ (T : Tree) (ops : List Op),
    (prun T (pinit T) ops).dead = true ∧ delivered ops = [1, 1] ∧ crashFree ops :=
  ⟨dupTree, [.deliver 1 [], .deliver 1 [], .verify, .verify], by decide, by decide, by decide⟩

/-- **not_no_panic_reachable**: the negation of `no_panic_reachable`, for the code as written -/
theorem not_no_panic_reachable : ¬ NoPanicReachable := by
  intro h
  obtain ⟨T, ops, hd, _⟩ := panic_reachable
  rw [h T ops] at hd
  exact absurd hd (by decide)

/-- **no_panic_first_deliveries_partial**: in a history without process restart in which no block is
handed to the chain service twice (any arrival order, orphans, invalid blocks, any interleaving with
the verify thread and the expiry timer) no pipeline thread panics, and the pipeline behaves exactly as
the panic-free model the other theorems are about. PARTIAL: the full statement `NoPanicReachable`
(all histories) is false for the code as written (`not_no_panic_reachable`); what is missing is
exactly the histories with a second delivery of a block (or a restart's re-submission) while an
earlier copy can still fail and be deleted. -/
theorem no_panic_first_deliveries_partial (T : Tree) (ops : List Op) (hcf : crashFree ops)
    (hnd : (delivered ops).Nodup) :
    (prun T (pinit T) ops).dead = false ∧ (prun T (pinit T) ops).st = run T (init T) ops :=
  no_panic_aux T ops (pinit T) rfl (qs_init T) (seenOk_init T)
    (fun b _ _ => by simp [pinit, init]) hcf hnd

/-- non-vacuity: the example history of `Props/C01.lean` without its one duplicate delivery satisfies
the hypotheses (fork, orphans, an invalid block) -/
example : crashFree (exOps.eraseIdx 10) ∧ (delivered (exOps.eraseIdx 10)).Nodup ∧
    delivered (exOps.eraseIdx 10) = [2, 5, 4, 1, 6, 3] := by decide

end CkbVerif.C01
